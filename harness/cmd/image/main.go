// Command image drives image.FromV1Image (and unpack.UnpackSquashed) on generated container images
// built in memory, and writes (a) a Coq cases file, (b) a JSONL side file describing each case.
//
// One case = image (layers of tar entries + config history) + Config + probe paths, together with
// everything the real code returned: for every chain layer Stat / Open+ReadAll / ReadDir on every
// probe and fs.WalkDir from the root; plus the regular files UnpackSquashed leaves on disk.
package main

import (
	"archive/tar"
	"bytes"
	"encoding/json"
	"errors"
	"flag"
	"fmt"
	"io"
	"io/fs"
	"math/rand"
	"os"
	"path"
	"path/filepath"
	"sort"
	"strings"

	v1 "github.com/google/go-containerregistry/pkg/v1"
	"github.com/google/go-containerregistry/pkg/v1/empty"
	"github.com/google/go-containerregistry/pkg/v1/mutate"
	"github.com/google/go-containerregistry/pkg/v1/tarball"
	"github.com/google/osv-scalibr/artifact/image/layerscanning/image"
	"github.com/google/osv-scalibr/artifact/image/pathtree"
	"github.com/google/osv-scalibr/artifact/image/require"
	"github.com/google/osv-scalibr/artifact/image/unpack"

	cf "verifharness/internal/coqfmt"
)

// ---------------------------------------------------------------- case format (also the replay format)

type Entry struct {
	Name    string `json:"name"`
	Kind    string `json:"kind"` // dir reg sym hard other
	Mode    int64  `json:"mode"`
	Content string `json:"content,omitempty"`
	Target  string `json:"target,omitempty"`
}

type Cfg struct {
	Max   int64    `json:"max"`
	Depth int      `json:"depth"`
	Req   []string `json:"req"` // nil = require everything
}

type StatObs struct {
	R    string `json:"r"` // ok notexist cycle depth
	Name string `json:"name,omitempty"`
	Mode uint32 `json:"mode,omitempty"`
	Size int64  `json:"size,omitempty"`
}
type ReadObs struct {
	R string `json:"r"` // skip err ok
	C string `json:"c,omitempty"`
}
type DirEnt struct {
	Name string `json:"name"`
	Mode uint32 `json:"mode"`
	Size int64  `json:"size"`
}
type DirObs struct {
	R string   `json:"r"` // ok notexist cycle depth
	L []DirEnt `json:"l,omitempty"`
}
type WalkEnt struct {
	P   string `json:"p"`
	Dir bool   `json:"dir"`
	Err bool   `json:"err"`
}
type ViewObs struct {
	Stat   []StatObs `json:"stat"`
	Read   []ReadObs `json:"read"`
	Dir    []DirObs  `json:"dir"`
	Walk   []WalkEnt `json:"walk"`
	WalkOK bool      `json:"walk_ok"`
}
type FileObs struct {
	P string `json:"p"`
	C string `json:"c"`
}

type Case struct {
	Stream string    `json:"stream"`
	ID     string    `json:"id,omitempty"`
	Layers [][]Entry `json:"layers"`
	Hist   []bool    `json:"hist"`
	Cfg    Cfg       `json:"cfg"`
	Probes []string  `json:"probes"`
	Unpack bool      `json:"unpack"`
	Repeat int       `json:"repeat,omitempty"` // load this many more times (stop at the first different outcome)
	// observations
	LoadErr   string    `json:"load_err,omitempty"`
	Views     []ViewObs `json:"views,omitempty"`
	Unpacked  []FileObs `json:"unpacked,omitempty"`
	UnpackRan bool      `json:"unpack_ran"`
	UnpackErr string    `json:"unpack_err,omitempty"`
	once      bool      // exhaustive stream: load once
	Stable    bool      `json:"stable"` // second load gave the same observations
	Distinct  int       `json:"distinct_outcomes"`
}

// ---------------------------------------------------------------- building the image

func tarBytes(es []Entry) ([]byte, error) {
	var buf bytes.Buffer
	tw := tar.NewWriter(&buf)
	for _, e := range es {
		h := &tar.Header{Name: e.Name, Mode: e.Mode, Format: tar.FormatPAX}
		switch e.Kind {
		case "dir":
			h.Typeflag = tar.TypeDir
		case "reg":
			h.Typeflag = tar.TypeReg
			h.Size = int64(len(e.Content))
		case "sym":
			h.Typeflag = tar.TypeSymlink
			h.Linkname = e.Target
		case "hard":
			h.Typeflag = tar.TypeLink
			h.Linkname = e.Target
		default:
			h.Typeflag = tar.TypeFifo
		}
		if err := tw.WriteHeader(h); err != nil {
			return nil, err
		}
		if e.Kind == "reg" {
			if _, err := tw.Write([]byte(e.Content)); err != nil {
				return nil, err
			}
		}
	}
	if err := tw.Close(); err != nil {
		return nil, err
	}
	return buf.Bytes(), nil
}

func buildImage(c *Case) (v1.Image, error) {
	var layers []v1.Layer
	for _, es := range c.Layers {
		b, err := tarBytes(es)
		if err != nil {
			return nil, err
		}
		l, err := tarball.LayerFromOpener(func() (io.ReadCloser, error) { return io.NopCloser(bytes.NewReader(b)), nil })
		if err != nil {
			return nil, err
		}
		layers = append(layers, l)
	}
	img, err := mutate.AppendLayers(empty.Image, layers...)
	if err != nil {
		return nil, err
	}
	cfgFile, err := img.ConfigFile()
	if err != nil {
		return nil, err
	}
	cfgFile = cfgFile.DeepCopy()
	cfgFile.History = nil
	for i, e := range c.Hist {
		cfgFile.History = append(cfgFile.History, v1.History{CreatedBy: fmt.Sprintf("step %d", i), EmptyLayer: e})
	}
	return mutate.ConfigFile(img, cfgFile)
}

// ---------------------------------------------------------------- observing

func classify(err error) string {
	switch {
	case errors.Is(err, image.ErrSymlinkCycle):
		return "cycle"
	case errors.Is(err, image.ErrSymlinkDepthExceeded):
		return "depth"
	case errors.Is(err, fs.ErrNotExist):
		return "notexist"
	}
	panic("unclassified error: " + err.Error())
}

func requirer(c *Case) require.FileRequirer {
	if c.Cfg.Req == nil {
		return &require.FileRequirerAll{}
	}
	return require.NewFileRequirerPaths(c.Cfg.Req)
}

func observe(c *Case, img v1.Image) (views []ViewObs, loadErr string) {
	defer func() {
		if r := recover(); r != nil {
			views = nil
			loadErr = fmt.Sprintf("PANIC: %v", r)
		}
	}()
	cfg := &image.Config{MaxFileBytes: c.Cfg.Max, MaxSymlinkDepth: c.Cfg.Depth, Requirer: requirer(c)}
	im, err := image.FromV1Image(img, cfg)
	if err != nil {
		return nil, err.Error()
	}
	defer im.CleanUp()
	cls, err := im.ChainLayers()
	if err != nil {
		return nil, err.Error()
	}
	for _, cl := range cls {
		fsys := cl.FS()
		var v ViewObs
		for _, p := range c.Probes {
			var so StatObs
			var ro = ReadObs{R: "skip"}
			fi, err := fsys.Stat(p)
			if err != nil {
				so.R = classify(err)
			} else {
				so = StatObs{R: "ok", Name: fi.Name(), Mode: uint32(fi.Mode()), Size: fi.Size()}
				if fi.Mode().IsRegular() {
					f, err := fsys.Open(p)
					if err != nil {
						ro.R = "err"
					} else {
						b, err := io.ReadAll(f)
						_ = f.Close()
						if err != nil {
							ro.R = "err"
						} else {
							ro = ReadObs{R: "ok", C: string(b)}
						}
					}
				}
			}
			v.Stat = append(v.Stat, so)
			v.Read = append(v.Read, ro)
			var do DirObs
			des, err := fsys.ReadDir(p)
			if err != nil {
				do.R = classify(err)
			} else {
				do.R = "ok"
				for _, de := range des {
					sz := int64(-1)
					if info, err := de.Info(); err == nil {
						sz = info.Size()
					}
					do.L = append(do.L, DirEnt{Name: de.Name(), Mode: uint32(de.Type()), Size: sz})
				}
			}
			v.Dir = append(v.Dir, do)
		}
		v.WalkOK = true
		_ = fs.WalkDir(fsys, ".", func(p string, d fs.DirEntry, err error) error {
			if d == nil {
				v.WalkOK = false
				return nil
			}
			v.Walk = append(v.Walk, WalkEnt{P: p, Dir: d.IsDir(), Err: err != nil})
			if len(v.Walk) > 4000 { // a walk that does not end (a listing that leads back to itself)
				v.WalkOK = false
				v.Walk = v.Walk[:50]
				return fs.SkipAll
			}
			return nil
		})
		views = append(views, v)
	}
	return views, ""
}

func runUnpack(c *Case, img v1.Image) {
	c.UnpackRan = true
	base, err := os.MkdirTemp("", "verif-c04-unpack-*")
	if err != nil {
		c.UnpackErr = err.Error()
		return
	}
	defer os.RemoveAll(base)
	root := filepath.Join(base, "pad", "root")
	if err := os.MkdirAll(root, 0o755); err != nil {
		c.UnpackErr = err.Error()
		return
	}
	func() {
		defer func() {
			if r := recover(); r != nil {
				c.UnpackErr = fmt.Sprintf("PANIC: %v", r)
			}
		}()
		u, err := unpack.NewUnpacker(unpack.DefaultUnpackerConfig())
		if err != nil {
			c.UnpackErr = err.Error()
			return
		}
		if err := u.UnpackSquashed(root, img); err != nil {
			c.UnpackErr = err.Error()
		}
	}()
	if c.UnpackErr != "" {
		return
	}
	c.Unpacked = []FileObs{}
	_ = filepath.WalkDir(root, func(p string, d fs.DirEntry, err error) error {
		if err != nil || d == nil {
			return nil
		}
		if d.Type().IsRegular() {
			b, _ := os.ReadFile(p)
			rel, _ := filepath.Rel(root, p)
			c.Unpacked = append(c.Unpacked, FileObs{P: filepath.ToSlash(rel), C: string(b)})
		}
		return nil
	})
	sort.Slice(c.Unpacked, func(i, j int) bool { return c.Unpacked[i].P < c.Unpacked[j].P })
}

func runCase(c *Case) {
	img, err := buildImage(c)
	if err != nil {
		panic(fmt.Sprintf("cannot build image: %v (%+v)", err, c))
	}
	c.Views, c.LoadErr = observe(c, img)
	if c.once {
		c.Stable, c.Distinct = true, 1
		return
	}
	// Go map iteration order is random inside the implementation: a second load must agree
	v2, e2 := observe(c, img)
	a, _ := json.Marshal(c.Views)
	b, _ := json.Marshal(v2)
	c.Stable = bytes.Equal(a, b) && (c.LoadErr == "") == (e2 == "")
	c.Distinct = 1
	if !c.Stable {
		c.Distinct = 2
	}
	extra := c.Repeat
	if c.Stream == "links" && extra < 6 {
		extra = 6
	}
	for k := 0; k < extra && c.Distinct < 2; k++ {
		v3, _ := observe(c, img)
		b3, _ := json.Marshal(v3)
		if !bytes.Equal(a, b3) {
			c.Distinct = 2
		}
	}
	if c.Unpack {
		runUnpack(c, img)
	}
}

// ---------------------------------------------------------------- Coq printing

func coqEntry(e Entry) string {
	k := map[string]string{"dir": "KDir", "reg": "KReg", "sym": "KSym", "hard": "KHard"}[e.Kind]
	if k == "" {
		k = "KOther"
	}
	return fmt.Sprintf("{| e_name := %s; e_kind := %s; e_mode := %s; e_content := %s; e_target := %s |}",
		cf.Str(e.Name), k, cf.Z(e.Mode), cf.Str(e.Content), cf.Str(e.Target))
}

func coqStat(s StatObs) string {
	switch s.R {
	case "ok":
		return fmt.Sprintf("SOk %s %s %s", cf.Str(s.Name), cf.Z(int64(s.Mode)), cf.Z(s.Size))
	case "notexist":
		return "SNotExist"
	case "cycle":
		return "SCycle"
	}
	return "SDepth"
}

func coqRead(r ReadObs) string {
	switch r.R {
	case "ok":
		return "ROk " + cf.Str(r.C)
	case "err":
		return "RErr"
	}
	return "RSkip"
}

func coqDir(d DirObs) string {
	switch d.R {
	case "ok":
		var items []string
		for _, e := range d.L {
			items = append(items, fmt.Sprintf("(%s, %s, %s)", cf.Str(e.Name), cf.Z(int64(e.Mode)), cf.Z(e.Size)))
		}
		if len(items) == 0 {
			return "DOk []"
		}
		return "DOk " + cf.List(items)
	case "notexist":
		return "DNotExist"
	case "cycle":
		return "DCycle"
	}
	return "DDepth"
}

func coqView(v ViewObs) string {
	var st, rd, dr, wk []string
	for _, s := range v.Stat {
		st = append(st, coqStat(s))
	}
	for _, r := range v.Read {
		rd = append(rd, coqRead(r))
	}
	for _, d := range v.Dir {
		dr = append(dr, coqDir(d))
	}
	for _, w := range v.Walk {
		wk = append(wk, fmt.Sprintf("(%s, %s, %s)", cf.Str(w.P), cf.Bool(w.Dir), cf.Bool(w.Err)))
	}
	walk := "None"
	if v.WalkOK {
		walk = "(Some " + cf.List(wk) + ")"
	}
	return fmt.Sprintf("{| vo_stat := %s; vo_read := %s; vo_dir := %s; vo_walk := %s |}",
		cf.List(st), cf.List(rd), cf.List(dr), walk)
}

func coqCase(c *Case) string {
	var layers []string
	for _, es := range c.Layers {
		var items []string
		for _, e := range es {
			items = append(items, coqEntry(e))
		}
		layers = append(layers, cf.List(items))
	}
	var hist []string
	for _, h := range c.Hist {
		hist = append(hist, cf.Bool(h))
	}
	req := "None"
	if c.Cfg.Req != nil {
		var items []string
		for _, r := range c.Cfg.Req {
			items = append(items, cf.Str(r))
		}
		req = "(Some " + cf.List(items) + ")"
	}
	var probes []string
	for _, p := range c.Probes {
		probes = append(probes, cf.Str(p))
	}
	obs := "None"
	if c.LoadErr == "" {
		var vs []string
		for _, v := range c.Views {
			vs = append(vs, coqView(v))
		}
		obs = "(Some " + cf.List(vs) + ")"
	}
	unp := "None"
	if c.UnpackRan && c.UnpackErr == "" {
		var fsl []string
		for _, f := range c.Unpacked {
			fsl = append(fsl, fmt.Sprintf("(%s, %s)", cf.Str(f.P), cf.Str(f.C)))
		}
		unp = "(Some " + cf.List(fsl) + ")"
	}
	return fmt.Sprintf("{| c_img := {| im_layers := %s; im_hist := %s |};\n     c_cfg := {| cfg_max_bytes := %s; cfg_depth := %s; cfg_req := %s |};\n     c_probes := %s;\n     c_obs := %s;\n     c_unpack := %s |}",
		cf.List(layers), cf.List(hist), cf.Z(c.Cfg.Max), cf.Z(int64(c.Cfg.Depth)), req, cf.List(probes), obs, unp)
}

const header = `From Coq Require Import List ZArith NArith Bool.
From Scalibr Require Import Image.PathTree Image.Fill Image.Overlay Image.ImageCases.
Import ListNotations.
Open Scope Z_scope.
`

// ---------------------------------------------------------------- generation

var segsU = []string{"a", "b", "c", "etc", "x"}
var modes = []int64{0o644, 0o755, 0o600, 0o777, 0o700, 0, 0o1777, 0o4755, 0o2750, 0o6755, 0o1755, 0o7777, 0o4000, 0o3770}

// names that begin with dots but are neither "." / ".." nor whiteouts
var dotNames = []string{"..data", "..x", "...", ".hidden", ".whatever"}

type gen struct {
	r *rand.Rand
}

func (g *gen) pick(l []string) string { return l[g.r.Intn(len(l))] }

func (g *gen) relPath(maxDepth int) []string {
	d := 1 + g.r.Intn(maxDepth)
	// shallow paths more likely
	if d > 2 && g.r.Intn(3) == 0 {
		d = 1 + g.r.Intn(2)
	}
	var p []string
	for i := 0; i < d; i++ {
		if g.r.Intn(9) == 0 {
			p = append(p, g.pick(dotNames))
		} else {
			p = append(p, g.pick(segsU[:3+g.r.Intn(3)]))
		}
	}
	return p
}

// decorate renders a clean relative path with the noise the property text lists
func (g *gen) decorate(p []string, isDir bool, noise int) string {
	s := strings.Join(p, "/")
	switch x := g.r.Intn(100); {
	case x < noise:
		s = "./" + s
	case x < noise+noise/2:
		s = "/" + s
	case x < noise+noise/2+noise/6 && len(p) > 1:
		s = p[0] + "//" + strings.Join(p[1:], "/")
	case x < noise+noise/2+noise/3 && len(p) > 1:
		s = p[0] + "/./" + strings.Join(p[1:], "/")
	}
	if isDir && g.r.Intn(3) == 0 {
		s += "/"
	}
	return s
}

var contentSeq int

func (g *gen) content() string {
	contentSeq++
	n := g.r.Intn(10)
	if g.r.Intn(6) == 0 {
		n = 0
	}
	s := fmt.Sprintf("%d:", contentSeq)
	for len(s) < n {
		s += string(rune('a' + g.r.Intn(26)))
	}
	if n == 0 && g.r.Intn(2) == 0 {
		return ""
	}
	return s
}

func withBase(p []string, b string) []string {
	q := append([]string{}, p[:len(p)-1]...)
	return append(q, b)
}

// random layer: arbitrary entries over the small universe
func (g *gen) randomLayer(noise int, weird bool) []Entry {
	n := g.r.Intn(6)
	if g.r.Intn(8) == 0 {
		n = 0
	}
	var es []Entry
	for i := 0; i < n; i++ {
		p := g.relPath(4)
		m := modes[g.r.Intn(len(modes))]
		switch x := g.r.Intn(100); {
		case x < 25:
			es = append(es, Entry{Name: g.decorate(p, true, noise), Kind: "dir", Mode: m})
		case x < 62:
			es = append(es, Entry{Name: g.decorate(p, false, noise), Kind: "reg", Mode: m, Content: g.content()})
		case x < 72:
			es = append(es, Entry{Name: g.decorate(p, false, noise), Kind: "sym", Mode: 0o777, Target: g.target(p, weird)})
		case x < 92:
			es = append(es, Entry{Name: g.decorate(withBase(p, ".wh."+p[len(p)-1]), false, noise), Kind: "reg", Mode: 0})
		case x < 97:
			es = append(es, Entry{Name: g.decorate(append(append([]string{}, p...), ".wh..wh..opq"), false, noise), Kind: "reg", Mode: 0})
		default:
			if weird {
				es = append(es, g.weirdEntry(p))
			} else {
				es = append(es, Entry{Name: g.decorate(p, false, noise), Kind: "reg", Mode: m, Content: g.content()})
			}
		}
		// sometimes add the explicit parents in front
		if g.r.Intn(3) == 0 && len(p) > 1 {
			var pre []Entry
			for k := 1; k < len(p); k++ {
				pre = append(pre, Entry{Name: g.decorate(p[:k], true, noise), Kind: "dir", Mode: 0o755})
			}
			last := es[len(es)-1]
			es = append(append(es[:len(es)-1], pre...), last)
		}
	}
	if g.r.Intn(3) == 0 {
		g.r.Shuffle(len(es), func(i, j int) { es[i], es[j] = es[j], es[i] })
	}
	return es
}

func (g *gen) target(p []string, weird bool) string {
	q := g.relPath(3)
	switch x := g.r.Intn(10); {
	case x < 4:
		return "/" + strings.Join(q, "/")
	case x < 7:
		return strings.Join(q, "/")
	case x < 9:
		return "../" + strings.Join(q, "/")
	}
	if weird {
		return []string{"../../../" + q[0], "/../" + q[0], "/" + q[0] + "/../" + q[0], "."}[g.r.Intn(4)]
	}
	return q[0]
}

func (g *gen) weirdEntry(p []string) Entry {
	s := strings.Join(p, "/")
	switch g.r.Intn(8) {
	case 0:
		return Entry{Name: "../" + s, Kind: "reg", Mode: 0o644, Content: g.content()}
	case 1:
		return Entry{Name: p[0] + "/../" + s, Kind: "reg", Mode: 0o644, Content: g.content()}
	case 2:
		return Entry{Name: s, Kind: "hard", Mode: 0o644, Target: strings.Join(g.relPath(2), "/")}
	case 3:
		return Entry{Name: s, Kind: "other", Mode: 0o644}
	case 4:
		return Entry{Name: "./", Kind: "dir", Mode: 0o755}
	case 5:
		return Entry{Name: "/", Kind: "dir", Mode: 0o755}
	case 6:
		return Entry{Name: ".", Kind: "dir", Mode: 0o755}
	}
	return Entry{Name: s + "/..", Kind: "dir", Mode: 0o755}
}

// diff layer: what a build step produces from the current tree (explicit parents first)
type tnode struct {
	dir  bool
	sym  bool
	kids map[string]*tnode
}

func (t *tnode) lookup(p []string) *tnode {
	c := t
	for _, s := range p {
		if c == nil || !c.dir {
			return nil
		}
		c = c.kids[s]
	}
	return c
}

func (g *gen) diffLayer(root *tnode, explicitParents bool, noise int) []Entry {
	var es []Entry
	emitted := map[string]bool{}
	parents := func(p []string) {
		c := root
		for k := 0; k < len(p)-1; k++ {
			n := c.kids[p[k]]
			if n == nil || !n.dir {
				n = &tnode{dir: true, kids: map[string]*tnode{}}
				c.kids[p[k]] = n
			}
			key := strings.Join(p[:k+1], "/")
			if explicitParents && !emitted[key] {
				emitted[key] = true
				es = append(es, Entry{Name: g.decorate(p[:k+1], true, noise), Kind: "dir", Mode: []int64{0o755, 0o755, 0o1777, 0o2755}[g.r.Intn(4)]})
			}
			c = n
		}
	}
	n := 1 + g.r.Intn(5)
	for i := 0; i < n; i++ {
		p := g.relPath(4)
		key := strings.Join(p, "/")
		if emitted[key] {
			continue
		}
		// do not touch anything below something this layer already replaced or deleted
		blocked := false
		for k := 1; k <= len(p); k++ {
			if emitted["!"+strings.Join(p[:k], "/")] {
				blocked = true
			}
		}
		for e := range emitted {
			if strings.HasPrefix(e, key+"/") || strings.HasPrefix(e, "!"+key+"/") {
				blocked = true
			}
		}
		if blocked {
			continue
		}
		cur := root.lookup(p)
		m := modes[g.r.Intn(len(modes))]
		switch x := g.r.Intn(100); {
		case x < 30 && cur != nil: // delete
			par := root.lookup(p[:len(p)-1])
			if par == nil {
				continue
			}
			parents(p)
			delete(par.kids, p[len(p)-1])
			emitted["!"+key] = true
			es = append(es, Entry{Name: g.decorate(withBase(p, ".wh."+p[len(p)-1]), false, noise), Kind: "reg", Mode: 0})
		case x < 50: // mkdir
			parents(p)
			par := root.lookup(p[:len(p)-1])
			if cur == nil || !cur.dir {
				par.kids[p[len(p)-1]] = &tnode{dir: true, kids: map[string]*tnode{}}
			}
			emitted[key] = true
			es = append(es, Entry{Name: g.decorate(p, true, noise), Kind: "dir", Mode: m})
		case x < 58: // symlink
			parents(p)
			par := root.lookup(p[:len(p)-1])
			par.kids[p[len(p)-1]] = &tnode{sym: true}
			emitted["!"+key] = true
			emitted[key] = true
			es = append(es, Entry{Name: g.decorate(p, false, noise), Kind: "sym", Mode: 0o777, Target: g.target(p, false)})
		default: // write file
			parents(p)
			par := root.lookup(p[:len(p)-1])
			par.kids[p[len(p)-1]] = &tnode{}
			emitted["!"+key] = true
			emitted[key] = true
			es = append(es, Entry{Name: g.decorate(p, false, noise), Kind: "reg", Mode: m, Content: g.content()})
		}
	}
	if !explicitParents && g.r.Intn(2) == 0 {
		g.r.Shuffle(len(es), func(i, j int) { es[i], es[j] = es[j], es[i] })
	}
	return es
}

func cleanRel(name string) (string, bool) {
	c := path.Clean(name)
	c = strings.TrimPrefix(c, "/")
	if c == "." || c == "" || c == ".." || strings.HasPrefix(c, "../") {
		return "", false
	}
	return c, true
}

func (g *gen) probes(c *Case) []string {
	set := map[string]bool{".": true}
	add := func(p string) {
		if p != "" {
			set[p] = true
		}
	}
	for _, es := range c.Layers {
		for _, e := range es {
			cl, ok := cleanRel(e.Name)
			if !ok {
				continue
			}
			parts := strings.Split(cl, "/")
			b := parts[len(parts)-1]
			if strings.HasPrefix(b, ".wh.") && e.Kind != "dir" {
				add(cl) // the marker name itself
				if t := strings.TrimPrefix(b, ".wh."); t != "" {
					parts[len(parts)-1] = t
				} else {
					parts = parts[:len(parts)-1]
				}
			}
			for k := 1; k <= len(parts); k++ {
				add(strings.Join(parts[:k], "/"))
			}
			if strings.HasPrefix(e.Name, "/") {
				add("/" + path.Clean(e.Name)) // where an absolute name really lands
			}
		}
	}
	var l []string
	for p := range set {
		l = append(l, p)
	}
	sort.Strings(l)
	if len(l) > 26 {
		g.r.Shuffle(len(l), func(i, j int) { l[i], l[j] = l[j], l[i] })
		l = l[:26]
		sort.Strings(l)
	}
	// a few alternative spellings and one path nobody mentions
	for i, p := range l {
		if p != "." && !strings.HasPrefix(p, "/") && g.r.Intn(6) == 0 {
			l[i] = "/" + p
		}
	}
	l = append(l, "zz/none")
	return l
}

func (g *gen) config(c *Case) Cfg {
	cfg := Cfg{Max: 1 << 30, Depth: 6}
	switch x := g.r.Intn(10); {
	case x < 5:
	case x < 7:
		cfg.Max = int64(4 + g.r.Intn(8))
	case x < 9:
		var all []string
		for _, p := range c.Probes {
			if p != "." && p != "zz/none" {
				all = append(all, p)
			}
		}
		cfg.Req = []string{}
		for _, p := range all {
			if g.r.Intn(3) == 0 {
				if g.r.Intn(2) == 0 && !strings.HasPrefix(p, "/") {
					p = "/" + p
				}
				cfg.Req = append(cfg.Req, p)
			}
		}
	default:
		cfg.Depth = g.r.Intn(3)
	}
	return cfg
}

func (g *gen) history(n int) []bool {
	switch x := g.r.Intn(10); {
	case x < 4: // one entry per layer
		return make([]bool, n)
	case x < 8: // empty layers sprinkled in
		var h []bool
		for i := 0; i < n; i++ {
			for g.r.Intn(3) == 0 {
				h = append(h, true)
			}
			h = append(h, false)
		}
		for g.r.Intn(3) == 0 {
			h = append(h, true)
		}
		return h
	case x < 9: // no history
		return []bool{}
	}
	// inconsistent history
	var h []bool
	for i := 0; i < n+g.r.Intn(3)-1; i++ {
		h = append(h, g.r.Intn(3) == 0)
	}
	if h == nil {
		h = []bool{}
	}
	return h
}

func (g *gen) genCase(stream string) *Case {
	c := &Case{Stream: stream}
	nl := 1 + g.r.Intn(4)
	switch stream {
	case "diff-explicit", "diff-implicit":
		root := &tnode{dir: true, kids: map[string]*tnode{}}
		noise := []int{0, 0, 12}[g.r.Intn(3)]
		if stream == "diff-explicit" {
			noise = []int{0, 0, 8}[g.r.Intn(3)]
		}
		for i := 0; i < nl; i++ {
			es := g.diffLayer(root, stream == "diff-explicit", noise)
			if stream == "diff-explicit" {
				// "./"-style decoration only: absolute names leave D
				for k := range es {
					if strings.HasPrefix(es[k].Name, "/") {
						es[k].Name = "." + es[k].Name
					}
				}
			}
			c.Layers = append(c.Layers, es)
		}
	case "random":
		for i := 0; i < nl; i++ {
			c.Layers = append(c.Layers, g.randomLayer(18, false))
		}
	case "links":
		// chains of links plus requirers and small depths: exercises the marking in removeUnnecessaryFileNodes
		names := []string{"s1", "s2", "s3", "f", "g", "d/t"}
		for i := 0; i < nl; i++ {
			var es []Entry
			n := 1 + g.r.Intn(4)
			for k := 0; k < n; k++ {
				nm := names[g.r.Intn(len(names))]
				switch g.r.Intn(10) {
				case 0, 1, 2:
					es = append(es, Entry{Name: nm, Kind: "reg", Mode: 0o644, Content: g.content()})
				case 3:
					par := nm
					if strings.Contains(nm, "/") {
						par = "d/.wh.t"
					} else {
						par = ".wh." + nm
					}
					es = append(es, Entry{Name: par, Kind: "reg", Mode: 0})
				default:
					t := names[g.r.Intn(len(names))]
					if g.r.Intn(2) == 0 {
						t = "/" + t
					} else if strings.Contains(nm, "/") {
						t = "../" + t
					}
					es = append(es, Entry{Name: nm, Kind: "sym", Mode: 0o777, Target: t})
				}
			}
			c.Layers = append(c.Layers, es)
		}
	default: // malformed
		for i := 0; i < nl; i++ {
			c.Layers = append(c.Layers, g.randomLayer(30, true))
		}
	}
	for i := range c.Layers {
		if c.Layers[i] == nil {
			c.Layers[i] = []Entry{}
		}
	}
	c.Hist = g.history(len(c.Layers))
	c.Probes = g.probes(c)
	c.Cfg = g.config(c)
	if stream == "links" {
		c.Cfg = Cfg{Max: 1 << 30, Depth: g.r.Intn(4)}
		if g.r.Intn(3) > 0 {
			c.Cfg.Req = []string{}
			for _, p := range []string{"s1", "s2", "s3", "f", "g", "d/t"} {
				if g.r.Intn(2) == 0 {
					c.Cfg.Req = append(c.Cfg.Req, p)
				}
			}
		}
	}
	c.Unpack = c.Cfg.Req == nil && c.Cfg.Max == 1<<30 && g.r.Intn(2) == 0
	return c
}

// ---------------------------------------------------------------- pinned boundary cases (run first, every time)

func pinnedCases() []*Case {
	d := func(n string, m int64) Entry { return Entry{Name: n, Kind: "dir", Mode: m} }
	f := func(n string, m int64, c string) Entry { return Entry{Name: n, Kind: "reg", Mode: m, Content: c} }
	def := Cfg{Max: 1 << 30, Depth: 6}
	return []*Case{
		// names that merely begin with dots, top level and nested; squashed unpack must keep them
		{Stream: "pinned", Layers: [][]Entry{
			{d("..data", 0o755), f("..data/config", 0o644, "cfg"), f("..version", 0o644, "1"), f("...", 0o600, "dots"),
				f(".hidden", 0o644, "h"), f(".whatever", 0o644, "w"), d("etc", 0o755), d("etc/..d", 0o755), f("etc/..d/x", 0o644, "x")},
			{d("..data", 0o755), f("..data/config", 0o644, "cfg2"), d("etc", 0o755), f("etc/.wh...x", 0, "")}},
			Hist: []bool{false, false}, Cfg: def, Unpack: true,
			Probes: []string{".", "/", "..data", "/..data", "./..data", "..data/config", "/..data/config", "..version", "/..version", "...", "/...",
				".hidden", "/.hidden", "./.hidden", ".whatever", "/.whatever", "etc", "etc/..d", "/etc/..d", "etc/..d/x", "etc/..x", "zz/none"}},
		// directories replaced by symbolic links (to a file, to a directory, dangling): the former contents must
		// be gone for direct lookups too
		{Stream: "pinned", Layers: [][]Entry{
			{d("d1", 0o755), f("d1/x", 0o644, "x1"), d("d1/sub", 0o755), f("d1/sub/z", 0o644, "z1"),
				d("d2", 0o755), f("d2/x", 0o644, "x2"), d("d2/sub", 0o755), f("d2/sub/z", 0o644, "z2"),
				d("d3", 0o755), f("d3/x", 0o644, "x3"), d("d3/sub", 0o755), f("d3/sub/z", 0o644, "z3"),
				d("t", 0o755), f("t/x", 0o644, "tx"), f("file", 0o644, "ff")},
			{Entry{Name: "d1", Kind: "sym", Mode: 0o777, Target: "/file"}, Entry{Name: "d2", Kind: "sym", Mode: 0o777, Target: "t"},
				Entry{Name: "d3", Kind: "sym", Mode: 0o777, Target: "/nowhere"}}},
			Hist: []bool{false, false}, Cfg: def,
			Probes: []string{".", "d1", "d1/x", "d1/sub", "d1/sub/z", "d2", "d2/x", "/d2/x", "d2/sub", "d2/sub/z", "d3", "d3/x", "d3/sub", "d3/sub/z",
				"t", "t/x", "file", "zz/none"}},
		// setuid / setgid / sticky on files and explicit directories, in every view
		{Stream: "pinned", Layers: [][]Entry{
			{d("tmp", 0o1777), d("bin", 0o755), f("bin/su", 0o4755, "su"), d("srv", 0o2750), f("srv/g", 0o2644, "g"), f("all", 0o7777, "all")},
			{d("tmp", 0o1777), f("tmp/x", 0o600, "x"), d("bin", 0o755), f("bin/su", 0o6755, "su2")}},
			Hist: []bool{false, false}, Cfg: def, Unpack: true,
			Probes: []string{".", "tmp", "tmp/x", "bin", "bin/su", "srv", "srv/g", "all", "zz/none"}},
	}
}

// ---------------------------------------------------------------- exhaustive small scope

// every image with 2 layers of at most 2 members each over the names a, b, a/b and the member kinds
// directory / regular file / whiteout (91 x 91 images), default config
func exhaustiveCases() []*Case {
	shapes := func(tag string) []Entry {
		var l []Entry
		for _, p := range []string{"a", "b", "a/b"} {
			wh := ".wh." + p
			if p == "a/b" {
				wh = "a/.wh.b"
			}
			l = append(l, Entry{Name: p, Kind: "dir", Mode: 0o755}, Entry{Name: p, Kind: "reg", Mode: 0o644, Content: tag + ":" + p},
				Entry{Name: wh, Kind: "reg", Mode: 0})
		}
		return l
	}
	layers := func(tag string) [][]Entry {
		sh := shapes(tag)
		out := [][]Entry{{}}
		for _, x := range sh {
			out = append(out, []Entry{x})
		}
		for _, x := range sh {
			for _, y := range sh {
				out = append(out, []Entry{x, y})
			}
		}
		return out
	}
	var cases []*Case
	for _, l0 := range layers("L0") {
		for _, l1 := range layers("L1") {
			cases = append(cases, &Case{Stream: "exhaustive-2x2", Layers: [][]Entry{l0, l1}, Hist: []bool{false, false},
				Cfg: Cfg{Max: 1 << 30, Depth: 6}, Probes: []string{".", "a", "b", "a/b", "zz/none"}, once: true})
		}
	}
	return cases
}

// ---------------------------------------------------------------- pathtree operation sequences

type POp struct {
	Op   string `json:"op"` // insert get children remove walk
	Path string `json:"path,omitempty"`
	Val  uint64 `json:"val,omitempty"`
}
type PObs struct {
	Code     int        `json:"code,omitempty"`
	Val      *uint64    `json:"val,omitempty"`
	Children []uint64   `json:"children,omitempty"`
	Nil      bool       `json:"nil,omitempty"`
	Walk     [][]string `json:"walk,omitempty"`
}
type PCase struct {
	Ops []POp  `json:"ops"`
	Obs []PObs `json:"obs"`
}

var ptPaths = []string{"/", "/a", "/b", "/a/b", "/a/c", "/a/b/c", "/a/b/d", "/a/b/c/d", "/b/c", "/b/c/d", "/a/", "/a//b", "a", ""}

func runPCase(c *PCase) {
	t := pathtree.NewNode[uint64]()
	for _, o := range c.Ops {
		var ob PObs
		switch o.Op {
		case "insert":
			v := o.Val
			err := t.Insert(o.Path, &v)
			switch {
			case err == nil:
				ob.Code = 0
			case errors.Is(err, pathtree.ErrNodeAlreadyExists):
				ob.Code = 1
			default:
				ob.Code = 2
			}
		case "get":
			if v := t.Get(o.Path); v != nil {
				x := *v
				ob.Val = &x
			}
		case "remove":
			if v := t.Remove(o.Path); v != nil {
				x := *v
				ob.Val = &x
			}
		case "children":
			ch := t.GetChildren(o.Path)
			if ch == nil {
				ob.Nil = true
			} else {
				ob.Children = []uint64{}
				for _, v := range ch {
					ob.Children = append(ob.Children, *v)
				}
				sort.Slice(ob.Children, func(i, j int) bool { return ob.Children[i] < ob.Children[j] })
			}
		default:
			ob.Walk = [][]string{}
			_ = t.Walk(func(p string, v *uint64) error {
				ob.Walk = append(ob.Walk, []string{p, fmt.Sprint(*v)})
				return nil
			})
			sort.Slice(ob.Walk, func(i, j int) bool { return ob.Walk[i][0] < ob.Walk[j][0] })
		}
		c.Obs = append(c.Obs, ob)
	}
}

func genPCase(r *rand.Rand, next *uint64) *PCase {
	c := &PCase{}
	n := 6 + r.Intn(12)
	for i := 0; i < n; i++ {
		p := ptPaths[r.Intn(len(ptPaths))]
		switch x := r.Intn(100); {
		case x < 40:
			*next++
			c.Ops = append(c.Ops, POp{Op: "insert", Path: p, Val: *next})
		case x < 55:
			c.Ops = append(c.Ops, POp{Op: "get", Path: p})
		case x < 65:
			c.Ops = append(c.Ops, POp{Op: "children", Path: p})
		case x < 88:
			c.Ops = append(c.Ops, POp{Op: "remove", Path: p})
		default:
			c.Ops = append(c.Ops, POp{Op: "walk"})
		}
	}
	// always end with a full dump
	c.Ops = append(c.Ops, POp{Op: "walk"})
	for _, p := range []string{"/", "/a", "/b", "/a/b", "/b/c"} {
		c.Ops = append(c.Ops, POp{Op: "children", Path: p}, POp{Op: "get", Path: p})
	}
	return c
}

func coqPCase(c *PCase) string {
	var ops, obs []string
	for _, o := range c.Ops {
		switch o.Op {
		case "insert":
			ops = append(ops, fmt.Sprintf("PInsert %s %s", cf.Str(o.Path), cf.N(o.Val)))
		case "get":
			ops = append(ops, "PGet "+cf.Str(o.Path))
		case "children":
			ops = append(ops, "PChildren "+cf.Str(o.Path))
		case "remove":
			ops = append(ops, "PRemove "+cf.Str(o.Path))
		default:
			ops = append(ops, "PWalk")
		}
	}
	for i, ob := range c.Obs {
		switch c.Ops[i].Op {
		case "insert":
			obs = append(obs, fmt.Sprintf("OInsert %s", cf.N(uint64(ob.Code))))
		case "get", "remove":
			if ob.Val == nil {
				obs = append(obs, "OValue None")
			} else {
				obs = append(obs, fmt.Sprintf("OValue (Some %s)", cf.N(*ob.Val)))
			}
		case "children":
			if ob.Nil {
				obs = append(obs, "OChildren None")
			} else {
				var l []string
				for _, v := range ob.Children {
					l = append(l, cf.N(v))
				}
				obs = append(obs, "OChildren (Some "+cf.List(l)+")")
			}
		default:
			var l []string
			for _, w := range ob.Walk {
				l = append(l, fmt.Sprintf("(%s, %s%%N)", cf.Str(w[0]), w[1]))
			}
			obs = append(obs, "OWalk "+cf.List(l))
		}
	}
	return fmt.Sprintf("{| pc_ops := %s;\n     pc_obs := %s |}", cf.List(ops), cf.List(obs))
}

const pheader = `From Coq Require Import List NArith Bool.
From Scalibr Require Import Image.PathTree Image.PathMap.
Import ListNotations.
`

func pathtreeMain(out, jsonl string, seed int64, n, per int) {
	r := rand.New(rand.NewSource(seed*7919 + 13))
	var next uint64
	var cases []*PCase
	// the sequence from the seeded-change report first: Insert(/a), Insert(/a/f), Remove(/a/f), Get(/a)
	cases = append(cases, &PCase{Ops: []POp{{Op: "insert", Path: "/a", Val: 1}, {Op: "insert", Path: "/a/f", Val: 2},
		{Op: "remove", Path: "/a/f"}, {Op: "get", Path: "/a"}, {Op: "children", Path: "/"}, {Op: "walk"}}})
	for i := 0; i < n; i++ {
		cases = append(cases, genPCase(r, &next))
	}
	for _, c := range cases {
		runPCase(c)
	}
	if jsonl != "" {
		f, err := os.Create(jsonl)
		if err != nil {
			panic(err)
		}
		enc := json.NewEncoder(f)
		for _, c := range cases {
			_ = enc.Encode(c)
		}
		f.Close()
	}
	var items []string
	for _, c := range cases {
		items = append(items, coqPCase(c))
	}
	txt := pheader + cf.Chunked("cases", "pcase", items, per)
	if err := os.WriteFile(out, []byte(txt), 0o644); err != nil {
		panic(err)
	}
}

// ---------------------------------------------------------------- main

func main() {
	out := flag.String("out", "", "Coq cases file")
	jsonl := flag.String("jsonl", "", "JSONL side file")
	seed := flag.Int64("seed", 1, "PRNG seed")
	n := flag.Int("n", 200, "number of generated cases")
	per := flag.Int("per", 10, "cases per Coq chunk")
	replay := flag.String("replay", "", "JSON file with one case (or a list of cases / known findings with a 'witness') to run instead of generating")
	exh := flag.Bool("exh", false, "enumerate the exhaustive 2-layer family instead of generating")
	pt := flag.Int("pathtree", -1, "generate this many pathtree operation sequences instead of images")
	flag.Parse()
	if *pt >= 0 {
		pathtreeMain(*out, *jsonl, *seed, *pt, *per)
		return
	}

	var cases []*Case
	if *replay != "" {
		b, err := os.ReadFile(*replay)
		if err != nil {
			panic(err)
		}
		var raw any
		if err := json.Unmarshal(b, &raw); err != nil {
			panic(err)
		}
		var objs []any
		switch t := raw.(type) {
		case []any:
			objs = t
		default:
			objs = []any{t}
		}
		for _, o := range objs {
			m := o.(map[string]any)
			id, _ := m["id"].(string)
			if w, ok := m["witness"]; ok {
				o = w
			} else if w, ok := m["case"]; ok {
				o = w
			}
			bb, _ := json.Marshal(o)
			c := &Case{}
			if err := json.Unmarshal(bb, c); err != nil {
				panic(err)
			}
			if c.ID == "" {
				c.ID = id
			}
			c.Views, c.Unpacked, c.LoadErr, c.UnpackErr = nil, nil, "", ""
			for i := range c.Layers {
				if c.Layers[i] == nil {
					c.Layers[i] = []Entry{}
				}
			}
			if c.Hist == nil {
				c.Hist = []bool{}
			}
			cases = append(cases, c)
		}
	} else if *exh {
		cases = exhaustiveCases()
	} else {
		g := &gen{r: rand.New(rand.NewSource(*seed))}
		streams := []string{"diff-explicit", "diff-explicit", "diff-implicit", "diff-implicit", "random", "random", "malformed", "links"}
		cases = append(cases, pinnedCases()...)
		for i := len(cases); i < *n; i++ {
			cases = append(cases, g.genCase(streams[i%len(streams)]))
		}
	}
	for _, c := range cases {
		runCase(c)
	}
	if *jsonl != "" {
		f, err := os.Create(*jsonl)
		if err != nil {
			panic(err)
		}
		enc := json.NewEncoder(f)
		for _, c := range cases {
			_ = enc.Encode(c)
		}
		f.Close()
	}
	if *out != "" {
		var items []string
		for _, c := range cases {
			items = append(items, coqCase(c))
		}
		txt := header + cf.Chunked("cases", "icase", items, *per)
		if err := os.WriteFile(*out, []byte(txt), 0o644); err != nil {
			panic(err)
		}
	}
	if *replay != "" && *out == "" {
		for _, c := range cases {
			b, _ := json.MarshalIndent(c, "", " ")
			fmt.Println(string(b))
			fmt.Println("coq-case: " + strings.ReplaceAll(coqCase(c), "\n", " "))
		}
	}
}

package main

import (
	"fmt"
	"math/rand"
	"strings"

	"github.com/google/osv-scalibr/extractor/filesystem/os/apk"
)

type kv struct {
	K string `json:"k"`
	V string `json:"v"`
}

type apkRec struct {
	Name    string `json:"name"`
	Version string `json:"version"`
	Extras  []kv   `json:"extras,omitempty"`
}

type apkRLay struct {
	PosV int    `json:"posV"`
	PosP int    `json:"posP"`
	Eols []bool `json:"eols_crlf,omitempty"`
	Sep1 bool   `json:"sep1_crlf"`
	Sep  []bool `json:"sep_crlf,omitempty"`
}

type apkLayout struct {
	Lead    []bool    `json:"lead_crlf,omitempty"`
	Recs    []apkRLay `json:"recs"`
	Trail   []bool    `json:"trail_crlf,omitempty"`
	FinalNL bool      `json:"final_nl"`
}

type apkClaim struct {
	Records []apkRec  `json:"records"`
	Layout  apkLayout `json:"layout"`
}

func insertAt[T any](n int, x T, l []T) []T {
	if n > len(l) {
		n = len(l)
	}
	out := make([]T, 0, len(l)+1)
	out = append(out, l[:n]...)
	out = append(out, x)
	return append(out, l[n:]...)
}

// renderApk mirrors Formats/Apk.v: render_apk (checked by Coq on every case).
func renderApk(rs []apkRec, l apkLayout) []byte {
	var ls []line
	for _, e := range l.Lead {
		ls = append(ls, line{"", e})
	}
	for i, r := range rs {
		y := apkRLay{}
		if i < len(l.Recs) {
			y = l.Recs[i]
		}
		fields := insertAt(y.PosP, kv{"P", r.Name}, insertAt(y.PosV, kv{"V", r.Version}, r.Extras))
		for j, f := range fields {
			e := false
			if j < len(y.Eols) {
				e = y.Eols[j]
			}
			ls = append(ls, line{f.K + ":" + f.V, e})
		}
		if i == len(rs)-1 {
			for _, e := range l.Trail {
				ls = append(ls, line{"", e})
			}
		} else {
			ls = append(ls, line{"", y.Sep1})
			for _, e := range y.Sep {
				ls = append(ls, line{"", e})
			}
		}
	}
	return renderLines(ls, l.FinalNL)
}

func coqKVs(kvs []kv) string {
	items := make([]string, len(kvs))
	for i, x := range kvs {
		items[i] = "(" + coqStr(x.K) + ", " + coqStr(x.V) + ")"
	}
	return coqList(items)
}

func coqApkClaim(c apkClaim) string {
	var rs, ys []string
	for _, r := range c.Records {
		rs = append(rs, fmt.Sprintf("{| ar_name := %s; ar_version := %s; ar_extras := %s |}", coqStr(r.Name), coqStr(r.Version), coqKVs(r.Extras)))
	}
	for _, y := range c.Layout.Recs {
		ys = append(ys, fmt.Sprintf("{| al_posV := %d%%nat; al_posP := %d%%nat; al_eols := %s; al_sep1 := %s; al_sep := %s |}",
			y.PosV, y.PosP, coqEols(y.Eols), coqEol(y.Sep1), coqEols(y.Sep)))
	}
	lay := fmt.Sprintf("{| al_lead := %s; al_recs := %s; al_trail := %s; al_final_nl := %s |}",
		coqEols(c.Layout.Lead), coqList(ys), coqEols(c.Layout.Trail), coqBool(c.Layout.FinalNL))
	return "(Some (" + coqList(rs) + ", " + lay + "))"
}

const apkNameAlpha = "abcdefghijklmnopqrstuvwxyz0123456789+._-"

func apkName(r *rand.Rand) string {
	return randFrom(r, "abcdefghijklmnopqrstuvwxyz0123456789", 1, 1) + randFrom(r, apkNameAlpha, 0, 13)
}

func apkVersion(r *rand.Rand) string {
	v := fmt.Sprint(r.Intn(30))
	for k := r.Intn(4); k > 0; k-- {
		v += "." + fmt.Sprint(r.Intn(200))
	}
	v += pick(r, "", "", "_rc1", "_p2", "_git20240101", "a")
	return v + "-r" + fmt.Sprint(r.Intn(12))
}

const apkValueAlpha = "abcdefghijklmnopqrstuvwxyzABCDEFGHIJKLMNOPQRSTUVWXYZ0123456789 :=<>@/+.-_()\t"

func apkExtras(r *rand.Rand) []kv {
	keys := "CAILSTotmpDcrikqFMRaZ"
	var out []kv
	for k := r.Intn(7); k > 0; k-- {
		key := string(keys[r.Intn(len(keys))])
		if r.Intn(25) == 0 {
			key = pick(r, "", "PP", "v", "p", "long key", "P ")
		}
		out = append(out, kv{key, randFrom(r, apkValueAlpha, 0, 30)})
	}
	return out
}

func nRecords(r *rand.Rand, i int) int {
	switch {
	case i == 0:
		return 0
	case i <= 3:
		return 1
	case i%37 == 5:
		return 30 + r.Intn(50)
	}
	return 1 + r.Intn(8)
}

func blanks(r *rand.Rand, style int, p int, maxn int) []bool {
	if r.Intn(100) >= p {
		return nil
	}
	return eolList(r, style, 1+r.Intn(maxn))
}

func genApk(r *rand.Rand, i, n int) *Case {
	nrec := nRecords(r, i)
	style := []int{0, 0, 1, 2}[r.Intn(4)]
	var cl apkClaim
	stream := "wellformed"
	var tags []string
	for k := 0; k < nrec; k++ {
		rec := apkRec{Name: apkName(r), Version: apkVersion(r), Extras: apkExtras(r)}
		cl.Records = append(cl.Records, rec)
		y := apkRLay{PosV: r.Intn(len(rec.Extras) + 2), PosP: r.Intn(len(rec.Extras) + 3),
			Eols: eolList(r, style, len(rec.Extras)+2), Sep1: eolGen(r, style), Sep: blanks(r, style, 25, 2)}
		if r.Intn(4) == 0 { // canonical apk order: P first... V later
			y.PosV, y.PosP = 0, 0
		}
		cl.Layout.Recs = append(cl.Layout.Recs, y)
	}
	cl.Layout.Lead = blanks(r, style, 20, 3)
	cl.Layout.Trail = blanks(r, style, 50, 2)
	cl.Layout.FinalNL = r.Intn(10) < 6
	if !cl.Layout.FinalNL && r.Intn(3) != 0 {
		cl.Layout.Trail = nil
	}
	// deliberate boundary / ill-formed variants
	switch {
	case i%23 == 7 && nrec > 0: // a record the format's reader skips: empty version (not well-formed: no claim)
		k := r.Intn(nrec)
		if r.Intn(2) == 0 {
			cl.Records[k].Version = ""
		} else {
			cl.Records[k].Name = ""
		}
		stream, tags = "illformed-records", append(tags, "empty-name-or-version")
	case i%23 == 11 && nrec > 0: // duplicate P key among the extras
		k := r.Intn(nrec)
		cl.Records[k].Extras = append(cl.Records[k].Extras, kv{"P", "shadow"})
		stream, tags = "illformed-records", append(tags, "duplicate-P")
	case i%41 == 13 && nrec > 0: // very long value: 65533 -> line of 65535 bytes (scanner limit is 65536)
		k := r.Intn(nrec)
		ln := []int{65532, 65533, 65534, 65535}[r.Intn(4)]
		cl.Records[k].Extras = append(cl.Records[k].Extras, kv{"D", strings.Repeat("x", ln)})
		cl.Layout.Recs[k].Eols = append(cl.Layout.Recs[k].Eols, false, false, false)[:len(cl.Records[k].Extras)+2]
		stream, tags = "long-line", append(tags, fmt.Sprintf("value-len-%d", ln))
	}
	if style == 1 {
		tags = append(tags, "crlf")
	} else if style == 2 {
		tags = append(tags, "mixed-eol")
	}
	if !cl.Layout.FinalNL {
		tags = append(tags, "no-final-newline")
	}
	if nrec == 1 {
		tags = append(tags, "single-record")
	}
	if nrec == 0 {
		tags = append(tags, "no-records")
	}
	if len(cl.Layout.Lead) > 0 {
		tags = append(tags, "leading-blank-lines")
	}
	c := &Case{Stream: stream, Tags: tags, NRecords: nrec, Claim: cl, data: renderApk(cl.Records, cl.Layout), coqClaim: coqApkClaim(cl)}
	for _, rec := range cl.Records {
		c.Expected = append(c.Expected, Pkg{rec.Name, rec.Version})
	}
	return c
}

func coqLineCase(prefix string) func(c *Case) string {
	return func(c *Case) string {
		return fmt.Sprintf("{| %s_claim := %s; %s_bytes := %s; %s_obs := %s |}", prefix, c.coqClaim, prefix, coqBytes(c.data), prefix, coqObserved(c.Observed))
	}
}

func init() {
	register(&Format{Name: "apk", Level: "byte", Path: "lib/apk/db/installed", NewExtractor: apk.NewDefault,
		CoqModule: "Formats.Apk", Gen: genApk, CoqCase: coqLineCase("ac")})
}

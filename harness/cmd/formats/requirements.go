package main

import (
	"fmt"
	"math/rand"
	"strings"

	"github.com/google/osv-scalibr/extractor/filesystem/language/python/requirements"
)

type rqRec struct {
	Name    string `json:"name"`
	Version string `json:"version"`
}
type rqNoise struct {
	Kind string `json:"kind"` // blank | comment | option
	Lead string `json:"lead,omitempty"`
	Text string `json:"text,omitempty"`
	CRLF bool   `json:"crlf"`
}
type rqRLay struct {
	Before []rqNoise `json:"before,omitempty"`
	Lead   string    `json:"lead,omitempty"`
	WS1    string    `json:"ws1,omitempty"`
	WS2    string    `json:"ws2,omitempty"`
	Trail  string    `json:"trail,omitempty"`
	CRLF   bool      `json:"crlf"`
	Cont   *rqCont   `json:"cont,omitempty"` // continued with a backslash after "==" + WS2
}
type rqCont struct {
	CRLF bool   `json:"crlf"`
	WS   string `json:"ws"`
}
type rqLayout struct {
	Recs    []rqRLay  `json:"recs"`
	After   []rqNoise `json:"after,omitempty"`
	FinalNL bool      `json:"final_nl"`
}
type rqClaim struct {
	Records []rqRec  `json:"records"`
	Layout  rqLayout `json:"layout"`
}

func (n rqNoise) content() string {
	switch n.Kind {
	case "comment":
		return n.Lead + "#" + n.Text
	case "option":
		return "-" + n.Text
	}
	return n.Lead
}

// renderRequirements mirrors Formats/Requirements.v: render_requirements.
func renderRequirements(rs []rqRec, l rqLayout) []byte {
	var ls []line
	for i, r := range rs {
		y := rqRLay{}
		if i < len(l.Recs) {
			y = l.Recs[i]
		}
		for _, n := range y.Before {
			ls = append(ls, line{n.content(), n.CRLF})
		}
		if y.Cont != nil {
			ls = append(ls, line{y.Lead + r.Name + y.WS1 + "==" + y.WS2 + "\\", y.Cont.CRLF}, line{y.Cont.WS + r.Version + y.Trail, y.CRLF})
		} else {
			ls = append(ls, line{y.Lead + r.Name + y.WS1 + "==" + y.WS2 + r.Version + y.Trail, y.CRLF})
		}
	}
	for _, n := range l.After {
		ls = append(ls, line{n.content(), n.CRLF})
	}
	return renderLines(ls, l.FinalNL)
}

func coqRqNoise(ns []rqNoise) string {
	items := make([]string, len(ns))
	for i, n := range ns {
		var t string
		switch n.Kind {
		case "comment":
			t = "RComment " + coqStr(n.Lead) + " " + coqStr(n.Text)
		case "option":
			t = "ROption " + coqStr(n.Text)
		default:
			t = "RBlank " + coqStr(n.Lead)
		}
		items[i] = "(" + t + ", " + coqEol(n.CRLF) + ")"
	}
	return coqList(items)
}

func coqRqClaim(c rqClaim) string {
	var rs, ys []string
	for _, r := range c.Records {
		rs = append(rs, fmt.Sprintf("{| rq_name := %s; rq_version := %s |}", coqStr(r.Name), coqStr(r.Version)))
	}
	for _, y := range c.Layout.Recs {
		cont := "None"
		if y.Cont != nil {
			cont = "(Some (" + coqEol(y.Cont.CRLF) + ", " + coqStr(y.Cont.WS) + "))"
		}
		ys = append(ys, fmt.Sprintf("{| rl_before := %s; rl_lead := %s; rl_ws1 := %s; rl_ws2 := %s; rl_trail := %s; rl_eol := %s; rl_cont := %s |}",
			coqRqNoise(y.Before), coqStr(y.Lead), coqStr(y.WS1), coqStr(y.WS2), coqStr(y.Trail), coqEol(y.CRLF), cont))
	}
	lay := fmt.Sprintf("{| ry_recs := %s; ry_after := %s; ry_final_nl := %s |}", coqList(ys), coqRqNoise(c.Layout.After), coqBool(c.Layout.FinalNL))
	return "(Some (" + coqList(rs) + ", " + lay + "))"
}

func pyName(r *rand.Rand) string {
	al := "abcdefghijklmnopqrstuvwxyzABCDEFGHIJKLMNOPQRSTUVWXYZ0123456789"
	switch r.Intn(12) {
	case 0: // outside the extractor's name pattern / option-marker clash (known findings)
		return pick(r, "Flask-Caching", "Flask-Cors", "zope.interface", "ruamel.yaml", "q", "django-Cms", "backports.zoneinfo", "jaraco.text", "x-C")
	case 1:
		return pick(r, "Flask", "PyYAML", "Jinja2", "SQLAlchemy", "typing_extensions", "python-dateutil", "google-cloud-storage", "a-b", "Ab")
	}
	return randFrom(r, al, 1, 1) + randFrom(r, al+"-_", 0, 12) + randFrom(r, al, 1, 1)
}

func pyVersion(r *rand.Rand) string {
	return fmt.Sprintf("%d.%d", r.Intn(40), r.Intn(40)) + pick(r, "", "", ".1", ".post1", "rc1", ".dev0", "b2", "+local.1", ".0.0")
}

func rqNoiseGen(r *rand.Rand, style, p int) []rqNoise {
	var out []rqNoise
	for r.Intn(100) < p {
		n := rqNoise{CRLF: eolGen(r, style)}
		switch r.Intn(5) {
		case 0:
			n.Kind, n.Lead = "blank", pick(r, "", "", "  ", "\t")
		case 1:
			n.Kind = "option"
			n.Text = pick(r, "i https://pypi.org/simple", "-index-url https://example.org/simple", "e .", "-extra-index-url https://x/y", "c constraints.txt",
				"-no-binary :all:", "-find-links ./wheels", "-hash=sha256:abc", "Csetting=1", "e git+https://github.com/o/r.git@v1#egg=r")
		default:
			n.Kind, n.Lead = "comment", pick(r, "", "", " ", "\t")
			n.Text = pick(r, " pinned by pip-compile", "", " via -r requirements.in", "!/usr/bin/env pip", " foo==1.0", "# double", " a # b")
		}
		out = append(out, n)
		p /= 2
	}
	return out
}

func genRequirements(r *rand.Rand, i, n int) *Case {
	nrec := nRecords(r, i)
	style := []int{0, 0, 1, 2}[r.Intn(4)]
	var cl rqClaim
	stream := "wellformed"
	var tags []string
	for k := 0; k < nrec; k++ {
		cl.Records = append(cl.Records, rqRec{pyName(r), pyVersion(r)})
		y := rqRLay{CRLF: eolGen(r, style), Before: rqNoiseGen(r, style, 30)}
		if r.Intn(8) == 0 {
			y.Lead = pick(r, " ", "  ", "\t")
		}
		if r.Intn(6) == 0 {
			y.WS1, y.WS2 = pick(r, " ", "", "  "), pick(r, " ", "", "\t")
		}
		if r.Intn(8) == 0 {
			y.Trail = pick(r, " ", "  ", "\t")
		}
		if r.Intn(6) == 0 { // name== \<eol>    version
			y.Cont = &rqCont{CRLF: eolGen(r, style), WS: pick(r, "    ", "", " ", "\t")}
			if y.WS2 == "" && r.Intn(2) == 0 {
				y.WS2 = " "
			}
		}
		cl.Layout.Recs = append(cl.Layout.Recs, y)
	}
	if nrec > 0 && r.Intn(2) == 0 {
		cl.Layout.Recs[0].Before = append([]rqNoise{{Kind: "comment", Text: " This file is autogenerated by pip-compile", CRLF: eolGen(r, style)}}, cl.Layout.Recs[0].Before...)
	}
	cl.Layout.After = rqNoiseGen(r, style, 40)
	cl.Layout.FinalNL = r.Intn(10) < 6
	for _, rec := range cl.Records {
		if strings.Contains(rec.Name, ".") || len(rec.Name) < 2 {
			tags = append(tags, "outside-D")
			stream = "wellformed-outside-D"
			break
		}
	}
	var data []byte
	claim := ""
	switch {
	case i%5 == 4 && nrec > 0: // the richer grammar: correspondence only (no claim): rendered by hand
		stream = "rich-grammar"
		var sb strings.Builder
		for _, rec := range cl.Records {
			nl := "\n"
			if eolGen(r, style) {
				nl = "\r\n"
			}
			ln := rec.Name
			if r.Intn(3) == 0 {
				ln += pick(r, "[security]", "[a,b]", "[ x ]", "[]", "[a][b]", "[a[b]c]")
			}
			ln += pick(r, "==", "==", "==", ">=", "<=", "~=", "===", " == ", ">", "<", "!=", "") + rec.Version
			switch r.Intn(10) {
			case 0:
				ln += pick(r, ",<9", ", !=1.0", ".*", " , >=0")
			case 1:
				ln += pick(r, " ; python_version < \"3.8\"", ";sys_platform=='win32'", " ; extra == 'x'")
			case 2:
				ln += pick(r, " --hash=sha256:"+hexStr(r, 8), " \\"+nl+"    --hash=sha256:"+hexStr(r, 8)+" \\"+nl+"    --hash=sha256:"+hexStr(r, 8), " --global-option=x", " -C opt")
			case 3:
				ln += pick(r, " # via foo", "  #comment", "#not-a-comment", " #")
			case 4:
				ln = pick(r, "${HOME}/pkg==1.0", "pkg==${VER}", "pkg==${ver}", "-r other.txt", "-r requirements.txt", "-rrequirements.txt", "./local/path", "git+https://x/y.git#egg=y", "pkg @ https://x/y.whl", "pkg==1.0\\")
			}
			sb.WriteString(ln + nl)
		}
		s := sb.String()
		if r.Intn(3) == 0 {
			s = strings.TrimRight(s, "\r\n")
		}
		data = []byte(s)
		claim = "None"
		cl.Layout = rqLayout{}
	case i%7 == 3: // a line continuation as the last thing in the file (pip accepts it): correspondence + termination
		stream = "continuation-at-eof"
		base := strings.TrimRight(string(renderRequirements(cl.Records, rqLayout{Recs: cl.Layout.Recs, FinalNL: true})), "\r\n")
		nl := pick(r, "\n", "\n", "\r\n")
		switch r.Intn(7) {
		case 0:
			base += " \\" // text, backslash, end of file
		case 1:
			base += " \\" + nl // text, backslash, final newline
		case 2:
			base += "\\" // backslash glued to the version
		case 3:
			if base != "" {
				base += nl
			}
			base += "\\" // a line that is only a backslash, unterminated
		case 4:
			if base != "" {
				base += nl
			}
			base += "\\" + nl
		case 5:
			base += " \\" + nl + strings.Repeat("x", 70000) + nl // continuation into a line longer than the scanner buffer
		default:
			base += " \\" + nl + "    --hash=sha256:" + hexStr(r, 8) + " \\" // several continuations, the last one at end of file
		}
		data = []byte(base)
		claim = "None"
		cl.Layout = rqLayout{}
	case i%41 == 13 && nrec > 0:
		k := r.Intn(nrec)
		ln := []int{65533, 65534, 65535, 65536}[r.Intn(4)]
		cl.Layout.Recs[k].Before = append(cl.Layout.Recs[k].Before, rqNoise{Kind: "comment", Text: strings.Repeat("c", ln-1)})
		stream, tags = "long-line", append(tags, fmt.Sprintf("line-len-%d", ln))
	}
	if claim == "" {
		data = renderRequirements(cl.Records, cl.Layout)
		claim = coqRqClaim(cl)
	}
	if style == 1 {
		tags = append(tags, "crlf")
	} else if style == 2 {
		tags = append(tags, "mixed-eol")
	}
	if !cl.Layout.FinalNL && stream != "rich-grammar" && stream != "continuation-at-eof" {
		tags = append(tags, "no-final-newline")
	}
	if nrec == 1 {
		tags = append(tags, "single-record")
	}
	if nrec == 0 {
		tags = append(tags, "no-records")
	}
	c := &Case{Stream: stream, Tags: tags, NRecords: nrec, Claim: cl, data: data, coqClaim: claim}
	if stream != "rich-grammar" && stream != "continuation-at-eof" {
		for _, rec := range cl.Records {
			c.Expected = append(c.Expected, Pkg{rec.Name, rec.Version})
		}
	}
	return c
}

func init() {
	register(&Format{Name: "requirements", Level: "byte", Path: "requirements.txt", NewExtractor: requirements.NewDefault,
		CoqModule: "Formats.Requirements", Gen: genRequirements, CoqCase: coqLineCase("rqc")})
}

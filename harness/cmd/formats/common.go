// Command formats is the C03 harness: for every package-database format it generates records and a
// layout from one PRNG seed, renders the file (a Go re-implementation of the Coq render function; the
// cases file makes Coq check `render rs l = bytes` for every case), runs the REAL extractor's Extract
// on the bytes under the production file name, and writes (a) a Coq cases file, (b) a JSONL side file.
package main

import (
	"bufio"
	"bytes"
	"context"
	"encoding/base64"
	"errors"
	"fmt"
	"io/fs"
	"math/rand"
	"sort"
	"strings"
	"syscall"
	"testing/fstest"
	"time"

	"github.com/google/osv-scalibr/extractor/filesystem"
	"github.com/google/osv-scalibr/extractor/filesystem/simplefileapi"
)

// Pkg is a projected package observation.
type Pkg struct {
	Name    string `json:"name"`
	Version string `json:"version"`
}

// Observed is the projected result of one Extract call.
type Observed struct {
	Kind         string `json:"kind"` // ok | err_toolong | err_invalid | panic
	Pkgs         []Pkg  `json:"pkgs,omitempty"`
	ErrText      string `json:"err,omitempty"`
	FileRequired bool   `json:"file_required"`
	LocationsOK  bool   `json:"locations_ok"`
}

// Case is one generated file.
type Case struct {
	Format   string   `json:"format"`
	Stream   string   `json:"stream"`
	Tags     []string `json:"tags,omitempty"`
	NRecords int      `json:"n_records"`
	Claim    any      `json:"claim,omitempty"` // records + layout as generated (nil for malformed stream)
	Expected []Pkg    `json:"expected,omitempty"`
	BytesB64 string   `json:"bytes_b64"`
	Text     string   `json:"text,omitempty"` // first bytes, printable, for the human reader
	Observed Observed `json:"observed"`
	Path     string   `json:"path"`

	CoqClaim string `json:"coq_claim"` // Coq term of type option (records * layout)
	CoqExtra string `json:"coq_extra,omitempty"`

	coqClaim string
	data     []byte
	coqExtra string // format-specific extra Coq fields
}

type fakeInfo struct {
	name string
	size int64
}

func (f fakeInfo) Name() string       { return f.name }
func (f fakeInfo) Size() int64        { return f.size }
func (f fakeInfo) Mode() fs.FileMode  { return 0o644 }
func (f fakeInfo) ModTime() time.Time { return time.Time{} }
func (f fakeInfo) IsDir() bool        { return false }
func (f fakeInfo) Sys() any           { return nil }

func base(p string) string {
	if i := strings.LastIndex(p, "/"); i >= 0 {
		return p[i+1:]
	}
	return p
}

// runExtract calls the real extractor on data under the production path.
func runExtract(ex filesystem.Extractor, path string, data []byte, sorted bool) (obs Observed) {
	info := fakeInfo{base(path), int64(len(data))}
	obs.FileRequired = ex.FileRequired(simplefileapi.New(path, info))
	fsys := fstest.MapFS{path: &fstest.MapFile{Data: data, Mode: 0o644}}
	in := &filesystem.ScanInput{FS: fsys, Path: path, Root: "", Info: info, Reader: bytes.NewReader(data)}
	// the call runs under a deadline: an extractor that hangs is observed as "timeout" (printed to Coq like a panic: the
	// models never hang). The goroutine cannot be killed, so after a timeout the harness finishes the current format's
	// files and exits with code 3; the check re-invokes it for the remaining formats.
	type result struct {
		obs Observed
	}
	done := make(chan result, 1)
	go func() {
		o := obs
		defer func() {
			if r := recover(); r != nil {
				o.Kind = "panic"
				o.ErrText = fmt.Sprint(r)
				o.Pkgs = nil
			}
			done <- result{o}
		}()
		inv, err := ex.Extract(context.Background(), in)
		if err != nil {
			o.ErrText = err.Error()
			if errors.Is(err, bufio.ErrTooLong) {
				o.Kind = "err_toolong"
			} else {
				o.Kind = "err_invalid"
			}
			return
		}
		o.Kind = "ok"
		o.LocationsOK = true
		for _, p := range inv.Packages {
			o.Pkgs = append(o.Pkgs, Pkg{p.Name, p.Version})
			if len(p.Locations) == 0 || p.Locations[0] != path {
				o.LocationsOK = false
			}
		}
		if sorted {
			sortPkgs(o.Pkgs)
		}
	}()
	// A deadline hit is only a candidate (the machine may be loaded): this process runs nothing but this call, so the call
	// is a hang only if the process burned more CPU than cpuHangLimit since the call started (a spinning extractor
	// burns CPU, a starved one does not) or the call is still not back after 10 x the deadline.
	cpu0 := selfCPU()
	t0 := time.Now()
	tick := time.NewTicker(50 * time.Millisecond)
	defer tick.Stop()
	for {
		select {
		case r := <-done:
			if time.Since(t0) > extractDeadline {
				loadInducedTimeouts++
			}
			return r.obs
		case <-tick.C:
			wall, cpu := time.Since(t0), selfCPU()-cpu0
			if wall > extractDeadline && (cpu > cpuHangLimit || wall > 10*extractDeadline) {
				obs.Kind = "timeout"
				obs.ErrText = fmt.Sprintf("Extract did not return within %s (waited %s wall, %s CPU of this process)", extractDeadline, wall.Round(time.Millisecond), cpu.Round(time.Millisecond))
				timedOut = true
				return obs
			}
		}
	}
}

var extractDeadline = 2 * time.Second
var cpuHangLimit = extractDeadline * 12 / 10
var timedOut bool
var loadInducedTimeouts int

// selfCPU is the user + system CPU time consumed by this process so far.
func selfCPU() time.Duration {
	var ru syscall.Rusage
	if syscall.Getrusage(syscall.RUSAGE_SELF, &ru) != nil {
		return 0
	}
	return time.Duration(ru.Utime.Nano() + ru.Stime.Nano())
}

func sortPkgs(ps []Pkg) {
	sort.SliceStable(ps, func(i, j int) bool {
		if ps[i].Name != ps[j].Name {
			return ps[i].Name < ps[j].Name
		}
		return ps[i].Version < ps[j].Version
	})
}

// ---------------------------------------------------------------- Coq printing
// coqBytes prints a byte string as a Coq term of type `bytes`; long runs of one byte are written
// with nrep so that 64 KiB lines stay small in the cases file.
func coqBytes(b []byte) string {
	if len(b) == 0 {
		return "(@nil N)"
	}
	var parts []string
	var lit []string
	flush := func() {
		if len(lit) > 0 {
			parts = append(parts, "["+strings.Join(lit, ";")+"]%N")
			lit = nil
		}
	}
	for i := 0; i < len(b); {
		j := i
		for j < len(b) && b[j] == b[i] {
			j++
		}
		if j-i >= 48 {
			flush()
			parts = append(parts, fmt.Sprintf("nrep %d%%N %d%%N", j-i, b[i]))
		} else {
			for k := i; k < j; k++ {
				lit = append(lit, fmt.Sprintf("%d", b[k]))
				if len(lit) >= 1200 { // keep list literals shallow: coqc's elaborator recurses on cons depth
					flush()
				}
			}
		}
		i = j
	}
	flush()
	if len(parts) == 1 {
		return "(" + parts[0] + ")"
	}
	return "(" + strings.Join(parts, " ++ ") + ")"
}

func coqStr(s string) string { return coqBytes([]byte(s)) }

func coqList(items []string) string {
	if len(items) == 0 {
		return "[]"
	}
	return "[" + strings.Join(items, "; ") + "]"
}

func coqPkgs(ps []Pkg) string {
	items := make([]string, len(ps))
	for i, p := range ps {
		items[i] = "(" + coqStr(p.Name) + ", " + coqStr(p.Version) + ")"
	}
	return coqList(items)
}

func coqObserved(o Observed) string {
	switch o.Kind {
	case "ok":
		return "(Ok " + coqPkgs(o.Pkgs) + ")"
	case "err_toolong":
		return "(Err ETooLong)"
	case "err_invalid":
		return "(Err EInvalid)"
	default:
		return "Panic"
	}
}

func coqBool(b bool) string {
	if b {
		return "true"
	}
	return "false"
}

func coqEol(crlf bool) string {
	if crlf {
		return "CRLF"
	}
	return "LF"
}

func coqEols(es []bool) string {
	items := make([]string, len(es))
	for i, e := range es {
		items[i] = coqEol(e)
	}
	return coqList(items)
}

func b64(b []byte) string { return base64.StdEncoding.EncodeToString(b) }

func preview(b []byte) string {
	n := len(b)
	if n > 400 {
		n = 400
	}
	return strings.ToValidUTF8(string(b[:n]), "?")
}

// ---------------------------------------------------------------- generic line rendering (Lines.v: render_lines)
type line struct {
	content string
	crlf    bool
}

func renderLines(ls []line, finalNL bool) []byte {
	var sb bytes.Buffer
	for i, l := range ls {
		sb.WriteString(l.content)
		last := i == len(ls)-1
		if l.crlf {
			sb.WriteByte('\r')
		}
		if !last || finalNL {
			sb.WriteByte('\n')
		}
	}
	return sb.Bytes()
}

func eolBool(e bool) string {
	if e {
		return "CRLF"
	}
	return "LF"
}

// ---------------------------------------------------------------- random helpers
func pick(r *rand.Rand, xs ...string) string { return xs[r.Intn(len(xs))] }

func randFrom(r *rand.Rand, alphabet string, lo, hi int) string {
	n := lo + r.Intn(hi-lo+1)
	b := make([]byte, n)
	for i := range b {
		b[i] = alphabet[r.Intn(len(alphabet))]
	}
	return string(b)
}

// eol style for a whole file: 0 all LF, 1 all CRLF, 2 mixed
func eolGen(r *rand.Rand, style int) bool {
	switch style {
	case 0:
		return false
	case 1:
		return true
	}
	return r.Intn(2) == 0
}

func eolList(r *rand.Rand, style, n int) []bool {
	es := make([]bool, n)
	for i := range es {
		es[i] = eolGen(r, style)
	}
	return es
}

// mutateBytes: the malformed stream (structure-unaware and line-aware mutations of a well-formed file)
func mutateBytes(r *rand.Rand, b []byte) ([]byte, string) {
	out := append([]byte(nil), b...)
	switch k := r.Intn(9); k {
	case 0: // truncate
		if len(out) > 0 {
			out = out[:r.Intn(len(out))]
		}
		return out, "truncate"
	case 1: // flip bits
		for i := 0; i < 1+r.Intn(4) && len(out) > 0; i++ {
			out[r.Intn(len(out))] ^= 1 << uint(r.Intn(8))
		}
		return out, "bitflip"
	case 2: // delete a byte range
		if len(out) > 2 {
			i := r.Intn(len(out) - 1)
			j := i + 1 + r.Intn(min(8, len(out)-i-1))
			out = append(out[:i], out[j:]...)
		}
		return out, "delete"
	case 3: // duplicate a line
		ls := bytes.SplitAfter(out, []byte("\n"))
		i := r.Intn(len(ls))
		var nb []byte
		for j, l := range ls {
			nb = append(nb, l...)
			if j == i {
				nb = append(nb, l...)
			}
		}
		return nb, "dupline"
	case 4: // drop every ':' / '=' / '(' on one line
		ls := bytes.SplitAfter(out, []byte("\n"))
		i := r.Intn(len(ls))
		ls[i] = bytes.Map(func(c rune) rune {
			if c == ':' || c == '=' || c == '(' {
				return -1
			}
			return c
		}, ls[i])
		return bytes.Join(ls, nil), "dropsep"
	case 5: // insert random bytes
		i := r.Intn(len(out) + 1)
		ins := []byte(randFrom(r, "\n\r :=#()-!\x00\xffab 1", 1, 6))
		out = append(out[:i], append(ins, out[i:]...)...)
		return out, "insert"
	case 6: // swap two lines
		ls := bytes.SplitAfter(out, []byte("\n"))
		if len(ls) > 1 {
			i, j := r.Intn(len(ls)), r.Intn(len(ls))
			ls[i], ls[j] = ls[j], ls[i]
		}
		return bytes.Join(ls, nil), "swaplines"
	case 7: // strip all newlines from a region
		i := r.Intn(len(out) + 1)
		j := i + r.Intn(len(out)-i+1)
		var nb []byte
		nb = append(nb, out[:i]...)
		nb = append(nb, bytes.ReplaceAll(out[i:j], []byte("\n"), nil)...)
		nb = append(nb, out[j:]...)
		return nb, "joinlines"
	default: // random garbage
		return []byte(randFrom(r, "\n\n\r :=#()-!ab1  PV", 0, 40)), "garbage"
	}
}

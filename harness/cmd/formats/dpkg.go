package main

import (
	"fmt"
	"math/rand"
	"strings"

	"github.com/google/osv-scalibr/extractor/filesystem/os/dpkg"
)

type dCont struct {
	WS   string `json:"ws"`
	Text string `json:"text"`
}
type dField struct {
	Source bool    `json:"source,omitempty"`
	Key    string  `json:"key,omitempty"`
	Lead   string  `json:"lead,omitempty"`
	Value  string  `json:"value,omitempty"`
	Trail  string  `json:"trail,omitempty"`
	Conts  []dCont `json:"conts,omitempty"`
	Name   string  `json:"name,omitempty"`
	Ver    *string `json:"ver,omitempty"`
}
type dRec struct {
	Name    string     `json:"name"`
	Version string     `json:"version"`
	Status  *[3]string `json:"status"`
	Fields  []dField   `json:"fields,omitempty"`
}
type dRLay struct {
	PosS int    `json:"posS"`
	PosV int    `json:"posV"`
	PosP int    `json:"posP"`
	Gap  string `json:"gap"`
	Eols []bool `json:"eols_crlf,omitempty"`
	Sep1 bool   `json:"sep1_crlf"`
	Sep  []bool `json:"sep_crlf,omitempty"`
}
type dLayout struct {
	Lead    []bool  `json:"lead_crlf,omitempty"`
	Recs    []dRLay `json:"recs"`
	Trail   []bool  `json:"trail_crlf,omitempty"`
	FinalNL bool    `json:"final_nl"`
}
type dClaim struct {
	StatusD bool    `json:"status_d"`
	Records []dRec  `json:"records"`
	Layout  dLayout `json:"layout"`
}

func dFieldLines(f dField) []string {
	if f.Source {
		s := "Source: " + f.Name
		if f.Ver != nil {
			s += " (" + *f.Ver + ")"
		}
		return []string{s}
	}
	out := []string{f.Key + ":" + f.Lead + f.Value + f.Trail}
	for _, c := range f.Conts {
		out = append(out, c.WS+c.Text)
	}
	return out
}

// renderDpkg mirrors Formats/Dpkg.v: render_dpkg.
func renderDpkg(rs []dRec, l dLayout) []byte {
	var ls []line
	for _, e := range l.Lead {
		ls = append(ls, line{"", e})
	}
	for i, r := range rs {
		y := dRLay{Gap: " "}
		if i < len(l.Recs) {
			y = l.Recs[i]
		}
		var groups [][]string
		for _, f := range r.Fields {
			groups = append(groups, dFieldLines(f))
		}
		if r.Status != nil {
			groups = insertAt(y.PosS, []string{"Status:" + y.Gap + r.Status[0] + " " + r.Status[1] + " " + r.Status[2]}, groups)
		}
		groups = insertAt(y.PosV, []string{"Version:" + y.Gap + r.Version}, groups)
		groups = insertAt(y.PosP, []string{"Package:" + y.Gap + r.Name}, groups)
		j := 0
		for _, g := range groups {
			for _, t := range g {
				e := false
				if j < len(y.Eols) {
					e = y.Eols[j]
				}
				ls = append(ls, line{t, e})
				j++
			}
		}
		if i == len(rs)-1 {
			for _, e := range l.Trail {
				ls = append(ls, line{"", e})
			}
		} else {
			ls = append(ls, line{"", y.Sep1})
			for _, e := range y.Sep {
				ls = append(ls, line{"", e})
			}
		}
	}
	return renderLines(ls, l.FinalNL)
}

func coqDClaim(c dClaim) string {
	var rs, ys []string
	for _, r := range c.Records {
		var fs []string
		for _, f := range r.Fields {
			if f.Source {
				v := "None"
				if f.Ver != nil {
					v = "(Some " + coqStr(*f.Ver) + ")"
				}
				fs = append(fs, "DSource "+coqStr(f.Name)+" "+v)
				continue
			}
			var cs []string
			for _, ct := range f.Conts {
				cs = append(cs, "("+coqStr(ct.WS)+", "+coqStr(ct.Text)+")")
			}
			fs = append(fs, fmt.Sprintf("DOther %s %s %s %s %s", coqStr(f.Key), coqStr(f.Lead), coqStr(f.Value), coqStr(f.Trail), coqList(cs)))
		}
		st := "None"
		if r.Status != nil {
			st = fmt.Sprintf("(Some (%s, %s, %s))", coqStr(r.Status[0]), coqStr(r.Status[1]), coqStr(r.Status[2]))
		}
		rs = append(rs, fmt.Sprintf("{| dr_name := %s; dr_version := %s; dr_status := %s; dr_fields := %s |}", coqStr(r.Name), coqStr(r.Version), st, coqList(fs)))
	}
	for _, y := range c.Layout.Recs {
		ys = append(ys, fmt.Sprintf("{| dl_posS := %d%%nat; dl_posV := %d%%nat; dl_posP := %d%%nat; dl_gap := %s; dl_eols := %s; dl_sep1 := %s; dl_sep := %s |}",
			y.PosS, y.PosV, y.PosP, coqStr(y.Gap), coqEols(y.Eols), coqEol(y.Sep1), coqEols(y.Sep)))
	}
	lay := fmt.Sprintf("{| dy_lead := %s; dy_recs := %s; dy_trail := %s; dy_final_nl := %s |}",
		coqEols(c.Layout.Lead), coqList(ys), coqEols(c.Layout.Trail), coqBool(c.Layout.FinalNL))
	return "(Some (" + coqList(rs) + ", " + lay + "))"
}

func debName(r *rand.Rand) string {
	return randFrom(r, "abcdefghijklmnopqrstuvwxyz0123456789", 1, 1) + randFrom(r, "abcdefghijklmnopqrstuvwxyz0123456789+.-", 1, 14)
}

func debVersion(r *rand.Rand) string {
	v := pick(r, "", "", "1:", "2:") + fmt.Sprintf("%d.%d", r.Intn(20), r.Intn(60))
	v += pick(r, "", ".3", "~rc1", "+dfsg", "~beta2+git20240101", ".0.1")
	return v + pick(r, "", "-1", "-2ubuntu3", "-0+deb12u1", "-1~bpo11+1", "-3build2")
}

const debTextAlpha = "abcdefghijklmnopqrstuvwxyzABCDEFGHIJKLMNOPQRSTUVWXYZ0123456789 ,.:;()<>@/+-_=|~"

func dOtherField(r *rand.Rand) dField {
	f := dField{Key: pick(r, "Priority", "Section", "Installed-Size", "Maintainer", "Architecture", "Multi-Arch", "Depends", "Pre-Depends",
		"Description", "Conffiles", "Homepage", "Essential", "Provides", "Original-Maintainer", "Breaks", "Recommends"), Lead: " "}
	switch f.Key {
	case "Description":
		f.Value = randFrom(r, debTextAlpha, 3, 40)
		for k := r.Intn(4); k > 0; k-- {
			f.Conts = append(f.Conts, dCont{" ", pick(r, ".", randFrom(r, debTextAlpha, 1, 50), "This is a transitional package.", "key: looks like a field", "")})
		}
	case "Conffiles":
		f.Lead, f.Value = "", ""
		for k := 1 + r.Intn(3); k > 0; k-- {
			f.Conts = append(f.Conts, dCont{" ", "/etc/" + randFrom(r, "abcdefgh/", 2, 12) + " " + randFrom(r, "0123456789abcdef", 32, 32) + pick(r, "", " obsolete")})
		}
	case "Installed-Size":
		f.Value = fmt.Sprint(r.Intn(100000))
	case "Maintainer", "Original-Maintainer":
		f.Value = pick(r, "Ubuntu Developers <ubuntu-devel-discuss@lists.ubuntu.com>", "Debian Foo Team <foo@lists.debian.org>", "A B <a@b.c>")
	case "Depends", "Pre-Depends", "Breaks", "Recommends", "Provides":
		f.Value = pick(r, "libc6 (>= 2.34), libfoo1 (= 1.2-3)", "debconf (>= 0.5) | debconf-2.0", "perl:any", "foo (<< 2)")
	default:
		f.Value = randFrom(r, "abcdefghijklmnopqrstuvwxyz-", 2, 10)
	}
	switch r.Intn(12) {
	case 0:
		f.Lead = pick(r, "", "  ", "\t", " \t ")
	case 1:
		f.Trail = pick(r, " ", "\t", "  ")
	case 2:
		f.Key = pick(r, "X-Custom", "MD5sum", "installed-size", "SHA256", "a", "Python-Version", "x_y.z", "Tag!")
	case 3:
		if len(f.Conts) > 0 {
			f.Conts[r.Intn(len(f.Conts))].WS = pick(r, "  ", "\t", " \t", "    ")
		}
	}
	return f
}

func genDpkg(r *rand.Rand, i, n int) *Case {
	nrec := nRecords(r, i)
	style := []int{0, 0, 0, 1, 2}[r.Intn(5)]
	var cl dClaim
	cl.StatusD = i%5 == 4
	if cl.StatusD && nrec > 3 {
		nrec = 1 + r.Intn(2)
	}
	stream := "wellformed"
	var tags []string
	for k := 0; k < nrec; k++ {
		rec := dRec{Name: debName(r), Version: debVersion(r)}
		st := [3]string{"install", "ok", "installed"}
		switch r.Intn(10) {
		case 0:
			st = [3]string{"deinstall", "ok", "config-files"}
		case 1:
			st = [3]string{"purge", "ok", "not-installed"}
		case 2:
			st = [3]string{pick(r, "install", "hold"), pick(r, "ok", "reinstreq"), pick(r, "unpacked", "half-installed", "half-configured", "triggers-pending", "installed", "Installed", "installed2")}
		}
		rec.Status = &st
		if cl.StatusD && r.Intn(3) != 0 {
			rec.Status = nil
		}
		for f := r.Intn(8); f > 0; f-- {
			rec.Fields = append(rec.Fields, dOtherField(r))
		}
		if r.Intn(3) == 0 {
			src := dField{Source: true, Name: debName(r)}
			if r.Intn(2) == 0 {
				v := debVersion(r)
				src.Ver = &v
			}
			rec.Fields = insertAt(r.Intn(len(rec.Fields)+1), src, rec.Fields)
		}
		cl.Records = append(cl.Records, rec)
		nl := 0
		for _, f := range rec.Fields {
			nl += len(dFieldLines(f))
		}
		y := dRLay{PosS: r.Intn(len(rec.Fields) + 1), PosV: r.Intn(len(rec.Fields) + 2), PosP: r.Intn(len(rec.Fields) + 3), Gap: " ",
			Eols: eolList(r, style, nl+3), Sep1: eolGen(r, style), Sep: blanks(r, style, 15, 2)}
		if r.Intn(3) == 0 { // the usual order: Package, Status, ..., Version somewhere
			y.PosP, y.PosS = 0, 0
		}
		if r.Intn(15) == 0 {
			y.Gap = pick(r, "", "  ", "\t")
		}
		cl.Layout.Recs = append(cl.Layout.Recs, y)
	}
	cl.Layout.Lead = blanks(r, style, 10, 2)
	cl.Layout.Trail = blanks(r, style, 30, 2)
	cl.Layout.FinalNL = r.Intn(10) < 6
	if !cl.Layout.FinalNL && r.Intn(4) != 0 {
		cl.Layout.Trail = nil
		if nrec > 0 { // last line ends in LF style (a bare trailing \r would be part of the value)
			y := &cl.Layout.Recs[nrec-1]
			if len(y.Eols) > 0 && r.Intn(5) != 0 {
				for j := range y.Eols {
					if j >= len(y.Eols)-1 || r.Intn(2) == 0 {
						y.Eols[j] = false
					}
				}
			}
		}
	}
	// position tags for the not-installed record
	if nrec > 1 {
		inst := func(rec dRec) bool { return rec.Status == nil || rec.Status[2] == "installed" }
		if !inst(cl.Records[0]) {
			tags = append(tags, "special-first")
		}
		if !inst(cl.Records[nrec-1]) {
			tags = append(tags, "special-last")
		}
	}
	switch {
	case i%23 == 7 && nrec > 0: // ill-formed records (no claim)
		k := r.Intn(nrec)
		rec := &cl.Records[k]
		switch r.Intn(8) {
		case 0:
			rec.Version = ""
		case 1:
			rec.Name = ""
		case 2:
			st := [3]string{"install", "ok", ""}
			rec.Status = &st
		case 3:
			st := [3]string{"install ok", "installed", "x"}
			rec.Status = &st
		case 4:
			rec.Fields = append(rec.Fields, dField{Key: "Source", Lead: " ", Value: pick(r, "foo (1.0", "foo (1.0) x", " (", "a (b)")})
		case 5:
			rec.Fields = append(rec.Fields, dField{Key: pick(r, "package", "VERSION", "status", "Package"), Lead: " ", Value: "shadow"})
		case 6:
			rec.Fields = append(rec.Fields, dField{Key: "Maintainer", Lead: " ", Value: "J\xc3\xb6rg M\xc3\xbcller <j@example.org>"})
		default:
			rec.Fields = append(rec.Fields, dField{Key: pick(r, "Bad Key", "Bad:Key", "", "Kéy", "K\x01"), Lead: " ", Value: pick(r, "v", "ctl\x01", "del\x7f")})
		}
		stream, tags = "illformed-records", append(tags, "bad-field")
	case i%23 == 11 && nrec > 0: // ill-formed layout: first line of the file / of a stanza indented, or CR at EOF
		switch r.Intn(3) {
		case 0:
			cl.Records[0].Fields = append([]dField{{Key: " Indented", Lead: " ", Value: "x"}}, cl.Records[0].Fields...)
			cl.Layout.Recs[0].PosP, cl.Layout.Recs[0].PosV, cl.Layout.Recs[0].PosS = 9, 9, 9
		case 1:
			cl.Layout.FinalNL = false
			cl.Layout.Trail = nil
			y := &cl.Layout.Recs[nrec-1]
			for j := range y.Eols {
				y.Eols[j] = true
			}
		default:
			cl.Layout.FinalNL = false
			cl.Layout.Trail = []bool{false}
		}
		stream, tags = "illformed-layout", append(tags, "bad-layout")
	case i%41 == 13 && nrec > 0: // lines longer than bufio's 4096-byte buffer and than 64 KiB (no limit applies here)
		k := r.Intn(nrec)
		ln := []int{4095, 4096, 4097, 70000}[r.Intn(4)]
		cl.Records[k].Fields = append(cl.Records[k].Fields, dField{Key: "Description", Lead: " ", Value: strings.Repeat("d", ln)})
		cl.Layout.Recs[k].Eols = nil
		stream, tags = "long-line", append(tags, fmt.Sprintf("value-len-%d", ln))
	}
	if style == 1 {
		tags = append(tags, "crlf")
	} else if style == 2 {
		tags = append(tags, "mixed-eol")
	}
	if !cl.Layout.FinalNL {
		tags = append(tags, "no-final-newline")
	}
	if nrec == 1 {
		tags = append(tags, "single-record")
	}
	if nrec == 0 {
		tags = append(tags, "no-records")
	}
	if cl.StatusD {
		tags = append(tags, "status.d")
	}
	c := &Case{Stream: stream, Tags: tags, NRecords: nrec, Claim: cl, data: renderDpkg(cl.Records, cl.Layout), coqClaim: coqDClaim(cl)}
	if cl.StatusD {
		c.Path = "var/lib/dpkg/status.d/" + pick(r, "base-files", "libc6", "tzdata")
	}
	c.coqExtra = coqBool(cl.StatusD)
	for _, rec := range cl.Records {
		if (rec.Status == nil && cl.StatusD) || (rec.Status != nil && rec.Status[2] == "installed") {
			c.Expected = append(c.Expected, Pkg{rec.Name, rec.Version})
		}
	}
	return c
}

func init() {
	register(&Format{Name: "dpkg", Level: "byte", Path: "var/lib/dpkg/status", NewExtractor: dpkg.NewDefault,
		CoqModule: "Formats.Dpkg", Gen: genDpkg, CoqCase: func(c *Case) string {
			sd := c.coqExtra
			if sd == "" {
				sd = coqBool(strings.Contains(c.Path, "status.d"))
			}
			return fmt.Sprintf("{| dc_statusd := %s; dc_claim := %s; dc_bytes := %s; dc_obs := %s |}", sd, c.coqClaim, coqBytes(c.data), coqObserved(c.Observed))
		}})
}

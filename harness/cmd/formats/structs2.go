package main

import (
	"fmt"
	"math/rand"
	"strings"

	"github.com/google/osv-scalibr/extractor/filesystem/language/golang/gomod"
	"github.com/google/osv-scalibr/extractor/filesystem/language/javascript/packagelockjson"
)

// ---------------------------------------------------------------- package-lock.json
type npmRec struct {
	Prefix  string `json:"prefix"`
	Name    string `json:"name"`
	Version string `json:"version"`
}
type npmPkgEntry struct {
	Path    string `json:"path"`
	Name    string `json:"name,omitempty"`
	Version string `json:"version"`
	Commit  string `json:"commit,omitempty"` // what TryExtractCommit(resolved) yields, by construction
	res     string
	link    bool
}
type npmDep struct {
	Name    string    `json:"name"`
	Version string    `json:"version"`
	Commit  string    `json:"commit,omitempty"`
	Nested  []*npmDep `json:"nested"` // nil = key absent
	hasNest bool
}
type npmClaim struct {
	LockfileVersion int           `json:"lockfileVersion"`
	Root            bool          `json:"root"`
	Records         []npmRec      `json:"records,omitempty"`
	Packages        []npmPkgEntry `json:"packages,omitempty"`
	Deps            []*npmDep     `json:"dependencies,omitempty"`
}

func npmPlainName(r *rand.Rand) string {
	n := randFrom(r, "abcdefghijklmnopqrstuvwxyz", 1, 1) + randFrom(r, "abcdefghijklmnopqrstuvwxyz0123456789-._", 0, 12)
	if r.Intn(4) == 0 {
		return "@" + randFrom(r, "abcdefghijklmnopqrstuvwxyz0123456789-", 1, 8) + "/" + n
	}
	return n
}

func coqNpmPkgs(es []npmPkgEntry) string {
	items := make([]string, len(es))
	for i, e := range es {
		items[i] = fmt.Sprintf("{| np_path := %s; np_name := %s; np_version := %s; np_commit := %s |}", coqStr(e.Path), coqStr(e.Name), coqStr(e.Version), coqStr(e.Commit))
	}
	return coqList(items)
}

func coqNpmDeps(ds []*npmDep) string {
	items := make([]string, len(ds))
	for i, d := range ds {
		nested := "None"
		if d.hasNest {
			nested = "(Some " + coqNpmDeps(d.Nested) + ")"
		}
		items[i] = fmt.Sprintf("(%s, NDep %s %s %s)", coqStr(d.Name), coqStr(d.Version), coqStr(d.Commit), nested)
	}
	return coqList(items)
}

func npmDepsJSON(r *rand.Rand, ds []*npmDep) []jkv {
	out := []jkv{}
	for _, d := range ds {
		o := []jkv{{"version", d.Version}, {"resolved", "https://registry.npmjs.org/" + d.Name + "/-/x.tgz"}, {"integrity", "sha512-" + hexStr(r, 20)}}
		if r.Intn(4) == 0 {
			o = append(o, jkv{"dev", true})
		}
		if r.Intn(3) == 0 {
			o = append(o, jkv{"requires", []jkv{{"decoy", "^9.9.9"}}})
		}
		if d.hasNest {
			o = append(o, jkv{"dependencies", npmDepsJSON(r, d.Nested)})
		}
		out = append(out, jkv{d.Name, o})
	}
	return out
}

func genNpmDeps(r *rand.Rand, depth, n int, odd bool) []*npmDep {
	names := uniqueNames(r, n, func() string { return npmPlainName(r) })
	var out []*npmDep
	for _, nm := range names {
		d := &npmDep{Name: nm, Version: semverish(r)}
		if odd {
			switch r.Intn(8) {
			case 0:
				d.Version = "npm:" + npmPlainName(r) + "@" + semverish(r) // alias
			case 1:
				d.Version = "file:../local/" + nm
			case 2:
				h := hexStr(r, 40)
				d.Version, d.Commit = "git+ssh://git@github.com/o/"+strings.TrimPrefix(nm, "@")+".git#"+h, h
			case 3:
				h := hexStr(r, 7)
				d.Version, d.Commit = "github:o/r#"+h, h
			}
		}
		if depth < 2 && r.Intn(4) == 0 {
			d.hasNest = true
			d.Nested = genNpmDeps(r, depth+1, r.Intn(3), odd)
			if r.Intn(3) == 0 && len(out) > 0 { // the same package nested again: merged by name@version
				d.Nested = append(d.Nested, &npmDep{Name: out[0].Name, Version: out[0].Version, Commit: out[0].Commit})
			}
		}
		out = append(out, d)
	}
	return out
}

func flatV1(ds []*npmDep, acc map[Pkg]bool) {
	for _, d := range ds {
		flatV1(d.Nested, acc)
		acc[Pkg{d.Name, d.Version}] = true
	}
}

func genPackageLock(r *rand.Rand, i, n int) *Case {
	st := newJSONStyle(r)
	var cl npmClaim
	var tags []string
	stream := "wellformed"
	if i%4 == 3 { // lockfileVersion 1: nested dependencies
		cl.LockfileVersion = 1
		odd := i%8 == 7
		cl.Deps = genNpmDeps(r, 0, nRecords(r, i/4), odd)
		top := []jkv{{"name", "root"}, {"version", "1.0.0"}, {"lockfileVersion", 1}, {"requires", true}, {"dependencies", npmDepsJSON(r, cl.Deps)}}
		acc := map[Pkg]bool{}
		flatV1(cl.Deps, acc)
		tags = append(tags, "lockfile-v1")
		if odd {
			stream = "v1-alias-file-git"
		}
		c := &Case{Stream: stream, Tags: structTags(len(acc), tags...), NRecords: len(acc), Claim: cl, data: st.render(top), coqClaim: "None"}
		c.coqExtra = fmt.Sprintf("%s|{| ns_packages := None; ns_dependencies := %s |}", coqBool(!odd), coqNpmDeps(cl.Deps))
		if !odd {
			for p := range acc {
				c.Expected = append(c.Expected, p)
			}
			sortPkgs(c.Expected)
		}
		return c
	}
	cl.LockfileVersion = 2 + r.Intn(2)
	cl.Root = r.Intn(6) != 0
	nrec := nRecords(r, i)
	seen := map[Pkg]bool{}
	paths := map[string]bool{}
	for len(cl.Records) < nrec {
		rec := npmRec{Name: npmPlainName(r), Version: semverish(r)}
		switch r.Intn(5) {
		case 0:
			if len(cl.Records) > 0 {
				p := cl.Records[r.Intn(len(cl.Records))]
				rec.Prefix = p.Prefix + "node_modules/" + p.Name + "/"
			}
		case 1:
			rec.Prefix = "packages/" + randFrom(r, "abcdef", 1, 4) + "/"
		}
		if seen[Pkg{rec.Name, rec.Version}] || paths[rec.Prefix+"node_modules/"+rec.Name] {
			continue
		}
		seen[Pkg{rec.Name, rec.Version}] = true
		paths[rec.Prefix+"node_modules/"+rec.Name] = true
		cl.Records = append(cl.Records, rec)
	}
	var entries []npmPkgEntry
	if cl.Root {
		entries = append(entries, npmPkgEntry{Path: "", Name: "r", Version: "1"})
	}
	for _, rec := range cl.Records {
		entries = append(entries, npmPkgEntry{Path: rec.Prefix + "node_modules/" + rec.Name, Version: rec.Version,
			res: "https://registry.npmjs.org/" + rec.Name + "/-/" + rec.Name + "-" + rec.Version + ".tgz"})
	}
	claimOK := true
	switch {
	case i%9 == 8 && nrec > 0: // the same package installed at a second place: one package (merged by name@version): not claimed
		rec := cl.Records[0]
		cl.Records = append(cl.Records, npmRec{Prefix: "node_modules/zz-parent/", Name: rec.Name, Version: rec.Version})
		entries = append(entries, npmPkgEntry{Path: "node_modules/zz-parent/node_modules/" + rec.Name, Version: rec.Version, res: "https://registry.npmjs.org/x/-/x.tgz"})
		tags = append(tags, "same-package-two-places")
	case i%11 == 5: // entries outside the claimed domain: link, git resolved, explicit name
		claimOK = false
		stream = "odd-entries"
		h := hexStr(r, 40)
		entries = append(entries,
			npmPkgEntry{Path: "node_modules/linked", res: "packages/linked", link: true},
			npmPkgEntry{Path: "packages/linked", Version: "0.1.0"},
			npmPkgEntry{Path: "node_modules/fromgit", Version: "3.0.0", Commit: h, res: "git+ssh://git@github.com/o/fromgit.git#" + h},
			npmPkgEntry{Path: "node_modules/alias", Name: "real-name", Version: "4.0.0", res: "https://registry.npmjs.org/real-name/-/real-name-4.0.0.tgz"})
	}
	cl.Packages = entries
	pk := []jkv{}
	for _, e := range entries {
		o := []jkv{}
		if e.Path == "" {
			o = append(o, jkv{"name", "r"}, jkv{"version", "1"}, jkv{"dependencies", []jkv{{"decoy", "^1.0.0"}}})
		} else {
			if e.Version != "" {
				o = append(o, jkv{"version", e.Version})
			}
			if e.Name != "" {
				o = append(o, jkv{"name", e.Name})
			}
			if e.res != "" {
				o = append(o, jkv{"resolved", e.res})
			}
			if e.link {
				o = append(o, jkv{"link", true})
			} else {
				o = append(o, jkv{"integrity", "sha512-" + hexStr(r, 16)})
			}
			switch r.Intn(6) {
			case 0:
				o = append(o, jkv{"dev", true})
			case 1:
				o = append(o, jkv{"optional", true})
			case 2:
				o = append(o, jkv{"dependencies", []jkv{{"decoy", "^9.9.9"}}}, jkv{"engines", []jkv{{"node", ">=12"}}})
			}
		}
		pk = append(pk, jkv{e.Path, o})
	}
	top := []jkv{{"name", "r"}, {"version", "1"}, {"lockfileVersion", cl.LockfileVersion}, {"requires", true}, {"packages", pk}}
	if cl.LockfileVersion == 2 { // v2 carries the v1 tree as well; "packages" wins
		top = append(top, jkv{"dependencies", []jkv{{"decoy", []jkv{{"version", "9.9.9"}}}}})
	}
	tags = append(tags, fmt.Sprintf("lockfile-v%d", cl.LockfileVersion))
	if !cl.Root {
		tags = append(tags, "no-root-entry")
	}
	c := &Case{Stream: stream, Tags: structTags(len(cl.Records), tags...), NRecords: len(cl.Records), Claim: cl, data: st.render(top)}
	if claimOK {
		var rs []string
		for _, rec := range cl.Records {
			rs = append(rs, fmt.Sprintf("{| nr_prefix := %s; nr_name := %s; nr_version := %s |}", coqStr(rec.Prefix), coqStr(rec.Name), coqStr(rec.Version)))
			c.Expected = append(c.Expected, Pkg{rec.Name, rec.Version})
		}
		sortPkgs(c.Expected)
		c.coqClaim = "(Some (" + coqBool(cl.Root) + ", " + coqList(rs) + "))"
	} else {
		c.coqClaim = "None"
	}
	c.coqExtra = fmt.Sprintf("false|{| ns_packages := (Some %s); ns_dependencies := [] |}", coqNpmPkgs(entries))
	return c
}

func malPackageLock(r *rand.Rand, seed *Case) *Case {
	st := newJSONStyle(r)
	// the alias without '@' (slice bounds panic in the extractor) and other odd v1 versions
	ds := []*npmDep{{Name: "a", Version: pick(r, "npm:b", "npm:", "npm:@", "npm:x@", "file:", "1.0.0", "", "npm:@s/n@1.2.3")}}
	if r.Intn(2) == 0 {
		ds = append(ds, &npmDep{Name: "b", Version: "2.0.0", hasNest: true, Nested: []*npmDep{{Name: "a", Version: ds[0].Version}}})
	}
	top := []jkv{{"lockfileVersion", 1}, {"dependencies", npmDepsJSON(r, ds)}}
	c := &Case{Stream: "malformed", Tags: []string{"v1-odd-version:" + ds[0].Version}, data: st.render(top), coqClaim: "None"}
	c.coqExtra = fmt.Sprintf("false|{| ns_packages := None; ns_dependencies := %s |}", coqNpmDeps(ds))
	return c
}

// ---------------------------------------------------------------- go.mod
type gomodReplace struct {
	Old  string `json:"old"`
	OldV string `json:"old_version,omitempty"`
	New  string `json:"new"`
	NewV string `json:"new_version,omitempty"`
}
type gomodClaim struct {
	Requires  []Pkg          `json:"requires"` // version without the leading v
	Go        string         `json:"go,omitempty"`
	Toolchain string         `json:"toolchain,omitempty"`
	Replaces  []gomodReplace `json:"replaces,omitempty"`
}

// goModReq returns a module path and a version (without the leading v) that modfile accepts: the major
// version must agree with the path suffix (/vN, gopkg.in .vN), v2+ without suffix needs +incompatible.
func goModReq(r *rand.Rand) (string, string) {
	el := func() string {
		return randFrom(r, "abcdefghijklmnopqrstu", 1, 1) + randFrom(r, "abcdefghijklmnopqrstuvwxyz0123456789-", 0, 8) + randFrom(r, "abcdefghijklmnopqrstuvwxyz0123456789", 1, 1)
	}
	pre := pick(r, "", "", "", "-rc.1", "-beta.2", "-0.20230101120000-"+hexStr(r, 12))
	switch r.Intn(6) {
	case 0:
		maj := 2 + r.Intn(3)
		return pick(r, "github.com/", "example.com/") + el() + "/" + el() + fmt.Sprintf("/v%d", maj), fmt.Sprintf("%d.%d.%d", maj, r.Intn(30), r.Intn(30)) + pre
	case 1:
		maj := 1 + r.Intn(3)
		return "gopkg.in/" + el() + fmt.Sprintf(".v%d", maj), fmt.Sprintf("%d.%d.%d", maj, r.Intn(30), r.Intn(30)) + pre
	case 2:
		return "github.com/" + el() + "/" + el(), fmt.Sprintf("%d.%d.%d", 2+r.Intn(3), r.Intn(30), r.Intn(30)) + "+incompatible"
	}
	return pick(r, "github.com/", "golang.org/x/", "example.com/", "k8s.io/") + el() + pick(r, "", "", "/"+el()), fmt.Sprintf("%d.%d.%d", r.Intn(2), r.Intn(30), r.Intn(30)) + pre
}

// bumpVersion returns another valid version of the same major version (same +incompatible suffix).
func bumpVersion(v string, k int) string {
	suffix := ""
	if strings.HasSuffix(v, "+incompatible") {
		suffix = "+incompatible"
	}
	var a, b, c int
	fmt.Sscanf(v, "%d.%d.%d", &a, &b, &c)
	return fmt.Sprintf("%d.%d.%d", a, b, c+100+k) + suffix
}

// chainReplaces: replace directives whose replacement is itself required and / or replaced: chains and swaps.
// Returns the directives and a tag naming the shape; all shapes are inside wf_gomod (Go's non-transitive semantics),
// the version-less ones are the shapes of the fixed finding gomod-versionless-replace-transitive.
func chainReplaces(r *rand.Rand, reqs []Pkg) ([]gomodReplace, string) {
	if len(reqs) < 2 {
		return nil, ""
	}
	a, b := reqs[0], reqs[1]
	cp, cv := goModReq(r)
	ab := gomodReplace{Old: a.Name, New: b.Name, NewV: bumpVersion(b.Version, 1)}
	switch r.Intn(7) {
	case 0: // listed right to left: b => c, then a => b
		return []gomodReplace{{Old: b.Name, New: cp, NewV: cv}, ab}, "chain-right-to-left"
	case 1: // a => b, then the version-specific b@required => c
		return []gomodReplace{ab, {Old: b.Name, OldV: b.Version, New: cp, NewV: cv}}, "chain-version-specific"
	case 2: // a => b, then b => c without version: the extractor also rewrites a's replacement
		return []gomodReplace{ab, {Old: b.Name, New: cp, NewV: cv}}, "chain-versionless-transitive"
	case 3: // swap, second one version-specific
		return []gomodReplace{ab, {Old: b.Name, OldV: b.Version, New: a.Name, NewV: bumpVersion(a.Version, 2)}}, "swap-version-specific"
	case 4: // swap without versions
		return []gomodReplace{ab, {Old: b.Name, New: a.Name, NewV: bumpVersion(a.Version, 2)}}, "swap-versionless-transitive"
	case 5: // replacement is a required module (another version of it), nothing else
		return []gomodReplace{ab}, "replacement-is-required-module"
	default: // a directive for the replacement's OTHER version: must not apply to anything
		return []gomodReplace{ab, {Old: b.Name, OldV: bumpVersion(b.Version, 1), New: cp, NewV: cv}}, "chain-other-version"
	}
}

func renderGoMod(r *rand.Rand, cl gomodClaim) []byte {
	nl := "\n"
	if r.Intn(5) == 0 {
		nl = "\r\n"
	}
	var sb strings.Builder
	if r.Intn(3) == 0 {
		sb.WriteString("// Deprecated: not really" + nl)
	}
	sb.WriteString("module " + pick(r, "example.com/m", "\"example.com/quoted\"", "github.com/o/r/v2") + nl + nl)
	type directive func()
	var ds []directive
	if cl.Go != "" {
		ds = append(ds, func() { sb.WriteString("go " + cl.Go + nl + nl) })
	}
	if cl.Toolchain != "" {
		ds = append(ds, func() { sb.WriteString("toolchain " + cl.Toolchain + nl + nl) })
	}
	reqs := append([]Pkg(nil), cl.Requires...)
	for len(reqs) > 0 {
		k := 1 + r.Intn(len(reqs))
		chunk := reqs[:k]
		reqs = reqs[k:]
		ds = append(ds, func() {
			if len(chunk) == 1 && r.Intn(2) == 0 {
				sb.WriteString("require " + chunk[0].Name + " v" + chunk[0].Version + pick(r, "", " // indirect") + nl + nl)
				return
			}
			sb.WriteString("require (" + nl)
			for _, p := range chunk {
				sb.WriteString(pick(r, "\t", "    ", "\t\t") + p.Name + " v" + p.Version + pick(r, "", "", " // indirect", " // a comment") + nl)
				if r.Intn(8) == 0 {
					sb.WriteString(nl)
				}
			}
			sb.WriteString(")" + nl + nl)
		})
	}
	if len(cl.Replaces) > 0 {
		// all replace directives stay in their relative order (the order matters to the extractor): one group
		ds = append(ds, func() {
			fmtR := func(rp gomodReplace) string {
				s := rp.Old
				if rp.OldV != "" {
					s += " v" + rp.OldV
				}
				s += " => " + rp.New
				if rp.NewV != "" {
					s += " v" + rp.NewV
				}
				return s
			}
			if r.Intn(2) == 0 {
				for _, rp := range cl.Replaces {
					sb.WriteString("replace " + fmtR(rp) + nl + pick(r, "", nl))
				}
				sb.WriteString(nl)
			} else {
				sb.WriteString("replace (" + nl)
				for _, rp := range cl.Replaces {
					sb.WriteString("\t" + fmtR(rp) + nl)
				}
				sb.WriteString(")" + nl + nl)
			}
		})
	}
	if r.Intn(3) == 0 {
		ds = append(ds, func() { sb.WriteString("exclude github.com/decoy/excluded v1.9.9" + nl + nl) })
	}
	if r.Intn(4) == 0 {
		ds = append(ds, func() { sb.WriteString("retract v1.0.0 // oops" + nl + nl) })
	}
	r.Shuffle(len(ds), func(i, j int) { ds[i], ds[j] = ds[j], ds[i] })
	for _, d := range ds {
		d()
	}
	out := sb.String()
	if r.Intn(3) == 0 {
		out = strings.TrimRight(out, "\r\n")
	}
	return []byte(out)
}

func coqGoModSt(cl gomodClaim) string {
	var rq, rp []string
	for _, p := range cl.Requires {
		rq = append(rq, "("+coqStr(p.Name)+", "+coqStr("v"+p.Version)+")")
	}
	for _, x := range cl.Replaces {
		ov, nv := "", ""
		if x.OldV != "" {
			ov = "v" + x.OldV
		}
		if x.NewV != "" {
			nv = "v" + x.NewV
		}
		rp = append(rp, fmt.Sprintf("{| gr_old := %s; gr_oldv := %s; gr_new := %s; gr_newv := %s |}", coqStr(x.Old), coqStr(ov), coqStr(x.New), coqStr(nv)))
	}
	return fmt.Sprintf("{| gm_require := %s; gm_replace := %s; gm_go := %s; gm_toolchain := %s |}", coqList(rq), coqList(rp), coqStr(cl.Go), coqStr(cl.Toolchain))
}

func genGoMod(r *rand.Rand, i, n int) *Case {
	nrec := nRecords(r, i)
	if nrec > 40 {
		nrec = 40
	}
	var cl gomodClaim
	seenPath := map[string]bool{}
	for len(cl.Requires) < nrec {
		p, v := goModReq(r)
		if !seenPath[p] {
			seenPath[p] = true
			cl.Requires = append(cl.Requires, Pkg{p, v})
		}
	}
	cl.Go = pick(r, "1.21", "1.22.3", "1.17", "1.16", "1.13", "1.20", "")
	stream := "wellformed"
	var tags []string
	claim := true
	switch {
	case i%5 == 4 && nrec > 0: // replace directives (outside the proved domain; model = implementation only)
		claim = false
		stream = "with-replace"
		for k := 1 + r.Intn(3); k > 0; k-- {
			t := cl.Requires[r.Intn(len(cl.Requires))]
			np, nv := goModReq(r)
			rp := gomodReplace{Old: t.Name, New: np, NewV: nv}
			if r.Intn(3) == 0 {
				rp.New, rp.NewV = pick(r, "../local/fork", "./vendor/x"), ""
			}
			switch r.Intn(4) {
			case 0:
				rp.OldV = t.Version
			case 1:
				rp.OldV = strings.SplitN(t.Version, ".", 2)[0] + ".99.99" // does not match: no effect
				if strings.HasSuffix(t.Version, "+incompatible") {
					rp.OldV += "+incompatible"
				}
			case 2:
				rp.Old, _ = goModReq(r) // not required at all (any version)
			}
			dup := false
			for _, e := range cl.Replaces {
				if e.Old == rp.Old && e.OldV == rp.OldV {
					dup = true
				}
			}
			if !dup {
				cl.Replaces = append(cl.Replaces, rp)
			}
		}
		if r.Intn(3) == 0 && len(cl.Requires) > 1 { // two requirements replaced by the same module: merged by the second pass
			cl.Replaces = []gomodReplace{{Old: cl.Requires[0].Name, New: "example.com/same", NewV: "1.0.0"}, {Old: cl.Requires[1].Name, New: "example.com/same", NewV: "1.0.0"}}
		}
	case i%6 == 3 && nrec >= 2: // chains and swaps: the replacement is itself required / replaced
		stream = "replace-chain"
		var tag string
		cl.Replaces, tag = chainReplaces(r, cl.Requires)
		tags = append(tags, tag)
	case i%7 == 6: // toolchain directive overrides the go version for stdlib
		claim = false
		stream = "with-toolchain"
		cl.Toolchain = pick(r, "go1.21.3", "go1.22.0-custom", "go1.23rc1")
		if cl.Go == "" || cl.Go < "1.21" {
			cl.Go = "1.21"
		}
	}
	if cl.Go != "" {
		tags = append(tags, "go-"+cl.Go)
	}
	c := &Case{Stream: stream, Tags: structTags(nrec, tags...), NRecords: nrec, Claim: cl, data: renderGoMod(r, cl), coqClaim: "None"}
	{
		// the claim: records incl. replace / toolchain directives; Coq's wf_gomod decides whether the oracle applies
		var rq, rp []string
		for _, p := range cl.Requires {
			rq = append(rq, "("+coqStr(p.Name)+", "+coqStr(p.Version)+")")
		}
		for _, x := range cl.Replaces {
			rp = append(rp, fmt.Sprintf("{| rr_old := %s; rr_oldv := %s; rr_new := %s; rr_newv := %s |}", coqStr(x.Old), coqStr(x.OldV), coqStr(x.New), coqStr(x.NewV)))
		}
		c.coqClaim = fmt.Sprintf("(Some {| gq_requires := %s; gq_replaces := %s; gq_go := %s; gq_toolchain := %s |})", coqList(rq), coqList(rp), coqStr(cl.Go), coqStr(cl.Toolchain))
		// independent expectation (Go side, for the side file): first matching replace per requirement
		for _, p := range cl.Requires {
			out := p
			for _, x := range cl.Replaces {
				if x.Old == p.Name && (x.OldV == "" || x.OldV == p.Version) {
					out = Pkg{x.New, x.NewV}
					break
				}
			}
			c.Expected = append(c.Expected, out)
		}
		gv := cl.Go
		if cl.Toolchain != "" {
			gv = strings.TrimPrefix(strings.SplitN(cl.Toolchain, "-", 2)[0], "go")
		}
		if gv != "" {
			c.Expected = append(c.Expected, Pkg{"stdlib", gv})
		}
		sortPkgs(c.Expected)
	}
	_ = claim
	c.coqExtra = coqGoModSt(cl)
	return c
}

func init() {
	register(&Format{Name: "packagelock", Level: "struct", Path: "package-lock.json", NewExtractor: packagelockjson.NewDefault, Sorted: true,
		CoqModule: "Formats.Structs Formats.Structs2", Gen: genPackageLock, Mal: malPackageLock, CoqCase: func(c *Case) string {
			parts := strings.SplitN(c.coqExtra, "|", 2)
			return fmt.Sprintf("{| plc_claim := %s; plc_v1_claim := %s; plc_st := %s; plc_obs := %s |}", c.coqClaim, parts[0], parts[1], coqObserved(c.Observed))
		}})
	register(&Format{Name: "gomod", Level: "struct", Path: "go.mod", NewExtractor: gomod.New, Sorted: true,
		CoqModule: "Formats.Structs Formats.Structs2", Gen: genGoMod, Mal: func(r *rand.Rand, seed *Case) *Case {
			c := genGoMod(r, 4+5*r.Intn(40), 0) // replace-directive cases
			c.Stream, c.coqClaim = "malformed", "None"
			return c
		}, CoqCase: coqStructCase("gmc")})
}

package main

import (
	"encoding/base64"
	"encoding/json"
	"flag"
	"fmt"
	"math/rand"
	"os"
	"path/filepath"
	"strings"

	"github.com/google/osv-scalibr/extractor/filesystem"

	cf "verifharness/internal/coqfmt"
)

// Format describes one package-database format handled by this harness.
type Format struct {
	Name         string // short id, also the Coq identifier prefix (apk -> apk_case, apk_case_model_ok ...)
	Level        string // "byte" (model parses bytes) or "struct" (model runs on the decoded structure)
	Path         string // production file name the extractor is called with
	NewExtractor func() filesystem.Extractor
	Sorted       bool   // output order is unspecified (Go map iteration): compare sorted
	CoqModule    string // e.g. Formats.Apk
	// Gen returns the i-th (of n) case of the structured, mostly well-formed stream.
	Gen func(r *rand.Rand, i, n int) *Case
	// Mal returns a malformed case derived from a well-formed one (nil: use the generic byte mutator).
	Mal func(r *rand.Rand, seed *Case) *Case
	// CoqCase prints the case as a Coq record of type <Name>_case.
	CoqCase func(c *Case) string
}

var formats []*Format

func register(f *Format) { formats = append(formats, f) }

func formatByName(n string) *Format {
	for _, f := range formats {
		if f.Name == n {
			return f
		}
	}
	return nil
}

func runCase(f *Format, c *Case) {
	c.Format = f.Name
	if c.Path == "" {
		c.Path = f.Path
	}
	c.BytesB64 = b64(c.data)
	c.Text = preview(c.data)
	c.CoqClaim, c.CoqExtra = c.coqClaim, c.coqExtra
	c.Observed = runExtract(f.NewExtractor(), c.Path, c.data, f.Sorted)
}

func genericMal(f *Format) func(r *rand.Rand, seed *Case) *Case {
	return func(r *rand.Rand, seed *Case) *Case {
		data, how := mutateBytes(r, seed.data)
		for k := r.Intn(3); k > 0; k-- {
			var h string
			data, h = mutateBytes(r, data)
			how += "+" + h
		}
		return &Case{Stream: "malformed", Tags: []string{how}, data: data, coqClaim: "None", Path: seed.Path, coqExtra: seed.coqExtra}
	}
}

func main() {
	outdir := flag.String("outdir", "", "output directory for C03_<format>.v / .jsonl")
	seed := flag.Int64("seed", 1, "PRNG seed")
	n := flag.Int("n", 200, "well-formed-stream cases per format")
	mal := flag.Int("mal", 60, "malformed-stream cases per format")
	only := flag.String("formats", "", "comma separated subset (default: all)")
	replay := flag.String("replay", "", "replay file: {\"case\": {\"format\":..,\"bytes_b64\":..}}")
	list := flag.Bool("list", false, "print the implemented formats as JSON")
	dumpdir := flag.String("dumpdir", "", "also write every generated file at its production path: <dumpdir>/<format>-<index>/<path> (one scan root per case), plus <dumpdir>/index.jsonl")
	flag.Parse()

	if *list {
		var out []map[string]string
		for _, f := range formats {
			out = append(out, map[string]string{"name": f.Name, "level": f.Level, "path": f.Path, "module": f.CoqModule})
		}
		b, _ := json.Marshal(out)
		fmt.Println(string(b))
		return
	}
	if *replay != "" {
		doReplay(*replay)
		return
	}
	sel := map[string]bool{}
	if *only != "" {
		for _, s := range strings.Split(*only, ",") {
			sel[s] = true
		}
	}
	if err := os.MkdirAll(*outdir, 0o755); err != nil {
		panic(err)
	}
	for fi, f := range formats {
		if len(sel) > 0 && !sel[f.Name] {
			continue
		}
		r := rand.New(rand.NewSource(*seed*1000003 + int64(fi)*7919 + 17))
		var cases []*Case
		for i := 0; i < *n; i++ {
			cases = append(cases, f.Gen(r, i, *n))
		}
		malf := f.Mal
		if malf == nil {
			malf = genericMal(f)
		}
		nwf := len(cases)
		for i := 0; i < *mal && nwf > 0; i++ {
			cases = append(cases, malf(r, cases[r.Intn(nwf)]))
		}
		if *dumpdir != "" {
			if err := dumpCases(*dumpdir, f, cases); err != nil {
				panic(err)
			}
		}
		var items []string
		sf, err := os.Create(filepath.Join(*outdir, "C03_"+f.Name+".jsonl"))
		if err != nil {
			panic(err)
		}
		enc := json.NewEncoder(sf)
		for _, c := range cases {
			runCase(f, c)
			items = append(items, f.CoqCase(c))
			if err := enc.Encode(c); err != nil {
				panic(err)
			}
			if timedOut {
				break // a hung Extract keeps running in its goroutine: stop here, write what we have, exit 3
			}
		}
		sf.Close()
		var sb strings.Builder
		sb.WriteString(coqHeader(f))
		sb.WriteString(cf.Chunked("cases", f.Name+"_case", items, 25))
		if err := os.WriteFile(filepath.Join(*outdir, "C03_"+f.Name+".v"), []byte(sb.String()), 0o644); err != nil {
			panic(err)
		}
		fmt.Printf("format=%s cases=%d\n", f.Name, len(items))
		if loadInducedTimeouts > 0 {
			fmt.Printf("load_induced_timeouts format=%s n=%d\n", f.Name, loadInducedTimeouts)
			loadInducedTimeouts = 0
		}
		if timedOut {
			fmt.Printf("timeout format=%s case=%d\n", f.Name, len(items)-1)
			os.Exit(3)
		}
	}
}

// dumpCases writes each case's file under a production-like relative path so that other harnesses can scan the
// directory tree: <dir>/<format>-<index>/<production path>. index.jsonl lists root, path, stream, expected packages.
func dumpCases(dir string, f *Format, cases []*Case) error {
	idx, err := os.OpenFile(filepath.Join(dir, "index.jsonl"), os.O_CREATE|os.O_APPEND|os.O_WRONLY, 0o644)
	if err != nil {
		if err2 := os.MkdirAll(dir, 0o755); err2 != nil {
			return err2
		}
		if idx, err = os.OpenFile(filepath.Join(dir, "index.jsonl"), os.O_CREATE|os.O_APPEND|os.O_WRONLY, 0o644); err != nil {
			return err
		}
	}
	defer idx.Close()
	enc := json.NewEncoder(idx)
	for i, c := range cases {
		path := c.Path
		if path == "" {
			path = f.Path
		}
		root := fmt.Sprintf("%s-%04d", f.Name, i)
		full := filepath.Join(dir, root, filepath.FromSlash(path))
		if err := os.MkdirAll(filepath.Dir(full), 0o755); err != nil {
			return err
		}
		if err := os.WriteFile(full, c.data, 0o644); err != nil {
			return err
		}
		if err := enc.Encode(map[string]any{"root": root, "path": path, "format": f.Name, "stream": c.Stream, "n_records": c.NRecords, "expected": c.Expected, "tags": c.Tags}); err != nil {
			return err
		}
	}
	return nil
}

func coqHeader(f *Format) string {
	return "From Coq Require Import List NArith Bool.\nFrom Scalibr Require Import Formats.Lines " + f.CoqModule + ".\nImport ListNotations.\n"
}

// replay: re-run the extractor on the recorded bytes and print what Coq needs to re-evaluate model and spec
func doReplay(path string) {
	b, err := os.ReadFile(path)
	if err != nil {
		panic(err)
	}
	var wrap struct {
		Case struct {
			Format   string `json:"format"`
			BytesB64 string `json:"bytes_b64"`
			Path     string `json:"path"`
			CoqClaim string `json:"coq_claim"`
			CoqExtra string `json:"coq_extra"`
		} `json:"case"`
	}
	if err := json.Unmarshal(b, &wrap); err != nil {
		panic(err)
	}
	f := formatByName(wrap.Case.Format)
	if f == nil {
		fmt.Println("unknown format", wrap.Case.Format)
		os.Exit(2)
	}
	data, err := base64.StdEncoding.DecodeString(wrap.Case.BytesB64)
	if err != nil {
		panic(err)
	}
	c := &Case{Stream: "replay", data: data, coqClaim: wrap.Case.CoqClaim, coqExtra: wrap.Case.CoqExtra, Path: wrap.Case.Path}
	if c.coqClaim == "" {
		c.coqClaim = "None"
	}
	runCase(f, c)
	fmt.Printf("format: %s\nfile (%d bytes): %q\n", f.Name, len(data), preview(data))
	ob, _ := json.Marshal(c.Observed)
	fmt.Printf("implementation: %s\n", ob)
	fmt.Printf("coq-module: %s\n", f.CoqModule)
	fmt.Printf("coq-case: %s\n", f.CoqCase(c))
	if timedOut {
		os.Exit(0) // do not wait for the hung goroutine
	}
}

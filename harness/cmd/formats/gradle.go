package main

import (
	"fmt"
	"math/rand"
	"strings"

	"github.com/google/osv-scalibr/extractor/filesystem/language/java/gradlelockfile"
)

type grRec struct {
	Group    string `json:"group"`
	Artifact string `json:"artifact"`
	Version  string `json:"version"`
	Configs  string `json:"configs"`
}

type grNoise struct {
	Kind string `json:"kind"` // blank | comment | empty
	Lead string `json:"lead,omitempty"`
	Text string `json:"text,omitempty"`
	CRLF bool   `json:"crlf"`
}

type grRLay struct {
	Before []grNoise `json:"before,omitempty"`
	Lead   string    `json:"lead,omitempty"`
	Trail  string    `json:"trail,omitempty"`
	CRLF   bool      `json:"crlf"`
}

type grLayout struct {
	Recs    []grRLay  `json:"recs"`
	After   []grNoise `json:"after,omitempty"`
	FinalNL bool      `json:"final_nl"`
}

type grClaim struct {
	Records []grRec  `json:"records"`
	Layout  grLayout `json:"layout"`
}

func (n grNoise) content() string {
	switch n.Kind {
	case "comment":
		return n.Lead + "#" + n.Text
	case "empty":
		return n.Lead + "empty=" + n.Text
	}
	return n.Lead
}

// renderGradle mirrors Formats/Gradle.v: render_gradle.
func renderGradle(rs []grRec, l grLayout) []byte {
	var ls []line
	for i, r := range rs {
		y := grRLay{}
		if i < len(l.Recs) {
			y = l.Recs[i]
		}
		for _, n := range y.Before {
			ls = append(ls, line{n.content(), n.CRLF})
		}
		ls = append(ls, line{y.Lead + r.Group + ":" + r.Artifact + ":" + r.Version + "=" + r.Configs + y.Trail, y.CRLF})
	}
	for _, n := range l.After {
		ls = append(ls, line{n.content(), n.CRLF})
	}
	return renderLines(ls, l.FinalNL)
}

func coqNoise(ns []grNoise) string {
	items := make([]string, len(ns))
	for i, n := range ns {
		var t string
		switch n.Kind {
		case "comment":
			t = "NComment " + coqStr(n.Lead) + " " + coqStr(n.Text)
		case "empty":
			t = "NEmpty " + coqStr(n.Lead) + " " + coqStr(n.Text)
		default:
			t = "NBlank " + coqStr(n.Lead)
		}
		items[i] = "(" + t + ", " + coqEol(n.CRLF) + ")"
	}
	return coqList(items)
}

func coqGrClaim(c grClaim) string {
	var rs, ys []string
	for _, r := range c.Records {
		rs = append(rs, fmt.Sprintf("{| g_group := %s; g_artifact := %s; g_version := %s; g_configs := %s |}",
			coqStr(r.Group), coqStr(r.Artifact), coqStr(r.Version), coqStr(r.Configs)))
	}
	for _, y := range c.Layout.Recs {
		ys = append(ys, fmt.Sprintf("{| gl_before := %s; gl_lead := %s; gl_trail := %s; gl_eol := %s |}",
			coqNoise(y.Before), coqStr(y.Lead), coqStr(y.Trail), coqEol(y.CRLF)))
	}
	lay := fmt.Sprintf("{| gl_recs := %s; gl_after := %s; gl_final_nl := %s |}", coqList(ys), coqNoise(c.Layout.After), coqBool(c.Layout.FinalNL))
	return "(Some (" + coqList(rs) + ", " + lay + "))"
}

const mvnAlpha = "abcdefghijklmnopqrstuvwxyzABCDEFGHIJKLMNOPQRSTUVWXYZ0123456789._-"

func grNoiseGen(r *rand.Rand, style int, p int) []grNoise {
	var out []grNoise
	for r.Intn(100) < p {
		n := grNoise{CRLF: eolGen(r, style), Lead: randFrom(r, "  \t", 0, 2)}
		if r.Intn(3) != 0 {
			n.Lead = ""
		}
		switch r.Intn(4) {
		case 0:
			n.Kind = "blank"
		case 1:
			n.Kind = "empty"
			n.Text = pick(r, "", "annotationProcessor,testAnnotationProcessor", "x")
		default:
			n.Kind = "comment"
			n.Text = pick(r, " This is a Gradle generated file for dependency locking.", " Manual edits can break the build and are not advised.",
				" This file is expected to be part of source control.", "", " a:b:1=c", "#", " empty=") + randFrom(r, "abc :=#\t", 0, 5)
		}
		out = append(out, n)
		p = p / 2
	}
	return out
}

func genGradle(r *rand.Rand, i, n int) *Case {
	nrec := nRecords(r, i)
	style := []int{0, 0, 1, 2}[r.Intn(4)]
	var cl grClaim
	stream := "wellformed"
	var tags []string
	for k := 0; k < nrec; k++ {
		rec := grRec{
			Group:    randFrom(r, "abcdefghijklmnopqrstuvwxyz", 1, 1) + randFrom(r, mvnAlpha, 0, 12),
			Artifact: randFrom(r, mvnAlpha, 1, 14),
			Version:  fmt.Sprintf("%d.%d", r.Intn(40), r.Intn(100)) + pick(r, "", "", ".Final", "-SNAPSHOT", ".0-rc1", ":classifier", "+build.7"),
			Configs:  pick(r, "compileClasspath,runtimeClasspath", "classpath", "testCompileClasspath", "", "a=b,c", "annotationProcessor"),
		}
		if r.Intn(12) == 0 {
			rec.Group = pick(r, "empty", "empty.x", "e", "emptyx", "com.empty")
		}
		cl.Records = append(cl.Records, rec)
		y := grRLay{CRLF: eolGen(r, style), Before: grNoiseGen(r, style, 30)}
		if k == 0 && r.Intn(2) == 0 { // the usual three header comments
			y.Before = append([]grNoise{{Kind: "comment", Text: " This is a Gradle generated file for dependency locking.", CRLF: eolGen(r, style)},
				{Kind: "comment", Text: " Manual edits can break the build and are not advised.", CRLF: eolGen(r, style)}}, y.Before...)
		}
		if r.Intn(6) == 0 {
			y.Lead = randFrom(r, " \t", 1, 3)
		}
		if r.Intn(6) == 0 {
			y.Trail = randFrom(r, " \t", 1, 3)
		}
		cl.Layout.Recs = append(cl.Layout.Recs, y)
	}
	cl.Layout.After = grNoiseGen(r, style, 60)
	if r.Intn(2) == 0 {
		cl.Layout.After = append(cl.Layout.After, grNoise{Kind: "empty", Text: pick(r, "", "annotationProcessor"), CRLF: eolGen(r, style)})
	}
	cl.Layout.FinalNL = r.Intn(10) < 6
	switch {
	case i%23 == 7 && nrec > 0: // ill-formed coordinates (no claim): '=' missing is impossible to express, so: group with '#', or ':' in artifact
		k := r.Intn(nrec)
		switch r.Intn(4) {
		case 0:
			cl.Records[k].Group = "#" + cl.Records[k].Group
		case 1:
			cl.Records[k].Artifact += ":x"
		case 2:
			cl.Records[k].Group = "empty=" + cl.Records[k].Group
		default:
			cl.Records[k].Version = ""
		}
		stream, tags = "illformed-records", append(tags, "bad-coordinate")
	case i%23 == 11 && nrec > 0: // Unicode white space around the line: TrimSpace removes it (layout not well-formed: no claim)
		k := r.Intn(nrec)
		cl.Layout.Recs[k].Lead = pick(r, " ", "  ", "　", "\u0085", "\xc2", "\xe2\x80")
		cl.Layout.Recs[k].Trail = pick(r, " ", "  ", "　", "\u0085\t", "\x85", "\x80\x80", "")
		stream, tags = "illformed-layout", append(tags, "unicode-space")
	case i%41 == 13 && nrec > 0:
		k := r.Intn(nrec)
		base := len(cl.Records[k].Group) + len(cl.Records[k].Artifact) + len(cl.Records[k].Version) + 3
		ln := []int{65533, 65534, 65535, 65536}[r.Intn(4)]
		cl.Records[k].Configs = strings.Repeat("c", ln-base)
		cl.Layout.Recs[k].Lead, cl.Layout.Recs[k].Trail = "", ""
		stream, tags = "long-line", append(tags, fmt.Sprintf("line-len-%d", ln))
	}
	if style == 1 {
		tags = append(tags, "crlf")
	} else if style == 2 {
		tags = append(tags, "mixed-eol")
	}
	if !cl.Layout.FinalNL {
		tags = append(tags, "no-final-newline")
	}
	if nrec == 1 {
		tags = append(tags, "single-record")
	}
	if nrec == 0 {
		tags = append(tags, "no-records")
	}
	c := &Case{Stream: stream, Tags: tags, NRecords: nrec, Claim: cl, data: renderGradle(cl.Records, cl.Layout), coqClaim: coqGrClaim(cl)}
	for _, rec := range cl.Records {
		c.Expected = append(c.Expected, Pkg{rec.Group + ":" + rec.Artifact, rec.Version})
	}
	return c
}

func init() {
	register(&Format{Name: "gradle", Level: "byte", Path: "gradle.lockfile", NewExtractor: gradlelockfile.New,
		CoqModule: "Formats.Gradle", Gen: genGradle, CoqCase: coqLineCase("gc")})
}

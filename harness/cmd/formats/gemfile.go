package main

import (
	"fmt"
	"math/rand"
	"strings"

	"github.com/google/osv-scalibr/extractor/filesystem/language/ruby/gemfilelock"
)

type gemSpec struct {
	Name     string  `json:"name"`
	Version  string  `json:"version"`
	Platform *string `json:"platform,omitempty"`
}
type gemSec struct {
	Kind  string    `json:"kind"` // GIT GEM PATH PLUGIN SOURCE
	Specs []gemSpec `json:"specs"`
}
type gemNoise struct {
	Blank  bool   `json:"blank,omitempty"`
	Indent int    `json:"indent,omitempty"`
	Text   string `json:"text,omitempty"`
	CRLF   bool   `json:"crlf"`
}
type gemSLay struct {
	Before []gemNoise `json:"before,omitempty"`
	Bang   bool       `json:"bang,omitempty"`
	CRLF   bool       `json:"crlf"`
}
type gemBodyLine struct {
	Text *string `json:"text"` // nil = blank line, else " " + text
	CRLF bool    `json:"crlf"`
}
type gemBetween struct {
	Blank bool          `json:"blank,omitempty"`
	Name  string        `json:"name,omitempty"`
	CRLF  bool          `json:"crlf"`
	Body  []gemBodyLine `json:"body,omitempty"`
}
type gemSecLay struct {
	Pre   []gemBetween `json:"pre,omitempty"`
	CRLF  bool         `json:"crlf"`
	Specs []gemSLay    `json:"specs,omitempty"`
	After []gemNoise   `json:"after,omitempty"`
}
type gemLayout struct {
	Secs    []gemSecLay  `json:"secs"`
	Tail    []gemBetween `json:"tail,omitempty"`
	FinalNL bool         `json:"final_nl"`
}
type gemClaim struct {
	Records []gemSec  `json:"records"`
	Layout  gemLayout `json:"layout"`
}

func gemNoiseLines(ns []gemNoise) []line {
	var ls []line
	for _, n := range ns {
		if n.Blank {
			ls = append(ls, line{"", n.CRLF})
		} else {
			ls = append(ls, line{strings.Repeat(" ", n.Indent) + n.Text, n.CRLF})
		}
	}
	return ls
}

func gemBetweenLines(bs []gemBetween) []line {
	var ls []line
	for _, b := range bs {
		if b.Blank {
			ls = append(ls, line{"", b.CRLF})
			continue
		}
		ls = append(ls, line{b.Name, b.CRLF})
		for _, bl := range b.Body {
			if bl.Text == nil {
				ls = append(ls, line{"", bl.CRLF})
			} else {
				ls = append(ls, line{" " + *bl.Text, bl.CRLF})
			}
		}
	}
	return ls
}

// renderGemfile mirrors Formats/Gemfile.v: render_gemfile.
func renderGemfile(rs []gemSec, l gemLayout) []byte {
	var ls []line
	for i, sec := range rs {
		y := gemSecLay{}
		if i < len(l.Secs) {
			y = l.Secs[i]
		}
		ls = append(ls, gemBetweenLines(y.Pre)...)
		ls = append(ls, line{sec.Kind, y.CRLF})
		for j, s := range sec.Specs {
			sy := gemSLay{}
			if j < len(y.Specs) {
				sy = y.Specs[j]
			}
			ls = append(ls, gemNoiseLines(sy.Before)...)
			t := "    " + s.Name + " (" + s.Version
			if s.Platform != nil {
				t += "-" + *s.Platform
			}
			t += ")"
			if sy.Bang {
				t += "!"
			}
			ls = append(ls, line{t, sy.CRLF})
		}
		ls = append(ls, gemNoiseLines(y.After)...)
	}
	ls = append(ls, gemBetweenLines(l.Tail)...)
	return renderLines(ls, l.FinalNL)
}

func coqGemNoise(ns []gemNoise) string {
	items := make([]string, len(ns))
	for i, n := range ns {
		if n.Blank {
			items[i] = "(GBlank, " + coqEol(n.CRLF) + ")"
		} else {
			items[i] = fmt.Sprintf("(GOther %d%%nat %s, %s)", n.Indent, coqStr(n.Text), coqEol(n.CRLF))
		}
	}
	return coqList(items)
}

func coqGemBetween(bs []gemBetween) string {
	items := make([]string, len(bs))
	for i, b := range bs {
		if b.Blank {
			items[i] = "BBlank " + coqEol(b.CRLF)
			continue
		}
		body := make([]string, len(b.Body))
		for j, bl := range b.Body {
			if bl.Text == nil {
				body[j] = "(None, " + coqEol(bl.CRLF) + ")"
			} else {
				body[j] = "(Some " + coqStr(*bl.Text) + ", " + coqEol(bl.CRLF) + ")"
			}
		}
		items[i] = "BSection " + coqStr(b.Name) + " " + coqEol(b.CRLF) + " " + coqList(body)
	}
	return coqList(items)
}

func coqGemClaim(c gemClaim) string {
	var rs, ys []string
	for _, sec := range c.Records {
		kind := map[string]string{"GIT": "KGit", "GEM": "KGem", "PATH": "KPath", "PLUGIN SOURCE": "KPlugin"}[sec.Kind]
		var ss []string
		for _, s := range sec.Specs {
			plat := "None"
			if s.Platform != nil {
				plat = "(Some " + coqStr(*s.Platform) + ")"
			}
			ss = append(ss, fmt.Sprintf("{| gs_name := %s; gs_version := %s; gs_platform := %s |}", coqStr(s.Name), coqStr(s.Version), plat))
		}
		rs = append(rs, fmt.Sprintf("{| sec_kind := %s; sec_specs := %s |}", kind, coqList(ss)))
	}
	for _, y := range c.Layout.Secs {
		var sl []string
		for _, sy := range y.Specs {
			sl = append(sl, fmt.Sprintf("{| sl_before := %s; sl_bang := %s; sl_eol := %s |}", coqGemNoise(sy.Before), coqBool(sy.Bang), coqEol(sy.CRLF)))
		}
		ys = append(ys, fmt.Sprintf("{| cl_pre := %s; cl_eol := %s; cl_specs := %s; cl_after := %s |}",
			coqGemBetween(y.Pre), coqEol(y.CRLF), coqList(sl), coqGemNoise(y.After)))
	}
	lay := fmt.Sprintf("{| ly_secs := %s; ly_tail := %s; ly_final_nl := %s |}", coqList(ys), coqGemBetween(c.Layout.Tail), coqBool(c.Layout.FinalNL))
	return "(Some (" + coqList(rs) + ", " + lay + "))"
}

const gemNameAlpha = "abcdefghijklmnopqrstuvwxyz0123456789_-."

func gemDepLine(r *rand.Rand) string {
	return randFrom(r, "abcdefghijklmnopqrstuvwxyz_-", 2, 10) + pick(r, "", " (>= 1.0)", " (~> 2.4.1)", " (>= 1.0, < 3)", " (= 1.2.3)", "!")
}

func gemAttr(r *rand.Rand, style int) gemNoise {
	return gemNoise{Indent: 2, CRLF: eolGen(r, style), Text: pick(r, "remote: https://rubygems.org/", "remote: https://github.com/foo/bar.git",
		"revision: "+randFrom(r, "0123456789abcdef", 40, 40), "branch: main", "specs:", "ref: v1", "tag: v2.0", "glob: *.gemspec")}
}

func gemOtherSection(r *rand.Rand, style int) gemBetween {
	str := func(s string) *string { return &s }
	b := gemBetween{CRLF: eolGen(r, style)}
	switch r.Intn(6) {
	case 0:
		b.Name = "PLATFORMS"
		for k := 1 + r.Intn(3); k > 0; k-- {
			b.Body = append(b.Body, gemBodyLine{str(" " + pick(r, "ruby", "x86_64-linux", "arm64-darwin-21", "java")), eolGen(r, style)})
		}
	case 1:
		b.Name = "DEPENDENCIES"
		for k := r.Intn(5); k > 0; k-- {
			b.Body = append(b.Body, gemBodyLine{str(" " + gemDepLine(r)), eolGen(r, style)})
		}
	case 2:
		b.Name = "BUNDLED WITH"
		b.Body = append(b.Body, gemBodyLine{str("  2.4." + fmt.Sprint(r.Intn(30))), eolGen(r, style)})
	case 3:
		b.Name = "RUBY VERSION"
		b.Body = append(b.Body, gemBodyLine{str("  ruby 3.1.2p20"), eolGen(r, style)})
	case 4:
		b.Name = "CHECKSUMS"
		for k := r.Intn(4); k > 0; k-- {
			b.Body = append(b.Body, gemBodyLine{str(" " + randFrom(r, gemNameAlpha, 2, 8) + " (1.0) sha256=" + randFrom(r, "0123456789abcdef", 16, 16)), eolGen(r, style)})
		}
	default: // unknown section with spec-looking 4-space lines: must be ignored
		b.Name = pick(r, "GEMS", "git", "SVN", "GIT ", "PLUGIN", "G")
		for k := 1 + r.Intn(3); k > 0; k-- {
			b.Body = append(b.Body, gemBodyLine{str("   " + randFrom(r, gemNameAlpha, 2, 8) + " (9.9)"), eolGen(r, style)})
		}
	}
	if r.Intn(3) == 0 {
		b.Body = append(b.Body, gemBodyLine{nil, eolGen(r, style)})
	}
	return b
}

func gemBetweenGen(r *rand.Rand, style int, first bool) []gemBetween {
	var out []gemBetween
	if !first || r.Intn(3) == 0 {
		out = append(out, gemBetween{Blank: true, CRLF: eolGen(r, style)})
	}
	for r.Intn(3) == 0 {
		out = append(out, gemOtherSection(r, style), gemBetween{Blank: true, CRLF: eolGen(r, style)})
	}
	if !first && r.Intn(8) == 0 { // no blank line between sections at all
		out = nil
	}
	return out
}

func genGemfile(r *rand.Rand, i, n int) *Case {
	style := []int{0, 0, 1, 2}[r.Intn(4)]
	nsec := 1 + r.Intn(3)
	if i == 0 {
		nsec = 0
	}
	var cl gemClaim
	stream := "wellformed"
	var tags []string
	nrec := 0
	for k := 0; k < nsec; k++ {
		sec := gemSec{Kind: pick(r, "GEM", "GEM", "GIT", "PATH", "PLUGIN SOURCE")}
		y := gemSecLay{Pre: gemBetweenGen(r, style, k == 0), CRLF: eolGen(r, style)}
		ns := r.Intn(7)
		if i <= 3 {
			ns = 1
			nsec = 1
		}
		if i%37 == 5 {
			ns = 30 + r.Intn(40)
		}
		for j := 0; j < ns; j++ {
			s := gemSpec{Name: randFrom(r, "abcdefghijklmnopqrstuvwxyz", 1, 1) + randFrom(r, gemNameAlpha, 0, 14),
				Version: fmt.Sprintf("%d.%d.%d", r.Intn(12), r.Intn(30), r.Intn(30)) + pick(r, "", "", "", ".pre", ".rc1", ".beta.2")}
			if r.Intn(6) == 0 {
				p := pick(r, "java", "x86_64-linux", "arm64-darwin", "x86-mingw32", "")
				s.Platform = &p
			}
			sy := gemSLay{CRLF: eolGen(r, style), Bang: r.Intn(15) == 0}
			if j == 0 { // attribute lines come before the first spec
				for a := 1 + r.Intn(3); a > 0; a-- {
					sy.Before = append(sy.Before, gemAttr(r, style))
				}
			} else {
				for r.Intn(3) == 0 { // dependency lines of the previous spec (6 spaces) / stray blank lines
					if r.Intn(8) == 0 {
						sy.Before = append(sy.Before, gemNoise{Blank: true, CRLF: eolGen(r, style)})
					} else {
						sy.Before = append(sy.Before, gemNoise{Indent: pick2(r, 6, 6, 6, 5, 8, 3), Text: gemDepLine(r), CRLF: eolGen(r, style)})
					}
				}
			}
			sec.Specs = append(sec.Specs, s)
			y.Specs = append(y.Specs, sy)
			nrec++
		}
		for r.Intn(3) == 0 {
			y.After = append(y.After, gemNoise{Indent: 6, Text: gemDepLine(r), CRLF: eolGen(r, style)})
		}
		if ns == 0 {
			y.After = append([]gemNoise{gemAttr(r, style)}, y.After...)
		}
		cl.Records = append(cl.Records, sec)
		cl.Layout.Secs = append(cl.Layout.Secs, y)
		if i <= 3 {
			break
		}
	}
	cl.Layout.Tail = gemBetweenGen(r, style, len(cl.Records) == 0)
	if r.Intn(2) == 0 {
		cl.Layout.Tail = append(cl.Layout.Tail, gemOtherSection(r, style))
	}
	cl.Layout.FinalNL = r.Intn(10) < 6
	switch {
	case i%23 == 7 && nrec > 0: // ill-formed specs (no claim)
		sec := &cl.Records[r.Intn(len(cl.Records))]
		if len(sec.Specs) > 0 {
			s := &sec.Specs[r.Intn(len(sec.Specs))]
			switch r.Intn(5) {
			case 0:
				s.Version = "1.0-beta" // '-' inside the version: reported version is cut
			case 1:
				s.Name = "has space"
			case 2:
				s.Name = "odd (1.0) name"
			case 3:
				s.Version = ""
			default:
				s.Name = ""
			}
		}
		stream, tags = "illformed-records", append(tags, "bad-spec")
	case i%23 == 11: // ill-formed layout: 4-space / revision line before any section, or 4-space noise
		if r.Intn(2) == 0 && len(cl.Layout.Secs) > 0 {
			cl.Layout.Secs[0].Pre = append([]gemBetween{{Name: pick(r, "    early (1.0)", "  revision: abc", "   three", " x"), CRLF: false}}, cl.Layout.Secs[0].Pre...)
		} else if len(cl.Layout.Secs) > 0 {
			cl.Layout.Secs[0].After = append(cl.Layout.Secs[0].After, gemNoise{Indent: 4, Text: pick(r, "sneaky (6.6.6)", "nover", "x (1)!", "(2)", "y (1-2-3)"), CRLF: false})
		}
		stream, tags = "illformed-layout", append(tags, "bad-indent")
	case i%41 == 13 && nrec > 0:
		sec := &cl.Records[0]
		if len(sec.Specs) > 0 {
			ln := []int{65533, 65534, 65535, 65536}[r.Intn(4)]
			k := r.Intn(len(sec.Specs))
			sec.Specs[k].Platform = nil
			sec.Specs[k].Name = strings.Repeat("n", ln-4-3-len(sec.Specs[k].Version))
			cl.Layout.Secs[0].Specs[k].Bang = false
			stream, tags = "long-line", append(tags, fmt.Sprintf("line-len-%d", ln))
		}
	}
	if style == 1 {
		tags = append(tags, "crlf")
	} else if style == 2 {
		tags = append(tags, "mixed-eol")
	}
	if !cl.Layout.FinalNL {
		tags = append(tags, "no-final-newline")
	}
	if nrec == 1 {
		tags = append(tags, "single-record")
	}
	if nrec == 0 {
		tags = append(tags, "no-records")
	}
	if len(cl.Records) > 1 {
		tags = append(tags, "multi-section")
	}
	c := &Case{Stream: stream, Tags: tags, NRecords: nrec, Claim: cl, data: renderGemfile(cl.Records, cl.Layout), coqClaim: coqGemClaim(cl)}
	for _, sec := range cl.Records {
		for _, s := range sec.Specs {
			c.Expected = append(c.Expected, Pkg{s.Name, s.Version})
		}
	}
	return c
}

func pick2(r *rand.Rand, xs ...int) int { return xs[r.Intn(len(xs))] }

func init() {
	register(&Format{Name: "gemfile", Level: "byte", Path: "Gemfile.lock", NewExtractor: gemfilelock.New,
		CoqModule: "Formats.Gemfile", Gen: genGemfile, CoqCase: coqLineCase("gfc")})
}

package main

// go.mod at byte level (Formats/GoModBytes.v): documents = directives + layout, rendered here and in Coq;
// the oracle table says for every directive whether golang.org/x/mod/modfile accepts its arguments.

import (
	"fmt"
	"math/rand"
	"strings"

	"github.com/google/osv-scalibr/extractor/filesystem/language/golang/gomod"
	"golang.org/x/mod/modfile"
)

type tlLay struct {
	Lead    string     `json:"lead,omitempty"`
	Seps    []string   `json:"seps,omitempty"`
	Comment *[2]string `json:"comment,omitempty"` // blanks before "//", text
	Trail   string     `json:"trail,omitempty"`
	CRLF    bool       `json:"crlf,omitempty"`
}
type gmNoise struct {
	Blank bool   `json:"blank,omitempty"`
	Lead  string `json:"lead,omitempty"`
	Text  string `json:"text,omitempty"`
	CRLF  bool   `json:"crlf,omitempty"`
}
type gmDir struct {
	Kind string        `json:"kind"` // module go toolchain require replace ignored
	P    string        `json:"p,omitempty"`
	V    string        `json:"v,omitempty"` // without leading v for require
	R    *gomodReplace `json:"r,omitempty"`
	Verb string        `json:"verb,omitempty"`
	Args []string      `json:"args,omitempty"`
}
type gmBEntry struct {
	Noise *gmNoise `json:"noise,omitempty"`
	Dir   *gmDir   `json:"dir,omitempty"`
	Lay   *tlLay   `json:"lay,omitempty"`
}
type gmItem struct {
	Noise     *gmNoise   `json:"noise,omitempty"`
	Line      *gmDir     `json:"line,omitempty"`
	Lay       *tlLay     `json:"lay,omitempty"`
	BlockVerb string     `json:"block_verb,omitempty"`
	Open      *tlLay     `json:"open,omitempty"`
	Close     *tlLay     `json:"close,omitempty"`
	Entries   []gmBEntry `json:"entries,omitempty"`
}
type gmDoc struct {
	Items   []gmItem `json:"items"`
	FinalNL bool     `json:"final_nl"`
}

func (d *gmDir) verb() string {
	switch d.Kind {
	case "ignored":
		return d.Verb
	}
	return d.Kind
}
func (d *gmDir) args() []string {
	optv := func(v string) []string {
		if v == "" {
			return nil
		}
		return []string{"v" + v}
	}
	switch d.Kind {
	case "module":
		return []string{d.P}
	case "go", "toolchain":
		return []string{d.V}
	case "require":
		return []string{d.P, "v" + d.V}
	case "replace":
		a := []string{d.R.Old}
		a = append(a, optv(d.R.OldV)...)
		a = append(a, "=>", d.R.New)
		return append(a, optv(d.R.NewV)...)
	}
	return d.Args
}

func renderTokenLine(toks []string, y *tlLay) string {
	var sb strings.Builder
	sb.WriteString(y.Lead)
	for i, t := range toks {
		sb.WriteString(t)
		if i < len(toks)-1 {
			if i < len(y.Seps) {
				sb.WriteString(y.Seps[i])
			} else {
				sb.WriteString(" ")
			}
		}
	}
	if y.Comment != nil {
		sb.WriteString(y.Comment[0] + "//" + y.Comment[1])
	} else {
		sb.WriteString(y.Trail)
	}
	return sb.String()
}

func (n *gmNoise) content() string {
	if n.Blank {
		return n.Lead
	}
	return n.Lead + "//" + n.Text
}

func renderGmDoc(d gmDoc) []byte {
	var ls []line
	for _, it := range d.Items {
		switch {
		case it.Noise != nil:
			ls = append(ls, line{it.Noise.content(), it.Noise.CRLF})
		case it.Line != nil:
			ls = append(ls, line{renderTokenLine(append([]string{it.Line.verb()}, it.Line.args()...), it.Lay), it.Lay.CRLF})
		default:
			ls = append(ls, line{renderTokenLine([]string{it.BlockVerb, "("}, it.Open), it.Open.CRLF})
			for _, e := range it.Entries {
				if e.Noise != nil {
					ls = append(ls, line{e.Noise.content(), e.Noise.CRLF})
				} else {
					ls = append(ls, line{renderTokenLine(e.Dir.args(), e.Lay), e.Lay.CRLF})
				}
			}
			ls = append(ls, line{renderTokenLine([]string{")"}, it.Close), it.Close.CRLF})
		}
	}
	return renderLines(ls, d.FinalNL)
}

// ---------------------------------------------------------------- Coq printing
func coqTlLay(y *tlLay) string {
	seps := make([]string, len(y.Seps))
	for i, s := range y.Seps {
		seps[i] = coqStr(s)
	}
	cm := "None"
	if y.Comment != nil {
		cm = "(Some (" + coqStr(y.Comment[0]) + ", " + coqStr(y.Comment[1]) + "))"
	}
	return fmt.Sprintf("{| tl_lead := %s; tl_seps := %s; tl_comment := %s; tl_trail := %s; tl_eol := %s |}", coqStr(y.Lead), coqList(seps), cm, coqStr(y.Trail), coqEol(y.CRLF))
}
func coqGmNoise(n *gmNoise) string {
	if n.Blank {
		return "(GNBlank " + coqStr(n.Lead) + ")"
	}
	return "(GNComment " + coqStr(n.Lead) + " " + coqStr(n.Text) + ")"
}
func coqStrs(xs []string) string {
	items := make([]string, len(xs))
	for i, x := range xs {
		items[i] = coqStr(x)
	}
	return coqList(items)
}
func coqGmDir(d *gmDir) string {
	switch d.Kind {
	case "module":
		return "(DModule " + coqStr(d.P) + ")"
	case "go":
		return "(DGo " + coqStr(d.V) + ")"
	case "toolchain":
		return "(DToolchain " + coqStr(d.V) + ")"
	case "require":
		return "(DRequire " + coqStr(d.P) + " " + coqStr(d.V) + ")"
	case "replace":
		return fmt.Sprintf("(DReplace {| rr_old := %s; rr_oldv := %s; rr_new := %s; rr_newv := %s |})", coqStr(d.R.Old), coqStr(d.R.OldV), coqStr(d.R.New), coqStr(d.R.NewV))
	}
	return "(DIgnored " + coqStr(d.Verb) + " " + coqStrs(d.Args) + ")"
}
func coqGmDoc(d gmDoc) string {
	var items []string
	for _, it := range d.Items {
		switch {
		case it.Noise != nil:
			items = append(items, "GNoise "+coqGmNoise(it.Noise)+" "+coqEol(it.Noise.CRLF))
		case it.Line != nil:
			items = append(items, "GLine "+coqGmDir(it.Line)+" "+coqTlLay(it.Lay))
		default:
			var es []string
			for _, e := range it.Entries {
				if e.Noise != nil {
					es = append(es, "BNoise "+coqGmNoise(e.Noise)+" "+coqEol(e.Noise.CRLF))
				} else {
					es = append(es, "BDir "+coqGmDir(e.Dir)+" "+coqTlLay(e.Lay))
				}
			}
			items = append(items, "GBlock "+coqStr(it.BlockVerb)+" "+coqTlLay(it.Open)+" "+coqList(es)+" "+coqTlLay(it.Close))
		}
	}
	return fmt.Sprintf("{| gd_items := %s; gd_final_nl := %s |}", coqList(items), coqBool(d.FinalNL))
}

// ---------------------------------------------------------------- the oracle: does modfile accept this directive as written?
// returns (accepted, tabulate): tabulate = false when modfile accepts but rewrites the arguments (not modelled).
func probeDirective(verb string, args []string) (bool, bool) {
	text := verb + " " + strings.Join(args, " ") + "\n"
	if verb != "module" {
		text = "module example.com/probe\n" + text
	}
	f, err := modfile.Parse("go.mod", []byte(text), nil)
	if err != nil {
		return false, true
	}
	switch verb {
	case "require":
		if len(f.Require) != 1 || len(args) != 2 || f.Require[0].Mod.Path != args[0] || f.Require[0].Mod.Version != args[1] {
			return true, false
		}
	case "go":
		if f.Go == nil || len(args) != 1 || f.Go.Version != args[0] {
			return true, false
		}
	case "toolchain":
		if f.Toolchain == nil || len(args) != 1 || f.Toolchain.Name != args[0] {
			return true, false
		}
	case "replace":
		if len(f.Replace) != 1 {
			return true, false
		}
		r := f.Replace[0]
		got := []string{r.Old.Path}
		if r.Old.Version != "" {
			got = append(got, r.Old.Version)
		}
		got = append(got, "=>", r.New.Path)
		if r.New.Version != "" {
			got = append(got, r.New.Version)
		}
		if strings.Join(got, " ") != strings.Join(args, " ") {
			return true, false
		}
	case "module":
		if f.Module == nil || len(args) != 1 || f.Module.Mod.Path != args[0] {
			return true, false
		}
	}
	return true, true
}

func coqOracle(dirs [][]string) string {
	seen := map[string]bool{}
	var items []string
	for _, d := range dirs {
		k := strings.Join(d, "\x00")
		if seen[k] || len(d) == 0 {
			continue
		}
		seen[k] = true
		ok, tab := probeDirective(d[0], d[1:])
		if !tab {
			continue
		}
		items = append(items, "("+coqStrs(d)+", "+coqBool(ok)+")")
	}
	return coqList(items)
}

// ---------------------------------------------------------------- generator
func gmLay(r *rand.Rand, style int, ntok int, inBlock bool) *tlLay {
	y := &tlLay{CRLF: eolGen(r, style)}
	if inBlock {
		y.Lead = pick(r, "\t", "\t", "    ", "  ", "")
	} else if r.Intn(8) == 0 {
		y.Lead = pick(r, " ", "\t")
	}
	if r.Intn(4) == 0 {
		for i := 0; i < ntok-1; i++ {
			y.Seps = append(y.Seps, pick(r, " ", " ", "  ", "\t", " \t"))
		}
	}
	switch r.Intn(6) {
	case 0:
		y.Comment = &[2]string{pick(r, " ", "  ", "\t", ""), pick(r, " indirect", " a comment", "", " // nested", " require x v1.0.0", "(", " )")}
	case 1:
		y.Trail = pick(r, " ", "\t", "  ")
	}
	return y
}

func gmNoiseGen(r *rand.Rand, style int) *gmNoise {
	if r.Intn(2) == 0 {
		return &gmNoise{Blank: true, Lead: pick(r, "", "", " ", "\t"), CRLF: eolGen(r, style)}
	}
	return &gmNoise{Lead: pick(r, "", "", "\t", "  "), Text: pick(r, " comment", "", " require a/b v1.0.0", " (", "indirect", " Deprecated: no"), CRLF: eolGen(r, style)}
}

func genGoModBytes(r *rand.Rand, i, n int) *Case {
	style := []int{0, 0, 0, 1, 2}[r.Intn(5)]
	nrec := nRecords(r, i)
	if nrec > 30 {
		nrec = 30
	}
	var reqs []Pkg
	seen := map[string]bool{}
	for len(reqs) < nrec {
		p, v := goModReq(r)
		if !seen[p] {
			seen[p] = true
			reqs = append(reqs, Pkg{p, v})
		}
	}
	var dirsAll [][]string
	var doc gmDoc
	stream := "wellformed"
	var tags []string
	addLine := func(d *gmDir) {
		doc.Items = append(doc.Items, gmItem{Line: d, Lay: gmLay(r, style, 1+len(d.args()), false)})
		dirsAll = append(dirsAll, append([]string{d.verb()}, d.args()...))
	}
	addBlock := func(verb string, ds []*gmDir) {
		it := gmItem{BlockVerb: verb, Open: gmLay(r, style, 2, false), Close: gmLay(r, style, 1, false)}
		it.Open.Seps = nil
		if r.Intn(5) == 0 {
			it.Open.Seps = []string{pick(r, "", "  ", "\t")} // "require(" is fine as well
		}
		for _, d := range ds {
			for r.Intn(5) == 0 {
				it.Entries = append(it.Entries, gmBEntry{Noise: gmNoiseGen(r, style)})
			}
			it.Entries = append(it.Entries, gmBEntry{Dir: d, Lay: gmLay(r, style, len(d.args()), true)})
			dirsAll = append(dirsAll, append([]string{verb}, d.args()...))
		}
		doc.Items = append(doc.Items, it)
	}
	noise := func(p int) {
		for r.Intn(100) < p {
			doc.Items = append(doc.Items, gmItem{Noise: gmNoiseGen(r, style)})
			p /= 2
		}
	}
	// directive groups in random order
	type group func()
	var groups []group
	var chainGroup func()
	groups = append(groups, func() { addLine(&gmDir{Kind: "module", P: pick(r, "example.com/m", "github.com/o/r/v2", "m")}) })
	goV := pick(r, "1.21", "1.22.3", "1.17", "1.16", "1.20", "")
	if goV != "" {
		groups = append(groups, func() { addLine(&gmDir{Kind: "go", V: goV}) })
	}
	if r.Intn(5) == 0 {
		groups = append(groups, func() { addLine(&gmDir{Kind: "toolchain", V: pick(r, "go1.21.3", "go1.22.0-custom", "go1.23rc1", "default")}) })
	}
	rest := reqs
	for len(rest) > 0 {
		k := 1 + r.Intn(len(rest))
		chunk := rest[:k]
		rest = rest[k:]
		groups = append(groups, func() {
			var ds []*gmDir
			for _, p := range chunk {
				ds = append(ds, &gmDir{Kind: "require", P: p.Name, V: p.Version})
			}
			if len(ds) == 1 && r.Intn(2) == 0 {
				addLine(ds[0])
			} else {
				addBlock("require", ds)
			}
		})
	}
	if i%6 == 3 && nrec >= 2 {
		crs, tag := chainReplaces(r, reqs)
		var rps []*gmDir
		for k := range crs {
			rps = append(rps, &gmDir{Kind: "replace", R: &crs[k]})
		}
		groupsChain := func() {
			if r.Intn(2) == 0 {
				for _, d := range rps {
					addLine(d)
				}
			} else {
				addBlock("replace", rps)
			}
		}
		defer func() {}()
		chainGroup = groupsChain
		tags = append(tags, "replace-chain", tag)
	} else if i%3 == 2 && nrec > 0 {
		var rps []*gmDir
		usedOld := map[string]bool{}
		for k := 1 + r.Intn(3); k > 0; k-- {
			t := reqs[r.Intn(len(reqs))]
			if usedOld[t.Name] && r.Intn(4) != 0 {
				continue
			}
			usedOld[t.Name] = true
			np, nv := goModReq(r)
			rp := &gomodReplace{Old: t.Name, New: np, NewV: nv}
			if r.Intn(3) == 0 {
				rp.New, rp.NewV = pick(r, "../local/fork", "./vendor/x"), ""
			}
			if r.Intn(3) == 0 {
				rp.OldV = t.Version
			}
			rps = append(rps, &gmDir{Kind: "replace", R: rp})
		}
		groups = append(groups, func() {
			if len(rps) == 1 && r.Intn(2) == 0 {
				addLine(rps[0])
			} else if len(rps) > 0 {
				addBlock("replace", rps)
			}
		})
		tags = append(tags, "replace")
	}
	if chainGroup != nil {
		groups = append(groups, chainGroup)
	}
	if r.Intn(3) == 0 {
		groups = append(groups, func() { addLine(&gmDir{Kind: "ignored", Verb: "exclude", Args: []string{"github.com/decoy/excluded", "v1.9.9"}}) })
	}
	if r.Intn(4) == 0 {
		groups = append(groups, func() { addLine(&gmDir{Kind: "ignored", Verb: "retract", Args: []string{"v1.0.0"}}) })
	}
	if r.Intn(6) == 0 {
		groups = append(groups, func() { addLine(&gmDir{Kind: "ignored", Verb: "godebug", Args: []string{"panicnil=1"}}) })
	}
	// ill-formed variants: correspondence only
	switch {
	case i%13 == 5:
		stream = "illformed"
		groups = append(groups, func() {
			switch r.Intn(5) {
			case 0:
				addLine(&gmDir{Kind: "go", V: "1.19"}) // repeated go directive (or a first one)
				addLine(&gmDir{Kind: "go", V: "1.20"})
			case 1:
				addLine(&gmDir{Kind: "require", P: "github.com/bad/version", V: "1.2"}) // v1.2 is rewritten to v1.2.0: not tabulated
			case 2:
				addLine(&gmDir{Kind: "require", P: "github.com/bad/major/v2", V: "1.0.0"}) // wrong major version
			case 3:
				addLine(&gmDir{Kind: "ignored", Verb: "frobnicate", Args: []string{"x"}}) // unknown directive
			default:
				addBlock("go", []*gmDir{{Kind: "ignored", Verb: "go", Args: []string{"1.21"}}}) // not a block verb
			}
		})
	}
	r.Shuffle(len(groups), func(a, b int) { groups[a], groups[b] = groups[b], groups[a] })
	noise(30)
	for _, g := range groups {
		g()
		noise(35)
	}
	doc.FinalNL = r.Intn(10) < 6
	if !doc.FinalNL {
		tags = append(tags, "no-final-newline")
	}
	if style == 1 {
		tags = append(tags, "crlf")
	} else if style == 2 {
		tags = append(tags, "mixed-eol")
	}
	data := renderGmDoc(doc)
	claim := "(Some " + coqGmDoc(doc) + ")"
	if i%17 == 9 { // raw text outside the sub-grammar or structurally broken: no claim
		stream = "raw"
		claim = "None"
		data = []byte(pick(r, "module m\nrequire (\n\tgithub.com/a/b v1.0.0\n", "module m\n)\n", "module \"quoted/path\"\nrequire github.com/a/b v1.0.0\n",
			"module m\nrequire github.com/a/b v1.0.0 /* c */\n", "module m\nrequire (github.com/a/b v1.0.0)\n", "module m\nrequire github.com/a/b v1.0.0 ) x\n",
			"module m\n\nrequire ()\n", "module m\nrequire (\n) extra\n", "module m\nreplace github.com/a/b => [x]\n"))
		dirsAll = append(dirsAll, []string{"module", "m"}, []string{"require", "github.com/a/b", "v1.0.0"})
	}
	c := &Case{Stream: stream, Tags: structTags(nrec, tags...), NRecords: nrec, Claim: doc, data: data, coqClaim: claim}
	c.coqExtra = coqOracle(dirsAll)
	return c
}

func init() {
	register(&Format{Name: "gomodb", Level: "byte", Path: "go.mod", NewExtractor: gomod.New, Sorted: true,
		CoqModule: "Formats.Structs Formats.Structs2 Formats.GoModBytes", Gen: genGoModBytes,
		Mal: func(r *rand.Rand, seed *Case) *Case {
			data, how := mutateBytes(r, seed.data)
			return &Case{Stream: "malformed", Tags: []string{how}, data: data, coqClaim: "None", coqExtra: seed.coqExtra}
		},
		CoqCase: func(c *Case) string {
			return fmt.Sprintf("{| gbc_claim := %s; gbc_oracle := %s; gbc_bytes := %s; gbc_obs := %s |}", c.coqClaim, c.coqExtra, coqBytes(c.data), coqObserved(c.Observed))
		}})
}

package main

// Structure-level formats: the harness builds the decoded structure from generated records, serialises it
// (JSON / TOML writer with shuffled key order, varying whitespace, unrelated fields) and feeds the bytes to
// the real extractor. The Coq case carries the records, the structure and the observation.

import (
	"encoding/json"
	"fmt"
	"math/rand"
	"strings"

	"github.com/google/osv-scalibr/extractor/filesystem/language/dotnet/packageslockjson"
	"github.com/google/osv-scalibr/extractor/filesystem/language/php/composerlock"
	"github.com/google/osv-scalibr/extractor/filesystem/language/python/pipfilelock"
	"github.com/google/osv-scalibr/extractor/filesystem/language/python/poetrylock"
	"github.com/google/osv-scalibr/extractor/filesystem/language/rust/cargolock"
)

// ---------------------------------------------------------------- JSON writer
type jkv struct {
	K string
	V any // string | float64 | bool | nil | []any | []jkv (object)
}

type jsonStyle struct {
	r       *rand.Rand
	indent  string // "" = compact
	nl      string
	shuffle bool
	spaceKV string
}

func newJSONStyle(r *rand.Rand) *jsonStyle {
	s := &jsonStyle{r: r, shuffle: true, nl: "\n", spaceKV: " "}
	switch r.Intn(5) {
	case 0:
		s.indent, s.nl, s.spaceKV = "", "", ""
	case 1:
		s.indent = "    "
	case 2:
		s.indent = "\t"
	case 3:
		s.indent, s.nl = "  ", "\r\n"
	default:
		s.indent = "  "
	}
	return s
}

func (s *jsonStyle) write(sb *strings.Builder, v any, depth int) {
	pad := func(d int) {
		if s.nl != "" {
			sb.WriteString(s.nl)
			sb.WriteString(strings.Repeat(s.indent, d))
		}
	}
	switch x := v.(type) {
	case nil:
		sb.WriteString("null")
	case string:
		b, _ := json.Marshal(x)
		sb.Write(b)
	case bool:
		if x {
			sb.WriteString("true")
		} else {
			sb.WriteString("false")
		}
	case float64:
		fmt.Fprintf(sb, "%v", x)
	case int:
		fmt.Fprintf(sb, "%d", x)
	case []any:
		if len(x) == 0 {
			sb.WriteString("[]")
			return
		}
		sb.WriteString("[")
		for i, e := range x {
			if i > 0 {
				sb.WriteString(",")
			}
			pad(depth + 1)
			s.write(sb, e, depth+1)
		}
		pad(depth)
		sb.WriteString("]")
	case []jkv:
		if len(x) == 0 {
			sb.WriteString("{}")
			return
		}
		kvs := append([]jkv(nil), x...)
		if s.shuffle {
			s.r.Shuffle(len(kvs), func(i, j int) { kvs[i], kvs[j] = kvs[j], kvs[i] })
		}
		sb.WriteString("{")
		for i, e := range kvs {
			if i > 0 {
				sb.WriteString(",")
			}
			pad(depth + 1)
			b, _ := json.Marshal(e.K)
			sb.Write(b)
			sb.WriteString(":" + s.spaceKV)
			s.write(sb, e.V, depth+1)
		}
		pad(depth)
		sb.WriteString("}")
	default:
		panic(fmt.Sprintf("jsonStyle.write: %T", v))
	}
}

func (s *jsonStyle) render(v any) []byte {
	var sb strings.Builder
	s.write(&sb, v, 0)
	if s.r.Intn(3) != 0 {
		sb.WriteString(s.nl)
	}
	return []byte(sb.String())
}

// ---------------------------------------------------------------- shared record type
type lrec struct {
	Name    string `json:"name"`
	Version string `json:"version"`
	Dev     bool   `json:"dev,omitempty"`
}

func coqLrecs(rs []lrec) string {
	items := make([]string, len(rs))
	for i, r := range rs {
		items[i] = fmt.Sprintf("{| lr_name := %s; lr_version := %s; lr_dev := %s |}", coqStr(r.Name), coqStr(r.Version), coqBool(r.Dev))
	}
	return coqList(items)
}

func coqSomeLrecs(rs []lrec) string { return "(Some " + coqLrecs(rs) + ")" }

func lrecPkgs(rs []lrec, dev bool) []Pkg {
	var out []Pkg
	for _, r := range rs {
		if r.Dev == dev {
			out = append(out, Pkg{r.Name, r.Version})
		}
	}
	return out
}

func structTags(nrec int, extra ...string) []string {
	tags := append([]string(nil), extra...)
	if nrec == 1 {
		tags = append(tags, "single-record")
	}
	if nrec == 0 {
		tags = append(tags, "no-records")
	}
	return tags
}

func semverish(r *rand.Rand) string {
	return fmt.Sprintf("%d.%d.%d", r.Intn(20), r.Intn(40), r.Intn(40)) + pick(r, "", "", "", "-beta.1", "-rc.2", "+build5", "-alpha")
}

func hexStr(r *rand.Rand, n int) string { return randFrom(r, "0123456789abcdef", n, n) }

func uniqueNames(r *rand.Rand, n int, gen func() string) []string {
	seen := map[string]bool{}
	var out []string
	for len(out) < n {
		s := gen()
		if !seen[s] {
			seen[s] = true
			out = append(out, s)
		}
	}
	return out
}

// ---------------------------------------------------------------- composer.lock
func composerPkgObj(r *rand.Rand, p Pkg, omit string) []jkv {
	o := []jkv{
		{"source", []jkv{{"type", "git"}, {"url", "https://github.com/" + p.Name + ".git"}, {"reference", hexStr(r, 40)}}},
		{"dist", []jkv{{"type", "zip"}, {"url", "https://api.github.com/repos/" + p.Name + "/zipball/x"}, {"reference", hexStr(r, 40)}, {"shasum", ""}}},
		{"require", []jkv{{"php", ">=7.2"}}},
		{"type", "library"},
		{"license", []any{"MIT"}},
		{"time", "2023-01-01T00:00:00+00:00"},
	}
	if r.Intn(2) == 0 {
		o = o[:2+r.Intn(4)]
	}
	if omit != "name" {
		o = append(o, jkv{"name", p.Name})
	}
	if omit != "version" {
		o = append(o, jkv{"version", p.Version})
	}
	return o
}

func genComposer(r *rand.Rand, i, n int) *Case {
	nrec := nRecords(r, i)
	names := uniqueNames(r, nrec, func() string {
		return randFrom(r, "abcdefghijklmnopqrstuvwxyz0123456789-", 2, 10) + "/" + randFrom(r, "abcdefghijklmnopqrstuvwxyz0123456789-_.", 2, 12)
	})
	var rs []lrec
	for _, nm := range names {
		rs = append(rs, lrec{nm, pick(r, "v", "", "") + semverish(r), r.Intn(3) == 0})
	}
	if i%9 == 8 && nrec > 1 { // the same package listed twice / in both groups: both are reported (no merging)
		rs = append(rs, lrec{rs[0].Name, rs[0].Version, r.Intn(2) == 0})
	}
	if i%11 == 3 && nrec > 0 {
		rs[r.Intn(len(rs))].Version = pick(r, "dev-master", "1.0.x-dev", "dev-feature/foo", "")
	}
	prod, dev := lrecPkgs(rs, false), lrecPkgs(rs, true)
	st := newJSONStyle(r)
	toArr := func(ps []Pkg) []any {
		out := []any{}
		for _, p := range ps {
			out = append(out, composerPkgObj(r, p, ""))
		}
		return out
	}
	top := []jkv{{"_readme", []any{"This file locks the dependencies of your project to a known state"}}, {"content-hash", hexStr(r, 32)},
		{"packages", toArr(prod)}, {"aliases", []any{}}, {"minimum-stability", "stable"}, {"prefer-stable", false}, {"platform", []jkv{{"php", "^8.0"}}}, {"plugin-api-version", "2.3.0"}}
	var tags []string
	switch {
	case len(dev) == 0 && r.Intn(3) == 0:
		tags = append(tags, "packages-dev-absent")
	case len(dev) == 0 && r.Intn(2) == 0:
		top = append(top, jkv{"packages-dev", nil})
		tags = append(tags, "packages-dev-null")
	default:
		top = append(top, jkv{"packages-dev", toArr(dev)})
	}
	if len(dev) > 0 {
		tags = append(tags, "has-dev")
	}
	c := &Case{Stream: "wellformed", Tags: structTags(len(rs), tags...), NRecords: len(rs), Claim: rs, data: st.render(top), coqClaim: coqSomeLrecs(rs)}
	c.coqExtra = fmt.Sprintf("{| cs_packages := %s; cs_packages_dev := %s |}", coqPkgs(prod), coqPkgs(dev))
	c.Expected = append(append([]Pkg{}, prod...), dev...)
	return c
}

func malComposer(r *rand.Rand, seed *Case) *Case {
	// structurally valid but odd: entries without name / version, empty arrays, nested noise
	st := newJSONStyle(r)
	var prod, dev []Pkg
	var pa, da []any
	for k := r.Intn(4); k > 0; k-- {
		p := Pkg{pick(r, "a/b", "", "x"), pick(r, "1.0", "", "v2")}
		omit := pick(r, "", "name", "version")
		if omit == "name" {
			p.Name = ""
		}
		if omit == "version" {
			p.Version = ""
		}
		if r.Intn(2) == 0 {
			prod = append(prod, p)
			pa = append(pa, composerPkgObj(r, p, omit))
		} else {
			dev = append(dev, p)
			da = append(da, composerPkgObj(r, p, omit))
		}
	}
	if pa == nil {
		pa = []any{}
	}
	if da == nil {
		da = []any{}
	}
	top := []jkv{{"packages", pa}, {"packages-dev", da}, {"extra", []jkv{{"packages", []any{[]jkv{{"name", "decoy/decoy"}, {"version", "9"}}}}}}}
	c := &Case{Stream: "malformed", Tags: []string{"odd-structure"}, data: st.render(top), coqClaim: "None"}
	c.coqExtra = fmt.Sprintf("{| cs_packages := %s; cs_packages_dev := %s |}", coqPkgs(prod), coqPkgs(dev))
	return c
}

// ---------------------------------------------------------------- TOML writer (Cargo.lock, poetry.lock)
func tomlStr(r *rand.Rand, s string) string {
	if !strings.ContainsAny(s, "'\n\r") && r.Intn(4) == 0 {
		return "'" + s + "'"
	}
	b, _ := json.Marshal(s) // TOML basic strings accept JSON escapes
	return string(b)
}

type tomlKV struct{ K, V string } // V already rendered

func tomlTable(r *rand.Rand, sb *strings.Builder, header string, kvs []tomlKV, nl string) {
	sb.WriteString(header + nl)
	r.Shuffle(len(kvs), func(i, j int) { kvs[i], kvs[j] = kvs[j], kvs[i] })
	for _, kv := range kvs {
		sb.WriteString(kv.K + pick(r, " = ", " = ", "=", "  =  ") + kv.V + pick(r, "", "", " # note") + nl)
	}
}

func genTomlPkgs(r *rand.Rand, i int, poetry bool) (rs []lrec, data []byte, tags []string) {
	nrec := nRecords(r, i)
	for k := 0; k < nrec; k++ {
		rs = append(rs, lrec{randFrom(r, "abcdefghijklmnopqrstuvwxyz", 1, 1) + randFrom(r, "abcdefghijklmnopqrstuvwxyz0123456789_-", 0, 14), semverish(r), false})
	}
	if i%9 == 8 && nrec > 1 { // two versions of one crate, and an exact duplicate entry
		rs = append(rs, lrec{rs[0].Name, semverish(r), false}, rs[1])
		tags = append(tags, "duplicate-entries")
	}
	nl := "\n"
	if r.Intn(4) == 0 {
		nl = "\r\n"
		tags = append(tags, "crlf")
	}
	var sb strings.Builder
	if r.Intn(2) == 0 {
		sb.WriteString("# This file is automatically @generated." + nl + "# It is not intended for manual editing." + nl)
	}
	if !poetry && r.Intn(3) != 0 {
		sb.WriteString("version = " + pick(r, "3", "4") + nl)
	}
	metaFirst := poetry && r.Intn(4) == 0
	meta := func() {
		sb.WriteString(nl)
		tomlTable(r, &sb, "[metadata]", []tomlKV{{"lock-version", `"2.0"`}, {"python-versions", `"^3.9"`}, {"content-hash", tomlStr(r, hexStr(r, 64))}}, nl)
	}
	if metaFirst {
		meta()
		tags = append(tags, "metadata-first")
	}
	for _, rec := range rs {
		sb.WriteString(strings.Repeat(nl, 1+r.Intn(2)))
		kvs := []tomlKV{{"name", tomlStr(r, rec.Name)}, {"version", tomlStr(r, rec.Version)}}
		if poetry {
			kvs = append(kvs, tomlKV{"description", tomlStr(r, "A package named "+rec.Name)}, tomlKV{"optional", pick(r, "false", "false", "true")}, tomlKV{"python-versions", `">=3.7"`})
			if r.Intn(2) == 0 {
				kvs = append(kvs, tomlKV{"groups", pick(r, `["main"]`, `["dev"]`, `["main", "dev"]`)})
			}
			if r.Intn(2) == 0 {
				kvs = append(kvs, tomlKV{"files", "[" + nl + `    {file = "` + rec.Name + `-1.tar.gz", hash = "sha256:` + hexStr(r, 16) + `"},` + nl + "]"})
			}
		} else {
			if r.Intn(3) != 0 {
				kvs = append(kvs, tomlKV{"source", `"registry+https://github.com/rust-lang/crates.io-index"`}, tomlKV{"checksum", tomlStr(r, hexStr(r, 64))})
			}
			if r.Intn(2) == 0 {
				kvs = append(kvs, tomlKV{"dependencies", "[" + nl + ` "` + randFrom(r, "abcdefgh", 2, 6) + `",` + nl + ` "name 1.0.0",` + nl + "]"})
			}
		}
		tomlTable(r, &sb, "[[package]]", kvs, nl)
		if poetry && r.Intn(3) == 0 {
			sb.WriteString(nl)
			tomlTable(r, &sb, "[package.dependencies]", []tomlKV{{"name", `">=1.0"`}, {"version", `{version = "*", optional = true}`}}, nl)
		}
		if poetry && r.Intn(6) == 0 {
			sb.WriteString(nl)
			tomlTable(r, &sb, "[package.source]", []tomlKV{{"type", `"git"`}, {"url", `"https://github.com/x/y.git"`}, {"resolved_reference", tomlStr(r, hexStr(r, 40))}}, nl)
		}
	}
	if poetry && !metaFirst {
		meta()
	}
	if r.Intn(3) == 0 {
		b := sb.String()
		b = strings.TrimRight(b, "\r\n")
		tags = append(tags, "no-final-newline")
		return rs, []byte(b), tags
	}
	return rs, []byte(sb.String()), tags
}

func genCargo(r *rand.Rand, i, n int) *Case {
	rs, data, tags := genTomlPkgs(r, i, false)
	c := &Case{Stream: "wellformed", Tags: structTags(len(rs), tags...), NRecords: len(rs), Claim: rs, data: data, coqClaim: coqSomeLrecs(rs)}
	c.Expected = lrecPkgs(rs, false)
	c.coqExtra = coqPkgs(c.Expected)
	return c
}

func genPoetry(r *rand.Rand, i, n int) *Case {
	rs, data, tags := genTomlPkgs(r, i, true)
	c := &Case{Stream: "wellformed", Tags: structTags(len(rs), tags...), NRecords: len(rs), Claim: rs, data: data, coqClaim: coqSomeLrecs(rs)}
	c.Expected = lrecPkgs(rs, false)
	c.coqExtra = coqPkgs(c.Expected)
	return c
}

func malToml(r *rand.Rand, seed *Case) *Case {
	// packages with missing keys: decoded as empty strings
	var ps []Pkg
	var sb strings.Builder
	for k := r.Intn(4); k > 0; k-- {
		p := Pkg{pick(r, "a", "", "b-c"), pick(r, "1.0.0", "", "2")}
		sb.WriteString("[[package]]\n")
		if p.Name != "" || r.Intn(2) == 0 {
			sb.WriteString("name = " + tomlStr(r, p.Name) + "\n")
		}
		if p.Version != "" || r.Intn(2) == 0 {
			sb.WriteString("version = " + tomlStr(r, p.Version) + "\n")
		}
		sb.WriteString("\n")
		ps = append(ps, p)
	}
	sb.WriteString("[[patch.unused]]\nname = \"decoy\"\nversion = \"9.9.9\"\n")
	c := &Case{Stream: "malformed", Tags: []string{"odd-structure"}, data: []byte(sb.String()), coqClaim: "None"}
	c.coqExtra = coqPkgs(ps)
	return c
}

// ---------------------------------------------------------------- packages.lock.json
type nugetFw struct {
	Framework string `json:"framework"`
	Pkgs      []Pkg  `json:"pkgs"`
}

func coqNuget(fs []nugetFw) string {
	items := make([]string, len(fs))
	for i, f := range fs {
		items[i] = "(" + coqStr(f.Framework) + ", " + coqPkgs(f.Pkgs) + ")"
	}
	return coqList(items)
}

func genNuget(r *rand.Rand, i, n int) *Case {
	nfw := 1 + r.Intn(3)
	if i == 0 {
		nfw = 0
	}
	fws := uniqueNames(r, nfw, func() string {
		return pick(r, "net6.0", "net8.0", ".NETStandard,Version=v2.0", "net472", ".NETCoreApp,Version=v3.1", "net7.0-windows")
	})
	var fs []nugetFw
	nrec := 0
	pool := uniqueNames(r, 12, func() string {
		return pick(r, "Newtonsoft", "Microsoft.Extensions", "System", "Serilog", "NUnit", "Moq") + "." + randFrom(r, "ABCDEFGHabcdefgh", 2, 8)
	})
	for _, fw := range fws {
		k := r.Intn(6)
		if i <= 3 {
			k = 1
		}
		perm := r.Perm(len(pool))[:k]
		f := nugetFw{Framework: fw}
		for _, j := range perm {
			f.Pkgs = append(f.Pkgs, Pkg{pool[j], fmt.Sprintf("%d.%d.%d", r.Intn(15), r.Intn(10), r.Intn(10)) + pick(r, "", "", "-preview.1")})
			nrec++
		}
		fs = append(fs, f)
	}
	st := newJSONStyle(r)
	var deps []jkv
	var exp []Pkg
	for _, f := range fs {
		var ps []jkv
		for _, p := range f.Pkgs {
			o := []jkv{{"type", pick(r, "Direct", "Transitive", "Project")}, {"resolved", p.Version}, {"contentHash", hexStr(r, 20)}}
			if r.Intn(2) == 0 {
				o = append(o, jkv{"requested", "[" + p.Version + ", )"})
			}
			if r.Intn(3) == 0 {
				o = append(o, jkv{"dependencies", []jkv{{"System.Decoy", "9.9.9"}}})
			}
			ps = append(ps, jkv{p.Name, o})
			exp = append(exp, p)
		}
		if ps == nil {
			ps = []jkv{}
		}
		deps = append(deps, jkv{f.Framework, ps})
	}
	if deps == nil {
		deps = []jkv{}
	}
	top := []jkv{{"version", 1}, {"dependencies", deps}}
	var tags []string
	if nfw > 1 {
		tags = append(tags, "multi-framework")
	}
	c := &Case{Stream: "wellformed", Tags: structTags(nrec, tags...), NRecords: nrec, Claim: fs, data: st.render(top), coqClaim: "(Some " + coqNuget(fs) + ")"}
	c.coqExtra = coqNuget(fs)
	c.Expected = exp
	sortPkgs(c.Expected)
	return c
}

// ---------------------------------------------------------------- Pipfile.lock
type pipEntry struct {
	Name string `json:"name"`
	Ver  string `json:"version_field"`
}

func coqKVList(es []pipEntry) string {
	items := make([]string, len(es))
	for i, e := range es {
		items[i] = "(" + coqStr(e.Name) + ", " + coqStr(e.Ver) + ")"
	}
	return coqList(items)
}

func pipRender(r *rand.Rand, def, dev []pipEntry, omitVersion map[string]bool) []byte {
	st := newJSONStyle(r)
	grp := func(es []pipEntry) []jkv {
		out := []jkv{}
		for _, e := range es {
			o := []jkv{{"hashes", []any{"sha256:" + hexStr(r, 20)}}, {"index", "pypi"}}
			if r.Intn(2) == 0 {
				o = append(o, jkv{"markers", "python_version >= '3.6'"})
			}
			if !omitVersion[e.Name] {
				o = append(o, jkv{"version", e.Ver})
			}
			out = append(out, jkv{e.Name, o})
		}
		return out
	}
	top := []jkv{{"_meta", []jkv{{"hash", []jkv{{"sha256", hexStr(r, 64)}}}, {"pipfile-spec", 6}, {"requires", []jkv{{"python_version", "3.9"}}},
		{"sources", []any{[]jkv{{"name", "pypi"}, {"url", "https://pypi.org/simple"}, {"verify_ssl", true}}}}}},
		{"default", grp(def)}, {"develop", grp(dev)}}
	return st.render(top)
}

func genPipfile(r *rand.Rand, i, n int) *Case {
	nrec := nRecords(r, i)
	var rs []lrec
	defNames := map[string]bool{}
	devNames := map[string]bool{}
	for len(rs) < nrec {
		nm := randFrom(r, "abcdefghijklmnopqrstuvwxyz", 1, 1) + randFrom(r, "abcdefghijklmnopqrstuvwxyz0123456789-_.", 0, 12)
		dev := r.Intn(3) == 0
		if (dev && devNames[nm]) || (!dev && defNames[nm]) {
			continue
		}
		if dev {
			devNames[nm] = true
		} else {
			defNames[nm] = true
		}
		rs = append(rs, lrec{nm, fmt.Sprintf("%d.%d", r.Intn(30), r.Intn(30)) + pick(r, "", ".1", ".post1", "rc1", ".dev0"), dev})
	}
	var tags []string
	if i%9 == 8 && nrec > 0 { // the same name in default and develop with a different version: both are distinct packages
		for _, rec := range rs {
			if !rec.Dev && !devNames[rec.Name] {
				rs = append(rs, lrec{rec.Name, rec.Version + ".1", true})
				devNames[rec.Name] = true
				tags = append(tags, "same-name-both-groups")
				break
			}
		}
	}
	if i%13 == 5 && nrec > 0 { // ill-formed: same name AND version in both groups (merged by the extractor): no claim
		for _, rec := range rs {
			if !rec.Dev && !devNames[rec.Name] {
				rs = append(rs, lrec{rec.Name, rec.Version, true})
				tags = append(tags, "duplicate-across-groups")
				break
			}
		}
	}
	var def, dev []pipEntry
	for _, rec := range rs {
		e := pipEntry{rec.Name, "==" + rec.Version}
		if rec.Dev {
			dev = append(dev, e)
		} else {
			def = append(def, e)
		}
	}
	for _, rec := range rs {
		if rec.Dev {
			tags = append(tags, "has-dev")
			break
		}
	}
	c := &Case{Stream: "wellformed", Tags: structTags(len(rs), tags...), NRecords: len(rs), Claim: rs, data: pipRender(r, def, dev, nil), coqClaim: coqSomeLrecs(rs)}
	c.coqExtra = fmt.Sprintf("{| ps_default := %s; ps_develop := %s |}", coqKVList(def), coqKVList(dev))
	c.Expected = append(lrecPkgs(rs, false), lrecPkgs(rs, true)...)
	sortPkgs(c.Expected)
	return c
}

func malPipfile(r *rand.Rand, seed *Case) *Case {
	var def, dev []pipEntry
	omit := map[string]bool{}
	names := uniqueNames(r, 2+r.Intn(5), func() string { return randFrom(r, "abcdefg@", 1, 4) })
	for _, nm := range names {
		e := pipEntry{nm, pick(r, "==1.0", "==", "=", "", ">=1.0", "==1@2", "*", "==2.0", "===3")}
		if e.Ver == "" && r.Intn(2) == 0 {
			omit[nm] = true
		}
		if r.Intn(2) == 0 {
			def = append(def, e)
			if r.Intn(3) == 0 {
				dev = append(dev, e)
			}
		} else {
			dev = append(dev, e)
		}
	}
	c := &Case{Stream: "malformed", Tags: []string{"odd-structure"}, data: pipRender(r, def, dev, omit), coqClaim: "None"}
	c.coqExtra = fmt.Sprintf("{| ps_default := %s; ps_develop := %s |}", coqKVList(def), coqKVList(dev))
	return c
}

func coqStructCase(prefix string) func(c *Case) string {
	return func(c *Case) string {
		return fmt.Sprintf("{| %s_claim := %s; %s_st := %s; %s_obs := %s |}", prefix, c.coqClaim, prefix, c.coqExtra, prefix, coqObserved(c.Observed))
	}
}

func init() {
	register(&Format{Name: "composer", Level: "struct", Path: "composer.lock", NewExtractor: composerlock.New,
		CoqModule: "Formats.Structs", Gen: genComposer, Mal: malComposer, CoqCase: coqStructCase("cc")})
	register(&Format{Name: "cargo", Level: "struct", Path: "Cargo.lock", NewExtractor: cargolock.New,
		CoqModule: "Formats.Structs", Gen: genCargo, Mal: malToml, CoqCase: coqStructCase("cgc")})
	register(&Format{Name: "poetry", Level: "struct", Path: "poetry.lock", NewExtractor: poetrylock.New,
		CoqModule: "Formats.Structs", Gen: genPoetry, Mal: malToml, CoqCase: coqStructCase("pyc")})
	register(&Format{Name: "nugetlock", Level: "struct", Path: "packages.lock.json", NewExtractor: packageslockjson.NewDefault, Sorted: true,
		CoqModule: "Formats.Structs", Gen: genNuget, Mal: func(r *rand.Rand, seed *Case) *Case {
			c := genNuget(r, 4+r.Intn(50), 0)
			c.Stream, c.coqClaim, c.Claim = "malformed", "None", nil
			return c
		}, CoqCase: coqStructCase("nc")})
	register(&Format{Name: "pipfile", Level: "struct", Path: "Pipfile.lock", NewExtractor: pipfilelock.New, Sorted: true,
		CoqModule: "Formats.Structs", Gen: genPipfile, Mal: malPipfile, CoqCase: coqStructCase("pc")})
}

// Command contain drives the image unpacker (artifact/image/unpack), the layer-scanning image
// loader (artifact/image/layerscanning/image) and the pure path helpers they rely on, inside a
// sandbox directory, and records what happened to the file system.
//
// Every case gets a fresh case root C below -sandbox:
//
//	C/o/o/o/o/o/o/o/o/b/            "base": parent of everything the case may legitimately touch
//	                   target/      directory handed to UnpackSquashed*
//	                   target-evil/ optional sibling sharing a string prefix with target
//	                   targetx      sibling file sharing a string prefix
//	                   tmp/         TMPDIR
//	                   cwd/         working directory
//	                   in/          input tarballs (written before the "before" snapshot)
//
// The nesting (8 x "o") is a safety margin: a case contains at most maxDotDot ".." segments over
// all names and link targets, so no escape can climb out of C.
//
// Output: a Coq cases file (inputs + observed state, names virtualised so that the file is a
// function of the seed only) and a JSONL side file with the same cases in the same order.
package main

import (
	"archive/tar"
	"bytes"
	"crypto/sha256"
	"encoding/hex"
	"encoding/json"
	"flag"
	"fmt"
	"io"
	"io/fs"
	"math/rand"
	"os"
	"path"
	"path/filepath"
	"regexp"
	"sort"
	"strings"

	v1 "github.com/google/go-containerregistry/pkg/v1"
	"github.com/google/go-containerregistry/pkg/name"
	"github.com/google/go-containerregistry/pkg/v1/empty"
	"github.com/google/go-containerregistry/pkg/v1/mutate"
	"github.com/google/go-containerregistry/pkg/v1/tarball"
	scimage "github.com/google/osv-scalibr/artifact/image/layerscanning/image"
	"github.com/google/osv-scalibr/artifact/image/symlink"
	"github.com/google/osv-scalibr/artifact/image/unpack"
	scalibrlog "github.com/google/osv-scalibr/log"

	cf "verifharness/internal/coqfmt"
)

const (
	nest      = 8
	maxDotDot = 6
)

// ------------------------------------------------------------------ case description

type Entry struct {
	Name string `json:"name"`
	Type string `json:"type"` // reg dir sym hard fifo
	Link string `json:"link,omitempty"`
	Size int    `json:"size"`
}

type Snap struct {
	Path string `json:"p"`
	Kind string `json:"k"` // d f l o
	Link string `json:"l,omitempty"`
	Size int64  `json:"s,omitempty"`
	Mode uint32 `json:"m"`
	Sha  string `json:"h,omitempty"`
	Cid  uint64 `json:"c,omitempty"`
}

type LinkRes struct {
	Path     string `json:"p"`
	Resolved string `json:"r,omitempty"`
	OK       bool   `json:"ok"`
}

type Case struct {
	Stream       string    `json:"stream"`
	Op           string    `json:"op"` // unpack-tarball unpack-image image-v1 image-tarball
	Layers       [][]Entry `json:"layers"`
	Passes       int       `json:"passes,omitempty"`
	MaxBytes     int64     `json:"max_bytes"`
	ErrReturn    bool      `json:"err_return,omitempty"`
	Ignore       bool      `json:"symlink_ignore,omitempty"` // SymlinkResolution = SymlinkIgnore (UnpackSquashedFromTarball only)
	TargetAbsent bool      `json:"target_absent,omitempty"`
	EvilSibling  bool      `json:"evil_sibling,omitempty"`
	DirSuffix    string    `json:"dir_suffix,omitempty"`

	// observations
	Flat         []Entry   `json:"flat,omitempty"` // what unpack() iterates over (squashed stream)
	SquashFailed bool      `json:"squash_failed,omitempty"`
	Err          string    `json:"err,omitempty"`
	Init         []Snap    `json:"-"`
	Obs          []Snap    `json:"-"`
	Obs2         []Snap    `json:"-"`
	ObsJ         []Snap    `json:"obs"`  // below base only, paths relative to base
	Obs2J        []Snap    `json:"obs2,omitempty"`
	Links        []LinkRes `json:"links,omitempty"`
	MetaOK       bool      `json:"meta_ok"`
	MetaNotes    []string  `json:"meta_notes,omitempty"`
	Changed      []string  `json:"changed_outside,omitempty"`
	ExtractDir   string    `json:"extract_dir,omitempty"`
	NonTrivial   bool      `json:"nontrivial"`
	InputHash    string    `json:"input_hash"`
}

// ------------------------------------------------------------------ content ids

var cidByContent = map[string]uint64{}

func contentID(b []byte) uint64 {
	k := string(b)
	if id, ok := cidByContent[k]; ok {
		return id
	}
	id := uint64(len(cidByContent) + 1)
	cidByContent[k] = id
	return id
}

func entryContent(layer, idx, size int) []byte {
	h := fmt.Sprintf("E%d.%d;", layer, idx)
	b := make([]byte, size)
	for i := range b {
		if i < len(h) {
			b[i] = h[i]
		} else {
			b[i] = 'x'
		}
	}
	return b
}

// ------------------------------------------------------------------ sandbox

type sandbox struct {
	root   string // real case root C
	vroot  string // virtual name of C (same number of segments)
	base   string
	target string
	tmp    string
	cwd    string
	in     string
}

func segCount(p string) int { return len(strings.Split(strings.Trim(p, "/"), "/")) }

func newSandbox(parent string, idx int, c *Case) *sandbox {
	root := filepath.Join(parent, fmt.Sprintf("c%06d", idx))
	sb := &sandbox{root: root}
	sb.vroot = "/" + strings.Split(strings.Trim(root, "/"), "/")[0] + strings.Repeat("/r", segCount(root)-1)
	p := root
	for i := 0; i < nest; i++ {
		p = filepath.Join(p, "o")
	}
	sb.base = filepath.Join(p, "b")
	sb.target = filepath.Join(sb.base, "target")
	sb.tmp = filepath.Join(sb.base, "tmp")
	sb.cwd = filepath.Join(sb.base, "cwd")
	sb.in = filepath.Join(sb.base, "in")
	must(os.MkdirAll(sb.base, 0o755))
	for _, d := range []string{sb.tmp, sb.cwd, sb.in} {
		must(os.Mkdir(d, 0o755))
	}
	if !c.TargetAbsent {
		must(os.Mkdir(sb.target, 0o755))
	}
	if c.EvilSibling {
		must(os.Mkdir(filepath.Join(sb.base, "target-evil"), 0o755))
		must(os.WriteFile(filepath.Join(sb.base, "target-evil", "keep"), []byte("K"), 0o644))
	}
	must(os.WriteFile(filepath.Join(sb.base, "targetx"), []byte("X"), 0o644))
	must(os.WriteFile(filepath.Join(sb.cwd, "cf"), []byte("CWDFILE"), 0o644)) // SymlinkIgnore reads relative targets from the cwd
	// "host" area: existing host files / an empty directory whose absolute paths image entries may spell
	must(os.MkdirAll(filepath.Join(sb.base, "host", "etc"), 0o755))
	must(os.Mkdir(filepath.Join(sb.base, "host", "emptydir"), 0o755))
	must(os.WriteFile(filepath.Join(sb.base, "host", "etc", "x"), []byte("HOSTX"), 0o644))
	must(os.WriteFile(filepath.Join(sb.base, "host", "etc", "keep"), []byte("HOSTKEEP"), 0o644))
	must(os.WriteFile(filepath.Join(sb.base, "host", "top"), []byte("HOSTTOP"), 0o644))
	return sb
}

// virt renames the random part of the case root, segment-wise and wherever it occurs (an entry name
// that spells a host path ends up as ExtractDir/layer-i/<real root>/...): the first segment of the
// root ("tmp") is kept, every following root segment becomes "r".
func (sb *sandbox) virt(p string) string {
	R := strings.Split(strings.Trim(sb.root, "/"), "/")
	if len(R) < 2 {
		return p
	}
	segs := strings.Split(p, "/")
	for i := 1; i < len(segs); i++ {
		if segs[i] == R[1] && segs[i-1] == R[0] {
			for j := 1; j < len(R) && i+j-1 < len(segs) && segs[i+j-1] == R[j]; j++ {
				segs[i+j-1] = "r"
			}
		}
	}
	return strings.Join(segs, "/")
}

var extractRe = regexp.MustCompile(`osv-scalibr-image-scanning-[0-9]+`)

func (sb *sandbox) virtAll(p string) string {
	return extractRe.ReplaceAllString(sb.virt(p), "E")
}

// expandHost replaces the placeholders $HOSTABS / $HOSTREL in an entry name by the absolute path of
// the sandbox's host area (real or virtualised), with and without the leading slash.
func (sb *sandbox) expandHost(name string, real bool) string {
	h := filepath.Join(sb.base, "host")
	if !real {
		h = sb.virt(h)
	}
	name = strings.ReplaceAll(name, "$HOSTABS", h)
	return strings.ReplaceAll(name, "$HOSTREL", strings.TrimPrefix(h, "/"))
}

func (sb *sandbox) expandLayers(layers [][]Entry, real bool) [][]Entry {
	out := make([][]Entry, len(layers))
	for i, l := range layers {
		for _, e := range l {
			e.Name = sb.expandHost(e.Name, real)
			e.Link = sb.expandHost(e.Link, real)
			out[i] = append(out[i], e)
		}
	}
	return out
}

func snapshot(sb *sandbox) []Snap {
	var out []Snap
	// ancestors of the virtual root exist as directories
	segs := strings.Split(strings.Trim(sb.vroot, "/"), "/")
	for i := 1; i < len(segs); i++ {
		out = append(out, Snap{Path: "/" + strings.Join(segs[:i], "/"), Kind: "d", Mode: 0o755})
	}
	err := filepath.WalkDir(sb.root, func(p string, d fs.DirEntry, err error) error {
		if err != nil {
			return err
		}
		fi, err := os.Lstat(p)
		if err != nil {
			return err
		}
		s := Snap{Path: sb.virtAll(p), Mode: uint32(fi.Mode().Perm())}
		switch {
		case fi.Mode()&fs.ModeSymlink != 0:
			s.Kind = "l"
			t, err := os.Readlink(p)
			if err != nil {
				return err
			}
			s.Link = sb.virtAll(t)
			s.Mode = 0
		case fi.IsDir():
			s.Kind = "d"
		case fi.Mode().IsRegular():
			s.Kind = "f"
			b, err := os.ReadFile(p)
			if err != nil {
				return err
			}
			s.Size = int64(len(b))
			h := sha256.Sum256(b)
			s.Sha = hex.EncodeToString(h[:8])
			s.Cid = contentID(b)
		default:
			s.Kind = "o"
		}
		out = append(out, s)
		return nil
	})
	must(err)
	sort.Slice(out, func(i, j int) bool { return out[i].Path < out[j].Path })
	return out
}

// below-base projection for the side file
func (sb *sandbox) rel(s []Snap) []Snap {
	vb := sb.virt(sb.base)
	var out []Snap
	for _, x := range s {
		if strings.HasPrefix(x.Path, vb+"/") {
			x.Path = x.Path[len(vb)+1:]
			if strings.HasPrefix(x.Link, vb+"/") {
				x.Link = "$BASE" + x.Link[len(vb):]
			}
			out = append(out, x)
		}
	}
	return out
}

func snapMap(s []Snap) map[string]Snap {
	m := map[string]Snap{}
	for _, x := range s {
		m[x.Path] = x
	}
	return m
}

// paths outside `allowed` (a virtual path; "" = nothing allowed) that differ between a and b
func diffOutside(a, b []Snap, allowed string) []string {
	ma, mb := snapMap(a), snapMap(b)
	var out []string
	inside := func(p string) bool {
		return allowed != "" && (p == allowed || strings.HasPrefix(p, allowed+"/"))
	}
	for p, x := range ma {
		if inside(p) {
			continue
		}
		if y, ok := mb[p]; !ok || x != y {
			out = append(out, p)
		}
	}
	for p := range mb {
		if inside(p) {
			continue
		}
		if _, ok := ma[p]; !ok {
			out = append(out, p)
		}
	}
	sort.Strings(out)
	return out
}

func must(err error) {
	if err != nil {
		panic(err)
	}
}

// ------------------------------------------------------------------ tar building

func typeflag(t string) byte {
	switch t {
	case "reg":
		return tar.TypeReg
	case "dir":
		return tar.TypeDir
	case "sym":
		return tar.TypeSymlink
	case "hard":
		return tar.TypeLink
	default:
		return tar.TypeFifo
	}
}

func typeOfFlag(f byte) string {
	switch f {
	case tar.TypeReg:
		return "reg"
	case tar.TypeDir:
		return "dir"
	case tar.TypeSymlink:
		return "sym"
	case tar.TypeLink:
		return "hard"
	default:
		return "fifo"
	}
}

// buildTar returns the tar stream of one layer; entries the tar writer refuses are reported.
func buildTar(layer int, es []Entry) ([]byte, error) {
	var buf bytes.Buffer
	tw := tar.NewWriter(&buf)
	for i, e := range es {
		h := &tar.Header{Name: e.Name, Typeflag: typeflag(e.Type), Mode: 0o644, Format: tar.FormatPAX}
		var content []byte
		switch e.Type {
		case "reg":
			content = entryContent(layer, i, e.Size)
			h.Size = int64(len(content))
		case "dir":
			h.Mode = 0o755
		case "sym", "hard":
			h.Linkname = e.Link
		}
		if err := tw.WriteHeader(h); err != nil {
			return nil, fmt.Errorf("entry %d (%q): %w", i, e.Name, err)
		}
		if len(content) > 0 {
			if _, err := tw.Write(content); err != nil {
				return nil, err
			}
		}
	}
	if err := tw.Close(); err != nil {
		return nil, err
	}
	return buf.Bytes(), nil
}

func buildImage(layers [][]Entry) (v1.Image, error) {
	var ls []v1.Layer
	for i, es := range layers {
		b, err := buildTar(i, es)
		if err != nil {
			return nil, err
		}
		l, err := tarball.LayerFromOpener(func() (io.ReadCloser, error) {
			return io.NopCloser(bytes.NewReader(b)), nil
		})
		if err != nil {
			return nil, err
		}
		ls = append(ls, l)
	}
	return mutate.AppendLayers(empty.Image, ls...)
}

// readFlat parses a flattened tar stream into entries the way unpack() sees them.
func readFlat(r io.Reader) ([]Entry, [][]byte, error) {
	tr := tar.NewReader(r)
	var es []Entry
	var contents [][]byte
	for {
		h, err := tr.Next()
		if err == io.EOF {
			return es, contents, nil
		}
		if err != nil {
			return es, contents, err
		}
		b, err := io.ReadAll(tr)
		if err != nil {
			return es, contents, err
		}
		es = append(es, Entry{Name: h.Name, Type: typeOfFlag(h.Typeflag), Link: h.Linkname, Size: int(h.Size)})
		contents = append(contents, b)
	}
}

// ------------------------------------------------------------------ running a case

type runOut struct {
	flatContents [][]byte
	layerDirs    []string // virtual dirPath per processed layer (image ops)
}

func countDotDot(c *Case) int {
	n := 0
	cnt := func(s string) {
		for _, x := range strings.Split(s, "/") {
			if x == ".." {
				n++
			}
		}
	}
	for _, l := range c.Layers {
		for _, e := range l {
			cnt(e.Name)
			cnt(e.Link)
		}
	}
	cnt(c.DirSuffix)
	return n
}

func hasInteresting(s string) bool {
	return strings.Contains(s, "..") || strings.HasPrefix(s, "/") || strings.Contains(s, "target")
}

func (c *Case) classify() {
	nt := false
	for _, l := range c.Layers {
		for _, e := range l {
			if hasInteresting(e.Name) || (e.Link != "" && hasInteresting(e.Link)) {
				nt = true
			}
		}
	}
	c.NonTrivial = nt
	b, _ := json.Marshal([]any{c.Op, c.Layers, c.Passes, c.MaxBytes, c.ErrReturn, c.TargetAbsent, c.EvilSibling, c.DirSuffix, c.Ignore})
	h := sha256.Sum256(b)
	c.InputHash = hex.EncodeToString(h[:12])
}

func runCase(parent string, idx int, c *Case) (*sandbox, *runOut) {
	if countDotDot(c) > maxDotDot {
		panic(fmt.Sprintf("case %d exceeds the .. budget", idx))
	}
	c.classify()
	sb := newSandbox(parent, idx, c)
	out := &runOut{}
	must(os.Setenv("TMPDIR", sb.tmp))
	must(os.Chdir(sb.cwd))
	defer os.Chdir("/")

	switch c.Op {
	case "unpack-tarball", "unpack-image":
		runUnpack(sb, c, out)
	case "image-v1", "image-tarball":
		runImage(sb, c, out)
	default:
		panic("unknown op " + c.Op)
	}
	return sb, out
}

func runUnpack(sb *sandbox, c *Case, out *runOut) {
	cfg := unpack.DefaultUnpackerConfig().WithMaxPass(c.Passes).WithMaxFileBytes(c.MaxBytes)
	if c.ErrReturn {
		cfg.SymlinkErrStrategy = unpack.SymlinkErrReturn
	}
	if c.Ignore && c.Op == "unpack-tarball" {
		cfg.SymlinkResolution = unpack.SymlinkIgnore
	}
	u, err := unpack.NewUnpacker(cfg)
	must(err)
	dir := sb.target + c.DirSuffix
	var img v1.Image
	tarPath := filepath.Join(sb.in, "flat.tar")
	if c.Op == "unpack-tarball" {
		b, err := buildTar(0, c.Layers[0])
		must(err)
		must(os.WriteFile(tarPath, b, 0o644))
		c.Flat, out.flatContents, err = readFlat(bytes.NewReader(b))
		must(err)
	} else {
		img, err = buildImage(c.Layers)
		must(err)
		r := mutate.Extract(img)
		c.Flat, out.flatContents, err = readFlat(r)
		if err == nil {
			// the squasher closes its tar writer (footer!) before it reports a late error through the
			// pipe; SaveToTarball's io.Copy sees that error, a tar reader stops at the footer
			_, err = io.Copy(io.Discard, r)
		}
		r.Close()
		if err != nil {
			c.SquashFailed = true
			c.Flat, out.flatContents = nil, nil
		}
	}
	c.Init = snapshot(sb)
	if c.Op == "unpack-tarball" {
		err = u.UnpackSquashedFromTarball(dir, tarPath)
	} else {
		err = u.UnpackSquashed(dir, img)
	}
	if err != nil {
		c.Err = err.Error()
	}
	c.Obs = snapshot(sb)
	c.Changed = diffOutside(c.Init, c.Obs, sb.virt(sb.target))
	// meta oracle: everything outside target identical including modes and hashes
	c.MetaOK = true
	tgt := sb.virt(sb.target)
	mi, mo := snapMap(c.Init), snapMap(c.Obs)
	for _, p := range c.Changed {
		a, okA := mi[p]
		b, okB := mo[p]
		// structural changes (added / removed / kind / link / content) are visible to the Coq spec;
		// pure mode changes are not, so they are reported here
		if okA && okB && a.Kind == b.Kind && a.Link == b.Link && a.Cid == b.Cid && a.Size == b.Size {
			c.MetaOK = false
			c.MetaNotes = append(c.MetaNotes, "mode changed outside target: "+p)
		}
	}
	// TMPDIR must be empty again
	ents, _ := os.ReadDir(sb.tmp)
	if len(ents) != 0 {
		c.MetaNotes = append(c.MetaNotes, fmt.Sprintf("TMPDIR not empty after return: %d entries", len(ents)))
	}
	// link resolutions below target
	for _, s := range c.Obs {
		if s.Kind == "l" && strings.HasPrefix(s.Path, tgt+"/") {
			real := sb.root + s.Path[len(sb.vroot):]
			r, err := filepath.EvalSymlinks(real)
			lr := LinkRes{Path: s.Path}
			if err == nil {
				lr.OK = true
				lr.Resolved = sb.virt(r)
			}
			c.Links = append(c.Links, lr)
		}
	}
}

func runImage(sb *sandbox, c *Case, out *runOut) {
	img, err := buildImage(sb.expandLayers(c.Layers, true))
	must(err)
	tarPath := filepath.Join(sb.in, "image.tar")
	if c.Op == "image-tarball" {
		ref, err := name.NewTag("verif/contain:latest")
		must(err)
		must(tarball.WriteToFile(tarPath, ref, img))
	}
	c.Init = snapshot(sb)
	cfg := scimage.DefaultConfig()
	cfg.MaxFileBytes = c.MaxBytes
	var im *scimage.Image
	if c.Op == "image-tarball" {
		im, err = scimage.FromTarball(tarPath, cfg)
	} else {
		im, err = scimage.FromV1Image(img, cfg)
	}
	if err != nil {
		c.Err = err.Error()
	}
	c.Obs = snapshot(sb)
	c.MetaOK = true
	allowed := ""
	if im != nil {
		c.ExtractDir = sb.virtAll(im.ExtractDir)
		allowed = c.ExtractDir
		if filepath.Dir(im.ExtractDir) != sb.tmp {
			c.MetaNotes = append(c.MetaNotes, "ExtractDir is not directly below TMPDIR: "+im.ExtractDir)
			c.MetaOK = false
		}
	}
	c.Changed = diffOutside(c.Init, c.Obs, allowed)
	mi, mo := snapMap(c.Init), snapMap(c.Obs)
	for _, p := range c.Changed {
		a, okA := mi[p]
		b, okB := mo[p]
		if okA && okB && a.Kind == b.Kind && a.Link == b.Link && a.Cid == b.Cid && a.Size == b.Size {
			c.MetaOK = false
			c.MetaNotes = append(c.MetaNotes, "mode changed outside ExtractDir: "+p)
		}
	}
	if im != nil {
		if err := im.CleanUp(); err != nil {
			c.MetaNotes = append(c.MetaNotes, "CleanUp error: "+err.Error())
			c.MetaOK = false
		}
	}
	c.Obs2 = snapshot(sb)
	for _, p := range diffOutside(c.Init, c.Obs2, "") {
		a, okA := mi[p]
		b, okB := snapMap(c.Obs2)[p]
		if okA && okB && a.Kind == b.Kind && a.Link == b.Link && a.Cid == b.Cid && a.Size == b.Size {
			c.MetaOK = false
			c.MetaNotes = append(c.MetaNotes, "mode changed after CleanUp: "+p)
		}
	}
}

// ------------------------------------------------------------------ Coq printing

func coqPath(p string) string {
	p = strings.Trim(p, "/")
	if p == "" {
		return "(@nil seg)"
	}
	var items []string
	for _, s := range strings.Split(p, "/") {
		items = append(items, cf.Str(s))
	}
	return "[" + strings.Join(items, "; ") + "]"
}

// paths below the base are printed relative to the constant bpre (defined per case file header)
func coqPathIn(sb *sandbox, p string) string {
	vb := sb.virt(sb.base)
	if p == vb {
		return "bpre"
	}
	if strings.HasPrefix(p, vb+"/") {
		return "(bpre ++ " + coqPath(p[len(vb):]) + ")"
	}
	return coqPath(p)
}

func coqFS(sb *sandbox, s []Snap, layerSide bool) string {
	var items []string
	for _, x := range s {
		var n string
		switch x.Kind {
		case "d":
			n = "NDir"
		case "f":
			cid := x.Cid
			if layerSide && strings.Contains(x.Path, "/tmp/E/") {
				cid = 0
			}
			n = fmt.Sprintf("NFile %s %s", cf.N(cid), cf.Z(x.Size))
		case "l":
			n = "NLink " + cf.Str(x.Link)
		default:
			n = "NFile 999999%N (-1)%Z"
		}
		items = append(items, fmt.Sprintf("(%s, %s)", coqPathIn(sb, x.Path), n))
	}
	return cf.List(items)
}

func coqEntries(es []Entry, contents [][]byte, layerSide bool) string {
	var items []string
	for i, e := range es {
		ty := map[string]string{"reg": "TReg", "dir": "TDir", "sym": "TSym", "hard": "THard"}[e.Type]
		if ty == "" {
			ty = "TOther"
		}
		var cid uint64
		if e.Type == "reg" && !layerSide && contents != nil {
			cid = contentID(contents[i])
		}
		items = append(items, fmt.Sprintf("{| e_name := %s; e_type := %s; e_link := %s; e_size := %s; e_cid := %s |}",
			cf.Str(e.Name), ty, cf.Str(e.Link), cf.Z(int64(e.Size)), cf.N(cid)))
	}
	return cf.List(items)
}

func bpreDef(sb *sandbox) string {
	return coqPath(sb.virt(sb.base))
}

func coqUCase(sb *sandbox, c *Case, out *runOut) string {
	var links []string
	for _, l := range c.Links {
		links = append(links, fmt.Sprintf("(%s, %s)", coqPathIn(sb, l.Path), cf.Option(l.OK, coqPathIn(sb, l.Resolved))))
	}
	return fmt.Sprintf("{| uc_dir := %s; uc_target := %s; uc_max := %s; uc_passes := %s; uc_errret := %s; uc_ignore := %s; uc_cwd := %s; uc_squash_failed := %s;\n"+
		"     uc_init := %s;\n     uc_entries := %s;\n     uc_obs := %s;\n     uc_err := %s; uc_links := %s; uc_meta_ok := %s |}",
		cf.Str(sb.virt(sb.target)+c.DirSuffix), coqPathIn(sb, sb.virt(sb.target)), cf.Z(effMax(c.MaxBytes)), cf.Nat(effPasses(c.Passes)),
		cf.Bool(c.ErrReturn), cf.Bool(c.Ignore && c.Op == "unpack-tarball"), coqPathIn(sb, sb.virt(sb.cwd)), cf.Bool(c.SquashFailed),
		coqFS(sb, c.Init, false), coqEntries(c.Flat, out.flatContents, false), coqFS(sb, c.Obs, false),
		cf.Bool(c.Err != ""), cf.List(links), cf.Bool(c.MetaOK))
}

func effMax(m int64) int64 {
	if m <= 0 {
		return 1024 * 1024 * 1024 * 1024
	}
	return m
}

func effPasses(p int) int {
	if p <= 0 {
		return unpack.DefaultMaxPass
	}
	return p
}

func coqLCase(sb *sandbox, c *Case) string {
	vtmp := sb.virt(sb.tmp)
	extract := vtmp + "/E"
	var ls []string
	vl := sb.expandLayers(c.Layers, false)
	for i := len(vl) - 1; i >= 0; i-- {
		ls = append(ls, fmt.Sprintf("(%s, %s)", cf.Str(fmt.Sprintf("%s/layer-%d", extract, i)), coqEntries(vl[i], nil, true)))
	}
	return fmt.Sprintf("{| lc_extract := %s; lc_max := %s;\n     lc_init := %s;\n     lc_layers := %s;\n     lc_obs1 := %s;\n     lc_err := %s;\n     lc_obs2 := %s; lc_meta_ok := %s |}",
		cf.Str(extract), cf.Z(c.MaxBytes), coqFS(sb, c.Init, true), cf.List(ls), coqFS(sb, c.Obs, true),
		cf.Bool(c.Err != ""), coqFS(sb, c.Obs2, true), cf.Bool(c.MetaOK))
}

// ------------------------------------------------------------------ generators

var plainSegs = []string{"a", "b", "d", "s", "t", "f", "g", "x", "etc", "usr"}
var oddSegs = []string{".", "..", "", "...", "..a", "a..", ".a", "target", "target-evil", "targetx", "target-evil2", "tmp", "cwd", ".wh.a", ".wh..wh..opq", ".wh.", "b", "o"}

func longSeg(r *rand.Rand) string {
	switch r.Intn(4) {
	case 0:
		return strings.Repeat("L", 255)
	case 1:
		return strings.Repeat("M", 256)
	case 2:
		return strings.Repeat("n", 100)
	default:
		return strings.Repeat("q", 30)
	}
}

// climbName builds names whose ".." only shows after cleaning: k plain segments, then k+extra
// ".." segments, then a tail ("a/b/../../../x", "./../x", "a/./../../t").
func climbName(r *rand.Rand, budget *int) string {
	k := r.Intn(3)
	extra := r.Intn(3)
	if k+extra > *budget {
		return ""
	}
	var segs []string
	if r.Intn(3) == 0 {
		segs = append(segs, ".")
	}
	for i := 0; i < k; i++ {
		segs = append(segs, plainSegs[r.Intn(len(plainSegs))])
		if r.Intn(4) == 0 {
			segs = append(segs, ".")
		}
	}
	for i := 0; i < k+extra; i++ {
		segs = append(segs, "..")
	}
	*budget -= k + extra
	tail := 1 + r.Intn(2)
	for i := 0; i < tail; i++ {
		segs = append(segs, append(plainSegs, "target-evil", "out", "tmp")[r.Intn(len(plainSegs)+3)])
	}
	return strings.Join(segs, "/")
}

func randName(r *rand.Rand, budget *int, odd int) string {
	if odd > 0 && r.Intn(6) == 0 {
		if nm := climbName(r, budget); nm != "" {
			return nm
		}
	}
	n := 1 + r.Intn(4)
	var segs []string
	for i := 0; i < n; i++ {
		var s string
		if odd > 0 && r.Intn(60) == 0 {
			s = longSeg(r)
		} else if r.Intn(100) < odd {
			s = oddSegs[r.Intn(len(oddSegs))]
		} else {
			s = plainSegs[r.Intn(len(plainSegs))]
		}
		if s == ".." {
			if *budget <= 0 {
				s = "."
			} else {
				*budget--
			}
		}
		segs = append(segs, s)
	}
	nm := strings.Join(segs, "/")
	switch r.Intn(12) {
	case 0:
		nm = "/" + nm
	case 1:
		nm += "/"
	case 2:
		nm = "./" + nm
	}
	return nm
}

// existingDest names something that exists `up` levels above the target directory (up <= 0: a
// name inside it): a link is only kept by RemoveObsoleteSymlinks when its destination exists.
func existingDest(r *rand.Rand, up int) string {
	leaf := []string{"targetx", "tmp", "cwd", "in"}[r.Intn(4)]
	switch {
	case up <= 0:
		return plainSegs[r.Intn(len(plainSegs))]
	case up == 1:
		return leaf
	default:
		return strings.Repeat("o/", up-2) + "b/" + leaf
	}
}

func leadingDotDots(p string) int {
	n := 0
	for _, x := range strings.Split(p, "/") {
		if x != ".." {
			break
		}
		n++
	}
	return n
}

// trickyTarget builds a link target out of "..", ".", EMPTY segments and names (".//../x",
// "..//../x", "../..//..//x", "/etc//../../x") and completes it with a destination that exists
// where the target lands lexically. linkDir is the cleaned directory of the link ("." at top
// level); rootRelative: measure from the archive root (hard-link semantics) instead.
func trickyTarget(r *rand.Rand, linkDir string, budget *int, abs, rootRelative bool) string {
	n := 2 + r.Intn(5)
	var comps []string
	dd := 0
	for i := 0; i < n; i++ {
		k := r.Intn(100)
		switch {
		case k < 45 && dd < 3 && dd < *budget:
			comps = append(comps, "..")
			dd++
		case k < 65:
			if i == 0 {
				comps = append(comps, ".")
			} else {
				comps = append(comps, "")
			}
		case k < 80:
			comps = append(comps, ".")
		default:
			comps = append(comps, append(plainSegs, "etc", "target")[r.Intn(len(plainSegs)+2)])
		}
	}
	*budget -= dd
	t := strings.Join(comps, "/")
	var landing string
	if abs || rootRelative {
		landing = path.Clean(strings.TrimLeft(t, "/"))
	} else {
		landing = path.Clean(linkDir + "/" + t)
	}
	if landing == "" {
		landing = "."
	}
	t = t + "/" + existingDest(r, leadingDotDots(landing))
	if abs {
		t = "/" + t
	}
	return t
}

// genLinkShape: cases without any write-through-link shape (no entry name passes through the
// name of a link entry), so that the lexical kept-link oracle is claimed on them.
func genLinkShape(r *rand.Rand) *Case {
	c := &Case{Stream: "unpack-linkshape", Op: "unpack-tarball", Passes: []int{1, 2, 3}[r.Intn(3)]}
	if r.Intn(3) == 0 {
		c.Op = "unpack-image"
	}
	c.EvilSibling = r.Intn(3) == 0
	c.Ignore = c.Op == "unpack-tarball" && r.Intn(6) == 0
	budget := maxDotDot
	var es []Entry
	for i, n := 0, 1+r.Intn(3); i < n; i++ {
		depth := 1 + r.Intn(3)
		var segs []string
		for j := 0; j < depth; j++ {
			segs = append(segs, plainSegs[r.Intn(len(plainSegs))])
		}
		nm := strings.Join(segs, "/") + fmt.Sprintf("/f%d", i)
		if r.Intn(3) == 0 {
			es = append(es, Entry{Name: strings.Join(segs, "/") + fmt.Sprintf("/d%d", i), Type: "dir"})
		}
		es = append(es, Entry{Name: nm, Type: "reg", Size: randSize(r)})
	}
	for i, n := 0, 1+r.Intn(3); i < n; i++ {
		depth := r.Intn(4)
		var segs []string
		for j := 0; j < depth; j++ {
			segs = append(segs, plainSegs[r.Intn(len(plainSegs))])
		}
		linkDir := "."
		if depth > 0 {
			linkDir = strings.Join(segs, "/")
		}
		e := Entry{Name: strings.Join(append(segs, fmt.Sprintf("l%d", i)), "/"), Type: "sym"}
		if r.Intn(5) < 2 {
			e.Type = "hard"
		}
		if r.Intn(6) == 0 {
			e.Name = "./" + e.Name
		}
		abs := r.Intn(4) == 0
		rootRel := e.Type == "hard" && r.Intn(2) == 0
		e.Link = trickyTarget(r, linkDir, &budget, abs, rootRel)
		pos := len(es)
		if r.Intn(2) == 0 {
			pos = r.Intn(len(es) + 1)
		}
		es = append(es[:pos], append([]Entry{e}, es[pos:]...)...)
	}
	if c.Op == "unpack-image" {
		nl := 1 + r.Intn(2)
		c.Layers = make([][]Entry, nl)
		for _, e := range es {
			k := r.Intn(nl)
			c.Layers[k] = append(c.Layers[k], e)
		}
	} else {
		c.Layers = [][]Entry{es}
	}
	return c
}

func randSize(r *rand.Rand) int {
	return []int{0, 1, 3, 9, 10, 11, 17, 40}[r.Intn(8)]
}

func randEntry(r *rand.Rand, budget *int, odd int, prior []Entry) Entry {
	e := Entry{Name: randName(r, budget, odd)}
	switch k := r.Intn(20); {
	case k < 9:
		e.Type = "reg"
		e.Size = randSize(r)
	case k < 12:
		e.Type = "dir"
	case k < 17:
		e.Type = "sym"
	case k < 19:
		e.Type = "hard"
	default:
		e.Type = "fifo"
	}
	if e.Type == "sym" || e.Type == "hard" {
		switch k := r.Intn(11); {
		case k == 10:
			d := path.Dir(path.Clean(e.Name))
			e.Link = trickyTarget(r, d, budget, r.Intn(4) == 0, false)
		case k < 5:
			e.Link = randName(r, budget, odd)
		case k < 7 && len(prior) > 0:
			e.Link = prior[r.Intn(len(prior))].Name
		case k < 8:
			e.Link = []string{".", "/", "", "./", "//"}[r.Intn(5)]
		default:
			if len(prior) > 0 && *budget > 0 {
				*budget--
				e.Link = "../" + prior[r.Intn(len(prior))].Name
			} else {
				e.Link = randName(r, budget, odd)
			}
		}
	}
	// write-through: reuse a prior entry's name as a directory prefix
	if len(prior) > 0 && r.Intn(4) == 0 {
		p := prior[r.Intn(len(prior))].Name
		e.Name = strings.TrimSuffix(p, "/") + "/" + plainSegs[r.Intn(len(plainSegs))]
		// the reused prefix may carry ".." segments
		for _, x := range strings.Split(p, "/") {
			if x == ".." {
				*budget--
			}
		}
	}
	return e
}

// named scenarios taken from the design's candidate defects, each randomised around the edges
func scenario(r *rand.Rand, k int) []Entry {
	f := plainSegs[r.Intn(len(plainSegs))]
	switch k {
	case 0: // prefix confusion
		return []Entry{{Name: "../target-evil/" + f, Type: "reg", Size: 5}}
	case 1: // directories created before the check
		return []Entry{{Name: "../../out/" + f, Type: "reg", Size: 3}}
	case 2: // link escape
		return []Entry{{Name: "s", Type: "sym", Link: "."}, {Name: "a/t", Type: "sym", Link: "../s/.."}}
	case 3: // link escape + write through + prefix confusion
		return []Entry{{Name: "s", Type: "sym", Link: "."}, {Name: "t", Type: "sym", Link: "s/.."},
			{Name: "t/target-evil/" + f, Type: "reg", Size: 4}, {Name: "t/other/" + f, Type: "reg", Size: 4}}
	case 4: // link inside then write through
		return []Entry{{Name: "d/" + f, Type: "reg", Size: 2}, {Name: "l", Type: "sym", Link: "d"}, {Name: "l/g", Type: "reg", Size: 7}}
	case 5: // absolute link re-rooted, then write through
		return []Entry{{Name: "l", Type: "sym", Link: "/etc"}, {Name: "etc/" + f, Type: "reg", Size: 1}, {Name: "l/h", Type: "reg", Size: 3}}
	case 6: // file then sub-path (MkdirAll fails)
		return []Entry{{Name: f, Type: "reg", Size: 1}, {Name: f + "/g", Type: "reg", Size: 1}}
	case 7: // absolute dotdot target
		return []Entry{{Name: "l", Type: "sym", Link: "/../" + f}, {Name: "m", Type: "sym", Link: "/a/../../" + f}}
	case 8: // sibling dirs of the target
		return []Entry{{Name: "../tmp/" + f, Type: "reg", Size: 2}, {Name: "../cwd/" + f, Type: "reg", Size: 2}, {Name: "../targetx/" + f, Type: "reg", Size: 2}}
	case 9: // link to sibling via dotdot
		return []Entry{{Name: "l", Type: "sym", Link: "../target-evil"}, {Name: "a/l", Type: "sym", Link: "../../target-evil"}, {Name: "a/l/" + f, Type: "reg", Size: 2}}
	case 10: // loops and dangling
		return []Entry{{Name: "p", Type: "sym", Link: "q"}, {Name: "q", Type: "sym", Link: "p"}, {Name: "z", Type: "sym", Link: "nowhere"}, {Name: "p/" + f, Type: "reg", Size: 1}}
	case 11: // long names
		return []Entry{{Name: strings.Repeat("L", 255) + "/" + f, Type: "reg", Size: 1}, {Name: "a/" + strings.Repeat("M", 256) + "/" + f, Type: "reg", Size: 1},
			{Name: "k", Type: "sym", Link: strings.Repeat("M", 256)}}
	case 12: // hard link entries are treated like symlinks
		return []Entry{{Name: "h", Type: "hard", Link: "a/" + f}, {Name: "a/" + f, Type: "reg", Size: 3}, {Name: "a/h2", Type: "hard", Link: "a/" + f}}
	case 13: // dot entries
		return []Entry{{Name: ".", Type: "dir"}, {Name: "./", Type: "dir"}, {Name: "..", Type: "dir"}, {Name: "", Type: "reg", Size: 1}, {Name: "/", Type: "dir"}, {Name: "./" + f, Type: "reg", Size: 2}}
	case 14: // chain of parents
		return []Entry{{Name: "s", Type: "sym", Link: "."}, {Name: "t1", Type: "sym", Link: "s/.."}, {Name: "t2", Type: "sym", Link: "t1/.."}, {Name: "t2/o/" + f, Type: "reg", Size: 2}}
	case 15: // path longer than PATH_MAX: 20 x 230 bytes
		var segs []string
		for i := 0; i < 20; i++ {
			segs = append(segs, strings.Repeat(string(rune('a'+i)), 230))
		}
		return []Entry{{Name: strings.Join(segs, "/") + "/" + f, Type: "reg", Size: 1}, {Name: "after", Type: "reg", Size: 1},
			{Name: "ll", Type: "sym", Link: strings.Join(segs, "/")}}
	case 16: // SymlinkIgnore: copies of absolute (re-rooted) and cwd-relative targets, pass order matters
		return []Entry{{Name: "l", Type: "sym", Link: "/etc/" + f}, {Name: "etc/" + f, Type: "reg", Size: 9}, {Name: "a/k", Type: "sym", Link: "cf"},
			{Name: "m", Type: "hard", Link: "etc/" + f}, {Name: "n/o", Type: "sym", Link: "/l"}}
	case 17: // links aimed at the prefix-confusable siblings of the target THROUGH an earlier "s -> ." link:
		// the lexical check accepts them, only the final sweep can stop them
		dest := []string{"../targetx", "../target-evil", "../target-evil/keep", "../targetx/y", "../target-evil2"}
		return []Entry{{Name: "s", Type: "sym", Link: "."}, {Name: "s/l", Type: "sym", Link: dest[r.Intn(len(dest))]},
			{Name: "s/m", Type: []string{"sym", "hard"}[r.Intn(2)], Link: dest[r.Intn(3)]}, {Name: "d/" + f, Type: "reg", Size: 2},
			{Name: "d/s2", Type: "sym", Link: ".."}, {Name: "d/s2/n", Type: "sym", Link: dest[r.Intn(3)]}}
	default: // dangling link in the parent chain
		return []Entry{{Name: "dl", Type: "sym", Link: "missing"}, {Name: "dl/" + f, Type: "reg", Size: 2}, {Name: "dl2", Type: "sym", Link: "dl/x"}}
	}
}

const nScenarios = 19

func genUnpack(r *rand.Rand, stream string) *Case {
	c := &Case{Stream: stream, Op: "unpack-tarball", Passes: []int{1, 2, 3, 3, 3}[r.Intn(5)], MaxBytes: []int64{0, 0, 10, 1 << 30}[r.Intn(4)]}
	if r.Intn(3) == 0 {
		c.Op = "unpack-image"
	}
	c.ErrReturn = r.Intn(6) == 0
	c.Ignore = c.Op == "unpack-tarball" && r.Intn(6) == 0
	c.TargetAbsent = r.Intn(8) == 0
	c.EvilSibling = r.Intn(3) == 0
	budget := maxDotDot
	if r.Intn(10) == 0 {
		c.DirSuffix = []string{"/", "/.", "/../target", "//"}[r.Intn(4)]
		if strings.Contains(c.DirSuffix, "..") {
			budget--
		}
	}
	var es []Entry
	odd := []int{0, 15, 40}[r.Intn(3)]
	if stream == "unpack-scenario" {
		k := r.Intn(nScenarios)
		if k == 16 {
			c.Op = "unpack-tarball"
			c.Ignore = r.Intn(4) != 0
		}
		if k == 17 || k == 0 || k == 3 || k == 9 {
			// the prefix-confusion scenarios only mean something when the sibling sharing the prefix exists
			c.EvilSibling = true
		}
		sc := scenario(r, k)
		for _, e := range sc {
			for _, x := range strings.Split(e.Name+"/"+e.Link, "/") {
				if x == ".." {
					budget--
				}
			}
		}
		es = append(es, sc...)
	}
	n := r.Intn(6)
	if stream != "unpack-scenario" {
		n = 1 + r.Intn(9)
	}
	for i := 0; i < n; i++ {
		var e Entry
		for {
			b := budget
			if stream == "unpack-D" {
				b = 0
			}
			e = randEntry(r, &b, odd, es)
			if b >= 0 {
				if stream != "unpack-D" {
					budget = b
				}
				break
			}
		}
		pos := len(es)
		if r.Intn(3) == 0 {
			pos = r.Intn(len(es) + 1)
		}
		es = append(es[:pos], append([]Entry{e}, es[pos:]...)...)
	}
	if c.Op == "unpack-image" {
		nl := 1 + r.Intn(3)
		c.Layers = make([][]Entry, nl)
		for _, e := range es {
			k := r.Intn(nl)
			c.Layers[k] = append(c.Layers[k], e)
		}
	} else {
		c.Layers = [][]Entry{es}
	}
	return c
}

func genImage(r *rand.Rand, stream string) *Case {
	c := &Case{Stream: stream, Op: "image-v1", MaxBytes: []int64{1 << 30, 10, 10, 1, 4}[r.Intn(5)]}
	if r.Intn(4) == 0 {
		c.Op = "image-tarball"
	}
	budget := maxDotDot
	nl := 1 + r.Intn(3)
	c.Layers = make([][]Entry, nl)
	odd := []int{0, 15, 40}[r.Intn(3)]
	for k := 0; k < nl; k++ {
		n := 1 + r.Intn(6)
		if stream == "image-scenario" && k == 0 {
			sc := scenario(r, r.Intn(nScenarios))
			for _, e := range sc {
				for _, x := range strings.Split(e.Name+"/"+e.Link, "/") {
					if x == ".." {
						budget--
					}
				}
			}
			c.Layers[k] = append(c.Layers[k], sc...)
		}
		for i := 0; i < n; i++ {
			var e Entry
			for {
				b := budget
				e = randEntry(r, &b, odd, c.Layers[k])
				if b >= 0 {
					budget = b
					break
				}
			}
			if stream != "image-benign" && r.Intn(5) == 0 {
				// an entry that spells the absolute path of an existing host file / empty directory
				e.Name = []string{"$HOSTABS/etc/x", "$HOSTREL/etc/x", "./$HOSTREL/etc/x", "$HOSTABS/emptydir", "$HOSTREL/top", "/./$HOSTREL/etc/keep"}[r.Intn(6)]
				e.Type = "reg"
				e.Link = ""
				e.Size = []int{1, 9, 10, 11, 17, 40}[r.Intn(6)]
			}
			if stream == "image-benign" {
				// avoid the fatal file/dir conflicts most of the time
				e.Name = strings.TrimSuffix(e.Name, "/") + fmt.Sprintf("%d", i)
			}
			c.Layers[k] = append(c.Layers[k], e)
		}
	}
	return c
}

// tar writer refuses some headers (e.g. a symlink with a NUL); make sure the case is buildable
func buildable(c *Case) bool {
	for i, l := range c.Layers {
		if _, err := buildTar(i, l); err != nil {
			return false
		}
	}
	return true
}

// ------------------------------------------------------------------ path algebra stream

type PCase struct {
	A     string `json:"a"`
	B     string `json:"b"`
	Clean string `json:"clean"`
	Join  string `json:"join"`
	Dir   string `json:"dir"`
	Base  string `json:"base"`
	TOR   bool   `json:"tor"`
}

func randPathString(r *rand.Rand) string {
	switch r.Intn(10) {
	case 0:
		alphabet := "/.a"
		n := r.Intn(9)
		b := make([]byte, n)
		for i := range b {
			b[i] = alphabet[r.Intn(len(alphabet))]
		}
		return string(b)
	case 1:
		return []string{"", ".", "..", "/", "//", "/..", "/.", "../", "./", "a/..", "a/../..", "/../a", "../target-evil/f"}[r.Intn(13)]
	}
	n := 1 + r.Intn(6)
	var segs []string
	for i := 0; i < n; i++ {
		if r.Intn(2) == 0 {
			segs = append(segs, oddSegs[r.Intn(len(oddSegs))])
		} else {
			segs = append(segs, plainSegs[r.Intn(len(plainSegs))])
		}
	}
	s := strings.Join(segs, "/")
	if r.Intn(4) == 0 {
		s = "/" + s
	}
	if r.Intn(6) == 0 {
		s += "/"
	}
	return s
}

func runPCase(a, b string) PCase {
	return PCase{A: a, B: b, Clean: path.Clean(a), Join: path.Join(a, b), Dir: filepath.Dir(a), Base: path.Base(a),
		TOR: symlink.TargetOutsideRoot(a, b)}
}

func coqPCase(p PCase) string {
	return fmt.Sprintf("{| pc_a := %s; pc_b := %s; pc_clean := %s; pc_join := %s; pc_dir := %s; pc_base := %s; pc_tor := %s |}",
		cf.Str(p.A), cf.Str(p.B), cf.Str(p.Clean), cf.Str(p.Join), cf.Str(p.Dir), cf.Str(p.Base), cf.Bool(p.TOR))
}

// ------------------------------------------------------------------ main

const header = "From Coq Require Import List ZArith NArith Bool.\nFrom Scalibr Require Import Contain.PathBytes Contain.Model Contain.Cases.\nImport ListNotations.\nOpen Scope N_scope.\n"

type silentLogger struct{}

func (silentLogger) Errorf(string, ...any) {}
func (silentLogger) Warnf(string, ...any)  {}
func (silentLogger) Infof(string, ...any)  {}
func (silentLogger) Debugf(string, ...any) {}
func (silentLogger) Error(...any)          {}
func (silentLogger) Warn(...any)           {}
func (silentLogger) Info(...any)           {}
func (silentLogger) Debug(...any)          {}

func main() {
	sandboxDir := flag.String("sandbox", "", "existing empty directory all cases run in (required)")
	out := flag.String("out", "", "output .v file")
	side := flag.String("jsonl", "", "output side file")
	seed := flag.Int64("seed", 1, "PRNG seed")
	nUnpack := flag.Int("unpack", 200, "random unpack cases")
	nScen := flag.Int("scenario", 100, "scenario-based unpack cases")
	nD := flag.Int("indomain", 100, "unpack cases inside the domain D")
	nLS := flag.Int("linkshape", 100, "unpack cases with tricky link targets and no write-through-link shape")
	nImage := flag.Int("image", 150, "image loading cases")
	nPath := flag.Int("paths", 1000, "path algebra cases")
	known := flag.String("known", "", "JSON file with known-finding witnesses (replayed first)")
	replay := flag.String("replay", "", "replay one JSON case")
	scanMode := flag.Bool("scanmode", false, "run the scan half (oracle only) instead of the image half")
	scanOut := flag.String("scanout", "", "scan half: result JSON")
	scanRounds := flag.Int("scanrounds", 1, "scan half: fixture trees per root kind")
	repo := flag.String("repo", "/repo", "scan half: repository root (testdata contents)")
	scanRun := flag.String("scanrun", "", "internal: run one scan over this tree and exit")
	scanVirtual := flag.Bool("scanvirtual", false, "internal: with -scanrun, use a virtual root")
	limitMode := flag.Bool("limitmode", false, "C10 image half: file sizes around MaxFileBytes")
	limitOut := flag.String("limitout", "", "limit mode: cases .v")
	limitJ := flag.String("limitjsonl", "", "limit mode: side file")
	limitN := flag.Int("limitn", 100, "limit mode: number of images")
	flag.Parse()
	scalibrlog.SetLogger(silentLogger{})
	if *scanRun != "" {
		scanChild(*scanRun, *scanVirtual)
		return
	}
	if *sandboxDir == "" {
		fmt.Fprintln(os.Stderr, "-sandbox is required")
		os.Exit(2)
	}
	sbReal, err := filepath.EvalSymlinks(*sandboxDir)
	must(err)
	for _, p := range []*string{out, side, known, replay, scanOut, limitOut, limitJ} {
		if *p != "" {
			*p, err = filepath.Abs(*p)
			must(err)
		}
	}
	if ents, _ := os.ReadDir(sbReal); len(ents) != 0 {
		fmt.Fprintln(os.Stderr, "sandbox directory must be empty")
		os.Exit(2)
	}

	if *limitMode {
		limitMain(sbReal, *limitOut, *limitJ, *seed, *limitN)
		return
	}
	if *scanMode {
		scanMain(sbReal, *repo, *scanOut, *seed, *scanRounds)
		return
	}
	if *replay != "" {
		b, err := os.ReadFile(*replay)
		must(err)
		var wrap struct {
			Case json.RawMessage `json:"case"`
		}
		must(json.Unmarshal(b, &wrap))
		raw := wrap.Case
		if raw == nil {
			raw = b
		}
		var c Case
		must(json.Unmarshal(raw, &c))
		sb, ro := runCase(sbReal, 0, &c)
		c.ObsJ, c.Obs2J = sb.rel(c.Obs), sb.rel(c.Obs2)
		js, _ := json.MarshalIndent(&c, "", " ")
		fmt.Printf("implementation: %s\n", js)
		fmt.Printf("coq-bpre: %s\n", bpreDef(sb))
		if strings.HasPrefix(c.Op, "unpack") {
			fmt.Printf("coq-ucase: %s\n", strings.ReplaceAll(coqUCase(sb, &c, ro), "\n", " "))
		} else {
			fmt.Printf("coq-lcase: %s\n", strings.ReplaceAll(coqLCase(sb, &c), "\n", " "))
		}
		os.RemoveAll(sb.root)
		return
	}

	r := rand.New(rand.NewSource(*seed))
	var cases []*Case
	if *known != "" {
		b, err := os.ReadFile(*known)
		must(err)
		var ks []struct {
			ID      string `json:"id"`
			Prefix  string `json:"prefix"`
			Witness Case   `json:"witness"`
		}
		must(json.Unmarshal(b, &ks))
		for _, k := range ks {
			c := k.Witness
			if k.Prefix == "" {
				k.Prefix = "known"
			}
			c.Stream = k.Prefix + ":" + k.ID
			cases = append(cases, &c)
		}
	}
	add := func(n int, gen func() *Case) {
		for i := 0; i < n; i++ {
			for {
				c := gen()
				if countDotDot(c) <= maxDotDot && buildable(c) {
					cases = append(cases, c)
					break
				}
			}
		}
	}
	add(*nScen, func() *Case { return genUnpack(r, "unpack-scenario") })
	add(*nUnpack, func() *Case { return genUnpack(r, "unpack-random") })
	add(*nD, func() *Case { return genUnpack(r, "unpack-D") })
	add(*nLS, func() *Case { return genLinkShape(r) })
	add(*nImage/3, func() *Case { return genImage(r, "image-scenario") })
	add(*nImage/3, func() *Case { return genImage(r, "image-random") })
	add(*nImage-2*(*nImage/3), func() *Case { return genImage(r, "image-benign") })

	sf, err := os.Create(*side)
	must(err)
	enc := json.NewEncoder(sf)
	var uitems, litems []string
	var bpre string
	for i, c := range cases {
		sb, ro := runCase(sbReal, i, c)
		bpre = bpreDef(sb)
		if strings.HasPrefix(c.Op, "unpack") {
			uitems = append(uitems, coqUCase(sb, c, ro))
		} else {
			litems = append(litems, coqLCase(sb, c))
		}
		c.ObsJ, c.Obs2J = sb.rel(c.Obs), sb.rel(c.Obs2)
		for k := range c.Links {
			c.Links[k].Path = strings.TrimPrefix(c.Links[k].Path, sb.virt(sb.base)+"/")
			c.Links[k].Resolved = strings.Replace(c.Links[k].Resolved, sb.virt(sb.base), "$BASE", 1)
		}
		for k := range c.Changed {
			c.Changed[k] = strings.Replace(c.Changed[k], sb.virt(sb.base), "$BASE", 1)
		}
		must(enc.Encode(c))
		must(os.RemoveAll(sb.root))
	}
	var pitems []string
	for i := 0; i < *nPath; i++ {
		p := runPCase(randPathString(r), randPathString(r))
		pitems = append(pitems, coqPCase(p))
		must(enc.Encode(map[string]any{"stream": "path", "op": "path", "p": p}))
	}
	sf.Close()

	var sb strings.Builder
	sb.WriteString(header)
	if bpre == "" {
		bpre = "(@nil seg)"
	}
	sb.WriteString("Definition bpre : path := " + bpre + ".\n")
	sb.WriteString("(*END-HEADER*)\n")
	sb.WriteString(cf.Chunked("ucases", "ucase", uitems, 20))
	sb.WriteString(cf.Chunked("lcases", "lcase", litems, 20))
	sb.WriteString(cf.Chunked("pcases", "pcase", pitems, 250))
	must(os.WriteFile(*out, []byte(sb.String()), 0o644))
	fmt.Printf("cases=%d unpack=%d image=%d path=%d\n", len(cases)+len(pitems), len(uitems), len(litems), len(pitems))
}

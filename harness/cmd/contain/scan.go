package main

// Scan half of C06 (ORACLE ONLY, no model): fixture trees that place valid / empty / truncated /
// corrupt files at the production paths of the built-in offline extractors are scanned through a
// real directory root (DirFS with a real path) and through a virtual root (DirFS without a path,
// which forces ScanInput.GetRealPath to copy into TMPDIR); the scanned tree, the working
// directory and TMPDIR are snapshotted before and after.

import (
	"context"
	"database/sql"
	"crypto/sha256"
	"encoding/hex"
	"encoding/json"
	"fmt"
	"io/fs"
	"math/rand"
	"os"
	"os/exec"
	"path/filepath"
	"reflect"
	"sort"
	"strings"
	"time"

	"github.com/google/osv-scalibr/extractor/filesystem"
	fslist "github.com/google/osv-scalibr/extractor/filesystem/list"
	scalibrfs "github.com/google/osv-scalibr/fs"
	"github.com/google/osv-scalibr/plugin"
	"github.com/google/osv-scalibr/stats"
)

// candidate production paths; which extractor wants which is decided by asking FileRequired
var productionPaths = []string{
	"lib/apk/db/installed", "var/lib/dpkg/status", "var/lib/dpkg/status.d/base-files", "var/lib/dpkg/status.d/base-files.md5sums",
	"var/lib/opkg/status", "usr/lib/opkg/status",
	"var/lib/rpm/rpmdb.sqlite", "var/lib/rpm/Packages", "var/lib/rpm/Packages.db", "usr/lib/sysimage/rpm/rpmdb.sqlite",
	"usr/lib/sysimage/rpm/Packages.db", "usr/share/rpm/rpmdb.sqlite",
	"var/lib/pacman/local/zlib-1.3-1/desc", "var/db/pkg/dev-libs/openssl-3.0/PF", "var/db/pkg/dev-libs/openssl-3.0/CATEGORY",
	"etc/os-release", "usr/lib/os-release", "etc/cos-package-info.json", "snap/core/1/meta/snap.yaml",
	"var/lib/flatpak/app/org.x.App/current/active/export/share/metainfo/org.x.App.metainfo.xml",
	"nix/store/abcdefghijklmnopqrstuvwxyz012345-hello-2.12/bin/hello",
	"var/lib/containerd/io.containerd.metadata.v1.bolt/meta.db", "var/lib/containerd/io.containerd.snapshotter.v1.overlayfs/metadata.db", "var/lib/docker/containers/abc/config.v2.json",
	"run/podman/state.db", "var/lib/containers/storage/db.sql", "var/lib/containers/storage/libpod/bolt_state.db",
	"boot/vmlinuz-6.1.0", "boot/vmlinuz", "lib/modules/6.1.0/kernel/drivers/foo.ko", "usr/lib/modules/6.1.0/kernel/foo.ko",
	"usr/lib/python3/dist-packages/foo-1.0.egg-info/PKG-INFO", "usr/lib/python3/dist-packages/bar-2.0.egg-info",
	"usr/lib/python3/site-packages/foo-1.0.dist-info/METADATA", "usr/lib/python3/site-packages/foo.egg",
	"app/requirements.txt", "app/requirements-dev.txt", "app/Pipfile.lock", "app/poetry.lock", "app/pdm.lock", "app/uv.lock",
	"app/setup.py", "app/pyproject.toml", "opt/conda/conda-meta/numpy-1.0-py.json",
	"app/package.json", "app/node_modules/left-pad/package.json", "app/package-lock.json", "app/yarn.lock", "app/pnpm-lock.yaml",
	"app/bun.lock", "app/npm-shrinkwrap.json",
	"app/go.mod", "app/go.sum", "usr/local/bin/gobinary", "app/Cargo.lock", "app/Cargo.toml", "usr/local/bin/rustbinary",
	"app/composer.lock", "app/Gemfile.lock", "app/gems.locked", "usr/lib/ruby/gems/3.0.0/specifications/rake-13.0.gemspec",
	"app/pom.xml", "app/build.gradle", "app/gradle.lockfile", "app/buildscript-gradle.lockfile", "app/gradle/verification-metadata.xml",
	"app/lib/foo-1.0.jar", "app/lib/foo.war", "app/lib/foo.ear", "app/mix.lock", "app/pubspec.lock", "app/packages.lock.json",
	"app/foo.deps.json", "app/packages.config", "app/Package.resolved", "app/Podfile.lock", "app/conan.lock", "app/renv.lock",
	"app/stack.yaml.lock", "app/cabal.project.freeze", "app/rebar.lock", "app/foo.dll", "app/foo.exe", "app/DESCRIPTION",
	"app/foo.spdx.json", "app/foo.spdx", "app/foo.spdx.yml", "app/foo.spdx.rdf", "app/foo.cdx.json", "app/foo.cdx.xml", "app/bom.json", "app/bom.xml",
	"var/www/html/wp-content/plugins/akismet/akismet.php", "var/www/html/wp-includes/version.php",
	"home/u/.config/google-chrome/Default/Extensions/abcdefghijklmnopabcdefghijklmnop/1.0_0/manifest.json",
	"home/u/.vscode/extensions/extensions.json", "home/u/.vscode-server/extensions/extensions.json",
	"Applications/Foo.app/Contents/Info.plist", "usr/local/Cellar/foo/1.0/INSTALL_RECEIPT.json", "opt/homebrew/Cellar/foo/1.0/INSTALL_RECEIPT.json",
	"home/u/.ssh/id_rsa", "app/.env", "app/credentials.json", "app/secrets.txt", "app/config.yaml", "app/Dockerfile", "app/main.tf",
	"usr/lib/jvm/java-17/release", "usr/bin/java", "app/vendor/modules.txt", "app/Gopkg.lock", "app/glide.lock",
	"app/deps.edn", "app/project.clj", "app/build.sbt", "app/ivy.xml", "app/Cartfile.resolved", "app/pylock.toml", "app/environment.yml",
	"app/Manifest.toml", "app/Project.toml", "app/shard.lock", "app/Brewfile.lock.json", "app/vcpkg.json", "app/nuget.config",
	"app/foo.csproj", "app/Directory.Packages.props", "app/gradle/libs.versions.toml", "app/WORKSPACE", "app/MODULE.bazel",
	"app/cpanfile.snapshot", "app/META.json", "app/paket.lock", "app/elm.json", "app/flake.lock", "app/opam.locked",
	"var/lib/snapd/snaps/core_1.snap", "app/image.tar", "app/foo.whl", "app/foo.egg", "app/foo.gem", "app/foo.apk", "app/foo.rpm", "app/foo.deb",
	"app/node_modules/.package-lock.json", "app/pnpm-workspace.yaml", "app/obsolete.lock", "var/lib/misc/asdf/.tool-versions", "app/.tool-versions",
	"app/.nvmrc", "app/mise.toml", "app/.terraform.lock.hcl", "app/chart/Chart.lock", "app/chart/Chart.yaml", "app/.github/workflows/ci.yml",
}

var containerdDBs = []string{"var/lib/containerd/io.containerd.metadata.v1.bolt/meta.db",
	"var/lib/containerd/io.containerd.snapshotter.v1.overlayfs/metadata.db"}

type fakeAPI struct {
	path string
	size int64
	mode fs.FileMode
}

type fakeInfo struct{ a *fakeAPI }

func (f fakeInfo) Name() string       { return filepath.Base(f.a.path) }
func (f fakeInfo) Size() int64        { return f.a.size }
func (f fakeInfo) Mode() fs.FileMode  { return f.a.mode }
func (f fakeInfo) ModTime() time.Time { return time.Unix(0, 0) }
func (f fakeInfo) IsDir() bool        { return false }
func (f fakeInfo) Sys() any           { return nil }

func (a *fakeAPI) Stat() (fs.FileInfo, error) { return fakeInfo{a}, nil }
func (a *fakeAPI) Path() string               { return a.path }

type treeSnap struct {
	Path  string `json:"p"`
	Kind  string `json:"k"`
	Link  string `json:"l,omitempty"`
	Size  int64  `json:"s"`
	Mode  uint32 `json:"m"`
	Sha   string `json:"h,omitempty"`
	MTime int64  `json:"t"`
}

func snapTree(root string) map[string]treeSnap {
	out := map[string]treeSnap{}
	_ = filepath.WalkDir(root, func(p string, d fs.DirEntry, err error) error {
		if err != nil {
			return nil
		}
		fi, err := os.Lstat(p)
		if err != nil {
			return nil
		}
		rel, _ := filepath.Rel(root, p)
		s := treeSnap{Path: rel, Mode: uint32(fi.Mode()), MTime: fi.ModTime().UnixNano()}
		switch {
		case fi.Mode()&fs.ModeSymlink != 0:
			s.Kind = "l"
			s.Link, _ = os.Readlink(p)
		case fi.IsDir():
			s.Kind = "d"
		case fi.Mode().IsRegular():
			s.Kind = "f"
			b, _ := os.ReadFile(p)
			s.Size = int64(len(b))
			h := sha256.Sum256(b)
			s.Sha = hex.EncodeToString(h[:8])
		default:
			s.Kind = "o"
		}
		out[rel] = s
		return nil
	})
	return out
}

func diffTree(a, b map[string]treeSnap) []string {
	var out []string
	for p, x := range a {
		y, ok := b[p]
		if !ok {
			out = append(out, "removed: "+p)
		} else if p == "tmp" && x.Kind == "d" && y.Kind == "d" && x.Mode == y.Mode {
			// TMPDIR itself: creating and removing temporary files is allowed, only leftovers count
			continue
		} else if x != y {
			out = append(out, fmt.Sprintf("modified: %s (%+v -> %+v)", p, x, y))
		}
	}
	for p := range b {
		if _, ok := a[p]; !ok {
			out = append(out, "created: "+p)
		}
	}
	sort.Strings(out)
	return out
}

func testdataFiles(repo string, ex filesystem.Extractor) []string {
	t := reflect.TypeOf(ex)
	for t.Kind() == reflect.Ptr {
		t = t.Elem()
	}
	pkg := strings.TrimPrefix(t.PkgPath(), "github.com/google/osv-scalibr/")
	dir := filepath.Join(repo, pkg, "testdata")
	var files []string
	_ = filepath.WalkDir(dir, func(p string, d fs.DirEntry, err error) error {
		if err != nil || d.IsDir() {
			return nil
		}
		if fi, err := d.Info(); err == nil && fi.Mode().IsRegular() && fi.Size() < 4<<20 {
			files = append(files, p)
		}
		return nil
	})
	sort.Strings(files)
	return files
}

type scanResult struct {
	Runs        int            `json:"runs"`
	Files       int            `json:"files"`
	Extractors  int            `json:"extractors"`
	ExtractorsV int            `json:"extractors_virtual_root"`
	Wanted      int            `json:"production_paths_wanted_by_some_extractor"`
	Variants    map[string]int `json:"content_variants"`
	Panics      []string       `json:"panics_(C02_scope)"`
	Bad         []any          `json:"bad"`
	Partial     string         `json:"label"`
	Matrix      []matrixRun    `json:"db_and_realpath_matrix"`
	NotExercised []string      `json:"valid_fixture_unavailable_(emptied_in_this_sandbox)"`
	Known       map[string]any `json:"known_witnesses"`
	KnownHits   int            `json:"changes_attributed_to_known_findings"`
	CrashLeftovers int         `json:"tmp_leftovers_of_crashed_scans"`
	ExtractorsQ []string       `json:"extractors_with_fixture"`
}

// scanChild runs one scan in a process of its own: an extractor that panics in a goroutine of a
// third-party parser (seen: go-rpmdb on a corrupt Packages file) takes the whole process down,
// which must not take the oracle with it.
func scanChild(tree string, virtual bool) {
	exs, exsVirtual := scanExtractors()
	root := scalibrfs.RealFSScanRoot(tree)
	use := exs
	if virtual {
		root = &scalibrfs.ScanRoot{FS: scalibrfs.DirFS(tree), Path: ""}
		use = exsVirtual
	}
	ctx, cancel := context.WithTimeout(context.Background(), 120*time.Second)
	defer cancel()
	_, _, _ = filesystem.Run(ctx, &filesystem.Config{Extractors: use, ScanRoots: []*scalibrfs.ScanRoot{root}, Stats: stats.NoopCollector{}})
}

// scanExtractors returns every built-in extractor that can run offline, whatever operating system
// it declares (an image of another OS can be scanned on this host: dotnetpe declares Windows), and
// the subset that does not need direct file-system access (usable on a virtual root).
func scanExtractors() ([]filesystem.Extractor, []filesystem.Extractor) {
	var all, virt []filesystem.Extractor
	seen := map[string]bool{}
	for _, initers := range fslist.All {
		for _, initer := range initers {
			ex := initer()
			if seen[ex.Name()] {
				continue
			}
			seen[ex.Name()] = true
			os_ := ex.Requirements().OS
			if os_ == plugin.OSAny || os_ == plugin.OSUnix {
				os_ = plugin.OSLinux
			}
			if plugin.ValidateRequirements(ex, &plugin.Capabilities{OS: os_, Network: plugin.NetworkOffline, DirectFS: true, RunningSystem: false}) == nil {
				all = append(all, ex)
				if plugin.ValidateRequirements(ex, &plugin.Capabilities{OS: os_, Network: plugin.NetworkOffline, DirectFS: false, RunningSystem: false}) == nil {
					virt = append(virt, ex)
				}
			}
		}
	}
	sort.Slice(all, func(i, j int) bool { return all[i].Name() < all[j].Name() })
	sort.Slice(virt, func(i, j int) bool { return virt[i].Name() < virt[j].Name() })
	return all, virt
}

// runScanChild re-executes this binary for one scan; returns "" or a description of the crash.
func runScanChild(tree, cwd, tmp string, virtual bool) string {
	self, err := os.Executable()
	must(err)
	cmd := exec.Command(self, "-sandbox", tree, "-scanrun", tree, fmt.Sprintf("-scanvirtual=%v", virtual))
	cmd.Dir = cwd
	cmd.Env = append(os.Environ(), "TMPDIR="+tmp)
	out, err := cmd.CombinedOutput()
	if err != nil {
		t := string(out)
		if len(t) > 1500 {
			t = t[:1500]
		}
		return err.Error() + ": " + t
	}
	return ""
}

func scanMain(sandbox, repo, outPath string, seed int64, rounds int) {
	r := rand.New(rand.NewSource(seed))
	exs, exsVirtual := scanExtractors()
	res := scanResult{Extractors: len(exs), ExtractorsV: len(exsVirtual), Variants: map[string]int{}, Bad: []any{},
		Partial: "partial: snapshot oracle only, no model; DirFS real root + DirFS virtual root"}
	// which extractor wants which production path
	wants := map[string][]int{}
	withFixture := map[string]bool{}
	for i, ex := range exs {
		for _, p := range productionPaths {
			func() {
				defer func() { _ = recover() }()
				if ex.FileRequired(&fakeAPI{path: p, size: 100, mode: 0o755}) {
					wants[p] = append(wants[p], i)
					withFixture[ex.Name()] = true
				}
			}()
		}
	}
	for n := range withFixture {
		res.ExtractorsQ = append(res.ExtractorsQ, n)
	}
	sort.Strings(res.ExtractorsQ)
	res.Wanted = len(wants)
	var paths []string
	for p := range wants {
		paths = append(paths, p)
	}
	sort.Strings(paths)
	tdCache := map[int][]string{}
	for round := 0; round < rounds; round++ {
		for _, virtual := range []bool{false, true} {
			base := filepath.Join(sandbox, fmt.Sprintf("s%03d-%v", round, virtual))
			tree := filepath.Join(base, "tree")
			cwd := filepath.Join(base, "cwd")
			tmp := filepath.Join(base, "tmp")
			for _, d := range []string{tree, cwd, tmp} {
				must(os.MkdirAll(d, 0o755))
			}
			must(os.WriteFile(filepath.Join(cwd, "witness"), []byte("w"), 0o644))
			must(os.MkdirAll(filepath.Join(cwd, "file"), 0o755)) // bait: a cleanup that removes "file" relative to cwd
			must(os.WriteFile(filepath.Join(cwd, "file", "keep"), []byte("k"), 0o644))
			nfiles := 0
			for _, p := range paths {
				ws := wants[p]
				ei := ws[r.Intn(len(ws))]
				if _, ok := tdCache[ei]; !ok {
					tdCache[ei] = testdataFiles(repo, exs[ei])
				}
				var content []byte
				variant := []string{"valid", "valid", "empty", "truncated", "corrupt"}[r.Intn(5)]
				td := tdCache[ei]
				if len(td) > 0 {
					content, _ = os.ReadFile(td[r.Intn(len(td))])
				}
				switch variant {
				case "empty":
					content = nil
				case "truncated":
					if len(content) > 1 {
						content = content[:1+r.Intn(len(content)-1)]
					}
				case "corrupt":
					content = append([]byte(nil), content...)
					if len(content) == 0 {
						content = make([]byte, 64)
						r.Read(content)
					}
					for k := 0; k < 1+len(content)/50; k++ {
						content[r.Intn(len(content))] = byte(r.Intn(256))
					}
				}
				if len(td) == 0 && variant == "valid" {
					variant = "no-testdata-empty"
				}
				res.Variants[variant]++
				full := filepath.Join(tree, p)
				if os.MkdirAll(filepath.Dir(full), 0o755) != nil || os.WriteFile(full, content, 0o755) != nil {
					continue
				}
				nfiles++
			}
			res.Files += nfiles
			before := snapTree(base)
			crashed := runScanChild(tree, cwd, tmp, virtual)
			if crashed != "" {
				res.Panics = append(res.Panics, fmt.Sprintf("round %d virtual=%v: scan process died: %s", round, virtual, crashed))
			}
			after := snapTree(base)
			res.Runs++
			d := diffTree(before, after)
			if crashed != "" {
				// a process that died cannot remove its temporary files: leftovers in TMPDIR are recorded
				// with the crash (C02's subject), changes to the tree / cwd still count
				var keep []string
				for _, ch := range d {
					if strings.Contains(ch, ": tmp/") {
						res.CrashLeftovers++
					} else {
						keep = append(keep, ch)
					}
				}
				d = keep
			}
			d = attributeKnown(d, virtual, &res)
			if len(d) > 0 {
				res.Bad = append(res.Bad, map[string]any{"half": "scan", "round": round, "virtual_root": virtual, "seed": seed, "changes": d})
			}
			must(os.RemoveAll(base))
		}
	}
	runMatrix(sandbox, repo, rounds > 2, &res)
	b, _ := json.MarshalIndent(res, "", " ")
	must(os.WriteFile(outPath, b, 0o644))
	fmt.Printf("scan runs=%d files=%d extractors=%d bad=%d\n", res.Runs, res.Files, res.Extractors, len(res.Bad))
}

// ------------------------------------------------------------------ known scan-half findings
const (
	kDotnetpe = "scan-dotnetpe-temp-cleanup"
	kRpmWal   = "scan-rpm-sqlite-wal-created"
)

// attributeKnown removes the changes that are explained by a recorded finding and counts them.
func attributeKnown(d []string, virtual bool, res *scanResult) []string {
	var rest []string
	rpmDirs := []string{"tree/var/lib/rpm", "tree/usr/lib/sysimage/rpm", "tree/usr/share/rpm"}
	for _, ch := range d {
		known := false
		if virtual {
			// scan-dotnetpe-temp-cleanup is fixed (25e1f89e): a temp copy left behind or a deleted ./file
			// in the working directory is a violation again
			known = false
		} else {
			// scan-rpm-sqlite-wal-created: rpmdb.sqlite is opened read-write; -wal/-shm appear next to it
			for _, rd := range rpmDirs {
				known = known || strings.HasPrefix(ch, "modified: "+rd+" (") ||
					(strings.HasPrefix(ch, "created: "+rd+"/") && (strings.HasSuffix(ch, "-wal") || strings.HasSuffix(ch, "-shm")))
			}
		}
		if known {
			res.KnownHits++
		} else {
			rest = append(rest, ch)
		}
	}
	return rest
}

// ------------------------------------------------------------------ DB / GetRealPath matrix
type matrixRun struct {
	Path    string   `json:"path"`
	Variant string   `json:"variant"`
	Virtual bool     `json:"virtual_root"`
	Changes []string `json:"changes,omitempty"`
	Crashed string   `json:"crashed,omitempty"`
}

func syntheticSqlite(path string, wal bool) {
	db, err := sql.Open("sqlite3", path)
	must(err)
	if wal {
		_, err = db.Exec("PRAGMA journal_mode=WAL")
		must(err)
	}
	_, err = db.Exec("CREATE TABLE Packages (hnum INTEGER PRIMARY KEY AUTOINCREMENT, blob BLOB NOT NULL)")
	must(err)
	_, err = db.Exec("INSERT INTO Packages(blob) VALUES (?)", append([]byte{0x8e, 0xad, 0xe8, 0x01}, make([]byte, 60)...))
	must(err)
	must(db.Close())
}

type fixture struct {
	path, variant string
	write         func(full string) bool // false: no such fixture available
}

func fileFixture(path, variant string, content func() []byte) fixture {
	return fixture{path, variant, func(full string) bool {
		c := content()
		if c == nil {
			return false
		}
		must(os.WriteFile(full, c, 0o644))
		return true
	}}
}

func runMatrix(sandbox, repo string, full bool, res *scanResult) {
	read := func(rel string) func() []byte {
		return func() []byte {
			b, err := os.ReadFile(filepath.Join(repo, rel))
			if err != nil || len(b) == 0 {
				return nil // missing or emptied in this sandbox
			}
			return b
		}
	}
	mut := func(src func() []byte, kind string) func() []byte {
		return func() []byte {
			b := src()
			if b == nil {
				return nil
			}
			r := rand.New(rand.NewSource(int64(len(b))))
			switch kind {
			case "truncated":
				return b[:len(b)/2]
			case "corrupt":
				c := append([]byte(nil), b...)
				for k := 0; k < 1+len(c)/50; k++ {
					c[2+r.Intn(len(c)-2)] = byte(r.Intn(256)) // keep the first two bytes (magic "MZ")
				}
				return c
			}
			return b
		}
	}
	empty := func() []byte { return []byte{} }
	random := func() []byte { b := make([]byte, 8192); rand.New(rand.NewSource(7)).Read(b); return b }
	sq := func(wal bool) func(string) bool { return func(full string) bool { syntheticSqlite(full, wal); return true } }
	sqMut := func(kind string) func(string) bool {
		return func(full string) bool {
			syntheticSqlite(full, false)
			b, _ := os.ReadFile(full)
			must(os.WriteFile(full, mut(func() []byte { return b }, kind)(), 0o644))
			return true
		}
	}
	const rpmT = "extractor/filesystem/os/rpm/testdata/"
	const ctdT = "extractor/filesystem/containers/containerd/testdata/"
	const peT = "extractor/filesystem/language/dotnet/dotnetpe/testdata/"
	emptyFix := func(p string) fixture { return fixture{p, "empty", func(full string) bool { must(os.WriteFile(full, nil, 0o644)); return true }} }
	_ = empty
	var fx []fixture
	for _, p := range []string{"var/lib/rpm/rpmdb.sqlite", "usr/lib/sysimage/rpm/rpmdb.sqlite"} {
		fx = append(fx, fileFixture(p, "valid-testdata", read(rpmT+"rpmdb.sqlite")), fixture{p, "synthetic-sqlite", sq(false)},
			fixture{p, "synthetic-sqlite-wal", sq(true)}, emptyFix(p), fixture{p, "truncated", sqMut("truncated")}, fixture{p, "corrupt", sqMut("corrupt")})
	}
	fx = append(fx, fileFixture("var/lib/rpm/Packages", "valid-testdata", read(rpmT+"Packages")),
		fileFixture("var/lib/rpm/Packages", "valid-testdata-epoch", read(rpmT+"Packages_epoch")), emptyFix("var/lib/rpm/Packages"),
		fileFixture("var/lib/rpm/Packages", "truncated", mut(read(rpmT+"Packages_epoch"), "truncated")),
		fileFixture("var/lib/rpm/Packages", "corrupt", mut(read(rpmT+"Packages_epoch"), "corrupt")),
		fileFixture("var/lib/rpm/Packages.db", "valid-testdata", read(rpmT+"Packages.db")), emptyFix("var/lib/rpm/Packages.db"),
		fileFixture("var/lib/rpm/Packages.db", "random-bytes", random))
	ctd := "var/lib/containerd/io.containerd.metadata.v1.bolt/meta.db"
	fx = append(fx, fileFixture(ctd, "valid-testdata", read(ctdT+"meta_linux_test_single.db")),
		fileFixture(ctd, "valid-testdata-long-lived", read(ctdT+"meta_linux_test_long_lived.db")), emptyFix(ctd),
		fileFixture(ctd, "truncated", mut(read(ctdT+"meta_linux_test_single.db"), "truncated")),
		fileFixture(ctd, "corrupt", mut(read(ctdT+"meta_linux_test_single.db"), "corrupt")))
	snap := "var/lib/containerd/io.containerd.snapshotter.v1.overlayfs/metadata.db"
	fx = append(fx, fileFixture(snap, "valid-testdata", read(ctdT+"metadata_linux_test.db")), emptyFix(snap))
	for _, p := range []string{"app/HelloWorldApp.dll", "app/HelloWorldApp.exe"} {
		src := read(peT + filepath.Base(p))
		fx = append(fx, fileFixture(p, "valid-testdata", src), emptyFix(p), fileFixture(p, "truncated", mut(src, "truncated")),
			fileFixture(p, "corrupt", mut(src, "corrupt")))
	}
	fx = append(fx, fileFixture("app/Invalid.dll", "invalid-testdata", read(peT+"Invalid.dll")))

	res.Known = map[string]any{}
	still := map[string][]string{}
	n := 0
	for _, f := range fx {
		if !full && !(strings.HasPrefix(f.variant, "valid") || strings.HasPrefix(f.variant, "synthetic") || f.variant == "empty") {
			continue
		}
		for _, virtual := range []bool{false, true} {
			base := filepath.Join(sandbox, fmt.Sprintf("m%03d-%v", n, virtual))
			tree, cwd, tmp := filepath.Join(base, "tree"), filepath.Join(base, "cwd"), filepath.Join(base, "tmp")
			fullp := filepath.Join(tree, f.path)
			must(os.MkdirAll(filepath.Dir(fullp), 0o755))
			if !f.write(fullp) {
				if !virtual {
					res.NotExercised = append(res.NotExercised, f.path+" ["+f.variant+"]")
				}
				must(os.RemoveAll(base))
				continue
			}
			if strings.HasSuffix(f.path, "meta.db") && strings.HasPrefix(f.variant, "valid") {
				// the extractor also opens the snapshotter database next to it
				sp := filepath.Join(tree, snap)
				must(os.MkdirAll(filepath.Dir(sp), 0o755))
				if b := read(ctdT + "metadata_linux_test.db")(); b != nil {
					must(os.WriteFile(sp, b, 0o644))
				}
			}
			must(os.MkdirAll(filepath.Join(tree, "etc"), 0o755))
			must(os.WriteFile(filepath.Join(tree, "etc", "os-release"), []byte("NAME=Fedora\nID=fedora\nVERSION_ID=40\n"), 0o644))
			must(os.MkdirAll(filepath.Join(cwd, "file"), 0o755))
			must(os.WriteFile(filepath.Join(cwd, "file", "keep"), []byte("k"), 0o644))
			must(os.MkdirAll(tmp, 0o755))
			before := snapTree(base)
			crashed := runScanChild(tree, cwd, tmp, virtual)
			after := snapTree(base)
			d := diffTree(before, after)
			run := matrixRun{Path: f.path, Variant: f.variant, Virtual: virtual, Crashed: crashed}
			if crashed != "" {
				res.Panics = append(res.Panics, fmt.Sprintf("matrix %s [%s] virtual=%v: scan process died: %s", f.path, f.variant, virtual, crashed))
				var keep []string
				for _, ch := range d {
					if strings.Contains(ch, ": tmp/") {
						res.CrashLeftovers++
					} else {
						keep = append(keep, ch)
					}
				}
				d = keep
			}
			run.Changes = d
			res.Matrix = append(res.Matrix, run)
			res.Runs++
			// witnesses of the recorded findings are the matrix entries themselves
			if virtual && f.variant == "valid-testdata" && strings.HasSuffix(f.path, "HelloWorldApp.dll") {
				still[kDotnetpe] = d
			}
			if !virtual && f.variant == "synthetic-sqlite-wal" && f.path == "var/lib/rpm/rpmdb.sqlite" {
				still[kRpmWal] = d
			}
			if !virtual && f.variant == "empty" && f.path == ctd {
				still["scan-containerd-empty-metadb-initialised"] = d
			}
			if rest := attributeKnown(d, virtual, res); len(rest) > 0 {
				res.Bad = append(res.Bad, map[string]any{"half": "scan", "matrix": run, "changes": rest})
			}
			must(os.RemoveAll(base))
		}
		n++
	}
	for id, d := range still {
		hit := false
		for _, ch := range d {
			switch id {
			case kDotnetpe:
				hit = hit || strings.HasPrefix(ch, "created: tmp/scalibr-tmp") || strings.HasPrefix(ch, "removed: cwd/file")
			case kRpmWal:
				hit = hit || strings.HasSuffix(ch, ".sqlite-wal") || strings.HasSuffix(ch, ".sqlite-shm") || strings.HasPrefix(ch, "modified: tree/var/lib/rpm (")
			default:
				hit = hit || strings.HasPrefix(ch, "modified: tree/")
			}
		}
		res.Known[id] = map[string]any{"still_fails": hit, "changes": d}
	}
	for _, id := range []string{kDotnetpe, kRpmWal, "scan-containerd-empty-metadb-initialised"} {
		if _, ok := res.Known[id]; !ok {
			res.Known[id] = map[string]any{"still_fails": false, "changes": []string{"witness fixture unavailable"}, "unavailable": true}
		}
	}
}

package main

// C10, image half: images whose regular files have sizes around Config.MaxFileBytes are loaded
// with image.FromV1Image; for every entry the harness records the size of the file found under
// ExtractDir and what the chain-layer views expose (Stat + Open/Read).

import (
	"encoding/json"
	"fmt"
	"io"
	"math/rand"
	"os"
	"path/filepath"
	"strings"

	scimage "github.com/google/osv-scalibr/artifact/image/layerscanning/image"

	cf "verifharness/internal/coqfmt"
)

type FCase struct {
	Stream  string `json:"stream"`
	Max     int64  `json:"max"`
	Layer   int    `json:"layer"`
	View    int    `json:"view"`
	Name    string `json:"name"`
	Size    int64  `json:"size"`
	Disk    int64  `json:"disk"`
	Visible bool   `json:"visible"`
	VSize   int64  `json:"vsize"`
	Corr    bool   `json:"corr"`
	Image   int    `json:"image"`
}

func coqFCase(c FCase) string {
	return fmt.Sprintf("{| fc_max := %s; fc_size := %s; fc_disk := %s; fc_visible := %s; fc_vsize := %s; fc_corr := %s |}",
		cf.Z(c.Max), cf.Z(c.Size), cf.Z(c.Disk), cf.Bool(c.Visible), cf.Z(c.VSize), cf.Bool(c.Corr))
}

func limitMain(sandbox, outV, outJ string, seed int64, nImages int) {
	r := rand.New(rand.NewSource(seed))
	var items []string
	jf, err := os.Create(outJ)
	must(err)
	enc := json.NewEncoder(jf)
	total := 0
	for im := 0; im < nImages; im++ {
		max := []int64{1, 2, 3, 8, 64, 1000, 4096}[r.Intn(7)]
		stream := "limit-unique"
		if r.Intn(4) == 0 {
			stream = "limit-repeat"
		}
		nl := 1 + r.Intn(3)
		layers := make([][]Entry, nl)
		for k := 0; k < nl; k++ {
			n := 1 + r.Intn(5)
			seen := map[string]bool{}
			for j := 0; j < n; j++ {
				sz := []int64{0, 1, max - 1, max, max + 1, 2 * max, 3*max + 1, max / 2}[r.Intn(8)]
				if sz < 0 {
					sz = 0
				}
				var nm string
				if stream == "limit-unique" {
					nm = fmt.Sprintf("d%d/f%d_%d", r.Intn(3), k, j)
				} else {
					nm = fmt.Sprintf("d%d/g%d", r.Intn(2), r.Intn(4))
				}
				if seen[nm] {
					continue
				}
				seen[nm] = true
				if r.Intn(5) == 0 {
					nm = "./" + nm
				}
				layers[k] = append(layers[k], Entry{Name: nm, Type: "reg", Size: int(sz)})
			}
		}
		c := &Case{Stream: stream, Op: "image-v1", Layers: layers, MaxBytes: max}
		sb := newSandbox(sandbox, im, c)
		must(os.Setenv("TMPDIR", sb.tmp))
		img, err := buildImage(layers)
		must(err)
		cfg := scimage.DefaultConfig()
		cfg.MaxFileBytes = max
		loaded, err := scimage.FromV1Image(img, cfg)
		if err != nil {
			panic(fmt.Sprintf("limit image %d failed to load: %v", im, err))
		}
		cls, err := loaded.ChainLayers()
		must(err)
		for k, es := range layers {
			for _, e := range es {
				clean := strings.TrimPrefix(e.Name, "./")
				fc := FCase{Stream: stream, Max: max, Layer: k, View: k, Name: clean, Size: int64(e.Size), Disk: -1, VSize: -1,
					Corr: stream == "limit-unique", Image: im}
				if fi, err := os.Lstat(filepath.Join(loaded.ExtractDir, fmt.Sprintf("layer-%d", k), clean)); err == nil {
					fc.Disk = fi.Size()
				}
				for v := k; v < len(cls); v++ {
					vc := fc
					vc.View = v
					if v > k {
						vc.Corr = false
						vc.Disk = 0
					}
					fsys := cls[v].FS()
					if fi, err := fsys.Stat(clean); err == nil {
						vc.Visible = true
						vc.VSize = fi.Size()
						if f, err := fsys.Open(clean); err == nil {
							b, rerr := io.ReadAll(f)
							f.Close()
							if rerr != nil || int64(len(b)) != fi.Size() {
								// the view hands out a different number of bytes than it reports: report the larger
								if int64(len(b)) > vc.VSize {
									vc.VSize = int64(len(b))
								}
							}
						}
					}
					items = append(items, coqFCase(vc))
					must(enc.Encode(vc))
					total++
				}
			}
		}
		must(loaded.CleanUp())
		must(os.RemoveAll(sb.root))
	}
	jf.Close()
	var sbd strings.Builder
	sbd.WriteString("From Coq Require Import List ZArith NArith Bool.\nFrom Scalibr Require Import Contain.Limit.\nImport ListNotations.\nOpen Scope Z_scope.\n(*END-HEADER*)\n")
	sbd.WriteString(cf.Chunked("fcases", "fcase", items, 500))
	sbd.WriteString("Definition corr_bad := Eval vm_compute in bad_idx fcase_model_ok fcases 0.\nPrint corr_bad.\n")
	sbd.WriteString("Definition spec_bad := Eval vm_compute in bad_idx fcase_spec_ok fcases 0.\nPrint spec_bad.\n")
	must(os.WriteFile(outV, []byte(sbd.String()), 0o644))
	fmt.Printf("limit images=%d observations=%d\n", nImages, total)
}

package main

import (
	"context"
	"errors"
	"fmt"
	"os"
	"path/filepath"
	"regexp"
	"sort"
	"strings"

	"github.com/go-git/go-git/v5/plumbing/format/gitignore"
	"github.com/gobwas/glob"
	scalibr "github.com/google/osv-scalibr"
	"github.com/google/osv-scalibr/detector"
	"github.com/google/osv-scalibr/extractor"
	"github.com/google/osv-scalibr/extractor/filesystem"
	scalibrfs "github.com/google/osv-scalibr/fs"
	"github.com/google/osv-scalibr/inventory"
	"github.com/google/osv-scalibr/packageindex"
	"github.com/google/osv-scalibr/plugin"
	"github.com/google/osv-scalibr/purl"
	"github.com/google/osv-scalibr/stats"

	cf "verifharness/internal/coqfmt"
)

// ---------------------------------------------------------------- case

type Pkg struct {
	Name    string   `json:"name"`
	Version string   `json:"version"`
	Locs    []string `json:"locs"`
}

type XEntry struct {
	Ext   string `json:"ext"`
	Path  string `json:"path"`
	Pkgs  []Pkg  `json:"pkgs,omitempty"`
	Err   bool   `json:"err,omitempty"`
	Panic bool   `json:"panic,omitempty"`
	// SharedLocs: all packages of this entry share ONE Locations slice object (as lockfile extractors do)
	SharedLocs bool `json:"shared_locs,omitempty"`
}

// StatReq: the extractor's FileRequired additionally consults api.Stat(): required only if Stat succeeds and
// the size is at least Min.
type StatReq struct {
	Ext string `json:"ext"`
	Min int64  `json:"min"`
}

type Finding struct {
	Pub   string `json:"pub"`
	Ref   string `json:"ref"`
	Extra string `json:"extra"`
}

// Det is a fake detector: its name and the findings its Scan returns.
type Det struct {
	Name     string    `json:"name"`
	Findings []Finding `json:"findings"`
}

type Cancel struct {
	Kind string `json:"kind"` // "" | visit | extract
	N    int    `json:"n"`
}

type StatusObs struct {
	Ext   string      `json:"ext"`
	Enum  string      `json:"enum"` // succeeded | partial | failed
	Items [][2]string `json:"items,omitempty"`
}

type TPkg struct {
	Ext string `json:"ext"`
	Pkg
}

type ScanObs struct {
	Ran      bool        `json:"ran"`
	Panic    bool        `json:"panic,omitempty"`
	Failed   bool        `json:"failed,omitempty"`
	Inv      []TPkg      `json:"inv,omitempty"`
	Status   []StatusObs `json:"status,omitempty"`
	Findings []Finding   `json:"findings,omitempty"`
}

type Obs struct {
	Class  string      `json:"class"`  // ok | err:<abort> | panic
	Events [][3]string `json:"events"` // kind (V|R|X), ext, path
	Inv    []TPkg      `json:"inv,omitempty"`
	Status []StatusObs `json:"status,omitempty"`
	Scan   ScanObs     `json:"scan"`
	Detail string      `json:"detail,omitempty"`
	// number of injected faults the run actually triggered (evidence only)
	FaultsHit int `json:"faults_hit,omitempty"`
}

type Case struct {
	Stream    string      `json:"stream"`
	Group     int         `json:"group,omitempty"` // cases of one group are variants of the same content (C08)
	Variant   string      `json:"variant,omitempty"`
	Roots     []*Node     `json:"roots"`
	Exts      []string    `json:"exts"`
	Req       [][2]string `json:"req"` // (ext, path) pairs FileRequired answers true for
	StatReq   []StatReq   `json:"stat_req,omitempty"`
	Dets      []Det       `json:"detectors,omitempty"`
	Extract   []XEntry    `json:"extract"`
	PatFiles  [][]string  `json:"pat_files,omitempty"`
	SkipList  []string    `json:"skip_list,omitempty"`
	Regex     *string     `json:"regex,omitempty"`
	Glob      *string     `json:"glob,omitempty"`
	Gitignore bool        `json:"gitignore,omitempty"`
	IgnoreSub bool        `json:"ignore_subdirs,omitempty"`
	Paths     []string    `json:"paths,omitempty"`
	Symlinks  bool        `json:"symlinks,omitempty"`
	MaxInodes int         `json:"max_inodes,omitempty"`
	MaxSize   int         `json:"max_size,omitempty"`
	Fatal     bool        `json:"fatal,omitempty"`
	Cancel    Cancel      `json:"cancel"`
	// OnDisk: the (single, fault-free, regular-files-only) root is materialised in a temporary directory and scanned
	// through scalibrfs.DirFS with a real ScanRoot.Path; DirsToSkip / PathsToExtract are given as absolute paths.
	OnDisk bool `json:"on_disk,omitempty"`
	// StoreAbs: Config.StoreAbsolutePath with the (in-memory) scan root carrying the path /vroot
	StoreAbs bool   `json:"store_abs,omitempty"`
	Note     string `json:"note,omitempty"`
	Obs      Obs    `json:"obs"`
}

// ---------------------------------------------------------------- recorder, fakes

type recorder struct {
	events     [][3]string
	nvisit     int
	nextract   int
	cancel     Cancel
	cancelFunc context.CancelFunc
}

type collector struct {
	stats.NoopCollector
	rec *recorder
}

func (c collector) AfterInodeVisited(path string) {
	c.rec.events = append(c.rec.events, [3]string{"V", "", path})
	c.rec.nvisit++
	if c.rec.cancel.Kind == "visit" && c.rec.nvisit == c.rec.cancel.N {
		c.rec.cancelFunc()
	}
}

type fakeExt struct {
	name string
	rec  *recorder
	req  map[string]bool
	xt   map[string]*XEntry
	min  *int64 // FileRequired also wants api.Stat().Size() >= *min
}

func (e *fakeExt) Name() string                               { return e.name }
func (e *fakeExt) Version() int                               { return 1 }
func (e *fakeExt) Requirements() *plugin.Capabilities         { return &plugin.Capabilities{} }
func (e *fakeExt) ToPURL(*extractor.Package) *purl.PackageURL { return nil }
func (e *fakeExt) Ecosystem(*extractor.Package) string        { return "" }
func (e *fakeExt) FileRequired(api filesystem.FileAPI) bool {
	e.rec.events = append(e.rec.events, [3]string{"R", e.name, api.Path()})
	if !e.req[api.Path()] {
		return false
	}
	if e.min != nil {
		info, err := api.Stat()
		if err != nil {
			return false
		}
		return info.Size() >= *e.min
	}
	return true
}

var errExtract = errors.New("xerr")

func (e *fakeExt) Extract(_ context.Context, in *filesystem.ScanInput) (inventory.Inventory, error) {
	e.rec.events = append(e.rec.events, [3]string{"X", e.name, in.Path})
	e.rec.nextract++
	if e.rec.cancel.Kind == "extract" && e.rec.nextract == e.rec.cancel.N {
		e.rec.cancelFunc()
	}
	x := e.xt[in.Path]
	if x == nil {
		return inventory.Inventory{}, nil
	}
	if x.Panic {
		var m map[string]int
		m["boom"] = 1 // a parser bug
	}
	inv := inventory.Inventory{}
	var shared []string
	if x.SharedLocs && len(x.Pkgs) > 0 {
		shared = append([]string(nil), x.Pkgs[0].Locs...)
	}
	for _, p := range x.Pkgs {
		locs := append([]string(nil), p.Locs...)
		if x.SharedLocs {
			locs = shared
		}
		inv.Packages = append(inv.Packages, &extractor.Package{Name: p.Name, Version: p.Version, Locations: locs})
	}
	if x.Err {
		return inv, errExtract
	}
	return inv, nil
}

// ---------------------------------------------------------------- running the implementation

const vroot = "/vroot"

type setup struct {
	virtual bool   // tmp is not a real directory
	tmp     string // on-disk cases: the directory the root was materialised in
	hits    int
	rec     *recorder
	ctx     context.Context
	exts    []filesystem.Extractor
	roots   []*scalibrfs.ScanRoot
	re      *regexp.Regexp
	gl      glob.Glob
}

func (c *Case) setup() *setup {
	s := &setup{rec: &recorder{cancel: c.Cancel}}
	ctx, cancel := context.WithCancel(context.Background())
	s.ctx = ctx
	s.rec.cancelFunc = cancel
	if c.Cancel.Kind == "visit" && c.Cancel.N == 0 {
		cancel()
	}
	for _, name := range c.Exts {
		fe := &fakeExt{name: name, rec: s.rec, req: map[string]bool{}, xt: map[string]*XEntry{}}
		for _, r := range c.Req {
			if r[0] == name {
				fe.req[r[1]] = true
			}
		}
		for i := range c.Extract {
			if c.Extract[i].Ext == name {
				if _, dup := fe.xt[c.Extract[i].Path]; !dup {
					fe.xt[c.Extract[i].Path] = &c.Extract[i]
				}
			}
		}
		for i := range c.StatReq {
			if c.StatReq[i].Ext == name {
				m := c.StatReq[i].Min
				fe.min = &m
				break
			}
		}
		s.exts = append(s.exts, fe)
	}
	if c.OnDisk {
		tmp, err := os.MkdirTemp("", "walk-ondisk-")
		if err != nil {
			panic(err)
		}
		s.tmp = tmp
		materialise(tmp, c.Roots[0], c.PatFiles)
		reorderAsListed(tmp, c.Roots[0])
		s.roots = append(s.roots, &scalibrfs.ScanRoot{FS: scalibrfs.DirFS(tmp), Path: tmp})
	} else {
		rootPath := ""
		if c.StoreAbs && len(c.Roots) == 1 {
			rootPath = vroot
			s.tmp = vroot
			s.virtual = true
		}
		for _, r := range c.Roots {
			s.roots = append(s.roots, &scalibrfs.ScanRoot{FS: &memFS{root: r, patFiles: c.PatFiles, hits: &s.hits}, Path: rootPath})
		}
	}
	if c.Regex != nil {
		s.re = regexp.MustCompile(*c.Regex)
	}
	if c.Glob != nil {
		s.gl = glob.MustCompile(*c.Glob)
	}
	return s
}

// abs turns scan-root relative option paths into the absolute ones a real scan root expects.
func (s *setup) abs(ps []string) []string {
	if s.tmp == "" {
		return ps
	}
	var out []string
	for _, p := range ps {
		if p == "." {
			out = append(out, s.tmp)
		} else {
			out = append(out, filepath.Join(s.tmp, filepath.FromSlash(p)))
		}
	}
	return out
}

func (s *setup) cleanup() {
	if s.tmp != "" && !s.virtual {
		os.RemoveAll(s.tmp)
	}
}

func materialise(dir string, n *Node, pats [][]string) {
	for _, c := range n.Children {
		p := filepath.Join(dir, c.Name)
		if c.isDir() {
			if err := os.Mkdir(p, 0o755); err != nil {
				panic(err)
			}
			materialise(p, c, pats)
			continue
		}
		data := make([]byte, c.Size)
		if c.Name == ".gitignore" && c.Data >= 1 && c.Data <= len(pats) {
			data = []byte(strings.Join(pats[c.Data-1], "\n") + "\n")
			c.Size = int64(len(data))
		}
		if err := os.WriteFile(p, data, 0o644); err != nil {
			panic(err)
		}
	}
}

// reorderAsListed puts the children of every directory in the order the real directory lists them.
func reorderAsListed(dir string, n *Node) {
	f, err := os.Open(dir)
	if err != nil {
		panic(err)
	}
	ents, err := f.ReadDir(-1)
	f.Close()
	if err != nil {
		panic(err)
	}
	pos := map[string]int{}
	for i, e := range ents {
		pos[e.Name()] = i
	}
	sort.SliceStable(n.Children, func(i, j int) bool { return pos[n.Children[i].Name] < pos[n.Children[j].Name] })
	for _, c := range n.Children {
		if c.isDir() {
			reorderAsListed(filepath.Join(dir, c.Name), c)
		}
	}
}

func classify(err error) string {
	if err == nil {
		return "ok"
	}
	msg := err.Error()
	switch {
	case strings.HasPrefix(msg, "maxInodes"):
		return "err:inodes"
	case errors.Is(err, context.Canceled):
		return "err:ctx"
	case strings.HasPrefix(msg, "handleFile("), strings.HasPrefix(msg, "walkIndividualPaths("):
		return "err:fs"
	case strings.HasPrefix(msg, "failed to get file size"):
		return "err:size"
	default:
		return "err:gi"
	}
}

func statusObs(sts []*plugin.Status) []StatusObs {
	var out []StatusObs
	for _, st := range sts {
		o := StatusObs{Ext: st.Name}
		switch st.Status.Status {
		case plugin.ScanStatusSucceeded:
			o.Enum = "succeeded"
		case plugin.ScanStatusPartiallySucceeded:
			o.Enum = "partial"
		case plugin.ScanStatusFailed:
			o.Enum = "failed"
		default:
			o.Enum = "unspecified"
		}
		if st.Status.FailureReason != "" {
			for _, line := range strings.Split(st.Status.FailureReason, "\n") {
				switch {
				case strings.HasPrefix(line, "Open(") && strings.Contains(line, "): "):
					o.Items = append(o.Items, [2]string{"open", line[len("Open("):strings.Index(line, "): ")]})
				case strings.HasPrefix(line, "stat(") && strings.Contains(line, "): "):
					o.Items = append(o.Items, [2]string{"fstat", line[len("stat("):strings.Index(line, "): ")]})
				case strings.HasSuffix(line, ": xerr"):
					o.Items = append(o.Items, [2]string{"extract", strings.TrimSuffix(line, ": xerr")})
				default:
					o.Items = append(o.Items, [2]string{"unparsed", line})
				}
			}
		}
		out = append(out, o)
	}
	return out
}

func invObs(pkgs []*extractor.Package) []TPkg {
	var out []TPkg
	for _, p := range pkgs {
		name := "<nil>"
		if p.Extractor != nil {
			name = p.Extractor.Name()
		}
		out = append(out, TPkg{Ext: name, Pkg: Pkg{Name: p.Name, Version: p.Version, Locs: append([]string{}, p.Locations...)}})
	}
	return out
}

// runCase runs filesystem.Run and scalibr.Scan on the case and fills c.Obs.
func runCase(c *Case, withScan bool) {
	c.Obs = Obs{}
	s := c.setup()
	defer s.cleanup()
	func() {
		defer func() {
			if r := recover(); r != nil {
				c.Obs.Class = "panic"
				c.Obs.Detail = fmt.Sprint(r)
			}
		}()
		inv, sts, err := filesystem.Run(s.ctx, &filesystem.Config{
			Extractors: s.exts, ScanRoots: s.roots, PathsToExtract: s.abs(c.Paths), IgnoreSubDirs: c.IgnoreSub,
			DirsToSkip: s.abs(c.SkipList), SkipDirRegex: s.re, SkipDirGlob: s.gl, UseGitignore: c.Gitignore,
			Stats: collector{rec: s.rec}, ReadSymlinks: c.Symlinks, MaxInodes: c.MaxInodes, MaxFileSize: c.MaxSize,
			ErrorOnFSErrors: c.Fatal, StoreAbsolutePath: c.StoreAbs,
		})
		c.Obs.Class = classify(err)
		if err != nil {
			c.Obs.Detail = err.Error()
		}
		c.Obs.Inv = invObs(inv.Packages)
		c.Obs.Status = statusObs(sts)
	}()
	c.Obs.FaultsHit = s.hits
	c.Obs.Events = s.rec.events
	if c.Obs.Events == nil {
		c.Obs.Events = [][3]string{}
	}
	if !withScan {
		return
	}
	s2 := c.setup()
	defer s2.cleanup()
	c.Obs.Scan = ScanObs{Ran: true}
	func() {
		defer func() {
			if r := recover(); r != nil {
				c.Obs.Scan.Panic = true
			}
		}()
		res := scalibr.New().Scan(s2.ctx, &scalibr.ScanConfig{
			FilesystemExtractors: s2.exts, Detectors: c.detectors(), Capabilities: &plugin.Capabilities{}, ScanRoots: s2.roots,
			PathsToExtract: s2.abs(c.Paths), IgnoreSubDirs: c.IgnoreSub, DirsToSkip: s2.abs(c.SkipList), SkipDirRegex: s2.re,
			SkipDirGlob: s2.gl, MaxFileSize: c.MaxSize, UseGitignore: c.Gitignore, Stats: collector{rec: s2.rec},
			ReadSymlinks: c.Symlinks, MaxInodes: c.MaxInodes, ErrorOnFSErrors: c.Fatal, StoreAbsolutePath: c.StoreAbs,
		})
		c.Obs.Scan.Failed = res.Status.Status != plugin.ScanStatusSucceeded
		c.Obs.Scan.Inv = invObs(res.Inventory.Packages)
		c.Obs.Scan.Status = statusObs(res.PluginStatus)
		for _, f := range res.Inventory.Findings {
			c.Obs.Scan.Findings = append(c.Obs.Scan.Findings, Finding{Pub: f.Adv.ID.Publisher, Ref: f.Adv.ID.Reference, Extra: f.Extra})
		}
	}()
}

// ---------------------------------------------------------------- Coq printing

var namePool = []string{"a", "b", "c", "d.txt", "e f", "-g", ".h", "pkg.json", "x.lock", "lib", "src", "node_modules", "z", "ab", "lib64", "srcs", "..data", "...", ".x"}
var nameIDs = map[string]uint64{".": 0, ".gitignore": 1}

func init() {
	for i, n := range namePool {
		nameIDs[n] = uint64(i + 2)
	}
}

func nameID(n string) uint64 {
	if id, ok := nameIDs[n]; ok {
		return id
	}
	id := uint64(len(nameIDs) + 100)
	nameIDs[n] = id
	return id
}

func ids(v []uint64) string {
	if len(v) == 0 {
		return "(@nil N)"
	}
	items := make([]string, len(v))
	for i, x := range v {
		items[i] = fmt.Sprint(x)
	}
	return "[" + strings.Join(items, ";") + "]%N"
}

func coqPath(p string) string {
	var v []uint64
	for _, s := range strings.Split(p, "/") {
		v = append(v, nameID(s))
	}
	return ids(v)
}

func coqPaths(ps []string) string {
	items := make([]string, len(ps))
	for i, p := range ps {
		items[i] = coqPath(p)
	}
	return cf.List(items)
}

func coqNode(n *Node) string {
	if n.isDir() {
		items := make([]string, len(n.Children))
		for i, c := range n.Children {
			items[i] = coqNode(c)
		}
		if !n.faulty() {
			return fmt.Sprintf("(Dc %d %s)", nameID(n.Name), cf.List(items))
		}
		ra := "None"
		if n.ReadAt != nil {
			ra = fmt.Sprintf("(Some %d%%nat)", *n.ReadAt)
		}
		return fmt.Sprintf("(Df %d %s %s %s %s)", nameID(n.Name), cf.List(items), cf.Bool(n.FOpen), ra, cf.Bool(n.FStat))
	}
	kind := map[string]string{"reg": "Reg", "sym": "Sym", "symdir": "Sym"}[n.Kind]
	if n.Kind == "special" {
		b := n.Bits
		if b == 0 {
			b = 8
		}
		kind = fmt.Sprintf("(Special %d)", b)
	}
	if !n.faulty() {
		return fmt.Sprintf("(Fc %d %s %s %d)", nameID(n.Name), kind, cf.Z(n.Size), n.Data)
	}
	return fmt.Sprintf("(Ff %d %s %s %d %s %s %s)", nameID(n.Name), kind, cf.Z(n.Size), n.Data, cf.Bool(n.FOpen), cf.Bool(n.FFstat), cf.Bool(n.FStat))
}

func coqPkg(p Pkg) string {
	locs := make([]string, len(p.Locs))
	for i, l := range p.Locs {
		locs[i] = cf.Str(l)
	}
	return fmt.Sprintf("(Pk %s %s %s)", cf.Str(p.Name), cf.Str(p.Version), cf.List(locs))
}

func coqTPkgs(l []TPkg) string {
	items := make([]string, len(l))
	for i, p := range l {
		items[i] = fmt.Sprintf("(%s, %s)", cf.Str(p.Ext), coqPkg(p.Pkg))
	}
	return cf.List(items)
}

func coqStatuses(l []StatusObs) string {
	items := make([]string, len(l))
	for i, s := range l {
		var its []string
		for _, it := range s.Items {
			k := map[string]string{"open": "EkOpen", "fstat": "EkFstat", "extract": "EkExtract"}[it[0]]
			if k == "" {
				k = "EkOpen"
				its = append(its, fmt.Sprintf("(%s, %s)", k, ids([]uint64{999999}))) // unparsed line: never equal to a model item
				continue
			}
			its = append(its, fmt.Sprintf("(%s, %s)", k, coqPath(it[1])))
		}
		st := "StSucceeded"
		switch s.Enum {
		case "partial":
			st = "(StPartial " + cf.List(its) + ")"
		case "failed":
			st = "(StFailed " + cf.List(its) + ")"
		case "unspecified":
			st = "(StFailed [(EkOpen, " + ids([]uint64{999998}) + ")])"
		}
		items[i] = fmt.Sprintf("(%s, %s)", cf.Str(s.Ext), st)
	}
	return cf.List(items)
}

var abortCoq = map[string]string{"err:inodes": "AbInodes", "err:ctx": "AbCtx", "err:fs": "AbFs", "err:gi": "AbGi", "err:size": "AbSize"}

func coqObs(o *Obs) string {
	class := "OOk"
	if o.Class == "panic" {
		class = "OPanic"
	} else if a, ok := abortCoq[o.Class]; ok {
		class = "(OErr " + a + ")"
	}
	evs := make([]string, len(o.Events))
	for i, e := range o.Events {
		switch e[0] {
		case "V":
			evs[i] = "EVisit " + coqPath(e[2])
		case "R":
			evs[i] = fmt.Sprintf("EReq %s %s", cf.Str(e[1]), coqPath(e[2]))
		default:
			evs[i] = fmt.Sprintf("EExtract %s %s", cf.Str(e[1]), coqPath(e[2]))
		}
	}
	scan := "SNone"
	if o.Scan.Ran {
		if o.Scan.Panic {
			scan = "SPanic"
		} else {
			scan = fmt.Sprintf("(SDone %s %s %s %s)", cf.Bool(o.Scan.Failed), coqTPkgs(o.Scan.Inv), coqStatuses(o.Scan.Status), coqFindings(o.Scan.Findings))
		}
	}
	return fmt.Sprintf("{| o_class := %s; o_events := %s; o_inv := %s; o_status := %s; o_scan := %s |}",
		class, cf.List(evs), coqTPkgs(o.Inv), coqStatuses(o.Status), scan)
}

type dirent struct {
	path string
	n    *Node
}

// allNodes lists every node of a tree with its scan-root relative path ("." for the root).
func allNodes(root *Node) []dirent {
	var out []dirent
	var rec func(p string, n *Node)
	rec = func(p string, n *Node) {
		out = append(out, dirent{p, n})
		for _, c := range n.Children {
			cp := c.Name
			if p != "." {
				cp = p + "/" + c.Name
			}
			rec(cp, c)
		}
	}
	rec(".", root)
	return out
}

func relTo(dir, p string) string {
	if dir == "." {
		return p
	}
	return strings.TrimPrefix(p, dir+"/")
}

// patTable tabulates go-git's matcher for every (pattern file, relative path, isDir) the trees can ask.
func patTable(c *Case) []string {
	seen := map[string]bool{}
	var out []string
	for _, r := range c.Roots {
		nodes := allNodes(r)
		for _, d := range nodes {
			if !d.n.isDir() {
				continue
			}
			var gi *Node
			for _, ch := range d.n.Children {
				if ch.Name == ".gitignore" {
					gi = ch
					break
				}
			}
			if gi == nil || gi.isDir() || gi.Data < 1 || gi.Data > len(c.PatFiles) {
				continue
			}
			var ps []gitignore.Pattern
			for _, line := range c.PatFiles[gi.Data-1] {
				if !strings.HasPrefix(line, "#") && len(strings.TrimSpace(line)) > 0 {
					ps = append(ps, gitignore.ParsePattern(line, nil))
				}
			}
			m := gitignore.NewMatcher(ps)
			for _, x := range nodes {
				if x.path == d.path || (d.path != "." && !strings.HasPrefix(x.path, d.path+"/")) || x.path == "." {
					continue
				}
				rel := relTo(d.path, x.path)
				if m.Match(strings.Split(rel, "/"), x.n.isDir()) {
					key := fmt.Sprintf("(%d%%N, %s, %s)", gi.Data, coqPath(rel), cf.Bool(x.n.isDir()))
					if !seen[key] {
						seen[key] = true
						out = append(out, key)
					}
				}
			}
		}
	}
	sort.Strings(out)
	return out
}

// dirMatchTable lists the directory paths (of all roots, plus requested paths) a predicate matches.
func dirMatchTable(c *Case, pred func(string) bool) string {
	seen := map[string]bool{}
	var ps []string
	add := func(p string) {
		if !seen[p] && pred(p) {
			seen[p] = true
			ps = append(ps, p)
		}
	}
	for _, r := range c.Roots {
		for _, d := range allNodes(r) {
			if d.n.isDir() {
				add(d.path)
			}
		}
	}
	for _, p := range c.Paths {
		add(p)
	}
	sort.Strings(ps)
	return coqPaths(ps)
}

func coqFindings(l []Finding) string {
	items := make([]string, len(l))
	for i, f := range l {
		items[i] = fmt.Sprintf("{| f_pub := %s; f_ref := %s; f_extra := %s |}", cf.Str(f.Pub), cf.Str(f.Ref), cf.Str(f.Extra))
	}
	return cf.List(items)
}

type fakeDet struct{ d Det }

func (d fakeDet) Name() string                       { return d.d.Name }
func (d fakeDet) Version() int                       { return 1 }
func (d fakeDet) Requirements() *plugin.Capabilities { return &plugin.Capabilities{} }
func (d fakeDet) RequiredExtractors() []string       { return nil }
func (d fakeDet) Scan(context.Context, *scalibrfs.ScanRoot, *packageindex.PackageIndex) ([]*detector.Finding, error) {
	var out []*detector.Finding
	for _, f := range d.d.Findings {
		out = append(out, &detector.Finding{Adv: &detector.Advisory{ID: &detector.AdvisoryID{Publisher: f.Pub, Reference: f.Ref}}, Extra: f.Extra})
	}
	return out, nil
}

func (c *Case) detectors() []detector.Detector {
	var out []detector.Detector
	for _, d := range c.Dets {
		out = append(out, fakeDet{d})
	}
	return out
}

func coqCase(c *Case) string {
	roots := make([]string, len(c.Roots))
	for i, r := range c.Roots {
		roots[i] = coqNode(r)
	}
	exts := make([]string, len(c.Exts))
	for i, e := range c.Exts {
		exts[i] = cf.Str(e)
	}
	req := make([]string, len(c.Req))
	for i, r := range c.Req {
		req[i] = fmt.Sprintf("(%s, %s)", cf.Str(r[0]), coqPath(r[1]))
	}
	xt := make([]string, len(c.Extract))
	for i, x := range c.Extract {
		res := "XPanic"
		if !x.Panic {
			pk := make([]string, len(x.Pkgs))
			for j, p := range x.Pkgs {
				if x.SharedLocs {
					p.Locs = x.Pkgs[0].Locs
				}
				pk[j] = coqPkg(p)
			}
			res = fmt.Sprintf("XRes %s %s", cf.List(pk), cf.Bool(x.Err))
		}
		xt[i] = fmt.Sprintf("(%s, %s, %s)", cf.Str(x.Ext), coqPath(x.Path), res)
	}
	re, gl := "None", "None"
	if c.Regex != nil {
		rx := regexp.MustCompile(*c.Regex)
		re = "(Some " + dirMatchTable(c, rx.MatchString) + ")"
	}
	if c.Glob != nil {
		g := glob.MustCompile(*c.Glob)
		gl = "(Some " + dirMatchTable(c, g.Match) + ")"
	}
	abs := "None"
	if c.StoreAbs && len(c.Roots) == 1 && !c.OnDisk {
		abs = "(Some " + cf.Str(vroot) + ")"
	}
	cancel := "NoCancel"
	switch c.Cancel.Kind {
	case "visit":
		cancel = fmt.Sprintf("(CancelAtVisit %d%%nat)", c.Cancel.N)
	case "extract":
		cancel = fmt.Sprintf("(CancelAtExtract %d%%nat)", c.Cancel.N)
	}
	sr := make([]string, len(c.StatReq))
	for i, x := range c.StatReq {
		sr[i] = fmt.Sprintf("(%s, %s)", cf.Str(x.Ext), cf.Z(x.Min))
	}
	dets := make([]string, len(c.Dets))
	for i, d := range c.Dets {
		dets[i] = fmt.Sprintf("(%s, %s)", cf.Str(d.Name), coqFindings(d.Findings))
	}
	return fmt.Sprintf("{| w_roots := %s; w_exts := %s; w_req := %s; w_statreq := %s; w_xt := %s; w_pat := %s; w_skip := %s; w_re := %s; w_glob := %s; "+
		"w_gi := %s; w_isd := %s; w_paths := %s; w_sym := %s; w_maxi := %s; w_maxs := %s; w_fatal := %s; w_abs := %s; w_cancel := %s; w_dets := %s; w_group := %d;\n     w_obs := %s |}",
		cf.List(roots), cf.List(exts), cf.List(req), cf.List(sr), cf.List(xt), cf.List(patTable(c)), coqPaths(c.SkipList), re, gl,
		cf.Bool(c.Gitignore), cf.Bool(c.IgnoreSub), coqPaths(c.Paths), cf.Bool(c.Symlinks), cf.Z(int64(c.MaxInodes)),
		cf.Z(int64(c.MaxSize)), cf.Bool(c.Fatal), abs, cancel, cf.List(dets), c.Group, coqObs(&c.Obs))
}

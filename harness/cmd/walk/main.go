// Command walk drives the filesystem walk engine of osv-scalibr (filesystem.Run and scalibr.Scan) over
// generated in-memory trees with controllable listing order and fault injection, table-driven fake
// extractors and a recording stats collector. It writes (a) a Coq cases file with the inputs and what
// the implementation did, (b) a JSONL side file with the same cases in readable form.
package main

import (
	"encoding/json"
	"flag"
	"fmt"
	"math/rand"
	"os"
	"strings"

	scalibrlog "github.com/google/osv-scalibr/log"

	cf "verifharness/internal/coqfmt"
)

type quiet struct{}

func (quiet) Errorf(string, ...any) {}
func (quiet) Error(...any)          {}
func (quiet) Warnf(string, ...any)  {}
func (quiet) Warn(...any)           {}
func (quiet) Infof(string, ...any)  {}
func (quiet) Info(...any)           {}
func (quiet) Debugf(string, ...any) {}
func (quiet) Debug(...any)          {}

const header = `From Coq Require Import List ZArith NArith Bool.
From Scalibr Require Import Walk.Model Walk.Spec Walk.Cases.
Import ListNotations.
`

func main() {
	out := flag.String("out", "", "output .v file")
	side := flag.String("jsonl", "", "output side file (one JSON case per line)")
	seed := flag.Int64("seed", 1, "PRNG seed")
	prop := flag.String("prop", "C01", "which property's case streams to generate")
	n := flag.Int("n", 300, "number of generated cases (per stream family)")
	per := flag.Int("per", 100, "cases per Coq chunk")
	exhaustive := flag.Bool("exhaustive", false, "C09: all fault pairs; C10: every cancellation point")
	maxNodes := flag.Int("maxnodes", 4, "C01 -exhaustive: nodes below the root")
	corpus := flag.String("corpus", "", "JSON list of regression cases (witnesses of fixed findings), run first")
	replay := flag.String("replay", "", "replay a JSON case file and print implementation result + coq-case")
	flag.Parse()
	scalibrlog.SetLogger(quiet{})

	if *replay != "" {
		b, err := os.ReadFile(*replay)
		if err != nil {
			panic(err)
		}
		var wrap struct {
			Case *Case `json:"case"`
		}
		if err := json.Unmarshal(b, &wrap); err != nil || wrap.Case == nil {
			var c Case
			if err2 := json.Unmarshal(b, &c); err2 != nil {
				panic(fmt.Sprint(err, err2))
			}
			wrap.Case = &c
		}
		c := wrap.Case
		runCase(c, true)
		ob, _ := json.Marshal(c.Obs)
		fmt.Printf("implementation: %s\n", ob)
		fmt.Printf("coq-case: %s\n", strings.ReplaceAll(coqCase(c), "\n", " "))
		return
	}

	r := rand.New(rand.NewSource(*seed))
	var cases []*Case
	if *corpus != "" {
		b, err := os.ReadFile(*corpus)
		if err != nil {
			panic(err)
		}
		var cs []*Case
		if err := json.Unmarshal(b, &cs); err != nil {
			panic(err)
		}
		for _, c := range cs {
			if c.Req == nil {
				c.Req = [][2]string{}
			}
			if c.Extract == nil {
				c.Extract = []XEntry{}
			}
			c.Group = 0
		}
		// keep chunk alignment of grouped streams: pad the corpus to a multiple of 5 with empty-root cases
		for len(cs)%5 != 0 {
			cs = append(cs, &Case{Stream: "regression", Roots: []*Node{dir(".")}, Exts: []string{"e0"}, Req: [][2]string{}, Extract: []XEntry{}})
		}
		cases = append(cases, cs...)
	}
	switch *prop {
	case "C01":
		cases = append(cases, fixedC01()...)
		for i := 0; i < *n; i++ {
			cases = append(cases, genC01(r, i))
		}
		for i := 0; i < *n/4; i++ {
			if i%2 == 0 {
				cases = append(cases, genC01Multi(r))
			} else {
				cases = append(cases, genMultiShared(r, "multiroot-shared"))
			}
		}
		for i := 0; i < *n/6; i++ {
			cases = append(cases, genMultiPath(r, "multipath", false))
		}
		for i := 0; i < *n/8; i++ {
			cases = append(cases, genC01OnDisk(r, i))
		}
		if *exhaustive {
			cases = append(cases, genC01Exhaustive(*maxNodes)...)
		}
	case "C08":
		cases = append(cases, fixedC08()...)
		groups := *n / 5
		for g := 1; g <= groups; g++ {
			cases = append(cases, genC08Group(r, g, 5)...)
		}
		for g := 1; g <= groups/4; g++ {
			cases = append(cases, genC08RootOrder(r, 100000+g)...)
		}
		for i := 0; i < *n/2; i++ {
			if i%2 == 0 {
				cases = append(cases, genC08Multi(r))
			} else {
				c := genMultiShared(r, "multiroot-shared")
				c.StatReq = nil
				cases = append(cases, c)
			}
		}
	case "C09":
		cases = append(cases, genC09(r, *n, 4, *exhaustive)...)
		for i := 0; i < *n*3; i++ {
			cases = append(cases, genMultiPath(r, "multipath-faults", true))
		}
		for i := 0; i < *n*4; i++ {
			cases = append(cases, genMultiFaults(r))
		}
	case "C10":
		cases = append(cases, fixedC10()...)
		cases = append(cases, genC10(r, *n, *exhaustive)...)
		for i := 0; i < *n*2; i++ {
			// several roots sharing relative paths with sizes around the limit (the lazy Stat must look at the right root)
			c := genMultiShared(r, "multiroot-shared")
			c.MaxSize = []int{1, 5, 10}[r.Intn(3)]
			if r.Intn(3) == 0 {
				c.MaxInodes = 3 + r.Intn(12)
			}
			cases = append(cases, c)
		}
	default:
		fmt.Fprintln(os.Stderr, "unknown -prop", *prop)
		os.Exit(2)
	}
	var items []string
	sf, err := os.Create(*side)
	if err != nil {
		panic(err)
	}
	defer sf.Close()
	enc := json.NewEncoder(sf)
	for _, c := range cases {
		runCase(c, true)
		if *prop == "C08" {
			// Go map iteration order is re-randomised on every run: the observation must not depend on it
			first, _ := json.Marshal(c.Obs)
			for k := 0; k < 2; k++ {
				runCase(c, true)
				again, _ := json.Marshal(c.Obs)
				if string(first) != string(again) {
					c.Obs.Class = "nondeterministic"
				}
			}
		}
		items = append(items, coqCase(c))
		if err := enc.Encode(c); err != nil {
			panic(err)
		}
	}
	v := header + cf.Chunked("cases", "wcase", items, *per)
	if err := os.WriteFile(*out, []byte(v), 0o644); err != nil {
		panic(err)
	}
	fmt.Printf("cases=%d\n", len(cases))
}

func file(name string, size int64) *Node { return &Node{Name: name, Kind: "reg", Size: size} }
func dir(name string, ch ...*Node) *Node { return &Node{Name: name, Kind: "dir", Children: ch} }
func gi(data int) *Node                  { return &Node{Name: ".gitignore", Kind: "reg", Size: 3, Data: data} }

// fixedC01: boundary layouts and the candidate defects of DESIGN.md section 7, always run first.
func fixedC01() []*Case {
	mk := func(stream string, root *Node, f func(c *Case)) *Case {
		c := &Case{Stream: stream, Roots: []*Node{root}, Exts: []string{"e0"}, Req: [][2]string{}, Extract: []XEntry{}}
		for _, p := range pathsOf(root, func(n *Node) bool { return !n.isDir() }) {
			c.Req = append(c.Req, [2]string{"e0", p})
			c.Extract = append(c.Extract, XEntry{Ext: "e0", Path: p, Pkgs: []Pkg{{Name: "p", Version: "1", Locs: []string{p}}}})
		}
		if f != nil {
			f(c)
		}
		return c
	}
	return []*Case{
		mk("fixed", dir("."), nil),
		mk("fixed", dir(".", file("a", 1)), nil),
		mk("fixed", dir(".", dir("a", dir("b", dir("c", file("z", 1))))), nil),
		// regex and glob both set: the glob is never consulted
		mk("fixed", dir(".", dir("a", file("z", 1)), dir("b", file("z", 1))), func(c *Case) { c.Regex = sp("^a$"); c.Glob = sp("b") }),
		// a .gitignore in the scan root
		mk("fixed", dir(".", gi(1), file("a", 1), dir("b", file("a", 1))), func(c *Case) { c.Gitignore = true; c.PatFiles = [][]string{{"a"}} }),
		// a .gitignore one level down works
		mk("fixed", dir(".", dir("b", gi(1), file("a", 1), dir("c", file("a", 1)), file("z", 1))), func(c *Case) { c.Gitignore = true; c.PatFiles = [][]string{{"a"}} }),
		// sub-directory request
		mk("fixed", dir(".", dir("b", gi(1), file("a", 1), dir("c", file("a", 1), file("z", 1)), file("z", 1))), func(c *Case) {
			c.Gitignore = true
			c.PatFiles = [][]string{{"a"}}
			c.Paths = []string{"b/c"}
		}),
		mk("fixed", dir(".", file("a", 10), file("b", 11)), func(c *Case) { c.MaxSize = 10 }),
		mk("fixed", dir(".", dir("a", file("z", 1), dir("b", file("z", 1)))), func(c *Case) { c.IgnoreSub = true; c.Paths = []string{"a"} }),
		mk("fixed", dir(".", dir("a", file("z", 1))), func(c *Case) { c.IgnoreSub = true }),
		// a skipped directory and a sibling whose name merely starts with the same text
		mk("fixed", dir(".", dir("a", file("z", 1)), dir("ab", file("z", 1)), dir("lib", dir("a", file("z", 1)))), func(c *Case) { c.SkipList = []string{"a"} }),
		// a symlink whose target is over the size limit; its directory entry reports the length of the link text
		mk("fixed", dir(".", &Node{Name: "a", Kind: "sym", Size: 100}, &Node{Name: "b", Kind: "sym", Size: 3}, file("c", 100)), func(c *Case) { c.Symlinks = true; c.MaxSize = 10 }),
		// every non-regular type, with symlink reading on: only the plain symlink is extracted
		mk("fixed", dir(".", &Node{Name: "a", Kind: "sym", Size: 1}, &Node{Name: "b", Kind: "special", Bits: 16, Size: 1}, &Node{Name: "c", Kind: "special", Bits: 32, Size: 1},
			&Node{Name: "z", Kind: "special", Bits: 2, Size: 1}, &Node{Name: "lib", Kind: "special", Bits: 6, Size: 1}, &Node{Name: "src", Kind: "special", Bits: 8, Size: 1},
			&Node{Name: "ab", Kind: "special", Bits: 1 | 32, Size: 1}, &Node{Name: "srcs", Kind: "special", Bits: 1 | 16, Size: 1}, file("d.txt", 1)), func(c *Case) { c.Symlinks = true }),
		// the sub-directory cut-off does not exempt a requested directory from the other skip rules
		mk("fixed", dir(".", dir("a", file("z", 1)), dir("b", file("z", 1)), dir("c", file("z", 1))), func(c *Case) {
			c.IgnoreSub = true
			c.Paths = []string{"a", "b", "c"}
			c.Regex = sp("^a$")
			c.Glob = sp("b")
		}),
		// StoreAbsolutePath with a lockfile-style extractor: three packages sharing one Locations slice
		mk("fixed", dir(".", dir("a", file("x.lock", 1))), func(c *Case) {
			c.StoreAbs = true
			c.Extract = []XEntry{{Ext: "e0", Path: "a/x.lock", SharedLocs: true, Pkgs: []Pkg{{Name: "p", Version: "1", Locs: []string{"a/x.lock"}}, {Name: "q", Version: "1", Locs: []string{"a/x.lock"}}, {Name: "pp", Version: "2", Locs: []string{"a/x.lock"}}}}}
		}),
		// FileRequired consults api.Stat()
		mk("fixed", dir(".", file("a", 4), file("b", 20)), func(c *Case) { c.StatReq = []StatReq{{Ext: "e0", Min: 10}} }),
	}
}

// fixedC08: five cases (one chunk-aligned block): the multi-root duplication witness and boundary layouts.
func fixedC08() []*Case {
	mk := func(stream string, roots []*Node, f func(c *Case)) *Case {
		c := &Case{Stream: stream, Roots: roots, Exts: []string{"e0"}, Req: [][2]string{}, Extract: []XEntry{}}
		seen := map[string]bool{}
		for _, root := range roots {
			for _, p := range pathsOf(root, func(n *Node) bool { return !n.isDir() }) {
				if !seen[p] {
					seen[p] = true
					c.Req = append(c.Req, [2]string{"e0", p})
					c.Extract = append(c.Extract, XEntry{Ext: "e0", Path: p, Pkgs: []Pkg{{Name: "p", Version: "1", Locs: []string{p}}}})
				}
			}
		}
		if f != nil {
			f(c)
		}
		return c
	}
	return []*Case{
		mk("fixed", []*Node{dir(".", file("a", 1)), dir(".")}, nil), // root 1 reported twice
		mk("fixed", []*Node{dir("."), dir(".", file("a", 1))}, nil), // inside D: only the last root yields
		// an extraction error in the first of three roots: the plugin's status must still report it
		mk("fixed", []*Node{dir(".", file("a", 1)), dir(".", file("b", 1)), dir(".", file("c", 1))}, func(c *Case) { c.Extract[0].Err = true }),
		mk("fixed", []*Node{dir(".", file("b", 1), file("a", 1))}, func(c *Case) { c.Extract[0].Pkgs[0].Name = "p"; c.Extract[1].Pkgs[0].Name = "p" }),
		// a package with several locations whose first one (the file it was extracted from) is not the alphabetically first:
		// sortResults keeps Locations[0] in place and sorts only the rest (/repo commit 57324273)
		mk("fixed", []*Node{dir(".", file("z", 1))}, func(c *Case) {
			c.Extract[0].Pkgs = []Pkg{{Name: "p", Version: "1", Locs: []string{"z", "m", "a", "k"}}, {Name: "p", Version: "1", Locs: []string{"z"}}}
		}),
		mk("fixed", []*Node{dir(".")}, nil),
		mk("fixed", []*Node{dir(".")}, nil),
		mk("fixed", []*Node{dir(".")}, nil),
		mk("fixed", []*Node{dir(".")}, nil),
		// (kept last) detectors whose findings' publisher order disagrees with the reference order
		mk("fixed", []*Node{dir(".")}, func(c *Case) {
			c.Dets = []Det{{Name: "det0", Findings: []Finding{{Pub: "ZZZ", Ref: "A9", Extra: "x"}, {Pub: "AAA", Ref: "R2", Extra: ""}, {Pub: "CVE", Ref: "A9", Extra: ""}}}}
		}),
	}
}

// fixedC10: the gitignore + abort panic witnesses.
func fixedC10() []*Case {
	mk := func(root *Node, f func(c *Case)) *Case {
		c := &Case{Stream: "fixed", Roots: []*Node{root}, Exts: []string{"e0"}, Req: [][2]string{}, Extract: []XEntry{}}
		for _, p := range pathsOf(root, func(n *Node) bool { return !n.isDir() }) {
			c.Req = append(c.Req, [2]string{"e0", p})
			c.Extract = append(c.Extract, XEntry{Ext: "e0", Path: p, Pkgs: []Pkg{{Name: "p", Version: "1", Locs: []string{p}}}})
		}
		f(c)
		return c
	}
	return []*Case{
		mk(dir(".", dir("a")), func(c *Case) { c.Gitignore = true; c.MaxInodes = 1 }),                        // limit hit at a directory
		mk(dir(".", dir("a")), func(c *Case) { c.Gitignore = true; c.Cancel = Cancel{Kind: "visit", N: 0} }), // cancelled before the scan
		mk(dir(".", file("a", 1)), func(c *Case) { c.Gitignore = true; c.MaxInodes = 1 }),                    // limit hit at a file: no panic
		mk(dir(".", dir("a")), func(c *Case) { c.MaxInodes = 1 }),                                            // without gitignore: plain error
	}
}

package main

import (
	"errors"
	"io"
	"io/fs"
	"strings"
	"time"
)

// Node is one inode of a generated tree. Children are kept in the order ReadDir lists them.
type Node struct {
	Name     string  `json:"n"`
	Kind     string  `json:"k"`              // dir | reg | sym | special
	Bits     int     `json:"bits,omitempty"` // special: type bits 1 symlink, 2 device, 4 char device, 8 named pipe, 16 socket, 32 irregular
	Size     int64   `json:"size,omitempty"`
	Data     int     `json:"data,omitempty"` // .gitignore: 1-based index into Case.PatFiles
	Children []*Node `json:"ch,omitempty"`
	// fault annotations
	FOpen   bool   `json:"f_open,omitempty"`  // Open(path) fails
	FFstat  bool   `json:"f_fstat,omitempty"` // Stat() on the opened file fails
	FStat   bool   `json:"f_stat,omitempty"`  // fs.Stat(path) fails
	ReadAt  *int   `json:"f_read_at,omitempty"`
	ErrKind string `json:"f_kind,omitempty"` // perm | other | notexist
}

func (n *Node) isDir() bool { return n.Kind == "dir" }

func (n *Node) faulty() bool { return n.FOpen || n.FFstat || n.FStat || n.ReadAt != nil }

var errOther = errors.New("input/output error")

func (n *Node) err(op, p string) error {
	e := errOther
	if n.ErrKind == "perm" {
		e = fs.ErrPermission
	}
	if n.ErrKind == "notexist" {
		e = fs.ErrNotExist
	}
	return &fs.PathError{Op: op, Path: p, Err: e}
}

// memFS implements scalibrfs.FS over a Node tree.
type memFS struct {
	root     *Node
	patFiles [][]string
	hits     *int // number of injected faults that were actually triggered
}

func (m *memFS) hit() {
	if m.hits != nil {
		*m.hits++
	}
}

func (m *memFS) find(op, name string) (*Node, error) {
	if !fs.ValidPath(name) {
		return nil, &fs.PathError{Op: op, Path: name, Err: fs.ErrInvalid}
	}
	cur := m.root
	if name == "." {
		return cur, nil
	}
	for _, seg := range strings.Split(name, "/") {
		if !cur.isDir() {
			return nil, &fs.PathError{Op: op, Path: name, Err: fs.ErrNotExist}
		}
		var next *Node
		for _, c := range cur.Children {
			if c.Name == seg {
				next = c
				break
			}
		}
		if next == nil {
			return nil, &fs.PathError{Op: op, Path: name, Err: fs.ErrNotExist}
		}
		cur = next
	}
	return cur, nil
}

// lsize is what a directory entry of a symlink reports as size: the length of the link text, not the size
// Stat() (which follows the link) reports.
const lsize = 2

// dinfo is the FileInfo behind a DirEntry handed out by ReadDir (lstat-like).
type dinfo struct{ info }

func (i dinfo) Mode() fs.FileMode {
	if i.n.Kind == "symdir" {
		return fs.ModeSymlink | 0o777 // the entry itself is a symlink; Stat() follows it
	}
	return i.info.Mode()
}
func (i dinfo) IsDir() bool { return false || i.n.Kind == "dir" }

func (i dinfo) Size() int64 {
	if i.n.Kind == "sym" || i.n.Kind == "symdir" {
		return lsize
	}
	return i.n.Size
}

type info struct{ n *Node }

func (i info) Name() string { return i.n.Name }
func (i info) Size() int64  { return i.n.Size }
func (i info) Mode() fs.FileMode {
	switch i.n.Kind {
	case "dir", "symdir":
		return fs.ModeDir | 0o755
	case "sym":
		return fs.ModeSymlink | 0o777
	case "special":
		b := i.n.Bits
		if b == 0 {
			b = 8
		}
		var m fs.FileMode
		for bit, mode := range map[int]fs.FileMode{1: fs.ModeSymlink, 2: fs.ModeDevice, 4: fs.ModeCharDevice, 8: fs.ModeNamedPipe, 16: fs.ModeSocket, 32: fs.ModeIrregular} {
			if b&bit != 0 {
				m |= mode
			}
		}
		return m | 0o644
	}
	return 0o644
}
func (i info) ModTime() time.Time { return time.Time{} }
func (i info) IsDir() bool        { return i.n.isDir() || i.n.Kind == "symdir" }
func (i info) Sys() any           { return nil }

func (m *memFS) content(n *Node) []byte {
	if n.Name == ".gitignore" && n.Data >= 1 && n.Data <= len(m.patFiles) {
		return []byte(strings.Join(m.patFiles[n.Data-1], "\n") + "\n")
	}
	return nil
}

func (m *memFS) Open(name string) (fs.File, error) {
	n, err := m.find("open", name)
	if err != nil {
		return nil, err
	}
	if n.FOpen {
		m.hit()
		return nil, n.err("open", name)
	}
	if n.isDir() {
		return &dirFile{n: n, path: name, fs: m}, nil
	}
	return &memFile{n: n, path: name, data: m.content(n), fs: m}, nil
}

func (m *memFS) Stat(name string) (fs.FileInfo, error) {
	n, err := m.find("stat", name)
	if err != nil {
		return nil, err
	}
	if n.FStat {
		m.hit()
		return nil, n.err("stat", name)
	}
	return info{n}, nil
}

func (m *memFS) ReadDir(name string) ([]fs.DirEntry, error) {
	n, err := m.find("readdir", name)
	if err != nil {
		return nil, err
	}
	if !n.isDir() {
		return nil, &fs.PathError{Op: "readdir", Path: name, Err: errors.New("not a directory")}
	}
	var out []fs.DirEntry
	for _, c := range n.Children {
		out = append(out, fs.FileInfoToDirEntry(dinfo{info{c}}))
	}
	return out, nil
}

type memFile struct {
	fs   *memFS
	n    *Node
	path string
	data []byte
	off  int
}

func (f *memFile) Stat() (fs.FileInfo, error) {
	if f.n.FFstat {
		f.fs.hit()
		return nil, f.n.err("stat", f.path)
	}
	return info{f.n}, nil
}
func (f *memFile) Read(b []byte) (int, error) {
	if f.off >= len(f.data) {
		return 0, io.EOF
	}
	k := copy(b, f.data[f.off:])
	f.off += k
	return k, nil
}
func (f *memFile) Close() error { return nil }

// dirFile implements fs.ReadDirFile with the ReadDir(1) protocol walkDirUnsorted uses.
type dirFile struct {
	fs    *memFS
	n     *Node
	path  string
	pos   int
	calls int
}

func (d *dirFile) Stat() (fs.FileInfo, error) { return info{d.n}, nil }
func (d *dirFile) Read([]byte) (int, error) {
	return 0, &fs.PathError{Op: "read", Path: d.path, Err: errors.New("is a directory")}
}
func (d *dirFile) Close() error { return nil }
func (d *dirFile) ReadDir(k int) ([]fs.DirEntry, error) {
	call := d.calls
	d.calls++
	if d.n.ReadAt != nil && *d.n.ReadAt == call {
		d.fs.hit()
		return nil, d.n.err("readdir", d.path)
	}
	if k <= 0 {
		var out []fs.DirEntry
		for ; d.pos < len(d.n.Children); d.pos++ {
			out = append(out, fs.FileInfoToDirEntry(dinfo{info{d.n.Children[d.pos]}}))
		}
		return out, nil
	}
	if d.pos >= len(d.n.Children) {
		return nil, io.EOF
	}
	var out []fs.DirEntry
	for ; d.pos < len(d.n.Children) && len(out) < k; d.pos++ {
		out = append(out, fs.FileInfoToDirEntry(dinfo{info{d.n.Children[d.pos]}}))
	}
	return out, nil
}

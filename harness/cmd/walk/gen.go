package main

import (
	"fmt"
	"math/rand"
	"regexp"

	"github.com/gobwas/glob"
	"sort"
	"strings"
)

type genOpts struct {
	maxDepth  int
	maxFan    int
	budget    int
	gitignore bool
}

var sizePool = []int64{0, 1, 5, 9, 10, 11, 100}

// every non-regular, non-directory type other than a plain symlink: device, char device (device|char), named pipe,
// socket, irregular, and combinations with the symlink bit
var specialBits = []int{2, 6, 8, 16, 32, 1 | 2, 1 | 8, 1 | 16, 1 | 32, 16 | 32}

func genDir(r *rand.Rand, name string, depth int, budget *int, o genOpts, nPat int) *Node {
	d := &Node{Name: name, Kind: "dir"}
	n := r.Intn(o.maxFan + 1)
	if depth == 0 && n < 2 && r.Intn(10) > 0 {
		n = 2 + r.Intn(o.maxFan-1)
	}
	perm := r.Perm(len(namePool))
	for i := 0; i < n && i < len(perm) && *budget > 0; i++ {
		*budget--
		nm := namePool[perm[i]]
		if depth < o.maxDepth && r.Intn(100) < 45 {
			d.Children = append(d.Children, genDir(r, nm, depth+1, budget, o, nPat))
			continue
		}
		k := "reg"
		switch x := r.Intn(100); {
		case x < 10:
			k = "sym"
		case x < 22:
			k = "special"
		}
		nn := &Node{Name: nm, Kind: k, Size: sizePool[r.Intn(len(sizePool))]}
		if k == "special" {
			nn.Bits = specialBits[r.Intn(len(specialBits))]
		}
		d.Children = append(d.Children, nn)
	}
	if o.gitignore && nPat > 0 && r.Intn(100) < 40 {
		gi := &Node{Name: ".gitignore", Kind: "reg", Size: 7, Data: 1 + r.Intn(nPat)}
		pos := r.Intn(len(d.Children) + 1)
		d.Children = append(d.Children[:pos], append([]*Node{gi}, d.Children[pos:]...)...)
	}
	return d
}

func genPatFiles(r *rand.Rand) [][]string {
	n := 1 + r.Intn(3)
	out := make([][]string, n)
	pick := func() string { return namePool[r.Intn(len(namePool))] }
	for i := range out {
		lines := 1 + r.Intn(3)
		for j := 0; j < lines; j++ {
			var l string
			switch r.Intn(9) {
			case 0:
				l = pick()
			case 1:
				l = pick() + "/"
			case 2:
				l = "*.txt"
			case 3:
				l = "/" + pick()
			case 4:
				l = "!" + pick()
			case 5:
				l = pick() + "/" + pick()
			case 6:
				l = "**/" + pick()
			case 7:
				l = "# comment"
			default:
				l = "*"
			}
			out[i] = append(out[i], l)
		}
	}
	return out
}

var regexPool = []string{"^a$", "b", "^(a|lib)(/|$)", "src$", `\.h$`, "^c/", "^\\.$", "lib"}
var globPool = []string{"a", "*/b", "lib*", "**/src", "{a,c}", "*", "c/*", "."}
var pkgNames = []string{"p", "q", "pp"}
var pkgVersions = []string{"1", "2", "10"}

func pathsOf(root *Node, want func(*Node) bool) []string {
	var out []string
	for _, d := range allNodes(root) {
		if want(d.n) {
			out = append(out, d.path)
		}
	}
	return out
}

func pickSome(r *rand.Rand, l []string, max int) []string {
	if len(l) == 0 || max == 0 {
		return nil
	}
	k := 1 + r.Intn(max)
	perm := r.Perm(len(l))
	var out []string
	for i := 0; i < k && i < len(perm); i++ {
		out = append(out, l[perm[i]])
	}
	return out
}

func base(p string) string {
	if i := strings.LastIndex(p, "/"); i >= 0 {
		return p[i+1:]
	}
	return p
}

// genTables fills extractors, the FileRequired table and the Extract table for the trees of the case.
func genTables(r *rand.Rand, c *Case, nExt int, errPct int) {
	c.Exts = nil
	for i := 0; i < nExt; i++ {
		c.Exts = append(c.Exts, fmt.Sprintf("e%d", i))
	}
	if nExt >= 2 && r.Intn(12) == 0 {
		c.Exts[nExt-1] = c.Exts[0] // two extractors sharing a name share map entries in the engine
	}
	seen := map[string]bool{}
	var files []string
	for _, root := range c.Roots {
		for _, p := range pathsOf(root, func(n *Node) bool { return !n.isDir() }) {
			if !seen[p] {
				seen[p] = true
				files = append(files, p)
			}
		}
	}
	sort.Strings(files)
	uniq := map[string]bool{}
	for _, e := range c.Exts {
		if uniq[e] {
			continue
		}
		uniq[e] = true
		wantBase := map[string]bool{}
		for _, n := range namePool {
			if r.Intn(100) < 45 {
				wantBase[n] = true
			}
		}
		if r.Intn(4) == 0 {
			wantBase[".gitignore"] = true
		}
		for _, f := range files {
			if wantBase[base(f)] || r.Intn(100) < 10 {
				c.Req = append(c.Req, [2]string{e, f})
				x := XEntry{Ext: e, Path: f}
				np := r.Intn(3)
				for j := 0; j < np; j++ {
					locs := []string{f}
					if r.Intn(4) == 0 {
						locs = []string{"zz", f}
					}
					if r.Intn(6) == 0 {
						locs = []string{}
					}
					x.Pkgs = append(x.Pkgs, Pkg{Name: pkgNames[r.Intn(len(pkgNames))], Version: pkgVersions[r.Intn(len(pkgVersions))], Locs: locs})
				}
				x.Err = r.Intn(100) < errPct
				if len(x.Pkgs) > 0 || x.Err {
					c.Extract = append(c.Extract, x)
				}
			}
		}
	}
	if c.Req == nil {
		c.Req = [][2]string{}
	}
	if c.Extract == nil {
		c.Extract = []XEntry{}
	}
}

func sp(s string) *string { return &s }

// genStatReq lets one extractor's FileRequired consult api.Stat() (size threshold).
func genStatReq(r *rand.Rand, c *Case, pct int) {
	if r.Intn(100) < pct && len(c.Exts) > 0 {
		e := c.Exts[r.Intn(len(c.Exts))]
		c.StatReq = []StatReq{{Ext: e, Min: []int64{1, 5, 10, 11}[r.Intn(4)]}}
	}
}

var pubPool = []string{"CVE", "GHSA", "AAA", "ZZZ"}
var refPool = []string{"R1", "R2", "A9", "Z0"}
var extraPool = []string{"", "x", "y"}

func genDets(r *rand.Rand, c *Case) {
	n := r.Intn(3)
	for i := 0; i < n; i++ {
		d := Det{Name: fmt.Sprintf("det%d", i)}
		k := 1 + r.Intn(3)
		for j := 0; j < k; j++ {
			d.Findings = append(d.Findings, Finding{Pub: pubPool[r.Intn(len(pubPool))], Ref: refPool[r.Intn(len(refPool))], Extra: extraPool[r.Intn(len(extraPool))]})
		}
		c.Dets = append(c.Dets, d)
	}
}

// genC01Multi: 2..3 roots that are variations of one content: the same relative paths with different sizes and
// kinds, the file visited last in one root visited first in the next.
func genC01Multi(r *rand.Rand) *Case {
	c := &Case{Stream: "multiroot-shared"}
	o := genOpts{maxDepth: 1, maxFan: 3, budget: 4}
	b := o.budget
	base := genDir(r, ".", 0, &b, o, 0)
	if r.Intn(3) == 0 || len(base.Children) == 0 {
		base = &Node{Name: ".", Kind: "dir", Children: []*Node{{Name: namePool[r.Intn(len(namePool))], Kind: "reg", Size: sizePool[r.Intn(len(sizePool))]}}}
	}
	n := 2 + r.Intn(2)
	c.Roots = []*Node{base}
	for i := 1; i < n; i++ {
		prev := c.Roots[i-1]
		v := clone(prev)
		for _, d := range allNodes(v) {
			if !d.n.isDir() {
				if r.Intn(100) < 70 {
					d.n.Size = sizePool[r.Intn(len(sizePool))]
				}
				if r.Intn(100) < 20 {
					d.n.Kind = []string{"reg", "sym"}[r.Intn(2)]
				}
			}
		}
		// the entry listed last in the previous root comes first in this one
		if k := len(v.Children); k > 1 {
			last := v.Children[k-1]
			v.Children = append([]*Node{last}, v.Children[:k-1]...)
		}
		c.Roots = append(c.Roots, v)
	}
	c.Symlinks = r.Intn(100) < 50
	if r.Intn(100) < 60 {
		c.MaxSize = []int{1, 5, 10}[r.Intn(3)]
	}
	genTables(r, c, 1+r.Intn(2), 15)
	for _, e := range c.Exts { // most files required by every extractor
		for _, root := range c.Roots {
			for _, p := range pathsOf(root, func(x *Node) bool { return !x.isDir() }) {
				has := false
				for _, q := range c.Req {
					if q[0] == e && q[1] == p {
						has = true
					}
				}
				if !has && r.Intn(100) < 70 {
					c.Req = append(c.Req, [2]string{e, p})
				}
			}
		}
	}
	genStatReq(r, c, 60)
	return c
}

// genC01 draws one case for the option-interaction stream: fault-free trees, no limits.
func genC01(r *rand.Rand, i int) *Case {
	c := &Case{Stream: "options"}
	o := genOpts{maxDepth: 3, maxFan: 5, budget: 26, gitignore: r.Intn(100) < 55}
	c.Gitignore = o.gitignore && r.Intn(10) > 0
	nPat := 0
	if o.gitignore {
		c.PatFiles = genPatFiles(r)
		nPat = len(c.PatFiles)
	}
	b := o.budget
	root := genDir(r, ".", 0, &b, o, nPat)
	c.Roots = []*Node{root}
	dirs := pathsOf(root, func(n *Node) bool { return n.isDir() })
	all := pathsOf(root, func(n *Node) bool { return true })
	if r.Intn(100) < 35 {
		c.SkipList = pickSome(r, dirs, 2)
		if r.Intn(8) == 0 {
			c.SkipList = append(c.SkipList, "nonexistent")
		}
	}
	if r.Intn(100) < 30 {
		c.Regex = sp(regexPool[r.Intn(len(regexPool))])
	}
	if r.Intn(100) < 30 {
		c.Glob = sp(globPool[r.Intn(len(globPool))])
	}
	c.Symlinks = r.Intn(100) < 40
	if r.Intn(100) < 35 {
		c.MaxSize = []int{1, 5, 10}[r.Intn(3)]
	}
	if r.Intn(100) < 30 {
		c.Stream = "paths"
		c.Paths = pickSome(r, all, 2)
		if r.Intn(10) == 0 {
			c.Paths = append(c.Paths, "missing/x")
		}
		c.IgnoreSub = r.Intn(100) < 35
		if c.IgnoreSub && len(dirs) > 0 && r.Intn(100) < 60 {
			// a requested directory that a skip rule matches: the cut-off must not exempt it
			d := dirs[r.Intn(len(dirs))]
			c.Paths = append(c.Paths, d)
			switch r.Intn(3) {
			case 0:
				c.Regex = sp("^" + regexp.QuoteMeta(d) + "$")
			case 1:
				c.Glob = sp(glob.QuoteMeta(d))
			default:
				c.SkipList = append(c.SkipList, d)
			}
		}
	} else if r.Intn(100) < 4 {
		c.IgnoreSub = true
	}
	genTables(r, c, 1+r.Intn(3), 20)
	genStatReq(r, c, 25)
	if r.Intn(100) < 25 {
		// StoreAbsolutePath; lockfile-style extractors whose packages share one Locations slice
		c.StoreAbs = true
		for i := range c.Extract {
			if len(c.Extract[i].Pkgs) >= 2 && r.Intn(2) == 0 {
				c.Extract[i].SharedLocs = true
			}
		}
	}
	return c
}

// genC01OnDisk: like genC01 but with regular files only, scanned from a real directory through os.DirFS.
func genC01OnDisk(r *rand.Rand, i int) *Case {
	c := genC01(r, i)
	c.Stream = "ondisk"
	c.OnDisk = true
	c.StoreAbs = false
	c.StatReq = nil
	for _, d := range allNodes(c.Roots[0]) {
		if !d.n.isDir() {
			d.n.Kind = "reg"
			d.n.Bits = 0
		}
	}
	var ps []string
	for _, p := range c.Paths {
		if findNode(c.Roots[0], p) != nil { // a missing absolute path is fine too, but keep the stream simple
			ps = append(ps, p)
		}
	}
	c.Paths = ps
	var sk []string
	for _, p := range c.SkipList {
		if p != "nonexistent" {
			sk = append(sk, p)
		}
	}
	c.SkipList = sk
	// Kubernetes-style entries whose name starts with dots, addressed by absolute DirsToSkip / PathsToExtract
	nm := []string{"..data", "...", ".x", "..2024_x"}[r.Intn(4)]
	if findNode(c.Roots[0], nm) == nil {
		c.Roots[0].Children = append(c.Roots[0].Children, &Node{Name: nm, Kind: "dir", Children: []*Node{{Name: "z", Kind: "reg", Size: 1}}})
		c.Req = append(c.Req, [2]string{c.Exts[0], nm + "/z"})
		c.Extract = append(c.Extract, XEntry{Ext: c.Exts[0], Path: nm + "/z", Pkgs: []Pkg{{Name: "p", Version: "1", Locs: []string{nm + "/z"}}}})
		switch r.Intn(3) {
		case 0:
			c.SkipList = append(c.SkipList, nm)
		case 1:
			if len(c.Paths) > 0 {
				c.Paths = append(c.Paths, nm)
			} else {
				c.Paths = []string{nm}
			}
		}
	}
	return c
}

func clone(n *Node) *Node {
	m := *n
	m.Children = nil
	for _, c := range n.Children {
		m.Children = append(m.Children, clone(c))
	}
	if n.ReadAt != nil {
		v := *n.ReadAt
		m.ReadAt = &v
	}
	return &m
}

// shuffled returns a deep copy of the tree in which every directory lists its entries in a random order.
func shuffled(r *rand.Rand, n *Node) *Node {
	m := clone(n)
	var rec func(x *Node)
	rec = func(x *Node) {
		r.Shuffle(len(x.Children), func(i, j int) { x.Children[i], x.Children[j] = x.Children[j], x.Children[i] })
		for _, c := range x.Children {
			rec(c)
		}
	}
	rec(m)
	return m
}

func copyCase(c *Case) *Case {
	d := *c
	d.Roots = nil
	for _, r := range c.Roots {
		d.Roots = append(d.Roots, clone(r))
	}
	d.Obs = Obs{}
	return &d
}

// genC08Group: one content, groupSize listings (the first is the base); fault-free, no limits, whole-tree scan.
func genC08Group(r *rand.Rand, group int, groupSize int) []*Case {
	base := &Case{Stream: "perm", Group: group, Variant: "base"}
	o := genOpts{maxDepth: 3, maxFan: 5, budget: 24, gitignore: r.Intn(100) < 45}
	base.Gitignore = o.gitignore
	nPat := 0
	if o.gitignore {
		base.PatFiles = genPatFiles(r)
		nPat = len(base.PatFiles)
	}
	b := o.budget
	root := genDir(r, ".", 0, &b, o, nPat)
	base.Roots = []*Node{root}
	dirs := pathsOf(root, func(n *Node) bool { return n.isDir() })
	if r.Intn(100) < 25 {
		base.SkipList = pickSome(r, dirs, 2)
	}
	if r.Intn(100) < 20 {
		base.Regex = sp(regexPool[r.Intn(len(regexPool))])
	}
	if r.Intn(100) < 20 {
		base.Glob = sp(globPool[r.Intn(len(globPool))])
	}
	base.Symlinks = r.Intn(100) < 40
	if r.Intn(100) < 25 {
		base.MaxSize = []int{1, 5, 10}[r.Intn(3)]
	}
	genTables(r, base, 1+r.Intn(3), 35)
	// packages that tie on some but not all sort keys
	for i := range base.Extract {
		for j := range base.Extract[i].Pkgs {
			if r.Intn(2) == 0 {
				base.Extract[i].Pkgs[j].Name = "p"
			}
			if r.Intn(2) == 0 {
				base.Extract[i].Pkgs[j].Version = "1"
			}
		}
	}
	// symlinks whose target is a directory: the entry is a symlink, Stat() says directory
	if base.Symlinks || r.Intn(3) == 0 {
		for _, d := range allNodes(root) {
			if d.n.Kind == "sym" && r.Intn(2) == 0 {
				d.n.Kind = "symdir"
			}
		}
		if r.Intn(2) == 0 {
			base.Symlinks = true
			for _, d := range allNodes(root) {
				if d.n.isDir() && len(d.n.Children) >= 2 && r.Intn(2) == 0 {
					k := r.Intn(len(d.n.Children))
					if !d.n.Children[k].isDir() && d.n.Children[k].Name != ".gitignore" {
						d.n.Children[k].Kind = "symdir"
						d.n.Children[k].Bits = 0
					}
				}
			}
		}
	}
	genDets(r, base)
	out := []*Case{base}
	for k := 1; k < groupSize; k++ {
		v := copyCase(base)
		v.Variant = fmt.Sprintf("perm%d", k)
		v.Roots = []*Node{shuffled(r, root)}
		out = append(out, v)
	}
	return out
}

// genC08Multi: 2..3 roots scanned by one Run; fault-free, no limits.
func genC08Multi(r *rand.Rand) *Case {
	c := &Case{Stream: "multiroot"}
	n := 2 + r.Intn(2)
	o := genOpts{maxDepth: 2, maxFan: 3, budget: 8, gitignore: r.Intn(100) < 30}
	c.Gitignore = o.gitignore
	nPat := 0
	if o.gitignore {
		c.PatFiles = genPatFiles(r)
		nPat = len(c.PatFiles)
	}
	for i := 0; i < n; i++ {
		b := o.budget
		if r.Intn(4) == 0 {
			b = 0 // an empty root
		}
		c.Roots = append(c.Roots, genDir(r, ".", 0, &b, o, nPat))
	}
	if r.Intn(100) < 20 {
		c.Regex = sp(regexPool[r.Intn(len(regexPool))])
	}
	c.Symlinks = r.Intn(100) < 40
	genTables(r, c, 1+r.Intn(2), 25)
	genDets(r, c)
	// an extraction error in a chosen root position (often not the last): a file that only this root has
	if r.Intn(100) < 70 {
		pos := r.Intn(n)
		nm := fmt.Sprintf("err%d", pos)
		c.Roots[pos].Children = append(c.Roots[pos].Children, &Node{Name: nm, Kind: "reg", Size: 1})
		e := c.Exts[r.Intn(len(c.Exts))]
		c.Req = append(c.Req, [2]string{e, nm})
		x := XEntry{Ext: e, Path: nm, Err: true}
		if r.Intn(2) == 0 {
			x.Pkgs = []Pkg{{Name: "p", Version: "1", Locs: []string{nm}}}
		}
		c.Extract = append(c.Extract, x)
	}
	if r.Intn(3) == 0 {
		// only the last root yields packages: inside the domain of multiroot_is_union_on_D
		last := map[string]bool{}
		for _, p := range pathsOf(c.Roots[n-1], func(x *Node) bool { return !x.isDir() }) {
			last[p] = true
		}
		for i := 0; i < n-1; i++ {
			for _, p := range pathsOf(c.Roots[i], func(x *Node) bool { return !x.isDir() }) {
				delete(last, p)
			}
		}
		var xs []XEntry
		for _, x := range c.Extract {
			if last[x.Path] {
				xs = append(xs, x)
			} else if x.Err {
				x.Pkgs = nil
				xs = append(xs, x)
			}
		}
		if xs == nil {
			xs = []XEntry{}
		}
		c.Extract = xs
	}
	return c
}

// ---------------------------------------------------------------- C09: fault enumeration

type site struct {
	path string
	op   string // open | fstat | stat | read
	k    int    // read: index of the failing ReadDir(1)
}

// sites lists every operation site of a tree at which the harness FS can fail.
func sites(root *Node) []site {
	var out []site
	for _, d := range allNodes(root) {
		if d.n.isDir() {
			out = append(out, site{d.path, "open", 0})
			for k := 0; k <= len(d.n.Children); k++ {
				out = append(out, site{d.path, "read", k})
			}
			if d.path == "." {
				out = append(out, site{d.path, "stat", 0})
			}
		} else {
			out = append(out, site{d.path, "open", 0}, site{d.path, "fstat", 0}, site{d.path, "stat", 0})
		}
	}
	return out
}

func findNode(root *Node, path string) *Node {
	for _, d := range allNodes(root) {
		if d.path == path {
			return d.n
		}
	}
	return nil
}

// pickKind draws the error value an injected fault returns: the property does not distinguish kinds, so the
// implementation must not either (perm = fs.ErrPermission, notexist = fs.ErrNotExist: a file that vanished
// between listing and use, other = an I/O error).
func pickKind(r *rand.Rand) string {
	return []string{"perm", "other", "notexist"}[r.Intn(3)]
}

func inject(root *Node, s site, kind string) {
	n := findNode(root, s.path)
	if n == nil {
		return
	}
	if kind == "notexist" && strings.HasSuffix(s.path, ".gitignore") {
		// a missing .gitignore is documented as "no patterns", not a fault (internal/gitignore.go)
		kind = "other"
	}
	n.ErrKind = kind
	switch s.op {
	case "open":
		n.FOpen = true
	case "fstat":
		n.FFstat = true
	case "stat":
		n.FStat = true
	case "read":
		k := s.k
		n.ReadAt = &k
	}
}

// genC09Base draws a small fault-free case: the content the faults are injected into.
func genC09Base(r *rand.Rand) *Case {
	c := &Case{Stream: "faults"}
	o := genOpts{maxDepth: 2, maxFan: 3, budget: 7, gitignore: r.Intn(100) < 35}
	c.Gitignore = o.gitignore
	nPat := 0
	if o.gitignore {
		c.PatFiles = genPatFiles(r)
		nPat = len(c.PatFiles)
	}
	b := o.budget
	c.Roots = []*Node{genDir(r, ".", 0, &b, o, nPat)}
	c.Symlinks = r.Intn(100) < 30
	if c.Gitignore && r.Intn(5) == 0 {
		// requested directories: ParseParentGitignores reads the parents' .gitignore files
		c.Paths = pickSome(r, pathsOf(c.Roots[0], func(n *Node) bool { return n.isDir() }), 2)
	}
	genTables(r, c, 1+r.Intn(2), 25)
	// most files required by someone, so that faults are observable
	for _, p := range pathsOf(c.Roots[0], func(n *Node) bool { return !n.isDir() }) {
		if r.Intn(100) < 60 {
			has := false
			for _, q := range c.Req {
				if q[0] == c.Exts[0] && q[1] == p {
					has = true
				}
			}
			if !has {
				c.Req = append(c.Req, [2]string{c.Exts[0], p})
				c.Extract = append(c.Extract, XEntry{Ext: c.Exts[0], Path: p, Pkgs: []Pkg{{Name: "p", Version: "1", Locs: []string{p}}}})
			}
		}
	}
	return c
}

// genC09 enumerates every single fault (and sampled or all pairs) over a base case x fatal x size limit x error kind.
func genC09(r *rand.Rand, nBases int, pairs int, allPairs bool) []*Case {
	var out []*Case
	for bi := 0; bi < nBases; bi++ {
		base := genC09Base(r)
		ss := sites(base.Roots[0])
		mk := func(faults []site, fatal bool, maxSize int, kind string) {
			c := copyCase(base)
			c.Fatal = fatal
			c.MaxSize = maxSize
			for _, s := range faults {
				inject(c.Roots[0], s, kind)
			}
			var names []string
			for _, s := range faults {
				names = append(names, fmt.Sprintf("%s:%s:%d", s.op, s.path, s.k))
			}
			c.Note = strings.Join(names, ",")
			c.Variant = fmt.Sprintf("base%d", bi)
			out = append(out, c)
		}
		mk(nil, false, 0, "other")
		for _, s := range ss {
			fatal := r.Intn(2) == 0
			size := []int{0, 10}[r.Intn(2)]
			kind := pickKind(r)
			mk([]site{s}, fatal, size, kind)
			if allPairs || r.Intn(3) == 0 {
				mk([]site{s}, !fatal, size, kind)
			}
			if allPairs {
				mk([]site{s}, fatal, 10-size, kind)
			}
			// every site once more under each other error value, with fatal errors requested and the size
			// limit on (the lazy stat only happens then): the outcome must not depend on the error value
			for _, k2 := range []string{"perm", "other", "notexist"} {
				if k2 != kind {
					mk([]site{s}, true, 10, k2)
				}
			}
		}
		np := pairs
		if allPairs {
			for i := range ss {
				for j := i + 1; j < len(ss); j++ {
					mk([]site{ss[i], ss[j]}, r.Intn(2) == 0, []int{0, 10}[r.Intn(2)], pickKind(r))
				}
			}
			np = 0
		}
		for i := 0; i < np && len(ss) >= 2; i++ {
			a, b := r.Intn(len(ss)), r.Intn(len(ss))
			if a == b {
				continue
			}
			mk([]site{ss[a], ss[b]}, r.Intn(2) == 0, []int{0, 10}[r.Intn(2)], pickKind(r))
		}
	}
	return out
}

// ---------------------------------------------------------------- C10: limits and cancellation

func countEvents(c *Case, kind string) int {
	n := 0
	for _, e := range c.Obs.Events {
		if e[0] == kind {
			n++
		}
	}
	return n
}

// genC10 : for a base case needing n visits and m Extract calls, limits from {0,1,n-1,n,n+1}, size limits around the
// file sizes, every cancellation point (or a sample).
func genC10(r *rand.Rand, nBases int, everyPoint bool) []*Case {
	var out []*Case
	for bi := 0; bi < nBases; bi++ {
		base := genC09Base(r)
		base.Stream = "limits"
		if r.Intn(3) == 0 {
			// a second root: the inode counter is shared by the roots
			o := genOpts{maxDepth: 1, maxFan: 2, budget: 3}
			b := o.budget
			base.Roots = append(base.Roots, genDir(r, ".", 0, &b, o, 0))
		}
		if r.Intn(4) == 0 && len(base.Roots) == 1 {
			base.Paths = pickSome(r, pathsOf(base.Roots[0], func(n *Node) bool { return true }), 2)
		}
		probe := copyCase(base)
		runCase(probe, false)
		n := countEvents(probe, "V")
		m := countEvents(probe, "X")
		add := func(f func(c *Case), note string) {
			c := copyCase(base)
			f(c)
			c.Note = fmt.Sprintf("n=%d m=%d %s", n, m, note)
			c.Variant = fmt.Sprintf("base%d", bi)
			out = append(out, c)
		}
		add(func(c *Case) {}, "unlimited")
		seenL := map[int]bool{}
		for _, l := range []int{1, n - 1, n, n + 1} {
			if l >= 1 && !seenL[l] {
				seenL[l] = true
				add(func(c *Case) { c.MaxInodes = l }, fmt.Sprintf("max_inodes=%d", l))
			}
		}
		for _, s := range []int{1, 4, 5, 9, 10, 11} {
			if everyPoint || r.Intn(3) == 0 {
				add(func(c *Case) { c.MaxSize = s }, fmt.Sprintf("max_size=%d", s))
			}
		}
		for k := 0; k <= n+1; k++ {
			if everyPoint || k <= 1 || k >= n || r.Intn(3) == 0 {
				add(func(c *Case) { c.Cancel = Cancel{Kind: "visit", N: k} }, fmt.Sprintf("cancel@visit=%d", k))
			}
		}
		for j := 1; j <= m+1; j++ {
			if everyPoint || j == 1 || j >= m || r.Intn(3) == 0 {
				add(func(c *Case) { c.Cancel = Cancel{Kind: "extract", N: j} }, fmt.Sprintf("cancel@extract=%d", j))
			}
		}
		// interaction of limits
		if n >= 2 {
			add(func(c *Case) { c.MaxInodes = n - 1; c.MaxSize = 5 }, "max_inodes=n-1,max_size=5")
			add(func(c *Case) { c.MaxInodes = n; c.Cancel = Cancel{Kind: "visit", N: n} }, "max_inodes=n,cancel@visit=n")
		}
	}
	return out
}

// ---------------------------------------------------------------- C01 thorough: exhaustive small scope

// enumDirs lists every ordered child list for a directory using at most budget nodes: names from {a, b, .gitignore},
// pairwise different; a and b are a regular file or a directory (recursively), .gitignore is a pattern file.
func enumChildren(budget int, names []string) [][]*Node {
	out := [][]*Node{nil}
	if budget == 0 {
		return out
	}
	for i, nm := range names {
		rest := append(append([]string{}, names[:i]...), names[i+1:]...)
		// first child nm, then the remaining children from the remaining names (ordered)
		var firsts []struct {
			n    *Node
			used int
		}
		if nm == ".gitignore" {
			firsts = append(firsts, struct {
				n    *Node
				used int
			}{&Node{Name: nm, Kind: "reg", Size: 2, Data: 1}, 1})
		} else {
			size := int64(1)
			if nm == "b" {
				size = 2
			}
			firsts = append(firsts, struct {
				n    *Node
				used int
			}{&Node{Name: nm, Kind: "reg", Size: size}, 1})
			for sub := 0; sub <= budget-1; sub++ {
				for _, ch := range enumChildrenExact(sub, []string{"a", "b", ".gitignore"}) {
					firsts = append(firsts, struct {
						n    *Node
						used int
					}{&Node{Name: nm, Kind: "dir", Children: ch}, 1 + sub})
				}
			}
		}
		for _, f := range firsts {
			for _, tail := range enumChildren(budget-f.used, rest) {
				out = append(out, append([]*Node{f.n}, tail...))
			}
		}
	}
	return out
}

func countNodes(l []*Node) int {
	n := 0
	for _, c := range l {
		n += 1 + countNodes(c.Children)
	}
	return n
}

func enumChildrenExact(k int, names []string) [][]*Node {
	var out [][]*Node
	for _, l := range enumChildren(k, names) {
		if countNodes(l) == k {
			out = append(out, l)
		}
	}
	return out
}

// genC01Exhaustive: all trees with at most maxNodes nodes below the root (ordered listings included) x all
// combinations of the boolean options.
func genC01Exhaustive(maxNodes int) []*Case {
	var out []*Case
	seen := map[string]bool{}
	for _, ch := range enumChildren(maxNodes, []string{"a", "b", ".gitignore"}) {
		root := &Node{Name: ".", Kind: "dir", Children: ch}
		key := fmt.Sprint(coqNode(root))
		if seen[key] {
			continue
		}
		seen[key] = true
		hasDirA := false
		for _, c := range ch {
			if c.Name == "a" && c.isDir() {
				hasDirA = true
			}
		}
		for mask := 0; mask < 128; mask++ {
			if mask&32 == 0 && mask&64 != 0 {
				continue // the sub-directory cut-off is only enumerated together with a requested path
			}
			if mask&32 != 0 && !hasDirA {
				continue // requested path "a" must be a directory of the tree
			}
			c := &Case{Stream: "exhaustive", Roots: []*Node{clone(root)}, Exts: []string{"e0"}, Req: [][2]string{}, Extract: []XEntry{}, PatFiles: [][]string{{"a"}}}
			for _, p := range pathsOf(root, func(n *Node) bool { return !n.isDir() }) {
				c.Req = append(c.Req, [2]string{"e0", p})
				c.Extract = append(c.Extract, XEntry{Ext: "e0", Path: p, Pkgs: []Pkg{{Name: "p", Version: "1", Locs: []string{p}}}})
			}
			if mask&1 != 0 {
				c.SkipList = []string{"a"}
			}
			if mask&2 != 0 {
				c.Regex = sp("a$")
			}
			if mask&4 != 0 {
				c.Glob = sp("b")
			}
			c.Gitignore = mask&8 != 0
			if mask&16 != 0 {
				c.MaxSize = 1
			}
			if mask&32 != 0 {
				c.Paths = []string{"a"}
			}
			c.IgnoreSub = mask&64 != 0
			out = append(out, c)
		}
	}
	return out
}

// genC08RootOrder: one multi-root content in every order of its roots (one group): the set of plugin statuses and the
// multiset of packages must not depend on the order.
func genC08RootOrder(r *rand.Rand, group int) []*Case {
	base := genC08Multi(r)
	base.Stream = "rootorder"
	base.Group = group
	base.Variant = "base"
	out := []*Case{base}
	n := len(base.Roots)
	for k := 1; k < 5; k++ {
		v := copyCase(base)
		v.Variant = fmt.Sprintf("order%d", k)
		perm := r.Perm(n)
		v.Roots = nil
		for _, i := range perm {
			v.Roots = append(v.Roots, clone(base.Roots[i]))
		}
		out = append(out, v)
	}
	return out
}

// ---------------------------------------------------------------- shared walk-context state: several roots / several paths

// genSharedRoots: n roots that are variations of one content (same relative directories and files, different sizes and
// kinds, an entry missing here and there -- in the first root too), so that state kept in the shared walk context
// (skip sets, lazy stat, gitignore stack, counters) meets the same relative path again in the next root.
func genSharedRoots(r *rand.Rand, n int, o genOpts, nPat int) []*Node {
	b := o.budget
	base := genDir(r, ".", 0, &b, o, nPat)
	var roots []*Node
	for i := 0; i < n; i++ {
		v := clone(base)
		var rec func(x *Node)
		rec = func(x *Node) {
			var keep []*Node
			for _, c := range x.Children {
				if c.Name != ".gitignore" && r.Intn(100) < 12 {
					continue // missing in this root
				}
				if !c.isDir() && c.Name != ".gitignore" {
					if r.Intn(100) < 60 {
						c.Size = sizePool[r.Intn(len(sizePool))]
					}
					if r.Intn(100) < 15 {
						c.Kind = []string{"reg", "sym"}[r.Intn(2)]
						c.Bits = 0
					}
				}
				keep = append(keep, c)
				rec(c)
			}
			x.Children = keep
			if i > 0 && len(x.Children) > 1 && r.Intn(2) == 0 {
				k := len(x.Children)
				x.Children = append([]*Node{x.Children[k-1]}, x.Children[:k-1]...)
			}
		}
		rec(v)
		roots = append(roots, v)
	}
	return roots
}

// sharedOptions applies every option dimension of the single-root streams to a multi-root case.
func sharedOptions(r *rand.Rand, c *Case) {
	seen := map[string]bool{}
	var dirs []string
	for _, root := range c.Roots {
		for _, p := range pathsOf(root, func(n *Node) bool { return n.isDir() && n != root }) {
			if !seen[p] {
				seen[p] = true
				dirs = append(dirs, p)
			}
		}
	}
	sort.Strings(dirs)
	if r.Intn(100) < 55 {
		c.SkipList = pickSome(r, dirs, 2)
	}
	if r.Intn(100) < 25 {
		c.Regex = sp(regexPool[r.Intn(len(regexPool))])
	}
	if r.Intn(100) < 25 {
		c.Glob = sp(globPool[r.Intn(len(globPool))])
	}
	c.Symlinks = r.Intn(100) < 40
	if r.Intn(100) < 50 {
		c.MaxSize = []int{1, 5, 10}[r.Intn(3)]
	}
}

// genMultiShared: a multi-root case over shared content with options, tables and (optionally) stat-consulting extractors.
func genMultiShared(r *rand.Rand, stream string) *Case {
	c := &Case{Stream: stream}
	o := genOpts{maxDepth: 2, maxFan: 3, budget: 9, gitignore: r.Intn(100) < 40}
	c.Gitignore = o.gitignore
	nPat := 0
	if o.gitignore {
		c.PatFiles = genPatFiles(r)
		nPat = len(c.PatFiles)
	}
	c.Roots = genSharedRoots(r, 2+r.Intn(2), o, nPat)
	sharedOptions(r, c)
	genTables(r, c, 1+r.Intn(2), 20)
	for _, e := range c.Exts {
		for _, root := range c.Roots {
			for _, p := range pathsOf(root, func(x *Node) bool { return !x.isDir() }) {
				has := false
				for _, q := range c.Req {
					if q[0] == e && q[1] == p {
						has = true
					}
				}
				if !has && r.Intn(100) < 60 {
					c.Req = append(c.Req, [2]string{e, p})
					if r.Intn(2) == 0 {
						c.Extract = append(c.Extract, XEntry{Ext: e, Path: p, Pkgs: []Pkg{{Name: "p", Version: "1", Locs: []string{p}}}})
					}
				}
			}
		}
	}
	genStatReq(r, c, 35)
	return c
}

// genMultiPath: one root, PathsToExtract of length 2..3 mixing directories and files in both orders, with .gitignore
// files of ancestors that match requested files; optionally a requested path that cannot be stat'ed at a chosen position.
func genMultiPath(r *rand.Rand, stream string, statFault bool) *Case {
	c := &Case{Stream: stream, Gitignore: r.Intn(100) < 75}
	pick := func() string { return namePool[r.Intn(len(namePool))] }
	f := pick()
	sub := pick()
	for sub == f {
		sub = pick()
	}
	x := pick()
	c.PatFiles = [][]string{{f}, {"*"}, {sub + "/"}}
	o := genOpts{maxDepth: 1, maxFan: 3, budget: 4}
	b := o.budget
	subdir := genDir(r, sub, 1, &b, o, 0)
	if len(subdir.Children) == 0 {
		subdir.Children = []*Node{{Name: f, Kind: "reg", Size: 1}}
	}
	xdir := &Node{Name: x, Kind: "dir", Children: []*Node{
		{Name: ".gitignore", Kind: "reg", Size: 3, Data: 1 + r.Intn(2)},
		subdir,
		{Name: f, Kind: "reg", Size: sizePool[r.Intn(len(sizePool))]},
	}}
	if sub == ".gitignore" || f == ".gitignore" {
		xdir.Children = xdir.Children[1:]
	}
	b = 5
	root := genDir(r, ".", 0, &b, genOpts{maxDepth: 1, maxFan: 3, budget: 5}, 0)
	var keep []*Node
	for _, ch := range root.Children {
		if ch.Name != x {
			keep = append(keep, ch)
		}
	}
	root.Children = append(keep, xdir)
	r.Shuffle(len(root.Children), func(i, j int) { root.Children[i], root.Children[j] = root.Children[j], root.Children[i] })
	c.Roots = []*Node{root}
	dirP, fileP := x+"/"+sub, x+"/"+f
	cands := [][]string{{dirP, fileP}, {fileP, dirP}, {x, fileP}, {fileP, x, dirP}, {dirP, x}}
	c.Paths = append([]string{}, cands[r.Intn(len(cands))]...)
	if r.Intn(4) == 0 {
		others := pathsOf(root, func(n *Node) bool { return n != root })
		c.Paths = append(c.Paths, others[r.Intn(len(others))])
	}
	if r.Intn(100) < 25 {
		c.MaxSize = []int{1, 5, 10}[r.Intn(3)]
	}
	c.Symlinks = r.Intn(100) < 30
	genTables(r, c, 1+r.Intn(2), 15)
	for _, e := range c.Exts {
		for _, p := range pathsOf(root, func(n *Node) bool { return !n.isDir() }) {
			has := false
			for _, q := range c.Req {
				if q[0] == e && q[1] == p {
					has = true
				}
			}
			if !has && r.Intn(100) < 75 {
				c.Req = append(c.Req, [2]string{e, p})
				c.Extract = append(c.Extract, XEntry{Ext: e, Path: p, Pkgs: []Pkg{{Name: "p", Version: "1", Locs: []string{p}}}})
			}
		}
	}
	if statFault {
		// a requested path at a chosen position cannot be stat'ed
		k := r.Intn(len(c.Paths))
		if n := findNode(root, c.Paths[k]); n != nil {
			n.FStat = true
			n.ErrKind = pickKind(r)
			c.Note = fmt.Sprintf("stat:%s:0 (requested path %d of %d)", c.Paths[k], k+1, len(c.Paths))
		}
		if r.Intn(3) == 0 {
			c.Paths = append([]string{"missing/x"}, c.Paths...)
		}
		c.Fatal = r.Intn(5) == 0
	}
	return c
}

// genMultiFaults: a multi-root case over shared content with 1..2 faults (open-dir, readdir, open/fstat of a file, stat of a
// root) in chosen roots: a fault in one root must not change what another root yields.
func genMultiFaults(r *rand.Rand) *Case {
	c := genMultiShared(r, "multiroot-faults")
	c.StatReq = nil
	if r.Intn(2) == 0 {
		c.MaxSize = 0
	}
	nf := 1 + r.Intn(2)
	var notes []string
	for i := 0; i < nf; i++ {
		k := r.Intn(len(c.Roots))
		ss := sites(c.Roots[k])
		var usable []site
		for _, s := range ss {
			if s.op == "stat" && s.path != "." {
				continue // lazy stat: kept for the single-root stream
			}
			if strings.HasSuffix(s.path, ".gitignore") {
				continue
			}
			usable = append(usable, s)
		}
		if len(usable) == 0 {
			continue
		}
		s := usable[r.Intn(len(usable))]
		inject(c.Roots[k], s, pickKind(r))
		notes = append(notes, fmt.Sprintf("%s:root%d/%s:%d", s.op, k, s.path, s.k))
	}
	c.Note = strings.Join(notes, ",")
	c.Fatal = r.Intn(6) == 0
	return c
}

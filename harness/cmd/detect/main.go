// Command detect drives detector.Run + packageindex.New and the whole scalibr.Scan with fake
// extractors and fake detectors (C20) and writes (a) a Coq cases file, (b) a JSONL side file.
//
// A case = inventory (filesystem packages, standalone packages; with and without purl) + 0..4 fake
// detectors (finding lists with shared/distinct advisory IDs, equal/unequal bodies, nil advisory, nil
// ID, errors, optional context cancellation, optional *Finding pointers shared between detectors).
// Also observed: the detectors' own Finding values after Run (Run must tag copies, not write through the pointers).
// Observed: every Scan call (detector, the index it was handed: GetSpecific for every (type,name) of
// the universe, GetAllOfType, GetAll), findings with their Detectors tag, plugin statuses, error /
// ScanResult.Status.
package main

import (
	"context"
	"encoding/json"
	"errors"
	"flag"
	"fmt"
	"math/rand"
	"os"
	"reflect"
	"sort"
	"strconv"
	"strings"
	"testing/fstest"

	scalibr "github.com/google/osv-scalibr"
	"github.com/google/osv-scalibr/detector"
	"github.com/google/osv-scalibr/extractor"
	"github.com/google/osv-scalibr/extractor/filesystem"
	"github.com/google/osv-scalibr/extractor/standalone"
	scalibrfs "github.com/google/osv-scalibr/fs"
	"github.com/google/osv-scalibr/inventory"
	scalibrlog "github.com/google/osv-scalibr/log"
	"github.com/google/osv-scalibr/packageindex"
	"github.com/google/osv-scalibr/plugin"
	"github.com/google/osv-scalibr/purl"
	"github.com/google/osv-scalibr/stats"

	cf "verifharness/internal/coqfmt"
)

// ------------------------------------------------------------------------------------------------ case format

type jpkg struct {
	ID   uint64     `json:"id"`
	Purl *[2]uint64 `json:"purl"` // (type, name) or null
}
type jsev struct {
	Sev  uint64  `json:"sev"`
	CVSS *uint64 `json:"cvss"`
}
type jadv struct {
	ID    *[2]uint64 `json:"id"` // (publisher, reference) or null
	Type  uint64     `json:"type"`
	Title uint64     `json:"title"`
	Sev   *jsev      `json:"sev"`
	// "reflective" advisories (single-field-difference stream): every leaf of detector.Advisory populated by
	// reflection, then one mutation applied.  Body / ModelID are computed by the harness (independent
	// structural comparison): equal advisory values <-> equal body ids.
	Full    bool       `json:"full,omitempty"`
	Mut     string     `json:"mut,omitempty"`
	Body    *uint64    `json:"body,omitempty"`
	ModelID *[2]uint64 `json:"model_id,omitempty"`
}
type jfinding struct {
	Ptr    uint64 `json:"ptr"`
	Adv    *jadv  `json:"adv"`
	Extra  uint64 `json:"extra"`
	Target uint64 `json:"target"`
}
type jdet struct {
	Name    uint64     `json:"name"`
	Version int        `json:"version"`
	Results []jfinding `json:"results"`
	Fails   bool       `json:"fails"`
	Cancels bool       `json:"cancels"`
}
type jcall struct {
	Det      uint64     `json:"det"`
	Specific [][]uint64 `json:"specific"` // for (type,name) in universe order, ids in returned order
	OfType   [][]uint64 `json:"of_type"`  // per type, ids sorted
	All      []uint64   `json:"all"`      // ids sorted
}
type jtagged struct {
	Adv    *jadv    `json:"adv"`
	Extra  uint64   `json:"extra"`
	Target uint64   `json:"target"`
	Dets   []uint64 `json:"detectors"`
}
type jstatus struct {
	Name    uint64 `json:"name"`
	Version int    `json:"version"`
	Status  uint64 `json:"status"`
}
type jheap struct {
	Ptr  uint64   `json:"ptr"`
	Dets []uint64 `json:"detectors"`
}
type jrun struct {
	Calls    []jcall   `json:"calls"`
	Findings []jtagged `json:"findings"`
	Status   []jstatus `json:"status"`
	Err      string    `json:"err"` // none | ctx | other
	// the Detectors field of the detectors' OWN Finding values after Run (per pointer, sorted)
	Heap []jheap `json:"own_findings_after"`
}
type jscan struct {
	Calls    []jcall   `json:"calls"`
	Findings []jtagged `json:"findings"`
	Status   []jstatus `json:"plugin_status"`
	Failed   bool      `json:"failed"`
	Packages []uint64  `json:"packages"` // ids in ScanResult.Inventory.Packages, sorted
}
type jcase struct {
	Stream string `json:"stream"`
	FsPkgs []jpkg `json:"fs_pkgs"`
	SaPkgs []jpkg `json:"sa_pkgs"`
	Dets   []jdet `json:"dets"`
	Ctx0   bool   `json:"ctx0"`
	Run    *jrun  `json:"run,omitempty"`
	Scan   *jscan `json:"scan,omitempty"`
	Coq    string `json:"coq,omitempty"`
}

const nTypes, nNames = 3, 3

var typeStr = []string{"deb", "pypi", "golang"}
var nameStr = []string{"a", "b", "c"}

const (
	fsExtName = 900
	saExtName = 901
)

func plugName(n uint64) string { return fmt.Sprintf("plug%04d", n) }
func plugID(s string) uint64 {
	var n uint64
	if _, err := fmt.Sscanf(s, "plug%d", &n); err != nil {
		panic("unexpected plugin name " + s)
	}
	return n
}

type quietLogger struct{}

func (quietLogger) Errorf(string, ...any) {}
func (quietLogger) Warnf(string, ...any)  {}
func (quietLogger) Infof(string, ...any)  {}
func (quietLogger) Debugf(string, ...any) {}
func (quietLogger) Error(...any)          {}
func (quietLogger) Warn(...any)           {}
func (quietLogger) Info(...any)           {}
func (quietLogger) Debug(...any)          {}

// ------------------------------------------------------------------------------------------------ fakes

type meta struct {
	id   uint64
	purl *[2]uint64
}

func toPURL(p *extractor.Package) *purl.PackageURL {
	m := p.Metadata.(*meta)
	if m.purl == nil {
		return nil
	}
	return &purl.PackageURL{Type: typeStr[m.purl[0]], Name: nameStr[m.purl[1]], Version: p.Version}
}

func mkPkgs(ps []jpkg) []*extractor.Package {
	out := []*extractor.Package{}
	for _, p := range ps {
		out = append(out, &extractor.Package{Name: fmt.Sprintf("pkg%d", p.ID), Version: "1", Locations: []string{"f"}, Metadata: &meta{p.ID, p.Purl}})
	}
	return out
}

type fakeExt struct {
	name uint64
	pkgs []jpkg
}

func (e *fakeExt) Name() string                              { return plugName(e.name) }
func (e *fakeExt) Version() int                              { return 1 }
func (e *fakeExt) Requirements() *plugin.Capabilities        { return &plugin.Capabilities{} }
func (e *fakeExt) ToPURL(p *extractor.Package) *purl.PackageURL { return toPURL(p) }
func (e *fakeExt) Ecosystem(p *extractor.Package) string     { return "" }

type fakeFsExt struct{ fakeExt }

func (e *fakeFsExt) FileRequired(api filesystem.FileAPI) bool { return api.Path() == "f" }
func (e *fakeFsExt) Extract(ctx context.Context, in *filesystem.ScanInput) (inventory.Inventory, error) {
	return inventory.Inventory{Packages: mkPkgs(e.pkgs)}, nil
}

type fakeSaExt struct{ fakeExt }

func (e *fakeSaExt) Extract(ctx context.Context, in *standalone.ScanInput) (inventory.Inventory, error) {
	return inventory.Inventory{Packages: mkPkgs(e.pkgs)}, nil
}

type trace struct {
	calls  []jcall
	cancel context.CancelFunc
}

type fakeDet struct {
	d    jdet
	heap map[uint64]*detector.Finding
	tr   *trace
}

func (f *fakeDet) Name() string                       { return plugName(f.d.Name) }
func (f *fakeDet) Version() int                       { return f.d.Version }
func (f *fakeDet) Requirements() *plugin.Capabilities { return &plugin.Capabilities{} }
func (f *fakeDet) RequiredExtractors() []string       { return nil }
func (f *fakeDet) Scan(ctx context.Context, root *scalibrfs.ScanRoot, px *packageindex.PackageIndex) ([]*detector.Finding, error) {
	f.tr.calls = append(f.tr.calls, observeIndex(f.d.Name, px))
	if f.d.Cancels {
		f.tr.cancel()
	}
	var out []*detector.Finding
	for _, r := range f.d.Results {
		out = append(out, f.heap[r.Ptr])
	}
	if f.d.Fails {
		return out, errors.New("fake detector failure")
	}
	return out, nil
}

func pkgIDs(ps []*extractor.Package, sorted bool) []uint64 {
	out := []uint64{}
	for _, p := range ps {
		out = append(out, p.Metadata.(*meta).id)
	}
	if sorted {
		sort.Slice(out, func(i, j int) bool { return out[i] < out[j] })
	}
	return out
}

func observeIndex(det uint64, px *packageindex.PackageIndex) jcall {
	c := jcall{Det: det}
	for t := 0; t < nTypes; t++ {
		for n := 0; n < nNames; n++ {
			c.Specific = append(c.Specific, pkgIDs(px.GetSpecific(nameStr[n], typeStr[t]), false))
		}
		c.OfType = append(c.OfType, pkgIDs(px.GetAllOfType(typeStr[t]), true))
	}
	c.All = pkgIDs(px.GetAll(), true)
	return c
}

// ------------------------------------------------------------------------------------------------ reflective advisories

// fillBase populates every leaf reachable from v (pointers allocated, slices with one element).
func fillBase(v reflect.Value, path string) {
	switch v.Kind() {
	case reflect.Ptr:
		v.Set(reflect.New(v.Type().Elem()))
		fillBase(v.Elem(), path)
	case reflect.Struct:
		for i := 0; i < v.NumField(); i++ {
			if v.Field(i).CanSet() {
				fillBase(v.Field(i), joinPath(path, v.Type().Field(i).Name))
			}
		}
	case reflect.String:
		v.SetString("v:" + path)
	case reflect.Int, reflect.Int8, reflect.Int16, reflect.Int32, reflect.Int64:
		v.SetInt(1)
	case reflect.Uint, reflect.Uint8, reflect.Uint16, reflect.Uint32, reflect.Uint64:
		v.SetUint(1)
	case reflect.Float32, reflect.Float64:
		v.SetFloat(1.5)
	case reflect.Bool:
		v.SetBool(true)
	case reflect.Slice:
		sl := reflect.MakeSlice(v.Type(), 1, 1)
		fillBase(sl.Index(0), path+"[0]")
		v.Set(sl)
	}
}

func joinPath(p, f string) string {
	if p == "" {
		return f
	}
	return p + "." + f
}

// enumMuts lists every single-leaf mutation of a type: each scalar leaf, nil for each pointer,
// nil / empty / one-more-element for each slice, empty-instead-of-nil for each map.
func enumMuts(t reflect.Type, path string) []string {
	switch t.Kind() {
	case reflect.Ptr:
		return append([]string{path + "=nil"}, enumMuts(t.Elem(), path)...)
	case reflect.Struct:
		var out []string
		for i := 0; i < t.NumField(); i++ {
			if t.Field(i).IsExported() {
				out = append(out, enumMuts(t.Field(i).Type, joinPath(path, t.Field(i).Name))...)
			}
		}
		return out
	case reflect.Slice:
		return append([]string{path + "=nil", path + "=empty", path + "+1"}, enumMuts(t.Elem(), path+"[0]")...)
	case reflect.Map:
		return []string{path + "=empty"}
	case reflect.String, reflect.Bool, reflect.Int, reflect.Int8, reflect.Int16, reflect.Int32, reflect.Int64,
		reflect.Uint, reflect.Uint8, reflect.Uint16, reflect.Uint32, reflect.Uint64, reflect.Float32, reflect.Float64:
		return []string{path}
	}
	return nil
}

func nav(v reflect.Value, path string) reflect.Value {
	if path == "" {
		return v
	}
	for _, seg := range strings.Split(path, ".") {
		for v.Kind() == reflect.Ptr {
			v = v.Elem()
		}
		idx := strings.HasSuffix(seg, "[0]")
		seg = strings.TrimSuffix(seg, "[0]")
		v = v.FieldByName(seg)
		if idx {
			v = v.Index(0)
		}
	}
	return v
}

func applyMut(root reflect.Value, mut string) {
	switch {
	case strings.HasSuffix(mut, "=nil"):
		v := nav(root, strings.TrimSuffix(mut, "=nil"))
		v.Set(reflect.Zero(v.Type()))
	case strings.HasSuffix(mut, "=empty"):
		v := nav(root, strings.TrimSuffix(mut, "=empty"))
		if v.Kind() == reflect.Map {
			v.Set(reflect.MakeMap(v.Type()))
		} else {
			v.Set(reflect.MakeSlice(v.Type(), 0, 0))
		}
	case strings.HasSuffix(mut, "+1"):
		v := nav(root, strings.TrimSuffix(mut, "+1"))
		v.Set(reflect.Append(v, v.Index(0)))
	default:
		v := nav(root, mut)
		switch v.Kind() {
		case reflect.String:
			v.SetString(v.String() + "'")
		case reflect.Int, reflect.Int8, reflect.Int16, reflect.Int32, reflect.Int64:
			v.SetInt(v.Int() + 1)
		case reflect.Uint, reflect.Uint8, reflect.Uint16, reflect.Uint32, reflect.Uint64:
			v.SetUint(v.Uint() + 1)
		case reflect.Float32, reflect.Float64:
			v.SetFloat(v.Float() + 0.5)
		case reflect.Bool:
			v.SetBool(!v.Bool())
		default:
			panic("cannot mutate " + mut)
		}
	}
}

// canon is the harness's own structural serialisation (NOT reflect.DeepEqual, NOT the code under test):
// two values are "equal" for the model iff their canon strings are equal.
func canon(v reflect.Value) string {
	switch v.Kind() {
	case reflect.Ptr:
		if v.IsNil() {
			return "nil"
		}
		return "&" + canon(v.Elem())
	case reflect.Struct:
		var sb strings.Builder
		sb.WriteString("{")
		for i := 0; i < v.NumField(); i++ {
			sb.WriteString(v.Type().Field(i).Name + ":" + canon(v.Field(i)) + ";")
		}
		sb.WriteString("}")
		return sb.String()
	case reflect.Slice:
		if v.IsNil() {
			return "nil[]"
		}
		it := make([]string, v.Len())
		for i := range it {
			it[i] = canon(v.Index(i))
		}
		return "[" + strings.Join(it, ",") + "]"
	case reflect.Map:
		if v.IsNil() {
			return "nilmap"
		}
		var it []string
		for _, k := range v.MapKeys() {
			it = append(it, canon(k)+"=>"+canon(v.MapIndex(k)))
		}
		sort.Strings(it)
		return "map[" + strings.Join(it, ",") + "]"
	case reflect.String:
		return strconv.Quote(v.String())
	case reflect.Float32, reflect.Float64:
		return strconv.FormatFloat(v.Float(), 'g', -1, 64)
	case reflect.Interface:
		if v.IsNil() {
			return "nilif"
		}
		return canon(v.Elem())
	default:
		return fmt.Sprintf("%v", v.Interface())
	}
}

// per-case numbering of distinct advisory values and distinct advisory IDs (first appearance)
type advTable struct {
	bodies map[string]uint64
	ids    map[string]uint64
}

var curTab = &advTable{map[string]uint64{}, map[string]uint64{}}

func number(m map[string]uint64, k string) uint64 {
	if n, ok := m[k]; ok {
		return n
	}
	n := uint64(len(m))
	m[k] = n
	return n
}

func mkFullAdv(a *jadv) *detector.Advisory {
	adv := &detector.Advisory{}
	root := reflect.ValueOf(adv).Elem()
	fillBase(root, "")
	if a.ID != nil && adv.ID != nil {
		adv.ID.Publisher, adv.ID.Reference = fmt.Sprintf("PUB%d", a.ID[0]), fmt.Sprintf("REF-%d", a.ID[1])
	}
	if a.Mut != "" {
		applyMut(root, a.Mut)
	}
	return adv
}

// describeFull computes the model view (body id, model id) of a reflective advisory value
func describeFull(adv *detector.Advisory, out *jadv) {
	b := number(curTab.bodies, canon(reflect.ValueOf(adv)))
	out.Full, out.Body = true, &b
	out.ModelID = nil
	if adv.ID != nil {
		out.ModelID = &[2]uint64{1000, number(curTab.ids, canon(reflect.ValueOf(adv.ID)))}
	}
}

func prepareFull(c *jcase) {
	curTab = &advTable{map[string]uint64{}, map[string]uint64{}}
	for _, d := range c.Dets {
		for _, r := range d.Results {
			if r.Adv != nil && r.Adv.Full {
				describeFull(mkFullAdv(r.Adv), r.Adv)
			}
		}
	}
}

func mkAdv(a *jadv) *detector.Advisory {
	if a == nil {
		return nil
	}
	if a.Full {
		return mkFullAdv(a)
	}
	adv := &detector.Advisory{Type: detector.TypeEnum(a.Type), Title: fmt.Sprintf("title%d", a.Title),
		Description: fmt.Sprintf("description%d", a.Title), Recommendation: "fix it"}
	if a.ID != nil {
		adv.ID = &detector.AdvisoryID{Publisher: fmt.Sprintf("PUB%d", a.ID[0]), Reference: fmt.Sprintf("REF-%d", a.ID[1])}
	}
	if a.Sev != nil {
		adv.Sev = &detector.Severity{Severity: detector.SeverityEnum(a.Sev.Sev)}
		if a.Sev.CVSS != nil {
			adv.Sev.CVSSV3 = &detector.CVSS{BaseScore: float32(*a.Sev.CVSS)}
		}
	}
	return adv
}

func readAdv(a *detector.Advisory) *jadv {
	if a == nil {
		return nil
	}
	out := &jadv{Type: uint64(a.Type)}
	if _, err := fmt.Sscanf(a.Title, "title%d", &out.Title); err != nil {
		// a reflective advisory: numbered by the harness's own structural comparison
		describeFull(a, out)
		return out
	}
	if a.ID != nil {
		var id [2]uint64
		fmt.Sscanf(a.ID.Publisher, "PUB%d", &id[0])
		fmt.Sscanf(a.ID.Reference, "REF-%d", &id[1])
		out.ID = &id
	}
	if a.Sev != nil {
		out.Sev = &jsev{Sev: uint64(a.Sev.Severity)}
		if a.Sev.CVSSV3 != nil {
			c := uint64(a.Sev.CVSSV3.BaseScore)
			out.Sev.CVSS = &c
		}
	}
	return out
}

func mkFinding(f jfinding) *detector.Finding {
	out := &detector.Finding{Adv: mkAdv(f.Adv), Extra: fmt.Sprintf("x%d", f.Extra)}
	if f.Target != 0 {
		out.Target = &detector.TargetDetails{Location: []string{fmt.Sprintf("loc%d", f.Target)}}
	}
	return out
}

func readFinding(f *detector.Finding) jtagged {
	out := jtagged{Adv: readAdv(f.Adv), Dets: []uint64{}}
	fmt.Sscanf(f.Extra, "x%d", &out.Extra)
	if f.Target != nil {
		fmt.Sscanf(f.Target.Location[0], "loc%d", &out.Target)
	}
	for _, d := range f.Detectors {
		out.Dets = append(out.Dets, plugID(d))
	}
	return out
}

func readStatus(ss []*plugin.Status) []jstatus {
	out := []jstatus{}
	for _, s := range ss {
		out = append(out, jstatus{Name: plugID(s.Name), Version: s.Version, Status: uint64(s.Status.Status)})
	}
	return out
}

// fresh detectors (and a fresh heap of findings) for one execution
func mkDets(c *jcase, tr *trace) []detector.Detector {
	ds, _ := mkDetsHeap(c, tr)
	return ds
}

func mkDetsHeap(c *jcase, tr *trace) ([]detector.Detector, map[uint64]*detector.Finding) {
	heap := map[uint64]*detector.Finding{}
	for _, d := range c.Dets {
		for _, r := range d.Results {
			if _, ok := heap[r.Ptr]; !ok {
				heap[r.Ptr] = mkFinding(r)
			}
		}
	}
	out := []detector.Detector{}
	for _, d := range c.Dets {
		out = append(out, &fakeDet{d: d, heap: heap, tr: tr})
	}
	return out, heap
}

// ------------------------------------------------------------------------------------------------ execution

func execRun(c *jcase) *jrun {
	ctx, cancel := context.WithCancel(context.Background())
	defer cancel()
	if c.Ctx0 {
		cancel()
	}
	tr := &trace{cancel: cancel}
	// the packages as the two extraction phases would deliver them (Extractor set by the core library)
	fsx, sax := &fakeFsExt{fakeExt{fsExtName, c.FsPkgs}}, &fakeSaExt{fakeExt{saExtName, c.SaPkgs}}
	pkgs := mkPkgs(c.FsPkgs)
	for _, p := range pkgs {
		p.Extractor = fsx
	}
	sp := mkPkgs(c.SaPkgs)
	for _, p := range sp {
		p.Extractor = sax
	}
	pkgs = append(pkgs, sp...)
	px, err := packageindex.New(pkgs)
	if err != nil {
		panic(err)
	}
	root := &scalibrfs.ScanRoot{FS: fstest.MapFS{}, Path: ""}
	dets, heap := mkDetsHeap(c, tr)
	findings, status, err := detector.Run(ctx, stats.NoopCollector{}, dets, root, px)
	r := &jrun{Calls: tr.calls, Findings: []jtagged{}, Status: readStatus(status), Err: "none", Heap: []jheap{}}
	var ps []uint64
	for p := range heap {
		ps = append(ps, p)
	}
	sort.Slice(ps, func(i, j int) bool { return ps[i] < ps[j] })
	for _, p := range ps {
		h := jheap{Ptr: p, Dets: []uint64{}}
		for _, d := range heap[p].Detectors {
			h.Dets = append(h.Dets, plugID(d))
		}
		r.Heap = append(r.Heap, h)
	}
	if r.Calls == nil {
		r.Calls = []jcall{}
	}
	for _, f := range findings {
		r.Findings = append(r.Findings, readFinding(f))
	}
	if err != nil {
		if errors.Is(err, context.Canceled) {
			r.Err = "ctx"
		} else {
			r.Err = "other"
		}
	}
	return r
}

func execScan(c *jcase) *jscan {
	ctx, cancel := context.WithCancel(context.Background())
	defer cancel()
	tr := &trace{cancel: cancel}
	mfs := fstest.MapFS{"f": &fstest.MapFile{Data: []byte("x")}}
	cfg := &scalibr.ScanConfig{
		FilesystemExtractors: []filesystem.Extractor{&fakeFsExt{fakeExt{fsExtName, c.FsPkgs}}},
		StandaloneExtractors: []standalone.Extractor{&fakeSaExt{fakeExt{saExtName, c.SaPkgs}}},
		Detectors:            mkDets(c, tr),
		Capabilities:         &plugin.Capabilities{},
		ScanRoots:            []*scalibrfs.ScanRoot{{FS: mfs, Path: ""}},
	}
	res := scalibr.New().Scan(ctx, cfg)
	s := &jscan{Calls: tr.calls, Findings: []jtagged{}, Status: readStatus(res.PluginStatus),
		Failed: res.Status.Status != plugin.ScanStatusSucceeded, Packages: pkgIDs(res.Inventory.Packages, true)}
	if s.Calls == nil {
		s.Calls = []jcall{}
	}
	for _, f := range res.Inventory.Findings {
		s.Findings = append(s.Findings, readFinding(f))
	}
	return s
}

// ------------------------------------------------------------------------------------------------ Coq printing

func ids(l []uint64) string {
	it := make([]string, len(l))
	for i, x := range l {
		it[i] = cf.N(x)
	}
	return cf.List(it)
}
func pkgCoq(p jpkg) string {
	pu := "None"
	if p.Purl != nil {
		pu = fmt.Sprintf("(Some (%s, %s))", cf.N(p.Purl[0]), cf.N(p.Purl[1]))
	}
	return fmt.Sprintf("(mkPkg %s %s)", cf.N(p.ID), pu)
}
func pkgsCoq(ps []jpkg) string {
	it := make([]string, len(ps))
	for i, p := range ps {
		it[i] = pkgCoq(p)
	}
	return cf.List(it)
}
func advCoq(a *jadv) string {
	if a == nil {
		return "None"
	}
	if a.Full {
		id := "None"
		if a.ModelID != nil {
			id = fmt.Sprintf("(Some (%s, %s))", cf.N(a.ModelID[0]), cf.N(a.ModelID[1]))
		}
		return fmt.Sprintf("(Some (mkAdv %s 99 %s None))", id, cf.N(*a.Body))
	}
	id := "None"
	if a.ID != nil {
		id = fmt.Sprintf("(Some (%s, %s))", cf.N(a.ID[0]), cf.N(a.ID[1]))
	}
	sev := "None"
	if a.Sev != nil {
		cv := "None"
		if a.Sev.CVSS != nil {
			cv = "(Some " + cf.N(*a.Sev.CVSS) + ")"
		}
		sev = fmt.Sprintf("(Some (%s, %s))", cf.N(a.Sev.Sev), cv)
	}
	return fmt.Sprintf("(Some (mkAdv %s %s %s %s))", id, cf.N(a.Type), cf.N(a.Title), sev)
}
func findingCoq(adv *jadv, extra, target uint64) string {
	return fmt.Sprintf("(mkFinding %s %s %s)", advCoq(adv), cf.N(extra), cf.N(target))
}
func detCoq(d jdet) string {
	it := make([]string, len(d.Results))
	for i, r := range d.Results {
		it[i] = fmt.Sprintf("(%s, %s)", cf.N(r.Ptr), findingCoq(r.Adv, r.Extra, r.Target))
	}
	return fmt.Sprintf("(mkDet %s %s %s %s %s)", cf.N(d.Name), cf.Z(int64(d.Version)), cf.List(it), cf.Bool(d.Fails), cf.Bool(d.Cancels))
}
func callsCoq(cs []jcall) string {
	it := make([]string, len(cs))
	for i, c := range cs {
		sp := make([]string, len(c.Specific))
		for j, l := range c.Specific {
			sp[j] = ids(l)
		}
		ot := make([]string, len(c.OfType))
		for j, l := range c.OfType {
			ot[j] = ids(l)
		}
		it[i] = fmt.Sprintf("(mkCall %s %s %s %s)", cf.N(c.Det), cf.List(sp), cf.List(ot), ids(c.All))
	}
	return cf.List(it)
}
func taggedCoq(fs []jtagged) string {
	it := make([]string, len(fs))
	for i, f := range fs {
		it[i] = fmt.Sprintf("(mkTagged %s %s)", findingCoq(f.Adv, f.Extra, f.Target), ids(f.Dets))
	}
	return cf.List(it)
}
func statusCoq(ss []jstatus) string {
	it := make([]string, len(ss))
	for i, s := range ss {
		it[i] = fmt.Sprintf("(mkStatus %s %s %s)", cf.N(s.Name), cf.Z(int64(s.Version)), cf.N(s.Status))
	}
	return cf.List(it)
}
func caseCoq(c *jcase) string {
	dets := make([]string, len(c.Dets))
	for i, d := range c.Dets {
		dets[i] = detCoq(d)
	}
	errs := map[string]string{"none": "None", "ctx": "(Some ErrCtx)", "other": "(Some ErrAdvisory)"}
	hp := make([]string, len(c.Run.Heap))
	for i, h := range c.Run.Heap {
		hp[i] = fmt.Sprintf("(%s, %s)", cf.N(h.Ptr), ids(h.Dets))
	}
	run := fmt.Sprintf("(mkRunObs %s %s %s %s %s)", callsCoq(c.Run.Calls), taggedCoq(c.Run.Findings), statusCoq(c.Run.Status), errs[c.Run.Err], cf.List(hp))
	scan := "None"
	if c.Scan != nil {
		scan = fmt.Sprintf("(Some (mkScanObs %s %s %s %s %s))", callsCoq(c.Scan.Calls), taggedCoq(c.Scan.Findings), statusCoq(c.Scan.Status), cf.Bool(c.Scan.Failed), ids(c.Scan.Packages))
	}
	return fmt.Sprintf("(mkCase %s %s %s %s %s %s)", pkgsCoq(c.FsPkgs), pkgsCoq(c.SaPkgs), cf.List(dets), cf.Bool(c.Ctx0), run, scan)
}

func execute(c *jcase) {
	prepareFull(c)
	c.Run = execRun(c)
	c.Scan = nil
	if !c.Ctx0 {
		c.Scan = execScan(c)
	}
	c.Coq = caseCoq(c)
}

// ------------------------------------------------------------------------------------------------ generation

// the finding alphabet of the exhaustive stream: nil advisory, advisory without ID, 2 IDs x 2 bodies
func alphaFinding(sym int, ptr uint64) jfinding {
	f := jfinding{Ptr: ptr, Extra: ptr % 3, Target: ptr % 2}
	switch sym {
	case 0:
	case 1:
		f.Adv = &jadv{Type: 1, Title: 1}
	default:
		s := sym - 2 // 0..3
		id := [2]uint64{0, uint64(s / 2)}
		f.Adv = &jadv{ID: &id, Type: 1, Title: uint64(1 + s%2), Sev: &jsev{Sev: 3}}
	}
	return f
}

func purlOf(k int) *[2]uint64 { // 0 = none, 1.. = (t,n)
	if k == 0 {
		return nil
	}
	k--
	return &[2]uint64{uint64(k / nNames), uint64(k % nNames)}
}

type gen struct {
	rng   *rand.Rand
	cases []*jcase
	invs  [][2][]jpkg
}

func (g *gen) add(c *jcase) {
	if c.FsPkgs == nil {
		c.FsPkgs = []jpkg{}
	}
	if c.SaPkgs == nil {
		c.SaPkgs = []jpkg{}
	}
	if c.Dets == nil {
		c.Dets = []jdet{}
	}
	for i := range c.Dets {
		if c.Dets[i].Results == nil {
			c.Dets[i].Results = []jfinding{}
		}
	}
	execute(c)
	g.cases = append(g.cases, c)
}

func (g *gen) randInv(max int) (fs, sa []jpkg) {
	n := g.rng.Intn(max + 1)
	for i := 0; i < n; i++ {
		p := jpkg{ID: uint64(i + 1)}
		if g.rng.Intn(4) != 0 {
			p.Purl = purlOf(1 + g.rng.Intn(nTypes*nNames))
			if g.rng.Intn(2) == 0 { // concentrate on few keys so that lists get longer than one
				p.Purl = purlOf(1 + g.rng.Intn(3))
			}
		}
		if g.rng.Intn(3) == 0 {
			sa = append(sa, p)
		} else {
			fs = append(fs, p)
		}
	}
	return
}

// all compositions of n into k non-negative parts
func compositions(n, k int) [][]int {
	if k == 0 {
		if n == 0 {
			return [][]int{{}}
		}
		return nil
	}
	var out [][]int
	for a := 0; a <= n; a++ {
		for _, rest := range compositions(n-a, k-1) {
			out = append(out, append([]int{a}, rest...))
		}
	}
	return out
}

func (g *gen) exhaustiveDetectors(maxDet, maxTotal int) {
	inv := 0
	for k := 0; k <= maxDet; k++ {
		for n := 0; n <= maxTotal; n++ {
			total := 1
			for i := 0; i < n; i++ {
				total *= 6
			}
			for _, comp := range compositions(n, k) {
				for code := 0; code < total; code++ {
					for flags := 0; flags < 1<<k; flags++ {
						c := &jcase{Stream: "exhaustive-detectors"}
						x := code
						ptr := uint64(1)
						for di := 0; di < k; di++ {
							d := jdet{Name: uint64(di + 1), Version: di, Fails: flags>>di&1 == 1}
							for j := 0; j < comp[di]; j++ {
								d.Results = append(d.Results, alphaFinding(x%6, ptr))
								x /= 6
								ptr++
							}
							c.Dets = append(c.Dets, d)
						}
						iv := g.invs[inv%len(g.invs)]
						inv++
						c.FsPkgs, c.SaPkgs = iv[0], iv[1]
						g.add(c)
					}
				}
			}
		}
	}
}

func (g *gen) exhaustiveIndex(maxPkgs int) {
	// every inventory of <= maxPkgs packages over {no purl, (0,0), (0,1), (1,0)}, three fs/standalone splits
	alpha := []int{0, 1, 2, 1 + nNames}
	var rec func(cur []int)
	rec = func(cur []int) {
		for split := 0; split < 3; split++ {
			if split > 0 && len(cur) == 0 {
				continue
			}
			var fs, sa []jpkg
			for i, a := range cur {
				p := jpkg{ID: uint64(i + 1), Purl: purlOf(a)}
				toSa := split == 1 || (split == 2 && i%2 == 1)
				if toSa {
					sa = append(sa, p)
				} else {
					fs = append(fs, p)
				}
			}
			g.invs = append(g.invs, [2][]jpkg{fs, sa})
			id := [2]uint64{0, 0}
			g.add(&jcase{Stream: "exhaustive-index", FsPkgs: fs, SaPkgs: sa, Dets: []jdet{
				{Name: 1, Version: 1, Results: []jfinding{{Ptr: 1, Adv: &jadv{ID: &id, Type: 1, Title: 1}, Extra: 1}}},
				{Name: 2, Version: 1}}})
		}
		if len(cur) == maxPkgs {
			return
		}
		for _, a := range alpha {
			rec(append(append([]int{}, cur...), a))
		}
	}
	rec(nil)
}

func (g *gen) randAdv() *jadv {
	r := g.rng
	if r.Intn(12) == 0 {
		return nil
	}
	a := &jadv{Type: uint64(r.Intn(2)) + 1, Title: uint64(1 + r.Intn(2))}
	if r.Intn(14) != 0 {
		a.ID = &[2]uint64{uint64(r.Intn(2)), uint64(r.Intn(3))}
	}
	switch r.Intn(4) {
	case 0:
	case 1:
		a.Sev = &jsev{Sev: 3}
	default:
		c := uint64(7 + r.Intn(2))
		a.Sev = &jsev{Sev: 3, CVSS: &c}
	}
	if r.Intn(3) != 0 { // mostly one canonical body per reference, so that consistent runs are frequent
		a.Type, a.Title, a.Sev = 1, 1, &jsev{Sev: 3}
		if a.ID != nil {
			a.Title = 1 + a.ID[1]
		}
	}
	return a
}

func (g *gen) random(n int, alias bool) {
	r := g.rng
	for i := 0; i < n; i++ {
		c := &jcase{Stream: "random"}
		if alias {
			c.Stream = "random-alias"
		}
		c.FsPkgs, c.SaPkgs = g.randInv(8)
		nd := r.Intn(5)
		ptr := uint64(1)
		var earlier []jfinding
		for di := 0; di < nd; di++ {
			d := jdet{Name: uint64(di + 1), Version: r.Intn(4), Fails: r.Intn(4) == 0}
			if di > 0 && r.Intn(10) == 0 {
				d.Name = uint64(1 + r.Intn(di)) // the same detector enabled twice
			}
			if !alias && r.Intn(25) == 0 {
				d.Cancels = true
			}
			nf := r.Intn(5)
			for j := 0; j < nf; j++ {
				if alias && len(earlier) > 0 && r.Intn(3) == 0 {
					d.Results = append(d.Results, earlier[r.Intn(len(earlier))]) // the same *Finding again
					continue
				}
				f := jfinding{Ptr: ptr, Adv: g.randAdv(), Extra: uint64(r.Intn(3)), Target: uint64(r.Intn(3))}
				if alias && f.Adv == nil {
					f.Adv = &jadv{ID: &[2]uint64{0, 0}, Type: 1, Title: 1, Sev: &jsev{Sev: 3}}
				}
				ptr++
				d.Results = append(d.Results, f)
				earlier = append(earlier, f)
			}
			c.Dets = append(c.Dets, d)
		}
		if !alias && r.Intn(40) == 0 {
			c.Ctx0 = true
		}
		g.add(c)
	}
}

// single-field-difference stream: for every leaf of detector.Advisory found by reflection (and nil for every
// pointer), two findings with the same advisory ID whose advisories differ in exactly that leaf.
func (g *gen) singleField() []string {
	muts := enumMuts(reflect.TypeOf(detector.Advisory{}), "")
	full := func(mut string) *jadv { return &jadv{Full: true, ID: &[2]uint64{0, 0}, Mut: mut} }
	f := func(ptr uint64, mut string) jfinding { return jfinding{Ptr: ptr, Adv: full(mut), Extra: ptr, Target: 1} }
	det := func(name uint64, fs ...jfinding) jdet { return jdet{Name: name, Version: 1, Results: fs} }
	add := func(ds ...jdet) {
		fs, sa := g.randInv(3)
		g.add(&jcase{Stream: "single-field-difference", FsPkgs: fs, SaPkgs: sa, Dets: ds})
	}
	add(det(1, f(1, "")), det(2, f(2, ""))) // control: two separately allocated equal advisories
	add(det(1, f(1, ""), f(2, "")))
	for _, m := range muts {
		add(det(1, f(1, "")), det(2, f(2, m)))
		add(det(1, f(1, m)), det(2, f(2, "")))
		add(det(1, f(1, ""), f(2, m)))
		add(det(1, f(1, m)), det(2, f(2, m))) // the same mutation twice: equal again
		add(det(1, f(1, "")), det(2, f(2, m)), det(3, f(3, "")))
	}
	return muts
}

func writeOut(cases []*jcase, vpath, jpath string) {
	var sb strings.Builder
	sb.WriteString("(* GENERATED by harness/cmd/detect: inputs + what detector.Run / scalibr.Scan did *)\n")
	sb.WriteString("From Coq Require Import List NArith ZArith Bool.\nFrom Scalibr Require Import Detect.Index Detect.Model Detect.Cases.\nImport ListNotations.\nOpen Scope N_scope.\n")
	items := make([]string, len(cases))
	for i, c := range cases {
		items[i] = c.Coq
	}
	sb.WriteString(cf.Chunked("cases", "dcase", items, 250))
	if err := os.WriteFile(vpath, []byte(sb.String()), 0o644); err != nil {
		panic(err)
	}
	f, err := os.Create(jpath)
	if err != nil {
		panic(err)
	}
	defer f.Close()
	enc := json.NewEncoder(f)
	for _, c := range cases {
		cc := *c
		cc.Coq = ""
		if err := enc.Encode(&cc); err != nil {
			panic(err)
		}
	}
}

func main() {
	out := flag.String("out", "", "Coq cases file")
	jsonl := flag.String("jsonl", "", "JSONL side file")
	seed := flag.Int64("seed", 1, "PRNG seed")
	maxTotal := flag.Int("maxtotal", 2, "exhaustive stream: total number of findings over all detectors")
	maxDet := flag.Int("maxdet", 3, "exhaustive stream: number of detectors")
	maxPkgs := flag.Int("maxpkgs", 3, "exhaustive index stream: packages per inventory")
	nrandom := flag.Int("random", 300, "random cases")
	nalias := flag.Int("alias", 100, "random cases with *Finding pointers shared between detectors")
	replay := flag.String("replay", "", "re-run the case(s) of a replay/known-finding json (field `case` or `witness`, or a bare case)")
	flag.Parse()
	scalibrlog.SetLogger(quietLogger{})

	if *replay != "" {
		raw, err := os.ReadFile(*replay)
		if err != nil {
			panic(err)
		}
		var wrap map[string]json.RawMessage
		_ = json.Unmarshal(raw, &wrap)
		for _, k := range []string{"case", "witness", "first_mismatch"} {
			if v, ok := wrap[k]; ok {
				raw = v
				break
			}
		}
		var c jcase
		if err := json.Unmarshal(raw, &c); err != nil {
			panic(err)
		}
		g := &gen{}
		g.add(&c)
		cq := c.Coq
		c.Coq = ""
		js, _ := json.Marshal(&c)
		fmt.Printf("observed: %s\n", js)
		fmt.Printf("coq-case: %s\n", cq)
		return
	}

	g := &gen{rng: rand.New(rand.NewSource(*seed))}
	g.exhaustiveIndex(*maxPkgs)
	muts := g.singleField()
	g.exhaustiveDetectors(*maxDet, *maxTotal)
	g.random(*nrandom, false)
	g.random(*nalias, true)
	writeOut(g.cases, *out, *jsonl)
	fmt.Printf("cases=%d inventories=%d single_field_mutations=%d: %s\n", len(g.cases), len(g.invs), len(muts), strings.Join(muts, " "))
}

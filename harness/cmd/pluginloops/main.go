// Command pluginloops drives the REAL scalibr.Scan, standalone.Run and detector.Run with fake standalone
// extractors and fake detectors that get the scan's context cancelled at a chosen point (before the scan,
// inside the walk's last Extract, inside the k-th plugin, right after the k-th plugin through the stats
// hook) and records which plugins were invoked and the resulting statuses (C10, plugin-loop half).
// Writes (a) a Coq cases file, (b) a JSONL side file.
package main

import (
	"context"
	"encoding/json"
	"errors"
	"flag"
	"fmt"
	"math/rand"
	"os"
	"sort"
	"strings"
	"testing/fstest"
	"time"

	scalibr "github.com/google/osv-scalibr"
	"github.com/google/osv-scalibr/detector"
	"github.com/google/osv-scalibr/extractor"
	"github.com/google/osv-scalibr/extractor/filesystem"
	"github.com/google/osv-scalibr/extractor/standalone"
	scalibrfs "github.com/google/osv-scalibr/fs"
	"github.com/google/osv-scalibr/inventory"
	scalibrlog "github.com/google/osv-scalibr/log"
	"github.com/google/osv-scalibr/packageindex"
	"github.com/google/osv-scalibr/plugin"
	"github.com/google/osv-scalibr/purl"
	"github.com/google/osv-scalibr/stats"

	cf "verifharness/internal/coqfmt"
)

type quietLogger struct{}

func (quietLogger) Errorf(string, ...any) {}
func (quietLogger) Warnf(string, ...any)  {}
func (quietLogger) Infof(string, ...any)  {}
func (quietLogger) Debugf(string, ...any) {}
func (quietLogger) Error(...any)          {}
func (quietLogger) Warn(...any)           {}
func (quietLogger) Info(...any)           {}
func (quietLogger) Debug(...any)          {}

// ------------------------------------------------------------------------------------------------ case format

type jpkg struct {
	ID   uint64     `json:"id"`
	Purl *[2]uint64 `json:"purl"`
}
type jsa struct {
	Name    uint64 `json:"name"`
	Version int    `json:"version"`
	Pkgs    []jpkg `json:"pkgs"`
	Fails   bool   `json:"fails"`
	Cancel  string `json:"cancel"` // "" | inside | after
}
type jdet struct {
	Name     uint64   `json:"name"`
	Version  int      `json:"version"`
	Findings []uint64 `json:"findings"` // finding ids; each gets its own advisory ID
	Fails    bool     `json:"fails"`
	Cancel   string   `json:"cancel"` // "" | inside | hook (stats.AfterDetectorRun)
}
type jstatus struct {
	Name    uint64 `json:"name"`
	Version int    `json:"version"`
	Status  uint64 `json:"status"`
}
type jwalk struct { // what filesystem.Run (probe run, same setup) returned: the input of the plugin phase
	Failed bool      `json:"failed"`
	Pkgs   []jpkg    `json:"pkgs"`
	Status []jstatus `json:"status"`
}
type jscanObs struct {
	Calls    []uint64    `json:"calls"`
	Failed   bool        `json:"failed"`
	Status   []jstatus   `json:"plugin_status"`
	Pkgs     []uint64    `json:"packages"` // sorted ids
	Findings [][2]uint64 `json:"findings"` // (finding id, detector)
}
type jsaObs struct {
	Calls  []uint64  `json:"calls"`
	Inv    []uint64  `json:"inventory"`
	Status []jstatus `json:"status"`
	Err    bool      `json:"err"`
}
type jdetObs struct {
	Calls    []uint64    `json:"calls"`
	Findings [][2]uint64 `json:"findings"`
	Status   []jstatus   `json:"status"`
	Err      string      `json:"err"` // none | ctx | other
}
type jcase struct {
	Stream    string    `json:"stream"`
	HasFs     bool      `json:"has_fs"`
	FsPkgs    []jpkg    `json:"fs_pkgs"`
	FsCancels bool      `json:"fs_cancels"`
	Ctx0      bool      `json:"ctx0"`
	Sas       []jsa     `json:"sas"`
	Dets      []jdet    `json:"dets"`
	Walk      *jwalk    `json:"walk,omitempty"`
	Scan      *jscanObs `json:"scan,omitempty"`
	SaRun     *jsaObs   `json:"standalone_run,omitempty"`
	DetRun    *jdetObs  `json:"detector_run,omitempty"`
	Coq       string    `json:"coq,omitempty"`
}

var typeStr = []string{"deb", "pypi", "golang"}
var nameStr = []string{"a", "b", "c"}

const fsExtName = 900

func plugName(n uint64) string { return fmt.Sprintf("plug%04d", n) }
func plugID(s string) uint64 {
	var n uint64
	if _, err := fmt.Sscanf(s, "plug%d", &n); err != nil {
		panic("unexpected plugin name " + s)
	}
	return n
}

// ------------------------------------------------------------------------------------------------ fakes

type meta struct {
	id   uint64
	purl *[2]uint64
}

func mkPkgs(ps []jpkg) []*extractor.Package {
	out := []*extractor.Package{}
	for _, p := range ps {
		out = append(out, &extractor.Package{Name: fmt.Sprintf("pkg%d", p.ID), Version: "1", Locations: []string{"f"}, Metadata: &meta{p.ID, p.Purl}})
	}
	return out
}

type env struct {
	calls  []uint64
	cancel context.CancelFunc
	hook   map[string]bool // detector names after whose run the stats hook cancels
}

type fakeExt struct{ name uint64 }

func (e *fakeExt) Name() string                       { return plugName(e.name) }
func (e *fakeExt) Version() int                       { return 1 }
func (e *fakeExt) Requirements() *plugin.Capabilities { return &plugin.Capabilities{} }
func (e *fakeExt) ToPURL(p *extractor.Package) *purl.PackageURL {
	m := p.Metadata.(*meta)
	if m.purl == nil {
		return nil
	}
	return &purl.PackageURL{Type: typeStr[m.purl[0]], Name: nameStr[m.purl[1]], Version: p.Version}
}
func (e *fakeExt) Ecosystem(p *extractor.Package) string { return "" }

type fakeFs struct {
	fakeExt
	pkgs    []jpkg
	cancels bool
	ev      *env
}

func (e *fakeFs) FileRequired(api filesystem.FileAPI) bool { return api.Path() == "f" }
func (e *fakeFs) Extract(ctx context.Context, in *filesystem.ScanInput) (inventory.Inventory, error) {
	if e.cancels {
		e.ev.cancel()
	}
	return inventory.Inventory{Packages: mkPkgs(e.pkgs)}, nil
}

type fakeSa struct {
	fakeExt
	s  jsa
	ev *env
}

func (e *fakeSa) Version() int { return e.s.Version }
func (e *fakeSa) Extract(ctx context.Context, in *standalone.ScanInput) (inventory.Inventory, error) {
	e.ev.calls = append(e.ev.calls, e.s.Name)
	if e.s.Cancel == "inside" {
		e.ev.cancel()
	}
	if e.s.Cancel == "after" {
		defer e.ev.cancel()
	}
	inv := inventory.Inventory{Packages: mkPkgs(e.s.Pkgs)}
	if e.s.Fails {
		return inv, errors.New("fake standalone failure")
	}
	return inv, nil
}

type fakeDet struct {
	d  jdet
	ev *env
}

func (f *fakeDet) Name() string                       { return plugName(f.d.Name) }
func (f *fakeDet) Version() int                       { return f.d.Version }
func (f *fakeDet) Requirements() *plugin.Capabilities { return &plugin.Capabilities{} }
func (f *fakeDet) RequiredExtractors() []string       { return nil }
func (f *fakeDet) Scan(ctx context.Context, root *scalibrfs.ScanRoot, px *packageindex.PackageIndex) ([]*detector.Finding, error) {
	f.ev.calls = append(f.ev.calls, f.d.Name)
	if f.d.Cancel == "inside" {
		f.ev.cancel()
	}
	var out []*detector.Finding
	for _, id := range f.d.Findings {
		out = append(out, &detector.Finding{
			Adv:   &detector.Advisory{ID: &detector.AdvisoryID{Publisher: "PUB0", Reference: fmt.Sprintf("REF-%d", id)}, Type: 1, Title: fmt.Sprintf("title%d", id)},
			Extra: fmt.Sprintf("x%d", id)})
	}
	if f.d.Fails {
		return out, errors.New("fake detector failure")
	}
	return out, nil
}

// stats collector that cancels right after chosen detectors ("between plugins")
type hookStats struct {
	stats.NoopCollector
	ev *env
}

func (h hookStats) AfterDetectorRun(name string, _ time.Duration, _ error) {
	if h.ev.hook[name] {
		h.ev.cancel()
	}
}

func newEnv(c *jcase) (context.Context, *env) {
	ctx, cancel := context.WithCancel(context.Background())
	ev := &env{cancel: cancel, hook: map[string]bool{}}
	for _, d := range c.Dets {
		if d.Cancel == "hook" {
			ev.hook[plugName(d.Name)] = true
		}
	}
	return ctx, ev
}

func fsExts(c *jcase, ev *env) []filesystem.Extractor {
	if !c.HasFs {
		return nil
	}
	return []filesystem.Extractor{&fakeFs{fakeExt{fsExtName}, c.FsPkgs, c.FsCancels, ev}}
}
func saExts(c *jcase, ev *env) []standalone.Extractor {
	out := []standalone.Extractor{}
	for _, s := range c.Sas {
		out = append(out, &fakeSa{fakeExt{s.Name}, s, ev})
	}
	return out
}
func detList(c *jcase, ev *env) []detector.Detector {
	out := []detector.Detector{}
	for _, d := range c.Dets {
		out = append(out, &fakeDet{d, ev})
	}
	return out
}

func mapFS() scalibrfs.FS { return fstest.MapFS{"f": &fstest.MapFile{Data: []byte("x")}} }

func readStatus(ss []*plugin.Status) []jstatus {
	out := []jstatus{}
	for _, s := range ss {
		out = append(out, jstatus{Name: plugID(s.Name), Version: s.Version, Status: uint64(s.Status.Status)})
	}
	return out
}
func readPkgs(ps []*extractor.Package) []jpkg {
	out := []jpkg{}
	for _, p := range ps {
		m := p.Metadata.(*meta)
		out = append(out, jpkg{m.id, m.purl})
	}
	return out
}
func pkgIDs(ps []*extractor.Package, sorted bool) []uint64 {
	out := []uint64{}
	for _, p := range ps {
		out = append(out, p.Metadata.(*meta).id)
	}
	if sorted {
		sort.Slice(out, func(i, j int) bool { return out[i] < out[j] })
	}
	return out
}
func readFindings(fs []*detector.Finding, sorted bool) [][2]uint64 {
	out := [][2]uint64{}
	for _, f := range fs {
		var e [2]uint64
		fmt.Sscanf(f.Extra, "x%d", &e[0])
		if len(f.Detectors) > 0 {
			e[1] = plugID(f.Detectors[0])
		}
		out = append(out, e)
	}
	if sorted {
		sort.Slice(out, func(i, j int) bool { return out[i][0] < out[j][0] || (out[i][0] == out[j][0] && out[i][1] < out[j][1]) })
	}
	return out
}
func nz(l []uint64) []uint64 {
	if l == nil {
		return []uint64{}
	}
	return l
}

// ------------------------------------------------------------------------------------------------ execution

// probe: the filesystem walk alone, same setup (it is the input of the plugin phase)
func execWalk(c *jcase) *jwalk {
	ctx, ev := newEnv(c)
	defer ev.cancel()
	if c.Ctx0 {
		ev.cancel()
	}
	inv, st, err := filesystem.Run(ctx, &filesystem.Config{Stats: stats.NoopCollector{}, Extractors: fsExts(c, ev),
		ScanRoots: []*scalibrfs.ScanRoot{{FS: mapFS(), Path: ""}}})
	w := &jwalk{Failed: err != nil, Pkgs: []jpkg{}, Status: []jstatus{}}
	if err == nil {
		w.Pkgs, w.Status = readPkgs(inv.Packages), readStatus(st)
	}
	return w
}

func execScan(c *jcase) *jscanObs {
	ctx, ev := newEnv(c)
	defer ev.cancel()
	if c.Ctx0 {
		ev.cancel()
	}
	cfg := &scalibr.ScanConfig{FilesystemExtractors: fsExts(c, ev), StandaloneExtractors: saExts(c, ev), Detectors: detList(c, ev),
		Capabilities: &plugin.Capabilities{}, ScanRoots: []*scalibrfs.ScanRoot{{FS: mapFS(), Path: ""}}, Stats: hookStats{ev: ev}}
	res := scalibr.New().Scan(ctx, cfg)
	return &jscanObs{Calls: nz(ev.calls), Failed: res.Status.Status != plugin.ScanStatusSucceeded, Status: readStatus(res.PluginStatus),
		Pkgs: pkgIDs(res.Inventory.Packages, true), Findings: readFindings(res.Inventory.Findings, true)}
}

func execSa(c *jcase, c0 bool) *jsaObs {
	ctx, ev := newEnv(c)
	defer ev.cancel()
	if c0 {
		ev.cancel()
	}
	inv, st, err := standalone.Run(ctx, &standalone.Config{Extractors: saExts(c, ev), ScanRoot: &scalibrfs.ScanRoot{FS: mapFS(), Path: ""}})
	return &jsaObs{Calls: nz(ev.calls), Inv: pkgIDs(inv.Packages, false), Status: readStatus(st), Err: err != nil}
}

func execDet(c *jcase, c0 bool) *jdetObs {
	ctx, ev := newEnv(c)
	defer ev.cancel()
	if c0 {
		ev.cancel()
	}
	px, _ := packageindex.New(nil)
	fs, st, err := detector.Run(ctx, hookStats{ev: ev}, detList(c, ev), &scalibrfs.ScanRoot{FS: mapFS(), Path: ""}, px)
	o := &jdetObs{Calls: nz(ev.calls), Findings: readFindings(fs, false), Status: readStatus(st), Err: "none"}
	if err != nil {
		o.Err = "other"
		if errors.Is(err, context.Canceled) {
			o.Err = "ctx"
		}
	}
	return o
}

// context state when the plugin phase starts
func (c *jcase) c0() bool { return c.Ctx0 || (c.HasFs && c.FsCancels) }

func execute(c *jcase) {
	if c.FsPkgs == nil {
		c.FsPkgs = []jpkg{}
	}
	if c.Sas == nil {
		c.Sas = []jsa{}
	}
	if c.Dets == nil {
		c.Dets = []jdet{}
	}
	for i := range c.Sas {
		if c.Sas[i].Pkgs == nil {
			c.Sas[i].Pkgs = []jpkg{}
		}
	}
	for i := range c.Dets {
		if c.Dets[i].Findings == nil {
			c.Dets[i].Findings = []uint64{}
		}
	}
	c.Walk = execWalk(c)
	c.Scan = execScan(c)
	c.SaRun = execSa(c, c.c0())
	c.DetRun = execDet(c, c.c0())
	c.Coq = caseCoq(c)
}

// ------------------------------------------------------------------------------------------------ Coq printing

func ids(l []uint64) string {
	it := make([]string, len(l))
	for i, x := range l {
		it[i] = cf.N(x)
	}
	return cf.List(it)
}
func pkgsCoq(ps []jpkg) string {
	it := make([]string, len(ps))
	for i, p := range ps {
		pu := "None"
		if p.Purl != nil {
			pu = fmt.Sprintf("(Some (%s, %s))", cf.N(p.Purl[0]), cf.N(p.Purl[1]))
		}
		it[i] = fmt.Sprintf("(mkPkg %s %s)", cf.N(p.ID), pu)
	}
	return cf.List(it)
}
func statusCoq(ss []jstatus) string {
	it := make([]string, len(ss))
	for i, s := range ss {
		it[i] = fmt.Sprintf("(mkStatus %s %s %s)", cf.N(s.Name), cf.Z(int64(s.Version)), cf.N(s.Status))
	}
	return cf.List(it)
}
func pairsCoq(ps [][2]uint64) string {
	it := make([]string, len(ps))
	for i, p := range ps {
		it[i] = fmt.Sprintf("(%s, %s)", cf.N(p[0]), cf.N(p[1]))
	}
	return cf.List(it)
}
func caseCoq(c *jcase) string {
	sas := make([]string, len(c.Sas))
	for i, s := range c.Sas {
		sas[i] = fmt.Sprintf("(mkSa %s %s %s %s %s)", cf.N(s.Name), cf.Z(int64(s.Version)), pkgsCoq(s.Pkgs), cf.Bool(s.Fails), cf.Bool(s.Cancel != ""))
	}
	dets := make([]string, len(c.Dets))
	for i, d := range c.Dets {
		fs := make([]string, len(d.Findings))
		for j, id := range d.Findings {
			fs[j] = fmt.Sprintf("(pl_fref %s)", cf.N(id))
		}
		dets[i] = fmt.Sprintf("(mkDet %s %s %s %s %s)", cf.N(d.Name), cf.Z(int64(d.Version)), cf.List(fs), cf.Bool(d.Fails), cf.Bool(d.Cancel != ""))
	}
	errs := map[string]string{"none": "None", "ctx": "(Some ErrCtx)", "other": "(Some ErrAdvisory)"}
	scan := fmt.Sprintf("(mkScanP %s %s %s %s %s)", ids(c.Scan.Calls), cf.Bool(c.Scan.Failed), statusCoq(c.Scan.Status), ids(c.Scan.Pkgs), pairsCoq(c.Scan.Findings))
	sa := fmt.Sprintf("(mkSaObs %s %s %s %s)", ids(c.SaRun.Calls), ids(c.SaRun.Inv), statusCoq(c.SaRun.Status), cf.Bool(c.SaRun.Err))
	det := fmt.Sprintf("(mkDetObs %s %s %s %s)", ids(c.DetRun.Calls), pairsCoq(c.DetRun.Findings), statusCoq(c.DetRun.Status), errs[c.DetRun.Err])
	return fmt.Sprintf("(mkPCase %s %s %s %s %s %s %s %s %s)", cf.Bool(c.Walk.Failed), pkgsCoq(c.Walk.Pkgs), statusCoq(c.Walk.Status),
		cf.Bool(c.c0()), cf.List(sas), cf.List(dets), scan, sa, det)
}

// ------------------------------------------------------------------------------------------------ generation

type gen struct {
	rng   *rand.Rand
	cases []*jcase
}

func (g *gen) add(c *jcase) { execute(c); g.cases = append(g.cases, c) }

func (g *gen) plugins(ns, nd int, failMask int) ([]jsa, []jdet) {
	var sas []jsa
	var dets []jdet
	pid := uint64(1)
	for i := 0; i < ns; i++ {
		s := jsa{Name: uint64(11 + i), Version: 1 + i, Fails: failMask>>i&1 == 1}
		for j := 0; j <= i%2; j++ {
			p := jpkg{ID: pid}
			if pid%3 != 0 {
				p.Purl = &[2]uint64{pid % 2, pid % 3}
			}
			pid++
			s.Pkgs = append(s.Pkgs, p)
		}
		sas = append(sas, s)
	}
	fid := uint64(1)
	for i := 0; i < nd; i++ {
		d := jdet{Name: uint64(21 + i), Version: i, Fails: failMask>>(ns+i)&1 == 1}
		for j := 0; j < (i+1)%3; j++ {
			d.Findings = append(d.Findings, fid)
			fid++
		}
		dets = append(dets, d)
	}
	return sas, dets
}

// every plugin-list shape <= (maxS, maxD) x every error-flag vector x every single cancellation point
func (g *gen) exhaustive(maxS, maxD int) {
	for ns := 0; ns <= maxS; ns++ {
		for nd := 0; nd <= maxD; nd++ {
			for mask := 0; mask < 1<<(ns+nd); mask++ {
				base := func() *jcase {
					s, d := g.plugins(ns, nd, mask)
					return &jcase{Stream: "exhaustive", Sas: s, Dets: d}
				}
				g.add(base()) // never cancelled, no fs extractor
				c := base()
				c.HasFs, c.FsPkgs = true, []jpkg{{ID: 100, Purl: &[2]uint64{0, 0}}}
				g.add(c) // never cancelled, with a walk
				c = base()
				c.Ctx0 = true
				g.add(c) // before the scan (no fs extractor: the walk is trivially ok)
				c = base()
				c.Ctx0, c.HasFs = true, true
				g.add(c) // before the scan, with a walk
				c = base()
				c.HasFs, c.FsCancels = true, true
				g.add(c) // inside the walk's last (only) Extract
				for k := 0; k < ns; k++ {
					for _, mode := range []string{"inside", "after"} {
						c = base()
						c.Sas[k].Cancel = mode
						g.add(c)
					}
				}
				for k := 0; k < nd; k++ {
					for _, mode := range []string{"inside", "hook"} {
						c = base()
						c.Dets[k].Cancel = mode
						g.add(c)
					}
				}
			}
		}
	}
}

func (g *gen) random(n int) {
	r := g.rng
	modesS, modesD := []string{"inside", "after"}, []string{"inside", "hook"}
	for i := 0; i < n; i++ {
		ns, nd := r.Intn(6), r.Intn(6)
		s, d := g.plugins(ns, nd, r.Intn(1<<(ns+nd)))
		c := &jcase{Stream: "random", Sas: s, Dets: d, HasFs: r.Intn(2) == 0, Ctx0: r.Intn(12) == 0}
		if c.HasFs {
			c.FsPkgs = []jpkg{{ID: 100, Purl: &[2]uint64{1, 1}}, {ID: 101}}
			c.FsCancels = r.Intn(10) == 0
		}
		for k := range c.Sas {
			if r.Intn(5) == 0 {
				c.Sas[k].Cancel = modesS[r.Intn(2)]
			}
		}
		for k := range c.Dets {
			if r.Intn(5) == 0 {
				c.Dets[k].Cancel = modesD[r.Intn(2)]
			}
			if r.Intn(15) == 0 && k > 0 { // advisory conflict: reuse a finding id of an earlier detector with the same content -> equal, fine
				c.Dets[k].Findings = append(c.Dets[k].Findings, 1)
			}
		}
		g.add(c)
	}
}

func main() {
	out := flag.String("out", "", "Coq cases file")
	jsonl := flag.String("jsonl", "", "JSONL side file")
	seed := flag.Int64("seed", 1, "PRNG seed")
	maxS := flag.Int("maxsa", 2, "exhaustive stream: standalone extractors")
	maxD := flag.Int("maxdet", 2, "exhaustive stream: detectors")
	nrandom := flag.Int("random", 300, "random cases (up to 5+5 plugins, several cancellation points)")
	replay := flag.String("replay", "", "re-run the case of a replay json (field `case`/`first_mismatch` or a bare case)")
	flag.Parse()
	scalibrlog.SetLogger(quietLogger{})
	if *replay != "" {
		raw, err := os.ReadFile(*replay)
		if err != nil {
			panic(err)
		}
		var wrap map[string]json.RawMessage
		_ = json.Unmarshal(raw, &wrap)
		for _, k := range []string{"case", "first_mismatch", "witness"} {
			if v, ok := wrap[k]; ok {
				raw = v
				break
			}
		}
		var c jcase
		if err := json.Unmarshal(raw, &c); err != nil {
			panic(err)
		}
		execute(&c)
		cq := c.Coq
		c.Coq = ""
		js, _ := json.Marshal(&c)
		fmt.Printf("observed: %s\ncoq-case: %s\n", js, cq)
		return
	}
	g := &gen{rng: rand.New(rand.NewSource(*seed))}
	g.exhaustive(*maxS, *maxD)
	g.random(*nrandom)
	var sb strings.Builder
	sb.WriteString("(* GENERATED by harness/cmd/pluginloops *)\nFrom Coq Require Import List NArith ZArith Bool.\nFrom Scalibr Require Import Detect.Index Detect.Model Detect.PluginLoops Detect.PluginCases.\nImport ListNotations.\nOpen Scope N_scope.\n")
	items := make([]string, len(g.cases))
	for i, c := range g.cases {
		items[i] = c.Coq
	}
	sb.WriteString(cf.Chunked("cases", "pcase", items, 250))
	if err := os.WriteFile(*out, []byte(sb.String()), 0o644); err != nil {
		panic(err)
	}
	f, err := os.Create(*jsonl)
	if err != nil {
		panic(err)
	}
	defer f.Close()
	enc := json.NewEncoder(f)
	for _, c := range g.cases {
		cc := *c
		cc.Coq = ""
		if err := enc.Encode(&cc); err != nil {
			panic(err)
		}
	}
	fmt.Printf("cases=%d\n", len(g.cases))
}

package main

import (
	"fmt"
	"go/ast"
	"go/parser"
	"go/token"
	"os"
	"path/filepath"
	"sort"
	"strings"
)

// structs mode: for every struct type with pointer-receiver methods in the given directories (non-test
// files), list each read / write of a field through the receiver, per method, with the mutexes held.
// Besides AR / AW there is AA: append(recv.f, ...) whose result is not stored back into recv.f - it writes
// into the spare capacity of the shared slice.
// Output: Sched/Generated_ClientAccesses.v.  The discipline is decided in Sched/ClientRace.v.

type sacc struct {
	strct, method, field, kind string
	locks                      []string
	file                       string
	line                       int
}

func recvTypeName(e ast.Expr) (string, bool) {
	s, ok := e.(*ast.StarExpr)
	if !ok {
		return "", false
	}
	switch x := s.X.(type) {
	case *ast.Ident:
		return x.Name, true
	case *ast.IndexExpr: // generic, one type parameter
		if id, ok := x.X.(*ast.Ident); ok {
			return id.Name, true
		}
	case *ast.IndexListExpr: // generic
		if id, ok := x.X.(*ast.Ident); ok {
			return id.Name, true
		}
	}
	return "", false
}

func structsMain(dirs []string, out string) {
	fset := token.NewFileSet()
	fields := map[string]map[string]bool{} // struct -> field set
	var fieldOrder [][2]string
	var files []*ast.File
	var fnames []string
	for _, d := range dirs {
		ents, err := os.ReadDir(d)
		if err != nil {
			fmt.Fprintln(os.Stderr, err)
			os.Exit(1)
		}
		for _, e := range ents {
			n := e.Name()
			if e.IsDir() || !strings.HasSuffix(n, ".go") || strings.HasSuffix(n, "_test.go") || strings.HasPrefix(n, "verif_") {
				continue
			}
			f, err := parser.ParseFile(fset, filepath.Join(d, n), nil, 0)
			if err != nil {
				fmt.Fprintln(os.Stderr, err)
				os.Exit(1)
			}
			files = append(files, f)
			fnames = append(fnames, filepath.Base(d)+"/"+n)
		}
	}
	for _, f := range files {
		ast.Inspect(f, func(n ast.Node) bool {
			ts, ok := n.(*ast.TypeSpec)
			if !ok {
				return true
			}
			st, ok := ts.Type.(*ast.StructType)
			if !ok {
				return true
			}
			fields[ts.Name.Name] = map[string]bool{}
			for _, fl := range st.Fields.List {
				for _, nm := range fl.Names {
					fields[ts.Name.Name][nm.Name] = true
					fieldOrder = append(fieldOrder, [2]string{ts.Name.Name, nm.Name})
				}
			}
			return false
		})
	}
	methodsOf := map[string]map[string]bool{}
	for _, f := range files {
		for _, d := range f.Decls {
			if fd, ok := d.(*ast.FuncDecl); ok && fd.Recv != nil && len(fd.Recv.List) == 1 {
				t := fd.Recv.List[0].Type
				if _, isPtr := t.(*ast.StarExpr); !isPtr {
					t = &ast.StarExpr{X: t}
				}
				if sn, ok := recvTypeName(t); ok {
					if methodsOf[sn] == nil {
						methodsOf[sn] = map[string]bool{}
					}
					methodsOf[sn][fd.Name.Name] = true
				}
			}
		}
	}
	type scall struct {
		strct, caller, callee string
		locks                 []string
		line                  int
	}
	var scalls []scall
	var entries [][2]string
	var accs []sacc
	for fi, f := range files {
		for _, d := range f.Decls {
			fd, ok := d.(*ast.FuncDecl)
			if !ok || fd.Body == nil || fd.Recv == nil || len(fd.Recv.List) != 1 || len(fd.Recv.List[0].Names) != 1 {
				continue
			}
			sname, ok := recvTypeName(fd.Recv.List[0].Type)
			if !ok || fields[sname] == nil {
				continue
			}
			rv := fd.Recv.List[0].Names[0].Name
			if ast.IsExported(fd.Name.Name) {
				entries = append(entries, [2]string{sname, fd.Name.Name})
			}
			rootSel := func(e ast.Expr) *ast.SelectorExpr {
				for {
					switch x := e.(type) {
					case *ast.SelectorExpr:
						if id, ok := x.X.(*ast.Ident); ok && id.Name == rv {
							return x
						}
						e = x.X
					case *ast.IndexExpr:
						e = x.X
					case *ast.ParenExpr:
						e = x.X
					case *ast.StarExpr:
						e = x.X
					case *ast.SliceExpr:
						e = x.X
					default:
						return nil
					}
				}
			}
			writes := map[*ast.SelectorExpr]bool{}
			appends := map[*ast.SelectorExpr]bool{}
			stored := map[*ast.CallExpr]string{} // append calls whose result is assigned to recv.<field>
			ast.Inspect(fd.Body, func(n ast.Node) bool {
				switch x := n.(type) {
				case *ast.AssignStmt:
					for i, l := range x.Lhs {
						if s := rootSel(l); s != nil {
							writes[s] = true
							if i < len(x.Rhs) {
								if c, ok := x.Rhs[i].(*ast.CallExpr); ok {
									if _, direct := l.(*ast.SelectorExpr); direct {
										stored[c] = s.Sel.Name
									}
								}
							}
						}
					}
				case *ast.IncDecStmt:
					if s := rootSel(x.X); s != nil {
						writes[s] = true
					}
				case *ast.UnaryExpr:
					if x.Op == token.AND {
						if s := rootSel(x.X); s != nil {
							writes[s] = true
						}
					}
				case *ast.CallExpr:
					// delete(recv.f, k) writes the map
					if id, ok := x.Fun.(*ast.Ident); ok && id.Name == "delete" && len(x.Args) > 0 {
						if s := rootSel(x.Args[0]); s != nil {
							writes[s] = true
						}
					}
				}
				return true
			})
			ast.Inspect(fd.Body, func(n ast.Node) bool {
				c, ok := n.(*ast.CallExpr)
				if !ok {
					return true
				}
				if id, ok := c.Fun.(*ast.Ident); ok && id.Name == "append" && len(c.Args) > 0 {
					if s, ok := c.Args[0].(*ast.SelectorExpr); ok {
						if id, ok := s.X.(*ast.Ident); ok && id.Name == rv && stored[c] != s.Sel.Name {
							appends[s] = true
						}
					}
				}
				return true
			})
			held := map[string]bool{}
			heldList := func() []string {
				var l []string
				for k := range held {
					l = append(l, k)
				}
				sort.Strings(l)
				return l
			}
			inspectWithLocks(fd.Body, held, func(e ast.Expr) string { return strings.TrimPrefix(exprString(e), rv+".") }, func(n ast.Node) bool {
				if x, ok := n.(*ast.SelectorExpr); ok {
					if id, ok := x.X.(*ast.Ident); ok && id.Name == rv {
						if methodsOf[sname][x.Sel.Name] && !fields[sname][x.Sel.Name] {
							// rv.helper(...) or rv.helper passed as a value: a call on the same receiver
							scalls = append(scalls, scall{sname, fd.Name.Name, x.Sel.Name, heldList(), fset.Position(x.Pos()).Line})
						}
						if fields[sname][x.Sel.Name] {
							k := "AR"
							if writes[x] {
								k = "AW"
							} else if appends[x] {
								k = "AA"
							}
							accs = append(accs, sacc{sname, fd.Name.Name, x.Sel.Name, k, heldList(), fnames[fi], fset.Position(x.Pos()).Line})
						}
						return false
					}
				}
				return true
			})
		}
	}
	q := func(s string) string { return "\"" + s + "\"" }
	lst := func(l []string) string {
		if len(l) == 0 {
			return "[]"
		}
		var qs []string
		for _, s := range l {
			qs = append(qs, q(s))
		}
		return "[" + strings.Join(qs, "; ") + "]"
	}
	var sb strings.Builder
	sb.WriteString("(* GENERATED by harness/cmd/walkaccess -structs from clients/datasource and clients/resolution - do not edit.\n")
	sb.WriteString("   Every read (AR) / write (AW) / append-without-store (AA) of a struct field through a method receiver,\n   with the mutexes of the receiver held at that point, the file and the line. *)\n")
	sb.WriteString("From Coq Require Import List String.\nFrom Scalibr Require Import Sched.ClientRace.\nImport ListNotations.\nOpen Scope string_scope.\n\n")
	sb.WriteString("Definition client_accesses : list caccess :=\n  [ ")
	var items []string
	for _, a := range accs {
		items = append(items, fmt.Sprintf("mkcacc %s %s %s %s %s %s %d", q(a.strct), q(a.method), q(a.field), a.kind, lst(a.locks), q(a.file), a.line))
	}
	sb.WriteString(strings.Join(items, ";\n    ") + " ].\n")
	items = nil
	for _, c := range scalls {
		items = append(items, fmt.Sprintf("mkccall %s %s %s %s %d", q(c.strct), q(c.caller), q(c.callee), lst(c.locks), c.line))
	}
	sb.WriteString("\n(* calls of a method on the same receiver, with the receiver's mutexes held at the call site *)\n")
	sb.WriteString("Definition client_calls : list ccall :=\n  [ " + strings.Join(items, ";\n    ") + " ].\n")
	items = nil
	for _, e := range entries {
		items = append(items, "("+q(e[0])+", "+q(e[1])+")")
	}
	sb.WriteString("\n(* exported methods: callable from outside with no lock held *)\n")
	sb.WriteString("Definition client_entries : list (string * string) :=\n  [ " + strings.Join(items, ";\n    ") + " ].\n")
	escs, muts := analyseEscapes(fset, files, fnames)
	sb.WriteString(printEscapes(escs, muts))
	old, _ := os.ReadFile(out)
	if string(old) != sb.String() {
		if err := os.WriteFile(out, []byte(sb.String()), 0o644); err != nil {
			fmt.Fprintln(os.Stderr, err)
			os.Exit(1)
		}
		fmt.Println("regenerated", out)
	} else {
		fmt.Println("unchanged", out)
	}
	fmt.Printf("client_accesses=%d structs=%d escapes=%d mutations=%d\n", len(accs), len(fields), len(escs), len(muts))
}

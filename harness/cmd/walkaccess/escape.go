package main

import (
	"fmt"
	"go/ast"
	"go/token"
	"sort"
	"strings"
)

// Escape / in-place-mutation tables (structs mode, AST only, names instead of types):
//
//	cescape  F returns, without copying, a slice/map that lives in a struct: a selector x.f whose field name f is
//	         declared with slice or map type in these packages, directly or as the value of a result field
//	         (label = that result field, "" for a direct return), or the result of a function that itself escapes.
//	cmutate  F applies an in-place mutation (slices.Sort*/Reverse, sort.*, x[i] = v, append(x, ...) not stored
//	         back into x) to an expression whose root variable was obtained from a call of function G
//	         (origin = G, path = the selector path below the variable) - or "fresh" when the root variable was
//	         built in F (make, literal, append to nil, ...), "param"/"other" otherwise.
type escapeRec struct {
	fn, label, via, file string
	line                 int
}
type mutateRec struct {
	fn, op, expr, origin, path, taint, file string
	line                                    int
}

func calleeName(e ast.Expr) string {
	switch x := e.(type) {
	case *ast.Ident:
		return x.Name
	case *ast.SelectorExpr:
		return x.Sel.Name
	case *ast.IndexExpr:
		return calleeName(x.X)
	case *ast.IndexListExpr:
		return calleeName(x.X)
	}
	return ""
}

func isSliceOrMap(t ast.Expr) bool {
	switch x := t.(type) {
	case *ast.ArrayType:
		return x.Len == nil
	case *ast.MapType:
		return true
	}
	return false
}

func analyseEscapes(fset *token.FileSet, files []*ast.File, fnames []string) ([]escapeRec, []mutateRec) {
	// field names declared with slice / map type
	smField := map[string]bool{}
	for _, f := range files {
		ast.Inspect(f, func(n ast.Node) bool {
			st, ok := n.(*ast.StructType)
			if !ok {
				return true
			}
			for _, fl := range st.Fields.List {
				if isSliceOrMap(fl.Type) {
					for _, nm := range fl.Names {
						smField[nm.Name] = true
					}
				}
			}
			return true
		})
	}
	type fn struct {
		decl *ast.FuncDecl
		file string
	}
	var fns []fn
	for i, f := range files {
		for _, d := range f.Decls {
			if fd, ok := d.(*ast.FuncDecl); ok && fd.Body != nil {
				fns = append(fns, fn{fd, fnames[i]})
			}
		}
	}
	// local variable -> the call it was assigned from (first assignment wins), per function
	alias := map[*ast.FuncDecl]map[string]string{}
	originOf := func(fd *ast.FuncDecl) (map[string]string, map[string]bool) {
		org := map[string]string{}
		fresh := map[string]bool{}
		if alias[fd] == nil {
			alias[fd] = map[string]string{}
		}
		note := func(lhs ast.Expr, rhs ast.Expr) {
			id, ok := lhs.(*ast.Ident)
			if !ok || id.Name == "_" {
				return
			}
			if _, seen := org[id.Name]; seen || fresh[id.Name] {
				return
			}
			switch r := rhs.(type) {
			case *ast.CallExpr:
				switch calleeName(r.Fun) {
				case "make", "new", "append", "AppendSeq", "Clone", "Collect", "Sorted", "Keys", "Values":
					fresh[id.Name] = true
				default:
					org[id.Name] = calleeName(r.Fun)
				}
			case *ast.CompositeLit:
				fresh[id.Name] = true
			case *ast.UnaryExpr:
				if _, ok := r.X.(*ast.CompositeLit); ok {
					fresh[id.Name] = true
				}
			case *ast.IndexExpr, *ast.SelectorExpr:
				// v := x.f[k] / v := x.f with f a slice/map field: v aliases what lives in the struct
				e := rhs
				for {
					if ix, ok := e.(*ast.IndexExpr); ok {
						e = ix.X
						continue
					}
					break
				}
				if se, ok := e.(*ast.SelectorExpr); ok && smField[se.Sel.Name] {
					alias[fd][id.Name] = exprString2(rhs)
				}
			}
		}
		ast.Inspect(fd.Body, func(n ast.Node) bool {
			switch x := n.(type) {
			case *ast.AssignStmt:
				if len(x.Rhs) == 1 && len(x.Lhs) >= 1 {
					note(x.Lhs[0], x.Rhs[0]) // v, err := f(...)
				} else {
					for i := range x.Lhs {
						if i < len(x.Rhs) {
							note(x.Lhs[i], x.Rhs[i])
						}
					}
				}
			case *ast.ValueSpec:
				for i, nm := range x.Names {
					if i < len(x.Values) {
						note(nm, x.Values[i])
					} else if x.Type != nil {
						fresh[nm.Name] = true
					}
				}
			}
			return true
		})
		return org, fresh
	}
	rootAndPath := func(e ast.Expr) (string, string) {
		var path []string
		for {
			switch x := e.(type) {
			case *ast.Ident:
				for i, j := 0, len(path)-1; i < j; i, j = i+1, j-1 {
					path[i], path[j] = path[j], path[i]
				}
				return x.Name, strings.Join(path, ".")
			case *ast.SelectorExpr:
				path = append(path, x.Sel.Name)
				e = x.X
			case *ast.IndexExpr:
				e = x.X
			case *ast.SliceExpr:
				e = x.X
			case *ast.ParenExpr:
				e = x.X
			case *ast.StarExpr:
				e = x.X
			default:
				return "", ""
			}
		}
	}
	// ---- escapes, to a fixed point over "returns the result of an escaping function"
	escaping := map[string]map[string]bool{} // fn name -> labels
	var escs []escapeRec
	seenEsc := map[string]bool{}
	for iter := 0; iter < 4; iter++ {
		for _, f := range fns {
			fd := f.decl
			org, _ := originOf(fd)
			var classify func(e ast.Expr) (bool, string)
			classify = func(e ast.Expr) (bool, string) {
				switch x := e.(type) {
				case *ast.SelectorExpr:
					if smField[x.Sel.Name] {
						return true, exprString(x)
					}
				case *ast.Ident:
					if g, ok := org[x.Name]; ok && escaping[g][""] {
						return true, "result of " + g
					}
					if a, ok := alias[fd][x.Name]; ok {
						return true, a
					}
				case *ast.CallExpr:
					if g := calleeName(x.Fun); escaping[g][""] {
						return true, "result of " + g
					}
				case *ast.ParenExpr:
					return classify(x.X)
				}
				return false, ""
			}
			add := func(label, via string, pos token.Pos) {
				k := fd.Name.Name + "|" + label + "|" + via
				if seenEsc[k] {
					return
				}
				seenEsc[k] = true
				if escaping[fd.Name.Name] == nil {
					escaping[fd.Name.Name] = map[string]bool{}
				}
				escaping[fd.Name.Name][label] = true
				escs = append(escs, escapeRec{fd.Name.Name, label, via, f.file, fset.Position(pos).Line})
			}
			ast.Inspect(fd.Body, func(n ast.Node) bool {
				if _, ok := n.(*ast.FuncLit); ok {
					return false // returns of nested closures are not returns of fd
				}
				rs, ok := n.(*ast.ReturnStmt)
				if !ok {
					return true
				}
				for _, r := range rs.Results {
					if ok, via := classify(r); ok {
						add("", via, r.Pos())
					}
					lit, isLit := r.(*ast.CompositeLit)
					if u, ok := r.(*ast.UnaryExpr); ok {
						lit, isLit = u.X.(*ast.CompositeLit)
					}
					if isLit {
						for _, el := range lit.Elts {
							if kv, ok := el.(*ast.KeyValueExpr); ok {
								if ok, via := classify(kv.Value); ok {
									add(exprString(kv.Key), via, kv.Pos())
								}
							}
						}
					}
				}
				return true
			})
		}
	}
	// ---- in-place mutations
	var muts []mutateRec
	for _, f := range fns {
		fd := f.decl
		org, fresh := originOf(fd)
		tenv := newTaintEnv(fd)
		params := map[string]bool{}
		if fd.Recv != nil {
			for _, p := range fd.Recv.List {
				for _, nm := range p.Names {
					params[nm.Name] = true
				}
			}
		}
		for _, p := range fd.Type.Params.List {
			for _, nm := range p.Names {
				params[nm.Name] = true
			}
		}
		record := func(op string, target ast.Expr, pos token.Pos) {
			root, path := rootAndPath(target)
			origin := "other"
			switch {
			case root == "":
			case fresh[root]:
				origin = "fresh"
			case org[root] != "":
				origin = org[root]
			case params[root]:
				origin = "param"
			}
			if i := strings.Index(path, "."); i >= 0 {
				path = path[:i]
			}
			muts = append(muts, mutateRec{fd.Name.Name, op, exprString2(target), origin, path, tenv.of(target), f.file, fset.Position(pos).Line})
		}
		stored := map[*ast.CallExpr]bool{}
		ast.Inspect(fd.Body, func(n ast.Node) bool {
			switch x := n.(type) {
			case *ast.AssignStmt:
				for i, l := range x.Lhs {
					if ix, ok := l.(*ast.IndexExpr); ok {
						record("index-assign", ix.X, l.Pos())
					}
					if i < len(x.Rhs) {
						if c, ok := x.Rhs[i].(*ast.CallExpr); ok && calleeName(c.Fun) == "append" && len(c.Args) > 0 {
							if exprString2(c.Args[0]) == exprString2(l) {
								stored[c] = true
							}
						}
					}
				}
			case *ast.CallExpr:
				name := calleeName(x.Fun)
				pkg := ""
				if se, ok := x.Fun.(*ast.SelectorExpr); ok {
					if id, ok := se.X.(*ast.Ident); ok {
						pkg = id.Name
					}
				}
				switch {
				case (pkg == "slices" && (strings.HasPrefix(name, "Sort") || name == "Reverse" || aliasingFuncs[name])) ||
					(pkg == "sort" && (name == "Strings" || name == "Ints" || name == "Slice" || name == "SliceStable" || name == "Sort" || name == "Stable")):
					if len(x.Args) > 0 {
						record(pkg+"."+name, x.Args[0], x.Pos())
					}
				case pkg == "" && name == "append" && len(x.Args) > 0 && !stored[x]:
					if _, isCall := x.Args[0].(*ast.CallExpr); !isCall {
						if id, ok := x.Args[0].(*ast.Ident); !ok || id.Name != "nil" {
							record("append-not-stored", x.Args[0], x.Pos())
						}
					}
				}
			}
			return true
		})
	}
	sort.SliceStable(escs, func(i, j int) bool { return escs[i].file+escs[i].fn < escs[j].file+escs[j].fn })
	return escs, muts
}

// exprString2 prints selector / index chains.
func exprString2(e ast.Expr) string {
	switch x := e.(type) {
	case *ast.Ident:
		return x.Name
	case *ast.SelectorExpr:
		return exprString2(x.X) + "." + x.Sel.Name
	case *ast.IndexExpr:
		return exprString2(x.X) + "[]"
	case *ast.SliceExpr:
		return exprString2(x.X) + "[:]"
	case *ast.ParenExpr:
		return exprString2(x.X)
	case *ast.StarExpr:
		return "*" + exprString2(x.X)
	case *ast.CallExpr:
		return calleeName(x.Fun) + "()"
	}
	return "?"
}

func printMutationsOnly(name string, muts []mutateRec) string {
	q := func(s string) string { return "\"" + strings.ReplaceAll(s, "\"", "'") + "\"" }
	var items []string
	for _, m := range muts {
		items = append(items, fmt.Sprintf("mkmut %s %s %s %s %s %s %s %d", q(m.fn), q(m.op), q(m.expr), q(m.origin), q(m.path), q(m.taint), q(m.file), m.line))
	}
	return "Definition " + name + " : list cmutate :=\n  [ " + strings.Join(items, ";\n    ") + " ].\n"
}

func printEscapes(escs []escapeRec, muts []mutateRec) string {
	q := func(s string) string { return "\"" + strings.ReplaceAll(s, "\"", "'") + "\"" }
	var sb strings.Builder
	var items []string
	for _, e := range escs {
		items = append(items, fmt.Sprintf("mkesc %s %s %s %s %d", q(e.fn), q(e.label), q(e.via), q(e.file), e.line))
	}
	sb.WriteString("\nDefinition client_escapes : list cescape :=\n  [ " + strings.Join(items, ";\n    ") + " ].\n")
	items = nil
	for _, m := range muts {
		items = append(items, fmt.Sprintf("mkmut %s %s %s %s %s %s %s %d", q(m.fn), q(m.op), q(m.expr), q(m.origin), q(m.path), q(m.taint), q(m.file), m.line))
	}
	sb.WriteString("\nDefinition client_mutations : list cmutate :=\n  [ " + strings.Join(items, ";\n    ") + " ].\n")
	return sb.String()
}

package main

import "go/ast"

// inspectWithLocks walks body in source order keeping the set of mutexes held (x.Lock() adds, x.Unlock()
// removes, defer x.Unlock() keeps it to the end).  A block that ends in a return (the early-exit shape
// `if hit { mu.Unlock(); return v }`) does not change the set for the code after it.  Every other node is
// handed to cb (return false to stop descending).
func inspectWithLocks(body *ast.BlockStmt, held map[string]bool, name func(ast.Expr) string, cb func(ast.Node) bool) {
	var walk func(n ast.Node)
	walk = func(n ast.Node) {
		ast.Inspect(n, func(m ast.Node) bool {
			switch x := m.(type) {
			case *ast.BlockStmt:
				if x == n {
					return true
				}
				snap := map[string]bool{}
				for k := range held {
					snap[k] = true
				}
				for _, st := range x.List {
					walk(st)
				}
				if len(x.List) > 0 {
					if _, ok := x.List[len(x.List)-1].(*ast.ReturnStmt); ok {
						for k := range held {
							delete(held, k)
						}
						for k := range snap {
							held[k] = true
						}
					}
				}
				return false
			case *ast.DeferStmt:
				if se, ok := x.Call.Fun.(*ast.SelectorExpr); ok && (se.Sel.Name == "Unlock" || se.Sel.Name == "RUnlock") {
					return false
				}
			case *ast.ExprStmt:
				if c, ok := x.X.(*ast.CallExpr); ok {
					if se, ok := c.Fun.(*ast.SelectorExpr); ok {
						switch se.Sel.Name {
						case "Lock", "RLock":
							held[name(se.X)] = true
							return false
						case "Unlock", "RUnlock":
							delete(held, name(se.X))
							return false
						}
					}
				}
			}
			if m == nil {
				return true
			}
			return cb(m)
		})
	}
	for _, st := range body.List {
		walk(st)
	}
}

package main

import (
	"go/ast"
	"go/token"
)

// Field-sensitive, flow-insensitive taint of the expressions of one function (AST only):
//
//	shared   reachable from the receiver or a parameter without a copy (x := recv.f[k], for _, e := range p.f,
//	         a struct literal field initialised from such a value, the result of slices.DeleteFunc(shared, ...))
//	fresh    built in the function: make / new / Clone / composite literal / append to nil, and fields of local
//	         struct literals initialised from fresh values (or not at all)
//	unknown  anything else (results of other calls, package-level variables)
type taintEnv struct {
	shared     map[string]bool
	varT       map[string]string
	fieldT     map[string]map[string]string
	elemOf     map[string]string
	elemT      map[string]string
	elemFieldT map[string]map[string]string
}

func joinT(a, b string) string {
	rank := map[string]int{"": 0, "fresh": 1, "unknown": 2, "shared": 3}
	if rank[b] > rank[a] {
		return b
	}
	return a
}

var freshMakers = map[string]bool{"make": true, "new": true, "Clone": true, "AppendSeq": true, "Collect": true,
	"Sorted": true, "Keys": true, "Values": true, "Concat": true, "Fields": true, "Split": true}
var aliasingFuncs = map[string]bool{"DeleteFunc": true, "Delete": true, "Compact": true, "CompactFunc": true,
	"Insert": true, "Grow": true, "Clip": true, "Replace": true}

func (t *taintEnv) of(e ast.Expr) string {
	switch x := e.(type) {
	case *ast.Ident:
		if x.Name == "nil" {
			return "fresh"
		}
		if t.shared[x.Name] {
			return "shared"
		}
		if v, ok := t.varT[x.Name]; ok {
			return v
		}
		return "unknown"
	case *ast.ParenExpr:
		return t.of(x.X)
	case *ast.StarExpr:
		return t.of(x.X)
	case *ast.UnaryExpr:
		return t.of(x.X)
	case *ast.IndexExpr:
		if id, ok := x.X.(*ast.Ident); ok && !t.shared[id.Name] {
			if v, ok := t.elemT[id.Name]; ok {
				return v
			}
		}
		return t.of(x.X)
	case *ast.SliceExpr:
		return t.of(x.X)
	case *ast.SelectorExpr:
		if id, ok := x.X.(*ast.Ident); ok {
			if t.shared[id.Name] {
				return "shared"
			}
			if ft, ok := t.fieldT[id.Name]; ok {
				if v, ok := ft[x.Sel.Name]; ok {
					return v
				}
				return "fresh" // field not mentioned in the literal: zero value
			}
			if c, ok := t.elemOf[id.Name]; ok {
				if ft, ok := t.elemFieldT[c]; ok {
					if v, ok := ft[x.Sel.Name]; ok {
						return v
					}
					return joinT("fresh", "")
				}
			}
			if v, ok := t.varT[id.Name]; ok {
				return v
			}
			return "unknown"
		}
		return t.of(x.X)
	case *ast.CompositeLit, *ast.FuncLit, *ast.BasicLit:
		return "fresh"
	case *ast.CallExpr:
		name := calleeName(x.Fun)
		switch {
		case freshMakers[name]:
			return "fresh"
		case aliasingFuncs[name] && len(x.Args) > 0:
			return t.of(x.Args[0])
		case name == "append" && len(x.Args) > 0:
			return t.of(x.Args[0])
		}
		return "unknown"
	}
	return "unknown"
}

func newTaintEnv(fd *ast.FuncDecl) *taintEnv {
	t := &taintEnv{shared: map[string]bool{}, varT: map[string]string{}, fieldT: map[string]map[string]string{},
		elemOf: map[string]string{}, elemT: map[string]string{}, elemFieldT: map[string]map[string]string{}}
	if fd.Recv != nil {
		for _, p := range fd.Recv.List {
			for _, nm := range p.Names {
				t.shared[nm.Name] = true
			}
		}
	}
	for _, p := range fd.Type.Params.List {
		for _, nm := range p.Names {
			t.shared[nm.Name] = true
		}
	}
	lit := func(e ast.Expr) *ast.CompositeLit {
		if u, ok := e.(*ast.UnaryExpr); ok && u.Op == token.AND {
			e = u.X
		}
		l, _ := e.(*ast.CompositeLit)
		return l
	}
	setFields := func(dst map[string]string, l *ast.CompositeLit) {
		for _, el := range l.Elts {
			if kv, ok := el.(*ast.KeyValueExpr); ok {
				if k, ok := kv.Key.(*ast.Ident); ok {
					dst[k.Name] = joinT(dst[k.Name], t.of(kv.Value))
				}
			}
		}
	}
	assign := func(lhs, rhs ast.Expr) {
		switch l := lhs.(type) {
		case *ast.Ident:
			if l.Name == "_" || t.shared[l.Name] {
				return
			}
			if cl := lit(rhs); cl != nil {
				t.varT[l.Name] = joinT(t.varT[l.Name], "fresh")
				if t.fieldT[l.Name] == nil {
					t.fieldT[l.Name] = map[string]string{}
				}
				setFields(t.fieldT[l.Name], cl)
				return
			}
			t.varT[l.Name] = joinT(t.varT[l.Name], t.of(rhs))
			if ix, ok := rhs.(*ast.IndexExpr); ok {
				if c, ok := ix.X.(*ast.Ident); ok && !t.shared[c.Name] {
					t.elemOf[l.Name] = c.Name
				}
			}
			// C = append(C, v): v becomes an element of C
			if c, ok := rhs.(*ast.CallExpr); ok && calleeName(c.Fun) == "append" {
				for _, a := range c.Args[1:] {
					t.elemT[l.Name] = joinT(t.elemT[l.Name], t.of(a))
				}
			}
		case *ast.SelectorExpr:
			if id, ok := l.X.(*ast.Ident); ok {
				if ft, ok := t.fieldT[id.Name]; ok {
					ft[l.Sel.Name] = joinT(ft[l.Sel.Name], t.of(rhs))
				}
				if c, ok := t.elemOf[id.Name]; ok {
					if t.elemFieldT[c] == nil {
						t.elemFieldT[c] = map[string]string{}
					}
					t.elemFieldT[c][l.Sel.Name] = joinT(t.elemFieldT[c][l.Sel.Name], t.of(rhs))
				}
			}
		case *ast.IndexExpr:
			c, ok := l.X.(*ast.Ident)
			if !ok || t.shared[c.Name] {
				return
			}
			t.elemT[c.Name] = joinT(t.elemT[c.Name], t.of(rhs))
			if t.elemFieldT[c.Name] == nil {
				t.elemFieldT[c.Name] = map[string]string{}
			}
			if cl := lit(rhs); cl != nil {
				setFields(t.elemFieldT[c.Name], cl)
			} else if v, ok := rhs.(*ast.Ident); ok {
				for f, tv := range t.fieldT[v.Name] {
					t.elemFieldT[c.Name][f] = joinT(t.elemFieldT[c.Name][f], tv)
				}
				if src, ok := t.elemOf[v.Name]; ok && src != c.Name {
					for f, tv := range t.elemFieldT[src] {
						t.elemFieldT[c.Name][f] = joinT(t.elemFieldT[c.Name][f], tv)
					}
				}
			}
		}
	}
	for pass := 0; pass < 4; pass++ {
		ast.Inspect(fd.Body, func(n ast.Node) bool {
			switch x := n.(type) {
			case *ast.AssignStmt:
				if len(x.Rhs) == 1 && len(x.Lhs) >= 1 {
					assign(x.Lhs[0], x.Rhs[0])
				} else {
					for i := range x.Lhs {
						if i < len(x.Rhs) {
							assign(x.Lhs[i], x.Rhs[i])
						}
					}
				}
			case *ast.ValueSpec:
				for i, nm := range x.Names {
					if i < len(x.Values) {
						assign(nm, x.Values[i])
					} else {
						t.varT[nm.Name] = joinT(t.varT[nm.Name], "fresh")
					}
				}
			case *ast.RangeStmt:
				if v, ok := x.Value.(*ast.Ident); ok && v.Name != "_" {
					if c, ok := x.X.(*ast.Ident); ok && !t.shared[c.Name] {
						t.elemOf[v.Name] = c.Name
						et, ok := t.elemT[c.Name]
						if !ok {
							et = t.of(x.X)
						}
						t.varT[v.Name] = joinT(t.varT[v.Name], et)
					} else {
						t.varT[v.Name] = joinT(t.varT[v.Name], t.of(x.X))
					}
				}
				if k, ok := x.Key.(*ast.Ident); ok && k.Name != "_" {
					t.varT[k.Name] = joinT(t.varT[k.Name], "fresh")
				}
			}
			return true
		})
	}
	return t
}

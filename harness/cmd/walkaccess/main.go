// Command walkaccess is the C16 (c) translator: it walks the AST of extractor/filesystem/filesystem.go and
// lists every read and write of a walkContext field, per function, with the mutexes held at that point and
// whether the access sits inside a `go func` literal, plus the call edges between the functions that share
// the walk context.  Output: a Coq file (Sched/Generated_WalkAccesses.v).  Nothing here decides anything:
// the lock-set / happens-before analysis is Sched/RaceModel.v.
//
// Limits (by construction, AST only, no type information): an access is attributed to the variable bound to
// *walkContext in the enclosing function (receiver or parameter); writes through a field (wc.f.g = v,
// wc.f[i] = v, &wc.f) count as writes of f; method calls on a field (wc.f.M()) count as reads of f.
package main

import (
	"flag"
	"fmt"
	"go/ast"
	"go/parser"
	"go/token"
	"os"
	"sort"
	"strings"
)

type access struct {
	fn, field, kind, region string
	locks                   []string
	line                    int
}

type calledge struct {
	from, to, region string
	locks            []string
	line             int
}

func exprString(e ast.Expr) string {
	switch x := e.(type) {
	case *ast.Ident:
		return x.Name
	case *ast.SelectorExpr:
		return exprString(x.X) + "." + x.Sel.Name
	case *ast.StarExpr:
		return "*" + exprString(x.X)
	case *ast.ParenExpr:
		return exprString(x.X)
	}
	return "?"
}

func isWalkCtxPtr(t ast.Expr) bool {
	s, ok := t.(*ast.StarExpr)
	if !ok {
		return false
	}
	id, ok := s.X.(*ast.Ident)
	return ok && id.Name == "walkContext"
}

func main() {
	src := flag.String("src", "/repo/extractor/filesystem/filesystem.go", "Go source file")
	out := flag.String("out", "", "output .v file (stdout if empty)")
	structs := flag.String("structs", "", "comma-separated directories: list field accesses of all structs with methods (clients mode)")
	mutations := flag.String("mutations", "", "comma-separated directories: only the in-place mutation table, named by -name")
	defName := flag.String("name", "resolution_mutations", "definition name for -mutations")
	flag.Parse()
	if *mutations != "" {
		mutationsMain(strings.Split(*mutations, ","), *out, *defName)
		return
	}
	if *structs != "" {
		structsMain(strings.Split(*structs, ","), *out)
		return
	}
	fset := token.NewFileSet()
	f, err := parser.ParseFile(fset, *src, nil, 0)
	if err != nil {
		fmt.Fprintln(os.Stderr, err)
		os.Exit(1)
	}
	// fields of walkContext
	fields := map[string]bool{}
	var fieldOrder []string
	ast.Inspect(f, func(n ast.Node) bool {
		ts, ok := n.(*ast.TypeSpec)
		if !ok || ts.Name.Name != "walkContext" {
			return true
		}
		if st, ok := ts.Type.(*ast.StructType); ok {
			for _, fl := range st.Fields.List {
				for _, nm := range fl.Names {
					fields[nm.Name] = true
					fieldOrder = append(fieldOrder, nm.Name)
				}
			}
		}
		return false
	})
	// functions that have a *walkContext in scope, and the methods of walkContext
	type fninfo struct {
		decl *ast.FuncDecl
		wc   string
	}
	fns := map[string]*fninfo{}
	methods := map[string]bool{}
	for _, d := range f.Decls {
		fd, ok := d.(*ast.FuncDecl)
		if !ok || fd.Body == nil {
			continue
		}
		if fd.Recv != nil && len(fd.Recv.List) == 1 && isWalkCtxPtr(fd.Recv.List[0].Type) && len(fd.Recv.List[0].Names) == 1 {
			fns[fd.Name.Name] = &fninfo{fd, fd.Recv.List[0].Names[0].Name}
			methods[fd.Name.Name] = true
			continue
		}
		for _, p := range fd.Type.Params.List {
			if isWalkCtxPtr(p.Type) && len(p.Names) == 1 {
				fns[fd.Name.Name] = &fninfo{fd, p.Names[0].Name}
			}
		}
	}
	var accs []access
	var calls []calledge
	var names []string
	root := "" // the function that starts the goroutine sharing the walk context
	for n := range fns {
		names = append(names, n)
	}
	sort.Strings(names)
	for _, name := range names {
		fi := fns[name]
		fd := fi.decl
		// regions: relative to the first go statement and the first close(...) call after it
		var goStmt *ast.GoStmt
		var closePos token.Pos
		ast.Inspect(fd.Body, func(n ast.Node) bool {
			if g, ok := n.(*ast.GoStmt); ok && goStmt == nil {
				goStmt = g
			}
			if c, ok := n.(*ast.CallExpr); ok && goStmt != nil && closePos == 0 && c.Pos() > goStmt.End() {
				if id, ok := c.Fun.(*ast.Ident); ok && id.Name == "close" {
					closePos = c.Pos()
				}
			}
			return true
		})
		region := func(p token.Pos) string {
			if goStmt == nil {
				return "RBody"
			}
			switch {
			case p < goStmt.Pos():
				return "RPre"
			case p < goStmt.End():
				return "RGo"
			case closePos == 0 || p < closePos:
				return "RMid"
			default:
				return "RPost"
			}
		}
		// write positions: selector expressions that are assigned / incremented / address-taken
		writes := map[*ast.SelectorExpr]bool{}
		rootSel := func(e ast.Expr) *ast.SelectorExpr {
			// the innermost wc.f under index / selector / paren / star chains
			for {
				switch x := e.(type) {
				case *ast.SelectorExpr:
					if id, ok := x.X.(*ast.Ident); ok && id.Name == fi.wc {
						return x
					}
					e = x.X
				case *ast.IndexExpr:
					e = x.X
				case *ast.ParenExpr:
					e = x.X
				case *ast.StarExpr:
					e = x.X
				case *ast.SliceExpr:
					e = x.X
				default:
					return nil
				}
			}
		}
		ast.Inspect(fd.Body, func(n ast.Node) bool {
			switch x := n.(type) {
			case *ast.AssignStmt:
				for _, l := range x.Lhs {
					if s := rootSel(l); s != nil {
						writes[s] = true
					}
				}
			case *ast.IncDecStmt:
				if s := rootSel(x.X); s != nil {
					writes[s] = true
				}
			case *ast.UnaryExpr:
				if x.Op == token.AND {
					if s := rootSel(x.X); s != nil {
						writes[s] = true
					}
				}
			}
			return true
		})
		// lock sets: statement-order traversal
		held := map[string]bool{}
		heldList := func() []string {
			var l []string
			for k := range held {
				l = append(l, k)
			}
			sort.Strings(l)
			return l
		}
		visit := func(n ast.Node) bool {
			switch x := n.(type) {
			case *ast.CallExpr:
				// f(..., wc, ...) with f a function of this file taking the walk context
				if id, ok := x.Fun.(*ast.Ident); ok {
					if _, known := fns[id.Name]; known {
						for _, a := range x.Args {
							if ai, ok := a.(*ast.Ident); ok && ai.Name == fi.wc {
								calls = append(calls, calledge{name, id.Name, region(x.Pos()), heldList(), fset.Position(x.Pos()).Line})
							}
						}
					}
				}
			case *ast.SelectorExpr:
				if id, ok := x.X.(*ast.Ident); ok && id.Name == fi.wc {
					ln := fset.Position(x.Pos()).Line
					if fields[x.Sel.Name] {
						k := "AR"
						if writes[x] {
							k = "AW"
						}
						accs = append(accs, access{name, x.Sel.Name, k, region(x.Pos()), heldList(), ln})
					} else if methods[x.Sel.Name] {
						// called, or passed as a method value (callback): an edge either way
						calls = append(calls, calledge{name, x.Sel.Name, region(x.Pos()), heldList(), ln})
					}
					return false
				}
			}
			return true
		}
		if goStmt != nil && root == "" {
			root = name
		}
		inspectWithLocks(fd.Body, held, func(e ast.Expr) string { return strings.TrimPrefix(exprString(e), fi.wc+".") }, visit)
	}
	// print
	var sb strings.Builder
	q := func(s string) string { return "\"" + s + "\"" }
	lst := func(l []string) string {
		if len(l) == 0 {
			return "[]"
		}
		var qs []string
		for _, s := range l {
			qs = append(qs, q(s))
		}
		return "[" + strings.Join(qs, "; ") + "]"
	}
	sb.WriteString("(* GENERATED by harness/cmd/walkaccess from extractor/filesystem/filesystem.go - do not edit.\n")
	sb.WriteString("   Every read (AR) / write (AW) of a walkContext field, per function, with the region of the function body\n")
	sb.WriteString("   (relative to its `go` statement and the following close(...)), the mutexes held, and the source line. *)\n")
	sb.WriteString("From Coq Require Import List String.\nFrom Scalibr Require Import Sched.RaceModel.\nImport ListNotations.\nOpen Scope string_scope.\n\n")
	sb.WriteString("(* the function whose `go` statement starts the second goroutine *)\nDefinition walk_root : string := " + q(root) + ".\n\n")
	sb.WriteString("Definition walk_fields : list string :=\n  " + lst(fieldOrder) + ".\n\n")
	sb.WriteString("Definition walk_accesses : list access :=\n  [ ")
	var items []string
	for _, a := range accs {
		items = append(items, fmt.Sprintf("mkacc %s %s %s %s %s %d", q(a.fn), q(a.field), a.kind, a.region, lst(a.locks), a.line))
	}
	sb.WriteString(strings.Join(items, ";\n    ") + " ].\n\n")
	sb.WriteString("Definition walk_calls : list calledge :=\n  [ ")
	items = nil
	for _, c := range calls {
		items = append(items, fmt.Sprintf("mkcall %s %s %s %s %d", q(c.from), q(c.to), c.region, lst(c.locks), c.line))
	}
	sb.WriteString(strings.Join(items, ";\n    ") + " ].\n")
	if *out == "" {
		fmt.Print(sb.String())
		return
	}
	old, _ := os.ReadFile(*out)
	if string(old) != sb.String() {
		if err := os.WriteFile(*out, []byte(sb.String()), 0o644); err != nil {
			fmt.Fprintln(os.Stderr, err)
			os.Exit(1)
		}
		fmt.Println("regenerated", *out)
	} else {
		fmt.Println("unchanged", *out)
	}
	fmt.Printf("accesses=%d calls=%d fields=%d\n", len(accs), len(calls), len(fieldOrder))
}

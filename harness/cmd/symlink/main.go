// Command symlink drives the image layer-scanning FS (Stat/Open/ReadDir with symlink resolution) on
// images built in memory from generated symlink graphs and writes (a) a Coq cases file, (b) a JSONL
// side file (same order).
//
// Streams:
//
//	exh    every symlink graph on the 5 named entries /a /b /d/c /d/e /k/m (14 kinds per entry) x
//	       max depth 0..6, two-layer images; index range [-lo,-hi) or a seeded sample (-sample)
//	chains chains of 1..8 links ending in file/dir/missing/deleted/back-edge x depth 0..8, 3 layers
//	rand3  random graphs over 8 names, 3 layers, links and deletions in any layer
//	paths  link targets in non-canonical and escaping spellings
package main

import (
	"archive/tar"
	"bytes"
	"crypto/sha256"
	"encoding/json"
	"errors"
	"flag"
	"fmt"
	"io"
	"io/fs"
	"math/rand"
	"os"
	"path"
	"sort"
	"strings"

	v1 "github.com/google/go-containerregistry/pkg/v1"
	"github.com/google/go-containerregistry/pkg/v1/empty"
	"github.com/google/go-containerregistry/pkg/v1/mutate"
	"github.com/google/go-containerregistry/pkg/v1/tarball"
	img "github.com/google/osv-scalibr/artifact/image/layerscanning/image"
	"github.com/google/osv-scalibr/log"

	cf "verifharness/internal/coqfmt"
)

type silent struct{}

func (silent) Errorf(string, ...any) {}
func (silent) Error(...any)          {}
func (silent) Warnf(string, ...any)  {}
func (silent) Warn(...any)           {}
func (silent) Infof(string, ...any)  {}
func (silent) Info(...any)           {}
func (silent) Debugf(string, ...any) {}
func (silent) Debug(...any)          {}

// Entry is one named entry of a generated image.
type Entry struct {
	Name   string `json:"name"`             // virtual path, "/d/c"
	Kind   string `json:"kind"`             // file | dir | link
	Target string `json:"target,omitempty"` // tar Linkname as written
	Layer  int    `json:"layer"`
	Del    int    `json:"del"` // layer holding the whiteout, -1 = never deleted
}

// Obs is what one (view, name) query returned.
type Obs struct {
	View    int    `json:"view"`
	Name    string `json:"name"`
	Stat    string `json:"stat"` // ok:<basename> | notexist | cycle | depth | other
	Open    string `json:"open"` // ok:<basename> | okwh:<basename> | ...
	ReadDir string `json:"readdir"`
}

// Case is an explicit case.
type Case struct {
	Stream  string   `json:"stream"`
	Hist    string   `json:"hist,omitempty"` // match (default) | none | missing | surplus
	Layers  int      `json:"layers"`
	Depth   int      `json:"depth"`
	Entries []Entry  `json:"entries"`
	Queries []string `json:"queries"` // virtual paths
	Obs     []Obs    `json:"obs,omitempty"`
	Note    string   `json:"note,omitempty"`
}

// XCase is a graph of the exhaustive stream (all 7 depths).
type XCase struct {
	Stream string   `json:"stream"`
	Hist   string   `json:"hist"` // history mode of the image: idx mod 4 -> match | none | missing | surplus
	Idx    int64    `json:"idx"`
	Kinds  []int    `json:"kinds"`
	Desc   string   `json:"desc,omitempty"`
	Obs    []string `json:"obs"` // per max depth 0..6: 30 digits, index (view*5+entry)*3+op (op: stat, open, readdir)
}

func mkLayer(entries []Entry, li int) v1.Layer {
	var buf bytes.Buffer
	tw := tar.NewWriter(&buf)
	for _, e := range entries {
		name := strings.TrimPrefix(e.Name, "/")
		if e.Layer == li {
			switch e.Kind {
			case "file":
				must(tw.WriteHeader(&tar.Header{Name: name, Typeflag: tar.TypeReg, Mode: 0o644, Size: 1}))
				_, err := tw.Write([]byte("x"))
				must(err)
			case "dir":
				must(tw.WriteHeader(&tar.Header{Name: name + "/", Typeflag: tar.TypeDir, Mode: 0o755}))
			case "link":
				must(tw.WriteHeader(&tar.Header{Name: name, Typeflag: tar.TypeSymlink, Linkname: e.Target, Mode: 0o777}))
			default:
				panic("kind " + e.Kind)
			}
		}
		if e.Del == li {
			d, b := path.Split(name)
			must(tw.WriteHeader(&tar.Header{Name: d + ".wh." + b, Typeflag: tar.TypeReg, Mode: 0o644, Size: 0}))
		}
	}
	must(tw.Close())
	b := buf.Bytes()
	l, err := tarball.LayerFromOpener(func() (io.ReadCloser, error) { return io.NopCloser(bytes.NewReader(b)), nil })
	must(err)
	return l
}

func must(err error) {
	if err != nil {
		panic(err)
	}
}

// histModes: how the config history relates to the layers.  Everything but "match" makes
// validateHistory fail, so that initializeChainLayers takes its fallback path (one unnamed chain
// layer per v1 layer) -- the views and the hop budget must be the same as with a matching history.
var histModes = []string{"match", "none", "missing", "surplus"}

// setHistory replaces the config history: flags = EmptyLayer of each entry; nil = no history at all.
func setHistory(im v1.Image, flags []bool) v1.Image {
	cfgFile, err := im.ConfigFile()
	must(err)
	cfgFile = cfgFile.DeepCopy()
	cfgFile.History = nil
	for i, e := range flags {
		cfgFile.History = append(cfgFile.History, v1.History{CreatedBy: fmt.Sprintf("step %d", i), EmptyLayer: e})
	}
	im, err = mutate.ConfigFile(im, cfgFile)
	must(err)
	return im
}

func buildImage(entries []Entry, layers int, hist string) v1.Image {
	ls := make([]v1.Layer, layers)
	for i := range ls {
		ls[i] = mkLayer(entries, i)
	}
	im, err := mutate.AppendLayers(empty.Image, ls...)
	must(err)
	switch hist {
	case "", "match":
	case "none":
		im = setHistory(im, nil)
	case "missing":
		im = setHistory(im, make([]bool, layers-1))
	case "surplus":
		im = setHistory(im, make([]bool, layers+1))
	default:
		panic("hist " + hist)
	}
	return im
}

func classify(err error) string {
	switch {
	case errors.Is(err, fs.ErrNotExist):
		return "notexist"
	case errors.Is(err, img.ErrSymlinkCycle):
		return "cycle"
	case errors.Is(err, img.ErrSymlinkDepthExceeded):
		return "depth"
	}
	return "other"
}

// observe runs the three operations of the property on one view.
func observe(fsys interface {
	fs.FS
	fs.StatFS
	fs.ReadDirFS
}, view int, vpath string) Obs {
	q := strings.TrimPrefix(vpath, "/")
	if q == "" {
		q = "."
	}
	o := Obs{View: view, Name: vpath}
	if fi, err := fsys.Stat(q); err != nil {
		o.Stat = classify(err)
	} else {
		o.Stat = "ok:" + fi.Name()
	}
	if f, err := fsys.Open(q); err != nil {
		o.Open = classify(err)
	} else {
		nm := "?"
		if n, ok := f.(interface{ Name() string }); ok {
			nm = n.Name()
		}
		if _, serr := f.Stat(); serr == nil {
			o.Open = "ok:" + nm
		} else if errors.Is(serr, fs.ErrNotExist) {
			o.Open = "okwh:" + nm
		} else {
			o.Open = "other"
		}
		_ = f.Close()
	}
	if des, err := fsys.ReadDir(q); err != nil {
		o.ReadDir = classify(err)
	} else {
		names := make([]string, len(des))
		for i, d := range des {
			names[i] = d.Name()
		}
		sort.Strings(names)
		o.ReadDir = "ok:" + strings.Join(names, ",")
	}
	return o
}

// runCase loads the image with the case's max depth and queries every chain layer.
func runCase(c *Case, im v1.Image) {
	if im == nil {
		im = buildImage(c.Entries, c.Layers, c.Hist)
	}
	cfg := img.DefaultConfig()
	cfg.MaxSymlinkDepth = c.Depth
	x, err := img.FromV1Image(im, cfg)
	if err != nil {
		panic(fmt.Sprintf("FromV1Image: %v (case %+v)", err, c))
	}
	defer func() { _ = x.CleanUp() }()
	cls, err := x.ChainLayers()
	must(err)
	if len(cls) != c.Layers {
		panic("chain layer count")
	}
	c.Obs = c.Obs[:0]
	for vi, cl := range cls {
		f := cl.FS()
		for _, q := range c.Queries {
			c.Obs = append(c.Obs, observe(f, vi, q))
		}
	}
}

// ---------------------------------------------------------------- Coq printing
func segs(p string) []string { // "/d/c" -> [d c]; "/" -> []
	p = strings.TrimPrefix(p, "/")
	if p == "" {
		return nil
	}
	return strings.Split(p, "/")
}

func coqPath(ss []string) string {
	if len(ss) == 0 {
		return "(@nil seg)"
	}
	items := make([]string, len(ss))
	for i, s := range ss {
		items[i] = cf.Str(s)
	}
	return "[" + strings.Join(items, "; ") + "]"
}

// target string -> (abs, segments) exactly as the model expects: the segments are those of the
// string after one leading "/" has been removed.
func coqTarget(t string) (bool, []string) {
	abs := strings.HasPrefix(t, "/")
	if abs {
		t = t[1:]
		if t == "" {
			return true, nil
		}
	}
	return abs, strings.Split(t, "/")
}

func coqOutcome(s string) string {
	switch {
	case strings.HasPrefix(s, "ok:"):
		return "OOk " + cf.Str(s[3:]) + " false"
	case strings.HasPrefix(s, "okwh:"):
		return "OOk " + cf.Str(s[5:]) + " true"
	case s == "notexist":
		return "OErr CNotExist"
	case s == "cycle":
		return "OErr CCycle"
	case s == "depth":
		return "OErr CDepth"
	}
	return "OErr COther"
}

func coqRd(s string) string {
	switch {
	case strings.HasPrefix(s, "ok:"):
		if s == "ok:" {
			return "RDOk []"
		}
		return "RDOk " + coqPath(strings.Split(s[3:], ","))
	case s == "notexist":
		return "RDErr CNotExist"
	case s == "cycle":
		return "RDErr CCycle"
	case s == "depth":
		return "RDErr CDepth"
	}
	return "RDErr COther"
}

// keptOf lists the deleted entries whose whiteout node is still present in the final view
// (Open on the entry itself returns a handle): an observed input of the model, see Model.v.
func keptOf(c *Case) []string {
	del := map[string]bool{}
	for _, e := range c.Entries {
		if e.Del >= 0 {
			del[e.Name] = true
		}
	}
	var kept []string
	for _, o := range c.Obs {
		if o.View == c.Layers-1 && del[o.Name] && o.Open == "okwh:"+path.Base(o.Name) {
			kept = append(kept, o.Name)
		}
	}
	return kept
}

func coqCase(c *Case) string {
	var es []string
	for _, e := range c.Entries {
		k := "KFile"
		switch e.Kind {
		case "dir":
			k = "KDir"
		case "link":
			abs, ts := coqTarget(e.Target)
			k = fmt.Sprintf("(KLink %s %s)", cf.Bool(abs), coqPath(ts))
		}
		del := "None"
		if e.Del >= 0 {
			del = fmt.Sprintf("(Some %d)", e.Del)
		}
		es = append(es, fmt.Sprintf("mkE %s %s %d %s", coqPath(segs(e.Name)), k, e.Layer, del))
	}
	var os []string
	for _, o := range c.Obs {
		os = append(os, fmt.Sprintf("mkQ %d %s (%s) (%s) (%s)",
			o.View, coqPath(segs(o.Name)), coqOutcome(o.Stat), coqOutcome(o.Open), coqRd(o.ReadDir)))
	}
	var kept []string
	for _, k := range keptOf(c) {
		kept = append(kept, coqPath(segs(k)))
	}
	return fmt.Sprintf("mkC (mkI %s %d std_marker) %d %s\n     %s",
		cf.List(es), c.Layers, c.Depth, cf.List(kept), cf.List(os))
}

// ---------------------------------------------------------------- exhaustive stream
var universe = []string{"/a", "/b", "/d/c", "/d/e", "/k/m"}

const nKinds = 14

func pow(b, e int) int64 {
	r := int64(1)
	for i := 0; i < e; i++ {
		r *= int64(b)
	}
	return r
}

// relTarget is the relative Linkname for a link stored at from pointing to the entry to.
func relTarget(from, to string) string {
	d := segs(path.Dir(from))
	t := segs(to)
	c := 0
	for c < len(d) && c < len(t) && d[c] == t[c] {
		c++
	}
	var out []string
	for i := c; i < len(d); i++ {
		out = append(out, "..")
	}
	out = append(out, t[c:]...)
	return strings.Join(out, "/")
}

func decodeGraph(idx int64) ([]int, []Entry) {
	kinds := make([]int, len(universe))
	var es []Entry
	for i, nm := range universe {
		k := int(idx % nKinds)
		idx /= nKinds
		kinds[i] = k
		switch {
		case k == 0:
			es = append(es, Entry{Name: nm, Kind: "file", Del: -1})
		case k == 1:
			es = append(es, Entry{Name: nm, Kind: "dir", Del: -1})
		case k == 2:
		case k == 3:
			es = append(es, Entry{Name: nm, Kind: "file", Del: 1})
		case k < 9:
			es = append(es, Entry{Name: nm, Kind: "link", Target: relTarget(nm, universe[k-4]), Del: -1})
		default:
			es = append(es, Entry{Name: nm, Kind: "link", Target: universe[k-9], Del: -1})
		}
	}
	return kinds, es
}

func describeKinds(kinds []int) string {
	var sb []string
	for i, k := range kinds {
		var s string
		switch {
		case k == 0:
			s = "file"
		case k == 1:
			s = "dir"
		case k == 2:
			s = "missing"
		case k == 3:
			s = "deleted"
		case k < 9:
			s = "->" + relTarget(universe[i], universe[k-4])
		default:
			s = "->" + universe[k-9]
		}
		sb = append(sb, universe[i]+"="+s)
	}
	return strings.Join(sb, " ")
}

func digitOf(s string, rd bool) int {
	switch s {
	case "notexist":
		return 5
	case "cycle":
		return 6
	case "depth":
		return 7
	}
	if rd {
		if s == "ok:" {
			return 0
		}
		return 8
	}
	if strings.HasPrefix(s, "ok:") {
		for j, u := range universe {
			if path.Base(u) == s[3:] {
				return j
			}
		}
	}
	if strings.HasPrefix(s, "okwh:") {
		for j, u := range universe {
			if path.Base(u) == s[5:] {
				return 9 + j
			}
		}
	}
	return 8
}

const maxDepthExh = 6

// runGraph runs all depths of one exhaustive graph; returns the hex observation string (most
// significant digit first) and the explicit cases (one per depth).
func runGraph(idx int64) (XCase, []*Case) {
	kinds, es := decodeGraph(idx)
	hist := histModes[idx%int64(len(histModes))]
	im := buildImage(es, 2, hist)
	var blocks []string
	var cases []*Case
	for d := 0; d <= maxDepthExh; d++ {
		c := &Case{Stream: "exh", Layers: 2, Depth: d, Entries: es, Queries: universe, Hist: hist}
		runCase(c, im)
		cases = append(cases, c)
		// order: view, then entry (runCase) -> index ((d*2+v)*5+j)*3+op
		digits := make([]byte, 0, 30)
		for _, o := range c.Obs {
			digits = append(digits, "0123456789abcdef"[digitOf(o.Stat, false)], "0123456789abcdef"[digitOf(o.Open, false)], "0123456789abcdef"[digitOf(o.ReadDir, true)])
		}
		blocks = append(blocks, string(digits))
	}
	return XCase{Stream: "exh", Hist: hist, Idx: idx, Kinds: kinds, Desc: describeKinds(kinds), Obs: blocks}, cases
}

// ---------------------------------------------------------------- explicit streams
func chainName(k int) string {
	if k%2 == 0 {
		return fmt.Sprintf("/s%d", k)
	}
	return fmt.Sprintf("/d/s%d", k)
}

func genChains(r *rand.Rand, maxDepth int) []*Case {
	var out []*Case
	terms := []string{"file", "dir", "missing", "deleted"}
	for L := 1; L <= 8; L++ {
		var variants []string
		variants = append(variants, terms...)
		for c := 0; c < L; c++ {
			variants = append(variants, fmt.Sprintf("back%d", c))
		}
		for _, term := range variants {
			for d := 0; d <= maxDepth; d++ {
				var es []Entry
				var qs []string
				flip := r.Intn(2)
				for k := 0; k < L; k++ {
					to := chainName(k + 1)
					if k == L-1 && strings.HasPrefix(term, "back") {
						var c int
						fmt.Sscanf(term, "back%d", &c)
						to = chainName(c)
					}
					t := to
					if (k+flip)%2 == 0 {
						t = relTarget(chainName(k), to)
					}
					es = append(es, Entry{Name: chainName(k), Kind: "link", Target: t, Layer: r.Intn(2), Del: -1})
					qs = append(qs, chainName(k))
				}
				switch term {
				case "file", "dir":
					es = append(es, Entry{Name: chainName(L), Kind: term, Layer: 0, Del: -1})
				case "deleted":
					es = append(es, Entry{Name: chainName(L), Kind: "file", Layer: 0, Del: 1})
				}
				qs = append(qs, chainName(L))
				es = append(es, Entry{Name: "/z", Kind: "file", Layer: 2, Del: -1})
				out = append(out, &Case{Stream: "chains", Layers: 3, Depth: d, Entries: es, Queries: qs, Note: fmt.Sprintf("L=%d term=%s", L, term)})
			}
		}
	}
	return out
}

var pool = []string{"/a", "/b", "/c", "/d/e", "/d/f", "/k/m", "/k/n", "/p"}

func genRand3(r *rand.Rand, n int) []*Case {
	var out []*Case
	for i := 0; i < n; i++ {
		var es []Entry
		for _, nm := range pool {
			e := Entry{Name: nm, Del: -1, Layer: r.Intn(2)}
			switch k := r.Intn(10); {
			case k == 0:
				continue // missing
			case k == 1:
				e.Kind = "file"
			case k == 2:
				e.Kind = "dir"
			case k == 3:
				e.Kind = "file"
				e.Del = e.Layer + 1 + r.Intn(2-e.Layer)
			default:
				e.Kind = "link"
				to := pool[r.Intn(len(pool))]
				if r.Intn(2) == 0 {
					e.Target = to
				} else {
					e.Target = relTarget(nm, to)
				}
				if k == 4 { // a link that is deleted later
					e.Del = e.Layer + 1 + r.Intn(2-e.Layer)
				}
				if k == 5 {
					e.Layer = 2
				}
			}
			es = append(es, e)
		}
		es = append(es, Entry{Name: "/z", Kind: "file", Layer: 2, Del: -1})
		out = append(out, &Case{Stream: "rand3", Layers: 3, Depth: r.Intn(8), Entries: es, Queries: append(append([]string{}, pool...), "/d", "/k", "/")})
	}
	return out
}

// spellings of a link from `from` to `to`; the tag says what the spelling exercises
func spellings(from, to string) [][2]string {
	rel := relTarget(from, to)
	up := strings.Repeat("../", len(segs(path.Dir(from)))+1)
	return [][2]string{
		{"rel", rel}, {"abs", to},
		{"rel-dot", "./" + rel}, {"rel-trailing-slash", rel + "/"}, {"rel-detour", "q/../" + rel}, {"rel-double-slash", strings.Replace(rel, "/", "//", 1)},
		{"abs-detour", "/q/.." + to}, {"abs-double-slash", "/" + to}, {"abs-trailing-slash", to + "/"}, {"abs-dot", "/." + to},
		{"escape-rel", up + strings.TrimPrefix(to, "/")}, {"escape-abs", "/.." + to}, {"escape-deep", "q/../../" + up + strings.TrimPrefix(to, "/")},
		{"parent", ".."}, {"self-dir", "."}, {"root", "/"},
	}
}

func genPaths(r *rand.Rand, n int) []*Case {
	var out []*Case
	for i := 0; i < n; i++ {
		var es []Entry
		tags := []string{}
		for _, nm := range pool {
			e := Entry{Name: nm, Del: -1, Layer: r.Intn(2)}
			switch k := r.Intn(8); {
			case k == 0:
				continue
			case k == 1:
				e.Kind = "file"
			case k == 2:
				e.Kind = "dir"
			default:
				e.Kind = "link"
				sp := spellings(nm, pool[r.Intn(len(pool))])
				var pick [2]string
				if k <= 5 {
					pick = sp[r.Intn(len(sp))]
				} else {
					pick = sp[r.Intn(2)]
				}
				if strings.HasPrefix(pick[0], "parent") && len(segs(nm)) == 1 {
					pick = [2]string{"escape-parent", ".."}
				}
				e.Target = pick[1]
				tags = append(tags, pick[0])
			}
			es = append(es, e)
		}
		es = append(es, Entry{Name: "/z", Kind: "file", Layer: 2, Del: -1})
		out = append(out, &Case{Stream: "paths", Layers: 3, Depth: 1 + r.Intn(6), Entries: es, Queries: append(append([]string{}, pool...), "/d", "/k"), Note: strings.Join(tags, ",")})
	}
	return out
}

const header = "From Coq Require Import List NArith Bool.\nFrom Scalibr Require Import Symlink.PathSeg Symlink.Model.\nImport ListNotations.\n"

// writeShards writes prefix_<k>.v files, each self-contained with at most per cases.
func writeShards(prefix, name, ty string, items []string, per int, footer string) []string {
	var files []string
	for k := 0; k*per < len(items) || k == 0; k++ {
		hi := min((k+1)*per, len(items))
		var sb strings.Builder
		sb.WriteString(header)
		sb.WriteString(cf.Chunked(name, ty, items[k*per:hi], 250))
		sb.WriteString(footer)
		f := fmt.Sprintf("%s_%d.v", prefix, k)
		must(os.WriteFile(f, []byte(sb.String()), 0o644))
		files = append(files, f)
	}
	return files
}

// writeExhShards: like writeShards, but the 30-digit observation blocks are defined once per file
// and referred to by name (Coq parses long literal lists slowly).
func writeExhShards(prefix string, xcs []XCase, per int, footer string) []string {
	var files []string
	for k := 0; k*per < len(xcs) || k == 0; k++ {
		hi := min((k+1)*per, len(xcs))
		names := map[string]string{}
		var sb strings.Builder
		sb.WriteString(header)
		var items []string
		for _, xc := range xcs[k*per : hi] {
			refs := make([]string, len(xc.Obs))
			for i, b := range xc.Obs {
				nm, ok := names[b]
				if !ok {
					nm = fmt.Sprintf("B%d", len(names))
					names[b] = nm
					ds := make([]string, len(b))
					for j := range b {
						ds[j] = "h" + string(b[j])
					}
					fmt.Fprintf(&sb, "Definition %s : list nat := [%s].\n", nm, strings.Join(ds, ";"))
				}
				refs[i] = nm
			}
			items = append(items, fmt.Sprintf("mkX %d%%N [%s]", xc.Idx, strings.Join(refs, ";")))
		}
		sb.WriteString(cf.Chunked("xcases", "xcase", items, 250))
		sb.WriteString(footer)
		f := fmt.Sprintf("%s_%d.v", prefix, k)
		must(os.WriteFile(f, []byte(sb.String()), 0o644))
		files = append(files, f)
	}
	return files
}

func caseKey(c *Case) string {
	b, _ := json.Marshal([]any{c.Layers, c.Depth, c.Entries})
	return string(b)
}

func main() {
	out := flag.String("out", "", "output .v file")
	side := flag.String("jsonl", "", "output side file")
	seed := flag.Int64("seed", 1, "PRNG seed")
	stream := flag.String("stream", "exh", "exh | explicit | general")
	ngen := flag.Int("general", 300, "general: number of cases")
	lo := flag.Int64("lo", 0, "exh: first graph index")
	hi := flag.Int64("hi", 0, "exh: one past the last graph index")
	sample := flag.Int("sample", 0, "exh: number of seeded sample indices instead of a range")
	part := flag.Int("part", 0, "exh: this part (sample: round-robin over the sorted sample; range: indices congruent to part modulo parts)")
	parts := flag.Int("parts", 1, "exh: number of parts")
	nrand := flag.Int("rand", 300, "explicit: number of rand3 cases")
	npaths := flag.Int("paths", 300, "explicit: number of paths cases")
	replay := flag.String("replay", "", "replay a JSON case file")
	per := flag.Int("per", 100, "cases per generated .v file")
	compact := flag.Bool("compact", false, "exh: shorter JSONL lines (no description, '=' for a block equal to the previous depth's)")
	flag.Parse()
	log.SetLogger(silent{})
	if os.Getenv("TMPDIR") == "" {
		if st, err := os.Stat("/dev/shm"); err == nil && st.IsDir() {
			os.Setenv("TMPDIR", "/dev/shm")
		}
	}
	total := pow(nKinds, len(universe))

	if *replay != "" {
		b, err := os.ReadFile(*replay)
		must(err)
		var wrap struct {
			Case json.RawMessage `json:"case"`
		}
		must(json.Unmarshal(b, &wrap))
		var probe struct {
			Stream string `json:"stream"`
			Idx    int64  `json:"idx"`
		}
		must(json.Unmarshal(wrap.Case, &probe))
		var cs []*Case
		if probe.Stream == "general" {
			var c GCase
			must(json.Unmarshal(wrap.Case, &c))
			runGeneral(&c)
			js, _ := json.Marshal(c)
			fmt.Printf("implementation: %s\n", js)
			t := &nameTable{ids: map[string]string{}}
			term := coqGCase(t, &c)
			fmt.Printf("coq-general-defs: %s\n", strings.ReplaceAll(strings.Join(t.defs, ""), "\n", " "))
			fmt.Printf("coq-general-case: %s\n", strings.ReplaceAll(term, "\n", " "))
			return
		}
		if probe.Stream == "exh" {
			_, cs = runGraph(probe.Idx)
		} else {
			var c Case
			must(json.Unmarshal(wrap.Case, &c))
			runCase(&c, nil)
			cs = []*Case{&c}
		}
		for _, c := range cs {
			js, _ := json.Marshal(c)
			fmt.Printf("implementation: %s\n", js)
			fmt.Printf("coq-case: %s\n", coqCase(c))
		}
		return
	}

	sf, err := os.Create(*side)
	must(err)
	defer sf.Close()
	enc := json.NewEncoder(sf)
	summary := map[string]any{}
	var files []string

	if *stream == "exh" {
		var idxs []int64
		if *sample > 0 {
			r := rand.New(rand.NewSource(*seed))
			seen := map[int64]bool{}
			for len(seen) < *sample {
				seen[r.Int63n(total)] = true
			}
			all := make([]int64, 0, len(seen))
			for k := range seen {
				all = append(all, k)
			}
			sort.Slice(all, func(i, j int) bool { return all[i] < all[j] })
			for i, k := range all {
				if i%*parts == *part {
					idxs = append(idxs, k)
				}
			}
		} else {
			if *hi > total {
				*hi = total
			}
			for k := *lo; k < *hi; k++ {
				if int(k%int64(*parts)) == *part {
					idxs = append(idxs, k)
				}
			}
		}
		var xcs []XCase
		distinct := map[[32]byte]struct{}{}
		evals, symStart, kindHist := 0, 0, make([]int, nKinds)
		for _, k := range idxs {
			xc, cs := runGraph(k)
			if *compact {
				sc := xc
				sc.Desc = ""
				sc.Obs = append([]string(nil), xc.Obs...)
				for i := len(sc.Obs) - 1; i > 0; i-- {
					if sc.Obs[i] == sc.Obs[i-1] {
						sc.Obs[i] = "="
					}
				}
				must(enc.Encode(sc))
			} else {
				must(enc.Encode(xc))
			}
			xcs = append(xcs, xc)
			for _, kd := range xc.Kinds {
				kindHist[kd]++
			}
			for _, c := range cs {
				for _, o := range c.Obs {
					evals += 3
					// non-trivial: the start entry is a symlink
					for j, u := range universe {
						if u == o.Name && xc.Kinds[j] >= 4 {
							symStart++
							distinct[sha256.Sum256([]byte(fmt.Sprintf("exh|%d|%d|%d|%s", xc.Idx, c.Depth, o.View, o.Name)))] = struct{}{}
						}
					}
				}
			}
		}
		files = writeExhShards(*out, xcs, *per,
			"Definition corr_bad := Eval vm_compute in bad_indices xcase_model_ok xcases 0.\nPrint corr_bad.\n"+
				"Definition spec_bad := Eval vm_compute in bad_indices xcase_spec_ok xcases 0.\nPrint spec_bad.\n"+
				"Definition boundary_count := Eval vm_compute in [fold_right (fun x a => xcase_boundary_count x + a) 0 xcases].\nPrint boundary_count.\n")
		summary = map[string]any{"stream": "exh", "graphs": len(idxs), "evaluations": evals, "symlink_start_queries": symStart,
			"distinct_nontrivial": len(distinct), "kind_histogram": kindHist, "total_graphs": total}
	} else if *stream == "general" {
		r := rand.New(rand.NewSource(*seed + 7919))
		cases := genGeneral(r, *ngen)
		distinct := map[[32]byte]struct{}{}
		evals, unstable := 0, 0
		for _, c := range cases {
			runGeneral(c)
			must(enc.Encode(c))
			unstable += c.Unstable
			isLink := map[string]bool{}
			for _, l := range c.Layers {
				for _, e := range l {
					if e.Kind == "sym" {
						isLink[e.Name] = true
					}
				}
			}
			js, _ := json.Marshal([]any{c.Layers, c.Depth})
			for _, o := range c.Obs {
				evals += 3
				if isLink[strings.TrimPrefix(o.Name, "/")] {
					distinct[sha256.Sum256([]byte(fmt.Sprintf("%s|%d|%s", js, o.View, o.Name)))] = struct{}{}
				}
			}
		}
		files = writeGeneralShards(*out, cases, *per)
		summary = map[string]any{"stream": "general", "cases": len(cases), "evaluations": evals * 3, "distinct_nontrivial": len(distinct),
			"streams": map[string]int{"general": len(cases)}, "unstable_answers": unstable, "passes": 3}
	} else {
		r := rand.New(rand.NewSource(*seed))
		var cases []*Case
		cases = append(cases, genChains(r, 8)...)
		cases = append(cases, genRand3(r, *nrand)...)
		cases = append(cases, genPaths(r, *npaths)...)
		var items []string
		distinct := map[[32]byte]struct{}{}
		evals := 0
		streams := map[string]int{}
		for ci, c := range cases {
			c.Hist = histModes[(ci+int(*seed))%len(histModes)]
			runCase(c, nil)
			must(enc.Encode(c))
			items = append(items, coqCase(c))
			streams[c.Stream]++
			isLink := map[string]bool{}
			for _, e := range c.Entries {
				if e.Kind == "link" {
					isLink[e.Name] = true
				}
			}
			for _, o := range c.Obs {
				evals += 3
				if isLink[o.Name] {
					distinct[sha256.Sum256([]byte(fmt.Sprintf("%s|%d|%s", caseKey(c), o.View, o.Name)))] = struct{}{}
				}
			}
		}
		files = writeShards(*out, "cases", "scase", items, *per,
			"Definition corr_bad := Eval vm_compute in bad_indices case_model_ok cases 0.\nPrint corr_bad.\n"+
				"Definition spec_bad := Eval vm_compute in bad_indices case_spec_ok cases 0.\nPrint spec_bad.\n"+
				"Definition boundary_count := Eval vm_compute in [fold_right (fun c a => case_boundary_count c + a) 0 cases].\nPrint boundary_count.\n"+
				"Definition noncanonical_abs := Eval vm_compute in [length (filter (fun c => negb (abs_canonical (c_img c))) cases)].\nPrint noncanonical_abs.\n")
		summary = map[string]any{"stream": "explicit", "cases": len(cases), "evaluations": evals, "distinct_nontrivial": len(distinct), "streams": streams}
	}
	summary["files"] = files
	summary["per_file"] = *per
	js, _ := json.Marshal(summary)
	fmt.Printf("summary: %s\n", js)
}

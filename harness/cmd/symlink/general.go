package main

// Stream "general": images of any shape (names of up to four segments, explicit and implicit
// directories, whiteouts of files, links and whole directories, directories replaced by files or
// links and files replaced by directories, links rewritten, 2..4 layers).  One loaded image is
// queried on EVERY chain layer in three different orders (standing check that answers do not depend
// on what was asked before, or on which chain layer was asked first).

import (
	"archive/tar"
	"bytes"
	"fmt"
	"io"
	"math/rand"
	"os"
	"path"
	"sort"
	"strings"

	v1 "github.com/google/go-containerregistry/pkg/v1"
	"github.com/google/go-containerregistry/pkg/v1/empty"
	"github.com/google/go-containerregistry/pkg/v1/mutate"
	"github.com/google/go-containerregistry/pkg/v1/tarball"
	img "github.com/google/osv-scalibr/artifact/image/layerscanning/image"
	scalibrfs "github.com/google/osv-scalibr/fs"

	cf "verifharness/internal/coqfmt"
)

// GEntry is one tar member of a general image.
type GEntry struct {
	Name   string `json:"name"`
	Kind   string `json:"kind"` // dir | reg | sym
	Target string `json:"target,omitempty"`
}

// GCase is a general image with its observations.
type GCase struct {
	Stream   string     `json:"stream"`
	Layers   [][]GEntry `json:"layers"`
	Hist     []bool     `json:"hist"`      // config history: EmptyLayer flag per entry
	HistMode string     `json:"hist_mode"` // match (possibly with empty entries) | none | missing | surplus
	Depth    int        `json:"depth"`
	Queries  []string   `json:"queries"`
	Obs      []Obs      `json:"obs,omitempty"`
	Unstable int        `json:"unstable"` // answers of a later pass that differ from the first pass (also appended to obs)
	Note     string     `json:"note,omitempty"`
}

type tarMember struct{ Name, Kind, Target string }

func buildRawImage(layers [][]tarMember) v1.Image {
	ls := make([]v1.Layer, len(layers))
	for i, ms := range layers {
		var buf bytes.Buffer
		tw := tar.NewWriter(&buf)
		for _, m := range ms {
			switch m.Kind {
			case "reg":
				must(tw.WriteHeader(&tar.Header{Name: m.Name, Typeflag: tar.TypeReg, Mode: 0o644, Size: 1}))
				_, err := tw.Write([]byte("x"))
				must(err)
			case "dir":
				must(tw.WriteHeader(&tar.Header{Name: m.Name, Typeflag: tar.TypeDir, Mode: 0o644}))
			case "sym":
				must(tw.WriteHeader(&tar.Header{Name: m.Name, Typeflag: tar.TypeSymlink, Linkname: m.Target, Mode: 0o644}))
			default:
				panic("kind " + m.Kind)
			}
		}
		must(tw.Close())
		b := buf.Bytes()
		l, err := tarball.LayerFromOpener(func() (io.ReadCloser, error) { return io.NopCloser(bytes.NewReader(b)), nil })
		must(err)
		ls[i] = l
	}
	im, err := mutate.AppendLayers(empty.Image, ls...)
	must(err)
	return im
}

func runGeneral(c *GCase) {
	var ls [][]tarMember
	for _, l := range c.Layers {
		var ms []tarMember
		for _, e := range l {
			ms = append(ms, tarMember{e.Name, e.Kind, e.Target})
		}
		ls = append(ls, ms)
	}
	im := setHistory(buildRawImage(ls), c.Hist)
	cfg := img.DefaultConfig()
	cfg.MaxSymlinkDepth = c.Depth
	x, err := img.FromV1Image(im, cfg)
	if err != nil {
		panic(fmt.Sprintf("FromV1Image: %v (case %+v)", err, c))
	}
	defer func() { _ = x.CleanUp() }()
	cls, err := x.ChainLayers()
	must(err)
	type key struct {
		v int
		q string
	}
	first := map[key]Obs{}
	c.Obs = c.Obs[:0]
	c.Unstable = 0
	record := func(o Obs) {
		k := key{o.View, o.Name}
		if f, ok := first[k]; !ok {
			first[k] = o
			c.Obs = append(c.Obs, o)
		} else if f != o {
			c.Unstable++
			c.Obs = append(c.Obs, o)
		}
	}
	// pass 0: views ascending; the FS object of each view is kept for pass 1
	keep := make([]scalibrfs.FS, len(cls))
	for vi, cl := range cls {
		keep[vi] = cl.FS()
		for _, q := range c.Queries {
			record(observe(keep[vi], vi, "/"+q))
		}
	}
	// pass 1: views descending, names reversed, the same FS objects
	for vi := len(cls) - 1; vi >= 0; vi-- {
		for qi := len(c.Queries) - 1; qi >= 0; qi-- {
			record(observe(keep[vi], vi, "/"+c.Queries[qi]))
		}
	}
	// pass 2: name-major, fresh FS objects
	for _, q := range c.Queries {
		for vi, cl := range cls {
			record(observe(cl.FS(), vi, "/"+q))
		}
	}
}

// ---------------------------------------------------------------- generator
type gfs struct {
	kind   map[string]string // current squashed tree: path -> dir|reg|sym
	dead   map[string]bool   // paths destructively covered while older layers had content below them
	all    map[string]bool   // every path ever mentioned
	r      *rand.Rand
	layer  []GEntry
	used   map[string]bool // member paths of the layer being built
	closed []string        // whiteout targets / non-directories of the layer being built: nothing below them
}

var gsegs = []string{"a", "b", "c", "d"}

func (g *gfs) randPath(maxDepth int) string {
	n := 1 + g.r.Intn(maxDepth)
	p := make([]string, n)
	for i := range p {
		p[i] = gsegs[g.r.Intn(len(gsegs))]
	}
	return strings.Join(p, "/")
}

func below(anc, p string) bool { return strings.HasPrefix(p, anc+"/") }

func (g *gfs) hasBelow(p string) bool {
	for k := range g.kind {
		if below(p, k) {
			return true
		}
	}
	return false
}

// usable: p may become a member of the current layer
func (g *gfs) usable(p string) bool {
	if g.used[p] {
		return false
	}
	for _, c := range g.closed {
		if below(c, p) {
			return false
		}
	}
	for d := range g.dead {
		if p == d || below(d, p) {
			return false
		}
	}
	// every existing ancestor must be a directory (otherwise this member would implicitly replace a
	// file by a directory: allowed, but then the ancestor is destructive-free; keep it simple)
	for q := path.Dir(p); q != "." && q != "/"; q = path.Dir(q) {
		if k, ok := g.kind[q]; ok && k != "dir" {
			return false
		}
	}
	return true
}

func (g *gfs) addParents(p string) {
	for q := path.Dir(p); q != "." && q != "/"; q = path.Dir(q) {
		if _, ok := g.kind[q]; !ok {
			g.kind[q] = "dir"
		}
		g.all[q] = true
	}
}

// coversUsed: some member of the layer being built lies below p
func (g *gfs) coversUsed(p string) bool {
	for u := range g.used {
		if below(p, u) {
			return true
		}
	}
	return false
}

func (g *gfs) removeTree(p string) {
	for k := range g.kind {
		if k == p || below(p, k) {
			delete(g.kind, k)
		}
	}
}

func (g *gfs) target(from string) string {
	var to string
	keys := make([]string, 0, len(g.all))
	for k := range g.all {
		keys = append(keys, k)
	}
	sort.Strings(keys)
	if len(keys) > 0 && g.r.Intn(6) != 0 {
		to = keys[g.r.Intn(len(keys))]
	} else {
		to = g.randPath(3)
	}
	g.all[to] = true
	rel := relTarget("/"+from, "/"+to)
	if rel == "" {
		rel = "."
	}
	switch g.r.Intn(10) {
	case 0, 1, 2, 3:
		return rel
	case 4, 5, 6:
		return "/" + to
	case 7:
		return "./" + rel
	case 8:
		return "/" + path.Dir(to) + "/x/../" + path.Base(to)
	default:
		return "/" + to + "/"
	}
}

func (g *gfs) emit(p, kind string) {
	e := GEntry{Name: p, Kind: kind}
	if kind == "dir" {
		e.Name = p + "/"
	}
	if kind == "sym" {
		e.Target = g.target(p)
	}
	g.layer = append(g.layer, e)
	g.used[p] = true
	g.all[p] = true
	if kind != "dir" {
		g.closed = append(g.closed, p)
	}
}

func (g *gfs) step() {
	existing := make([]string, 0, len(g.kind))
	for k := range g.kind {
		existing = append(existing, k)
	}
	sort.Strings(existing)
	pickExisting := func() (string, bool) {
		if len(existing) == 0 {
			return "", false
		}
		return existing[g.r.Intn(len(existing))], true
	}
	switch op := g.r.Intn(10); {
	case op < 4: // add something new
		p := g.randPath(4)
		if _, ok := g.kind[p]; ok || !g.usable(p) {
			return
		}
		kind := []string{"reg", "reg", "dir", "sym", "sym"}[g.r.Intn(5)]
		g.emit(p, kind)
		g.addParents(p)
		g.kind[p] = kind
	case op < 6: // whiteout
		p, ok := pickExisting()
		if !ok || !g.usable(p) || g.coversUsed(p) {
			return
		}
		// keep a sibling in a nested parent so that the final pruning does not drop the directory
		if par := path.Dir(p); strings.Contains(par, "/") {
			sib := par + "/keep"
			if _, ok := g.kind[sib]; !ok && g.usable(sib) {
				g.emit(sib, "reg")
				g.kind[sib] = "reg"
			}
		}
		if g.hasBelow(p) {
			g.dead[p] = true
		}
		d, b := path.Split(p)
		g.layer = append(g.layer, GEntry{Name: d + ".wh." + b, Kind: "reg"})
		g.used[p] = true
		g.closed = append(g.closed, p)
		g.removeTree(p)
	case op < 8: // replace (directory by file/link, file by directory, link by another link)
		p, ok := pickExisting()
		if !ok || !g.usable(p) || g.coversUsed(p) {
			return
		}
		old := g.kind[p]
		var kind string
		switch old {
		case "dir":
			kind = []string{"reg", "sym"}[g.r.Intn(2)]
			if g.hasBelow(p) {
				g.dead[p] = true
			}
		case "reg":
			kind = []string{"dir", "sym"}[g.r.Intn(2)]
		default:
			kind = []string{"sym", "reg", "dir"}[g.r.Intn(3)]
		}
		g.emit(p, kind)
		if kind != "dir" {
			g.removeTree(p)
		}
		g.kind[p] = kind
	default: // a link next to or inside an existing directory
		p, ok := pickExisting()
		if !ok || g.kind[p] != "dir" {
			return
		}
		q := p + "/" + []string{"l", "m"}[g.r.Intn(2)]
		if _, ok := g.kind[q]; ok || !g.usable(q) {
			return
		}
		g.emit(q, "sym")
		g.kind[q] = "sym"
	}
}

func genGeneral(r *rand.Rand, n int) []*GCase {
	var out []*GCase
	for i := 0; i < n; i++ {
		g := &gfs{kind: map[string]string{}, dead: map[string]bool{}, all: map[string]bool{}, r: r}
		nl := 2 + r.Intn(3)
		c := &GCase{Stream: "general", Depth: r.Intn(7)}
		for l := 0; l < nl; l++ {
			g.layer, g.used, g.closed = nil, map[string]bool{}, nil
			steps := 2 + r.Intn(5)
			if l == 0 {
				steps = 5 + r.Intn(5)
			}
			for s := 0; s < steps; s++ {
				g.step()
			}
			// a marker so that no layer is empty and diff ids differ
			g.layer = append(g.layer, GEntry{Name: fmt.Sprintf("zz-layer-%d", l), Kind: "reg"})
			c.Layers = append(c.Layers, g.layer)
		}
		qs := make([]string, 0, len(g.all))
		for k := range g.all {
			qs = append(qs, k)
		}
		sort.Strings(qs)
		if len(qs) > 28 {
			r.Shuffle(len(qs), func(i, j int) { qs[i], qs[j] = qs[j], qs[i] })
			qs = qs[:28]
			sort.Strings(qs)
		}
		c.Queries = qs
		switch c.HistMode = []string{"match", "match", "none", "missing", "surplus"}[r.Intn(5)]; c.HistMode {
		case "match": // one entry per layer, with empty-layer entries in between
			for range c.Layers {
				for r.Intn(4) == 0 {
					c.Hist = append(c.Hist, true)
				}
				c.Hist = append(c.Hist, false)
			}
			if r.Intn(4) == 0 {
				c.Hist = append(c.Hist, true)
			}
		case "none":
		case "missing":
			c.Hist = make([]bool, len(c.Layers)-1)
		case "surplus":
			c.Hist = make([]bool, len(c.Layers)+1)
		}
		out = append(out, c)
	}
	return out
}

// ---------------------------------------------------------------- Coq printing
type nameTable struct {
	ids  map[string]string
	defs []string
}

func (t *nameTable) ref(s string) string {
	if id, ok := t.ids[s]; ok {
		return id
	}
	id := fmt.Sprintf("S%d", len(t.ids))
	t.ids[s] = id
	t.defs = append(t.defs, fmt.Sprintf("Definition %s : str := %s.\n", id, cf.Str(s)))
	return id
}

func gOutcome(t *nameTable, s string) string {
	switch {
	case strings.HasPrefix(s, "ok:"):
		return "SM.OOk " + t.ref(s[3:]) + " false"
	case strings.HasPrefix(s, "okwh:"):
		return "SM.OOk " + t.ref(s[5:]) + " true"
	case s == "notexist":
		return "SM.OErr SM.CNotExist"
	case s == "cycle":
		return "SM.OErr SM.CCycle"
	case s == "depth":
		return "SM.OErr SM.CDepth"
	}
	return "SM.OErr SM.COther"
}

func gRd(t *nameTable, s string) string {
	switch {
	case strings.HasPrefix(s, "ok:"):
		if s == "ok:" {
			return "SM.RDOk []"
		}
		var items []string
		for _, n := range strings.Split(s[3:], ",") {
			items = append(items, t.ref(n))
		}
		return "SM.RDOk " + cf.List(items)
	case s == "notexist":
		return "SM.RDErr SM.CNotExist"
	case s == "cycle":
		return "SM.RDErr SM.CCycle"
	case s == "depth":
		return "SM.RDErr SM.CDepth"
	}
	return "SM.RDErr SM.COther"
}

func coqGCase(t *nameTable, c *GCase) string {
	var ls []string
	for _, l := range c.Layers {
		var es []string
		for _, e := range l {
			k := map[string]string{"dir": "KDir", "reg": "KReg", "sym": "KSym"}[e.Kind]
			tg := "[]"
			if e.Target != "" {
				tg = t.ref(e.Target)
			}
			es = append(es, fmt.Sprintf("mkEn %s %s %s", t.ref(e.Name), k, tg))
		}
		ls = append(ls, cf.List(es))
	}
	var os []string
	for _, o := range c.Obs {
		os = append(os, fmt.Sprintf("mkGQ %d %s (%s) (%s) (%s)", o.View, t.ref(strings.TrimPrefix(o.Name, "/")),
			gOutcome(t, o.Stat), gOutcome(t, o.Open), gRd(t, o.ReadDir)))
	}
	hs := make([]string, len(c.Hist))
	for i, h := range c.Hist {
		hs[i] = cf.Bool(h)
	}
	return fmt.Sprintf("mkG (mkImH %s %s) %d\n     %s", cf.List(ls), cf.List(hs), c.Depth, cf.List(os))
}

const gheader = "From Coq Require Import List NArith ZArith Bool.\nFrom Scalibr Require Import Image.PathTree Image.Fill Symlink.General.\nImport ListNotations.\n"

const gfooter = "Definition corr_bad := Eval vm_compute in SM.bad_indices gcase_model_ok cases 0.\nPrint corr_bad.\n" +
	"Definition spec_bad := Eval vm_compute in SM.bad_indices gcase_spec_ok cases 0.\nPrint spec_bad.\n" +
	"Definition in_D := Eval vm_compute in [length (filter gcase_in_D cases)].\nPrint in_D.\n" +
	"Definition order_sensitive := Eval vm_compute in [length (filter gcase_order_sensitive cases)].\nPrint order_sensitive.\n"

func writeGeneralShards(prefix string, cases []*GCase, per int) []string {
	var files []string
	for k := 0; k*per < len(cases) || k == 0; k++ {
		hi := min((k+1)*per, len(cases))
		t := &nameTable{ids: map[string]string{}}
		var items []string
		for _, c := range cases[k*per : hi] {
			items = append(items, coqGCase(t, c))
		}
		var sb strings.Builder
		sb.WriteString(gheader)
		for _, d := range t.defs {
			sb.WriteString(d)
		}
		sb.WriteString(cf.Chunked("cases", "gcase", items, 50))
		sb.WriteString(gfooter)
		f := fmt.Sprintf("%s_%d.v", prefix, k)
		must(os.WriteFile(f, []byte(sb.String()), 0o644))
		files = append(files, f)
	}
	return files
}

// Command vulns drives vulns.IsAffected (through the verif hook) on enumerated and random OSV
// records and writes (a) a Coq cases file, (b) a JSONL side file describing each case.
package main

import (
	"encoding/json"
	"flag"
	"fmt"
	"math/rand"
	"os"
	"strings"

	"deps.dev/util/resolve"
	"deps.dev/util/semver"
	"github.com/google/osv-scalibr/guidedremediation"
	"github.com/ossf/osv-schema/bindings/go/osvschema"

	cf "verifharness/internal/coqfmt"
)

type ecoDef struct {
	name     string // OSV ecosystem name
	id       uint64
	sys      resolve.System
	universe []string // ascending, pairwise different under Compare
	ties     []string // alternative spellings that compare equal to some universe member
}

var ecos = []ecoDef{
	{"npm", 0, resolve.NPM, []string{"0.0.0-alpha.1", "0.0.1", "0.5.0", "1.0.0-alpha", "1.0.0-alpha.1", "1.0.0", "1.0.1", "1.1.0", "2.0.0-rc.1", "2.0.0", "10.0.0", "10.1.0"}, []string{"1.0", "v1.0.0", "2", "1.0.0+build"}},
	{"Maven", 1, resolve.Maven, []string{"0-alpha-1", "0.1", "1.0-alpha", "1.0-beta-2", "1.0-rc1", "1.0", "1.0.1", "1.1", "2.0-SNAPSHOT", "2.0", "10.0", "10.1"}, []string{"1", "1.0.0", "1.0-ga", "2.0.0"}},
	{"PyPI", 2, resolve.PyPI, []string{"0.dev1", "0.1", "1.0.dev1", "1.0a1", "1.0rc1", "1.0", "1.0.post1", "1.1", "2.0b2", "2.0", "10.0", "10.1"}, []string{"1.0.0", "1", "2.0.0", "1.0-post1"}},
}

const (
	kI = "introduced"
	kF = "fixed"
	kL = "last_affected"
)

type ev struct {
	Kind string `json:"k"`
	Ver  string `json:"v"`
}
type rng struct {
	Type   string `json:"type"`
	Events []ev   `json:"events"`
}
type aff struct {
	Eco      string   `json:"eco"`
	Name     string   `json:"name"`
	Versions []string `json:"versions,omitempty"`
	Ranges   []rng    `json:"ranges"`
}
type vcase struct {
	Stream   string   `json:"stream"`
	Eco      string   `json:"eco"` // ecosystem of the queried package
	QName    string   `json:"qname"`
	Affected []aff    `json:"affected"`
	Queries  []string `json:"queries"`
	Observed []bool   `json:"observed"`
	WF       bool     `json:"wf"`
}

var ecoByName = map[string]*ecoDef{}

func sysOf(e *ecoDef) semver.System { return e.sys.Semver() }

// rank of a version string in the ecosystem: number of universe classes strictly below it, doubled,
// plus one if it lies strictly between two classes (never happens for universe+ties strings, but keeps
// the map total).
func rank(e *ecoDef, v string) int64 {
	s := sysOf(e)
	var r int64
	for _, u := range e.universe {
		c := s.Compare(u, v)
		if c < 0 {
			r += 2
		} else if c == 0 {
			return r
		}
	}
	return r - 1
}

var nameIDs = map[string]uint64{}

func nameID(n string) uint64 {
	if id, ok := nameIDs[n]; ok {
		return id
	}
	id := uint64(len(nameIDs) + 1)
	nameIDs[n] = id
	return id
}

var strIDs = map[string]uint64{}

func strID(n string) uint64 {
	if id, ok := strIDs[n]; ok {
		return id
	}
	id := uint64(len(strIDs) + 1)
	strIDs[n] = id
	return id
}

func ecoID(n string) uint64 {
	if e, ok := ecoByName[n]; ok {
		return e.id
	}
	return 100 + nameID("eco:"+n)
}

func runCase(c *vcase) {
	e := ecoByName[c.Eco]
	vuln := &osvschema.Vulnerability{ID: "V-1"}
	for _, a := range c.Affected {
		oa := osvschema.Affected{Package: osvschema.Package{Ecosystem: a.Eco, Name: a.Name}, Versions: a.Versions}
		for _, r := range a.Ranges {
			or := osvschema.Range{Type: osvschema.RangeType(r.Type)}
			for _, x := range r.Events {
				switch x.Kind {
				case kI:
					or.Events = append(or.Events, osvschema.Event{Introduced: x.Ver})
				case kF:
					or.Events = append(or.Events, osvschema.Event{Fixed: x.Ver})
				case kL:
					or.Events = append(or.Events, osvschema.Event{LastAffected: x.Ver})
				}
			}
			oa.Ranges = append(oa.Ranges, or)
		}
		vuln.Affected = append(vuln.Affected, oa)
	}
	c.Observed = c.Observed[:0]
	for _, q := range c.Queries {
		pkg := guidedremediation.VerifVKToPackage(resolve.VersionKey{
			PackageKey:  resolve.PackageKey{System: e.sys, Name: c.QName},
			VersionType: resolve.Concrete, Version: q})
		c.Observed = append(c.Observed, guidedremediation.VerifIsAffected(vuln, pkg))
	}
}

func coqCase(c *vcase) string {
	qe := ecoByName[c.Eco]
	var affs []string
	for _, a := range c.Affected {
		// ranks of event versions are taken in the *queried* ecosystem's order: IsAffected compares
		// with the package's system; entries of another ecosystem are filtered before any comparison.
		var rs []string
		for _, r := range a.Ranges {
			var es []string
			for _, x := range r.Events {
				kind := map[string]string{kI: "Introduced", kF: "Fixed", kL: "LastAffected"}[x.Kind]
				es = append(es, fmt.Sprintf("{| e_kind := %s; e_zero := %s; e_rank := %s |}", kind, cf.Bool(x.Ver == "0"), cf.Z(rank(qe, x.Ver))))
			}
			rt := "RT_OTHER"
			switch r.Type {
			case "ECOSYSTEM":
				rt = "RT_ECOSYSTEM"
			case "SEMVER":
				rt = "RT_SEMVER"
			}
			rs = append(rs, fmt.Sprintf("{| r_type := %s; r_events := %s |}", rt, cf.List(es)))
		}
		var vs []string
		for _, v := range a.Versions {
			vs = append(vs, cf.N(strID(v)))
		}
		affs = append(affs, fmt.Sprintf("{| a_eco := %s; a_name := %s; a_versions := %s; a_ranges := %s |}",
			cf.N(ecoID(a.Eco)), cf.N(nameID(a.Name)), cf.List(vs), cf.List(rs)))
	}
	var qs, obs []string
	for i, q := range c.Queries {
		qs = append(qs, fmt.Sprintf("{| q_known := true; q_eco := %s; q_name := %s; q_sid := %s; q_rank := %s |}",
			cf.N(qe.id), cf.N(nameID(c.QName)), cf.N(strID(q)), cf.Z(rank(qe, q))))
		obs = append(obs, cf.Bool(c.Observed[i]))
	}
	return fmt.Sprintf("{| c_vuln := %s; c_queries := %s; c_observed := %s |}", cf.List(affs), cf.List(qs), cf.List(obs))
}

// well-formed event lists: subset of candidate versions, alternating kinds
func permutations(n int, f func([]int)) {
	p := make([]int, n)
	for i := range p {
		p[i] = i
	}
	var rec func(k int)
	rec = func(k int) {
		if k == n {
			f(p)
			return
		}
		for i := k; i < n; i++ {
			p[k], p[i] = p[i], p[k]
			rec(k + 1)
			p[k], p[i] = p[i], p[k]
		}
	}
	rec(0)
}

func subsets(n, k int, f func([]int)) {
	idx := make([]int, k)
	var rec func(start, d int)
	rec = func(start, d int) {
		if d == k {
			f(idx)
			return
		}
		for i := start; i < n; i++ {
			idx[d] = i
			rec(i+1, d+1)
		}
	}
	rec(0, 0)
}

func main() {
	out := flag.String("out", "", "output .v file")
	side := flag.String("jsonl", "", "output side file (one JSON case per line)")
	seed := flag.Int64("seed", 1, "PRNG seed")
	maxFull := flag.Int("maxfull", 3, "enumerate all listing permutations up to this many events")
	maxLen := flag.Int("maxlen", 5, "maximum number of events per enumerated range")
	sample := flag.Int("sample", 400, "sampled permutations for lengths above maxfull (per ecosystem)")
	random := flag.Int("random", 300, "random multi-range records (per ecosystem)")
	illformed := flag.Int("ill", 200, "ill-formed / tie records (per ecosystem), correspondence only")
	replay := flag.String("replay", "", "replay a JSON case file (single case) and print the result")
	flag.Parse()
	for i := range ecos {
		ecoByName[ecos[i].name] = &ecos[i]
	}
	if *replay != "" {
		b, err := os.ReadFile(*replay)
		if err != nil {
			panic(err)
		}
		var wrap struct {
			Case vcase `json:"case"`
		}
		if err := json.Unmarshal(b, &wrap); err != nil {
			panic(err)
		}
		c := wrap.Case
		runCase(&c)
		fmt.Printf("implementation: %v\n", c.Observed)
		fmt.Printf("coq-case: %s\n", coqCase(&c))
		return
	}
	r := rand.New(rand.NewSource(*seed))
	var cases []*vcase
	for ei := range ecos {
		e := &ecos[ei]
		// candidate event versions: literal "0" plus universe members at odd positions (6 of them... 5 + "0")
		cand := []string{"0"}
		for i := 1; i < len(e.universe); i += 2 {
			cand = append(cand, e.universe[i])
		}
		queries := append([]string{"0"}, e.universe...)
		emit := func(stream string, versions []string, closers int, perm []int, rtype string) {
			evs := make([]ev, len(versions))
			ci := 0
			for i, v := range versions {
				if i%2 == 0 {
					evs[i] = ev{kI, v}
				} else {
					if closers>>ci&1 == 1 {
						evs[i] = ev{kL, v}
					} else {
						evs[i] = ev{kF, v}
					}
					ci++
				}
			}
			listed := make([]ev, len(evs))
			for i, p := range perm {
				listed[i] = evs[p]
			}
			c := &vcase{Stream: stream, Eco: e.name, QName: "pkg", Queries: queries, WF: true,
				Affected: []aff{{Eco: e.name, Name: "pkg", Ranges: []rng{{Type: rtype, Events: listed}}}}}
			cases = append(cases, c)
		}
		for k := 0; k <= *maxLen; k++ {
			subsets(len(cand), k, func(idx []int) {
				vs := make([]string, k)
				for i, j := range idx {
					vs[i] = cand[j]
				}
				for cl := 0; cl < 1<<(k/2); cl++ {
					if k <= *maxFull {
						permutations(k, func(p []int) {
							emit("wf-exhaustive", vs, cl, append([]int(nil), p...), "ECOSYSTEM")
						})
					}
				}
			})
		}
		// sampled longer lists
		for n := 0; n < *sample; n++ {
			k := *maxFull + 1 + r.Intn(max(1, *maxLen-*maxFull))
			if k > len(cand) {
				k = len(cand)
			}
			idx := r.Perm(len(cand))[:k]
			// sort idx ascending = ascending versions
			for i := range idx {
				for j := i + 1; j < len(idx); j++ {
					if idx[j] < idx[i] {
						idx[i], idx[j] = idx[j], idx[i]
					}
				}
			}
			vs := make([]string, k)
			for i, j := range idx {
				vs[i] = cand[j]
			}
			emit("wf-sampled", vs, r.Intn(1<<(k/2)), r.Perm(k), []string{"ECOSYSTEM", "SEMVER", "ECOSYSTEM", "GIT"}[r.Intn(4)])
		}
		// random multi-range, multi-entry records (well-formed ranges)
		others := []string{"npm", "Maven", "PyPI", "Go", "crates.io", "NPM", "maven", "pypi", "Maven:central", "npm ", "PyPI:"}
		// package names that differ only in case or separators: a record for one must never match another
		// (records are matched by exact ecosystem and exact name)
		nearNames := []string{"pkg", "Pkg", "PKG", "p-kg", "p_kg", "p.kg", "pkg-", "lodash.merge", "lodash-merge", "lodash_merge", "Lodash.Merge", "JSONStream", "jsonstream", "org.ex:lib", "org.ex:Lib", "org-ex:lib"}
		for n := 0; n < *random; n++ {
			qname := "pkg"
			if r.Intn(3) == 0 {
				qname = nearNames[r.Intn(len(nearNames))]
			}
			c := &vcase{Stream: "wf-random-multi", Eco: e.name, QName: qname, Queries: queries, WF: true}
			na := 1 + r.Intn(3)
			for a := 0; a < na; a++ {
				en := aff{Eco: e.name, Name: qname}
				switch r.Intn(8) {
				case 0:
					en.Name = "other"
				case 1:
					en.Eco = others[r.Intn(len(others))]
				case 2, 3:
					en.Name = nearNames[r.Intn(len(nearNames))]
				}
				if r.Intn(3) == 0 {
					for j := 0; j < 1+r.Intn(2); j++ {
						en.Versions = append(en.Versions, append(e.universe, e.ties...)[r.Intn(len(e.universe)+len(e.ties))])
					}
				}
				nr := r.Intn(3)
				for j := 0; j < nr; j++ {
					k := r.Intn(6)
					idx := r.Perm(len(cand))[:k]
					for x := range idx {
						for y := x + 1; y < len(idx); y++ {
							if idx[y] < idx[x] {
								idx[x], idx[y] = idx[y], idx[x]
							}
						}
					}
					evs := make([]ev, k)
					for x, ci := range idx {
						kind := kI
						if x%2 == 1 {
							kind = []string{kF, kL}[r.Intn(2)]
						}
						evs[x] = ev{kind, cand[ci]}
					}
					listed := make([]ev, k)
					for x, p := range r.Perm(k) {
						listed[x] = evs[p]
					}
					en.Ranges = append(en.Ranges, rng{Type: []string{"ECOSYSTEM", "ECOSYSTEM", "SEMVER", "GIT"}[r.Intn(4)], Events: listed})
				}
				c.Affected = append(c.Affected, en)
			}
			cases = append(cases, c)
		}
		// ill-formed and tie stream: model = implementation only
		all := append(append([]string{"0"}, e.universe...), e.ties...)
		for n := 0; n < *illformed; n++ {
			k := r.Intn(7)
			evs := make([]ev, k)
			for x := range evs {
				evs[x] = ev{[]string{kI, kF, kL}[r.Intn(3)], all[r.Intn(len(all))]}
			}
			qs := append([]string{}, queries...)
			qs = append(qs, e.ties...)
			c := &vcase{Stream: "ill-formed", Eco: e.name, QName: "pkg", Queries: qs, WF: false,
				Affected: []aff{{Eco: e.name, Name: "pkg", Ranges: []rng{{Type: "ECOSYSTEM", Events: evs}}}}}
			cases = append(cases, c)
		}
	}
	var items []string
	sf, err := os.Create(*side)
	if err != nil {
		panic(err)
	}
	enc := json.NewEncoder(sf)
	for _, c := range cases {
		runCase(c)
		items = append(items, coqCase(c))
		if err := enc.Encode(c); err != nil {
			panic(err)
		}
	}
	sf.Close()
	var sb strings.Builder
	sb.WriteString("From Coq Require Import List ZArith NArith Bool.\nFrom Scalibr Require Import Remed.Vulns.\nImport ListNotations.\n")
	sb.WriteString(cf.Chunked("cases", "vcase", items, 250))
	sb.WriteString("Definition corr_bad := Eval vm_compute in bad_indices case_model_ok cases 0.\nPrint corr_bad.\n")
	sb.WriteString("Definition spec_bad := Eval vm_compute in bad_indices case_spec_ok cases 0.\nPrint spec_bad.\n")
	sb.WriteString("Definition wf_count := Eval vm_compute in length (filter (fun c => wf_vuln (c_vuln c)) cases).\nPrint wf_count.\n")
	if err := os.WriteFile(*out, []byte(sb.String()), 0o644); err != nil {
		panic(err)
	}
	fmt.Printf("cases=%d\n", len(cases))
}

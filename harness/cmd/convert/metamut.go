package main

// Metadata-mutation stream (exploration half of C14: "converting it to a package URL, ecosystem name, result-proto
// record, SPDX or CycloneDX entry, or package-index entry never panics"). The fixtures only contain a few metadata
// shapes; here every string field of a harvested package's Metadata struct is replaced by reflection (empty, no
// separators, only separators, long, unicode, OS-release shapes), pointer fields are nil-ed, and distro ID x version
// shape pairs are set together. Every variant is run through everything under recover; a panic is a concrete replay.

import (
	"encoding/json"
	"fmt"
	"math/rand"
	"reflect"
	"strings"

	"github.com/google/osv-scalibr/extractor"
	"github.com/google/osv-scalibr/extractor/filesystem"
	"github.com/google/osv-scalibr/extractor/filesystem/os/apk"
	"github.com/google/osv-scalibr/extractor/filesystem/os/dpkg"
	"github.com/google/osv-scalibr/extractor/filesystem/os/rpm"
)

type mutation struct {
	Field  string `json:"field,omitempty"`
	Value  string `json:"value"`
	Nil    bool   `json:"set_nil,omitempty"`
	Field2 string `json:"field2,omitempty"` // set together with Field (OSID x OSVersionID)
	Value2 string `json:"value2,omitempty"`
}

var fieldValues = []string{"", "9", "9.3", "9.3.1", ".", "..", "9.", ".9", "rolling", "noseparators", ":::", "///", "---", " ", "a b", "1:2-3+b1~rc",
	"é日本", "UPPER", "x@y", "a/b/c", "%2F%zz", "\xff\xfe", strings.Repeat("long", 80), "0", "-1", "v1", "@scope/name", "name:with:colons", "=", "?", "#"}
var distroIDs = []string{"rocky", "rhel", "centos", "fedora", "almalinux", "ol", "amzn", "opensuse-leap", "sles", "debian", "ubuntu", "alpine", "linuxmint", "", "Rocky"}
var versionShapes = []string{"", "9", "9.3", "9.3.1", ".", "9.", ".9", "22.04", "rolling", "v3.19", "3.19.1_rc2", "é", "20240101"}

// stringFields lists the settable string fields and pointer fields of a metadata struct (one level of nesting).
func metaFields(v reflect.Value, prefix string, depth int) (strs, ptrs []string) {
	t := v.Type()
	for i := 0; i < t.NumField(); i++ {
		f := t.Field(i)
		if !f.IsExported() {
			continue
		}
		switch f.Type.Kind() {
		case reflect.String:
			strs = append(strs, prefix+f.Name)
		case reflect.Ptr, reflect.Slice, reflect.Map:
			ptrs = append(ptrs, prefix+f.Name)
		case reflect.Struct:
			if depth < 1 {
				s2, p2 := metaFields(v.Field(i), prefix+f.Name+".", depth+1)
				strs, ptrs = append(strs, s2...), append(ptrs, p2...)
			}
		}
	}
	return
}

func fieldByPath(v reflect.Value, path string) reflect.Value {
	for _, part := range strings.Split(path, ".") {
		v = v.FieldByName(part)
		if !v.IsValid() {
			return v
		}
	}
	return v
}

// mutatedCopy returns a copy of p whose Metadata is a fresh copy with the mutation applied; ok=false when the
// metadata is not a (pointer to a) struct or the field does not exist.
func mutatedCopy(p *extractor.Package, m mutation) (q *extractor.Package, ok bool) {
	defer func() {
		if r := recover(); r != nil {
			q, ok = nil, false
		}
	}()
	if p.Metadata == nil {
		return nil, false
	}
	orig := reflect.ValueOf(p.Metadata)
	isPtr := orig.Kind() == reflect.Ptr
	sv := orig
	if isPtr {
		if orig.IsNil() {
			return nil, false
		}
		sv = orig.Elem()
	}
	if sv.Kind() != reflect.Struct {
		return nil, false
	}
	cp := reflect.New(sv.Type())
	cp.Elem().Set(sv)
	set := func(path, val string, toNil bool) bool {
		f := fieldByPath(cp.Elem(), path)
		if !f.IsValid() || !f.CanSet() {
			return false
		}
		if toNil {
			f.Set(reflect.Zero(f.Type()))
			return true
		}
		if f.Kind() != reflect.String {
			return false
		}
		f.SetString(val)
		return true
	}
	if !set(m.Field, m.Value, m.Nil) {
		return nil, false
	}
	if m.Field2 != "" && !set(m.Field2, m.Value2, false) {
		return nil, false
	}
	c := *p
	if isPtr {
		c.Metadata = cp.Interface()
	} else {
		c.Metadata = cp.Elem().Interface()
	}
	return &c, true
}

func mutationsFor(r *rand.Rand, p *extractor.Package, wide bool) []mutation {
	if p.Metadata == nil {
		return nil
	}
	v := reflect.ValueOf(p.Metadata)
	if v.Kind() == reflect.Ptr {
		if v.IsNil() {
			return nil
		}
		v = v.Elem()
	}
	if v.Kind() != reflect.Struct {
		return nil
	}
	strs, ptrs := metaFields(v, "", 0)
	var out []mutation
	for _, f := range strs {
		if wide {
			for _, val := range fieldValues {
				out = append(out, mutation{Field: f, Value: val})
			}
		} else {
			out = append(out, mutation{Field: f, Value: ""})
			for k := 0; k < 3; k++ {
				out = append(out, mutation{Field: f, Value: fieldValues[r.Intn(len(fieldValues))]})
			}
		}
	}
	for _, f := range ptrs {
		out = append(out, mutation{Field: f, Nil: true})
	}
	has := func(n string) bool {
		for _, f := range strs {
			if f == n {
				return true
			}
		}
		return false
	}
	// OS release: distro id x version shape
	if has("OSID") && has("OSVersionID") {
		for _, id := range distroIDs {
			for _, ver := range versionShapes {
				if wide || r.Intn(4) == 0 || ver == "9" || ver == "" {
					out = append(out, mutation{Field: "OSID", Value: id, Field2: "OSVersionID", Value2: ver})
				}
			}
		}
	}
	for _, pair := range [][2]string{{"OSID", "OSVersionCodename"}, {"OSID", "OSBuildID"}} {
		if has(pair[0]) && has(pair[1]) {
			for _, id := range distroIDs {
				out = append(out, mutation{Field: pair[0], Value: id, Field2: pair[1], Value2: versionShapes[r.Intn(len(versionShapes))]})
			}
		}
	}
	return out
}

// metadata shapes whose extractor has no usable fixture in this sandbox (rpm databases are emptied files)
func seedPackages(h *harvester) []group {
	mk := func(e filesystem.Extractor, name string, md any) group {
		w := &wrapExt{inner: e, own: true, h: h}
		return group{ext: w, own: true, src: source{Extractor: e.Name(), Root: "seed", Path: "seed:" + e.Name()},
			pkgs: []*extractor.Package{{Name: name, Version: "1.2.3-4", Locations: []string{"seed/" + e.Name()}, Metadata: md, Extractor: w}}}
	}
	return []group{
		mk(rpm.NewDefault(), "bash", &rpm.Metadata{PackageName: "bash", SourceRPM: "bash-5.1.8-6.el9.src.rpm", Epoch: 1, OSName: "Rocky Linux", OSID: "rocky", OSVersionID: "9.3", Vendor: "Rocky", Architecture: "x86_64", License: "GPLv3+"}),
		mk(dpkg.NewDefault(), "curl", &dpkg.Metadata{PackageName: "curl", SourceName: "curl", PackageVersion: "7.88.1-10", OSID: "debian", OSVersionID: "12", OSVersionCodename: "bookworm", Architecture: "amd64"}),
		mk(apk.NewDefault(), "musl", &apk.Metadata{PackageName: "musl", OriginName: "musl", OSID: "alpine", OSVersionID: "3.19.1", Architecture: "x86_64"}),
	}
}

// exploreMetadata runs the mutations; it returns the events (panics) and a sample of variant cases for Coq.
func exploreMetadata(r *rand.Rand, h *harvester, wide bool, perType, sample int) (events []panicEvent, cases []*caseJ, stats map[string]any) {
	byType := map[string][]struct {
		g group
		p *extractor.Package
	}{}
	var order []string
	for _, g := range append(seedPackages(h), h.groups...) {
		if g.mutated || (g.stream != "" && !strings.HasPrefix(g.stream, "sbom-document")) {
			continue
		}
		for _, p := range g.pkgs {
			if p.Extractor == nil {
				continue
			}
			k := metaTypeOf(p.Metadata) + " @ " + p.Extractor.Name()
			if len(byType[k]) == 0 {
				order = append(order, k)
			}
			if len(byType[k]) < perType {
				byType[k] = append(byType[k], struct {
					g group
					p *extractor.Package
				}{g, p})
			}
		}
	}
	variants, panics := 0, 0
	perKind := map[string]int{}
	var all []*caseJ
	for _, k := range order {
		for _, it := range byType[k] {
			for _, m := range mutationsFor(r, it.p, wide) {
				q, ok := mutatedCopy(it.p, m)
				if !ok {
					continue
				}
				variants++
				perKind[k]++
				mj, _ := json.Marshal(m)
				c := &caseJ{Stream: "metadata-mutation", Emitted: false, Source: it.g.src}
				c.Source.Mutations = []string{"metadata " + string(mj)}
				evs := observe(c, []*extractor.Package{q})
				for _, what := range [][2]string{{"packageindex.New", c.IndexPanic}, {"proto.ScanResultToProto", c.ProtoPanic}, {"converter.ToSPDX23", c.SpdxPanic}, {"converter.ToCDX", c.CdxPanic}} {
					if what[1] != "" {
						evs = append(evs, panicEvent{What: what[0], Extractor: it.p.Extractor.Name(), Root: it.g.src.Root, Path: it.g.src.Path, Package: it.p.Name + "@" + it.p.Version, Msg: what[1]})
					}
				}
				if len(evs) > 0 {
					panics++
					md, _ := json.Marshal(q.Metadata)
					for i := range evs {
						evs[i].Mutations = []string{"metadata " + string(mj)}
						evs[i].MetadataType = metaTypeOf(q.Metadata)
						evs[i].MetadataJSON = string(md)
						evs[i].Mutation = &m
					}
					if len(events) < 40 {
						events = append(events, evs...)
					}
					continue
				}
				all = append(all, c)
			}
		}
	}
	for _, i := range r.Perm(len(all)) {
		if len(cases) >= sample {
			break
		}
		cases = append(cases, all[i])
	}
	stats = map[string]any{"variants": variants, "variants_with_panic": panics, "metadata_type_extractor_pairs": len(order), "variants_per_pair": perKind, "variants_in_coq_cases": len(cases)}
	return
}

func describeMutation(m mutation) string {
	if m.Nil {
		return fmt.Sprintf("%s = nil", m.Field)
	}
	if m.Field2 != "" {
		return fmt.Sprintf("%s = %q, %s = %q", m.Field, m.Value, m.Field2, m.Value2)
	}
	return fmt.Sprintf("%s = %q", m.Field, m.Value)
}

package main

import (
	"bytes"
	"fmt"
	"math/rand"
	"os"
	"path/filepath"
	"time"

	"github.com/CycloneDX/cyclonedx-go"
	"github.com/google/osv-scalibr/extractor/filesystem"
	cdxe "github.com/google/osv-scalibr/extractor/filesystem/sbom/cdx"
	spdxe "github.com/google/osv-scalibr/extractor/filesystem/sbom/spdx"
	spdxjson "github.com/spdx/tools-golang/json"
	"github.com/spdx/tools-golang/spdx/v2/common"
	"github.com/spdx/tools-golang/spdx/v2/v2_3"
	spdxyaml "github.com/spdx/tools-golang/yaml"
)

// Generated CycloneDX / SPDX documents for the C14 harvest: the two SBOM extractors are built-in extractors
// too, and what they emit depends on third-party documents: components with valid purls, purls of types missing
// from the library's table, malformed purls, CPE only, neither, nested components.

type sbomEntry struct {
	name string
	purl string
	cpes []string
}

var goodPurls = []string{"pkg:npm/JSONStream@1.3.5", "pkg:npm/%40scope/left-pad@1.0.0", "pkg:deb/debian/curl@7.88.1-10?arch=amd64&distro=debian-12",
	"pkg:pypi/Django_Rest@3.1", "pkg:maven/org.apache.commons/commons-lang3@3.12.0", "pkg:golang/github.com/Google/uuid@v1.3.0#pkg/x",
	"pkg:gem/rails@7.0.0", "pkg:cargo/serde@1.0.0", "pkg:generic/with%20space@1%2B2", "pkg:GEM/Upper@1", "pkg:rpm/fedora/bash@5.2?epoch=1"}
var unknownTypePurls = []string{"pkg:bitnami/wordpress@6.2.0", "pkg:luarocks/lua-cjson@2.1.0", "pkg:gradle/x@1", "pkg:huggingface/distilbert@abc", "pkg:snap/ubuntu/core@16"}
var badPurls = []string{"pkg:npm/", "notapurl", "pkg:npm/%zz@1", "pkg:/x@1", "pkg:npm", "http://example.com/x", "pkg:1abc/x@1", "pkg:npm/x@1?=v", "pkg:cran/nover", "pkg:npm/a@1#../b"}

func genEntries(r *rand.Rand, wellNamed bool) []sbomEntry {
	n := 2 + r.Intn(6)
	var out []sbomEntry
	for i := 0; i < n; i++ {
		e := sbomEntry{name: pick(r, []string{"libfoo", "Mixed.Case_Name", "with space", "é-lib", "main", "a&b<c>"})}
		cpe := "cpe:2.3:a:" + pick(r, []string{"vendor", "v_x"}) + ":" + pick(r, []string{"prod", "Prod2"}) + ":1.0:*:*:*:*:*:*:*"
		switch r.Intn(8) {
		case 0:
			e.purl = pick(r, goodPurls)
		case 1:
			e.purl = pick(r, unknownTypePurls)
		case 2:
			e.purl = pick(r, badPurls)
		case 3:
			e.cpes = []string{cpe}
		case 4:
			// neither: skipped by the extractors
		case 5:
			e.purl, e.cpes = pick(r, goodPurls), []string{cpe}
		case 6:
			e.purl, e.cpes = pick(r, append(badPurls, unknownTypePurls...)), []string{cpe}
		case 7:
			e.purl = pick(r, goodPurls)
			if !wellNamed {
				e.name = ""
			}
		}
		if !wellNamed && r.Intn(3) == 0 {
			e.name = ""
		}
		out = append(out, e)
	}
	return out
}

func cdxDoc(r *rand.Rand, es []sbomEntry, format cyclonedx.BOMFileFormat) []byte {
	bom := cyclonedx.NewBOM()
	var comps []cyclonedx.Component
	for i, e := range es {
		c := cyclonedx.Component{BOMRef: fmt.Sprintf("ref-%d", i), Type: cyclonedx.ComponentTypeLibrary, Name: e.name, Version: "1.0", PackageURL: e.purl}
		if len(e.cpes) > 0 {
			c.CPE = e.cpes[0]
		}
		// nest every third component below the previous one
		if i%3 == 2 && len(comps) > 0 {
			parent := &comps[len(comps)-1]
			if parent.Components == nil {
				parent.Components = &[]cyclonedx.Component{}
			}
			*parent.Components = append(*parent.Components, c)
			continue
		}
		comps = append(comps, c)
	}
	bom.Components = &comps
	var b bytes.Buffer
	if err := cyclonedx.NewBOMEncoder(&b, format).SetPretty(true).Encode(bom); err != nil {
		return nil
	}
	return b.Bytes()
}

func spdxDoc(r *rand.Rand, es []sbomEntry, yaml bool) []byte {
	doc := &v2_3.Document{SPDXVersion: "SPDX-2.3", DataLicense: "CC0-1.0", SPDXIdentifier: "DOCUMENT", DocumentName: "generated",
		DocumentNamespace: "https://example.com/verif", CreationInfo: &v2_3.CreationInfo{Created: "2024-01-01T00:00:00Z",
			Creators: []common.Creator{{CreatorType: "Tool", Creator: "verif"}}}}
	for i, e := range es {
		p := &v2_3.Package{PackageName: e.name, PackageSPDXIdentifier: common.ElementID(fmt.Sprintf("Package-%d", i)), PackageDownloadLocation: "NOASSERTION"}
		var refs []*v2_3.PackageExternalReference
		for _, c := range e.cpes {
			refs = append(refs, &v2_3.PackageExternalReference{Category: "SECURITY", RefType: "cpe23Type", Locator: c})
		}
		if e.purl != "" {
			ref := &v2_3.PackageExternalReference{Category: "PACKAGE-MANAGER", RefType: "purl", Locator: e.purl}
			if r.Intn(2) == 0 {
				refs = append(refs, ref)
			} else {
				refs = append([]*v2_3.PackageExternalReference{ref}, refs...)
			}
		}
		p.PackageExternalReferences = refs
		doc.Packages = append(doc.Packages, p)
	}
	var b bytes.Buffer
	var err error
	if yaml {
		err = spdxyaml.Write(doc, &b)
	} else {
		err = spdxjson.Write(doc, &b)
	}
	if err != nil {
		return nil
	}
	return b.Bytes()
}

// harvestSbomDocs writes n generated documents (alternating formats) into private directories and scans each with the
// real SBOM extractors through filesystem.Run (genuine FileRequired).
func (h *harvester) harvestSbomDocs(r *rand.Rand, n int, tmp string) {
	for i := 0; i < n; i++ {
		wellNamed := i%4 != 3
		es := genEntries(r, wellNamed)
		var data []byte
		var rel string
		switch i % 4 {
		case 0:
			data, rel = cdxDoc(r, es, cyclonedx.BOMFileFormatJSON), pick(r, []string{"bom.json", "app.cdx.json", "sub/dir/scan-1.2.cdx.json"})
		case 1:
			data, rel = cdxDoc(r, es, cyclonedx.BOMFileFormatXML), pick(r, []string{"bom.xml", "app.cdx.xml"})
		case 2:
			data, rel = spdxDoc(r, es, false), pick(r, []string{"doc.spdx.json", "sub/Doc.SPDX.JSON"})
		default:
			if r.Intn(2) == 0 {
				data, rel = spdxDoc(r, es, true), "doc.spdx.yml"
			} else {
				data, rel = cdxDoc(r, es, cyclonedx.BOMFileFormatJSON), "x.cdx.json"
			}
		}
		if data == nil {
			continue
		}
		root := filepath.Join(tmp, fmt.Sprintf("sbom%d", i))
		full := filepath.Join(root, rel)
		os.MkdirAll(filepath.Dir(full), 0o755)
		if err := os.WriteFile(full, data, 0o644); err != nil {
			continue
		}
		h.curContent = string(data)
		h.curStream = "sbom-document"
		if !wellNamed {
			h.curStream = "sbom-document-unnamed-components"
		}
		exts := []filesystem.Extractor{&wrapExt{inner: cdxe.New(), own: true, h: h}, &wrapExt{inner: spdxe.New(), own: true, h: h}}
		h.run(root, exts, 30*time.Second)
		os.RemoveAll(root)
	}
	h.curContent, h.curStream = "", ""
}

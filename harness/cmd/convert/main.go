// Command convert is the C14 harness. It harvests packages from every offline built-in filesystem
// extractor over the repository's fixtures (through the real filesystem.Run, so that the core library
// sets Package.Extractor), over byte-mutated variants of the fixtures that still parse, and from a
// synthetic stream (layer details, annotations, CPEs, nil purls, nil extractors, odd purl types).
// Every inventory is run through ToPURL, Ecosystem, purl.FromString(p.String()) twice,
// packageindex, proto.ScanResultToProto, converter.ToSPDX23 and converter.ToCDX under recover().
// Output: a Coq cases file (inputs + observations) and a JSONL side file in the same order.
package main

import (
	"context"
	"crypto/sha256"
	"encoding/base64"
	"encoding/json"
	"flag"
	"fmt"
	"io/fs"
	"math/rand"
	"os"
	"path/filepath"
	"reflect"
	"runtime/debug"
	"sort"
	"strings"
	"time"
	"unicode/utf8"

	scalibr "github.com/google/osv-scalibr"
	bproto "github.com/google/osv-scalibr/binary/proto"
	spb "github.com/google/osv-scalibr/binary/proto/scan_result_go_proto"
	"github.com/google/osv-scalibr/converter"
	"github.com/google/osv-scalibr/extractor"
	"github.com/google/osv-scalibr/extractor/filesystem"
	"github.com/google/osv-scalibr/extractor/filesystem/list"
	cdxe "github.com/google/osv-scalibr/extractor/filesystem/sbom/cdx"
	spdxe "github.com/google/osv-scalibr/extractor/filesystem/sbom/spdx"
	scalibrfs "github.com/google/osv-scalibr/fs"
	"github.com/google/osv-scalibr/inventory"
	"github.com/google/osv-scalibr/packageindex"
	"github.com/google/osv-scalibr/plugin"
	"github.com/google/osv-scalibr/purl"
	"github.com/google/osv-scalibr/stats"
	"github.com/package-url/packageurl-go"

	cf "verifharness/internal/coqfmt"
)

// ---------------------------------------------------------------- JSON-safe strings

// S is a Go string that survives JSON even when it is not valid UTF-8.
type S string

func (s S) MarshalJSON() ([]byte, error) {
	if utf8.ValidString(string(s)) && !strings.HasPrefix(string(s), "\x00b64:") {
		return json.Marshal(string(s))
	}
	return json.Marshal("\x00b64:" + base64.StdEncoding.EncodeToString([]byte(s)))
}

func (s *S) UnmarshalJSON(b []byte) error {
	var x string
	if err := json.Unmarshal(b, &x); err != nil {
		return err
	}
	if strings.HasPrefix(x, "\x00b64:") {
		d, err := base64.StdEncoding.DecodeString(x[5:])
		if err != nil {
			return err
		}
		x = string(d)
	}
	*s = S(x)
	return nil
}

func ss(l []string) []S {
	out := make([]S, len(l))
	for i, x := range l {
		out[i] = S(x)
	}
	return out
}

// ---------------------------------------------------------------- observation records

type purlJ struct {
	Type       S      `json:"type"`
	Namespace  S      `json:"namespace,omitempty"`
	Name       S      `json:"name"`
	Version    S      `json:"version,omitempty"`
	Qualifiers [][2]S `json:"qualifiers,omitempty"`
	Subpath    S      `json:"subpath,omitempty"`
}

type layerJ struct {
	Index   int64 `json:"index"`
	DiffID  S     `json:"diff_id"`
	Command S     `json:"command"`
	Base    bool  `json:"in_base_image"`
}

type pkgJ struct {
	Name         S       `json:"name"`
	Version      S       `json:"version"`
	Source       *[2]S   `json:"source_code,omitempty"`
	Locations    []S     `json:"locations"`
	HasExtractor bool    `json:"has_extractor"`
	Extractor    S       `json:"extractor"`
	Purl         *purlJ  `json:"purl"`
	PurlStr      S       `json:"purl_string,omitempty"`
	Ecosystem    S       `json:"ecosystem"`
	Annotations  []int64 `json:"annotations,omitempty"`
	Layer        *layerJ `json:"layer,omitempty"`
	CPEs         []S     `json:"cpes,omitempty"`
	MetaKind     string  `json:"meta_kind,omitempty"` // synthetic stream: spdx | cdx | fake
	MetaType     string  `json:"metadata_type,omitempty"` // dynamic type of Package.Metadata: [*]<package path>.<Type>
	ProtoCase    string  `json:"proto_metadata_case,omitempty"` // oneof case set by setProtoMetadata
	RT1          *purlJ  `json:"roundtrip1"`
	RT1Err       string  `json:"roundtrip1_err,omitempty"`
	RT2          *purlJ  `json:"roundtrip2"`
	Specific     []int   `json:"index_specific"`
	OfType       []int   `json:"index_of_type"`
}

type protoPkgJ struct {
	Case          string // metadata oneof case (Package_<Case>), "" when unset
	Name, Version S
	Source        *[2]S
	Purl          *purlJ
	PurlStr       S
	Ecosystem     S
	Locations     []S
	Extractor     S
	Annotations   []int64
	Layer         *layerJ
}

type spdxRefJ struct{ Category, Type, Locator S }
type spdxPkgJ struct {
	Name, IDPrefix, Version, Supplier, SupplierType, Download, SourceInfo S
	Refs                                                                []spdxRefJ
}
type spdxRelJ struct {
	A, B string // doc | pkg:<i> | noassertion | other
	Kind S
}
type spdxDocJ struct {
	Packages []spdxPkgJ
	Rels     []spdxRelJ
}
type cdxCompJ struct {
	Type, Name, Version, Purl, CPE S
	Occurrences                    *[]S
}

type source struct {
	Extractor string   `json:"extractor,omitempty"`
	Root      string   `json:"root,omitempty"`
	Path      string   `json:"path,omitempty"`
	Mutations []string `json:"mutations,omitempty"`
	Content   S        `json:"mutated_content,omitempty"`
	From, To  int      `json:"-"`
}

type caseJ struct {
	Stream      string      `json:"stream"`
	Emitted     bool        `json:"emitted"` // packages come out of a built-in extractor's Extract on a file of its own kind
	Source      source      `json:"source"`
	Pkgs        []pkgJ      `json:"packages"`
	IndexPanic  string      `json:"index_panic,omitempty"`
	ProtoPanic  string      `json:"proto_panic,omitempty"`
	SpdxPanic   string      `json:"spdx_panic,omitempty"`
	CdxPanic    string      `json:"cdx_panic,omitempty"`
	Proto       []protoPkgJ `json:"proto,omitempty"`
	Spdx        *spdxDocJ   `json:"spdx,omitempty"`
	Cdx         []cdxCompJ  `json:"cdx,omitempty"`
	NameDiffers int         `json:"purl_name_differs_from_package_name"`
}

// panics of the extractor specific functions: exploration part of the property, reported directly
type panicEvent struct {
	What      string `json:"what"` // ToPURL | Ecosystem | Extract
	Extractor string `json:"extractor"`
	Root      string `json:"root"`
	Path      string `json:"path"`
	Package   string `json:"package"`
	Msg       string `json:"panic"`
	Mutations []string `json:"mutations,omitempty"`
	Content   S      `json:"mutated_content,omitempty"`
	MetadataType string    `json:"metadata_type,omitempty"`
	MetadataJSON string    `json:"metadata,omitempty"`
	Mutation     *mutation `json:"metadata_mutation,omitempty"`
}

// ---------------------------------------------------------------- harvesting through the real core

type group struct {
	ext     filesystem.Extractor // the wrapper the core library stored in Package.Extractor
	src     source
	pkgs    []*extractor.Package
	mutated bool
	stream  string // overrides the stream name (generated SBOM documents)
	own     bool // the file belongs to the extractor's own testdata, or its FileRequired accepted it
}

type harvester struct {
	groups        []group
	panics        []panicEvent
	extractCalls  int
	extractErrs   int
	curRoot       string
	curMut        []string
	curContent    string
	curStream     string
	emptied       map[string]bool
	repo          string
	perExtractor  map[string]int
	only          string // when set, only this relative path is offered to extractors
}

type wrapExt struct {
	inner  filesystem.Extractor
	always bool
	own    bool
	h      *harvester
}

func (w *wrapExt) Name() string                       { return w.inner.Name() }
func (w *wrapExt) Version() int                       { return w.inner.Version() }
func (w *wrapExt) Requirements() *plugin.Capabilities { return w.inner.Requirements() }
func (w *wrapExt) ToPURL(p *extractor.Package) *purl.PackageURL {
	return w.inner.ToPURL(p)
}
func (w *wrapExt) Ecosystem(p *extractor.Package) string { return w.inner.Ecosystem(p) }
func (w *wrapExt) FileRequired(api filesystem.FileAPI) (ok bool) {
	abs := filepath.Join(w.h.curRoot, api.Path())
	if rel, err := filepath.Rel(w.h.repo, abs); err == nil && w.h.emptied[filepath.ToSlash(rel)] {
		return false
	}
	if w.h.only != "" && filepath.ToSlash(api.Path()) != filepath.ToSlash(w.h.only) {
		return false
	}
	if w.always {
		return true
	}
	defer func() {
		if r := recover(); r != nil {
			ok = false
		}
	}()
	return w.inner.FileRequired(api)
}
func (w *wrapExt) Extract(ctx context.Context, input *filesystem.ScanInput) (inv inventory.Inventory, err error) {
	w.h.extractCalls++
	defer func() {
		if r := recover(); r != nil {
			w.h.panics = append(w.h.panics, panicEvent{What: "Extract", Extractor: w.Name(), Root: w.h.curRoot, Path: input.Path,
				Msg: fmt.Sprint(r), Mutations: w.h.curMut, Content: S(w.h.curContent)})
			inv, err = inventory.Inventory{}, fmt.Errorf("panic: %v", r)
		}
	}()
	inv, err = w.inner.Extract(ctx, input)
	if err != nil {
		w.h.extractErrs++
	}
	if len(inv.Packages) > 0 {
		w.h.groups = append(w.h.groups, group{ext: w, pkgs: inv.Packages, mutated: w.h.curMut != nil, own: w.own || w.h.curMut != nil, stream: w.h.curStream,
			src: source{Extractor: w.Name(), Root: w.h.curRoot, Path: input.Path, Mutations: w.h.curMut, Content: S(w.h.curContent)}})
		w.h.perExtractor[w.Name()] += len(inv.Packages)
	}
	return inv, err
}

func offlineExtractors() []filesystem.Extractor {
	var names []string
	for n := range list.All {
		names = append(names, n)
	}
	sort.Strings(names)
	var out []filesystem.Extractor
	for _, n := range names {
		for _, init := range list.All[n] {
			e := init()
			if e.Requirements() != nil && e.Requirements().Network == plugin.NetworkOnline {
				continue
			}
			out = append(out, e)
		}
	}
	return out
}

func pkgDirOf(e filesystem.Extractor, repo string) string {
	t := reflect.TypeOf(e)
	for t.Kind() == reflect.Ptr {
		t = t.Elem()
	}
	pp := t.PkgPath()
	const mod = "github.com/google/osv-scalibr/"
	if !strings.HasPrefix(pp, mod) {
		return ""
	}
	return filepath.Join(repo, strings.TrimPrefix(pp, mod))
}

func testdataDirs(repo string) []string {
	var out []string
	filepath.WalkDir(repo, func(p string, d fs.DirEntry, err error) error {
		if err != nil {
			return nil
		}
		if d.IsDir() {
			if d.Name() == ".git" {
				return filepath.SkipDir
			}
			if d.Name() == "testdata" {
				out = append(out, p)
				return filepath.SkipDir
			}
		}
		return nil
	})
	sort.Strings(out)
	return out
}

// copyTree copies src to dst (regular files, directories, symlinks as symlinks), leaving out the files listed as
// emptied. The harness never hands a directory of the repository itself to an extractor: some extractors open
// their input read-write (containerd: bolt.Open without ReadOnly initialises an empty file to 16 KiB).
func (h *harvester) copyTree(src, dst string) error {
	return filepath.WalkDir(src, func(p string, d fs.DirEntry, err error) error {
		if err != nil {
			return nil
		}
		rel, _ := filepath.Rel(src, p)
		target := filepath.Join(dst, rel)
		if d.IsDir() {
			return os.MkdirAll(target, 0o755)
		}
		if rr, err := filepath.Rel(h.repo, p); err == nil && h.emptied[filepath.ToSlash(rr)] {
			return nil
		}
		if d.Type()&fs.ModeSymlink != 0 {
			if l, err := os.Readlink(p); err == nil {
				os.Symlink(l, target)
			}
			return nil
		}
		if !d.Type().IsRegular() {
			return nil
		}
		b, err := os.ReadFile(p)
		if err != nil {
			return nil
		}
		return os.WriteFile(target, b, 0o644)
	})
}

// runCopy scans a private copy of root (same relative layout below it) and deletes the copy afterwards;
// packages are reported with the original root.
func (h *harvester) runCopy(root string, exts []filesystem.Extractor, timeout time.Duration) {
	tmp, err := os.MkdirTemp("", "c14fixtures")
	if err != nil {
		panic(err)
	}
	defer os.RemoveAll(tmp)
	// keep the path below the repository (production-like parent directories for extractors that look at them)
	sub := "root"
	if rel, err := filepath.Rel(h.repo, root); err == nil && !strings.HasPrefix(rel, "..") {
		sub = rel
	}
	scan := filepath.Join(tmp, sub)
	if err := os.MkdirAll(scan, 0o755); err != nil {
		panic(err)
	}
	if err := h.copyTree(root, scan); err != nil {
		h.panics = append(h.panics, panicEvent{What: "copy fixtures", Root: root, Msg: err.Error()})
		return
	}
	h.runAt(root, scan, exts, timeout)
}

// run scans root in place: only for directories the harness created itself.
func (h *harvester) run(root string, exts []filesystem.Extractor, timeout time.Duration) {
	if rel, err := filepath.Rel(h.repo, root); err == nil && !strings.HasPrefix(rel, "..") {
		panic("harness bug: refusing to scan inside the repository: " + root)
	}
	h.runAt(root, root, exts, timeout)
}

func (h *harvester) runAt(reportRoot, root string, exts []filesystem.Extractor, timeout time.Duration) {
	h.curRoot = reportRoot
	ctx, cancel := context.WithTimeout(context.Background(), timeout)
	defer cancel()
	func() {
		defer func() {
			if r := recover(); r != nil {
				h.panics = append(h.panics, panicEvent{What: "filesystem.Run", Root: root, Msg: fmt.Sprint(r)})
			}
		}()
		_, _, _ = filesystem.Run(ctx, &filesystem.Config{
			Extractors: exts,
			ScanRoots:  []*scalibrfs.ScanRoot{{FS: scalibrfs.DirFS(root), Path: root}},
			Stats:      stats.NoopCollector{},
		})
	}()
}

// ---------------------------------------------------------------- observation of one inventory

func toPurlJ(p *purl.PackageURL) *purlJ {
	if p == nil {
		return nil
	}
	j := &purlJ{Type: S(p.Type), Namespace: S(p.Namespace), Name: S(p.Name), Version: S(p.Version), Subpath: S(p.Subpath)}
	for _, q := range p.Qualifiers {
		j.Qualifiers = append(j.Qualifiers, [2]S{S(q.Key), S(q.Value)})
	}
	return j
}

func safe(f func()) (msg string) {
	defer func() {
		if r := recover(); r != nil {
			msg = fmt.Sprint(r)
			if msg == "" {
				msg = "panic"
			}
			_ = debug.Stack
		}
	}()
	f()
	return ""
}

func cpesOf(p *extractor.Package) []string {
	if m, ok := p.Metadata.(*spdxe.Metadata); ok {
		return m.CPEs
	}
	if m, ok := p.Metadata.(*cdxe.Metadata); ok {
		return m.CPEs
	}
	return nil
}

// observe runs everything on one inventory. The second result lists panics of ToPURL/Ecosystem; when
// there is one the case is not handed to Coq (the model takes their results as inputs).
func observe(c *caseJ, pkgs []*extractor.Package) []panicEvent {
	var evs []panicEvent
	purls := make([]*purl.PackageURL, len(pkgs))
	c.Pkgs = make([]pkgJ, len(pkgs))
	for i, p := range pkgs {
		j := pkgJ{Name: S(p.Name), Version: S(p.Version), Locations: ss(p.Locations), HasExtractor: p.Extractor != nil, CPEs: ss(cpesOf(p)), MetaType: metaTypeOf(p.Metadata)}
		if j.Locations == nil {
			j.Locations = []S{}
		}
		if p.SourceCode != nil {
			j.Source = &[2]S{S(p.SourceCode.Repo), S(p.SourceCode.Commit)}
		}
		for _, a := range p.Annotations {
			j.Annotations = append(j.Annotations, int64(a))
		}
		if p.LayerDetails != nil {
			j.Layer = &layerJ{int64(p.LayerDetails.Index), S(p.LayerDetails.DiffID), S(p.LayerDetails.Command), p.LayerDetails.InBaseImage}
		}
		if p.Extractor != nil {
			j.Extractor = S(p.Extractor.Name())
			if m := safe(func() { purls[i] = converter.ToPURL(p) }); m != "" {
				evs = append(evs, panicEvent{What: "ToPURL", Extractor: string(j.Extractor), Root: c.Source.Root, Path: c.Source.Path,
					Package: p.Name + "@" + p.Version, Msg: m, Mutations: c.Source.Mutations, Content: c.Source.Content})
			}
			var eco string
			if m := safe(func() { eco = p.Ecosystem() }); m != "" {
				evs = append(evs, panicEvent{What: "Ecosystem", Extractor: string(j.Extractor), Root: c.Source.Root, Path: c.Source.Path,
					Package: p.Name + "@" + p.Version, Msg: m, Mutations: c.Source.Mutations, Content: c.Source.Content})
			}
			j.Ecosystem = S(eco)
		}
		if pu := purls[i]; pu != nil {
			j.Purl = toPurlJ(pu)
			s := pu.String()
			j.PurlStr = S(s)
			if string(j.Purl.Name) != p.Name {
				c.NameDiffers++
			}
			q1, err := purl.FromString(s)
			if err != nil {
				j.RT1Err = err.Error()
			} else {
				j.RT1 = toPurlJ(&q1)
				if q2, err := purl.FromString(q1.String()); err == nil {
					j.RT2 = toPurlJ(&q2)
				}
			}
		}
		c.Pkgs[i] = j
	}
	if len(evs) > 0 {
		return evs
	}
	pos := map[*extractor.Package]int{}
	for i, p := range pkgs {
		pos[p] = i
	}
	positions := func(l []*extractor.Package, sorted bool) []int {
		out := []int{}
		for _, p := range l {
			if i, ok := pos[p]; ok {
				out = append(out, i)
			} else {
				out = append(out, 1000000)
			}
		}
		if sorted {
			sort.Ints(out)
		}
		return out
	}
	c.IndexPanic = safe(func() {
		px, _ := packageindex.New(pkgs)
		for i := range pkgs {
			if pu := purls[i]; pu != nil {
				c.Pkgs[i].Specific = positions(px.GetSpecific(pu.Name, pu.Type), false)
				c.Pkgs[i].OfType = positions(px.GetAllOfType(pu.Type), true)
			}
		}
	})
	sr := &scalibr.ScanResult{Version: "verif", StartTime: time.Unix(1700000000, 0), EndTime: time.Unix(1700000001, 0),
		Status:    &plugin.ScanStatus{Status: plugin.ScanStatusSucceeded},
		Inventory: inventory.Inventory{Packages: pkgs}}
	c.ProtoPanic = safe(func() {
		res, err := bproto.ScanResultToProto(sr)
		if err != nil {
			panic("ScanResultToProto error: " + err.Error())
		}
		c.Proto = []protoPkgJ{}
		for _, pp := range res.GetInventory().GetPackages() {
			c.Proto = append(c.Proto, protoProject(pp))
		}
		if len(c.Proto) == len(c.Pkgs) {
			for i := range c.Pkgs {
				c.Pkgs[i].ProtoCase = c.Proto[i].Case
			}
		}
	})
	c.SpdxPanic = safe(func() {
		doc := converter.ToSPDX23(sr, converter.SPDXConfig{})
		d := &spdxDocJ{Packages: []spdxPkgJ{}, Rels: []spdxRelJ{}}
		ids := map[string]int{}
		for i, sp := range doc.Packages {
			ids[string(sp.PackageSPDXIdentifier)] = i
			id := string(sp.PackageSPDXIdentifier)
			if len(id) >= 36 {
				id = id[:len(id)-36] // strip the random UUID
			}
			x := spdxPkgJ{Name: S(sp.PackageName), IDPrefix: S(id), Version: S(sp.PackageVersion), Download: S(sp.PackageDownloadLocation),
				SourceInfo: S(sp.PackageSourceInfo), Refs: []spdxRefJ{}}
			if sp.PackageSupplier != nil {
				x.Supplier, x.SupplierType = S(sp.PackageSupplier.Supplier), S(sp.PackageSupplier.SupplierType)
			}
			for _, r := range sp.PackageExternalReferences {
				x.Refs = append(x.Refs, spdxRefJ{S(r.Category), S(r.RefType), S(r.Locator)})
			}
			d.Packages = append(d.Packages, x)
		}
		for _, r := range doc.Relationships {
			end := func(special string, ref string) string {
				if special == "NOASSERTION" {
					return "noassertion"
				}
				if ref == "SPDXRef-Document" {
					return "doc"
				}
				if i, ok := ids[ref]; ok {
					return fmt.Sprintf("pkg:%d", i)
				}
				return "other"
			}
			d.Rels = append(d.Rels, spdxRelJ{end(r.RefA.SpecialID, string(r.RefA.ElementRefID)), end(r.RefB.SpecialID, string(r.RefB.ElementRefID)), S(r.Relationship)})
		}
		c.Spdx = d
	})
	c.CdxPanic = safe(func() {
		bom := converter.ToCDX(sr, converter.CDXConfig{ComponentName: "verif", ComponentVersion: "0"})
		c.Cdx = []cdxCompJ{}
		if bom.Components != nil {
			for _, cc := range *bom.Components {
				x := cdxCompJ{Type: S(cc.Type), Name: S(cc.Name), Version: S(cc.Version), Purl: S(cc.PackageURL), CPE: S(cc.CPE)}
				if cc.Evidence != nil && cc.Evidence.Occurrences != nil {
					l := []S{}
					for _, o := range *cc.Evidence.Occurrences {
						l = append(l, S(o.Location))
					}
					x.Occurrences = &l
				}
				c.Cdx = append(c.Cdx, x)
			}
		}
	})
	return nil
}

// metaTypeOf names the dynamic type the way the translator does: [*]<package path below the module>.<Type>
func metaTypeOf(m any) string {
	if m == nil {
		return ""
	}
	t := reflect.TypeOf(m)
	star := ""
	if t.Kind() == reflect.Ptr {
		star, t = "*", t.Elem()
	}
	return star + strings.TrimPrefix(t.PkgPath(), "github.com/google/osv-scalibr/") + "." + t.Name()
}

func protoProject(pp *spb.Package) protoPkgJ {
	x := protoPkgJ{Name: S(pp.GetName()), Version: S(pp.GetVersion()), Ecosystem: S(pp.GetEcosystem()), Locations: ss(pp.GetLocations()),
		Extractor: S(pp.GetExtractor())}
	if x.Locations == nil {
		x.Locations = []S{}
	}
	if md := pp.GetMetadata(); md != nil {
		x.Case = strings.TrimPrefix(reflect.TypeOf(md).Elem().Name(), "Package_")
	}
	if sc := pp.GetSourceCode(); sc != nil {
		x.Source = &[2]S{S(sc.GetRepo()), S(sc.GetCommit())}
	}
	if pu := pp.GetPurl(); pu != nil {
		x.PurlStr = S(pu.GetPurl())
		x.Purl = &purlJ{Type: S(pu.GetType()), Namespace: S(pu.GetNamespace()), Name: S(pu.GetName()), Version: S(pu.GetVersion()), Subpath: S(pu.GetSubpath())}
		for _, q := range pu.GetQualifiers() {
			x.Purl.Qualifiers = append(x.Purl.Qualifiers, [2]S{S(q.GetKey()), S(q.GetValue())})
		}
	}
	for _, a := range pp.GetAnnotations() {
		x.Annotations = append(x.Annotations, int64(a))
	}
	if ld := pp.GetLayerDetails(); ld != nil {
		x.Layer = &layerJ{int64(ld.GetIndex()), S(ld.GetDiffId()), S(ld.GetCommand()), ld.GetInBaseImage()}
	}
	return x
}

// ---------------------------------------------------------------- Coq printing

func cs(s S) string { return cf.Str(string(s)) }
func csl(l []S) string {
	items := make([]string, len(l))
	for i, x := range l {
		items[i] = cs(x)
	}
	if len(items) == 0 {
		return "(@nil bytes)"
	}
	return cf.List(items)
}
func cpair(p *[2]S) string {
	if p == nil {
		return "None"
	}
	return fmt.Sprintf("(Some (%s, %s))", cs(p[0]), cs(p[1]))
}
func cquals(q [][2]S) string {
	if len(q) == 0 {
		return "(@nil (bytes * bytes))"
	}
	items := make([]string, len(q))
	for i, x := range q {
		items[i] = fmt.Sprintf("(%s, %s)", cs(x[0]), cs(x[1]))
	}
	return cf.List(items)
}
func cpurl(p *purlJ) string {
	return fmt.Sprintf("{| p_type := %s; p_ns := %s; p_name := %s; p_version := %s; p_quals := %s; p_subpath := %s |}",
		cs(p.Type), cs(p.Namespace), cs(p.Name), cs(p.Version), cquals(p.Qualifiers), cs(p.Subpath))
}
func copurl(p *purlJ) string {
	if p == nil {
		return "None"
	}
	return "(Some " + cpurl(p) + ")"
}
func cnats(l []int) string {
	if len(l) == 0 {
		return "(@nil nat)"
	}
	items := make([]string, len(l))
	for i, x := range l {
		items[i] = fmt.Sprint(x)
	}
	return "[" + strings.Join(items, ";") + "]%nat"
}
func czs(l []int64) string {
	if len(l) == 0 {
		return "(@nil Z)"
	}
	items := make([]string, len(l))
	for i, x := range l {
		items[i] = cf.Z(x)
	}
	return cf.List(items)
}

func coqPkg(j *pkgJ) string {
	layer := "None"
	if j.Layer != nil {
		layer = fmt.Sprintf("(Some {| l_index := %s; l_diffid := %s; l_command := %s; l_base := %s |})", cf.Z(j.Layer.Index), cs(j.Layer.DiffID), cs(j.Layer.Command), cf.Bool(j.Layer.Base))
	}
	k := fmt.Sprintf("{| k_name := %s; k_version := %s; k_source := %s; k_locations := %s; k_has_extractor := %s; k_extractor := %s; k_purl := %s; k_ecosystem := %s; k_annotations := %s; k_layer := %s; k_cpes := %s |}",
		cs(j.Name), cs(j.Version), cpair(j.Source), csl(j.Locations), cf.Bool(j.HasExtractor), cs(j.Extractor), copurl(j.Purl), cs(j.Ecosystem), czs(j.Annotations), layer, csl(j.CPEs))
	meta, pcase := "None", "None"
	if j.MetaType != "" {
		meta = fmt.Sprintf("(Some (%s, %s))", cf.Str(strings.TrimPrefix(j.MetaType, "*")), cf.Bool(strings.HasPrefix(j.MetaType, "*")))
	}
	if j.ProtoCase != "" {
		pcase = "(Some " + cf.Str(j.ProtoCase) + ")"
	}
	return fmt.Sprintf("{| o_pkg := %s; o_purl_str := %s; o_rt1 := %s; o_rt2 := %s; o_meta := %s; o_proto_case := %s; o_specific := %s; o_of_type := %s |}",
		k, cs(j.PurlStr), copurl(j.RT1), copurl(j.RT2), meta, pcase, cnats(j.Specific), cnats(j.OfType))
}

func coqCase(c *caseJ) string {
	var pk []string
	for i := range c.Pkgs {
		pk = append(pk, coqPkg(&c.Pkgs[i]))
	}
	pkgs := "(@nil pkg_obs)"
	if len(pk) > 0 {
		pkgs = "[" + strings.Join(pk, ";\n      ") + "]"
	}
	proto := "Panic"
	if c.ProtoPanic == "" {
		var items []string
		for _, x := range c.Proto {
			pp := "None"
			if x.Purl != nil {
				pp = fmt.Sprintf("(Some {| pp_purl := %s; pp_type := %s; pp_ns := %s; pp_name := %s; pp_version := %s; pp_quals := %s; pp_subpath := %s |})",
					cs(x.PurlStr), cs(x.Purl.Type), cs(x.Purl.Namespace), cs(x.Purl.Name), cs(x.Purl.Version), cquals(x.Purl.Qualifiers), cs(x.Purl.Subpath))
			}
			layer := "None"
			if x.Layer != nil {
				layer = fmt.Sprintf("(Some {| pl_index := %s; pl_diffid := %s; pl_command := %s; pl_base := %s |})", cf.Z(x.Layer.Index), cs(x.Layer.DiffID), cs(x.Layer.Command), cf.Bool(x.Layer.Base))
			}
			items = append(items, fmt.Sprintf("{| pr_name := %s; pr_version := %s; pr_source := %s; pr_purl := %s; pr_ecosystem := %s; pr_locations := %s; pr_extractor := %s; pr_annotations := %s; pr_layer := %s |}",
				cs(x.Name), cs(x.Version), cpair(x.Source), pp, cs(x.Ecosystem), csl(x.Locations), cs(x.Extractor), czs(x.Annotations), layer))
		}
		if len(items) == 0 {
			proto = "(Ok (@nil proto_pkg))"
		} else {
			proto = "(Ok [" + strings.Join(items, ";\n      ") + "])"
		}
	}
	spdx := "Panic"
	if c.SpdxPanic == "" && c.Spdx != nil {
		var ps, rs []string
		for _, x := range c.Spdx.Packages {
			var refs []string
			for _, r := range x.Refs {
				refs = append(refs, fmt.Sprintf("{| xr_category := %s; xr_type := %s; xr_locator := %s |}", cs(r.Category), cs(r.Type), cs(r.Locator)))
			}
			rl := "(@nil spdx_ref)"
			if len(refs) > 0 {
				rl = cf.List(refs)
			}
			ps = append(ps, fmt.Sprintf("{| sp_name := %s; sp_id_prefix := %s; sp_version := %s; sp_supplier := %s; sp_supplier_type := %s; sp_download := %s; sp_source_info := %s; sp_refs := %s |}",
				cs(x.Name), cs(x.IDPrefix), cs(x.Version), cs(x.Supplier), cs(x.SupplierType), cs(x.Download), cs(x.SourceInfo), rl))
		}
		end := func(e string) string {
			switch {
			case e == "doc":
				return "RDoc"
			case e == "noassertion":
				return "RNoAssertion"
			case strings.HasPrefix(e, "pkg:"):
				return "(RPkg " + e[4:] + "%nat)"
			}
			return "ROther"
		}
		for _, r := range c.Spdx.Rels {
			rs = append(rs, fmt.Sprintf("{| r_a := %s; r_b := %s; r_kind := %s |}", end(r.A), end(r.B), cs(r.Kind)))
		}
		pl, rl := "(@nil spdx_pkg)", "(@nil spdx_rel)"
		if len(ps) > 0 {
			pl = "[" + strings.Join(ps, ";\n      ") + "]"
		}
		if len(rs) > 0 {
			rl = cf.List(rs)
		}
		spdx = fmt.Sprintf("(Ok {| sd_packages := %s; sd_rels := %s |})", pl, rl)
	}
	cdx := "Panic"
	if c.CdxPanic == "" {
		var items []string
		for _, x := range c.Cdx {
			occ := "None"
			if x.Occurrences != nil {
				occ = "(Some " + csl(*x.Occurrences) + ")"
			}
			items = append(items, fmt.Sprintf("{| cc_type := %s; cc_name := %s; cc_version := %s; cc_purl := %s; cc_cpe := %s; cc_occurrences := %s |}",
				cs(x.Type), cs(x.Name), cs(x.Version), cs(x.Purl), cs(x.CPE), occ))
		}
		if len(items) == 0 {
			cdx = "(Ok (@nil cdx_comp))"
		} else {
			cdx = "(Ok [" + strings.Join(items, ";\n      ") + "])"
		}
	}
	return fmt.Sprintf("{| c_emitted := %s; c_pkgs := %s;\n    c_index_panics := %s;\n    c_proto := %s;\n    c_spdx := %s;\n    c_cdx := %s |}",
		cf.Bool(c.Emitted), pkgs, cf.Bool(c.IndexPanic != ""), proto, spdx, cdx)
}

// ---------------------------------------------------------------- synthetic stream

// fakeExtractor returns what the package's metadata says: lets the harness put arbitrary purls,
// ecosystems and nil purls through the converters.
type fakeMeta struct {
	purl *purl.PackageURL
	eco  string
}
type fakeExtractor struct{ name string }

func (f fakeExtractor) Name() string                       { return f.name }
func (f fakeExtractor) Version() int                       { return 0 }
func (f fakeExtractor) Requirements() *plugin.Capabilities { return &plugin.Capabilities{} }
func (f fakeExtractor) ToPURL(p *extractor.Package) *purl.PackageURL {
	return p.Metadata.(*fakeMeta).purl
}
func (f fakeExtractor) Ecosystem(p *extractor.Package) string { return p.Metadata.(*fakeMeta).eco }

var oddStrings = []string{"", "a", "Name_With.Mixed-CASE", "with space", "sl/ash", "at@sign", "q?mark", "ha#sh", "pct%41", "plus+plus", "amp&eq=", "é-accent", "日本", "tab\there",
	"nl\nline", "quote\"'", "<xml>&amp;</xml>", "back\\slash", "colon:semi;", "\xff\xfeinvalid-utf8", "UPPER", "..", ".", "~tilde", "a//b", "/lead", "trail/", "{curly}", "[sq]", "$dollar", "*star*", "emoji😀", "\u00e0\u0300"}

func pick(r *rand.Rand, l []string) string { return l[r.Intn(len(l))] }

func randPurl(r *rand.Rand, types []string) *purl.PackageURL {
	p := &purl.PackageURL{Type: pick(r, types), Name: pick(r, oddStrings), Version: pick(r, oddStrings)}
	switch r.Intn(12) {
	case 0:
		p.Type = strings.ToUpper(p.Type)
	case 1:
		p.Type = pick(r, []string{"notatype", "x", "", "Snap", "gradle", "npm ", "n/pm", "1abc", "huggingface", "mlflow", "bitnami", "qpkg"})
	}
	if r.Intn(2) == 0 {
		p.Namespace = pick(r, append(oddStrings, "Org/Sub", "a/b/c", "@scope"))
	}
	if r.Intn(3) == 0 {
		n := 1 + r.Intn(3)
		for i := 0; i < n; i++ {
			k := pick(r, []string{"arch", "distro", "epoch", "Arch", "channel", "repository_url", "type", "classifier", "k.e-y_1", "1bad", "ba d", "", "origin"})
			v := pick(r, append(oddStrings, "amd64", "debian-12", "https://x.azureml.example/a", "https://databricks.example"))
			p.Qualifiers = append(p.Qualifiers, packageurl.Qualifier{Key: k, Value: v})
		}
	}
	if r.Intn(4) == 0 {
		p.Subpath = pick(r, append(oddStrings, "a/b", "/a/b/", "a/./b", "a/../b", "src/main"))
	}
	return p
}

func synthPackage(r *rand.Rand, types []string, harvested []*extractor.Package) (*extractor.Package, string) {
	k := r.Intn(10)
	if k < 3 && len(harvested) > 0 {
		// a harvested package, decorated
		h := harvested[r.Intn(len(harvested))]
		p := *h
		decorate(r, &p)
		return &p, "decorated"
	}
	p := &extractor.Package{Name: pick(r, oddStrings), Version: pick(r, oddStrings)}
	nl := []int{0, 1, 1, 1, 2, 2, 3, 5}[r.Intn(8)]
	for i := 0; i < nl; i++ {
		p.Locations = append(p.Locations, pick(r, []string{"usr/lib/a", "var/lib/dpkg/status", "C:\\x\\y", "path with space/f", "dir/é/日本", "a", "lib/apk/db/installed", "x/" + pick(r, oddStrings)}))
	}
	kind := "fake"
	switch k {
	case 3:
		m := &spdxe.Metadata{}
		if r.Intn(3) > 0 {
			m.PURL = randPurl(r, types)
		}
		for i := r.Intn(3); i > 0; i-- {
			m.CPEs = append(m.CPEs, "cpe:2.3:a:"+pick(r, []string{"vendor", "v:x", "é"})+":prod:1.0:*:*:*:*:*:*:*")
		}
		p.Metadata, p.Extractor, kind = m, spdxe.New(), "spdx"
	case 4:
		m := &cdxe.Metadata{}
		if r.Intn(3) > 0 {
			m.PURL = randPurl(r, types)
		}
		for i := r.Intn(3); i > 0; i-- {
			m.CPEs = append(m.CPEs, "cpe:2.3:a:"+pick(r, []string{"vendor", "v:x", "é"})+":prod:2.0:*:*:*:*:*:*:*")
		}
		p.Metadata, p.Extractor, kind = m, cdxe.New(), "cdx"
	default:
		m := &fakeMeta{eco: pick(r, []string{"", "PyPI", "npm", "Debian:12", "Alpine:v3.19"})}
		if r.Intn(8) > 0 {
			m.purl = randPurl(r, types)
		}
		p.Metadata, p.Extractor = m, fakeExtractor{name: pick(r, []string{"fake/one", "os/dpkg", "weird name é"})}
	}
	decorate(r, p)
	return p, kind
}

func decorate(r *rand.Rand, p *extractor.Package) {
	if r.Intn(2) == 0 {
		idx := []int{0, 1, 2, 7, 127, 2147483647, -1}[r.Intn(7)]
		p.LayerDetails = &extractor.LayerDetails{Index: idx, DiffID: pick(r, []string{"", "sha256:" + strings.Repeat("ab", 32), "é"}), Command: pick(r, append(oddStrings, "RUN apt-get install -y curl && rm -rf /var/lib/apt/lists/*")), InBaseImage: r.Intn(2) == 0}
	}
	if r.Intn(3) == 0 {
		for i := r.Intn(4); i > 0; i-- {
			p.Annotations = append(p.Annotations, extractor.Annotation(r.Intn(6)))
		}
	}
	if r.Intn(4) == 0 {
		p.SourceCode = &extractor.SourceCodeIdentifier{Repo: pick(r, []string{"", "https://github.com/a/b", "é"}), Commit: pick(r, []string{"", "deadbeef"})}
	}
	if r.Intn(5) == 0 {
		p.Locations = append(append([]string{}, p.Locations...), "extra/location/"+pick(r, oddStrings), "third")
	}
}

// ---------------------------------------------------------------- mutation of fixtures

var mutChars = []string{"%", "/", "@", "?", "#", "&", "=", "+", " ", "\"", "'", "<", ">", "\\", "é", "日", "\t", ":", ";", "~", "_", "A", "Z", "%2F", "..", "$", "*", "!", "(", ")", ",", "|", "^", "`", "{", "}", "\xff"}

func mutate(r *rand.Rand, b []byte) ([]byte, []string) {
	out := append([]byte(nil), b...)
	var log []string
	n := 1 + r.Intn(4)
	for k := 0; k < n && len(out) > 0; k++ {
		// pick a position holding a letter or digit (inside a token)
		pos := -1
		for try := 0; try < 50; try++ {
			i := r.Intn(len(out))
			ch := out[i]
			if ch >= '0' && ch <= '9' || ch >= 'a' && ch <= 'z' || ch >= 'A' && ch <= 'Z' {
				pos = i
				break
			}
		}
		if pos < 0 {
			break
		}
		m := mutChars[r.Intn(len(mutChars))]
		log = append(log, fmt.Sprintf("%d:%q", pos, m))
		out = append(out[:pos], append([]byte(m), out[pos+1:]...)...)
	}
	return out, log
}

// ---------------------------------------------------------------- main

func canonical(j *pkgJ) string {
	b, _ := json.Marshal([]any{j.Name, j.Version, j.Locations, j.Extractor, j.Purl, j.Ecosystem, j.Layer, j.CPEs, j.Annotations, j.Source, j.HasExtractor})
	return fmt.Sprintf("%x", sha256.Sum256(b))
}

func main() {
	repo := flag.String("repo", "/repo", "repository root")
	out := flag.String("out", "", "output .v file")
	side := flag.String("jsonl", "", "side file (one JSON case per line)")
	summary := flag.String("summary", "", "summary JSON (counts, panics of extractor functions, hypothesis validation)")
	seed := flag.Int64("seed", 1, "PRNG seed")
	cross := flag.Bool("cross", false, "run every extractor on every fixture (thorough)")
	perGroup := flag.Int("pergroup", 40, "max packages taken from one (extractor, file) harvest")
	perCase := flag.Int("percase", 12, "packages per inventory handed to the converters")
	nMut := flag.Int("mutants", 150, "mutated fixtures")
	nSynth := flag.Int("synth", 150, "synthetic inventories")
	metaWide := flag.Bool("metawide", false, "metadata-mutation stream: every value for every field (thorough)")
	metaPer := flag.Int("metaper", 1, "metadata-mutation stream: harvested packages per (metadata type, extractor)")
	metaSample := flag.Int("metasample", 80, "metadata-mutation stream: variants handed to Coq")
	nSbom := flag.Int("sbomdocs", 40, "generated CycloneDX/SPDX documents scanned with the SBOM extractors")
	maxPkgs := flag.Int("maxpkgs", 4000, "overall cap on harvested packages")
	emptiedFile := flag.String("emptied", "/root/.vp/EMPTIED_FILES.txt", "list of emptied fixture files to skip")
	typesJSON := flag.String("types", "", "purltypes JSON (emitted types for the synthetic stream)")
	c03dump := flag.String("c03dump", "", "directory written by `formats -dumpdir` (C03 generators): every case directory is scanned as a root with the extractors' own FileRequired")
	extra := flag.String("extra", os.Getenv("VERIF_C14_EXTRA_ROOTS"), "comma separated extra directories (e.g. C03 generator output, C02 corpus) offered to every extractor")
	replay := flag.String("replay", "", "replay a JSON case (as written into replays/)")
	witness := flag.String("witness", "", "known-finding witness JSON: prints whether it still fails")
	flag.Parse()

	if *witness != "" {
		runWitness(*repo, *witness)
		return
	}
	if *replay != "" {
		runReplay(*repo, *replay)
		return
	}

	r := rand.New(rand.NewSource(*seed))
	h := &harvester{emptied: map[string]bool{}, repo: *repo, perExtractor: map[string]int{}}
	if b, err := os.ReadFile(*emptiedFile); err == nil {
		for _, l := range strings.Split(string(b), "\n") {
			if l = strings.TrimSpace(l); l != "" {
				h.emptied[l] = true
			}
		}
	}
	exts := offlineExtractors()
	dirs := testdataDirs(*repo)
	t0 := time.Now()
	for _, d := range dirs {
		var ws []filesystem.Extractor
		for _, e := range exts {
			own := false
			if pd := pkgDirOf(e, *repo); pd != "" && (d == filepath.Join(pd, "testdata") || strings.HasPrefix(d, pd+string(filepath.Separator))) {
				own = true
			}
			ws = append(ws, &wrapExt{inner: e, always: own || *cross, own: own || !*cross, h: h})
		}
		h.runCopy(d, ws, 120*time.Second)
	}
	for _, d := range strings.Split(*extra, ",") {
		if d = strings.TrimSpace(d); d == "" {
			continue
		}
		if st, err := os.Stat(d); err != nil || !st.IsDir() {
			continue
		}
		var ws []filesystem.Extractor
		for _, e := range exts {
			ws = append(ws, &wrapExt{inner: e, always: true, own: false, h: h})
		}
		h.runCopy(d, ws, 300*time.Second)
	}
	c03roots := 0
	if *c03dump != "" {
		if f, err := os.Open(filepath.Join(*c03dump, "index.jsonl")); err == nil {
			dec := json.NewDecoder(f)
			for {
				var e struct {
					Root, Path, Format, Stream string
				}
				if dec.Decode(&e) != nil {
					break
				}
				var ws []filesystem.Extractor
				for _, ex := range exts {
					ws = append(ws, &wrapExt{inner: ex, always: false, own: true, h: h})
				}
				h.curStream = "c03-" + e.Stream
				h.run(filepath.Join(*c03dump, e.Root), ws, 60*time.Second)
				c03roots++
			}
			f.Close()
			h.curStream = ""
		}
	}
	harvestSecs := time.Since(t0).Seconds()
	fixtureGroups := len(h.groups)

	// mutated fixtures: take (extractor, file) pairs that produced packages, mutate the file, rerun that extractor
	tmp, err := os.MkdirTemp("", "c14mut")
	if err != nil {
		panic(err)
	}
	defer os.RemoveAll(tmp)
	type cand struct {
		ext  filesystem.Extractor
		root string
		path string
	}
	var cands []cand
	for _, g := range h.groups {
		full := filepath.Join(g.src.Root, g.src.Path)
		// only repository fixtures of the extractor's own kind are mutated (not generated documents / C03 dumps)
		if st, err := os.Stat(full); err == nil && st.Size() < 200_000 && g.own && g.stream == "" {
			cands = append(cands, cand{g.ext.(*wrapExt).inner, g.src.Root, g.src.Path})
		}
	}
	mutTried, mutParsed := 0, 0
	for i := 0; i < *nMut && len(cands) > 0; i++ {
		c := cands[r.Intn(len(cands))]
		b, err := os.ReadFile(filepath.Join(c.root, c.path))
		if err != nil || len(b) == 0 {
			continue
		}
		mb, log := mutate(r, b)
		root := filepath.Join(tmp, fmt.Sprintf("m%d", i))
		full := filepath.Join(root, c.path)
		os.MkdirAll(filepath.Dir(full), 0o755)
		if err := os.WriteFile(full, mb, 0o644); err != nil {
			continue
		}
		h.curMut, h.curContent = log, string(mb)
		before := len(h.groups)
		h.run(root, []filesystem.Extractor{&wrapExt{inner: c.ext, always: true, h: h}}, 30*time.Second)
		mutTried++
		if len(h.groups) > before {
			mutParsed++
			// record the original location, the temp dir is gone after the run
			for k := before; k < len(h.groups); k++ {
				h.groups[k].src.Root = c.root
			}
		}
		os.RemoveAll(root)
	}
	h.curMut, h.curContent = nil, ""
	h.harvestSbomDocs(r, *nSbom, tmp)

	// cases from harvested groups
	var cases []*caseJ
	var allPanics []panicEvent
	allPanics = append(allPanics, h.panics...)
	var harvested []*extractor.Package
	total := 0
	// deterministic but fair order: round-robin is not needed, just cap per group
	oversize := 0
	for _, g := range h.groups {
		// packages with very long strings (an extractor fed a binary it would never be offered) are left out of
		// the Coq cases: the byte-list terms get too large
		var pk []*extractor.Package
		for _, p := range g.pkgs {
			sz := len(p.Name) + len(p.Version)
			for _, l := range p.Locations {
				sz += len(l)
			}
			if sz > 1500 {
				oversize++
				continue
			}
			pk = append(pk, p)
		}
		if len(pk) == 0 {
			continue
		}
		if len(pk) > *perGroup {
			// first half from the front, the rest sampled
			keep := append([]*extractor.Package{}, pk[:*perGroup/2]...)
			for _, i := range r.Perm(len(pk) - *perGroup/2)[:*perGroup-*perGroup/2] {
				keep = append(keep, pk[*perGroup/2+i])
			}
			pk = keep
		}
		if total >= *maxPkgs {
			pk = pk[:1]
		}
		for from := 0; from < len(pk); from += *perCase {
			to := from + *perCase
			if to > len(pk) {
				to = len(pk)
			}
			// the well-formedness / purl-acceptance clauses are claimed where the extractor was given a file of its
			// own kind (own testdata, or its FileRequired accepted the path), incl. mutated variants of such files
			c := &caseJ{Stream: "fixture", Emitted: g.own, Source: g.src}
			if !g.own {
				c.Stream = "cross-fixture" // Extract was forced on a file of another extractor's testdata
			}
			if g.mutated {
				c.Stream = "mutated-fixture"
			}
			if g.stream != "" {
				c.Stream = g.stream
				// components without a name are not well-formed CycloneDX/SPDX, the malformed / ill-formed C03 streams are
				// not well-formed databases: correspondence and no-panic only
				switch g.stream {
				case "sbom-document", "c03-wellformed", "c03-rich-grammar", "c03-with-replace", "c03-with-toolchain":
					c.Emitted = true
				default:
					c.Emitted = false
				}
			}
			evs := observe(c, pk[from:to])
			total += to - from
			if evs != nil {
				allPanics = append(allPanics, evs...)
				continue
			}
			cases = append(cases, c)
			harvested = append(harvested, pk[from:to]...)
		}
	}

	// metadata-mutation stream
	mevs, mcases, mstats := exploreMetadata(r, h, *metaWide, *metaPer, *metaSample)
	allPanics = append(allPanics, mevs...)
	cases = append(cases, mcases...)

	// synthetic inventories
	var types []string
	if *typesJSON != "" {
		var tj struct {
			Emitted []string `json:"emitted"`
		}
		if b, err := os.ReadFile(*typesJSON); err == nil && json.Unmarshal(b, &tj) == nil {
			types = tj.Emitted
		}
	}
	if len(types) == 0 {
		types = []string{"npm", "pypi", "deb", "snap", "maven", "golang"}
	}
	// every emitted purl type with names that differ from their lower-cased / normalised form: the index must return
	// each package under exactly the type and name of its own purl
	for _, t := range types {
		var pkgs []*extractor.Package
		for _, nm := range [][2]string{{"", "JSONStream"}, {"", "jsonstream"}, {"", "Mixed.Case_Name"}, {"@Scope", "Pkg"}, {"Org/Sub", "UPPER"}, {"", "needs %41 enc/x"}, {"", "JSONStream"}} {
			pu := &purl.PackageURL{Type: t, Namespace: nm[0], Name: nm[1], Version: "1.0"}
			if t == "conan" {
				pu.Namespace = ""
			}
			pkgs = append(pkgs, &extractor.Package{Name: nm[1], Version: "1.0", Locations: []string{"lock/" + t},
				Metadata: &fakeMeta{purl: pu}, Extractor: fakeExtractor{name: "fake/" + t}})
		}
		// acceptance by purl.FromString is claimed here too: a package of an emitted type with a well-formed name
		c := &caseJ{Stream: "synthetic-per-type", Emitted: true}
		if evs := observe(c, pkgs); evs != nil {
			allPanics = append(allPanics, evs...)
			continue
		}
		for k := range c.Pkgs {
			c.Pkgs[k].MetaKind = "fake"
		}
		cases = append(cases, c)
	}
	for i := 0; i < *nSynth; i++ {
		n := []int{0, 1, 1, 2, 3, 5, 8}[r.Intn(7)]
		var pkgs []*extractor.Package
		var kinds []string
		for k := 0; k < n; k++ {
			p, kind := synthPackage(r, types, harvested)
			pkgs = append(pkgs, p)
			kinds = append(kinds, kind)
		}
		stream := "synthetic"
		switch {
		case i%10 == 9 && n > 0:
			// nil Extractor: every converter dereferences it
			cp := *pkgs[r.Intn(n)]
			cp.Extractor = nil
			pkgs[r.Intn(n)] = &cp
			stream = "synthetic-nil-extractor"
		case i%10 == 8 && n > 0:
			// duplicates: the same purl several times
			cp1, cp2 := *pkgs[0], *pkgs[0]
			pkgs = append(pkgs, &cp1, &cp2)
			kinds = append(kinds, kinds[0], kinds[0])
			stream = "synthetic-duplicates"
		}
		c := &caseJ{Stream: stream, Emitted: false}
		evs := observe(c, pkgs)
		for k := range c.Pkgs {
			if k < len(kinds) {
				c.Pkgs[k].MetaKind = kinds[k]
			}
		}
		if evs != nil {
			allPanics = append(allPanics, evs...)
			continue
		}
		cases = append(cases, c)
	}

	// output
	var items []string
	sf, err := os.Create(*side)
	if err != nil {
		panic(err)
	}
	enc := json.NewEncoder(sf)
	seen := map[string]bool{}
	nontrivial := 0
	pkgCount := 0
	streams := map[string]int{}
	typeHist := map[string]int{}
	locHist := map[string]int{}
	metaHist := map[string]int{}
	nameDiffers := 0
	for _, c := range cases {
		items = append(items, coqCase(c))
		if err := enc.Encode(c); err != nil {
			panic(err)
		}
		streams[c.Stream]++
		nameDiffers += c.NameDiffers
		for i := range c.Pkgs {
			j := &c.Pkgs[i]
			pkgCount++
			t := "(no purl)"
			if j.Purl != nil {
				t = string(j.Purl.Type)
				if !utf8.ValidString(t) || len(t) > 20 {
					t = "(odd)"
				}
				if hsh := canonical(j); !seen[hsh] {
					seen[hsh] = true
					nontrivial++
				}
			}
			typeHist[t]++
			mk := j.MetaType + " -> " + j.ProtoCase
			if j.MetaType == "" {
				mk = "(nil)"
			}
			metaHist[mk]++
			nl := len(j.Locations)
			if nl > 3 {
				nl = 3
			}
			locHist[fmt.Sprintf("%d%s", nl, map[bool]string{true: "+", false: ""}[len(j.Locations) > 3])]++
		}
	}
	sf.Close()
	var sb strings.Builder
	sb.WriteString("From Coq Require Import List ZArith NArith Bool.\nFrom Scalibr Require Import Convert.Bytes Convert.Purl Convert.Pkg Convert.Index Convert.Proto Convert.Sbom Convert.Cases14.\nImport ListNotations.\n")
	sb.WriteString(cf.Chunked("cases", "ccase", items, 10))
	sb.WriteString("Definition corr_bad := Eval vm_compute in bad_indices case_model_ok cases.\nPrint corr_bad.\n")
	sb.WriteString("Definition spec_bad := Eval vm_compute in bad_indices case_spec_ok cases.\nPrint spec_bad.\n")
	if err := os.WriteFile(*out, []byte(sb.String()), 0o644); err != nil {
		panic(err)
	}
	if *summary != "" {
		sum := map[string]any{
			"extractors": len(exts), "testdata_dirs": len(dirs), "extract_calls": h.extractCalls, "extract_errors": h.extractErrs,
			"fixture_groups": fixtureGroups, "mutants_tried": mutTried, "mutants_parsed": mutParsed,
			"cases": len(cases), "packages": pkgCount, "distinct_nontrivial_packages": nontrivial,
			"streams": streams, "purl_types": typeHist, "locations_per_package": locHist,
			"packages_per_extractor": h.perExtractor, "panics": allPanics, "harvest_seconds": harvestSecs,
			"purl_name_differs_from_package_name": nameDiffers, "oversize_packages_left_out": oversize, "c03_roots": c03roots,
			"metadata_types": metaHist, "metadata_mutation": mstats,
		}
		b, _ := json.MarshalIndent(sum, "", " ")
		os.WriteFile(*summary, b, 0o644)
	}
}

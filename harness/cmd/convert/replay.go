package main

import (
	"bytes"
	"encoding/json"
	"fmt"
	"os"
	"path/filepath"
	"strings"
	"time"

	"github.com/CycloneDX/cyclonedx-go"
	scalibr "github.com/google/osv-scalibr"
	bproto "github.com/google/osv-scalibr/binary/proto"
	"github.com/google/osv-scalibr/converter"
	"github.com/google/osv-scalibr/extractor"
	"github.com/google/osv-scalibr/extractor/filesystem"
	cdxe "github.com/google/osv-scalibr/extractor/filesystem/sbom/cdx"
	spdxe "github.com/google/osv-scalibr/extractor/filesystem/sbom/spdx"
	"github.com/google/osv-scalibr/inventory"
	"github.com/google/osv-scalibr/plugin"
	"github.com/google/osv-scalibr/purl"
	"github.com/package-url/packageurl-go"
	spdxjson "github.com/spdx/tools-golang/json"
)

func fromPurlJ(j *purlJ) *purl.PackageURL {
	if j == nil {
		return nil
	}
	p := &purl.PackageURL{Type: string(j.Type), Namespace: string(j.Namespace), Name: string(j.Name), Version: string(j.Version), Subpath: string(j.Subpath)}
	for _, q := range j.Qualifiers {
		p.Qualifiers = append(p.Qualifiers, packageurl.Qualifier{Key: string(q[0]), Value: string(q[1])})
	}
	return p
}

func strs(l []S) []string {
	var out []string
	for _, x := range l {
		out = append(out, string(x))
	}
	return out
}

// rebuild turns a recorded package back into an extractor.Package whose ToPURL / Ecosystem return
// what was recorded (the converters only see the package through these two functions).
func rebuild(j *pkgJ) *extractor.Package {
	p := &extractor.Package{Name: string(j.Name), Version: string(j.Version), Locations: strs(j.Locations)}
	if j.Source != nil {
		p.SourceCode = &extractor.SourceCodeIdentifier{Repo: string(j.Source[0]), Commit: string(j.Source[1])}
	}
	for _, a := range j.Annotations {
		p.Annotations = append(p.Annotations, extractor.Annotation(a))
	}
	if j.Layer != nil {
		p.LayerDetails = &extractor.LayerDetails{Index: int(j.Layer.Index), DiffID: string(j.Layer.DiffID), Command: string(j.Layer.Command), InBaseImage: j.Layer.Base}
	}
	switch {
	case !j.HasExtractor:
		p.Metadata = &fakeMeta{purl: fromPurlJ(j.Purl), eco: string(j.Ecosystem)}
	case j.MetaKind == "spdx" || (len(j.CPEs) > 0 && string(j.Extractor) == spdxe.Name):
		p.Metadata, p.Extractor = &spdxe.Metadata{PURL: fromPurlJ(j.Purl), CPEs: strs(j.CPEs)}, spdxe.New()
	case j.MetaKind == "cdx" || len(j.CPEs) > 0:
		p.Metadata, p.Extractor = &cdxe.Metadata{PURL: fromPurlJ(j.Purl), CPEs: strs(j.CPEs)}, cdxe.New()
	default:
		p.Metadata, p.Extractor = &fakeMeta{purl: fromPurlJ(j.Purl), eco: string(j.Ecosystem)}, fakeExtractor{name: string(j.Extractor)}
	}
	return p
}

func runReplay(repo, path string) {
	b, err := os.ReadFile(path)
	if err != nil {
		panic(err)
	}
	var wrap struct {
		Case  *caseJ      `json:"case"`
		First *caseJ      `json:"first_mismatch"`
		Event *panicEvent `json:"event"`
	}
	if err := json.Unmarshal(b, &wrap); err != nil {
		panic(err)
	}
	if wrap.Case == nil {
		wrap.Case = wrap.First
	}
	if wrap.Event != nil {
		ev := wrap.Event
		fmt.Printf("re-running extractor %s on %s/%s\n", ev.Extractor, ev.Root, ev.Path)
		var h *harvester
		cleanup := func() {}
		if ev.Root == "seed" {
			h = &harvester{emptied: map[string]bool{}, repo: repo, perExtractor: map[string]int{}}
			for _, g := range seedPackages(h) {
				if g.src.Extractor == ev.Extractor {
					h.groups = append(h.groups, g)
				}
			}
		} else {
			h, cleanup = reharvest(repo, ev.Extractor, ev.Root, ev.Path, string(ev.Content))
		}
		defer cleanup()
		if ev.Mutation != nil {
			// metadata-mutation stream: apply the recorded mutation to the package it was derived from
			for _, g := range h.groups {
				for _, p := range g.pkgs {
					if p.Name+"@"+p.Version != ev.Package {
						continue
					}
					q, ok := mutatedCopy(p, *ev.Mutation)
					if !ok {
						continue
					}
					md, _ := json.Marshal(q.Metadata)
					fmt.Printf("package %s of %s with metadata %s set to %s:\n  %s %s\n", ev.Package, ev.Extractor, metaTypeOf(q.Metadata), describeMutation(*ev.Mutation), metaTypeOf(q.Metadata), md)
					c := &caseJ{Source: g.src}
					evs := observe(c, []*extractor.Package{q})
					for _, e := range evs {
						fmt.Printf("implementation: %s panics: %s\n", e.What, e.Msg)
					}
					for _, w := range [][2]string{{"packageindex.New", c.IndexPanic}, {"proto.ScanResultToProto", c.ProtoPanic}, {"converter.ToSPDX23", c.SpdxPanic}, {"converter.ToCDX", c.CdxPanic}} {
						if w[1] != "" {
							fmt.Printf("implementation: %s panics: %s\n", w[0], w[1])
						}
					}
					if len(evs) == 0 && c.IndexPanic+c.ProtoPanic+c.SpdxPanic+c.CdxPanic == "" {
						fmt.Println("implementation: no panic")
					}
					return
				}
			}
			fmt.Println("the package the mutation was derived from is no longer harvested")
			return
		}
		for _, g := range h.groups {
			c := &caseJ{Source: g.src}
			for _, e := range observe(c, g.pkgs) {
				fmt.Printf("implementation: %s panics on package %s: %s\n", e.What, e.Package, e.Msg)
			}
		}
		for _, e := range h.panics {
			fmt.Printf("implementation: %s panics: %s\n", e.What, e.Msg)
		}
		return
	}
	if wrap.Case == nil {
		fmt.Println("replay file has neither case nor event")
		return
	}
	old := wrap.Case
	var pkgs []*extractor.Package
	for i := range old.Pkgs {
		pkgs = append(pkgs, rebuild(&old.Pkgs[i]))
	}
	c := &caseJ{Stream: old.Stream, Emitted: old.Emitted, Source: old.Source}
	evs := observe(c, pkgs)
	for i := range c.Pkgs {
		c.Pkgs[i].MetaKind = old.Pkgs[i].MetaKind
	}
	out, _ := json.MarshalIndent(c, "", " ")
	fmt.Printf("implementation (packages rebuilt from the recorded ToPURL/Ecosystem results):\n%s\n", out)
	for _, e := range evs {
		fmt.Printf("implementation: %s panics: %s\n", e.What, e.Msg)
	}
	if evs == nil {
		fmt.Printf("coq-case: %s\n", strings.ReplaceAll(coqCase(c), "\n", " "))
	}
	if old.Source.Extractor != "" && old.Emitted {
		h, cleanup := reharvest(repo, old.Source.Extractor, old.Source.Root, old.Source.Path, string(old.Source.Content))
		defer cleanup()
		n := 0
		for _, g := range h.groups {
			n += len(g.pkgs)
		}
		fmt.Printf("source: extractor %s on %s/%s (mutations %v) yields %d package(s) now\n", old.Source.Extractor, old.Source.Root, old.Source.Path, old.Source.Mutations, n)
	}
}

// reharvest runs one named extractor on one file (optionally with replaced content).
func reharvest(repo, extName, root, rel, content string) (*harvester, func()) {
	h := &harvester{emptied: map[string]bool{}, repo: repo, perExtractor: map[string]int{}}
	cleanup := func() {}
	var ex filesystem.Extractor
	for _, e := range offlineExtractors() {
		if e.Name() == extName {
			ex = e
		}
	}
	if ex == nil {
		fmt.Printf("unknown extractor %q\n", extName)
		return h, cleanup
	}
	tmp, err := os.MkdirTemp("", "c14replay")
	if err != nil {
		panic(err)
	}
	cleanup = func() { os.RemoveAll(tmp) }
	full := filepath.Join(tmp, rel)
	os.MkdirAll(filepath.Dir(full), 0o755)
	data := []byte(content)
	if content == "" {
		data, err = os.ReadFile(filepath.Join(root, rel))
		if err != nil {
			fmt.Printf("cannot read fixture: %v\n", err)
			return h, cleanup
		}
	}
	os.WriteFile(full, data, 0o644)
	// only this file is offered to the extractor
	h.run(tmp, []filesystem.Extractor{&wrapExt{inner: ex, always: true, h: h}}, 60*time.Second)
	return h, cleanup
}

// reharvestDir runs one named extractor on one file of a private copy of the fixture's root directory.
func reharvestDir(repo, extName, root, rel string) (*harvester, func()) {
	h := &harvester{emptied: map[string]bool{}, repo: repo, perExtractor: map[string]int{}}
	for _, e := range offlineExtractors() {
		if e.Name() == extName {
			h.only = rel
			h.runCopy(root, []filesystem.Extractor{&wrapExt{inner: e, always: true, h: h}}, 60*time.Second)
		}
	}
	return h, func() {}
}

// ---------------------------------------------------------------- known-finding witnesses

type witnessJ struct {
	Kind      string `json:"kind"`
	Extractor string `json:"extractor,omitempty"`
	Fixture   string `json:"fixture,omitempty"` // relative to the repository root
	KeepDirs  int    `json:"keep_dirs,omitempty"` // number of parent directories that belong to the fixture path
	Path      string `json:"path,omitempty"`      // inline witness: file name
	Content   string `json:"content,omitempty"`   // inline witness: file content
}

func runWitness(repo, path string) {
	b, err := os.ReadFile(path)
	if err != nil {
		panic(err)
	}
	var w witnessJ
	if err := json.Unmarshal(b, &w); err != nil {
		panic(err)
	}
	res := map[string]any{"kind": w.Kind, "still_fails": false}
	switch w.Kind {
	case "emitted-purl-type-rejected":
		full := filepath.Join(repo, w.Fixture)
		h, cleanup := reharvest(repo, w.Extractor, filepath.Dir(full), filepath.Base(full), "")
		defer cleanup()
		var detail []string
		for _, g := range h.groups {
			for _, p := range g.pkgs {
				pu := converter.ToPURL(p)
				if pu == nil {
					continue
				}
				s := pu.String()
				if _, err := purl.FromString(s); err != nil {
					res["still_fails"] = true
					detail = append(detail, fmt.Sprintf("%s emits %s; purl.FromString: %v", w.Extractor, s, err))
				} else {
					detail = append(detail, fmt.Sprintf("%s emits %s; accepted", w.Extractor, s))
				}
			}
		}
		res["detail"] = detail
	case "emitted-without-location":
		full := filepath.Join(repo, w.Fixture)
		root := full
		rel := ""
		// the fixture path may need its parent directories (chrome extensions take the id from the path)
		for i := 0; i < w.KeepDirs+1; i++ {
			rel = filepath.Join(filepath.Base(root), rel)
			root = filepath.Dir(root)
		}
		h, cleanup := reharvestDir(repo, w.Extractor, root, rel)
		defer cleanup()
		var detail []string
		for _, g := range h.groups {
			for _, p := range g.pkgs {
				if len(p.Locations) == 0 {
					res["still_fails"] = true
					detail = append(detail, fmt.Sprintf("%s emits %s@%s with no location", w.Extractor, p.Name, p.Version))
				}
			}
		}
		res["detail"] = detail
	case "metadata-dropped-in-proto":
		full := filepath.Join(repo, w.Fixture)
		h, cleanup := reharvestDir(repo, w.Extractor, filepath.Dir(full), filepath.Base(full))
		defer cleanup()
		var detail []string
		for _, g := range h.groups {
			res2, err := bproto.ScanResultToProto(resultOf(g.pkgs...))
			if err != nil {
				continue
			}
			for i, pp := range res2.GetInventory().GetPackages() {
				if g.pkgs[i].Metadata != nil && pp.GetMetadata() == nil {
					res["still_fails"] = true
					if len(detail) < 3 {
						detail = append(detail, fmt.Sprintf("%s: package %s has metadata %s, the result proto has no metadata case", w.Extractor, g.pkgs[i].Name, metaTypeOf(g.pkgs[i].Metadata)))
					}
				}
			}
		}
		res["detail"] = detail
	case "emitted-purl-unparseable":
		h, cleanup := reharvest(repo, w.Extractor, "", w.Path, w.Content)
		defer cleanup()
		var detail []string
		for _, g := range h.groups {
			for _, p := range g.pkgs {
				if pu := converter.ToPURL(p); pu != nil {
					if _, err := purl.FromString(pu.String()); err != nil {
						res["still_fails"] = true
						detail = append(detail, fmt.Sprintf("%s emits %s@%s with purl %s: %v", w.Extractor, p.Name, p.Version, pu.String(), err))
					}
				}
			}
		}
		res["detail"] = detail
	case "emitted-empty-name":
		h, cleanup := reharvest(repo, w.Extractor, "", w.Path, w.Content)
		defer cleanup()
		var detail []string
		for _, g := range h.groups {
			for _, p := range g.pkgs {
				if p.Name == "" {
					res["still_fails"] = true
					s := "(nil)"
					if pu := converter.ToPURL(p); pu != nil {
						s = pu.String()
						if _, err := purl.FromString(s); err != nil {
							s += " (" + err.Error() + ")"
						}
					}
					detail = append(detail, fmt.Sprintf("%s emits a package with empty name, version %q, purl %s", w.Extractor, p.Version, s))
				}
			}
		}
		res["detail"] = detail
	case "spdx-mentions-two-locations":
		p := &extractor.Package{Name: "n", Version: "1", Locations: []string{"first/loc", "second/loc", "third/loc"},
			Metadata: &fakeMeta{purl: &purl.PackageURL{Type: purl.TypeGeneric, Name: "n", Version: "1"}}, Extractor: fakeExtractor{name: "fake/one"}}
		doc := converter.ToSPDX23(resultOf(p), converter.SPDXConfig{})
		info := doc.Packages[len(doc.Packages)-1].PackageSourceInfo
		res["source_info"] = info
		res["still_fails"] = !strings.Contains(info, "third/loc")
	case "sbom-no-layer-details":
		mk := func(ld *extractor.LayerDetails) *extractor.Package {
			return &extractor.Package{Name: "n", Version: "1", Locations: []string{"loc"}, LayerDetails: ld,
				Metadata: &fakeMeta{purl: &purl.PackageURL{Type: purl.TypeGeneric, Name: "n", Version: "1"}}, Extractor: fakeExtractor{name: "fake/one"}}
		}
		ld := &extractor.LayerDetails{Index: 3, DiffID: "sha256:WITNESSDIFFID", Command: "RUN witness-command", InBaseImage: true}
		var sb, cb bytes.Buffer
		spdxjson.Write(converter.ToSPDX23(resultOf(mk(ld)), converter.SPDXConfig{}), &sb)
		cyclonedx.NewBOMEncoder(&cb, cyclonedx.BOMFileFormatJSON).Encode(converter.ToCDX(resultOf(mk(ld)), converter.CDXConfig{}))
		absent := !strings.Contains(sb.String(), "WITNESSDIFFID") && !strings.Contains(sb.String(), "witness-command") &&
			!strings.Contains(cb.String(), "WITNESSDIFFID") && !strings.Contains(cb.String(), "witness-command")
		res["still_fails"] = absent
		res["spdx_bytes"], res["cdx_bytes"] = sb.Len(), cb.Len()
	default:
		res["error"] = "unknown witness kind"
	}
	out, _ := json.Marshal(res)
	fmt.Println(string(out))
}

func resultOf(pkgs ...*extractor.Package) *scalibr.ScanResult {
	return &scalibr.ScanResult{Version: "verif", StartTime: time.Unix(1700000000, 0), EndTime: time.Unix(1700000001, 0),
		Status: &plugin.ScanStatus{Status: plugin.ScanStatusSucceeded}, Inventory: inventory.Inventory{Packages: pkgs}}
}

package main

import "github.com/google/osv-scalibr/log"

// quietLogger drops the library's log output (warnings about skipped packages etc.).
type quietLogger struct{}

func (quietLogger) Errorf(string, ...any) {}
func (quietLogger) Warnf(string, ...any)  {}
func (quietLogger) Infof(string, ...any)  {}
func (quietLogger) Debugf(string, ...any) {}
func (quietLogger) Error(...any)          {}
func (quietLogger) Warn(...any)           {}
func (quietLogger) Info(...any)           {}
func (quietLogger) Debug(...any)          {}

func init() { log.SetLogger(quietLogger{}) }

package main

// Second table of the C14 translator: which result-proto oneof case setProtoMetadata (binary/proto/proto.go) selects
// per metadata type (the cases of its type switch), and which metadata types the extractor sources put into
// extractor.Package.Metadata (composite literals, resolved through local variables where possible).

import (
	"fmt"
	"go/ast"
	"go/parser"
	"go/token"
	"io/fs"
	"os"
	"path/filepath"
	"sort"
	"strconv"
	"strings"

	cf "verifharness/internal/coqfmt"
)

const modPrefix = "github.com/google/osv-scalibr/"

type metaType struct {
	Type    string `json:"type"`    // <package path below the module>.<TypeName>
	Pointer bool   `json:"pointer"` // *T
}

type protoCase struct {
	metaType
	Case string `json:"case"` // spb.Package_<Case>
}

type metaRef struct {
	metaType
	File string `json:"file"`
	Func string `json:"func"`
}

type protoMeta struct {
	Cases      []protoCase `json:"proto_cases"`
	Refs       []metaRef   `json:"metadata_refs"`
	Emitted    []metaType  `json:"emitted_metadata_types"`
	Unresolved []string    `json:"unresolved_metadata_expressions"`
}

func importsOf(f *ast.File) map[string]string {
	m := map[string]string{}
	for _, im := range f.Imports {
		p, _ := strconv.Unquote(im.Path.Value)
		name := p[strings.LastIndex(p, "/")+1:]
		if im.Name != nil {
			name = im.Name.Name
		}
		m[name] = p
	}
	return m
}

// typeID resolves a type expression (T, pkg.T, *T, *pkg.T) to a metaType; self is the import path of the file's package.
func typeID(e ast.Expr, imports map[string]string, self string) (metaType, bool) {
	ptr := false
	if s, ok := e.(*ast.StarExpr); ok {
		ptr, e = true, s.X
	}
	switch x := e.(type) {
	case *ast.Ident:
		return metaType{strings.TrimPrefix(self, modPrefix) + "." + x.Name, ptr}, true
	case *ast.SelectorExpr:
		if id, ok := x.X.(*ast.Ident); ok {
			if p, ok := imports[id.Name]; ok {
				return metaType{strings.TrimPrefix(p, modPrefix) + "." + x.Sel.Name, ptr}, true
			}
		}
	}
	return metaType{}, false
}

// valueType gives the dynamic type of a value expression as far as syntax tells: &T{}, T{}, new(T), and local
// variables of the enclosing function declared with one of these forms or `var x T`.
func valueType(e ast.Expr, fn *ast.FuncDecl, imports map[string]string, self string, depth int) (metaType, bool) {
	switch x := e.(type) {
	case *ast.CompositeLit:
		if x.Type == nil {
			return metaType{}, false
		}
		return typeID(x.Type, imports, self)
	case *ast.UnaryExpr:
		if x.Op == token.AND {
			if t, ok := valueType(x.X, fn, imports, self, depth); ok && !t.Pointer {
				t.Pointer = true
				return t, true
			}
		}
	case *ast.CallExpr:
		if id, ok := x.Fun.(*ast.Ident); ok && id.Name == "new" && len(x.Args) == 1 {
			if t, ok := typeID(x.Args[0], imports, self); ok && !t.Pointer {
				t.Pointer = true
				return t, true
			}
		}
	case *ast.Ident:
		if fn == nil || depth > 3 {
			return metaType{}, false
		}
		var found *metaType
		ast.Inspect(fn, func(n ast.Node) bool {
			if found != nil {
				return false
			}
			switch s := n.(type) {
			case *ast.AssignStmt:
				for i, l := range s.Lhs {
					if id, ok := l.(*ast.Ident); ok && id.Name == x.Name && i < len(s.Rhs) && s.Tok == token.DEFINE {
						if t, ok := valueType(s.Rhs[i], fn, imports, self, depth+1); ok {
							found = &t
						}
					}
				}
			case *ast.ValueSpec:
				for _, id := range s.Names {
					if id.Name == x.Name && s.Type != nil {
						if t, ok := typeID(s.Type, imports, self); ok {
							found = &t
						}
					}
				}
			case *ast.Field: // parameters / results
				for _, id := range s.Names {
					if id.Name == x.Name && s.Type != nil {
						if t, ok := typeID(s.Type, imports, self); ok {
							found = &t
						}
					}
				}
			}
			return true
		})
		if found != nil {
			return *found, true
		}
	}
	return metaType{}, false
}

// oneofCase finds the result-proto oneof wrapper (spb.Package_<X>) a switch clause produces: a composite literal of
// that type in the clause, or -- when the clause calls helpers of package proto -- the helper's result type or a
// literal in its body (a few levels deep).
func oneofCase(nodes []ast.Node, funcs map[string]*ast.FuncDecl, depth int) string {
	name := ""
	isWrapper := func(e ast.Expr) string {
		if st, ok := e.(*ast.StarExpr); ok {
			e = st.X
		}
		if se, ok := e.(*ast.SelectorExpr); ok && strings.HasPrefix(se.Sel.Name, "Package_") {
			return strings.TrimPrefix(se.Sel.Name, "Package_")
		}
		return ""
	}
	for _, n := range nodes {
		ast.Inspect(n, func(m ast.Node) bool {
			if name != "" {
				return false
			}
			switch x := m.(type) {
			case *ast.CompositeLit:
				if x.Type != nil {
					if w := isWrapper(x.Type); w != "" {
						name = w
					}
				}
			case *ast.CallExpr:
				if id, ok := x.Fun.(*ast.Ident); ok && depth < 4 {
					if fd, ok := funcs[id.Name]; ok {
						if fd.Type.Results != nil {
							for _, r := range fd.Type.Results.List {
								if w := isWrapper(r.Type); w != "" {
									name = w
								}
							}
						}
						if name == "" && fd.Body != nil {
							name = oneofCase([]ast.Node{fd.Body}, funcs, depth+1)
						}
					}
				}
			}
			return true
		})
	}
	return name
}

func genProtoMeta(repo string) protoMeta {
	var out protoMeta
	fset := token.NewFileSet()
	// every type switch in package binary/proto that has a clause for a type declared under extractor/ is (part of) the
	// metadata dispatch, wherever it lives and however its clauses are ordered
	dir := filepath.Join(repo, "binary", "proto")
	ents, err := os.ReadDir(dir)
	if err != nil {
		fatal("read binary/proto: %v", err)
	}
	type parsed struct {
		f    *ast.File
		imps map[string]string
	}
	var files []parsed
	funcs := map[string]*ast.FuncDecl{}
	for _, e := range ents {
		if e.IsDir() || !strings.HasSuffix(e.Name(), ".go") || strings.HasSuffix(e.Name(), "_test.go") {
			continue
		}
		pf, err := parser.ParseFile(fset, filepath.Join(dir, e.Name()), nil, 0)
		if err != nil {
			fatal("parse %s: %v", e.Name(), err)
		}
		files = append(files, parsed{pf, importsOf(pf)})
		for _, d := range pf.Decls {
			if fd, ok := d.(*ast.FuncDecl); ok && fd.Recv == nil {
				funcs[fd.Name.Name] = fd
			}
		}
	}
	found := false
	seenCase := map[metaType]bool{}
	for _, pf := range files {
		ast.Inspect(pf.f, func(n ast.Node) bool {
			ts, ok := n.(*ast.TypeSwitchStmt)
			if !ok {
				return true
			}
			isMeta := false
			for _, st := range ts.Body.List {
				for _, te := range st.(*ast.CaseClause).List {
					if t, ok := typeID(te, pf.imps, modPrefix+"binary/proto"); ok && strings.HasPrefix(t.Type, "extractor/") {
						isMeta = true
					}
				}
			}
			if !isMeta {
				return true
			}
			found = true
			for _, st := range ts.Body.List {
				cc := st.(*ast.CaseClause)
				if cc.List == nil {
					continue // default
				}
				var body []ast.Node
				for _, b := range cc.Body {
					body = append(body, b)
				}
				caseName := oneofCase(body, funcs, 0)
				for _, te := range cc.List {
					if id, ok := te.(*ast.Ident); ok && id.Name == "nil" {
						continue
					}
					t, ok := typeID(te, pf.imps, modPrefix+"binary/proto")
					if !ok {
						fatal("metadata type switch: unsupported case type at %s", fset.Position(te.Pos()))
					}
					if caseName == "" {
						// a clause that sets no oneof wrapper: same as no clause
						continue
					}
					if !seenCase[t] {
						seenCase[t] = true
						out.Cases = append(out.Cases, protoCase{t, caseName})
					}
				}
			}
			return true
		})
	}
	if !found {
		fatal("no type switch over extractor metadata types found in package binary/proto (translator needs updating)")
	}
	// clause order is irrelevant for a type switch over distinct concrete types: keep the table sorted
	sort.Slice(out.Cases, func(i, j int) bool {
		if out.Cases[i].Type != out.Cases[j].Type {
			return out.Cases[i].Type < out.Cases[j].Type
		}
		return !out.Cases[i].Pointer && out.Cases[j].Pointer
	})

	root := filepath.Join(repo, "extractor")
	err = filepath.WalkDir(root, func(p string, d fs.DirEntry, err error) error {
		if err != nil {
			return err
		}
		if d.IsDir() {
			if d.Name() == "testdata" {
				return filepath.SkipDir
			}
			return nil
		}
		if !strings.HasSuffix(p, ".go") || strings.HasSuffix(p, "_test.go") {
			return nil
		}
		f, err := parser.ParseFile(fset, p, nil, 0)
		if err != nil {
			return fmt.Errorf("%s: %w", p, err)
		}
		rel, _ := filepath.Rel(repo, p)
		rel = filepath.ToSlash(rel)
		self := modPrefix + filepath.ToSlash(filepath.Dir(rel))
		imps := importsOf(f)
		record := func(e ast.Expr, fn *ast.FuncDecl) {
			fname := "(package level)"
			if fn != nil {
				fname = fn.Name.Name
			}
			if id, ok := e.(*ast.Ident); ok && id.Name == "nil" {
				return
			}
			if t, ok := valueType(e, fn, imps, self, 0); ok {
				out.Refs = append(out.Refs, metaRef{t, rel, fname})
			} else {
				out.Unresolved = append(out.Unresolved, fmt.Sprintf("%s:%s:%d", rel, fname, fset.Position(e.Pos()).Line))
			}
		}
		for _, d := range f.Decls {
			fn, _ := d.(*ast.FuncDecl)
			ast.Inspect(d, func(n ast.Node) bool {
				switch x := n.(type) {
				case *ast.CompositeLit:
					// only literals of extractor.Package (or a slice of them: elements have no explicit type)
					isPkg := x.Type == nil
					if se, ok := x.Type.(*ast.SelectorExpr); ok && se.Sel.Name == "Package" {
						if id, ok := se.X.(*ast.Ident); ok && imps[id.Name] == modPrefix+"extractor" {
							isPkg = true
						}
					}
					if !isPkg {
						return true
					}
					hasName := false
					for _, el := range x.Elts {
						if kv, ok := el.(*ast.KeyValueExpr); ok {
							if id, ok := kv.Key.(*ast.Ident); ok && (id.Name == "Locations" || id.Name == "Version") {
								hasName = true
							}
						}
					}
					for _, el := range x.Elts {
						if kv, ok := el.(*ast.KeyValueExpr); ok {
							if id, ok := kv.Key.(*ast.Ident); ok && id.Name == "Metadata" && (x.Type != nil || hasName) {
								record(kv.Value, fn)
							}
						}
					}
				case *ast.AssignStmt:
					for i, l := range x.Lhs {
						if se, ok := l.(*ast.SelectorExpr); ok && se.Sel.Name == "Metadata" && i < len(x.Rhs) && x.Tok == token.ASSIGN {
							record(x.Rhs[i], fn)
						}
					}
				}
				return true
			})
		}
		return nil
	})
	if err != nil {
		fatal("walk: %v", err)
	}
	seen := map[metaType]bool{}
	for _, r := range out.Refs {
		if !seen[r.metaType] {
			seen[r.metaType] = true
			out.Emitted = append(out.Emitted, r.metaType)
		}
	}
	sort.Slice(out.Emitted, func(i, j int) bool {
		if out.Emitted[i].Type != out.Emitted[j].Type {
			return out.Emitted[i].Type < out.Emitted[j].Type
		}
		return !out.Emitted[i].Pointer && out.Emitted[j].Pointer
	})
	sort.Strings(out.Unresolved)
	return out
}

func star(b bool) string {
	if b {
		return "*"
	}
	return ""
}

func protoMetaCoq(pm protoMeta) string {
	var sb strings.Builder
	sb.WriteString("(* GENERATED by harness/cmd/purltypes from binary/proto/proto.go (type switch of setProtoMetadata) and\n")
	sb.WriteString("   extractor/**/*.go (values stored into extractor.Package.Metadata) -- do not edit. Plain data only.\n")
	sb.WriteString("   A metadata type is (package path below the module ++ \".\" ++ type name, is-pointer). *)\n")
	sb.WriteString("From Coq Require Import List NArith Bool.\nImport ListNotations.\nOpen Scope N_scope.\n\n")
	var items []string
	for _, c := range pm.Cases {
		items = append(items, fmt.Sprintf("(* case %s%s -> Package_%s *) (%s, %s, %s)", star(c.Pointer), c.Type, c.Case, cf.Str(c.Type), cf.Bool(c.Pointer), cf.Str(c.Case)))
	}
	fmt.Fprintf(&sb, "Definition proto_cases : list (list N * bool * list N) :=\n [ %s ].\n\n", strings.Join(items, ";\n   "))
	items = nil
	for _, e := range pm.Emitted {
		var where []string
		for _, r := range pm.Refs {
			if r.metaType == e {
				where = append(where, strings.TrimPrefix(r.File, "extractor/")+":"+r.Func)
			}
		}
		if len(where) > 4 {
			where = append(where[:4], fmt.Sprintf("... %d more", len(where)-4))
		}
		items = append(items, fmt.Sprintf("(* %s%s  <- %s *) (%s, %s)", star(e.Pointer), e.Type, strings.Join(where, ", "), cf.Str(e.Type), cf.Bool(e.Pointer)))
	}
	fmt.Fprintf(&sb, "Definition emitted_metadata_types : list (list N * bool) :=\n [ %s ].\n\n", strings.Join(items, ";\n   "))
	fmt.Fprintf(&sb, "Definition unresolved_metadata_expressions : N := %d.\n", len(pm.Unresolved))
	return sb.String()
}

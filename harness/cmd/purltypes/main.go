// Command purltypes is the C14/C15 translator: it reads Go *source* (go/ast, no linking) and
// regenerates coq/theories/Convert/Generated_PurlTypes.v with
//
//   - declared_types  : the `Type*` string constants declared in <repo>/purl/purl.go
//   - valid_type_keys : the types purl.FromString of the linked repository accepts (observed by probing)
//   - emitted_refs    : every reference `purl.Type*` in non-test sources under <repo>/extractor
//     (with the file and the enclosing function), i.e. the purl types built-in extractors
//     can put into the package URLs they emit
//   - emitted_types   : the distinct types of emitted_refs
//
// It also writes the same data as JSON (for the check's evidence and for the harnesses).
package main

import (
	"encoding/json"
	"flag"
	"fmt"
	"go/ast"
	"go/parser"
	"go/token"
	"io/fs"
	"os"
	"path/filepath"
	"regexp"
	"sort"
	"strconv"
	"strings"

	"github.com/google/osv-scalibr/purl"

	cf "verifharness/internal/coqfmt"
)

type constDecl struct {
	Ident string `json:"ident"`
	Value string `json:"value"`
}

type ref struct {
	Ident string `json:"ident"`
	Value string `json:"value"`
	File  string `json:"file"`
	Func  string `json:"func"`
}

type probeResult struct {
	Type     string `json:"type"`
	Accepted bool   `json:"accepted"`
	Error    string `json:"error,omitempty"`
}

type output struct {
	Probes     []probeResult `json:"fromstring_probes"`
	ProtoMeta  *protoMeta  `json:"proto_meta,omitempty"`
	Declared   []constDecl `json:"declared"`
	ValidKeys  []string    `json:"valid_keys"`
	ValidLower bool        `json:"valid_type_lowercases"`
	Refs       []ref       `json:"refs"`
	Emitted    []string    `json:"emitted"`
}

var typeIdent = regexp.MustCompile(`^Type[A-Z][A-Za-z0-9]*$`)

const purlImport = "github.com/google/osv-scalibr/purl"

func fatal(format string, a ...any) {
	fmt.Fprintf(os.Stderr, "purltypes: "+format+"\n", a...)
	os.Exit(2)
}

func main() {
	repo := flag.String("repo", "/repo", "repository root")
	out := flag.String("out", "", "output .v file")
	jsonOut := flag.String("json", "", "output JSON file")
	protoOut := flag.String("protoout", "", "output .v file for the setProtoMetadata dispatch table")
	flag.Parse()

	fset := token.NewFileSet()
	pf, err := parser.ParseFile(fset, filepath.Join(*repo, "purl", "purl.go"), nil, 0)
	if err != nil {
		fatal("parse purl.go: %v", err)
	}
	var o output
	consts := map[string]string{}
	for _, d := range pf.Decls {
		gd, ok := d.(*ast.GenDecl)
		if !ok || gd.Tok != token.CONST {
			continue
		}
		for _, s := range gd.Specs {
			vs := s.(*ast.ValueSpec)
			for i, n := range vs.Names {
				if i >= len(vs.Values) {
					continue
				}
				lit, ok := vs.Values[i].(*ast.BasicLit)
				if !ok || lit.Kind != token.STRING {
					continue
				}
				v, err := strconv.Unquote(lit.Value)
				if err != nil {
					continue
				}
				consts[n.Name] = v
				if typeIdent.MatchString(n.Name) {
					o.Declared = append(o.Declared, constDecl{n.Name, v})
				}
			}
		}
	}
	// Which types the library's own parser accepts is OBSERVED, not read off the source: purl.FromString of the
	// repository this binary is linked against is run on every declared constant value, on its upper-cased form and on
	// purl-spec types the file does not declare. (How validType stores its table -- map, switch, sorted slice -- is the
	// implementation's business.)
	probe := func(t string) (bool, string) {
		var last string
		for _, form := range []string{"pkg:%s/n@1", "pkg:%s/ns/n@1", "pkg:%s/ns/n@1?channel=c"} {
			_, err := purl.FromString(fmt.Sprintf(form, t))
			if err == nil {
				return true, ""
			}
			last = err.Error()
		}
		return false, last
	}
	o.ValidKeys = []string{}
	o.ValidLower = true
	seenKey := map[string]bool{}
	extra := []string{"gradle", "huggingface", "mlflow", "bitnami", "qpkg", "luarocks", "swid", "julia", "otp", "vscode", "notatype", "x"}
	var cands []string
	for _, c := range o.Declared {
		cands = append(cands, c.Value)
	}
	for _, t := range append(cands, extra...) {
		ok, why := probe(t)
		o.Probes = append(o.Probes, probeResult{t, ok, why})
		if !ok {
			continue
		}
		if !seenKey[strings.ToLower(t)] {
			seenKey[strings.ToLower(t)] = true
			o.ValidKeys = append(o.ValidKeys, strings.ToLower(t))
		}
		// case-insensitivity: the upper-cased spelling of an accepted type must be accepted as well
		if up, _ := probe(strings.ToUpper(t)); !up {
			o.ValidLower = false
		}
	}

	// references under extractor/
	root := filepath.Join(*repo, "extractor")
	err = filepath.WalkDir(root, func(p string, d fs.DirEntry, err error) error {
		if err != nil {
			return err
		}
		if d.IsDir() {
			if d.Name() == "testdata" {
				return filepath.SkipDir
			}
			return nil
		}
		if !strings.HasSuffix(p, ".go") || strings.HasSuffix(p, "_test.go") {
			return nil
		}
		f, err := parser.ParseFile(fset, p, nil, 0)
		if err != nil {
			return fmt.Errorf("%s: %w", p, err)
		}
		local := ""
		for _, im := range f.Imports {
			ip, _ := strconv.Unquote(im.Path.Value)
			if ip == purlImport {
				local = "purl"
				if im.Name != nil {
					local = im.Name.Name
				}
			}
		}
		if local == "" || local == "_" {
			return nil
		}
		rel, _ := filepath.Rel(*repo, p)
		for _, d := range f.Decls {
			fname := "(package level)"
			if fd, ok := d.(*ast.FuncDecl); ok {
				fname = fd.Name.Name
			}
			ast.Inspect(d, func(n ast.Node) bool {
				se, ok := n.(*ast.SelectorExpr)
				if !ok {
					return true
				}
				id, ok := se.X.(*ast.Ident)
				// id.Obj == nil: the identifier is not a local variable/parameter named like the import
				if !ok || id.Name != local || id.Obj != nil || !typeIdent.MatchString(se.Sel.Name) {
					return true
				}
				v, ok := consts[se.Sel.Name]
				if !ok {
					fatal("%s references purl.%s which purl.go does not declare", rel, se.Sel.Name)
				}
				o.Refs = append(o.Refs, ref{se.Sel.Name, v, filepath.ToSlash(rel), fname})
				return true
			})
		}
		return nil
	})
	if err != nil {
		fatal("walk: %v", err)
	}
	sort.SliceStable(o.Refs, func(i, j int) bool {
		if o.Refs[i].File != o.Refs[j].File {
			return o.Refs[i].File < o.Refs[j].File
		}
		return o.Refs[i].Value < o.Refs[j].Value
	})
	seen := map[string]bool{}
	for _, r := range o.Refs {
		if !seen[r.Value] {
			seen[r.Value] = true
			o.Emitted = append(o.Emitted, r.Value)
		}
	}
	sort.Strings(o.Emitted)

	var sb strings.Builder
	sb.WriteString("(* GENERATED by harness/cmd/purltypes from purl/purl.go and extractor/**/*.go -- do not edit.\n")
	sb.WriteString("   Regenerated on every run of bin/check C14 / C15. Plain data only. *)\n")
	sb.WriteString("From Coq Require Import List NArith Bool.\nImport ListNotations.\nOpen Scope N_scope.\n\n")
	sb.WriteString("(* `Type*` constants declared in purl/purl.go *)\n")
	var items []string
	for _, c := range o.Declared {
		items = append(items, fmt.Sprintf("(* %s = %q *) %s", c.Ident, c.Value, cf.Str(c.Value)))
	}
	fmt.Fprintf(&sb, "Definition declared_types : list (list N) :=\n [ %s ].\n\n", strings.Join(items, ";\n   "))
	sb.WriteString("(* types purl.FromString accepted when probed (pkg:<type>/n@1 ...): declared constants and purl-spec extras *)\n")
	items = nil
	for _, k := range o.ValidKeys {
		items = append(items, fmt.Sprintf("(* %q *) %s", k, cf.Str(k)))
	}
	if len(items) == 0 {
		sb.WriteString("Definition valid_type_keys : list (list N) := [].\n\n")
	} else {
		fmt.Fprintf(&sb, "Definition valid_type_keys : list (list N) :=\n [ %s ].\n\n", strings.Join(items, ";\n   "))
	}
	fmt.Fprintf(&sb, "(* observed: the upper-cased spelling of every accepted type is accepted too *)\nDefinition valid_type_lowercases : bool := %s.\n\n", cf.Bool(o.ValidLower))
	sb.WriteString("(* purl types referenced as purl.TypeXxx by non-test sources under extractor/ *)\n")
	items = nil
	for _, e := range o.Emitted {
		var where []string
		for _, r := range o.Refs {
			if r.Value == e {
				where = append(where, strings.TrimPrefix(r.File, "extractor/")+":"+r.Func)
			}
		}
		items = append(items, fmt.Sprintf("(* %q  <- %s *) %s", e, strings.Join(where, ", "), cf.Str(e)))
	}
	if len(items) == 0 {
		sb.WriteString("Definition emitted_types : list (list N) := [].\n")
	} else {
		fmt.Fprintf(&sb, "Definition emitted_types : list (list N) :=\n [ %s ].\n", strings.Join(items, ";\n   "))
	}
	fmt.Fprintf(&sb, "\nDefinition emitted_refs_count : N := %d.\n", len(o.Refs))
	if *out != "" {
		writeIfChanged(*out, sb.String())
	} else {
		fmt.Print(sb.String())
	}
	if *protoOut != "" {
		pm := genProtoMeta(*repo)
		o.ProtoMeta = &pm
		writeIfChanged(*protoOut, protoMetaCoq(pm))
	}
	if *jsonOut != "" {
		b, _ := json.MarshalIndent(o, "", " ")
		writeIfChanged(*jsonOut, string(b))
	}
}

// writeIfChanged keeps the file's mtime when nothing changed (so make does not rebuild) and
// replaces it atomically otherwise.
func writeIfChanged(path, content string) {
	if old, err := os.ReadFile(path); err == nil && string(old) == content {
		return
	}
	tmp := fmt.Sprintf("%s.tmp%d", path, os.Getpid())
	if err := os.WriteFile(tmp, []byte(content), 0o644); err != nil {
		fatal("write: %v", err)
	}
	if err := os.Rename(tmp, path); err != nil {
		fatal("rename: %v", err)
	}
}

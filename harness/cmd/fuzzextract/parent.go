package main

import (
	"encoding/base64"
	"encoding/hex"
	"encoding/json"
	"fmt"
	"os"
	"path/filepath"
	"sort"
	"strconv"
	"strings"
	"sync"
	"time"
)

type extStats struct {
	Calls, OK, OKWithPkgs, Errors, Panics, Timeouts, WorkerDeaths int64
	NotReq, FileReqFalse                                          int64
	SpentUS                                                       int64
	SlowCalls, LeakCalls                                          int64
	EngineRuns, EngineWithPkgs                                    int64
	MaxUS                                                         int64
	seen                                                          map[[16]byte]uint8 // bit0 seen, bit1 non-trivial
	Distinct, Nontrivial                                          int64
	seeds                                                         map[int]int
	paths                                                         map[string]int
	src                                                           map[string]int
	nextK                                                         int64
	inflight                                                      int
}

// Finding is one de-duplicated defect candidate.
type Finding struct {
	Extractor    string        `json:"extractor"`
	Kind         string        `json:"kind"` // panic | timeout | worker_death
	Path         string        `json:"path"`
	Mode         uint32        `json:"mode"`
	InputSha256  string        `json:"input_sha256"`
	InputFile    string        `json:"input_file"`
	InputSize    int           `json:"input_size"`
	InputPrefix  string        `json:"input_prefix"` // Go-quoted
	Message      string        `json:"message"`
	Stack        []string      `json:"stack"`
	TopFrame     string        `json:"top_frame"`
	Where        string        `json:"where,omitempty"`
	OSRelease    *string       `json:"os_release,omitempty"` // base64
	OSReleaseStr string        `json:"os_release_quoted,omitempty"`
	Trail        []string      `json:"mutation_trail"`
	Seed         string        `json:"seed_file"`
	Count        int           `json:"count"`
	Confirmed    bool          `json:"confirmed"` // timeouts: reproduced once more, alone, after the run (panics / deaths: re-run by the minimiser)
	ConfirmNote  string        `json:"confirm_note,omitempty"`
	StderrHead   string        `json:"worker_stderr_head,omitempty"`
	Minimized    bool          `json:"minimized"`
	OrigSize     int           `json:"original_input_size"`
	MinAttempts  int           `json:"minimize_attempts"`
	CaseE        int           `json:"case_extractor_index"`
	CaseK        int64         `json:"case_index"`
	Case         *ExplicitCase `json:"case"` // replayable: fuzzextract -replay {"case": ...}
}

type parent struct {
	cfg           *Config
	w             *World
	mu            sync.Mutex
	st            []*extStats
	findings      map[string]*Finding
	order         []string
	opHist        [nOps]int64
	sizeHist      map[string]int64
	harnessErrors []string
	unattributed  []map[string]any
	nUnattributed int
	recycles      int
	restarts      int
	maxCases      int64
	deadline      time.Time
	samples       []map[string]any
	sampleAt      map[[2]int64]bool
	findingsDir   string
	only          map[string]bool
	budget        time.Duration
	t0            time.Time
	sysHandedOut  bool
	sysHandoutS   float64
}

func sizeBucket(n int) string {
	switch {
	case n == 0:
		return "0"
	case n < 64:
		return "1-63"
	case n < 1024:
		return "64-1023"
	case n < 16<<10:
		return "1KiB-16KiB"
	case n < 64<<10:
		return "16KiB-64KiB"
	case n < 1<<20:
		return "64KiB-1MiB"
	default:
		return ">=1MiB"
	}
}

func quotePrefix(b []byte, n int) string {
	if len(b) > n {
		return strconv.Quote(string(b[:n])) + fmt.Sprintf("...(+%d bytes)", len(b)-n)
	}
	return strconv.Quote(string(b))
}

func (p *parent) record(r *Result) {
	p.mu.Lock()
	defer p.mu.Unlock()
	s := p.st[r.E]
	s.Calls++
	s.SpentUS += r.DurUS
	if r.DurUS > s.MaxUS {
		s.MaxUS = r.DurUS
	}
	if r.DurUS > 1_000_000 {
		s.SlowCalls++
	}
	if r.Leaked > 0 {
		s.LeakCalls++
	}
	if r.Engine {
		s.EngineRuns++
		if r.EngPkgs > 0 {
			s.EngineWithPkgs++
		}
	}
	switch r.Out {
	case "ok":
		s.OK++
		if r.NPkgs > 0 {
			s.OKWithPkgs++
		}
	case "error":
		s.Errors++
	case "panic":
		s.Panics++
	}
	if r.NotReq {
		s.NotReq++
	}
	if !r.FileReq {
		s.FileReqFalse++
	}
	s.src[r.Src]++
	s.paths[r.P]++
	s.seeds[r.Si]++
	for _, op := range r.Ops {
		if op >= 0 && op < nOps {
			p.opHist[op]++
		}
	}
	p.sizeHist[sizeBucket(r.Size)]++
	p.markSeen(s, r.Sha, r.Out == "error" || r.Out == "panic" || r.NPkgs > 0)
}

// markSeen maintains distinct / non-trivial counts. Non-trivial: the input differs from every seed
// (by SHA-256) and the call reached the parser: >= 1 package, or a non-nil error (or a panic / hang / death).
func (p *parent) markSeen(s *extStats, shaHex string, reached bool) {
	raw, err := hex.DecodeString(shaHex)
	if err != nil || len(raw) != 32 {
		return
	}
	var full [32]byte
	copy(full[:], raw)
	var key [16]byte
	copy(key[:], raw[:16])
	fl := s.seen[key]
	if fl&1 == 0 {
		s.Distinct++
	}
	nfl := fl | 1
	if reached && !p.w.SeedHash[full] && fl&2 == 0 {
		nfl |= 2
		s.Nontrivial++
	}
	if nfl != fl {
		s.seen[key] = nfl
	}
}

func (p *parent) addFinding(kind string, c *Case, msg string, stack []string, top, where, stderr string) {
	h := c.sha()
	p.mu.Lock()
	defer p.mu.Unlock()
	key := c.Ext + "|" + kind + "|" + top
	f, ok := p.findings[key]
	if ok {
		f.Count++
		if len(c.Data) >= f.InputSize {
			return
		}
		cnt := f.Count
		*f = Finding{Count: cnt}
	} else {
		f = &Finding{Count: 1}
		p.findings[key] = f
		p.order = append(p.order, key)
	}
	f.Extractor, f.Kind, f.Path, f.Mode = c.Ext, kind, c.Path, uint32(c.Mode)
	f.InputSha256 = hex.EncodeToString(h[:])
	f.InputSize, f.OrigSize = len(c.Data), len(c.Data)
	f.InputPrefix = quotePrefix(c.Data, 240)
	f.Message, f.Stack, f.TopFrame, f.Where = msg, stack, top, where
	if f.Stack == nil {
		f.Stack = []string{}
	}
	if kind == "worker_death" {
		f.StderrHead = stderr
		if len(stderr) > 2500 {
			f.StderrHead = stderr[:2500]
		}
	}
	f.Trail, f.Seed = c.Trail, c.SeedDesc
	if f.Trail == nil {
		f.Trail = []string{}
	}
	f.CaseE, f.CaseK = c.E, c.K
	f.Case = c.explicit()
	f.OSRelease = f.Case.OSReleaseB64
	if c.HasOSRel {
		f.OSReleaseStr = quotePrefix(c.OSRel, 200) + " (" + c.OSLabel + ")"
	}
}

// mandatory is the length of the deterministic prefix of extractor i's case list.
func (p *parent) mandatory(i int) int64 {
	x := p.w.Exts[i]
	lim := int64(len(x.Det) + len(x.Sys))
	if p.maxCases > 0 && lim > p.maxCases {
		lim = p.maxCases
	}
	return lim
}

func (p *parent) batch(s *extStats) int64 {
	n := int64(16)
	if s.Calls > 0 {
		avg := s.SpentUS/s.Calls + 60
		n = 150_000 / avg // about 150 ms of work per batch
		if n < 2 {
			n = 2
		}
		if n > 96 {
			n = 96
		}
	}
	return n
}

func (p *parent) pick() (e int, k0, n int64, ok bool) {
	p.mu.Lock()
	defer p.mu.Unlock()
	best := -1
	var bestCost int64
	// phase 1, not subject to the wall-clock budget: the deterministic prefix of every extractor's case list
	// (unmutated seeds, then the systematic pass) is handed out completely
	if !p.sysHandedOut {
		for i, s := range p.st {
			lim := p.mandatory(i)
			if s.nextK >= lim || (p.only != nil && !p.only[p.w.Exts[i].Name]) {
				continue
			}
			cost := s.SpentUS + s.nextK*50
			if best < 0 || cost < bestCost {
				best, bestCost = i, cost
			}
		}
		if best >= 0 {
			s := p.st[best]
			n = p.batch(s)
			if lim := p.mandatory(best); s.nextK+n > lim {
				n = lim - s.nextK
			}
			k0 = s.nextK
			s.nextK += n
			s.inflight++
			return best, k0, n, true
		}
		p.sysHandedOut = true
		p.sysHandoutS = time.Since(p.t0).Seconds()
		// the random phase keeps at least 40% of its budget however long phase 1 took
		if d := time.Now().Add(p.budget * 2 / 5); d.After(p.deadline) {
			p.deadline = d
		}
	}
	if time.Now().After(p.deadline) {
		return 0, 0, 0, false
	}
	for pass := 0; pass < 2 && best < 0; pass++ {
		for i, s := range p.st {
			if p.maxCases > 0 && s.nextK >= p.maxCases {
				continue
			}
			if p.only != nil && !p.only[p.w.Exts[i].Name] {
				continue
			}
			if pass == 0 && s.inflight > 0 {
				continue
			}
			// fairness: the extractor that has consumed the least time so far goes next (a call is charged at least 50us)
			cost := s.SpentUS + s.nextK*50
			if best < 0 || cost < bestCost {
				best, bestCost = i, cost
			}
		}
	}
	if best < 0 {
		return 0, 0, 0, false
	}
	s := p.st[best]
	n = p.batch(s)
	if p.maxCases > 0 && s.nextK+n > p.maxCases {
		n = p.maxCases - s.nextK
	}
	k0 = s.nextK
	s.nextK += n
	s.inflight++
	return best, k0, n, true
}

func (p *parent) loop(id int, wg *sync.WaitGroup) {
	defer wg.Done()
	var wp *workerProc
	defer func() {
		if wp != nil {
			wp.quit()
		}
	}()
	for {
		e, k0, n, ok := p.pick()
		if !ok {
			return
		}
		k, end := k0, k0+n
		for k < end {
			if wp == nil {
				var err error
				wp, err = spawnWorker(p.cfg)
				if err != nil {
					p.mu.Lock()
					p.harnessErrors = append(p.harnessErrors, "spawn: "+err.Error())
					p.st[e].inflight--
					p.mu.Unlock()
					return
				}
			}
			req := fmt.Sprintf("G %d %d %d\n", e, k, end-k)
			done, _, curK, oc := supervise(wp, req, end-k, p.cfg.Timeout, func(r *Result) {
				p.record(r)
				if r.Out == "panic" {
					p.onPanic(r)
				}
				p.maybeSample(r)
			})
			if oc == nil {
				k += done
				break
			}
			// the worker is gone (killed by the watchdog, or died)
			if oc.Kind != "timeout" {
				wp.kill(false)
			}
			wp = nil
			p.mu.Lock()
			p.restarts++
			p.mu.Unlock()
			if oc.Kind == "recycle" {
				p.mu.Lock()
				p.recycles++
				p.restarts--
				p.mu.Unlock()
				k += done
				continue
			}
			if oc.Kind == "unattributed_death" {
				// a goroutine left behind by an earlier call crashed the process: real, but no single input can be blamed
				p.mu.Lock()
				if len(p.unattributed) < 50 {
					head := oc.Stderr
					if len(head) > 2500 {
						head = head[:2500]
					}
					p.unattributed = append(p.unattributed, map[string]any{"message": oc.Msg, "top_frame": oc.Top, "stack": oc.Stack,
						"batch_extractor": p.w.Exts[e].Name, "last_finished_case_index": k + done - 1, "worker_stderr_head": head})
				}
				p.nUnattributed++
				p.mu.Unlock()
				k += done
				continue
			}
			if oc.Kind == "harness_error" || curK < 0 {
				p.mu.Lock()
				if len(p.harnessErrors) < 20 {
					p.harnessErrors = append(p.harnessErrors, oc.Msg)
				}
				p.mu.Unlock()
				k += done + 1
				continue
			}
			c := p.w.genCase(e, curK)
			p.mu.Lock()
			s := p.st[e]
			s.Calls++
			s.SpentUS += p.cfg.Timeout.Microseconds()
			if oc.Kind == "timeout" {
				s.Timeouts++
			} else {
				s.WorkerDeaths++
				s.SpentUS -= p.cfg.Timeout.Microseconds() / 2
			}
			if c.NotReq {
				s.NotReq++
			}
			s.src[c.Src]++
			s.paths[c.Path]++
			s.seeds[c.SeedIdx]++
			for _, op := range c.Ops {
				p.opHist[op]++
			}
			p.sizeHist[sizeBucket(len(c.Data))]++
			h := c.sha()
			p.markSeen(s, hex.EncodeToString(h[:]), true)
			p.mu.Unlock()
			p.addFinding(oc.Kind, c, oc.Msg, oc.Stack, oc.Top, "Extract", oc.Stderr)
			k = curK + 1 // restart after that index
		}
		p.mu.Lock()
		p.st[e].inflight--
		p.mu.Unlock()
	}
}

func (p *parent) onPanic(r *Result) {
	key := p.w.Exts[r.E].Name + "|panic|" + r.Top
	p.mu.Lock()
	f, ok := p.findings[key]
	if ok && r.Size >= f.InputSize {
		f.Count++
		p.mu.Unlock()
		return
	}
	p.mu.Unlock()
	c := p.w.genCase(r.E, r.K)
	p.addFinding("panic", c, r.Msg, r.Stack, r.Top, r.Where, "")
}

func (p *parent) maybeSample(r *Result) {
	p.mu.Lock()
	want := p.sampleAt[[2]int64{int64(r.E), r.K}]
	p.mu.Unlock()
	if !want {
		return
	}
	c := p.w.genCase(r.E, r.K)
	s := map[string]any{"extractor": c.Ext, "case_index": c.K, "path": c.Path, "seed_file": c.SeedDesc, "seed_source": c.Src,
		"mutation_trail": c.Trail, "input_size": len(c.Data), "input_prefix": quotePrefix(c.Data, 160), "input_sha256": r.Sha,
		"outcome": r.Out, "packages": r.NPkgs, "file_required": r.FileReq, "duration_us": r.DurUS}
	if r.Err != "" {
		s["error"] = r.Err
	}
	if r.Msg != "" {
		s["panic"] = r.Msg
	}
	if c.HasOSRel {
		s["os_release"] = quotePrefix(c.OSRel, 80) + " (" + c.OSLabel + ")"
	} else if p.w.Exts[c.E].OSRel {
		s["os_release"] = "absent"
	}
	p.mu.Lock()
	p.samples = append(p.samples, s)
	p.mu.Unlock()
}

// ------------------------------------------------------------------ minimisation (bounded effort)
func sameFailure(oc *Outcome, f *Finding) bool {
	return oc.Kind == f.Kind && oc.Top == f.TopFrame
}

func (p *parent) minimize(f *Finding, wpp **workerProc, until time.Time, maxAttempts int) {
	data, _ := base64.StdEncoding.DecodeString(f.Case.InputB64)
	var osrel []byte
	hasOS := f.Case.OSReleaseB64 != nil
	if hasOS {
		osrel, _ = base64.StdEncoding.DecodeString(*f.Case.OSReleaseB64)
	}
	attempts := 0
	run := func(d []byte, o []byte, has bool) *Outcome {
		attempts++
		x := *f.Case
		x.InputB64 = base64.StdEncoding.EncodeToString(d)
		x.OSReleaseB64 = nil
		if has {
			s := base64.StdEncoding.EncodeToString(o)
			x.OSReleaseB64 = &s
		}
		return runExplicit(p.cfg, wpp, &x)
	}
	try := func(d []byte, o []byte, has bool) bool {
		if attempts >= maxAttempts || time.Now().After(until) {
			return false
		}
		return sameFailure(run(d, o, has), f)
	}
	// confirmation (always executed, whatever the minimisation budget): the finding must reproduce from its explicit form
	oc := run(data, osrel, hasOS)
	if oc.Kind != f.Kind || (f.TopFrame != "" && oc.Top != f.TopFrame) {
		f.MinAttempts = attempts
		f.ConfirmNote = fmt.Sprintf("re-run from its explicit form gave %s (top frame %q) instead of %s (top frame %q): non-deterministic, or depends on worker state",
			oc.Kind, oc.Top, f.Kind, f.TopFrame)
		return
	}
	f.Confirmed = true
	if f.TopFrame == "" && oc.Top != "" { // the first observation had no usable stack (e.g. the runtime died in a GC worker)
		f.TopFrame, f.Stack = oc.Top, oc.Stack
		if oc.Msg != "" {
			f.Message = oc.Msg
		}
	}
	if hasOS && try(data, nil, false) {
		hasOS, osrel = false, nil
	}
	shrink := func(b []byte, test func([]byte) bool) []byte {
		if len(b) > 0 && test(nil) {
			return []byte{}
		}
		// prefixes first (cheap, large steps), then chunk deletion
		for cut := len(b) / 2; cut >= 1 && len(b) > 1; cut /= 2 {
			for len(b) > cut && test(b[:len(b)-cut]) {
				b = b[:len(b)-cut]
			}
			if attempts >= maxAttempts || time.Now().After(until) {
				return b
			}
		}
		for chunk := len(b) / 2; chunk >= 1; chunk /= 2 {
			for off := 0; off+chunk <= len(b); {
				cand := append(append([]byte(nil), b[:off]...), b[off+chunk:]...)
				if test(cand) {
					b = cand
				} else {
					off += chunk
				}
				if attempts >= maxAttempts || time.Now().After(until) {
					return b
				}
			}
		}
		return b
	}
	if hasOS {
		osrel = shrink(osrel, func(o []byte) bool { return try(data, o, true) })
	}
	data = shrink(data, func(d []byte) bool { return try(d, osrel, hasOS) })
	f.MinAttempts = attempts
	if len(data) < f.InputSize || (f.Case.OSReleaseB64 != nil && !hasOS) || hasOS {
		c, err := p.w.fromExplicit(f.Case)
		if err != nil {
			return
		}
		c.Data, c.HasOSRel, c.OSRel = data, hasOS, osrel
		h := c.sha()
		f.Minimized = len(data) < f.InputSize
		f.InputSize = len(data)
		f.InputSha256 = hex.EncodeToString(h[:])
		f.InputPrefix = quotePrefix(data, 240)
		f.Case = c.explicit()
		f.OSRelease = f.Case.OSReleaseB64
		f.OSReleaseStr = ""
		if hasOS {
			f.OSReleaseStr = quotePrefix(osrel, 200)
		}
	}
}

// ------------------------------------------------------------------ run
func runParent(cfg *Config, workers int, budget time.Duration, maxCases int64, outFile, findingsDir string, minimizeBudget time.Duration, only string) int {
	t0 := time.Now()
	w := newWorld(cfg.Repo, cfg.C03Dir, cfg.Seed)
	if len(w.OwnAll) == 0 {
		fmt.Fprintln(os.Stderr, "no fixture seeds found below", cfg.Repo)
		return 2
	}
	p := &parent{cfg: cfg, w: w, findings: map[string]*Finding{}, sizeHist: map[string]int64{}, maxCases: maxCases,
		deadline: t0.Add(budget), sampleAt: map[[2]int64]bool{}, findingsDir: findingsDir, budget: budget, t0: t0}
	if only != "" {
		p.only = map[string]bool{}
		for _, n := range strings.Split(only, ",") {
			p.only[n] = true
		}
	}
	for range w.Exts {
		p.st = append(p.st, &extStats{seen: map[[16]byte]uint8{}, seeds: map[int]int{}, paths: map[string]int{}, src: map[string]int{}})
	}
	// a handful of sample cases, spread over the extractors: the second mutated case of every 6th extractor
	for i := 0; i < len(w.Exts); i += 6 {
		p.sampleAt[[2]int64{int64(i), int64(len(w.Exts[i].Det)+len(w.Exts[i].Sys)) + 1}] = true
	}
	setup := time.Since(t0)
	var wg sync.WaitGroup
	for i := 0; i < workers; i++ {
		wg.Add(1)
		go p.loop(i, &wg)
	}
	wg.Wait()
	fuzzWall := time.Since(t0)
	// minimise + write findings
	if findingsDir != "" {
		_ = os.MkdirAll(findingsDir, 0o755)
	}
	var fl []*Finding
	for _, k := range p.order {
		fl = append(fl, p.findings[k])
	}
	// timeouts are candidates only: each is re-run alone, one after the other, in a fresh worker (runIsolated: CPU time of
	// the worker, generous wall-clock deadline). A call that was merely slow on a loaded machine is told apart from a hang
	// and counted as load-induced.
	var cwg sync.WaitGroup
	sem := make(chan struct{}, 1)
	loadInduced := 0
	for _, f := range fl {
		if f.Kind != "timeout" {
			continue
		}
		cwg.Add(1)
		go func(f *Finding) {
			defer cwg.Done()
			sem <- struct{}{}
			defer func() { <-sem }()
			oc := runIsolated(cfg, f.Case)
			if oc.Kind == "timeout" {
				f.Confirmed = true
				f.ConfirmNote = oc.Msg
				if f.TopFrame == "" && oc.Top != "" {
					f.TopFrame, f.Stack = oc.Top, oc.Stack
				}
			} else {
				loadInduced += f.Count
				f.ConfirmNote = "load-induced: re-run alone returned: " + oc.Kind
				if oc.Res != nil {
					f.ConfirmNote += fmt.Sprintf(" after %d ms", oc.Res.DurUS/1000)
				}
			}
		}(f)
	}
	cwg.Wait()
	var mwp *workerProc
	until := time.Now().Add(minimizeBudget)
	for i, f := range fl {
		if f.Kind == "timeout" {
			continue // every attempt would cost a full deadline; the input is reported as found
		}
		share := time.Until(until) / time.Duration(len(fl)-i)
		att := 120
		if f.Kind == "worker_death" {
			att = 12
		}
		p.minimize(f, &mwp, time.Now().Add(share), att)
	}
	if mwp != nil {
		mwp.quit()
	}
	for _, f := range fl {
		if findingsDir != "" {
			data, _ := base64.StdEncoding.DecodeString(f.Case.InputB64)
			f.InputFile = filepath.Join(findingsDir, f.InputSha256+".bin")
			_ = os.WriteFile(f.InputFile, data, 0o644)
		}
	}
	// output
	per := map[string]any{}
	var engTot, engPk int64
	var tot struct{ calls, ok, okp, errs, panics, timeouts, deaths, distinct, nontrivial, notreq int64 }
	for i, e := range w.Exts {
		s := p.st[i]
		tot.calls += s.Calls
		tot.ok += s.OK
		tot.okp += s.OKWithPkgs
		tot.errs += s.Errors
		tot.panics += s.Panics
		tot.timeouts += s.Timeouts
		tot.deaths += s.WorkerDeaths
		tot.distinct += s.Distinct
		tot.nontrivial += s.Nontrivial
		tot.notreq += s.NotReq
		engTot += s.EngineRuns
		engPk += s.EngineWithPkgs
		var paths []string
		for _, a := range e.Accepted {
			paths = append(paths, a.Path)
		}
		per[e.Name] = map[string]any{
			"calls": s.Calls, "ok": s.OK, "ok_with_packages": s.OKWithPkgs, "errors": s.Errors, "panics": s.Panics, "timeouts": s.Timeouts,
			"worker_deaths": s.WorkerDeaths, "distinct_inputs": s.Distinct, "nontrivial": s.Nontrivial,
			"path_not_required": s.NotReq, "file_required_false_at_call": s.FileReqFalse, "engine_runs": s.EngineRuns, "engine_runs_with_packages": s.EngineWithPkgs,
			"seeds":             map[string]int{"own_fixtures": len(e.Own), "c03_generated": len(e.C03), "synthetic": len(w.Synth), "cross_pool": len(w.OwnAll) - len(e.Own)},
			"seed_source_calls": s.src, "unmutated_seed_cases": len(e.Det),
			"systematic_cases": map[string]int{"seeds": e.SysStat.Seeds, "structured_seeds": e.SysStat.Structured, "value_edits": e.SysStat.Value, "line_edits": e.SysStat.Line, "zip_seeds": e.SysStat.Zips, "archive_edits": e.SysStat.Zip, "run": int(minI64(s.nextK, int64(len(e.Det)+len(e.Sys)))) - len(e.Det)}, "accepted_paths": paths, "paths_used": s.paths, "distinct_seed_files_used": len(s.seeds), "cpu_s": round3(float64(s.SpentUS) / 1e6),
			"slow_calls_over_1s": s.SlowCalls, "calls_leaving_goroutines_behind": s.LeakCalls, "max_call_ms": s.MaxUS / 1000, "package_dir": e.PkgDir, "requirements": e.Reqs,
			"os_release_varied": e.OSRel, "materialised_on_disk": e.DirectFS,
		}
	}
	sysTot := map[string]any{}
	{
		var ex, seeds, st, val, line, det, zips, zed int
		complete := true
		for i, e := range w.Exts {
			if len(e.Sys) > 0 {
				ex++
			}
			seeds += e.SysStat.Seeds
			st += e.SysStat.Structured
			val += e.SysStat.Value
			line += e.SysStat.Line
			zips += e.SysStat.Zips
			zed += e.SysStat.Zip
			det += len(e.Det)
			if (p.only == nil || p.only[e.Name]) && p.st[i].nextK < p.mandatory(i) {
				complete = false
			}
		}
		sysTot = map[string]any{"what": "deterministic prefix run completely before the time-budgeted random phase (fixed iteration count, no deadline except the per-call one): " +
			"unmutated seeds, then per text extractor the small seeds (<= 8 KiB, <= 6 per extractor) x {every string leaf of a JSON/TOML/YAML seed x separator-aware rewrites (<= 400 per seed), " +
			"every line x case / truncation / continuation / cut edits (<= 300 per seed)}; zip seeds (<= 64 KiB): every member x {emptied, deleted, duplicated, halved, renamed, empty twin in front}, every line of every text member x {deleted, value cut, key cut, separator dropped, lower-cased, end of member after / inside it} (<= 400 per seed), re-packed as a valid archive",
			"extractors_with_systematic_cases": ex, "seeds": seeds, "structured_seeds": st, "value_edit_cases": val, "line_edit_cases": line, "zip_seeds": zips, "archive_edit_cases": zed,
			"unmutated_seed_cases": det, "handed_out_completely": complete, "handout_finished_after_s": round3(p.sysHandoutS)}
	}
	ops := map[string]int64{}
	for i, n := range p.opHist {
		ops[opNames[i]] = n
	}
	sort.Slice(p.samples, func(i, j int) bool {
		return fmt.Sprint(p.samples[i]["extractor"]) < fmt.Sprint(p.samples[j]["extractor"])
	})
	wall := time.Since(t0)
	out := map[string]any{
		"kind":               "fuzz search (recover-and-watchdog harness); NOT a proof: absence of findings means none were found among the calls made",
		"seed":               cfg.Seed,
		"repo":               cfg.Repo,
		"workers":            workers,
		"timeout_s":          cfg.Timeout.Seconds(),
		"memlimit_mib":       cfg.MemMiB,
		"budget_s":           budget.Seconds(),
		"systematic_pass":    sysTot,
		"load_induced_timeouts": loadInduced,
		"timeout_rule": fmt.Sprintf("a deadline hit (%s) during the run is a candidate; it is reported as a hang only if the same input, run alone in a fresh worker after the run, "+
			"makes the worker burn more than %s of CPU (utime+stime from /proc) or does not return within %s", cfg.Timeout, cfg.Timeout*12/10, 10*cfg.Timeout),
		"result_validation": map[string]any{"what": "after every Extract call that returned, the result is consumed the way filesystem.runExtractor does (nil *Package elements are a finding; " +
			"Extractor / Locations of every package are written, the inventory is appended); every case of the deterministic prefix and every 16th random case of the extractors " +
			"that work on an in-memory file system is additionally run through filesystem.Run (real walk + runExtractor) inside the same recover / watchdog window",
			"calls_through_filesystem_Run": engTot, "of_which_reported_packages": engPk},
		"extractors_fuzzed":  len(w.Exts),
		"skipped_extractors": w.Skipped,
		"per_extractor":      per,
		"total": map[string]any{"calls": tot.calls, "ok": tot.ok, "ok_with_packages": tot.okp, "errors": tot.errs, "panics": tot.panics,
			"timeouts": tot.timeouts, "worker_deaths": tot.deaths, "distinct_inputs": tot.distinct, "nontrivial": tot.nontrivial,
			"path_not_required": tot.notreq},
		"wall_s":                            round3(wall.Seconds()),
		"setup_s":                           round3(setup.Seconds()),
		"fuzz_wall_s":                       round3(fuzzWall.Seconds()),
		"calls_per_second":                  round3(float64(tot.calls) / fuzzWall.Seconds()),
		"worker_restarts":                   p.restarts,
		"harness_errors":                    p.harnessErrors,
		"unattributed_worker_deaths":        p.nUnattributed,
		"unattributed_worker_death_samples": p.unattributed,
		"seed_files":                        w.SeedCount,
		"mutation_histogram":                ops,
		"input_size_histogram":              p.sizeHist,
		"samples":                           p.samples,
		"findings":                          fl,
		"nontrivial_rule": "distinct by (extractor, SHA-256 of the input bytes; 128-bit prefix used as set key); non-trivial = the input differs from every seed file " +
			"(by SHA-256) and the call reached the parser: Extract returned >= 1 package or a non-nil error (or panicked / hung / killed the worker)",
	}
	if fl == nil {
		out["findings"] = []any{}
	}
	b, _ := json.MarshalIndent(out, "", " ")
	if outFile != "" {
		if err := os.WriteFile(outFile, b, 0o644); err != nil {
			fmt.Fprintln(os.Stderr, err)
			return 2
		}
	} else {
		os.Stdout.Write(b)
		fmt.Println()
	}
	fmt.Printf("fuzzextract (search, not proof): extractors=%d skipped=%d calls=%d (%.0f/s) distinct=%d nontrivial=%d panics=%d timeouts=%d worker_deaths=%d findings=%d wall=%.1fs\n",
		len(w.Exts), len(w.Skipped), tot.calls, float64(tot.calls)/fuzzWall.Seconds(), tot.distinct, tot.nontrivial, tot.panics, tot.timeouts, tot.deaths, len(fl), wall.Seconds())
	for _, s := range w.Skipped {
		fmt.Printf("skipped: %s: %s\n", s.Name, s.Reason)
	}
	for _, f := range fl {
		in := f.InputPrefix
		if len(in) > 120 {
			in = in[:120] + "..."
		}
		fmt.Printf("finding: %s %s x%d confirmed=%v top=%s msg=%s size=%d input=%s\n", f.Extractor, f.Kind, f.Count, f.Confirmed, f.TopFrame,
			strings.SplitN(f.Message, "\n", 2)[0], f.InputSize, in)
	}
	if p.nUnattributed > 0 {
		fmt.Printf("unattributed worker deaths (between calls): %d (first: %v top=%v)\n", p.nUnattributed, p.unattributed[0]["message"], p.unattributed[0]["top_frame"])
	}
	if len(p.harnessErrors) > 0 {
		fmt.Printf("harness errors: %d (first: %s)\n", len(p.harnessErrors), p.harnessErrors[0])
	}
	return 0
}

func round3(x float64) float64 { return float64(int64(x*1000+0.5)) / 1000 }

// ------------------------------------------------------------------ replay
func runReplay(cfg *Config, file string) int {
	b, err := os.ReadFile(file)
	if err != nil {
		fmt.Println("replay:", err)
		return 2
	}
	var wrap struct {
		Case *ExplicitCase `json:"case"`
	}
	if err := json.Unmarshal(b, &wrap); err != nil || wrap.Case == nil {
		fmt.Println("replay: no {\"case\": {...}} object in", file, err)
		return 2
	}
	x := wrap.Case
	data, _ := base64.StdEncoding.DecodeString(x.InputB64)
	fmt.Printf("extractor: %s\npath: %s\ninput (%d bytes): %s\n", x.Extractor, x.Path, len(data), quotePrefix(data, 400))
	if x.OSReleaseB64 != nil {
		o, _ := base64.StdEncoding.DecodeString(*x.OSReleaseB64)
		fmt.Printf("etc/os-release (%d bytes): %s\n", len(o), quotePrefix(o, 400))
	}
	var wp *workerProc
	oc := runIsolated(cfg, x)
	if wp != nil {
		wp.quit()
	}
	fmt.Printf("implementation: %s\n", oc.Kind)
	if oc.Res != nil {
		fmt.Printf("packages: %d\nfile_required: %v\nduration_us: %d\n", oc.Res.NPkgs, oc.Res.FileReq, oc.Res.DurUS)
		if oc.Res.Err != "" {
			fmt.Printf("error: %s\n", oc.Res.Err)
		}
	}
	if oc.Msg != "" {
		fmt.Printf("message: %s\n", oc.Msg)
	}
	if oc.Top != "" {
		fmt.Printf("top_frame: %s\n", oc.Top)
	}
	for _, fr := range oc.Stack {
		fmt.Printf("  at %s\n", fr)
	}
	if oc.Kind == "harness_error" {
		return 2
	}
	return 0
}

func minI64(a, b int64) int64 {
	if a < b {
		return a
	}
	return b
}

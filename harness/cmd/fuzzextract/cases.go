package main

import (
	"crypto/sha256"
	"fmt"
	"io/fs"
	"path/filepath"
	"strings"
)

// World is everything the (deterministic) case list is derived from: identical in parent and workers.
type World struct {
	Seed      int64
	Seeds     []*Seed
	SeedCount map[string]int
	Exts      []*Ext
	ExtByName map[string]int
	Skipped   []Skipped
	SeedHash  map[[32]byte]bool
	OwnAll    []int // all fixture seeds (for cross-feeding)
	Synth     []int
}

func newWorld(repo, c03dir string, seed int64) *World {
	w := &World{Seed: seed, ExtByName: map[string]int{}, SeedHash: map[[32]byte]bool{}}
	w.Seeds, w.SeedCount = loadSeeds(repo, c03dir)
	for i, s := range w.Seeds {
		w.SeedHash[s.Sha] = true
		switch s.Kind {
		case "own":
			w.OwnAll = append(w.OwnAll, i)
		case "synthetic":
			w.Synth = append(w.Synth, i)
		}
	}
	w.Exts, w.Skipped = setupExtractors(w.Seeds)
	w.buildSys()
	for i, e := range w.Exts {
		w.ExtByName[e.Name] = i
	}
	return w
}

// Case is one Extract call.
type Case struct {
	E        int
	K        int64
	Ext      string
	Path     string
	Mode     fs.FileMode
	Data     []byte
	HasOSRel bool
	OSRel    []byte
	OSLabel  string
	Siblings map[string][]byte // extra files next to the input (containerd snapshotter db)
	Trail    []string
	Ops      []int
	SeedDesc string
	SeedIdx  int
	Src      string // own | c03 | synthetic | cross | random
	NotReq   bool   // no path accepted by FileRequired is known for this extractor/seed
	Mutated  bool
}

func (c *Case) sha() [32]byte { return sha256.Sum256(c.Data) }

const containerdSnapshotDB = "var/lib/containerd/io.containerd.snapshotter.v1.overlayfs/metadata.db"

// genCase derives case k of extractor e from the seed. k < len(Det): the unmutated seeds, once each.
func (w *World) genCase(e int, k int64) *Case {
	x := w.Exts[e]
	if nd := int64(len(x.Det)); k >= nd && k < nd+int64(len(x.Sys)) {
		return w.genSysCase(e, k, x.Sys[k-nd])
	}
	r := caseRand(w.Seed, e, k)
	c := &Case{E: e, K: k, Ext: x.Name, Mode: 0o644}
	var seed *Seed
	var si int
	if k < int64(len(x.Det)) {
		si = x.Det[k]
		seed = w.Seeds[si]
		c.Src = seed.Kind
	} else {
		roll := r.Intn(100)
		switch {
		case roll < 45 && len(x.Own) > 0:
			si, c.Src = x.Own[r.Intn(len(x.Own))], "own"
		case roll < 65 && len(x.C03) > 0:
			si, c.Src = x.C03[r.Intn(len(x.C03))], "c03"
		case roll < 65 && len(x.Own) > 0:
			si, c.Src = x.Own[r.Intn(len(x.Own))], "own"
		case roll < 71:
			si, c.Src = w.Synth[r.Intn(len(w.Synth))], "synthetic"
		case roll < 92 || len(x.Own) == 0:
			si, c.Src = w.OwnAll[r.Intn(len(w.OwnAll))], "cross"
			if w.Seeds[si].Owner == x.PkgDir {
				c.Src = "own"
			}
		case roll < 95:
			si, c.Src = -1, "random"
		default:
			si, c.Src = x.Own[r.Intn(len(x.Own))], "own"
		}
		if si >= 0 {
			seed = w.Seeds[si]
		}
	}
	binary := false
	c.SeedIdx = -1
	if seed != nil {
		c.SeedIdx = si
		c.Data = seed.Data
		c.SeedDesc = seed.desc()
		binary = seed.Binary
	} else {
		n := r.Intn(64)
		c.Data = make([]byte, n)
		for i := range c.Data {
			c.Data[i] = byte(r.Intn(256))
		}
		c.SeedDesc = fmt.Sprintf("random-bytes(%d)", n)
		binary = true
	}
	// path
	if ps, ok := x.OwnPath[si]; ok && seed != nil && c.Src == "own" && (k < int64(len(x.Det)) || r.Intn(100) < 85) {
		c.Path, c.Mode = ps.Path, ps.Mode
		c.NotReq = x.OwnNotRq[si]
	} else if len(x.Accepted) > 0 {
		ps := x.Accepted[0]
		if seed != nil && seed.Kind == "c03" {
			ps = PathSpec{seed.Rel, 0o644}
		} else if k >= int64(len(x.Det)) && r.Intn(2) == 0 {
			ps = x.Accepted[r.Intn(len(x.Accepted))]
		} else if seed != nil {
			// unmutated synthetic seeds: vary the accepted path with k so that every format of a multi-format extractor is visited
			ps = x.Accepted[int(k)%len(x.Accepted)]
		}
		c.Path, c.Mode = ps.Path, ps.Mode
	} else {
		c.NotReq = true
		if seed != nil && seed.Kind != "synthetic" {
			c.Path = seed.Rel
		} else {
			c.Path = "file"
		}
	}
	// mutations
	if k >= int64(len(x.Det)) {
		nm := 1 + r.Intn(4)
		if c.Src == "cross" && r.Intn(3) == 0 {
			nm = 0 // wrong-format input as is
		}
		if c.Src == "random" {
			nm = r.Intn(2)
		}
		other := func() []byte {
			if len(x.Own) > 0 && r.Intn(2) == 0 {
				return w.Seeds[x.Own[r.Intn(len(x.Own))]].Data
			}
			return w.Seeds[w.OwnAll[r.Intn(len(w.OwnAll))]].Data
		}
		for i := 0; i < nm; i++ {
			var op int
			var d string
			c.Data, op, d = mutateOnce(r, c.Data, binary, other)
			c.Ops = append(c.Ops, op)
			c.Trail = append(c.Trail, d)
			if len(c.Data) > maxInputSize {
				c.Data = c.Data[:maxInputSize]
				c.Trail = append(c.Trail, "cap-4MiB")
			}
			if op == opValueEdit && strings.HasPrefix(d, "value-edit(") && !strings.HasPrefix(d, "value-edit(raw") && r.Intn(3) != 0 {
				// keep the document well-formed so that the edited value reaches the code that interprets it
				break
			}
		}
		c.Mutated = nm > 0
	}
	// environment
	if x.OSRel {
		if k < int64(len(x.Det)) {
			c.OSRel, c.HasOSRel, c.OSLabel = []byte(validOSReleases[int(k)%len(validOSReleases)]), true, fmt.Sprintf("valid#%d", int(k)%len(validOSReleases))
		} else {
			c.OSRel, c.HasOSRel, c.OSLabel = osRelease(r)
		}
	}
	if x.DirectFS && strings.HasSuffix(c.Path, "meta.db") && k >= int64(len(x.Det)) && r.Intn(2) == 0 {
		// containerd also opens the overlayfs snapshotter database next to meta.db
		var cands []int
		for _, i := range x.Own {
			if strings.HasPrefix(w.Seeds[i].Base, "metadata") {
				cands = append(cands, i)
			}
		}
		if len(cands) > 0 {
			s := w.Seeds[cands[r.Intn(len(cands))]]
			d := s.Data
			label := "sibling " + s.Base
			if r.Intn(2) == 0 {
				var md string
				d, _, md = mutateOnce(r, d, true, func() []byte { return s.Data })
				label += " | " + md
			}
			c.Siblings = map[string][]byte{containerdSnapshotDB: d}
			c.Trail = append(c.Trail, label)
		}
	}
	return c
}

func base(p string) string { return filepath.Base(p) }

package main

import (
	"bytes"
	"encoding/json"
	"fmt"
	"math/rand"
	"strings"

	"github.com/BurntSushi/toml"
	"gopkg.in/yaml.v3"
)

const valueSeps = "/@:#=,; "

// sepEdit rewrites a string value around its separators: the code under test usually splits such values
// (name/version@user/channel, scheme:rest, key=value ...) and indexes the parts.
func sepEdit(r *rand.Rand, s string) string {
	var idx []int
	for i := 0; i < len(s); i++ {
		if strings.IndexByte(valueSeps, s[i]) >= 0 {
			idx = append(idx, i)
		}
	}
	switch k := r.Intn(10); {
	case k == 0:
		return ""
	case k == 1:
		return []string{"@/", "/", "@", ":#", "#", "=", "//", "@@", ":", "/@", " ", "%"}[r.Intn(12)]
	case len(idx) == 0:
		return s + string(valueSeps[r.Intn(len(valueSeps))]) + []string{"", "x", s}[r.Intn(3)]
	}
	i := idx[r.Intn(len(idx))]
	switch r.Intn(8) {
	case 0:
		return s[i:] // part before the separator removed, separator kept
	case 1:
		return s[i+1:] // part before and the separator removed
	case 2:
		return s[:i+1] // part after removed, separator kept
	case 3:
		return s[:i] // part after and the separator removed
	case 4:
		return s[:i] + string(s[i]) + s[i:] // separator duplicated
	case 5: // two separators swapped
		j := idx[r.Intn(len(idx))]
		b := []byte(s)
		b[i], b[j] = b[j], b[i]
		return string(b)
	case 6: // separator replaced by another one
		b := []byte(s)
		b[i] = valueSeps[r.Intn(len(valueSeps))]
		return string(b)
	default: // the segment after the separator emptied up to the next separator
		j := len(s)
		for _, x := range idx {
			if x > i {
				j = x
				break
			}
		}
		return s[:i+1] + s[j:]
	}
}

type strRef struct {
	get func() string
	set func(string)
}

func collectJSON(v any, set func(any), out *[]strRef) {
	switch x := v.(type) {
	case string:
		*out = append(*out, strRef{func() string { return x }, func(s string) { set(s) }})
	case []any:
		for i := range x {
			i := i
			collectJSON(x[i], func(n any) { x[i] = n }, out)
		}
	case map[string]any:
		for k := range x {
			k := k
			collectJSON(x[k], func(n any) { x[k] = n }, out)
			// the key itself is a string leaf too
			*out = append(*out, strRef{func() string { return k }, func(s string) {
				if _, dup := x[s]; !dup {
					x[s] = x[k]
					delete(x, k)
				}
			}})
		}
	}
}

func collectYAML(n *yaml.Node, out *[]strRef) {
	if n.Kind == yaml.ScalarNode {
		*out = append(*out, strRef{func() string { return n.Value }, func(s string) { n.Value = s; n.Style = yaml.DoubleQuotedStyle; n.Tag = "!!str" }})
	}
	for _, c := range n.Content {
		collectYAML(c, out)
	}
}

func valueEdit(r *rand.Rand, b []byte) ([]byte, string, bool) {
	trimmed := bytes.TrimSpace(b)
	if len(trimmed) == 0 || len(b) > 1<<20 {
		return nil, "", false
	}
	var refs []strRef
	var render func() ([]byte, error)
	kind := ""
	if trimmed[0] == '{' || trimmed[0] == '[' {
		var v any
		if json.Unmarshal(b, &v) == nil {
			root := v
			collectJSON(root, func(n any) { root = n }, &refs)
			render = func() ([]byte, error) { return json.MarshalIndent(root, "", " ") }
			kind = "json"
		}
	}
	if kind == "" && len(b) <= 8<<10 {
		// size caps: the TOML decoder is quadratic on some inputs (see the known findings); the mutator runs without a watchdog
		var m map[string]any
		if _, err := toml.Decode(string(b), &m); err == nil && len(m) > 0 {
			var root any = m
			collectJSON(root, func(n any) {}, &refs)
			render = func() ([]byte, error) {
				var buf bytes.Buffer
				err := toml.NewEncoder(&buf).Encode(m)
				return buf.Bytes(), err
			}
			kind = "toml"
		}
	}
	if kind == "" && len(b) <= 256<<10 {
		var n yaml.Node
		if yaml.Unmarshal(b, &n) == nil && len(n.Content) > 0 && n.Content[0].Kind != yaml.ScalarNode {
			collectYAML(&n, &refs)
			render = func() ([]byte, error) { return yaml.Marshal(&n) }
			kind = "yaml"
		}
	}
	if kind == "" || len(refs) == 0 {
		return nil, "", false
	}
	// prefer leaves that contain a separator (three tries)
	ref := refs[r.Intn(len(refs))]
	for t := 0; t < 3 && !strings.ContainsAny(ref.get(), valueSeps); t++ {
		ref = refs[r.Intn(len(refs))]
	}
	old := ref.get()
	nv := sepEdit(r, old)
	var out []byte
	var err error
	func() {
		defer func() {
			if recover() != nil {
				err = fmt.Errorf("encoder panic")
			}
		}()
		ref.set(nv)
		out, err = render()
	}()
	if err != nil {
		return nil, "", false
	}
	if len(old) > 40 {
		old = old[:40]
	}
	if len(nv) > 40 {
		nv = nv[:40]
	}
	return out, fmt.Sprintf("value-edit(%s %q -> %q)", kind, old, nv), true
}

package main

import (
	"bytes"
	"encoding/json"
	"fmt"
	"math/rand"
	"sort"
	"strings"

	"github.com/BurntSushi/toml"
	"gopkg.in/yaml.v3"
)

const valueSeps = "/@:#=,; "

// sepEdit rewrites a string value around its separators: the code under test usually splits such values
// (name/version@user/channel, scheme:rest, key=value ...) and indexes the parts.
func sepEdit(r *rand.Rand, s string) string {
	var idx []int
	for i := 0; i < len(s); i++ {
		if strings.IndexByte(valueSeps, s[i]) >= 0 {
			idx = append(idx, i)
		}
	}
	switch k := r.Intn(10); {
	case k == 0:
		return ""
	case k == 1:
		return []string{"@/", "/", "@", ":#", "#", "=", "//", "@@", ":", "/@", " ", "%"}[r.Intn(12)]
	case len(idx) == 0:
		return s + string(valueSeps[r.Intn(len(valueSeps))]) + []string{"", "x", s}[r.Intn(3)]
	}
	i := idx[r.Intn(len(idx))]
	switch r.Intn(8) {
	case 0:
		return s[i:] // part before the separator removed, separator kept
	case 1:
		return s[i+1:] // part before and the separator removed
	case 2:
		return s[:i+1] // part after removed, separator kept
	case 3:
		return s[:i] // part after and the separator removed
	case 4:
		return s[:i] + string(s[i]) + s[i:] // separator duplicated
	case 5: // two separators swapped
		j := idx[r.Intn(len(idx))]
		b := []byte(s)
		b[i], b[j] = b[j], b[i]
		return string(b)
	case 6: // separator replaced by another one
		b := []byte(s)
		b[i] = valueSeps[r.Intn(len(valueSeps))]
		return string(b)
	default: // the segment after the separator emptied up to the next separator
		j := len(s)
		for _, x := range idx {
			if x > i {
				j = x
				break
			}
		}
		return s[:i+1] + s[j:]
	}
}

type strRef struct {
	get func() string
	set func(string)
}

func collectJSON(v any, set func(any), out *[]strRef) {
	switch x := v.(type) {
	case string:
		*out = append(*out, strRef{func() string { return x }, func(s string) { set(s) }})
	case []any:
		for i := range x {
			i := i
			collectJSON(x[i], func(n any) { x[i] = n }, out)
		}
	case map[string]any:
		keys := make([]string, 0, len(x))
		for k := range x {
			keys = append(keys, k)
		}
		sort.Strings(keys) // the case list must be a function of the seed: no map iteration order
		for _, k := range keys {
			k := k
			collectJSON(x[k], func(n any) { x[k] = n }, out)
			// the key itself is a string leaf too
			*out = append(*out, strRef{func() string { return k }, func(s string) {
				if _, dup := x[s]; !dup {
					x[s] = x[k]
					delete(x, k)
				}
			}})
		}
	}
}

func collectYAML(n *yaml.Node, out *[]strRef) {
	if n.Kind == yaml.ScalarNode {
		*out = append(*out, strRef{func() string { return n.Value }, func(s string) { n.Value = s; n.Style = yaml.DoubleQuotedStyle; n.Tag = "!!str" }})
	}
	for _, c := range n.Content {
		collectYAML(c, out)
	}
}

// structDoc is a parsed JSON / TOML / YAML document with its string leaves (values and map keys) in a fixed order.
type structDoc struct {
	kind   string
	refs   []strRef
	render func() ([]byte, error)
}

func parseStructured(b []byte) *structDoc {
	trimmed := bytes.TrimSpace(b)
	if len(trimmed) == 0 || len(b) > 1<<20 {
		return nil
	}
	d := &structDoc{}
	if trimmed[0] == '{' || trimmed[0] == '[' {
		var v any
		if json.Unmarshal(b, &v) == nil {
			root := v
			collectJSON(root, func(n any) { root = n }, &d.refs)
			d.render = func() ([]byte, error) { return json.MarshalIndent(root, "", " ") }
			d.kind = "json"
		}
	}
	if d.kind == "" && len(b) <= 8<<10 {
		// size caps: the TOML decoder is quadratic on some inputs (see the known findings); the mutator runs without a watchdog
		var m map[string]any
		if _, err := toml.Decode(string(b), &m); err == nil && len(m) > 0 {
			var root any = m
			collectJSON(root, func(n any) {}, &d.refs)
			d.render = func() ([]byte, error) {
				var buf bytes.Buffer
				err := toml.NewEncoder(&buf).Encode(m)
				return buf.Bytes(), err
			}
			d.kind = "toml"
		}
	}
	if d.kind == "" && len(b) <= 256<<10 {
		var n yaml.Node
		if yaml.Unmarshal(b, &n) == nil && len(n.Content) > 0 && n.Content[0].Kind != yaml.ScalarNode {
			collectYAML(&n, &d.refs)
			d.render = func() ([]byte, error) { return yaml.Marshal(&n) }
			d.kind = "yaml"
		}
	}
	if d.kind == "" || len(d.refs) == 0 {
		return nil
	}
	return d
}

// apply sets leaf i to nv and serialises the document (the document is spent afterwards).
func (d *structDoc) apply(i int, nv string) (out []byte, err error) {
	defer func() {
		if recover() != nil {
			err = fmt.Errorf("encoder panic")
		}
	}()
	d.refs[i].set(nv)
	return d.render()
}

func clip40(s string) string {
	if len(s) > 40 {
		return s[:40]
	}
	return s
}

func valueEdit(r *rand.Rand, b []byte) ([]byte, string, bool) {
	d := parseStructured(b)
	if d == nil {
		return nil, "", false
	}
	// prefer leaves that contain a separator (three tries)
	i := r.Intn(len(d.refs))
	for t := 0; t < 3 && !strings.ContainsAny(d.refs[i].get(), valueSeps); t++ {
		i = r.Intn(len(d.refs))
	}
	old := d.refs[i].get()
	nv := sepEdit(r, old)
	out, err := d.apply(i, nv)
	if err != nil {
		return nil, "", false
	}
	return out, fmt.Sprintf("value-edit(%s %q -> %q)", d.kind, clip40(old), clip40(nv)), true
}

var onlySeps = []string{"@/", "/", "@", ":", "#", "=", "//", "@@", ":#", "/@", " ", "%", ",", ";"}

// sepEditsAll enumerates the separator-aware rewrites of s in a fixed order, most telling first: empty, only
// separators, then for every separator occurrence (the first 8) the deletions around it, its duplication, the emptied
// following segment, its replacement by other separators, and swaps of two different separators.
func sepEditsAll(s string) []string {
	seen := map[string]bool{s: true}
	var out []string
	add := func(v string) {
		if !seen[v] {
			seen[v] = true
			out = append(out, v)
		}
	}
	add("")
	for _, v := range onlySeps[:4] {
		add(v)
	}
	var idx []int
	for i := 0; i < len(s) && len(idx) < 8; i++ {
		if strings.IndexByte(valueSeps, s[i]) >= 0 {
			idx = append(idx, i)
		}
	}
	for _, i := range idx {
		add(s[i+1:])
		add(s[:i])
		add(s[i:])
		add(s[:i+1])
		add(s[:i] + string(s[i]) + s[i:])
	}
	for _, v := range onlySeps[4:] {
		add(v)
	}
	for n, i := range idx {
		j := len(s)
		if n+1 < len(idx) {
			j = idx[n+1]
		}
		add(s[:i+1] + s[j:])
	}
	for _, i := range idx {
		for _, j := range idx {
			if i < j && s[i] != s[j] {
				b := []byte(s)
				b[i], b[j] = b[j], b[i]
				add(string(b))
			}
		}
	}
	for _, i := range idx {
		for _, c := range []byte("@/:# ") {
			b := []byte(s)
			b[i] = c
			add(string(b))
		}
	}
	if len(idx) == 0 && len(s) > 0 {
		for _, c := range []byte(valueSeps) {
			add(s + string(c))
			add(string(c) + s)
			add(s + string(c) + s)
		}
	}
	return out
}

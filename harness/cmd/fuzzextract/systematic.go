package main

import (
	"bytes"
	"fmt"
	"sort"
	"unicode"
)

// The systematic pass: a fixed, load-independent list of cases per extractor that is run completely (no wall-clock
// budget, only the per-call deadline) before the random phase.  For each small text seed of the extractor
//   - value edits: every string leaf of the JSON / TOML / YAML document x every separator-aware rewrite (sepEditsAll),
//   - line edits: every line x {case changes, truncations, continuation marks, deletion, duplication, key / value cuts},
// both enumerated edit-rank-major so that a cap keeps the most telling edits of every leaf / line.
const (
	sysMaxSeedSize  = 8 << 10
	sysMaxSeeds     = 6
	sysMaxValue     = 400
	sysMaxLine      = 300
	sysMaxLines     = 120
	sysMaxLeafBytes = 256
	sysValue        = 0
	sysLine         = 1
	sysZip          = 2
	sysMaxZipSize   = 64 << 10
	sysMaxZip       = 400
	sysMaxZipSeeds  = 4
)

type SysCase struct {
	Seed int
	Mode uint8
	A, B int32 // leaf / line index, edit rank
}

type SysStat struct {
	Seeds, Structured, Value, Line, Zips, Zip int
}

const nLineEdits = 14

func splitLinesKeep(b []byte) [][]byte {
	var out [][]byte
	for len(b) > 0 {
		i := bytes.IndexByte(b, '\n')
		if i < 0 {
			out = append(out, b)
			break
		}
		out = append(out, b[:i+1])
		b = b[i+1:]
	}
	return out
}

func lineBody(l []byte) ([]byte, []byte) { // content, end-of-line bytes
	n := len(l)
	if n > 0 && l[n-1] == '\n' {
		n--
		if n > 0 && l[n-1] == '\r' {
			n--
		}
	}
	return l[:n], l[n:]
}

func firstSep(b []byte) int { return bytes.IndexAny(b, ":=@/#,; ") }

// lineEdit applies edit rank e to line i. ok = false: the edit does not apply / changes nothing.
func lineEdit(lines [][]byte, i, e int) ([]byte, string, bool) {
	body, eol := lineBody(lines[i])
	pre := bytes.Join(lines[:i], nil)
	post := bytes.Join(lines[i+1:], nil)
	join := func(parts ...[]byte) []byte { return bytes.Join(parts, nil) }
	repl := func(nb []byte) []byte { return join(pre, nb, eol, post) }
	var out []byte
	var name string
	switch e {
	case 0:
		name, out = "lower", repl(bytes.ToLower(body))
	case 1:
		name, out = "upper", repl(bytes.ToUpper(body))
	case 2: // case of the first letter toggled
		nb := append([]byte(nil), body...)
		for j, c := range nb {
			if c < 0x80 && unicode.IsLetter(rune(c)) {
				if unicode.IsUpper(rune(c)) {
					nb[j] = byte(unicode.ToLower(rune(c)))
				} else {
					nb[j] = byte(unicode.ToUpper(rune(c)))
				}
				break
			}
		}
		name, out = "first-letter-case", repl(nb)
	case 3:
		name, out = "eof-after-line-no-newline", join(pre, body)
	case 4:
		name, out = "eof-after-backslash", join(pre, body, []byte(" \\"))
	case 5:
		name, out = "eof-after-backslash-newline", join(pre, body, []byte(" \\\n"))
	case 6:
		name, out = "continuation-mark", join(pre, body, []byte(" \\"), eol, post)
	case 7:
		name, out = "eof-mid-line", join(pre, body[:len(body)/2])
	case 8:
		name, out = "delete", join(pre, post)
	case 9:
		name, out = "duplicate", join(pre, lines[i], lines[i], post)
	case 10: // the value after the first separator removed
		j := firstSep(body)
		if j < 0 {
			return nil, "", false
		}
		name, out = "cut-after-separator", repl(body[:j+1])
	case 11: // the key before the first separator removed
		j := firstSep(body)
		if j < 0 {
			return nil, "", false
		}
		name, out = "cut-before-separator", repl(body[j:])
	case 12: // the first separator removed
		j := firstSep(body)
		if j < 0 {
			return nil, "", false
		}
		name, out = "drop-separator", repl(join(body[:j], body[j+1:]))
	case 13:
		name, out = "eof-after-line", join(pre, body, eol)
	default:
		return nil, "", false
	}
	return out, fmt.Sprintf("line-edit(#%d %s)", i, name), true
}

func (w *World) buildSys() {
	for _, x := range w.Exts {
		var cand, zcand []int
		seen := map[[32]byte]bool{}
		for _, si := range append(append([]int(nil), x.Own...), x.C03...) {
			s := w.Seeds[si]
			if looksZip(s.Data) && len(s.Data) <= sysMaxZipSize && !seen[s.Sha] {
				seen[s.Sha] = true
				if len(zcand) < sysMaxZipSeeds {
					zcand = append(zcand, si)
				}
				continue
			}
			if s.Binary || len(s.Data) == 0 || len(s.Data) > sysMaxSeedSize || seen[s.Sha] {
				continue
			}
			seen[s.Sha] = true
			cand = append(cand, si)
		}
		// own fixtures before generated files, small before large (more of the file is covered by the caps)
		sort.SliceStable(cand, func(a, b int) bool {
			sa, sb := w.Seeds[cand[a]], w.Seeds[cand[b]]
			if (sa.Kind == "own") != (sb.Kind == "own") {
				return sa.Kind == "own"
			}
			if len(sa.Data) != len(sb.Data) {
				return len(sa.Data) < len(sb.Data)
			}
			return cand[a] < cand[b]
		})
		if len(cand) > sysMaxSeeds {
			cand = cand[:sysMaxSeeds]
		}
		cand = append(cand, zcand...)
		for _, si := range cand {
			data := w.Seeds[si].Data
			x.SysStat.Seeds++
			if looksZip(data) {
				x.SysStat.Zip += w.buildSysZip(x, si)
				x.SysStat.Zips++
				continue
			}
			// value edits
			if d := parseStructured(data); d != nil {
				x.SysStat.Structured++
				var leaves []int
				var nEd []int
				dup := map[string]bool{}
				maxEd := 0
				for i, r := range d.refs {
					v := r.get()
					if len(v) > sysMaxLeafBytes || dup[v] {
						continue
					}
					dup[v] = true
					n := len(sepEditsAll(v))
					leaves, nEd = append(leaves, i), append(nEd, n)
					if n > maxEd {
						maxEd = n
					}
				}
				cnt := 0
				for b := 0; b < maxEd && cnt < sysMaxValue; b++ {
					for j, li := range leaves {
						if b < nEd[j] && cnt < sysMaxValue {
							x.Sys = append(x.Sys, SysCase{si, sysValue, int32(li), int32(b)})
							cnt++
						}
					}
				}
				x.SysStat.Value += cnt
			}
			// line edits
			lines := splitLinesKeep(data)
			nl := len(lines)
			if nl > sysMaxLines {
				nl = sysMaxLines
			}
			cnt := 0
			for e := 0; e < nLineEdits && cnt < sysMaxLine; e++ {
				for i := 0; i < nl && cnt < sysMaxLine; i++ {
					if body, _ := lineBody(lines[i]); len(bytes.TrimSpace(body)) == 0 && e != 3 && e != 13 && e != 8 {
						continue
					}
					if out, _, ok := lineEdit(lines, i, e); ok && !bytes.Equal(out, data) {
						x.Sys = append(x.Sys, SysCase{si, sysLine, int32(i), int32(e)})
						cnt++
					}
				}
			}
			x.SysStat.Line += cnt
		}
	}
}

// zip seeds: member-level edits of every member, then the metadata line edits of every line of every text member
// (edit-rank-major).  B < nMemberEdits: member edit; else nMemberEdits + line*16 + index into memberLineEdits.
func (w *World) buildSysZip(x *Ext, si int) int {
	ms, ok := readZip(w.Seeds[si].Data)
	if !ok {
		return 0
	}
	nm := len(ms)
	if nm > 40 {
		nm = 40
	}
	cnt := 0
	for e := 0; e < nMemberEdits && cnt < sysMaxZip; e++ {
		for i := 0; i < nm && cnt < sysMaxZip; i++ {
			if _, _, ok := memberEdit(ms, i, e); ok {
				x.Sys = append(x.Sys, SysCase{si, sysZip, int32(i), int32(e)})
				cnt++
			}
		}
	}
	for ei := range memberLineEdits {
		for i := 0; i < nm; i++ {
			if !textMember(ms[i]) {
				continue
			}
			nl := len(splitLinesKeep(ms[i].data))
			if nl > 60 {
				nl = 60
			}
			for l := 0; l < nl && cnt < sysMaxZip; l++ {
				if _, _, ok := memberLineEdit(ms, i, l, memberLineEdits[ei]); ok {
					x.Sys = append(x.Sys, SysCase{si, sysZip, int32(i), int32(nMemberEdits + l*16 + ei)})
					cnt++
				}
			}
		}
	}
	return cnt
}

func (w *World) genSysCase(e int, k int64, sc SysCase) *Case {
	x := w.Exts[e]
	seed := w.Seeds[sc.Seed]
	c := &Case{E: e, K: k, Ext: x.Name, Mode: 0o644, Src: seed.Kind, SeedIdx: sc.Seed, SeedDesc: seed.desc(), Data: seed.Data, Mutated: true}
	if ps, ok := x.OwnPath[sc.Seed]; ok && seed.Kind == "own" {
		c.Path, c.Mode = ps.Path, ps.Mode
		c.NotReq = x.OwnNotRq[sc.Seed]
	} else if seed.Kind == "c03" {
		c.Path = seed.Rel
	} else if len(x.Accepted) > 0 {
		c.Path, c.Mode = x.Accepted[0].Path, x.Accepted[0].Mode
	} else {
		c.NotReq, c.Path = true, seed.Rel
	}
	label := "systematic: noop"
	switch sc.Mode {
	case sysValue:
		c.Ops = []int{opValueEdit}
		if d := parseStructured(seed.Data); d != nil && int(sc.A) < len(d.refs) {
			old := d.refs[sc.A].get()
			if eds := sepEditsAll(old); int(sc.B) < len(eds) {
				if out, err := d.apply(int(sc.A), eds[sc.B]); err == nil {
					c.Data = out
					label = fmt.Sprintf("systematic value-edit(%s leaf#%d %q -> %q)", d.kind, sc.A, clip40(old), clip40(eds[sc.B]))
				}
			}
		}
	case sysZip:
		c.Ops = []int{opArchiveEdit}
		if ms, ok := readZip(seed.Data); ok && int(sc.A) < len(ms) {
			var out []zmember
			var l string
			var done bool
			if int(sc.B) < nMemberEdits {
				out, l, done = memberEdit(ms, int(sc.A), int(sc.B))
			} else {
				v := int(sc.B) - nMemberEdits
				out, l, done = memberLineEdit(ms, int(sc.A), v/16, memberLineEdits[v%16%len(memberLineEdits)])
			}
			if done {
				c.Data, label = writeZip(out), "systematic archive-edit("+l+")"
			}
		}
	case sysLine:
		c.Ops = []int{opSysLine}
		if lines := splitLinesKeep(seed.Data); int(sc.A) < len(lines) {
			if out, l, ok := lineEdit(lines, int(sc.A), int(sc.B)); ok {
				c.Data, label = out, "systematic "+l
			}
		}
	}
	c.Trail = []string{label}
	if x.OSRel {
		c.OSRel, c.HasOSRel, c.OSLabel = []byte(validOSReleases[int(k)%len(validOSReleases)]), true, fmt.Sprintf("valid#%d", int(k)%len(validOSReleases))
	}
	return c
}

package main

import (
	"bytes"
	"bufio"
	"encoding/json"
	"fmt"
	"io"
	"os"
	"os/exec"
	"path/filepath"
	"regexp"
	"strconv"
	"strings"
	"sync"
	"syscall"
	"time"
)

// Config of a run (shared by parent, minimiser and replay).
type Config struct {
	Repo       string
	C03Dir     string
	Seed       int64
	MemMiB     int
	Timeout    time.Duration
	ScratchDir string
}

// capBuf keeps the first N bytes written to it.
type capBuf struct {
	mu   sync.Mutex
	b    []byte
	max  int
	lost int
}

func (c *capBuf) Write(p []byte) (int, error) {
	c.mu.Lock()
	defer c.mu.Unlock()
	room := c.max - len(c.b)
	if room > 0 {
		if len(p) <= room {
			c.b = append(c.b, p...)
		} else {
			c.b = append(c.b, p[:room]...)
			c.lost += len(p) - room
		}
	} else {
		c.lost += len(p)
	}
	return len(p), nil
}

func (c *capBuf) String() string {
	c.mu.Lock()
	defer c.mu.Unlock()
	return string(c.b)
}

// workerProc is one worker subprocess.
type workerProc struct {
	cmd     *exec.Cmd
	stdin   io.WriteCloser
	msgs    chan string // response lines; closed when the worker's response pipe reaches EOF
	stderr  *capBuf
	tmproot string
	waited  chan struct{}
	// isolated confirmation runs: a call is a hang as soon as the worker process burned this much CPU since the call started
	cpuLimit time.Duration
}

var workerSeq struct {
	sync.Mutex
	n int
}

func spawnWorker(cfg *Config) (*workerProc, error) {
	exe, err := os.Executable()
	if err != nil {
		return nil, err
	}
	workerSeq.Lock()
	workerSeq.n++
	id := workerSeq.n
	workerSeq.Unlock()
	tmproot := filepath.Join(cfg.ScratchDir, fmt.Sprintf("w%d", id))
	_ = os.RemoveAll(tmproot)
	if err := os.MkdirAll(tmproot, 0o755); err != nil {
		return nil, err
	}
	pr, pw, err := os.Pipe()
	if err != nil {
		return nil, err
	}
	cmd := exec.Command(exe, "-worker", "-repo", cfg.Repo, "-c03dir", cfg.C03Dir, "-seed", strconv.FormatInt(cfg.Seed, 10),
		"-memlimit", strconv.Itoa(cfg.MemMiB), "-tmproot", tmproot)
	cmd.ExtraFiles = []*os.File{pw}
	cb := &capBuf{max: 256 << 10}
	cmd.Stderr = cb
	cmd.Stdout = cb
	cmd.Env = append(os.Environ(), "GOTRACEBACK=all")
	stdin, err := cmd.StdinPipe()
	if err != nil {
		return nil, err
	}
	if err := cmd.Start(); err != nil {
		pr.Close()
		pw.Close()
		return nil, err
	}
	pw.Close()
	wp := &workerProc{cmd: cmd, stdin: stdin, msgs: make(chan string, 256), stderr: cb, tmproot: tmproot, waited: make(chan struct{})}
	go func() {
		rd := bufio.NewReaderSize(pr, 1<<16)
		for {
			line, err := rd.ReadString('\n')
			if len(line) > 0 {
				wp.msgs <- strings.TrimRight(line, "\n")
			}
			if err != nil {
				break
			}
		}
		pr.Close()
		_ = cmd.Wait()
		close(wp.waited)
		close(wp.msgs)
	}()
	// wait for the hello line
	select {
	case m, ok := <-wp.msgs:
		if !ok || !strings.HasPrefix(m, "H ready") {
			wp.kill(false)
			return nil, fmt.Errorf("worker did not start: %q stderr: %s", m, tail(cb.String(), 2000))
		}
	case <-time.After(120 * time.Second):
		wp.kill(false)
		return nil, fmt.Errorf("worker start timed out; stderr: %s", tail(cb.String(), 2000))
	}
	return wp, nil
}

func tail(s string, n int) string {
	if len(s) > n {
		return s[len(s)-n:]
	}
	return s
}

// kill terminates the worker. dump=true first asks the Go runtime for a goroutine dump (SIGQUIT) so
// that the location of a hang ends up in the captured stderr.
func (wp *workerProc) kill(dump bool) {
	if wp.cmd.Process != nil {
		if dump {
			_ = wp.cmd.Process.Signal(syscall.SIGQUIT)
			select {
			case <-wp.waited:
			case <-time.After(20 * time.Second): // a process with a multi-GB heap can take seconds to stop the world and print
			}
		}
		_ = wp.cmd.Process.Kill()
	}
	_ = wp.stdin.Close()
	select {
	case <-wp.waited:
	case <-time.After(5 * time.Second):
	}
	_ = os.RemoveAll(wp.tmproot)
}

func (wp *workerProc) quit() {
	_, _ = io.WriteString(wp.stdin, "Q\n")
	_ = wp.stdin.Close()
	select {
	case <-wp.waited:
	case <-time.After(3 * time.Second):
		_ = wp.cmd.Process.Kill()
		<-wp.waited
	}
	_ = os.RemoveAll(wp.tmproot)
}

// Outcome of one supervised call.
type Outcome struct {
	Kind   string // ok | error | panic | timeout | worker_death | harness_error
	Res    *Result
	Msg    string
	Stack  []string
	Top    string
	Stderr string
}

var fatalRe = regexp.MustCompile(`(?m)^(fatal error: .*|panic: .*|runtime: out of memory.*|runtime: goroutine stack exceeds.*|SIG[A-Z]+: .*|unexpected fault address.*|runtime: failed to create new OS thread.*|signal: .*)$`)

// analyseDeath extracts message + stack from what a dead (or SIGQUIT-dumped) worker wrote to stderr.
func analyseDeath(stderr string, timeout bool, waitErr string) (msg string, frames []string, top string) {
	if !timeout {
		ms := fatalRe.FindAllString(stderr, 3)
		msg = strings.Join(ms, " | ")
		if msg == "" {
			msg = "worker exited without a Go runtime message (" + waitErr + "); killed by the kernel or os.Exit: " + tail(strings.TrimSpace(stderr), 300)
		}
	}
	// split into goroutine blocks
	blocks := strings.Split(stderr, "\ngoroutine ")
	pick := ""
	for i, b := range blocks {
		if i == 0 {
			continue
		}
		if timeout {
			if strings.Contains(b, "main.(*worker).exec(") {
				pick = b
				break
			}
		} else if pick == "" {
			pick = b
			if strings.Contains(b, "[running]") {
				break
			}
		}
	}
	if pick != "" {
		if j := strings.Index(pick, "\n\n"); j > 0 {
			pick = pick[:j]
		}
		frames, top = parseStack([]byte("goroutine " + pick + "\n"))
	}
	if len(msg) > 600 {
		msg = msg[:600]
	}
	return msg, frames, top
}

// supervise sends one request line to the worker and collects the results of n calls, enforcing the
// per-call deadline. onResult is called for every finished call. It returns the (e,k) that was running
// when the worker hung or died (ok=false in that case) together with the outcome.
func supervise(wp *workerProc, req string, n int64, timeout time.Duration, onResult func(*Result)) (done int64, curE int, curK int64, oc *Outcome) {
	if _, err := io.WriteString(wp.stdin, req); err != nil {
		// worker already gone
		oc = &Outcome{Kind: "harness_error", Msg: "write to worker failed: " + err.Error(), Stderr: wp.stderr.String()}
		return 0, -1, -1, oc
	}
	running := false
	curE, curK = -1, -1
	idleGrace := 60 * time.Second // between calls the worker only generates the next input
	timer := time.NewTimer(idleGrace)
	defer timer.Stop()
	reset := func(d time.Duration) {
		if !timer.Stop() {
			select {
			case <-timer.C:
			default:
			}
		}
		timer.Reset(d)
	}
	var cpu0 time.Duration
	var poll <-chan time.Time
	if wp.cpuLimit > 0 {
		tk := time.NewTicker(100 * time.Millisecond)
		defer tk.Stop()
		poll = tk.C
	}
	for done < n {
		select {
		case <-poll:
			if running && wp.cmd.Process != nil {
				if used := procCPU(wp.cmd.Process.Pid) - cpu0; used > wp.cpuLimit {
					wp.kill(true)
					st := wp.stderr.String()
					_, frames, top := analyseDeath(st, true, "")
					return done, curE, curK, &Outcome{Kind: "timeout", Msg: fmt.Sprintf("Extract did not return: the worker burned %s of CPU on this single input, run alone (limit %s)", used.Round(10*time.Millisecond), wp.cpuLimit),
						Stack: frames, Top: top, Stderr: st}
				}
			}
		case m, ok := <-wp.msgs:
			if !ok {
				<-wp.waited
				werr := ""
				if wp.cmd.ProcessState != nil {
					werr = wp.cmd.ProcessState.String()
				}
				st := wp.stderr.String()
				msg, frames, top := analyseDeath(st, false, werr)
				if !running {
					return done, -1, -1, &Outcome{Kind: "unattributed_death", Msg: "worker died between two Extract calls (" + werr + "): " + msg, Stack: frames, Top: top, Stderr: st}
				}
				return done, curE, curK, &Outcome{Kind: "worker_death", Msg: msg, Stack: frames, Top: top, Stderr: st}
			}
			switch {
			case strings.HasPrefix(m, "S "):
				f := strings.Fields(m)
				if len(f) == 3 {
					curE, _ = strconv.Atoi(f[1])
					curK, _ = strconv.ParseInt(f[2], 10, 64)
				}
				running = true
				if wp.cpuLimit > 0 && wp.cmd.Process != nil {
					cpu0 = procCPU(wp.cmd.Process.Pid)
				}
				reset(timeout)
			case strings.HasPrefix(m, "R "):
				var r Result
				if err := json.Unmarshal([]byte(m[2:]), &r); err == nil {
					onResult(&r)
				}
				done++
				running = false
				reset(idleGrace)
			case strings.HasPrefix(m, "Z "):
				return done, -1, -1, &Outcome{Kind: "recycle", Msg: m[2:]}
			case strings.HasPrefix(m, "E "):
				return done, -1, -1, &Outcome{Kind: "harness_error", Msg: m[2:]}
			}
		case <-timer.C:
			wp.kill(true)
			st := wp.stderr.String()
			if !running {
				return done, -1, -1, &Outcome{Kind: "harness_error", Msg: "worker idle for too long outside an Extract call", Stderr: st}
			}
			_, frames, top := analyseDeath(st, true, "")
			return done, curE, curK, &Outcome{Kind: "timeout", Msg: fmt.Sprintf("Extract did not return within %s", timeout), Stack: frames, Top: top, Stderr: st}
		}
	}
	return done, -1, -1, nil
}

// procCPU is the user + system CPU time of a process (all threads) from /proc/<pid>/stat; 0 when unreadable.
func procCPU(pid int) time.Duration {
	b, err := os.ReadFile(fmt.Sprintf("/proc/%d/stat", pid))
	if err != nil {
		return 0
	}
	// fields after the ") " that ends the command name: state is field 3, utime 14, stime 15
	i := bytes.LastIndexByte(b, ')')
	if i < 0 {
		return 0
	}
	f := strings.Fields(string(b[i+1:]))
	if len(f) < 13 {
		return 0
	}
	ut, _ := strconv.ParseInt(f[11], 10, 64)
	stt, _ := strconv.ParseInt(f[12], 10, 64)
	return time.Duration(ut+stt) * (time.Second / 100) // USER_HZ = 100 on Linux
}

// runIsolated decides whether a deadline hit is a hang: the single input is executed alone in a fresh worker; it is
// a hang ("timeout") only if the worker burns more CPU than 1.2 x the per-call deadline on it (a spinning extractor
// burns CPU, a starved one does not) or has not returned after 10 x the deadline of wall-clock time.
func runIsolated(cfg *Config, x *ExplicitCase) *Outcome {
	c2 := *cfg
	c2.Timeout = 10 * cfg.Timeout
	wp, err := spawnWorker(&c2)
	if err != nil {
		return &Outcome{Kind: "harness_error", Msg: err.Error()}
	}
	wp.cpuLimit = cfg.Timeout * 12 / 10
	oc := runExplicit(&c2, &wp, x)
	if wp != nil {
		wp.quit()
	}
	return oc
}

// runExplicit runs one explicit case in the worker *wpp (spawned on demand; set to nil when it had to
// be killed or died).
func runExplicit(cfg *Config, wpp **workerProc, x *ExplicitCase) *Outcome {
	if *wpp == nil {
		wp, err := spawnWorker(cfg)
		if err != nil {
			return &Outcome{Kind: "harness_error", Msg: err.Error()}
		}
		*wpp = wp
	}
	b, _ := json.Marshal(x)
	var res *Result
	_, _, _, oc := supervise(*wpp, "X "+string(b)+"\n", 1, cfg.Timeout, func(r *Result) { res = r })
	if oc != nil {
		if oc.Kind != "timeout" {
			(*wpp).kill(false)
		}
		*wpp = nil
		return oc
	}
	if res == nil {
		return &Outcome{Kind: "harness_error", Msg: "no result"}
	}
	return &Outcome{Kind: res.Out, Res: res, Msg: res.Msg, Stack: res.Stack, Top: res.Top}
}

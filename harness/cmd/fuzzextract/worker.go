package main

import (
	"bufio"
	"bytes"
	"context"
	"encoding/base64"
	"encoding/hex"
	"encoding/json"
	"fmt"
	"io"
	"io/fs"
	"os"
	"path/filepath"
	"runtime"
	"runtime/debug"
	"strconv"
	"strings"
	"syscall"
	"testing/fstest"
	"time"

	"github.com/google/osv-scalibr/extractor/filesystem"
	"github.com/google/osv-scalibr/extractor/filesystem/simplefileapi"
	"github.com/google/osv-scalibr/inventory"
	"github.com/google/osv-scalibr/stats"
	scalibrfs "github.com/google/osv-scalibr/fs"
)

// Result is what the worker reports for one Extract call (one JSON line prefixed with "R ").
type Result struct {
	E       int      `json:"e"`
	K       int64    `json:"k"`
	Out     string   `json:"out"` // ok | error | panic
	NPkgs   int      `json:"np,omitempty"`
	Engine  bool     `json:"eng,omitempty"` // the case also went through filesystem.Run
	EngPkgs int      `json:"engp,omitempty"`
	Sha     string   `json:"sha"`
	Size    int      `json:"size"`
	Ops     []int    `json:"ops,omitempty"`
	Src     string   `json:"src,omitempty"`
	P       string   `json:"p,omitempty"` // path the extractor was called with
	Si      int      `json:"si"`          // seed index (-1: random bytes / explicit)
	Mutated bool     `json:"mut,omitempty"`
	FileReq bool     `json:"fr"`
	NotReq  bool     `json:"nr,omitempty"`
	DurUS   int64    `json:"us"`
	Err     string   `json:"err,omitempty"`
	Msg     string   `json:"msg,omitempty"`   // panic value
	Stack   []string `json:"stack,omitempty"` // top frames (function file:line)
	Top     string   `json:"top,omitempty"`   // first frame inside github.com/google/osv-scalibr (function name)
	Where   string   `json:"where,omitempty"` // FileRequired | Extract
	Leaked  int      `json:"leak,omitempty"`  // goroutines started during the call that were still alive 5 ms after it returned
}

// ExplicitCase is the wire/replay form of a case.
type ExplicitCase struct {
	Extractor    string            `json:"extractor"`
	Path         string            `json:"path"`
	Mode         uint32            `json:"mode,omitempty"`
	InputB64     string            `json:"input_b64"`
	OSReleaseB64 *string           `json:"os_release_b64,omitempty"`
	SiblingsB64  map[string]string `json:"siblings_b64,omitempty"`
}

func (c *Case) explicit() *ExplicitCase {
	x := &ExplicitCase{Extractor: c.Ext, Path: c.Path, Mode: uint32(c.Mode), InputB64: base64.StdEncoding.EncodeToString(c.Data)}
	if c.HasOSRel {
		s := base64.StdEncoding.EncodeToString(c.OSRel)
		x.OSReleaseB64 = &s
	}
	for p, d := range c.Siblings {
		if x.SiblingsB64 == nil {
			x.SiblingsB64 = map[string]string{}
		}
		x.SiblingsB64[p] = base64.StdEncoding.EncodeToString(d)
	}
	return x
}

func (w *World) fromExplicit(x *ExplicitCase) (*Case, error) {
	e, ok := w.ExtByName[x.Extractor]
	if !ok {
		return nil, fmt.Errorf("unknown or skipped extractor %q", x.Extractor)
	}
	data, err := base64.StdEncoding.DecodeString(x.InputB64)
	if err != nil {
		return nil, err
	}
	c := &Case{E: e, K: -1, Ext: x.Extractor, Path: x.Path, Mode: fs.FileMode(x.Mode), Data: data, Src: "explicit", SeedIdx: -1}
	if c.Mode == 0 {
		c.Mode = 0o644
	}
	if x.OSReleaseB64 != nil {
		c.OSRel, err = base64.StdEncoding.DecodeString(*x.OSReleaseB64)
		if err != nil {
			return nil, err
		}
		c.HasOSRel = true
	}
	for p, s := range x.SiblingsB64 {
		d, err := base64.StdEncoding.DecodeString(s)
		if err != nil {
			return nil, err
		}
		if c.Siblings == nil {
			c.Siblings = map[string][]byte{}
		}
		c.Siblings[p] = d
	}
	return c, nil
}

// parseStack turns debug.Stack() output into "function file:line" frames, dropping everything up to
// and including the runtime's panic machinery and the harness' own frames.
func parseStack(st []byte) (frames []string, top string) {
	lines := strings.Split(string(st), "\n")
	type fr struct{ fn, pos string }
	var all []fr
	for i := 1; i+1 < len(lines); i++ {
		l := lines[i]
		if l == "" || strings.HasPrefix(l, "\t") || strings.HasPrefix(l, "goroutine ") {
			continue
		}
		nxt := lines[i+1]
		if !strings.HasPrefix(nxt, "\t") {
			continue
		}
		fn := l
		if j := strings.LastIndex(fn, "("); j > 0 {
			fn = fn[:j]
		}
		fn = strings.TrimPrefix(fn, "created by ")
		p := strings.TrimSpace(nxt)
		if j := strings.Index(p, " +0x"); j > 0 {
			p = p[:j]
		}
		// shorten the file path to the part below the module / GOROOT
		for _, cut := range []string{"/osv-scalibr/", "/pkg/mod/", "/src/", "/repo/"} {
			if j := strings.Index(p, cut); j >= 0 {
				p = p[j+len(cut):]
				break
			}
		}
		all = append(all, fr{fn, p})
		i++
	}
	start := 0
	for i, f := range all {
		if f.fn == "panic" || strings.HasPrefix(f.fn, "runtime.gopanic") {
			start = i + 1 // frames below the most recent panic
			break
		}
	}
	for _, f := range all[start:] {
		if strings.HasPrefix(f.fn, "main.") || strings.HasPrefix(f.fn, "runtime.main") || strings.HasPrefix(f.fn, "runtime.goexit") {
			break
		}
		if top == "" && strings.HasPrefix(f.fn, modulePrefix) {
			top = f.fn
		}
		if len(frames) < 40 {
			frames = append(frames, f.fn+" "+f.pos)
		}
	}
	return frames, top
}

type worker struct {
	calls   int64
	w       *World
	out     *bufio.Writer
	tmproot string
}

func (wk *worker) heapTooBig() bool {
	var ms runtime.MemStats
	runtime.ReadMemStats(&ms)
	if ms.HeapInuse < 1<<30 {
		return false
	}
	debug.FreeOSMemory()
	runtime.ReadMemStats(&ms)
	return ms.HeapInuse > 768<<20
}

func clearDir(d string) {
	ents, err := os.ReadDir(d)
	if err != nil {
		return
	}
	for _, e := range ents {
		_ = os.RemoveAll(filepath.Join(d, e.Name()))
	}
}

// exec runs FileRequired + Extract of a fresh extractor instance on the case, under recover.
func (wk *worker) exec(c *Case) (res Result) {
	x := wk.w.Exts[c.E]
	h := c.sha()
	res = Result{E: c.E, K: c.K, Sha: hex.EncodeToString(h[:]), Size: len(c.Data), Ops: c.Ops, Src: c.Src, Mutated: c.Mutated, NotReq: c.NotReq, P: c.Path, Si: c.SeedIdx}
	t0 := time.Now()
	res.Where = "New"
	defer func() {
		res.DurUS = time.Since(t0).Microseconds()
		if r := recover(); r != nil {
			res.Out = "panic"
			res.Msg = fmt.Sprint(r)
			if len(res.Msg) > 600 {
				res.Msg = res.Msg[:600]
			}
			res.Stack, res.Top = parseStack(debug.Stack())
			res.NPkgs = 0
			if res.Where == "EngineConsume" {
				res.Top = "engine consumption of the Extract result (filesystem.runExtractor)"
			}
		} else {
			res.Where = ""
		}
	}()
	ex := x.Init()
	info := fakeInfo{base(c.Path), int64(len(c.Data)), c.Mode}
	res.Where = "FileRequired"
	res.FileReq = ex.FileRequired(simplefileapi.New(c.Path, info))
	res.Where = "Extract"
	var in *filesystem.ScanInput
	if x.DirectFS {
		// the extractor opens <Root>/<Path> itself: materialise the case in a scratch directory
		root := filepath.Join(wk.tmproot, "root")
		_ = os.RemoveAll(root)
		files := map[string][]byte{c.Path: c.Data}
		for p, d := range c.Siblings {
			files[p] = d
		}
		if c.HasOSRel {
			files["etc/os-release"] = c.OSRel
		}
		for p, d := range files {
			full := filepath.Join(root, filepath.FromSlash(p))
			_ = os.MkdirAll(filepath.Dir(full), 0o755)
			_ = os.WriteFile(full, d, 0o644)
		}
		f, err := os.Open(filepath.Join(root, filepath.FromSlash(c.Path)))
		if err != nil {
			res.Out, res.Err = "error", "harness: "+err.Error()
			return res
		}
		defer f.Close()
		defer os.RemoveAll(root)
		in = &filesystem.ScanInput{FS: scalibrfs.DirFS(root), Path: c.Path, Root: root, Info: info, Reader: f}
	} else {
		fsys := fstest.MapFS{c.Path: &fstest.MapFile{Data: c.Data, Mode: c.Mode}}
		if c.HasOSRel {
			fsys["etc/os-release"] = &fstest.MapFile{Data: c.OSRel, Mode: 0o644}
		}
		for p, d := range c.Siblings {
			fsys[p] = &fstest.MapFile{Data: d, Mode: 0o644}
		}
		in = &filesystem.ScanInput{FS: fsys, Path: c.Path, Root: "", Info: info, Reader: bytes.NewReader(c.Data)}
	}
	g0 := runtime.NumGoroutine()
	inv, err := ex.Extract(context.Background(), in)
	res.NPkgs = len(inv.Packages)
	// goroutines started by the extractor that outlive the call: give them a moment, still inside the supervised
	// window, so that a crash in such a goroutine (not recoverable, kills the process) is attributed to this case
	if runtime.NumGoroutine() > g0 {
		for i := 0; i < 25 && runtime.NumGoroutine() > g0; i++ {
			time.Sleep(200 * time.Microsecond)
		}
		if n := runtime.NumGoroutine() - g0; n > 0 {
			res.Leaked = n
		}
	}
	// the result is consumed the way filesystem.runExtractor consumes it (it does so whether or not err is nil):
	// every returned package is dereferenced (r.Extractor = ex; r.Locations rewritten) and the inventory appended
	res.Where = "EngineConsume"
	for i, p := range inv.Packages {
		if p == nil {
			panic(fmt.Sprintf("Extract returned a nil *Package at inventory.Packages[%d] (of %d, err = %v): filesystem.runExtractor dereferences every returned "+
				"package (r.Extractor = ex) without recover, so the whole scan panics", i, len(inv.Packages), err))
		}
	}
	if !inv.IsEmpty() {
		for _, p := range inv.Packages {
			p.Extractor = ex
			locs := make([]string, 0, len(p.Locations))
			for _, l := range p.Locations {
				locs = append(locs, filepath.Join("/scanroot", l))
			}
			p.Locations = locs
			_, _ = p.Name, p.Version
		}
		var total inventory.Inventory
		total.Append(inv)
	}
	// a sample goes through the real engine: filesystem.Run over a tree that holds the file ("the scan completes")
	if !x.DirectFS && (c.K < int64(len(x.Det)+len(x.Sys)) || c.K%16 == 0) {
		res.Where = "EngineRun"
		fsys := fstest.MapFS{c.Path: &fstest.MapFile{Data: c.Data, Mode: c.Mode}}
		if c.HasOSRel {
			fsys["etc/os-release"] = &fstest.MapFile{Data: c.OSRel, Mode: 0o644}
		}
		for p, d := range c.Siblings {
			fsys[p] = &fstest.MapFile{Data: d, Mode: 0o644}
		}
		einv, _, _ := filesystem.Run(context.Background(), &filesystem.Config{
			Extractors: []filesystem.Extractor{x.Init()}, ScanRoots: []*scalibrfs.ScanRoot{{FS: fsys, Path: ""}}, Stats: stats.NoopCollector{}})
		res.Engine = true
		res.EngPkgs = len(einv.Packages)
	}
	res.Where = "Extract"
	if err != nil {
		res.Out = "error"
		res.Err = err.Error()
		if len(res.Err) > 160 {
			res.Err = res.Err[:160]
		}
	} else {
		res.Out = "ok"
	}
	return res
}

func (wk *worker) runCase(c *Case) {
	fmt.Fprintf(wk.out, "S %d %d\n", c.E, c.K)
	wk.out.Flush()
	res := wk.exec(c)
	b, _ := json.Marshal(res)
	wk.out.WriteString("R ")
	wk.out.Write(b)
	wk.out.WriteByte('\n')
	wk.out.Flush()
	// extractors that copy the file to the host (GetRealPath) leave files below TMPDIR
	if ents, err := os.ReadDir(filepath.Join(wk.tmproot, "tmp")); err == nil && len(ents) > 0 {
		clearDir(filepath.Join(wk.tmproot, "tmp"))
	}
}

// workerMain: protocol on stdin (requests) and fd 3 (responses). Requests:
//
//	G <e> <k0> <n>   run the generated cases k0..k0+n-1 of extractor e
//	X <json>         run an explicit case (ExplicitCase)
//	Q                quit
func workerMain(repo, c03dir string, seed int64, memMiB int, tmproot string) {
	runtime.GOMAXPROCS(2)
	if memMiB > 0 {
		lim := uint64(memMiB) << 20
		_ = syscall.Setrlimit(syscall.RLIMIT_AS, &syscall.Rlimit{Cur: lim, Max: lim})
		debug.SetMemoryLimit(int64(lim) * 3 / 4)
	}
	_ = syscall.Setrlimit(syscall.RLIMIT_CORE, &syscall.Rlimit{Cur: 0, Max: 0})
	if tmproot == "" {
		d, err := os.MkdirTemp("", "fuzzextract-w")
		if err != nil {
			panic(err)
		}
		tmproot = d
		defer os.RemoveAll(d)
	}
	_ = os.MkdirAll(filepath.Join(tmproot, "tmp"), 0o755)
	os.Setenv("TMPDIR", filepath.Join(tmproot, "tmp"))
	w := newWorld(repo, c03dir, seed)
	resp := os.NewFile(3, "resp")
	if resp == nil {
		resp = os.Stdout
	}
	wk := &worker{w: w, out: bufio.NewWriterSize(resp, 1<<16), tmproot: tmproot}
	fmt.Fprintf(wk.out, "H ready %d\n", len(w.Exts))
	wk.out.Flush()
	in := bufio.NewReaderSize(os.Stdin, 1<<20)
	for {
		line, err := in.ReadBytes('\n')
		if len(line) > 0 {
			line = bytes.TrimRight(line, "\n")
			switch {
			case bytes.HasPrefix(line, []byte("G ")):
				f := strings.Fields(string(line))
				if len(f) != 4 {
					break
				}
				e, _ := strconv.Atoi(f[1])
				k0, _ := strconv.ParseInt(f[2], 10, 64)
				n, _ := strconv.ParseInt(f[3], 10, 64)
				if e < 0 || e >= len(w.Exts) {
					break
				}
				for k := k0; k < k0+n; k++ {
					wk.runCase(w.genCase(e, k))
					wk.calls++
					if wk.calls%256 == 0 && wk.heapTooBig() {
						// memory retained by goroutines that extractors left behind: ask to be replaced (no finding)
						fmt.Fprintf(wk.out, "Z recycle after %d calls\n", wk.calls)
						wk.out.Flush()
						return
					}
				}
			case bytes.HasPrefix(line, []byte("X ")):
				var x ExplicitCase
				if json.Unmarshal(line[2:], &x) != nil {
					fmt.Fprintf(wk.out, "E bad explicit case\n")
					wk.out.Flush()
					break
				}
				c, e2 := w.fromExplicit(&x)
				if e2 != nil {
					fmt.Fprintf(wk.out, "E %s\n", e2)
					wk.out.Flush()
					break
				}
				wk.runCase(c)
			case bytes.Equal(line, []byte("Q")):
				return
			}
		}
		if err != nil {
			if err != io.EOF {
				fmt.Fprintln(os.Stderr, "worker: stdin:", err)
			}
			return
		}
	}
}

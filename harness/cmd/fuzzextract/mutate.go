package main

import (
	"bytes"
	"encoding/binary"
	"fmt"
	"math/rand"
	"strings"
)

// sm64 is a splitmix64 PRNG source: cheap to seed (one case = one source).
type sm64 struct{ s uint64 }

func (r *sm64) Uint64() uint64 {
	r.s += 0x9E3779B97F4A7C15
	z := r.s
	z = (z ^ (z >> 30)) * 0xBF58476D1CE4E5B9
	z = (z ^ (z >> 27)) * 0x94D049BB133111EB
	return z ^ (z >> 31)
}
func (r *sm64) Int63() int64    { return int64(r.Uint64() >> 1) }
func (r *sm64) Seed(seed int64) { r.s = uint64(seed) }

func mix64(a, b, c uint64) uint64 {
	r := sm64{a*0x9E3779B97F4A7C15 + 0x1234567}
	x := r.Uint64() ^ (b+1)*0xD6E8FEB86659FD93
	r.s = x
	y := r.Uint64() ^ (c+1)*0xCA5A826395121157
	r.s = y
	return r.Uint64()
}

func caseRand(seed int64, e int, k int64) *rand.Rand {
	return rand.New(&sm64{mix64(uint64(seed), uint64(e), uint64(k))})
}

const maxInputSize = 4 << 20

// mutation operators
const (
	opBitflip = iota
	opByteSet
	opTruncRandom
	opTruncToken
	opLineDelete
	opLineDup
	opLineSwap
	opTokenDelete
	opTokenDup
	opTokenSwap
	opLenField
	opTokenRepeat
	opDeepNest
	opLongLine
	opSplice
	opNumberEdit
	opInvalidUTF8
	opChunkDelete
	opChunkDup
	opKeywordInsert
	opContinuation
	opELFSection
	opValueEdit
	opSysLine // systematic pass only
	opArchiveEdit
	nOps
)

var opNames = [nOps]string{"bitflip", "byteset", "trunc-random", "trunc-token", "line-delete", "line-dup", "line-swap",
	"token-delete", "token-dup", "token-swap", "lenfield", "token-repeat", "deep-nest", "long-line", "splice", "number-edit",
	"invalid-utf8", "chunk-delete", "chunk-dup", "keyword-insert", "continuation", "elf-section", "value-edit", "line-edit-systematic", "archive-edit"}

// weights for text and for binary seeds
var textWeights = [nOps]int{4, 6, 5, 6, 6, 5, 4, 7, 5, 4, 1, 5, 5, 2, 4, 7, 4, 3, 2, 4, 6, 0, 12, 0, 0}
var binWeights = [nOps]int{10, 9, 6, 2, 1, 1, 1, 2, 2, 2, 14, 2, 2, 1, 4, 2, 2, 5, 3, 1, 1, 12, 0, 0, 14}

const delims = "\n \t,:=\"'{}[]<>();/|@#&"

func isDelim(c byte) bool { return strings.IndexByte(delims, c) >= 0 }

// tokenAt returns [i,j): the delimiter-bounded token around position p (bounded scan).
func tokenAt(b []byte, p int) (int, int) {
	if len(b) == 0 {
		return 0, 0
	}
	if p >= len(b) {
		p = len(b) - 1
	}
	i, j := p, p
	for n := 0; i > 0 && !isDelim(b[i-1]) && n < 256; n++ {
		i--
	}
	for n := 0; j < len(b) && !isDelim(b[j]) && n < 256; n++ {
		j++
	}
	if j < len(b) {
		j++ // include the closing delimiter
	}
	return i, j
}

// boundary returns a position just after a delimiter near p.
func boundary(b []byte, p int) int {
	for n := 0; p < len(b) && n < 512; n++ {
		if isDelim(b[p]) {
			return p + 1
		}
		p++
	}
	if p > len(b) {
		p = len(b)
	}
	return p
}

func pos(r *rand.Rand, n int) int {
	if n <= 0 {
		return 0
	}
	return r.Intn(n)
}

func splitLines(b []byte) [][]byte { return bytes.SplitAfter(b, []byte("\n")) }

func splice3(a, b, c []byte) []byte {
	out := make([]byte, 0, len(a)+len(b)+len(c))
	out = append(out, a...)
	out = append(out, b...)
	return append(out, c...)
}

var interesting = []byte{0x00, 0xff, 0x7f, '\n', '"', '{', '[', '<', '\'', '\\', '}', ']', '>', ':', '=', ' ', '\r', '-', '#', '%'}
var numbers = []string{"-1", "0", "2147483648", "9223372036854775808", "1e999", "4294967296", "99999999999999999999999999", "-0",
	"18446744073709551616", "1.7976931348623157e309", "-9223372036854775809", "0x7fffffff", "00", "1e-999", "65536"}
var badUTF8 = []string{"\xff", "\xc0\xaf", "\xed\xa0\x80", "\xf8\x88\x80\x80\x80", "\x80", "\xef\xbb\xbf", "\x00", "\xfe\xff", "\xe2\x80", "\xf4\x90\x80\x80"}
var keywords = []string{"null", "true", "~", "&a", "*a", "<<: *a", "!!binary ", "<!DOCTYPE a [<!ENTITY b \"c\">]>", "<![CDATA[", "<?xml version=\"1.0\"?>",
	"\\u0000", "\\ud800", "\"\":", "[[a]]", "[a]", "a.b.c = 1", "= =", "@", "../../", "%s%n", "${a}", "$(a)", "version", "name", "dependencies",
	"\"version\": 1", "\"lockfileVersion\": 9", "Package: a\n", "Version: 1\n", "Status: install ok installed\n", "P:a\nV:1\n\n", "GEM\n", "  specs:\n",
	"    a (1)\n", "a:b:1=c\n", "==", ">=", "; python_version < \"3\"", "-r requirements.txt\n", "--hash=sha256:", "\\\n", "PK\x03\x04", "PK\x01\x02", "PK\x05\x06",
	"npm:foo", "npm:", "npm:@a/b", "file:", "file:../a", "git+ssh://x#", "github:a/b#", "link:", "workspace:*", "@", "@a", "/@a", "a@", "==", "===", "~=", "!=",
	"1:2:3", "a:b", "::", "0:", "-1:", "1.0.0-", "^", "~", "*", "1.x", ">=1 <2", "||", "true", "false", "0", "\"\"", "[]", "{}", "[null]", "{\"a\":null}",
	"# comment only\n", "\t", "\r\n", " = ", "[[package]]\n", "[package]\nname = 1\n", "name = \"a\"\nversion = \"1\"\n", "checksum = 1\n",
	"\x7fELF", "MZ", "\xfe\xed\xfa\xcf", "\xca\xfe\xba\xbe", "SQLite format 3\x00", "bplist00", "\x1f\x8b\x08", "BZh9", "\xfd7zXZ\x00", "(\xb5/\xfd"}

type nestUnit struct {
	open, close string
	quad        bool // size grows quadratically with depth (indentation): depth is capped
}

var nestUnits = []nestUnit{
	{"[", "]", false}, {"{", "}", false}, {"(", ")", false}, {"<a>", "</a>", false}, {"{\"a\":", "}", false}, {"- ", "", false},
	{"[[", "]]", false}, {"{a = ", "}", false}, {"a.", "", false}, {"\"", "", false}, {"<a ", "", false}, {"a: {", "}", false},
	{"", "", true}, // YAML block nesting by indentation
}
var nestDepths = []int{1000, 1000, 2000, 5000, 10000, 10000, 20000, 50000, 100000}

func buildNest(r *rand.Rand) (prefix, suffix []byte, label string) {
	u := nestUnits[r.Intn(len(nestUnits))]
	n := nestDepths[r.Intn(len(nestDepths))]
	if u.quad {
		if n > 1500 {
			n = 1500
		}
		var sb bytes.Buffer
		key := []string{"a:\n", "- a:\n", "-\n"}[r.Intn(3)]
		for i := 0; i < n; i++ {
			for j := 0; j < i; j++ {
				sb.WriteByte(' ')
			}
			sb.WriteString(key)
		}
		return sb.Bytes(), nil, fmt.Sprintf("yaml-indent*%d", n)
	}
	if u.open == "a." { // TOML dotted table header / key
		p := "[" + strings.Repeat("a.", n) + "a]\n"
		if r.Intn(2) == 0 {
			p = strings.Repeat("a.", n) + "a = 1\n"
		}
		return []byte(p), nil, fmt.Sprintf("toml-dotted*%d", n)
	}
	prefix = bytes.Repeat([]byte(u.open), n)
	if u.close != "" && r.Intn(2) == 0 {
		suffix = bytes.Repeat([]byte(u.close), n)
	}
	return prefix, suffix, fmt.Sprintf("%q*%d", u.open, n)
}

// mutate applies one operator; `other` supplies material for splicing. Returns the new data, the
// operator id and a human readable description.
func mutateOnce(r *rand.Rand, b []byte, isBinary bool, other func() []byte) ([]byte, int, string) {
	w := &textWeights
	if isBinary {
		w = &binWeights
	}
	total := 0
	for _, x := range w {
		total += x
	}
	pickN := r.Intn(total)
	op := 0
	for i, x := range w {
		if pickN < x {
			op = i
			break
		}
		pickN -= x
	}
	out := append([]byte(nil), b...)
	n := len(out)
	switch op {
	case opArchiveEdit:
		if m, label, ok := archiveEdit(r, out, other); ok {
			return m, op, label
		}
		return mutateLenFieldFallback(r, out), op, "archive-edit(not-zip:lenfield)"
	case opValueEdit:
		// structured-value mutation: parse as JSON / TOML / YAML, rewrite one string leaf with a separator-aware edit,
		// serialise again (falls back to editing a token of the raw text)
		if m, label, ok := valueEdit(r, out); ok {
			return m, op, label
		}
		a, e := tokenAt(out, pos(r, n))
		if e > a {
			ns := sepEdit(r, string(out[a:e]))
			return splice3(out[:a], []byte(ns), out[e:]), op, fmt.Sprintf("value-edit(raw-token@%d)", a)
		}
		return out, op, "value-edit(noop)"
	case opELFSection:
		// structure-aware length-field edit: the size / offset of one ELF section header (falls back to a generic
		// length-field edit when the input is not an ELF file)
		if m, label, ok := elfSectionEdit(r, out); ok {
			return m, op, label
		}
		return mutateLenFieldFallback(r, out), op, "elf-section(not-elf:lenfield)"
	case opContinuation:
		// line-continuation / escape character at the end of the input or of a line: readers that join continued
		// lines must terminate when the continuation is the last thing in the file, or is followed by an oversized line
		esc := []byte{'\\', '\\', '\\', '^', '`', '&'}[r.Intn(6)]
		switch r.Intn(6) {
		case 0: // cut right after an existing escape character
			if i := bytes.LastIndexByte(out, esc); i >= 0 {
				return out[:i+1], op, fmt.Sprintf("cont-trunc-after-%q@%d", esc, i)
			}
			fallthrough
		case 1: // escape character as the very last byte (no final newline)
			out = bytes.TrimRight(out, "\r\n")
			return append(out, esc), op, fmt.Sprintf("cont-%q-at-eof", esc)
		case 2: // text, then the escape character and a final newline
			out = bytes.TrimRight(out, "\r\n")
			return append(out, ' ', esc, '\n'), op, fmt.Sprintf("cont-%q-newline-at-eof", esc)
		case 3: // a line that is only the escape character, at the end
			if n > 0 && out[n-1] != '\n' {
				out = append(out, '\n')
			}
			return append(out, esc), op, fmt.Sprintf("cont-%q-alone-last-line", esc)
		case 4: // escape at the end of a random line (joins it with the next one)
			ls := splitLines(out)
			i := r.Intn(len(ls))
			l := bytes.TrimRight(ls[i], "\r\n")
			ls[i] = append(append(append([]byte(nil), l...), esc), ls[i][len(l):]...)
			return bytes.Join(ls, nil), op, fmt.Sprintf("cont-%q-line%d", esc, i)
		default: // continuation followed by a line longer than the 64 KiB scanner buffer
			out = bytes.TrimRight(out, "\r\n")
			out = append(out, ' ', esc, '\n')
			out = append(out, bytes.Repeat([]byte("x"), 70000)...)
			return append(out, '\n'), op, fmt.Sprintf("cont-%q-then-70000", esc)
		}
	case opBitflip:
		k := 1 + r.Intn(4)
		for i := 0; i < k && n > 0; i++ {
			out[r.Intn(n)] ^= 1 << uint(r.Intn(8))
		}
		return out, op, fmt.Sprintf("bitflip*%d", k)
	case opByteSet:
		if n == 0 {
			return []byte{interesting[r.Intn(len(interesting))]}, op, "byteset(empty)"
		}
		k := 1 + r.Intn(3)
		var d []string
		for i := 0; i < k; i++ {
			p, v := r.Intn(n), interesting[r.Intn(len(interesting))]
			out[p] = v
			d = append(d, fmt.Sprintf("%d=%#x", p, v))
		}
		return out, op, "byteset(" + strings.Join(d, ",") + ")"
	case opTruncRandom:
		p := pos(r, n)
		return out[:p], op, fmt.Sprintf("trunc@%d", p)
	case opTruncToken:
		p := boundary(out, pos(r, n))
		if r.Intn(3) == 0 && p > 0 {
			p-- // just before the delimiter
		}
		return out[:p], op, fmt.Sprintf("trunc-token@%d", p)
	case opLineDelete, opLineDup, opLineSwap:
		ls := splitLines(out)
		i, j := r.Intn(len(ls)), r.Intn(len(ls))
		switch op {
		case opLineDelete:
			ls = append(ls[:i:i], ls[i+1:]...)
			return bytes.Join(ls, nil), op, fmt.Sprintf("line-delete#%d", i)
		case opLineDup:
			times := 1
			if r.Intn(4) == 0 {
				times = 2 + r.Intn(200)
			}
			if len(ls[i])*times > 2<<20 { // bound the growth of one step
				times = 1 + (2<<20)/(len(ls[i])+1)
			}
			var nb []byte
			for x, l := range ls {
				nb = append(nb, l...)
				if x == i {
					for t := 0; t < times; t++ {
						nb = append(nb, l...)
					}
				}
			}
			return nb, op, fmt.Sprintf("line-dup#%d*%d", i, times)
		default:
			ls[i], ls[j] = ls[j], ls[i]
			return bytes.Join(ls, nil), op, fmt.Sprintf("line-swap#%d,#%d", i, j)
		}
	case opTokenDelete:
		i, j := tokenAt(out, pos(r, n))
		if r.Intn(2) == 0 && j > i {
			j-- // keep the delimiter
		}
		return append(out[:i:i], out[j:]...), op, fmt.Sprintf("token-delete[%d:%d]", i, j)
	case opTokenDup:
		i, j := tokenAt(out, pos(r, n))
		return splice3(out[:j], out[i:j], out[j:]), op, fmt.Sprintf("token-dup[%d:%d]", i, j)
	case opTokenSwap:
		i1, j1 := tokenAt(out, pos(r, n))
		i2, j2 := tokenAt(out, pos(r, n))
		if j1 <= i2 {
			nb := splice3(out[:i1], out[i2:j2], out[j1:i2])
			nb = append(nb, out[i1:j1]...)
			nb = append(nb, out[j2:]...)
			return nb, op, fmt.Sprintf("token-swap[%d:%d]<->[%d:%d]", i1, j1, i2, j2)
		}
		return out, op, "token-swap(noop)"
	case opLenField:
		if n == 0 {
			return out, op, "lenfield(empty)"
		}
		wd := []int{1, 2, 4, 8}[r.Intn(4)]
		if wd > n {
			wd = 1
		}
		var p int
		switch r.Intn(4) {
		case 0, 1:
			p = pos(r, min(n-wd+1, 512))
		case 2:
			p = max(0, n-wd-pos(r, min(n, 512)))
		default:
			p = pos(r, n-wd+1)
		}
		maxv := uint64(1)<<(uint(wd)*8) - 1
		if wd == 8 {
			maxv = ^uint64(0)
		}
		vals := []uint64{0, 1, maxv, uint64(n) + 1, uint64(n) - 1, uint64(n - p), maxv >> 1, (maxv >> 1) + 1, 0x7fffffff, 0x80000000, 0xffffffff,
			uint64(n) * 2, 0x10000, maxv - 1}
		v := vals[r.Intn(len(vals))]
		buf := make([]byte, 8)
		be := r.Intn(2) == 0
		if be {
			binary.BigEndian.PutUint64(buf, v)
			copy(out[p:p+wd], buf[8-wd:])
		} else {
			binary.LittleEndian.PutUint64(buf, v)
			copy(out[p:p+wd], buf[:wd])
		}
		return out, op, fmt.Sprintf("lenfield@%d w=%d v=%#x be=%v", p, wd, v, be)
	case opTokenRepeat:
		i, j := tokenAt(out, pos(r, n))
		if j-i > 4096 {
			j = i + 4096
		}
		times := []int{2, 10, 100, 1000, 10000}[r.Intn(5)]
		if (j-i)*times > 2<<20 {
			times = (2 << 20) / (j - i + 1)
		}
		return splice3(out[:j], bytes.Repeat(out[i:j], times), out[j:]), op, fmt.Sprintf("token-repeat[%d:%d]*%d", i, j, times)
	case opDeepNest:
		pre, suf, label := buildNest(r)
		switch r.Intn(4) {
		case 0: // wrap the whole file
			return splice3(pre, out, suf), op, "nest-wrap " + label
		case 1: // only the nest
			return splice3(pre, nil, suf), op, "nest-only " + label
		default: // insert at a token boundary
			p := boundary(out, pos(r, n))
			return splice3(out[:p], append(pre, suf...), out[p:]), op, fmt.Sprintf("nest-insert@%d %s", p, label)
		}
	case opLongLine:
		ln := 70000
		if r.Intn(6) == 0 {
			ln = 1100000
		}
		c := []byte{'A', ' ', 'a', '1', '-', '/'}[r.Intn(6)]
		if n > 0 && r.Intn(3) == 0 {
			c = out[r.Intn(n)]
			if c == '\n' {
				c = 'x'
			}
		}
		p := pos(r, n+1)
		if r.Intn(2) == 0 {
			p = boundary(out, p)
		}
		return splice3(out[:p], bytes.Repeat([]byte{c}, ln), out[p:]), op, fmt.Sprintf("long-line@%d %q*%d", p, c, ln)
	case opSplice:
		o := other()
		p := boundary(out, pos(r, n))
		q := boundary(o, pos(r, len(o)))
		return splice3(out[:p], o[q:], nil), op, fmt.Sprintf("splice[:%d]+other[%d:]", p, q)
	case opNumberEdit:
		start := pos(r, n)
		for x := 0; x < n; x++ {
			i := (start + x) % n
			if out[i] >= '0' && out[i] <= '9' {
				j := i
				for j < n && out[j] >= '0' && out[j] <= '9' {
					j++
				}
				for i > 0 && out[i-1] >= '0' && out[i-1] <= '9' {
					i--
				}
				v := numbers[r.Intn(len(numbers))]
				return splice3(out[:i], []byte(v), out[j:]), op, fmt.Sprintf("number[%d:%d]=%s", i, j, v)
			}
		}
		v := numbers[r.Intn(len(numbers))]
		p := pos(r, n+1)
		return splice3(out[:p], []byte(v), out[p:]), op, fmt.Sprintf("number-insert@%d=%s", p, v)
	case opInvalidUTF8:
		v := badUTF8[r.Intn(len(badUTF8))]
		p := pos(r, n+1)
		return splice3(out[:p], []byte(v), out[p:]), op, fmt.Sprintf("invalid-utf8@%d=%q", p, v)
	case opChunkDelete:
		if n < 2 {
			return out, op, "chunk-delete(noop)"
		}
		i := r.Intn(n - 1)
		l := 1 + r.Intn(min(n-i-1, 1+n/4))
		return append(out[:i:i], out[i+l:]...), op, fmt.Sprintf("chunk-delete[%d:%d]", i, i+l)
	case opChunkDup:
		if n < 1 {
			return out, op, "chunk-dup(noop)"
		}
		i := r.Intn(n)
		l := 1 + r.Intn(min(n-i, 4096))
		p := pos(r, n+1)
		return splice3(out[:p], out[i:i+l], out[p:]), op, fmt.Sprintf("chunk-dup[%d:%d]@%d", i, i+l, p)
	default: // opKeywordInsert
		v := keywords[r.Intn(len(keywords))]
		p := pos(r, n+1)
		if r.Intn(2) == 0 {
			p = boundary(out, p)
		}
		if r.Intn(4) == 0 && n > 0 { // overwrite instead of insert (magic numbers at offset 0)
			if r.Intn(2) == 0 {
				p = 0
			}
			e := min(n, p+len(v))
			return splice3(out[:p], []byte(v), out[e:]), opKeywordInsert, fmt.Sprintf("keyword-overwrite@%d=%q", p, v)
		}
		return splice3(out[:p], []byte(v), out[p:]), opKeywordInsert, fmt.Sprintf("keyword-insert@%d=%q", p, v)
	}
}

// ------------------------------------------------------------------ os-release variants
var validOSReleases = []string{
	"PRETTY_NAME=\"Debian GNU/Linux 12 (bookworm)\"\nNAME=\"Debian GNU/Linux\"\nVERSION_ID=\"12\"\nVERSION=\"12 (bookworm)\"\nVERSION_CODENAME=bookworm\nID=debian\n",
	"NAME=\"Alpine Linux\"\nID=alpine\nVERSION_ID=3.19.1\nPRETTY_NAME=\"Alpine Linux v3.19\"\n",
	"NAME=\"Ubuntu\"\nVERSION_ID=\"22.04\"\nVERSION=\"22.04.3 LTS (Jammy Jellyfish)\"\nVERSION_CODENAME=jammy\nID=ubuntu\nID_LIKE=debian\n",
	"NAME=\"Red Hat Enterprise Linux\"\nVERSION=\"9.3 (Plow)\"\nID=\"rhel\"\nID_LIKE=\"fedora\"\nVERSION_ID=\"9.3\"\nBUILD_ID=\"1\"\n",
	"NAME=\"Container-Optimized OS\"\nID=cos\nVERSION=101\nVERSION_ID=101\nBUILD_ID=17162.40.5\n",
	"NAME=\"Arch Linux\"\nID=arch\nBUILD_ID=rolling\n",
	"NAME=Gentoo\nID=gentoo\nVERSION_ID=\"2.15\"\n",
	"NAME=NixOS\nID=nixos\nVERSION_ID=\"24.05\"\nVERSION_CODENAME=uakari\n",
}

var garbageOSReleases = []string{
	"ID=\"\n", "ID=\"", "VERSION_ID=\"\n", "NAME=\"\nID=debian\n", "ID=debian\nVERSION_CODENAME=\"\n", "BUILD_ID=\"\nID=cos\n",
	"=", "=\n", "\"", "ID=", "ID=\n", "ID='\n", "ID=\"\"\n", "ID=\"a\n", "ID=a\"\n", "ID==\n", "#ID=x\n", "ID\n", "\n\n\n", "",
	"ID=\x00\n", "ID=\xff\xfe\n", "\xef\xbb\xbfID=debian\n", "ID=debian\r\nVERSION_ID=\"12\"\r\n", "  ID = \"  \n",
	"ID=debian\nVERSION_ID=99999999999999999999\n", "ID=debian\nVERSION_ID=-1\n", "ID=debian\nVERSION_ID=1e999\n",
	"ID=" + strings.Repeat("A", 70000) + "\n", strings.Repeat("ID=\"\"\n", 5000),
}

// osRelease picks the etc/os-release content for an OS extractor case.
func osRelease(r *rand.Rand) (data []byte, present bool, label string) {
	switch x := r.Intn(20); {
	case x < 4:
		return nil, false, "absent"
	case x < 10:
		i := r.Intn(len(validOSReleases))
		return []byte(validOSReleases[i]), true, fmt.Sprintf("valid#%d", i)
	case x < 15:
		i := r.Intn(len(validOSReleases))
		b := []byte(validOSReleases[i])
		label = fmt.Sprintf("valid#%d", i)
		for k := 1 + r.Intn(2); k > 0; k-- {
			var d string
			b, _, d = mutateOnce(r, b, false, func() []byte { return []byte(garbageOSReleases[r.Intn(len(garbageOSReleases))]) })
			label += " | " + d
		}
		if len(b) > 256<<10 {
			b = b[:256<<10]
		}
		return b, true, "mutated " + label
	default:
		i := r.Intn(len(garbageOSReleases))
		return []byte(garbageOSReleases[i]), true, fmt.Sprintf("garbage#%d", i)
	}
}

// elfSectionEdit overwrites sh_size or sh_offset of a random section header with a boundary value.
func elfSectionEdit(r *rand.Rand, b []byte) ([]byte, string, bool) {
	if len(b) < 0x40 || string(b[:4]) != "\x7fELF" {
		return nil, "", false
	}
	is64 := b[4] == 2
	var bo binary.ByteOrder = binary.LittleEndian
	if b[5] == 2 {
		bo = binary.BigEndian
	}
	var shoff uint64
	var entsz, num int
	if is64 {
		shoff = bo.Uint64(b[0x28:])
		entsz, num = int(bo.Uint16(b[0x3A:])), int(bo.Uint16(b[0x3C:]))
	} else {
		shoff = uint64(bo.Uint32(b[0x20:]))
		entsz, num = int(bo.Uint16(b[0x2E:])), int(bo.Uint16(b[0x30:]))
	}
	if num == 0 || entsz < 0x28 || shoff >= uint64(len(b)) {
		return nil, "", false
	}
	i := r.Intn(num)
	base := int(shoff) + i*entsz
	if base+entsz > len(b) {
		return nil, "", false
	}
	vals := []uint64{0, 1, uint64(len(b)), uint64(len(b)) + 1, 1 << 28, 1 << 31, 1 << 32, 1 << 40, 1 << 62, 1<<63 - 1, ^uint64(0), ^uint64(0) - 7}
	v := vals[r.Intn(len(vals))]
	field := []string{"sh_size", "sh_offset"}[r.Intn(2)]
	if is64 {
		off := base + 0x20
		if field == "sh_offset" {
			off = base + 0x18
		}
		bo.PutUint64(b[off:], v)
	} else {
		off := base + 0x14
		if field == "sh_offset" {
			off = base + 0x10
		}
		bo.PutUint32(b[off:], uint32(v))
	}
	return b, fmt.Sprintf("elf-section[%d].%s=%#x", i, field, v), true
}

func mutateLenFieldFallback(r *rand.Rand, b []byte) []byte {
	if len(b) < 8 {
		return b
	}
	p := r.Intn(len(b) - 7)
	binary.LittleEndian.PutUint32(b[p:], []uint32{0, 1, 0x7fffffff, 0xffffffff, uint32(len(b)) + 1}[r.Intn(5)])
	return b
}

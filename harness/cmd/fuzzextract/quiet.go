package main

import scalibrlog "github.com/google/osv-scalibr/log"

type quietLogger struct{}

func (quietLogger) Errorf(string, ...any) {}
func (quietLogger) Warnf(string, ...any)  {}
func (quietLogger) Infof(string, ...any)  {}
func (quietLogger) Debugf(string, ...any) {}
func (quietLogger) Error(...any)          {}
func (quietLogger) Warn(...any)           {}
func (quietLogger) Info(...any)           {}
func (quietLogger) Debug(...any)          {}

func init() { scalibrlog.SetLogger(quietLogger{}) }

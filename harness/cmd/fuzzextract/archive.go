package main

import (
	"archive/zip"
	"bytes"
	"fmt"
	"io"
	"math/rand"
)

// Archive-aware mutation: zip based formats (egg, wheel, jar / war / ear, nupkg ...) are opened, a member is
// edited (header line dropped / altered, member emptied, duplicated, renamed, odd member added) and the archive is
// packed again, so that the container stays valid and the edit reaches the code that reads the members.

type zmember struct {
	name   string
	method uint16
	data   []byte
}

func looksZip(b []byte) bool { return len(b) > 30 && b[0] == 'P' && b[1] == 'K' && b[2] == 3 && b[3] == 4 }

func readZip(b []byte) ([]zmember, bool) {
	if !looksZip(b) {
		return nil, false
	}
	zr, err := zip.NewReader(bytes.NewReader(b), int64(len(b)))
	if err != nil || len(zr.File) == 0 || len(zr.File) > 300 {
		return nil, false
	}
	var ms []zmember
	total := 0
	for _, f := range zr.File {
		m := zmember{name: f.Name, method: f.Method}
		if rc, err := f.Open(); err == nil {
			d, _ := io.ReadAll(io.LimitReader(rc, 1<<20))
			rc.Close()
			m.data = d
		}
		total += len(m.data)
		if total > 4<<20 {
			return nil, false
		}
		ms = append(ms, m)
	}
	return ms, true
}

func writeZip(ms []zmember) []byte {
	var buf bytes.Buffer
	zw := zip.NewWriter(&buf)
	for _, m := range ms {
		method := m.method
		if method != zip.Store {
			method = zip.Deflate
		}
		w, err := zw.CreateHeader(&zip.FileHeader{Name: m.name, Method: method})
		if err != nil {
			continue
		}
		_, _ = w.Write(m.data)
	}
	_ = zw.Close()
	return buf.Bytes()
}

var oddMemberNames = []string{"", "/", "../x", "EGG-INFO/PKG-INFO", "x.egg-info/PKG-INFO", "x.dist-info/METADATA", "META-INF/MANIFEST.MF",
	"pom.properties", "META-INF/maven/g/a/pom.properties", "a/../../b", "x.nuspec", "\x00", "dir/"}

const nMemberEdits = 6

// memberEdit applies member-level edit e to member i.
func memberEdit(ms []zmember, i, e int) ([]zmember, string, bool) {
	out := append([]zmember(nil), ms...)
	switch e {
	case 0:
		if len(ms[i].data) == 0 {
			return nil, "", false
		}
		out[i].data = nil
		return out, fmt.Sprintf("member %q emptied", ms[i].name), true
	case 1:
		return append(out[:i:i], ms[i+1:]...), fmt.Sprintf("member %q deleted", ms[i].name), true
	case 2:
		return append(out, ms[i]), fmt.Sprintf("member %q duplicated", ms[i].name), true
	case 3:
		if len(ms[i].data) < 2 {
			return nil, "", false
		}
		out[i].data = ms[i].data[:len(ms[i].data)/2]
		return out, fmt.Sprintf("member %q cut in half", ms[i].name), true
	case 4:
		out[i].name = ms[i].name + "/"
		return out, fmt.Sprintf("member %q renamed to a directory name", ms[i].name), true
	case 5: // the same metadata name once more, with an empty body, in front
		return append([]zmember{{name: ms[i].name, method: ms[i].method}}, out...), fmt.Sprintf("empty member %q added in front", ms[i].name), true
	}
	return nil, "", false
}

func textMember(m zmember) bool { return len(m.data) > 0 && len(m.data) <= 64<<10 && !looksBinary(m.data) }

// the line edits that matter inside a metadata member, most telling first (ranks of lineEdit)
var memberLineEdits = []int{8, 10, 11, 12, 0, 3, 7}

func memberLineEdit(ms []zmember, i, line, rank int) ([]zmember, string, bool) {
	lines := splitLinesKeep(ms[i].data)
	if line >= len(lines) {
		return nil, "", false
	}
	nd, l, ok := lineEdit(lines, line, rank)
	if !ok || bytes.Equal(nd, ms[i].data) {
		return nil, "", false
	}
	out := append([]zmember(nil), ms...)
	out[i].data = nd
	return out, fmt.Sprintf("member %q %s", ms[i].name, l), true
}

// archiveEdit: one random edit inside a zip archive.
func archiveEdit(r *rand.Rand, b []byte, other func() []byte) ([]byte, string, bool) {
	ms, ok := readZip(b)
	if !ok {
		return nil, "", false
	}
	for try := 0; try < 6; try++ {
		i := r.Intn(len(ms))
		var out []zmember
		var label string
		var done bool
		switch k := r.Intn(10); {
		case k < 3:
			out, label, done = memberEdit(ms, i, r.Intn(nMemberEdits))
		case k < 6 && textMember(ms[i]):
			n := len(splitLinesKeep(ms[i].data))
			out, label, done = memberLineEdit(ms, i, r.Intn(n), r.Intn(nLineEdits))
		case k < 8 && len(ms[i].data) > 0:
			nd, _, d := mutateOnce(r, ms[i].data, !textMember(ms[i]), other)
			out = append([]zmember(nil), ms...)
			out[i].data = nd
			label, done = fmt.Sprintf("member %q: %s", ms[i].name, d), true
		case k == 8:
			nm := oddMemberNames[r.Intn(len(oddMemberNames))]
			out = append(append([]zmember(nil), ms...), zmember{name: nm, method: zip.Deflate, data: ms[i].data})
			label, done = fmt.Sprintf("member %q added (body of %q)", nm, ms[i].name), true
		default:
			j := r.Intn(len(ms))
			out = append([]zmember(nil), ms...)
			out[i].data, out[j].data = ms[j].data, ms[i].data
			label, done = fmt.Sprintf("bodies of %q and %q swapped", ms[i].name, ms[j].name), i != j
		}
		if done {
			return writeZip(out), "archive-edit(" + label + ")", true
		}
	}
	return nil, "", false
}

package main

import (
	"fmt"
	"io/fs"
	"path/filepath"
	"reflect"
	"sort"
	"strings"
	"time"

	"github.com/google/osv-scalibr/extractor/filesystem"
	"github.com/google/osv-scalibr/extractor/filesystem/list"
	"github.com/google/osv-scalibr/extractor/filesystem/simplefileapi"
	"github.com/google/osv-scalibr/plugin"
)

const modulePrefix = "github.com/google/osv-scalibr/"

// PathSpec is a path (plus file mode) that an extractor's FileRequired accepted when probed.
type PathSpec struct {
	Path string
	Mode fs.FileMode
}

// Ext is one built-in filesystem extractor under test.
type Ext struct {
	Name     string
	Init     list.InitFn
	PkgDir   string // package directory relative to the repository root
	OSRel    bool   // gets an etc/os-release next to the file (name starts with "os/")
	DirectFS bool   // needs a real directory: the case is materialised in a scratch dir
	Reqs     string
	Own      []int // indices into seeds: fixtures of the extractor's own package
	C03      []int // C03 generator files whose production path the extractor accepts
	Accepted []PathSpec
	OwnPath  map[int]PathSpec // accepted path for each own seed
	OwnNotRq map[int]bool     // FileRequired rejected every candidate and no canonical path is known
	Det      []int            // unmutated seeds run once (deterministic prefix of the case list)
	Sys      []SysCase        // systematic pass: enumerated edits of small seeds, run once after Det, before the random phase
	SysStat  SysStat
}

// Skipped describes an extractor that is not fuzzed.
type Skipped struct {
	Name   string `json:"extractor"`
	Reason string `json:"reason"`
}

type fakeInfo struct {
	name string
	size int64
	mode fs.FileMode
}

func (f fakeInfo) Name() string       { return f.name }
func (f fakeInfo) Size() int64        { return f.size }
func (f fakeInfo) Mode() fs.FileMode  { return f.mode }
func (f fakeInfo) ModTime() time.Time { return time.Time{} }
func (f fakeInfo) IsDir() bool        { return false }
func (f fakeInfo) Sys() any           { return nil }

// wellKnown: production file names probed against every extractor's FileRequired.
var wellKnown = []PathSpec{
	{"lib/apk/db/installed", 0o644}, {"var/lib/dpkg/status", 0o644}, {"var/lib/dpkg/status.d/foo", 0o644}, {"usr/lib/opkg/status", 0o644},
	{"requirements.txt", 0o644}, {"go.mod", 0o644}, {"Cargo.lock", 0o644}, {"Cargo.toml", 0o644}, {"package-lock.json", 0o644},
	{"package.json", 0o644}, {"composer.lock", 0o644}, {"Gemfile.lock", 0o644}, {"gradle.lockfile", 0o644},
	{"buildscript-gradle.lockfile", 0o644}, {"gradle/verification-metadata.xml", 0o644}, {"poetry.lock", 0o644}, {"Pipfile.lock", 0o644},
	{"packages.lock.json", 0o644}, {"packages.config", 0o644}, {"pom.xml", 0o644}, {"yarn.lock", 0o644}, {"pnpm-lock.yaml", 0o644},
	{"bun.lock", 0o644}, {"conan.lock", 0o644}, {"pubspec.lock", 0o644}, {"app.deps.json", 0o644}, {"lib/app.dll", 0o644}, {"app.exe", 0o644},
	{"mix.lock", 0o644}, {"cabal.project.freeze", 0o644}, {"stack.yaml.lock", 0o644}, {"lib/app.jar", 0o644}, {"app.war", 0o644},
	{"pdm.lock", 0o644}, {"uv.lock", 0o644}, {"setup.py", 0o644}, {"envs/base/conda-meta/pkg-1.0-0.json", 0o644},
	{"usr/lib/python3/site-packages/foo-1.0.dist-info/METADATA", 0o644}, {"usr/lib/python3/dist-packages/foo-1.0.egg-info/PKG-INFO", 0o644},
	{"usr/lib/python3/dist-packages/foo-1.0.egg-info", 0o644}, {"usr/lib/python3/site-packages/foo-1.0.egg", 0o644},
	{"foo.egg/EGG-INFO/PKG-INFO", 0o644}, {"renv.lock", 0o644}, {"foo.gemspec", 0o644}, {"usr/bin/app", 0o755},
	{"Package.resolved", 0o644}, {"Podfile.lock", 0o644},
	{"home/user/.config/google-chrome/Default/Extensions/abcdefghijklmnopabcdefghijklmnop/1.0_0/manifest.json", 0o644},
	{"home/user/.vscode/extensions/extensions.json", 0o644}, {"var/www/wp-content/plugins/foo/foo.php", 0o644},
	{"etc/cos-package-info.json", 0o644},
	{"var/lib/flatpak/app/org.foo.Bar/current/active/export/share/metainfo/org.foo.Bar.metainfo.xml", 0o644},
	{"usr/local/Cellar/foo/1.0/INSTALL_RECEIPT.json", 0o644}, {"usr/local/Caskroom/foo/1.0/foo.wrapper.sh", 0o644},
	{"lib/modules/6.1.0/kernel/foo.ko", 0o644}, {"boot/vmlinuz", 0o644}, {"boot/vmlinuz-6.1.0", 0o644},
	{"Applications/Foo.app/Contents/Info.plist", 0o644}, {"nix/store/1ddf3x30m0z6kknmrmapsc7liz8npi1w-perl-5.38.2/bin/ptar", 0o644},
	{"var/lib/pacman/local/foo-1.0-1/desc", 0o644}, {"var/db/pkg/app-misc/foo-1.0/PF", 0o644},
	{"usr/lib/sysimage/rpm/rpmdb.sqlite", 0o644}, {"var/lib/rpm/Packages", 0o644}, {"var/lib/rpm/Packages.db", 0o644},
	{"var/lib/rpm/rpmdb.sqlite", 0o644}, {"snap/core/1234/meta/snap.yaml", 0o644},
	{"bom.json", 0o644}, {"bom.xml", 0o644}, {"sbom.cdx.json", 0o644}, {"sbom.cdx.xml", 0o644}, {"sbom.spdx.json", 0o644},
	{"sbom.spdx", 0o644}, {"sbom.spdx.yml", 0o644}, {"sbom.spdx.rdf", 0o644}, {"sbom.spdx.rdf.xml", 0o644},
	{"var/lib/containerd/io.containerd.metadata.v1.bolt/meta.db", 0o644},
}

const maxAccepted = 24

func probe(init list.InitFn, ps PathSpec, size int64) (ok bool) {
	defer func() {
		if r := recover(); r != nil {
			ok = false
		}
	}()
	ex := init() // fresh instance: some FileRequired implementations are stateful (os/nix)
	return ex.FileRequired(simplefileapi.New(ps.Path, fakeInfo{filepath.Base(ps.Path), size, ps.Mode}))
}

func reqString(c *plugin.Capabilities) string {
	if c == nil {
		return ""
	}
	var parts []string
	switch c.OS {
	case plugin.OSLinux:
		parts = append(parts, "os=linux")
	case plugin.OSWindows:
		parts = append(parts, "os=windows")
	case plugin.OSMac:
		parts = append(parts, "os=mac")
	case plugin.OSUnix:
		parts = append(parts, "os=unix")
	}
	if c.Network == plugin.NetworkOnline {
		parts = append(parts, "network=online")
	}
	if c.DirectFS {
		parts = append(parts, "directfs")
	}
	if c.RunningSystem {
		parts = append(parts, "running-system")
	}
	return strings.Join(parts, ",")
}

// setupExtractors enumerates list.All (sorted by name), decides which extractors are fuzzed, and
// discovers for each the paths its FileRequired accepts.
func setupExtractors(seeds []*Seed) ([]*Ext, []Skipped) {
	var names []string
	for n := range list.All {
		names = append(names, n)
	}
	sort.Strings(names)
	var exts []*Ext
	var skipped []Skipped
	var synth []int
	for i, s := range seeds {
		if s.Kind == "synthetic" {
			synth = append(synth, i)
		}
	}
	for _, n := range names {
		for j, init := range list.All[n] {
			name := n
			if j > 0 {
				name = fmt.Sprintf("%s#%d", n, j)
			}
			var inst filesystem.Extractor
			func() {
				defer func() { _ = recover() }()
				inst = init()
			}()
			if inst == nil {
				skipped = append(skipped, Skipped{name, "constructor panicked or returned nil"})
				continue
			}
			reqs := inst.Requirements()
			if reqs != nil && reqs.Network == plugin.NetworkOnline {
				skipped = append(skipped, Skipped{name, "Requirements().Network == NetworkOnline: Extract resolves dependencies through network registries; not an offline extractor"})
				continue
			}
			t := reflect.TypeOf(inst)
			if t.Kind() == reflect.Pointer {
				t = t.Elem()
			}
			e := &Ext{Name: name, Init: init, PkgDir: strings.TrimPrefix(t.PkgPath(), modulePrefix), OSRel: strings.HasPrefix(name, "os/"),
				Reqs: reqString(reqs), OwnPath: map[int]PathSpec{}, OwnNotRq: map[int]bool{}}
			e.DirectFS = reqs != nil && reqs.DirectFS
			for i, s := range seeds {
				if s.Kind == "own" && (s.Owner == e.PkgDir || strings.HasPrefix(s.Owner, e.PkgDir+"/")) {
					e.Own = append(e.Own, i)
				}
			}
			// accepted paths: names of the own fixtures that FileRequired accepts first, then well-known production names
			seen := map[string]bool{}
			add := func(ps PathSpec) {
				if !seen[ps.Path] && len(e.Accepted) < maxAccepted {
					seen[ps.Path] = true
					e.Accepted = append(e.Accepted, ps)
				}
			}
			for _, si := range e.Own {
				s := seeds[si]
				found := false
				for _, p := range []string{s.Rel, s.Base} {
					for _, m := range []fs.FileMode{0o644, 0o755} {
						ps := PathSpec{p, m}
						if probe(init, ps, int64(len(s.Data))) {
							e.OwnPath[si] = ps
							add(ps)
							found = true
							break
						}
					}
					if found {
						break
					}
				}
			}
			for _, ps := range wellKnown {
				if probe(init, ps, 100) {
					add(ps)
				}
			}
			for _, si := range e.Own {
				if _, ok := e.OwnPath[si]; ok {
					continue
				}
				s := seeds[si]
				if len(e.Accepted) == 0 {
					e.OwnPath[si] = PathSpec{s.Rel, 0o644}
					e.OwnNotRq[si] = true
					continue
				}
				// fall back to an accepted path: same base name, else same extension, else the canonical one
				pick := e.Accepted[0]
				got := false
				for _, a := range e.Accepted {
					if filepath.Base(a.Path) == s.Base {
						pick, got = a, true
						break
					}
				}
				if !got && filepath.Ext(s.Base) != "" {
					for _, a := range e.Accepted {
						if filepath.Ext(a.Path) == filepath.Ext(s.Base) {
							pick = a
							break
						}
					}
				}
				e.OwnPath[si] = pick
			}
			for i, s := range seeds {
				if s.Kind == "c03" && probe(init, PathSpec{s.Rel, 0o644}, int64(len(s.Data))) {
					e.C03 = append(e.C03, i)
				}
			}
			e.Det = append(e.Det, e.Own...)
			e.Det = append(e.Det, synth...)
			nc := len(e.C03)
			if nc > 24 {
				nc = 24
			}
			e.Det = append(e.Det, e.C03[:nc]...)
			exts = append(exts, e)
		}
	}
	return exts, skipped
}

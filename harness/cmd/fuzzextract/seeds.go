package main

import (
	"bufio"
	"bytes"
	"crypto/sha256"
	"encoding/base64"
	"encoding/json"
	"io"
	"io/fs"
	"os"
	"path/filepath"
	"sort"
	"strings"
	"unicode/utf8"
)

const maxSeedSize = 512 << 10

// Seed is one seed file.
type Seed struct {
	Kind      string // own (testdata fixture) | c03 (C03 generator output) | synthetic
	Owner     string // package directory (relative to the repo) whose testdata the file lives in; "" otherwise
	Rel       string // path relative to the testdata directory (own), production path (c03), label (synthetic)
	Base      string
	Data      []byte
	Sha       [32]byte
	Binary    bool
	Truncated bool   // fixture was larger than 512 KiB and was cut
	Format    string // c03 only
}

func (s *Seed) desc() string {
	switch s.Kind {
	case "own":
		d := s.Owner + "/testdata/" + s.Rel
		if s.Truncated {
			d += "[:512KiB]"
		}
		return d
	case "c03":
		return "c03:" + s.Format + ":" + hex8(s.Sha)
	}
	return "synthetic:" + s.Rel
}

func looksBinary(b []byte) bool {
	n := len(b)
	if n > 4096 {
		n = 4096
	}
	p := b[:n]
	if bytes.IndexByte(p, 0) >= 0 {
		return true
	}
	bad := 0
	for i := 0; i < len(p); {
		r, sz := utf8.DecodeRune(p[i:])
		if r == utf8.RuneError && sz == 1 {
			bad++
		}
		i += sz
	}
	return bad*20 > n
}

// loadSeeds reads (a) every non-empty regular file below any `testdata` directory under
// <repo>/extractor/filesystem (capped at 512 KiB), (b) the C03 generator files, (c) synthetic seeds.
// The order is deterministic (lexical walk).
func loadSeeds(repo, c03dir string) ([]*Seed, map[string]int) {
	var seeds []*Seed
	counts := map[string]int{}
	root := filepath.Join(repo, "extractor", "filesystem")
	var tdirs []string
	_ = filepath.WalkDir(root, func(p string, d fs.DirEntry, err error) error {
		if err != nil {
			return nil
		}
		if d.IsDir() && d.Name() == "testdata" {
			tdirs = append(tdirs, p)
			return filepath.SkipDir
		}
		return nil
	})
	sort.Strings(tdirs)
	for _, td := range tdirs {
		owner, _ := filepath.Rel(repo, filepath.Dir(td))
		owner = filepath.ToSlash(owner)
		_ = filepath.WalkDir(td, func(p string, d fs.DirEntry, err error) error {
			if err != nil || d.IsDir() || !d.Type().IsRegular() {
				return nil
			}
			info, err := d.Info()
			if err != nil {
				return nil
			}
			if info.Size() == 0 {
				counts["skipped_empty"]++
				return nil
			}
			f, err := os.Open(p)
			if err != nil {
				return nil
			}
			data, _ := io.ReadAll(io.LimitReader(f, maxSeedSize))
			f.Close()
			if len(data) == 0 {
				return nil
			}
			rel, _ := filepath.Rel(td, p)
			rel = filepath.ToSlash(rel)
			s := &Seed{Kind: "own", Owner: owner, Rel: rel, Base: filepath.Base(rel), Data: data,
				Sha: sha256.Sum256(data), Binary: looksBinary(data), Truncated: info.Size() > maxSeedSize}
			if s.Truncated {
				counts["truncated_to_512KiB"]++
			}
			seeds = append(seeds, s)
			counts["own"]++
			return nil
		})
	}
	if c03dir != "" {
		files, _ := filepath.Glob(filepath.Join(c03dir, "C03_*.jsonl"))
		sort.Strings(files)
		seen := map[[32]byte]bool{}
		for _, fn := range files {
			f, err := os.Open(fn)
			if err != nil {
				continue
			}
			rd := bufio.NewReaderSize(f, 1<<20)
			for {
				line, err := rd.ReadBytes('\n')
				if len(line) > 1 {
					var c struct {
						Format   string `json:"format"`
						Path     string `json:"path"`
						BytesB64 string `json:"bytes_b64"`
					}
					if json.Unmarshal(line, &c) == nil && c.Path != "" {
						data, e2 := base64.StdEncoding.DecodeString(c.BytesB64)
						if e2 == nil && len(data) > 0 && len(data) <= maxSeedSize {
							h := sha256.Sum256(data)
							if !seen[h] {
								seen[h] = true
								seeds = append(seeds, &Seed{Kind: "c03", Rel: c.Path, Base: filepath.Base(c.Path), Data: data, Sha: h,
									Binary: looksBinary(data), Format: c.Format})
								counts["c03"]++
							}
						}
					}
				}
				if err != nil {
					break
				}
			}
			f.Close()
		}
	}
	syn := []struct {
		name string
		data []byte
	}{
		{"empty", []byte{}},
		{"newline", []byte("\n")},
		{"json-object", []byte("{}")},
		{"json-array", []byte("[]")},
		{"xml-element", []byte("<a/>")},
		{"64KiB-of-A", bytes.Repeat([]byte("A"), 64<<10)},
		{"json-null", []byte("null")},
		{"yaml-doc", []byte("---\na: 1\n")},
		{"toml-table", []byte("[a]\nb = 1\n")},
		{"json-array-of-null", []byte("[null]")},
		{"json-nulls-inside", []byte(`{"a":[null],"b":{"c":null},"packages":[null],"dependencies":{"d":null}}`)},
		{"yaml-nulls-inside", []byte("a:\n- \nb:\n  c:\npackages:\n- \n")},
		{"json-true", []byte("true")},
		{"json-zero", []byte("0")},
		{"json-empty-string", []byte(`""`)},
		{"comment-only", []byte("# comment\n")},
		{"space-null-newline", []byte(" null\n")},
		{"zip-eocd", []byte("PK\x05\x06" + strings.Repeat("\x00", 18))},
	}
	for _, s := range syn {
		seeds = append(seeds, &Seed{Kind: "synthetic", Rel: s.name, Base: s.name, Data: s.data, Sha: sha256.Sum256(s.data),
			Binary: looksBinary(s.data)})
		counts["synthetic"]++
	}
	return seeds, counts
}

func hex8(h [32]byte) string {
	const hexd = "0123456789abcdef"
	b := make([]byte, 16)
	for i := 0; i < 8; i++ {
		b[2*i] = hexd[h[i]>>4]
		b[2*i+1] = hexd[h[i]&15]
	}
	return string(b)
}

// Command fuzzextract is the C02 SEARCH harness (fuzzing, NOT proof): it feeds structure-aware mutations of
// seed files to every offline built-in filesystem extractor of osv-scalibr (enumerated from
// extractor/filesystem/list: list.All), every Extract call under recover, a per-call deadline enforced by
// a watchdog in the parent process, and an address-space limit on the worker subprocess.
//
//	parent  : loads the seeds, hands out batches "extractor e, cases k0..k0+n" (the extractor that has used the
//	          least time so far goes next), supervises the workers, collects statistics and findings
//	worker  : (self re-exec, -worker) applies RLIMIT_AS + debug.SetMemoryLimit to itself, derives case (e,k)
//	          from the one PRNG seed (same function as in the parent: the parent can rebuild the exact input of
//	          a case the worker hung or died on), prints "S e k" before and "R {...}" after every call
//	findings: panic (recovered; message + stack), timeout (watchdog killed the worker; SIGQUIT goroutine dump
//	          gives the location), worker_death (fatal error not recoverable: stack overflow, out of memory,
//	          concurrent map write, SIGSEGV in mmap'ed data ...)
//
// A run that reports no findings has found none among the calls it made; it proves nothing about other inputs.
package main

import (
	"encoding/json"
	"flag"
	"fmt"
	"os"
	"path/filepath"
	"time"
)

func main() {
	seed := flag.Int64("seed", 1, "PRNG seed: one seed -> identical case list (case = function of seed, extractor, index)")
	workers := flag.Int("workers", 8, "parallel worker subprocesses")
	budget := flag.Float64("budget", 45, "wall-clock budget in seconds for handing out work")
	timeout := flag.Float64("timeout", 3, "per-call deadline in seconds (watchdog kills the worker)")
	memlimit := flag.Int("memlimit", 4096, "address-space limit per worker in MiB (RLIMIT_AS; 0 = none)")
	c03dir := flag.String("c03dir", "", "directory with C03_<format>.jsonl files of the C03 harness (extra seeds)")
	out := flag.String("out", "", "result JSON file (default stdout)")
	findingsDir := flag.String("findingsdir", "", "directory for the inputs of findings (<sha256>.bin)")
	replay := flag.String("replay", "", "replay file {\"case\": {extractor, path, input_b64, os_release_b64?}}")
	repo := flag.String("repo", "/repo", "osv-scalibr tree the fixture seeds are read from")
	maxCases := flag.Int64("cases", 0, "stop after this many cases per extractor (0 = budget only); makes runs fully reproducible")
	minimize := flag.Float64("minimize", 10, "total seconds spent on minimising finding inputs after the run")
	only := flag.String("only", "", "debugging: comma separated extractor names to fuzz (default: all)")
	listOnly := flag.Bool("list", false, "print extractors, accepted paths and seed counts as JSON and exit")
	isWorker := flag.Bool("worker", false, "internal: run as worker subprocess")
	tmproot := flag.String("tmproot", "", "internal: scratch directory of a worker")
	gen := flag.String("gen", "", "print the generated case \"<extractor>:<index>\" as replay JSON and exit")
	flag.Parse()

	if *isWorker {
		workerMain(*repo, *c03dir, *seed, *memlimit, *tmproot)
		return
	}
	scratch, err := os.MkdirTemp("", "fuzzextract-")
	if err != nil {
		fmt.Fprintln(os.Stderr, err)
		os.Exit(2)
	}
	cfg := &Config{Repo: *repo, C03Dir: *c03dir, Seed: *seed, MemMiB: *memlimit, Timeout: time.Duration(*timeout * float64(time.Second)), ScratchDir: scratch}
	rc := 0
	switch {
	case *listOnly:
		w := newWorld(*repo, *c03dir, *seed)
		var l []map[string]any
		for _, e := range w.Exts {
			notreq := 0
			for range e.OwnNotRq {
				notreq++
			}
			l = append(l, map[string]any{"extractor": e.Name, "package_dir": e.PkgDir, "requirements": e.Reqs, "accepted_paths": e.Accepted,
				"own_seeds": len(e.Own), "c03_seeds": len(e.C03), "own_seeds_without_accepted_path": notreq, "os_release": e.OSRel, "on_disk": e.DirectFS})
		}
		b, _ := json.MarshalIndent(map[string]any{"extractors": l, "skipped": w.Skipped, "seed_files": w.SeedCount}, "", " ")
		fmt.Println(string(b))
	case *gen != "":
		w := newWorld(*repo, *c03dir, *seed)
		var name string
		var k int64
		for i := len(*gen) - 1; i >= 0; i-- {
			if (*gen)[i] == ':' {
				name = (*gen)[:i]
				fmt.Sscan((*gen)[i+1:], &k)
				break
			}
		}
		e, ok := w.ExtByName[name]
		if !ok {
			fmt.Fprintln(os.Stderr, "unknown extractor", name)
			rc = 2
			break
		}
		c := w.genCase(e, k)
		b, _ := json.MarshalIndent(map[string]any{"case": c.explicit(), "seed_file": c.SeedDesc, "mutation_trail": c.Trail}, "", " ")
		fmt.Println(string(b))
	case *replay != "":
		rc = runReplay(cfg, *replay)
	default:
		fd := *findingsDir
		if fd != "" {
			fd, _ = filepath.Abs(fd)
		}
		rc = runParent(cfg, *workers, time.Duration(*budget*float64(time.Second)), *maxCases, *out, fd, time.Duration(*minimize*float64(time.Second)), *only)
	}
	_ = os.RemoveAll(scratch)
	os.Exit(rc)
}

package main

import (
	"context"
	"encoding/json"
	"fmt"
	"net/http"
	"net/http/httptest"
	"os"
	"path/filepath"
	"strings"
	"sync"

	"deps.dev/util/resolve"
	"deps.dev/util/semver"
	"github.com/google/osv-scalibr/clients/datasource"
	"github.com/google/osv-scalibr/clients/resolution"
)

// ---------------------------------------------------------------- clients part (C16, shared registry client state)
// The concurrent patch attempts of common.ComputePatches share ONE resolve client.  For Maven that is a
// MavenRegistryClient around a datasource.MavenRegistryAPIClient whose registry list is filled from the
// <repositories> of the pom (guidedremediation/internal/manifest/maven, internal/mavenutil).  This part calls
// the lookups those attempts make (GetVersions / GetProject) from several goroutines at once against a local
// HTTP server, with nregs additional registries configured.  Meant for the -race build.

type clientsResult struct {
	Registries int    `json:"registries"`
	Attempts   int    `json:"concurrent_attempts"`
	LenCap     [2]int `json:"registries_len_cap"`
	Requests   int    `json:"http_requests"`
}

func runClients(nregs, attempts int) clientsResult {
	var mu sync.Mutex
	reqs := 0
	srv := httptest.NewServer(http.HandlerFunc(func(w http.ResponseWriter, r *http.Request) {
		mu.Lock()
		reqs++
		mu.Unlock()
		http.NotFound(w, r)
	}))
	defer srv.Close()
	cl, err := datasource.NewMavenRegistryAPIClient(datasource.MavenRegistry{URL: srv.URL + "/default", ReleasesEnabled: true})
	must(err)
	for i := 0; i < nregs; i++ {
		must(cl.AddRegistry(datasource.MavenRegistry{URL: fmt.Sprintf("%s/r%d", srv.URL, i), ID: fmt.Sprintf("r%d", i), ReleasesEnabled: true}))
	}
	regs := cl.GetRegistries()
	res := clientsResult{Registries: nregs, Attempts: attempts, LenCap: [2]int{len(regs), cap(regs)}}
	var wg sync.WaitGroup
	for a := 0; a < attempts; a++ {
		wg.Add(1)
		go func() {
			defer wg.Done()
			_, _ = cl.GetVersions(context.Background(), "org.ex", fmt.Sprintf("lib%d", a))
			_, _ = cl.GetProject(context.Background(), "org.ex", fmt.Sprintf("lib%d", a), "1.0.0")
		}()
	}
	wg.Wait()
	mu.Lock()
	res.Requests = reqs
	mu.Unlock()
	return res
}

// ---- npm: resolution.NPMRegistryClient over datasource.NPMRegistryAPIClient (one shared client, one package)

type npmResult struct {
	Versions    int      `json:"versions"`
	Goroutines  int      `json:"concurrent_calls"`
	Rounds      int      `json:"rounds"`
	Problems    []string `json:"problems,omitempty"`
	Requests    int      `json:"http_requests"`
	SampleFirst []string `json:"first_versions"`
}

func runNPMClients(nvers, goroutines, rounds int) npmResult {
	res := npmResult{Versions: nvers, Goroutines: goroutines, Rounds: rounds}
	var want []string
	for i := 0; i < nvers; i++ {
		want = append(want, fmt.Sprintf("%d.%d.%d", 1+i/20, (i/4)%5, i%4))
	}
	var mu sync.Mutex
	reqs := 0
	srv := httptest.NewServer(http.HandlerFunc(func(w http.ResponseWriter, r *http.Request) {
		mu.Lock()
		reqs++
		mu.Unlock()
		var sb strings.Builder
		name := strings.TrimPrefix(r.URL.Path, "/")
		fmt.Fprintf(&sb, `{"name":%q,"dist-tags":{"latest":%q},"versions":{`, name, want[nvers-1])
		// listed newest first: not in version order
		for i := nvers - 1; i >= 0; i-- {
			if i < nvers-1 {
				sb.WriteString(",")
			}
			fmt.Fprintf(&sb, `%q:{"name":%q,"version":%q,"dependencies":{"dep":"^1.0.0"}}`, want[i], name, want[i])
		}
		sb.WriteString("}}")
		w.Header().Set("Content-Type", "application/json")
		_, _ = w.Write([]byte(sb.String()))
	}))
	defer srv.Close()
	dir, err := os.MkdirTemp("", "c16npm")
	must(err)
	defer os.RemoveAll(dir)
	must(os.WriteFile(filepath.Join(dir, ".npmrc"), []byte("registry="+srv.URL+"\n"), 0o644))
	cl, err := resolution.NewNPMRegistryClient(dir)
	must(err)
	ctx := context.Background()
	problem := func(f string, a ...any) {
		mu.Lock()
		if len(res.Problems) < 8 {
			res.Problems = append(res.Problems, fmt.Sprintf(f, a...))
		}
		mu.Unlock()
	}
	check := func(who string, vs []resolve.Version, wantLen int) {
		if len(vs) != wantLen {
			problem("%s: %d versions, want %d", who, len(vs), wantLen)
			return
		}
		for i := 1; i < len(vs); i++ {
			if semver.NPM.Compare(vs[i-1].Version, vs[i].Version) >= 0 {
				problem("%s: %s listed before %s", who, vs[i-1].Version, vs[i].Version)
				return
			}
		}
	}
	for round := 0; round < rounds; round++ {
		pk := resolve.PackageKey{System: resolve.NPM, Name: fmt.Sprintf("pkg%d", round)}
		start := make(chan struct{})
		var wg sync.WaitGroup
		for g := 0; g < goroutines; g++ {
			wg.Add(1)
			go func() {
				defer wg.Done()
				<-start
				if g%2 == 0 {
					vs, err := cl.Versions(ctx, pk)
					if err != nil {
						problem("Versions: %v", err)
						return
					}
					check("Versions", vs, nvers)
				} else {
					vs, err := cl.MatchingVersions(ctx, resolve.VersionKey{PackageKey: pk, Version: ">=1.0.0", VersionType: resolve.Requirement})
					if err != nil {
						problem("MatchingVersions: %v", err)
						return
					}
					check("MatchingVersions", vs, nvers)
				}
			}()
		}
		close(start)
		wg.Wait()
		// repeated calls return identical, sorted lists
		a, _ := cl.Versions(ctx, pk)
		b, _ := cl.Versions(ctx, pk)
		check("Versions (after)", a, nvers)
		for i := range a {
			if i < len(b) && a[i].Version != b[i].Version {
				problem("repeated Versions calls differ at %d: %s vs %s", i, a[i].Version, b[i].Version)
				break
			}
		}
		if round == 0 {
			for i := 0; i < 3 && i < len(a); i++ {
				res.SampleFirst = append(res.SampleFirst, a[i].Version)
			}
		}
	}
	mu.Lock()
	res.Requests = reqs
	mu.Unlock()
	return res
}

func clientsMain() {
	nr := runNPMClients(60, 8, 4)
	njs, _ := json.Marshal(nr)
	fmt.Printf("clients-npm-run: %s\n", njs)
	for _, n := range []int{0, 1, 2, 3, 5} {
		r := runClients(n, 4)
		js, _ := json.Marshal(r)
		fmt.Printf("clients-run: %s\n", js)
	}
}

package main

import (
	"context"
	"encoding/json"
	"fmt"
	"net/http"
	"net/http/httptest"
	"sync"

	"github.com/google/osv-scalibr/clients/datasource"
)

// ---------------------------------------------------------------- clients part (C16, shared registry client state)
// The concurrent patch attempts of common.ComputePatches share ONE resolve client.  For Maven that is a
// MavenRegistryClient around a datasource.MavenRegistryAPIClient whose registry list is filled from the
// <repositories> of the pom (guidedremediation/internal/manifest/maven, internal/mavenutil).  This part calls
// the lookups those attempts make (GetVersions / GetProject) from several goroutines at once against a local
// HTTP server, with nregs additional registries configured.  Meant for the -race build.

type clientsResult struct {
	Registries int    `json:"registries"`
	Attempts   int    `json:"concurrent_attempts"`
	LenCap     [2]int `json:"registries_len_cap"`
	Requests   int    `json:"http_requests"`
}

func runClients(nregs, attempts int) clientsResult {
	var mu sync.Mutex
	reqs := 0
	srv := httptest.NewServer(http.HandlerFunc(func(w http.ResponseWriter, r *http.Request) {
		mu.Lock()
		reqs++
		mu.Unlock()
		http.NotFound(w, r)
	}))
	defer srv.Close()
	cl, err := datasource.NewMavenRegistryAPIClient(datasource.MavenRegistry{URL: srv.URL + "/default", ReleasesEnabled: true})
	must(err)
	for i := 0; i < nregs; i++ {
		must(cl.AddRegistry(datasource.MavenRegistry{URL: fmt.Sprintf("%s/r%d", srv.URL, i), ID: fmt.Sprintf("r%d", i), ReleasesEnabled: true}))
	}
	regs := cl.GetRegistries()
	res := clientsResult{Registries: nregs, Attempts: attempts, LenCap: [2]int{len(regs), cap(regs)}}
	var wg sync.WaitGroup
	for a := 0; a < attempts; a++ {
		wg.Add(1)
		go func() {
			defer wg.Done()
			_, _ = cl.GetVersions(context.Background(), "org.ex", fmt.Sprintf("lib%d", a))
			_, _ = cl.GetProject(context.Background(), "org.ex", fmt.Sprintf("lib%d", a), "1.0.0")
		}()
	}
	wg.Wait()
	mu.Lock()
	res.Requests = reqs
	mu.Unlock()
	return res
}

func clientsMain() {
	for _, n := range []int{0, 1, 2, 3, 5} {
		r := runClients(n, 4)
		js, _ := json.Marshal(r)
		fmt.Printf("clients-run: %s\n", js)
	}
}

package main

import (
	"errors"
	"fmt"
	"math/rand"
	"runtime"
	"sort"
	"strings"
	"sync"
	"time"

	"github.com/google/osv-scalibr/clients/datasource"

	cf "verifharness/internal/coqfmt"
)

// ---------------------------------------------------------------- cache part (C16 b)

// cacheCfg is one configuration: n concurrent Get calls, their keys and what each call's fetch
// function returns when it is invoked.
type cacheCfg struct {
	N        int      `json:"n"`
	Keys     []int    `json:"keys"`     // key of call t (0 or 1)
	Outcomes []int    `json:"outcomes"` // 0: (10+t, nil)  1: (0, err 100+t)  2: (50+t, err 100+t)
	Extra    []string `json:"extra"`    // extra actions available once each: "M0" SetMap({}), "M1" SetMap({0:77}), "G" GetMap
}

type cacheEvent struct {
	Kind string           `json:"e"` // begin fnstart fnret return setmap getmap
	T    int              `json:"t"`
	K    int              `json:"k,omitempty"`
	Val  int64            `json:"val,omitempty"`
	Err  int64            `json:"err,omitempty"` // 0 = nil
	Map  map[uint64]int64 `json:"map,omitempty"`
}

type cacheCase struct {
	Stream   string       `json:"stream"`
	Cfg      cacheCfg     `json:"cfg"`
	Schedule []string     `json:"schedule"` // S<t> start call t, R<t> let fn of call t return, M0/M1/G
	Events   []cacheEvent `json:"events"`
	Stuck    bool         `json:"stuck"` // some call did not return within the timeout
	Fetches  map[int]int  `json:"fetches"`
}

type verr struct{ id int64 }

func (e verr) Error() string { return fmt.Sprintf("verif-err-%d", e.id) }

type cacheRun struct {
	executed  bool // every action of the given schedule could be performed
	cfg       cacheCfg
	rc        *datasource.RequestCache[uint64, int64]
	wg        sync.WaitGroup
	usedExtra map[string]bool
	mu        sync.Mutex
	log       []cacheEvent
	gates     map[int]chan struct{} // calls currently inside fn
	returned  map[int]bool
	started   map[int]bool
}

func (r *cacheRun) add(e cacheEvent) {
	r.mu.Lock()
	r.log = append(r.log, e)
	r.mu.Unlock()
}

func (r *cacheRun) logLen() int {
	r.mu.Lock()
	defer r.mu.Unlock()
	return len(r.log)
}

// settle waits until no new event has been logged for a short while.
func (r *cacheRun) settle(quiet time.Duration) {
	last := r.logLen()
	lastChange := time.Now()
	for time.Since(lastChange) < quiet {
		runtime.Gosched()
		if n := r.logLen(); n != last {
			last = n
			lastChange = time.Now()
		}
	}
}

func newCacheRun(cfg cacheCfg) *cacheRun {
	return &cacheRun{cfg: cfg, rc: datasource.NewRequestCache[uint64, int64](),
		gates: map[int]chan struct{}{}, returned: map[int]bool{}, started: map[int]bool{}, usedExtra: map[string]bool{}}
}

// do performs one scheduled action and waits for the system to settle.
func (r *cacheRun) do(a string, quiet time.Duration) bool {
	cfg, rc := r.cfg, r.rc
	switch a[0] {
	case 'S':
		var t int
		fmt.Sscanf(a[1:], "%d", &t)
		key := uint64(cfg.Keys[t])
		oc := cfg.Outcomes[t]
		r.mu.Lock()
		r.started[t] = true
		r.log = append(r.log, cacheEvent{Kind: "begin", T: t, K: cfg.Keys[t]})
		r.mu.Unlock()
		r.wg.Add(1)
		go func() {
			defer r.wg.Done()
			v, err := rc.Get(key, func() (int64, error) {
				g := make(chan struct{})
				r.mu.Lock()
				r.log = append(r.log, cacheEvent{Kind: "fnstart", T: t})
				r.gates[t] = g
				r.mu.Unlock()
				<-g
				var val, e int64
				switch oc {
				case 0:
					val = int64(10 + t)
				case 1:
					e = int64(100 + t)
				default:
					val, e = int64(50+t), int64(100+t)
				}
				r.add(cacheEvent{Kind: "fnret", T: t, Val: val, Err: e})
				if e != 0 {
					return val, verr{e}
				}
				return val, nil
			})
			var e int64
			if err != nil {
				var ve verr
				if errors.As(err, &ve) {
					e = ve.id
				} else {
					e = -1
				}
			}
			r.mu.Lock()
			r.log = append(r.log, cacheEvent{Kind: "return", T: t, Val: v, Err: e})
			r.returned[t] = true
			r.mu.Unlock()
		}()
	case 'R':
		var t int
		fmt.Sscanf(a[1:], "%d", &t)
		r.mu.Lock()
		g := r.gates[t]
		delete(r.gates, t)
		r.mu.Unlock()
		if g == nil {
			return false // schedule not executable (replay of a stale schedule)
		}
		close(g)
	case 'M':
		r.usedExtra[a] = true
		m := map[uint64]int64{}
		if a == "M1" {
			m[0] = 77
		}
		// SetMap is atomic under rq.mu and the harness goroutine issues it while every call is parked
		// (in its fetch function, in wg.Wait, or finished), so the log position is its linearisation point.
		rc.SetMap(m)
		r.add(cacheEvent{Kind: "setmap", Map: m})
	case 'G':
		r.usedExtra[a] = true
		m := rc.GetMap()
		r.add(cacheEvent{Kind: "getmap", Map: m})
	}
	// Scheduler hint (enumeration determinism only; the verdict comes from the Coq check of the log): a call
	// with no other unfinished call on its key must reach its fetch function or return; a released call must
	// return.  Wait for that event before looking at what is enabled next.
	switch a[0] {
	case 'S':
		var t int
		fmt.Sscanf(a[1:], "%d", &t)
		alone := true
		r.mu.Lock()
		for u := range r.started {
			if u != t && r.cfg.Keys[u] == r.cfg.Keys[t] && !r.returned[u] {
				alone = false
			}
		}
		r.mu.Unlock()
		if alone {
			r.waitFor(func() bool { return r.gates[t] != nil || r.returned[t] })
		} else {
			r.settle(4 * quiet) // probably a waiter: nothing observable; give it time to park in wg.Wait
		}
	case 'R':
		var t int
		fmt.Sscanf(a[1:], "%d", &t)
		r.waitFor(func() bool { return r.returned[t] })
	}
	r.settle(quiet)
	return true
}

// waitFor polls cond (under the lock) for up to a second.
func (r *cacheRun) waitFor(cond func() bool) {
	deadline := time.Now().Add(time.Duration(timeoutScale) * time.Second)
	for time.Now().Before(deadline) {
		r.mu.Lock()
		ok := cond()
		r.mu.Unlock()
		if ok {
			return
		}
		runtime.Gosched()
	}
}

// enabled lists the actions the scheduler may take next.
func (r *cacheRun) enabled() []string {
	var en []string
	r.mu.Lock()
	defer r.mu.Unlock()
	for t := 0; t < r.cfg.N; t++ {
		if !r.started[t] {
			en = append(en, fmt.Sprintf("S%d", t)) // calls are started in index order
			break
		}
	}
	var ts []int
	for t := range r.gates {
		ts = append(ts, t)
	}
	sort.Ints(ts)
	for _, t := range ts {
		en = append(en, fmt.Sprintf("R%d", t))
	}
	for _, x := range r.cfg.Extra {
		if !r.usedExtra[x] {
			en = append(en, x)
		}
	}
	return en
}

// finish waits for every call to return; true = some call is stuck.
func (r *cacheRun) finish() bool {
	done := make(chan struct{})
	go func() { r.wg.Wait(); close(done) }()
	select {
	case <-done:
		return false
	case <-time.After(time.Duration(timeoutScale) * time.Second):
		return true
	}
}

// timeoutScale multiplies every wait of the harness.  All waits end as soon as their condition holds, so a larger
// scale costs nothing on a healthy run.  A timeout at scale 1 is only a CANDIDATE verdict: the schedule is executed
// again, alone, at scale 20, and only a timeout there is reported (a lost wake-up blocks forever, so it survives);
// otherwise it is counted in loadInducedTimeouts.
var timeoutScale = 1
var loadInducedTimeouts int

const confirmScale = 20

// stuckRuns counts executions in which some Get never returned; after a handful the verdict is certain and
// the enumeration stops paying the timeout for every further schedule.
var stuckRuns int

// abandon releases every gate so that goroutines do not leak.
func (r *cacheRun) abandon() {
	for i := 0; i < 50; i++ {
		r.mu.Lock()
		for t, g := range r.gates {
			close(g)
			delete(r.gates, t)
		}
		r.mu.Unlock()
		time.Sleep(200 * time.Microsecond)
	}
}

// runCacheSchedule executes a fixed schedule (replay / confirmation).
func runCacheSchedule(cfg cacheCfg, sched []string, quiet time.Duration, final bool) (*cacheRun, []string, bool) {
	r := newCacheRun(cfg)
	for _, a := range sched {
		if !r.do(a, quiet) {
			r.abandon()
			return r, nil, false
		}
	}
	r.executed = true
	en := r.enabled()
	stuck := false
	if len(en) == 0 {
		stuck = r.finish()
		if stuck && len(r.enabled()) > 0 {
			// a late call became an owner after the recorded schedule ended: let it finish
			for _, a := range r.enabled() {
				r.do(a, quiet)
			}
			stuck = r.finish()
		}
	} else {
		r.abandon()
	}
	return r, en, stuck
}

func cacheLabel(e cacheEvent) string {
	out := func() string {
		errs := "None"
		if e.Err != 0 {
			errs = "(Some " + cf.Z(e.Err) + ")"
		}
		return "(" + cf.Z(e.Val) + ", " + errs + ")"
	}
	mp := func() string {
		var ks []uint64
		for k := range e.Map {
			ks = append(ks, k)
		}
		sort.Slice(ks, func(i, j int) bool { return ks[i] < ks[j] })
		var items []string
		for _, k := range ks {
			items = append(items, "("+cf.N(k)+", "+cf.Z(e.Map[k])+")")
		}
		if len(items) == 0 {
			return "(@nil (N * Z))"
		}
		return cf.List(items)
	}
	switch e.Kind {
	case "begin":
		return fmt.Sprintf("LBegin %d %s", e.T, cf.N(uint64(e.K)))
	case "fnstart":
		return fmt.Sprintf("LFnStart %d", e.T)
	case "fnret":
		return fmt.Sprintf("LFnRet %d %s", e.T, out())
	case "return":
		return fmt.Sprintf("LReturn %d %s", e.T, out())
	case "setmap":
		return "LSetMap " + mp()
	case "getmap":
		return "LGetMap " + mp()
	}
	return "LWake 999"
}

func cacheCoqCase(c *cacheCase) string {
	var ls []string
	for _, e := range c.Events {
		ls = append(ls, cacheLabel(e))
	}
	evs := "(@nil label)"
	if len(ls) > 0 {
		evs = "[" + strings.Join(ls, "; ") + "]"
	}
	return fmt.Sprintf("mkcase %d [0%%N; 1%%N] %s", c.Cfg.N, evs)
}

func finishCacheCase(stream string, cfg cacheCfg, sched []string, r *cacheRun, stuck bool) *cacheCase {
	c := &cacheCase{Stream: stream, Cfg: cfg, Schedule: append([]string(nil), sched...), Stuck: stuck, Fetches: map[int]int{}}
	r.mu.Lock()
	c.Events = append(c.Events, r.log...)
	r.mu.Unlock()
	for _, e := range c.Events {
		if e.Kind == "fnstart" {
			c.Fetches[cfg.Keys[e.T]]++
		}
	}
	return c
}

// exploreCache enumerates every schedule of the configuration by depth-first search.  Each execution
// runs one complete schedule on a fresh cache; the actions enabled at each depth are learnt on the way
// and the next execution follows the lexicographically next unexplored branch.
func exploreCache(stream string, cfg cacheCfg, quiet time.Duration, limit int, out *[]*cacheCase, runs *int) {
	type level struct {
		enabled []string
		idx     int
	}
	var stack []level
	start := len(*out)
	for {
		if (limit > 0 && len(*out)-start >= limit) || stuckRuns >= 3 {
			return
		}
		*runs++
		var sched []string
		var r *cacheRun
		var stuck bool
		depth := 0
		diverged := false
		r = newCacheRun(cfg)
		for {
			en := r.enabled()
			if len(en) == 0 {
				if !r.finish() {
					break
				}
				// not everything returned: a call that had not yet taken the lock when the schedule looked
				// complete may have become an owner since and be parked in its fetch function
				en = r.enabled()
				if len(en) == 0 {
					// candidate: confirm by running this very schedule again, alone, with 20x the patience
					r.abandon()
					timeoutScale = confirmScale
					r2, _, stuck2 := runCacheSchedule(cfg, sched, 4*quiet, true)
					timeoutScale = 1
					if stuck2 {
						r = r2
						stuck = true
						stuckRuns++
					} else {
						loadInducedTimeouts++
						if len(r2.log) > 0 && r2.executed {
							r = r2 // the completed execution of the same schedule stands in
						} else {
							diverged = true
						}
					}
					break
				}
			}
			if depth < len(stack) {
				// replaying a known prefix: the same actions must be enabled again
				if strings.Join(en, ",") != strings.Join(stack[depth].enabled, ",") {
					diverged = true
					r.abandon()
					break
				}
			} else {
				stack = append(stack, level{enabled: en})
			}
			a := stack[depth].enabled[stack[depth].idx]
			sched = append(sched, a)
			if !r.do(a, quiet) {
				diverged = true
				r.abandon()
				break
			}
			depth++
		}
		if !diverged {
			*out = append(*out, finishCacheCase(stream, cfg, sched, r, stuck))
		}
		// advance to the next branch
		stack = stack[:min(len(stack), max(depth, 0)+1)]
		for len(stack) > 0 {
			top := &stack[len(stack)-1]
			top.idx++
			if top.idx < len(top.enabled) {
				break
			}
			stack = stack[:len(stack)-1]
		}
		if len(stack) == 0 {
			return
		}
	}
}

// cacheConfigs lists the configurations of one size: key patterns (call 0 always uses key 0) x
// outcome patterns.
func cacheConfigs(n int, rnd *rand.Rand) []cacheCfg {
	var cfgs []cacheCfg
	for kp := 0; kp < 1<<(n-1); kp++ {
		for op := 0; op < 1<<n; op++ {
			cfg := cacheCfg{N: n}
			for t := 0; t < n; t++ {
				k := 0
				if t > 0 {
					k = kp >> (t - 1) & 1
				}
				cfg.Keys = append(cfg.Keys, k)
				o := op >> t & 1
				if o == 1 && rnd.Intn(3) == 0 {
					o = 2
				}
				cfg.Outcomes = append(cfg.Outcomes, o)
			}
			cfgs = append(cfgs, cfg)
		}
	}
	return cfgs
}

func genCacheCases(seed int64, tier string, quiet time.Duration) ([]*cacheCase, map[string]int) {
	rnd := rand.New(rand.NewSource(seed))
	var cases []*cacheCase
	runs := 0
	stats := map[string]int{}
	for n := 2; n <= 4; n++ {
		cfgs := cacheConfigs(n, rnd)
		if n == 4 && tier != "thorough" {
			// quick tier: a seeded sample of the 4-call configurations
			rnd.Shuffle(len(cfgs), func(i, j int) { cfgs[i], cfgs[j] = cfgs[j], cfgs[i] })
			cfgs = cfgs[:8]
		}
		for _, cfg := range cfgs {
			before := len(cases)
			exploreCache(fmt.Sprintf("get-%d", n), cfg, quiet, 0, &cases, &runs)
			stats[fmt.Sprintf("schedules_n%d", n)] += len(cases) - before
		}
	}
	// SetMap / GetMap stream: 2..3 calls, one SetMap and one GetMap placed anywhere
	for n := 2; n <= 3; n++ {
		cfgs := cacheConfigs(n, rnd)
		rnd.Shuffle(len(cfgs), func(i, j int) { cfgs[i], cfgs[j] = cfgs[j], cfgs[i] })
		k, lim := 3, 90
		if tier == "thorough" {
			k, lim = 12, 400
		}
		if k > len(cfgs) {
			k = len(cfgs)
		}
		for _, cfg := range cfgs[:k] {
			cfg.Extra = []string{[]string{"M0", "M1"}[rnd.Intn(2)], "G"}
			before := len(cases)
			exploreCache(fmt.Sprintf("setmap-%d", n), cfg, quiet, lim, &cases, &runs)
			stats[fmt.Sprintf("schedules_setmap_n%d", n)] += len(cases) - before
		}
	}
	stats["executions_including_prefix_runs"] = runs
	stats["load_induced_timeouts"] = loadInducedTimeouts
	return cases, stats
}

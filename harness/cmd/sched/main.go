// Command sched is the C16 harness: it drives the real concurrent code of osv-scalibr under
// controlled schedules and writes Coq cases files (inputs + what the implementation did).
//
//	-mode cache    RequestCache.Get/SetMap/GetMap: gated fetch functions, every start/finish order
//	-mode compute  common.ComputePatches (through the verif hook): gated PatchFunc, every completion order
//	-mode strategy the real override / relax strategies against a client handing out shared unsorted slices (for -race)
//	-mode walk     filesystem.Run over a slow in-memory FS for > 2 s (meant for the -race build)
package main

import (
	"encoding/json"
	"flag"
	"fmt"
	"os"
	"strings"
	"time"

	scalibrlog "github.com/google/osv-scalibr/log"

	cf "verifharness/internal/coqfmt"
)

// quietLogger drops the library's log output (ComputePatches warns about every failed attempt).
type quietLogger struct{}

func (quietLogger) Errorf(string, ...any) {}
func (quietLogger) Warnf(string, ...any)  {}
func (quietLogger) Infof(string, ...any)  {}
func (quietLogger) Debugf(string, ...any) {}
func (quietLogger) Error(...any)          {}
func (quietLogger) Warn(...any)           {}
func (quietLogger) Info(...any)           {}
func (quietLogger) Debug(...any)          {}

func must(err error) {
	if err != nil {
		panic(err)
	}
}

func main() {
	mode := flag.String("mode", "cache", "cache | compute | walk | compare")
	out := flag.String("out", "", "output .v file")
	side := flag.String("jsonl", "", "output side file (one JSON case per line)")
	seed := flag.Int64("seed", 1, "PRNG seed")
	tier := flag.String("tier", "quick", "quick | thorough")
	replay := flag.String("replay", "", "replay a JSON case file")
	quietUs := flag.Int("quiet-us", 250, "quiescence window after each scheduled action (microseconds)")
	walkMs := flag.Int("walk-ms", 2600, "walk mode: minimum duration of the scan in milliseconds")
	flag.Parse()
	quiet := time.Duration(*quietUs) * time.Microsecond
	scalibrlog.SetLogger(quietLogger{})

	switch *mode {
	case "cache":
		if *replay != "" {
			b, err := os.ReadFile(*replay)
			must(err)
			var wrap struct {
				Case cacheCase `json:"case"`
			}
			must(json.Unmarshal(b, &wrap))
			c := wrap.Case
			timeoutScale = confirmScale // a replay is a single schedule: be patient
			r, _, stuck := runCacheSchedule(c.Cfg, c.Schedule, 4*quiet, true)
			nc := finishCacheCase(c.Stream, c.Cfg, c.Schedule, r, stuck)
			js, _ := json.Marshal(nc)
			fmt.Printf("implementation: %s\n", js)
			fmt.Printf("coq-case: %s\n", cacheCoqCase(nc))
			return
		}
		cases, stats := genCacheCases(*seed, *tier, quiet)
		var items []string
		sf, err := os.Create(*side)
		must(err)
		enc := json.NewEncoder(sf)
		for _, c := range cases {
			items = append(items, cacheCoqCase(c))
			must(enc.Encode(c))
		}
		sf.Close()
		var sb strings.Builder
		sb.WriteString("From Coq Require Import List ZArith NArith Bool.\nFrom Scalibr Require Import Sched.Cache.\nImport ListNotations.\n")
		sb.WriteString(cf.Chunked("cases", "ccase", items, 200))
		must(os.WriteFile(*out, []byte(sb.String()), 0o644))
		js, _ := json.Marshal(stats)
		fmt.Printf("stats: %s\n", js)
		fmt.Printf("cases: %d\n", len(cases))
	case "compute":
		if *replay != "" {
			b, err := os.ReadFile(*replay)
			must(err)
			var wrap struct {
				Case pcase `json:"case"`
			}
			must(json.Unmarshal(b, &wrap))
			nc := replayCompute(&wrap.Case, quiet)
			js, _ := json.Marshal(nc)
			fmt.Printf("implementation: %s\n", js)
			fmt.Printf("coq-case: %s\n", computeCoqCase(nc))
			return
		}
		cases, stats := genComputeCases(*seed, *tier, quiet)
		var items []string
		sf, err := os.Create(*side)
		must(err)
		enc := json.NewEncoder(sf)
		for _, c := range cases {
			items = append(items, computeCoqCase(c))
			must(enc.Encode(c))
		}
		sf.Close()
		var sb strings.Builder
		sb.WriteString("From Coq Require Import List ZArith NArith Bool.\nFrom Scalibr Require Import Sched.Compute.\nImport ListNotations.\nOpen Scope Z_scope.\n")
		sb.WriteString(cf.Chunked("cases", "pcase", items, 2))
		must(os.WriteFile(*out, []byte(sb.String()), 0o644))
		js, _ := json.Marshal(stats)
		fmt.Printf("stats: %s\n", js)
		fmt.Printf("cases: %d\n", len(cases))
	case "compare":
		// -replay file: {"patches":[...]} -> the matrix of result.Patch.Compare under npm semver
		b, err := os.ReadFile(*replay)
		must(err)
		var wrap struct {
			Witness cmpInput `json:"witness"`
		}
		must(json.Unmarshal(b, &wrap))
		m := compareMatrix(wrap.Witness)
		js, _ := json.Marshal(m)
		fmt.Printf("compare-matrix: %s\n", js)
		var ps []string
		for _, p := range wrap.Witness.Patches {
			ps = append(ps, coqObsPatch(p))
		}
		fmt.Printf("coq-patches: %s\n", cf.List(ps))
	case "clients":
		clientsMain()
	case "strategy":
		strategyMain(*seed, *tier, *replay)
	case "walk":
		runWalk(time.Duration(*walkMs) * time.Millisecond)
	default:
		fmt.Fprintln(os.Stderr, "unknown mode", *mode)
		os.Exit(2)
	}
}

package main

import (
	"context"
	"encoding/json"
	"fmt"
	"math/rand"
	"os"
	"path/filepath"
	"runtime"
	"sort"
	"strings"
	"sync"

	"deps.dev/util/resolve"
	"deps.dev/util/resolve/schema"
	"github.com/google/osv-scalibr/extractor"
	"github.com/google/osv-scalibr/guidedremediation"
	"github.com/google/osv-scalibr/guidedremediation/options"
	"github.com/google/osv-scalibr/guidedremediation/result"
	"github.com/ossf/osv-schema/bindings/go/osvschema"
)

// ---------------------------------------------------------------- strategy part (C16, real strategies under -race)
// The REAL override / relax strategies run their concurrent patch attempts (common.ComputePatches fan-out)
// against a resolve client that behaves like resolve.LocalClient / resolution.OverrideClient: it hands out
// ONE shared slice per package from Versions / MatchingVersions, deliberately not in version order.  Meant for
// the -race build.  After the run the client checks that the slices it handed out are untouched.
//
// deps.dev's own resolvers sort the slices they get from the client in place (third-party behaviour, known to
// the C11/C12 builders); calls that come from inside deps.dev/util/resolve therefore get a private copy, so
// that every report is about osv-scalibr code.

type sUniverse struct {
	Sys      string              `json:"system"` // "Maven" | "npm"
	Strategy string              `json:"strategy"`
	Pkgs     map[string][]string `json:"packages"` // name -> versions in the order the client lists them
	Deps     map[string]string   `json:"manifest"` // direct requirements of the root
	Vulns    []sVuln             `json:"vulns"`
	// PkgDeps: package -> version -> dependency -> requirement (empty for the flat universes)
	PkgDeps map[string]map[string]map[string]string `json:"deps,omitempty"`
}

type sVuln struct {
	ID    string `json:"id"`
	Pkg   string `json:"pkg"`
	Fixed string `json:"fixed"` // introduced 0, fixed at this version
}

type sharedClient struct {
	inner *resolve.LocalClient
	mu    sync.Mutex
	// shared[pk]: the one slice handed to osv-scalibr callers; orig[pk]: its contents at creation
	shared map[resolve.PackageKey][]resolve.Version
	orig   map[resolve.PackageKey][]resolve.Version
	order  map[string][]string
	handed map[resolve.PackageKey]int
}

// calledFromResolver: is some frame of the current stack inside deps.dev/util/resolve (the resolvers)?
func calledFromResolver() bool {
	pcs := make([]uintptr, 64)
	n := runtime.Callers(3, pcs)
	frames := runtime.CallersFrames(pcs[:n])
	for {
		f, more := frames.Next()
		if strings.Contains(f.Function, "deps.dev/util/resolve") {
			return true
		}
		if !more {
			return false
		}
	}
}

func (c *sharedClient) sharedVersions(ctx context.Context, pk resolve.PackageKey) ([]resolve.Version, error) {
	c.mu.Lock()
	defer c.mu.Unlock()
	if s, ok := c.shared[pk]; ok {
		c.handed[pk]++
		return s, nil
	}
	vs, err := c.inner.Versions(ctx, pk)
	if err != nil {
		return nil, err
	}
	// the listing order given by the universe (publication order, not version order)
	by := map[string]resolve.Version{}
	for _, v := range vs {
		by[v.Version] = v
	}
	var s []resolve.Version
	for _, ver := range c.order[pk.Name] {
		if v, ok := by[ver]; ok {
			s = append(s, v)
		}
	}
	c.shared[pk] = s
	c.orig[pk] = append([]resolve.Version(nil), s...)
	c.handed[pk]++
	return s, nil
}

func (c *sharedClient) Version(ctx context.Context, vk resolve.VersionKey) (resolve.Version, error) {
	c.mu.Lock()
	defer c.mu.Unlock()
	return c.inner.Version(ctx, vk)
}

func (c *sharedClient) Versions(ctx context.Context, pk resolve.PackageKey) ([]resolve.Version, error) {
	if calledFromResolver() {
		c.mu.Lock()
		defer c.mu.Unlock()
		vs, err := c.inner.Versions(ctx, pk)
		return append([]resolve.Version(nil), vs...), err
	}
	return c.sharedVersions(ctx, pk)
}

func (c *sharedClient) Requirements(ctx context.Context, vk resolve.VersionKey) ([]resolve.RequirementVersion, error) {
	c.mu.Lock()
	defer c.mu.Unlock()
	rs, err := c.inner.Requirements(ctx, vk)
	return append([]resolve.RequirementVersion(nil), rs...), err
}

func (c *sharedClient) MatchingVersions(ctx context.Context, vk resolve.VersionKey) ([]resolve.Version, error) {
	c.mu.Lock()
	vs, err := c.inner.Versions(ctx, vk.PackageKey)
	vs = append([]resolve.Version(nil), vs...)
	c.mu.Unlock()
	if err != nil {
		return nil, err
	}
	return resolve.MatchRequirement(vk, vs), nil
}

// modified: packages whose shared slice no longer has its original contents.
func (c *sharedClient) modified() []string {
	c.mu.Lock()
	defer c.mu.Unlock()
	var out []string
	for pk, s := range c.shared {
		o := c.orig[pk]
		same := len(s) == len(o)
		for i := 0; same && i < len(s); i++ {
			if s[i].Version != o[i].Version {
				same = false
			}
		}
		if !same {
			var now []string
			for _, v := range s {
				now = append(now, v.Version)
			}
			out = append(out, fmt.Sprintf("%s: now %v", pk.Name, now))
		}
	}
	return out
}

type sMatcher struct {
	vulns []*osvschema.Vulnerability
}

func (m sMatcher) MatchVulnerabilities(_ context.Context, pkgs []*extractor.Package) ([][]*osvschema.Vulnerability, error) {
	res := make([][]*osvschema.Vulnerability, len(pkgs))
	for i, p := range pkgs {
		for _, v := range m.vulns {
			if guidedremediation.VerifIsAffected(v, p) {
				res[i] = append(res[i], v)
			}
		}
	}
	return res, nil
}

func (u *sUniverse) system() resolve.System {
	if u.Sys == "npm" {
		return resolve.NPM
	}
	return resolve.Maven
}

func (u *sUniverse) schemaText() string {
	var sb strings.Builder
	for name, vers := range u.Pkgs {
		sb.WriteString(name + "\n")
		for _, v := range vers {
			sb.WriteString("\t" + v + "\n")
			var dn []string
			for d := range u.PkgDeps[name][v] {
				dn = append(dn, d)
			}
			sort.Strings(dn)
			for _, d := range dn {
				sb.WriteString("\t\t" + d + "@" + u.PkgDeps[name][v][d] + "\n")
			}
		}
	}
	return sb.String()
}

func (u *sUniverse) manifestFile(dir string) (string, error) {
	if u.Sys == "npm" {
		var deps []string
		for n, r := range u.Deps {
			deps = append(deps, fmt.Sprintf("    %q: %q", n, r))
		}
		p := filepath.Join(dir, "package.json")
		return p, os.WriteFile(p, []byte("{\n  \"name\": \"verif-root\",\n  \"version\": \"1.0.0\",\n  \"dependencies\": {\n"+strings.Join(deps, ",\n")+"\n  }\n}\n"), 0o644)
	}
	var sb strings.Builder
	sb.WriteString("<project>\n  <modelVersion>4.0.0</modelVersion>\n  <groupId>org.verif</groupId>\n  <artifactId>root</artifactId>\n  <version>1.0.0</version>\n  <dependencies>\n")
	for n, r := range u.Deps {
		ga := strings.SplitN(n, ":", 2)
		sb.WriteString("    <dependency>\n      <groupId>" + ga[0] + "</groupId>\n      <artifactId>" + ga[1] + "</artifactId>\n      <version>" + r + "</version>\n    </dependency>\n")
	}
	sb.WriteString("  </dependencies>\n</project>\n")
	p := filepath.Join(dir, "pom.xml")
	return p, os.WriteFile(p, []byte(sb.String()), 0o644)
}

type sResult struct {
	Universe  sUniverse `json:"universe"`
	Err       string    `json:"err,omitempty"`
	BaseVulns []string  `json:"base_vulns"`
	Patches   int       `json:"patches"`
	Handed    int       `json:"shared_slices_handed_out"`
	Modified  []string  `json:"client_state_modified,omitempty"`
	PatchedTo []string  `json:"patched_to"`
	// RunPatches: the patches (updated names and target versions) of each of the repeated ComputePatches runs;
	// Reference: what the attempt for each initial vulnerability yields alone on a freshly resolved manifest;
	// Inconsistent: differences between runs, or a reference patch missing from a run
	RunPatches   [][]string `json:"run_patches"`
	Reference    []string   `json:"reference"`
	Inconsistent []string   `json:"inconsistent,omitempty"`
	Concurrent   int        `json:"concurrent_attempts"`
}

type sSetup struct {
	cl       *sharedClient
	vm       sMatcher
	resolved *guidedremediation.VerifC11Resolved
	ro       options.RemediationOptions
	dir      string
}

// setupStrategy builds everything afresh: client, matcher, manifest, resolved manifest (graph and subgraphs).
func setupStrategy(u sUniverse) (*sSetup, error) {
	sys := u.system()
	sch, err := schema.New(u.schemaText(), sys)
	if err != nil {
		return nil, fmt.Errorf("schema: %w", err)
	}
	st := &sSetup{}
	st.cl = &sharedClient{inner: sch.NewClient(), shared: map[resolve.PackageKey][]resolve.Version{},
		orig: map[resolve.PackageKey][]resolve.Version{}, order: u.Pkgs, handed: map[resolve.PackageKey]int{}}
	eco := "Maven"
	if u.Sys == "npm" {
		eco = "npm"
	}
	for _, v := range u.Vulns {
		st.vm.vulns = append(st.vm.vulns, &osvschema.Vulnerability{ID: v.ID, Affected: []osvschema.Affected{{
			Package: osvschema.Package{Ecosystem: eco, Name: v.Pkg},
			Ranges:  []osvschema.Range{{Type: osvschema.RangeEcosystem, Events: []osvschema.Event{{Introduced: "0"}, {Fixed: v.Fixed}}}}}}})
	}
	st.dir, _ = os.MkdirTemp("", "c16strategy")
	path, err := u.manifestFile(st.dir)
	if err != nil {
		return nil, err
	}
	m, err := guidedremediation.VerifC11ReadManifest(path, "")
	if err != nil {
		return nil, fmt.Errorf("read manifest: %w", err)
	}
	st.ro = options.DefaultRemediationOptions()
	st.resolved, err = guidedremediation.VerifC11ResolveManifest(context.Background(), st.cl, st.vm, m, &st.ro)
	if err != nil {
		return nil, fmt.Errorf("resolve: %w", err)
	}
	return st, nil
}

// patchKey: what Patch.Compare can tell apart besides the counts: updated names and target versions.
func patchKey(p result.Patch) string {
	var us []string
	for _, pu := range p.PackageUpdates {
		us = append(us, pu.Name+"@"+pu.VersionTo)
	}
	return strings.Join(us, "+")
}

const strategyRuns = 4

func runStrategy(u sUniverse) sResult {
	res := sResult{Universe: u}
	ctx := context.Background()
	var baseIDs []string
	for run := 0; run < strategyRuns; run++ {
		st, err := setupStrategy(u)
		if err != nil {
			res.Err = err.Error()
			return res
		}
		if run == 0 {
			for _, v := range st.resolved.Vulns {
				res.BaseVulns = append(res.BaseVulns, v.OSV.ID)
			}
			sort.Strings(res.BaseVulns)
			baseIDs = res.BaseVulns
			res.Concurrent = len(st.resolved.Vulns)
		}
		var patches []result.Patch
		if u.Strategy == "relax" {
			patches, err = guidedremediation.VerifC11RelaxComputePatches(ctx, st.cl, st.vm, st.resolved, &st.ro)
		} else {
			patches, err = guidedremediation.VerifC11OverrideComputePatches(ctx, st.cl, st.vm, st.resolved, &st.ro)
		}
		if err != nil {
			res.Err = "compute patches: " + err.Error()
		}
		var keys []string
		for _, p := range patches {
			keys = append(keys, patchKey(p))
		}
		res.RunPatches = append(res.RunPatches, keys)
		if run == 0 {
			res.Patches = len(patches)
			res.PatchedTo = keys
		}
		for _, n := range st.cl.handed {
			res.Handed += n
		}
		res.Modified = append(res.Modified, st.cl.modified()...)
		os.RemoveAll(st.dir)
	}
	// reference: every attempt for one initial vulnerability, alone, on a freshly resolved manifest
	for _, id := range baseIDs {
		st, err := setupStrategy(u)
		if err != nil {
			res.Err = err.Error()
			return res
		}
		var nr *guidedremediation.VerifC11Resolved
		if u.Strategy == "relax" {
			nr, err = guidedremediation.VerifC11RelaxPatchVulns(ctx, st.cl, st.vm, st.resolved, []string{id}, &st.ro)
		} else {
			nr, err = guidedremediation.VerifC11OverridePatchVulns(ctx, st.cl, st.vm, st.resolved, []string{id}, &st.ro)
		}
		os.RemoveAll(st.dir)
		if err != nil || nr == nil {
			res.Reference = append(res.Reference, id+": no patch")
			continue
		}
		p := guidedremediation.VerifC11ConstructPatches(st.resolved, nr)
		if len(p.PackageUpdates) == 0 {
			res.Reference = append(res.Reference, id+": no change")
			continue
		}
		k := patchKey(p)
		res.Reference = append(res.Reference, id+": "+k)
		for run, keys := range res.RunPatches {
			found := false
			for _, x := range keys {
				if x == k {
					found = true
				}
			}
			if !found {
				res.Inconsistent = append(res.Inconsistent, fmt.Sprintf("run %d lacks the patch %q that the attempt for %s yields on its own", run, k, id))
			}
		}
	}
	for run := 1; run < len(res.RunPatches); run++ {
		if strings.Join(res.RunPatches[run], " | ") != strings.Join(res.RunPatches[0], " | ") {
			res.Inconsistent = append(res.Inconsistent, fmt.Sprintf("run %d returned %v, run 0 returned %v", run, res.RunPatches[run], res.RunPatches[0]))
		}
	}
	return res
}

// diamondUniverses: npm / relax; the vulnerable package vv is required tightly by aa (the constraining path)
// and loosely by bb (a non-constraining path); two vulnerabilities sit on the one node vv@1.0.0, so two
// concurrent attempts use the same dependency subgraph.
func diamondUniverses() []sUniverse {
	mk := func(fix1, fix2 string, extra bool) sUniverse {
		u := sUniverse{Sys: "npm", Strategy: "relax",
			Pkgs: map[string][]string{"aa": {"1.0.0", "2.0.0", "3.0.0"}, "bb": {"1.0.0"}, "vv": {"1.0.0", "2.0.0", "3.0.0"}},
			Deps: map[string]string{"aa": "^1.0.0", "bb": "^1.0.0"},
			PkgDeps: map[string]map[string]map[string]string{
				"aa": {"1.0.0": {"vv": "^1.0.0"}, "2.0.0": {"vv": "^2.0.0"}, "3.0.0": {"vv": "^3.0.0"}},
				"bb": {"1.0.0": {"vv": "*"}}},
			Vulns: []sVuln{{"V1", "vv", fix1}, {"V2", "vv", fix2}}}
		if extra {
			u.Pkgs["cc"] = []string{"1.0.0", "1.1.0"}
			u.Deps["cc"] = "1.0.0"
			u.Vulns = append(u.Vulns, sVuln{"V3", "cc", "1.1.0"})
		}
		return u
	}
	return []sUniverse{mk("2.0.0", "3.0.0", false), mk("3.0.0", "2.0.0", false), mk("2.0.0", "3.0.0", true)}
}

// genStrategyUniverses: >= 2 vulnerabilities in one package (so >= 2 concurrent attempts look the same
// package up), listing order shuffled.
func genStrategyUniverses(seed int64, n int) []sUniverse {
	rnd := rand.New(rand.NewSource(seed))
	var us []sUniverse
	for i := 0; i < n; i++ {
		strategy, sysn := "override", "Maven"
		lib, other := "org.ex:lib", "org.ex:other"
		req := func(v string) string { return v }
		if i%3 == 2 {
			strategy, sysn = "relax", "npm"
			lib, other = "lib", "other"
			req = func(v string) string { return v } // pinned, so that the old versions are the ones installed
		}
		var libv []string
		for maj := 1; maj <= 2; maj++ {
			for min := 0; min < 3+rnd.Intn(4); min++ {
				libv = append(libv, fmt.Sprintf("%d.%d.0", maj, min))
			}
		}
		otherv := []string{"1.0.0", "1.5.0", "2.0.0", "1.2.0"}
		// publication order: not version order (at least one inversion)
		for {
			rnd.Shuffle(len(libv), func(a, b int) { libv[a], libv[b] = libv[b], libv[a] })
			if libv[0] != "1.0.0" {
				break
			}
		}
		u := sUniverse{Sys: sysn, Strategy: strategy,
			Pkgs:  map[string][]string{lib: libv, other: otherv},
			Deps:  map[string]string{lib: req("1.0.0"), other: req("1.0.0")},
			Vulns: []sVuln{{"V1", lib, "1.1.0"}, {"V2", lib, "1.2.0"}, {"V3", lib, "2.1.0"}, {"V4", other, "1.2.0"}}}
		us = append(us, u)
	}
	return us
}

func strategyMain(seed int64, tier string, replay string) {
	var us []sUniverse
	if replay != "" {
		b, err := os.ReadFile(replay)
		must(err)
		var wrap struct {
			Universe sUniverse `json:"universe"`
		}
		must(json.Unmarshal(b, &wrap))
		us = []sUniverse{wrap.Universe}
	} else {
		n := 6
		if tier == "thorough" {
			n = 30
		}
		us = append(diamondUniverses(), genStrategyUniverses(seed, n)...)
	}
	for _, u := range us {
		r := runStrategy(u)
		js, _ := json.Marshal(r)
		fmt.Printf("strategy-run: %s\n", js)
	}
}

package main

import (
	"context"
	"fmt"
	"io/fs"
	"testing/fstest"
	"time"

	"github.com/google/osv-scalibr/extractor"
	"github.com/google/osv-scalibr/extractor/filesystem"
	scalibrfs "github.com/google/osv-scalibr/fs"
	"github.com/google/osv-scalibr/inventory"
	"github.com/google/osv-scalibr/plugin"
	"github.com/google/osv-scalibr/purl"
	"github.com/google/osv-scalibr/stats"
)

// ---------------------------------------------------------------- walk part (C16 c)
// A whole filesystem.Run over a slow in-memory file system that lasts longer than the 2 s status interval,
// so that the status ticker goroutine of RunFS fires while the walk is going on.  Meant to be built with
// -race: the race detector's reports on stderr are what the check reads.

type slowFS struct {
	fstest.MapFS
	delay time.Duration
}

func (s slowFS) Open(name string) (fs.File, error) {
	time.Sleep(s.delay)
	return s.MapFS.Open(name)
}
func (s slowFS) ReadDir(name string) ([]fs.DirEntry, error) { return s.MapFS.ReadDir(name) }
func (s slowFS) Stat(name string) (fs.FileInfo, error)      { return s.MapFS.Stat(name) }

type countingExtractor struct{}

func (countingExtractor) Name() string                               { return "verif/counting" }
func (countingExtractor) Version() int                               { return 1 }
func (countingExtractor) Requirements() *plugin.Capabilities         { return &plugin.Capabilities{} }
func (countingExtractor) ToPURL(*extractor.Package) *purl.PackageURL { return nil }
func (countingExtractor) Ecosystem(*extractor.Package) string        { return "" }
func (countingExtractor) FileRequired(api filesystem.FileAPI) bool {
	return true
}
func (countingExtractor) Extract(ctx context.Context, input *filesystem.ScanInput) (inventory.Inventory, error) {
	return inventory.Inventory{Packages: []*extractor.Package{{Name: input.Path, Version: "1", Locations: []string{input.Path}}}}, nil
}

func runWalk(minDur time.Duration) {
	const nfiles = 120
	m := fstest.MapFS{}
	for i := 0; i < nfiles; i++ {
		m[fmt.Sprintf("d%d/f%03d.txt", i%6, i)] = &fstest.MapFile{Data: []byte("x")}
	}
	sfs := slowFS{MapFS: m, delay: minDur / nfiles}
	cfg := &filesystem.Config{
		Extractors: []filesystem.Extractor{countingExtractor{}},
		ScanRoots:  []*scalibrfs.ScanRoot{{FS: sfs, Path: ""}},
		Stats:      stats.NoopCollector{},
	}
	start := time.Now()
	inv, _, err := filesystem.Run(context.Background(), cfg)
	fmt.Printf("walk: packages=%d err=%v elapsed_ms=%d\n", len(inv.Packages), err, time.Since(start).Milliseconds())
}

package main

import (
	"fmt"
	"math/rand"
	"runtime"
	"sort"
	"strings"
	"sync"
	"time"

	"deps.dev/util/resolve"
	"github.com/google/osv-scalibr/guidedremediation"
	"github.com/google/osv-scalibr/guidedremediation/result"

	cf "verifharness/internal/coqfmt"
)

// ---------------------------------------------------------------- compute part (C16 a)

// npm versions that parse, ascending and pairwise different under semver Compare, then a spelling that
// compares equal to a universe member, then strings that do not parse as a single version.
var verUniverse = []string{"1.0.0", "1.0.1", "1.1.0", "2.0.0", "10.0.0"}
var verTies = []string{"2.0.0+b1"}
var verRanges = []string{"^1.0.1", "^2.0.0", ">=1.1.0 <3", "11 - 12"}
var pkgNames = []string{"alpha", "beta", "gamma"}

const baseVersion = "0.9.0"

// verRank: (true, rank) when the npm semver system parses v as a single version.
func verRank(v string) (bool, int64) {
	sys := resolve.NPM.Semver()
	pv, err := sys.Parse(v)
	if err != nil {
		return false, 0
	}
	var r int64
	for _, u := range verUniverse {
		pu, _ := sys.Parse(u)
		c := pu.Compare(pv)
		if c < 0 {
			r += 2
		} else if c == 0 {
			return true, r
		}
	}
	return true, r - 1
}

type updSpec struct {
	Name string `json:"name"`
	To   string `json:"to"`
}

// attempt is what the fake strategy answers for one vulnerability-id list.
type attempt struct {
	IDs     []string  `json:"ids"`
	Err     int       `json:"err"` // 0 ok, 1 ErrPatchImpossible, 2 other error
	Updates []updSpec `json:"updates,omitempty"`
	Fixed   []string  `json:"fixed,omitempty"`      // base vulns absent after the patch
	Intro   []string  `json:"introduced,omitempty"` // new vulns present after the patch
}

type pcfg struct {
	hintBroken bool // the scheduler's spawn prediction failed once for this configuration: stop waiting on it

	Stream string    `json:"stream"`
	Group  bool      `json:"group"`
	Base   []string  `json:"base"`
	Table  []attempt `json:"table"`
}

type ptraceObs struct {
	Order   [][]string   `json:"order"`           // id list each attempt received (copied at call time), in delivery order
	After   [][]string   `json:"after,omitempty"` // the same slices re-read when the attempt was let go
	Spawned [][][]string `json:"spawned"`
	Final   int          `json:"final"` // index into Finals
	Stuck   bool         `json:"stuck,omitempty"`
	// Unordered: a released successful attempt was not seen to be received within a second; the delivery
	// order of this run is not known and the run is not used
	Unordered bool `json:"unordered,omitempty"`

	lastEnabled []string
}

type obsPatch struct {
	Updates []obsUpd `json:"updates"`
	Fixed   []string `json:"fixed"`
	Intro   []string `json:"introduced"`
}
type obsUpd struct {
	Name string `json:"name"`
	From string `json:"from"`
	To   string `json:"to"`
}

type pcase struct {
	Cfg       pcfg         `json:"cfg"`
	Traces    []ptraceObs  `json:"traces"`
	Finals    [][]obsPatch `json:"finals"`
	Truncated bool         `json:"truncated,omitempty"` // schedule enumeration cut at the limit
}

func key(ids []string) string { return strings.Join(ids, ",") }

func (c *pcfg) lookup(ids []string) *attempt {
	k := key(ids)
	for i := range c.Table {
		if key(c.Table[i].IDs) == k {
			return &c.Table[i]
		}
	}
	return nil
}

func baseReqs() []resolve.RequirementVersion {
	var rs []resolve.RequirementVersion
	for _, n := range pkgNames {
		rs = append(rs, resolve.RequirementVersion{VersionKey: resolve.VersionKey{
			PackageKey: resolve.PackageKey{System: resolve.NPM, Name: n}, VersionType: resolve.Requirement, Version: baseVersion}})
	}
	return rs
}

// outcomeOf turns a table entry into what the re-resolved manifest looks like.
func (c *pcfg) outcomeOf(a *attempt) guidedremediation.VerifC16Outcome {
	if a == nil || a.Err == 2 {
		return guidedremediation.VerifC16Outcome{OtherErr: true}
	}
	if a.Err == 1 {
		return guidedremediation.VerifC16Outcome{Impossible: true}
	}
	reqs := baseReqs()
	for _, u := range a.Updates {
		for i := range reqs {
			if reqs[i].Name == u.Name {
				reqs[i].Version = u.To
			}
		}
	}
	var vulns []string
	for _, v := range c.Base {
		fixed := false
		for _, f := range a.Fixed {
			if f == v {
				fixed = true
			}
		}
		if !fixed {
			vulns = append(vulns, v)
		}
	}
	vulns = append(vulns, a.Intro...)
	return guidedremediation.VerifC16Outcome{Reqs: reqs, VulnIDs: vulns}
}

type pgate struct {
	seq       int
	delivered bool     // ComputePatches' receiving loop has taken this attempt's (successful) result
	ids       []string // copy taken when PatchFunc was called
	after     []string // the caller's slice re-read after the gate opened
	ch        chan struct{}
}

type prun struct {
	mu       sync.Mutex
	nseq     int
	released []*pgate
	blocked  []*pgate
	events   int
	done     chan struct{}
	res      []result.Patch
	err      error
}

func (r *prun) settle(quiet time.Duration) {
	r.mu.Lock()
	last := r.events
	r.mu.Unlock()
	lastChange := time.Now()
	for time.Since(lastChange) < quiet {
		runtime.Gosched()
		r.mu.Lock()
		n := r.events
		r.mu.Unlock()
		if n != last {
			last = n
			lastChange = time.Now()
		}
		select {
		case <-r.done:
			return
		default:
		}
	}
}

func startCompute(c *pcfg) *prun {
	r := &prun{done: make(chan struct{})}
	gates := map[string]*pgate{}
	fn := func(ids []string) (guidedremediation.VerifC16Outcome, []string) {
		mine := append([]string(nil), ids...)
		g := &pgate{ids: mine, ch: make(chan struct{})}
		r.mu.Lock()
		g.seq = r.nseq
		r.nseq++
		gates[fmt.Sprint(g.seq)] = g
		r.blocked = append(r.blocked, g)
		r.events++
		r.mu.Unlock()
		<-g.ch
		// a strategy keeps reading its vulnIDs argument while it works: re-read the caller's slice now
		after := append([]string(nil), ids...)
		r.mu.Lock()
		g.after = after
		r.mu.Unlock()
		return c.outcomeOf(c.lookup(after)), []string{fmt.Sprint(g.seq)}
	}
	delivered := func(tag []string) {
		r.mu.Lock()
		if g := gates[tag[0]]; g != nil {
			g.delivered = true
		}
		r.events++
		r.mu.Unlock()
	}
	go func() {
		r.res, r.err = guidedremediation.VerifC16ComputePatchesObserved(resolve.NPM, baseReqs(), c.Base, fn, c.Group, delivered)
		close(r.done)
	}()
	return r
}

// enabledTasks: blocked attempts in canonical order.
func (r *prun) enabledTasks() []*pgate {
	r.mu.Lock()
	defer r.mu.Unlock()
	gs := append([]*pgate(nil), r.blocked...)
	sort.SliceStable(gs, func(i, j int) bool { return key(gs[i].ids) < key(gs[j].ids) })
	return gs
}

func (r *prun) release(g *pgate) {
	r.mu.Lock()
	for i, x := range r.blocked {
		if x == g {
			r.blocked = append(r.blocked[:i], r.blocked[i+1:]...)
			break
		}
	}
	r.released = append(r.released, g)
	r.events++
	r.mu.Unlock()
	close(g.ch)
}

// afterLists: what each released attempt saw in its argument slice once it was let go.
func (r *prun) afterLists() [][]string {
	r.mu.Lock()
	defer r.mu.Unlock()
	var out [][]string
	for _, g := range r.released {
		out = append(out, g.after)
	}
	return out
}

func (r *prun) abandon() {
	for i := 0; i < 200; i++ {
		select {
		case <-r.done:
			return
		default:
		}
		for _, g := range r.enabledTasks() {
			r.release(g)
		}
		time.Sleep(200 * time.Microsecond)
	}
}

func projectPatches(ps []result.Patch) []obsPatch {
	out := []obsPatch{}
	for _, p := range ps {
		o := obsPatch{Updates: []obsUpd{}, Fixed: []string{}, Intro: []string{}}
		for _, u := range p.PackageUpdates {
			o.Updates = append(o.Updates, obsUpd{u.Name, u.VersionFrom, u.VersionTo})
		}
		for _, v := range p.Fixed {
			o.Fixed = append(o.Fixed, v.ID)
		}
		for _, v := range p.Introduced {
			o.Intro = append(o.Intro, v.ID)
		}
		out = append(out, o)
	}
	return out
}

func samePatches(a, b []obsPatch) bool { return fmt.Sprint(a) == fmt.Sprint(b) }

// runComputeSchedule runs one complete schedule; choose picks among the enabled attempts at each depth.
// It returns the observed trace and the sizes of the enabled sets seen at each depth.
func runComputeSchedule(c *pcfg, quiet time.Duration, choose func(depth int, enabled []string) int) (ptraceObs, []obsPatch, bool) {
	r := startCompute(c)
	var tr ptraceObs
	depth := 0
	expect := len(c.Base)
	waitMax := time.Duration(timeoutScale) * 2 * time.Second
	if c.hintBroken {
		waitMax = time.Duration(timeoutScale) * 20 * time.Millisecond
	}
	for {
		// wait until as many attempts are parked as the harness's own reading of the table predicts (this only
		// makes the enumeration deterministic; the verdict comes from the Coq check of what was observed)
		var en []*pgate
		deadline := time.Now().Add(waitMax)
		for {
			select {
			case <-r.done:
				tr.After = r.afterLists()
				return tr, projectPatches(r.res), true
			default:
			}
			en = r.enabledTasks()
			if len(en) >= expect && len(en) > 0 {
				break
			}
			if time.Now().After(deadline) {
				if len(en) > 0 {
					waitMax = 20 * time.Millisecond // the prediction is off for this configuration: stop trusting it
					c.hintBroken = true
					break
				}
				tr.Stuck = true
				return tr, nil, true
			}
			runtime.Gosched()
		}
		r.settle(quiet)
		select {
		case <-r.done:
			tr.After = r.afterLists()
			return tr, projectPatches(r.res), true
		default:
		}
		en = r.enabledTasks()
		if depth > 0 {
			// attempts that appeared since the last release
			prev := map[string]int{}
			for _, k := range tr.lastEnabled {
				prev[k]++
			}
			var sp [][]string
			for _, g := range en {
				if prev[key(g.ids)] > 0 {
					prev[key(g.ids)]--
				} else {
					sp = append(sp, g.ids)
				}
			}
			tr.Spawned = append(tr.Spawned, sp)
		}
		var keys []string
		for _, g := range en {
			keys = append(keys, key(g.ids))
		}
		i := choose(depth, keys)
		if i < 0 || i >= len(en) {
			r.abandon()
			return tr, nil, false
		}
		tr.Order = append(tr.Order, en[i].ids)
		tr.lastEnabled = append(append([]string(nil), keys[:i]...), keys[i+1:]...)
		expect += c.expectedSpawn(en[i].ids) - 1
		g := en[i]
		r.release(g)
		// The order of release is the order of delivery only if the result has been received before the next
		// attempt is let go: ComputePatches' receiving loop reports the receipt of every successful result
		// (failed attempts leave no trace in the result list, their position does not matter).
		if a := c.lookup(g.ids); a != nil && a.Err == 0 {
			dl := time.Now().Add(time.Duration(timeoutScale) * time.Second)
			for {
				r.mu.Lock()
				ok := g.delivered
				r.mu.Unlock()
				if ok || time.Now().After(dl) {
					if !ok {
						tr.Unordered = true
					}
					break
				}
				select {
				case <-r.done:
					dl = time.Now()
				default:
				}
				runtime.Gosched()
			}
		}
		depth++
	}
}

// expectedSpawn: how many attempts the delivery of this one should start (scheduler hint only).
func (c *pcfg) expectedSpawn(ids []string) int {
	a := c.lookup(ids)
	if a == nil || a.Err != 0 || len(a.Updates) == 0 {
		return 0
	}
	n := 0
	for _, v := range a.Intro {
		in := false
		for _, id := range ids {
			if id == v {
				in = true
			}
		}
		if !in {
			n++
		}
	}
	if c.Group && n > 0 {
		return 1
	}
	return n
}

// confirmComputeTimeout: a run that timed out (stuck, or a delivery that was not seen) is only a candidate; the same
// completion order is executed again, alone, at 20x the patience.  Returns the confirming run and whether the
// timeout is confirmed.
func confirmComputeTimeout(c *pcfg, quiet time.Duration, want [][]string) (ptraceObs, []obsPatch, bool) {
	saved := c.hintBroken
	c.hintBroken = false
	timeoutScale = confirmScale
	tr, fin, ok := runComputeSchedule(c, 4*quiet, func(depth int, en []string) int {
		if depth >= len(want) {
			return 0 // beyond the recorded prefix: any order will do
		}
		for i, k := range en {
			if k == key(want[depth]) {
				return i
			}
		}
		return -1
	})
	timeoutScale = 1
	c.hintBroken = saved
	if !ok {
		// the order could not be followed again: neither confirmed nor usable
		loadInducedTimeouts++
		return tr, nil, false
	}
	if tr.Stuck || tr.Unordered {
		return tr, fin, true
	}
	loadInducedTimeouts++
	return tr, fin, false
}

// exploreCompute enumerates every completion order of the configuration.
func exploreCompute(c *pcfg, quiet time.Duration, limit int) *pcase {
	pc := &pcase{Cfg: *c}
	type level struct {
		enabled string
		n, idx  int
	}
	var stack []level
	for {
		if limit > 0 && len(pc.Traces) >= limit {
			pc.Truncated = true
			return pc
		}
		depthReached := 0
		diverged := false
		tr, fin, ok := runComputeSchedule(c, quiet, func(depth int, en []string) int {
			depthReached = depth + 1
			if depth < len(stack) {
				if strings.Join(en, ";") != stack[depth].enabled {
					diverged = true
					return -1
				}
			} else {
				stack = append(stack, level{enabled: strings.Join(en, ";"), n: len(en)})
			}
			return stack[depth].idx
		})
		if ok && !diverged && (tr.Stuck || tr.Unordered) {
			tr2, fin2, confirmed := confirmComputeTimeout(c, quiet, tr.Order)
			if confirmed || fin2 != nil {
				tr, fin = tr2, fin2
			} else {
				diverged = true
			}
		}
		if ok && !diverged && !tr.Unordered {
			// the last delivery's spawned set (nothing may be pending at the end)
			for len(tr.Spawned) < len(tr.Order) {
				tr.Spawned = append(tr.Spawned, nil)
			}
			idx := -1
			for i, f := range pc.Finals {
				if samePatches(f, fin) {
					idx = i
				}
			}
			if idx < 0 {
				pc.Finals = append(pc.Finals, fin)
				idx = len(pc.Finals) - 1
			}
			tr.Final = idx
			pc.Traces = append(pc.Traces, tr)
		}
		if depthReached < len(stack) {
			stack = stack[:depthReached]
		}
		for len(stack) > 0 {
			top := &stack[len(stack)-1]
			top.idx++
			if top.idx < top.n {
				break
			}
			stack = stack[:len(stack)-1]
		}
		if len(stack) == 0 {
			return pc
		}
	}
}

// ---------------------------------------------------------------- generation
func vid(s string) uint64 {
	var n uint64
	fmt.Sscanf(s[1:], "%d", &n)
	if s[0] == 'N' {
		n += 10
	}
	return n
}

func genTable(rnd *rand.Rand, stream string, nbase, maxTasks int, group bool) *pcfg {
	c := &pcfg{Stream: stream, Group: group}
	for i := 1; i <= nbase; i++ {
		c.Base = append(c.Base, fmt.Sprintf("V%d", i))
	}
	pickVer := func() string {
		switch stream {
		case "parse":
			all := append(append([]string{}, verUniverse...), verTies...)
			if rnd.Intn(8) == 0 {
				return verTies[0]
			}
			return all[rnd.Intn(len(verUniverse))]
		case "range":
			return verRanges[rnd.Intn(len(verRanges))]
		default: // mixed
			all := append(append(append([]string{}, verUniverse...), verTies...), verRanges...)
			return all[rnd.Intn(len(all))]
		}
	}
	queue := [][]string{}
	for _, v := range c.Base {
		queue = append(queue, []string{v})
	}
	budget := maxTasks - nbase
	for len(queue) > 0 {
		ids := queue[0]
		queue = queue[1:]
		a := attempt{IDs: ids}
		switch x := rnd.Intn(10); {
		case x == 0:
			a.Err = 1
		case x == 1:
			a.Err = 2
		default:
			nu := 1 + rnd.Intn(2)
			if rnd.Intn(9) == 0 {
				nu = 0 // a result without package updates is dropped
			}
			perm := rnd.Perm(len(pkgNames))
			for _, pi := range perm[:nu] {
				a.Updates = append(a.Updates, updSpec{pkgNames[pi], pickVer()})
			}
			// fixes the vulns it was asked about (mostly), sometimes another one too
			for _, v := range c.Base {
				in := false
				for _, id := range ids {
					if id == v {
						in = true
					}
				}
				if (in && rnd.Intn(6) != 0) || (!in && rnd.Intn(5) == 0) {
					a.Fixed = append(a.Fixed, v)
				}
			}
			// introduced vulnerabilities
			ni := 0
			if budget > 0 && rnd.Intn(2) == 0 {
				ni = 1 + rnd.Intn(2)
			}
			cand := []string{"N1", "N2", "N3"}
			rnd.Shuffle(len(cand), func(i, j int) { cand[i], cand[j] = cand[j], cand[i] })
			for _, n := range cand[:ni] {
				a.Intro = append(a.Intro, n)
			}
			sort.Strings(a.Intro)
			if nu > 0 {
				var newly []string
				for _, n := range a.Intro {
					in := false
					for _, id := range ids {
						if id == n {
							in = true
						}
					}
					if !in {
						newly = append(newly, n)
					}
				}
				if len(newly) > 0 {
					if group {
						if budget >= 1 {
							queue = append(queue, append(append([]string{}, ids...), newly...))
							budget--
						} else {
							a.Intro = nil
						}
					} else {
						if budget >= len(newly) {
							for _, n := range newly {
								queue = append(queue, append(append([]string{}, ids...), n))
							}
							budget -= len(newly)
						} else {
							a.Intro = nil
						}
					}
				}
			}
		}
		c.Table = append(c.Table, a)
	}
	return c
}

// tieCase: two attempts whose patches compare equal without being the same patch.
func tieCase(variant int) *pcfg {
	c := &pcfg{Stream: "tie", Group: true, Base: []string{"V1", "V2"}}
	switch variant {
	case 0: // same update, different (equally many) fixed vulnerabilities
		c.Table = []attempt{
			{IDs: []string{"V1"}, Updates: []updSpec{{"alpha", "2.0.0"}}, Fixed: []string{"V1"}},
			{IDs: []string{"V2"}, Updates: []updSpec{{"alpha", "2.0.0"}}, Fixed: []string{"V2"}}}
	default: // semver-equal spellings
		c.Table = []attempt{
			{IDs: []string{"V1"}, Updates: []updSpec{{"alpha", "2.0.0"}}, Fixed: []string{"V1", "V2"}},
			{IDs: []string{"V2"}, Updates: []updSpec{{"alpha", "2.0.0+b1"}}, Fixed: []string{"V1", "V2"}}}
	}
	return c
}

// deepCase: a chain of introduced vulnerabilities three deep whose 3-id attempt introduces several new ones
// (non-grouped mode, as the relax strategy runs it): the follow-up attempts are siblings built from one
// 3-element id slice.
func deepCase(variant int) *pcfg {
	c := &pcfg{Stream: "deep", Group: false, Base: []string{"V1", "V2"}}
	sibs := []string{"N3", "N4"}
	if variant == 2 {
		sibs = []string{"N3", "N4", "N5"}
	}
	c.Table = []attempt{
		{IDs: []string{"V1"}, Updates: []updSpec{{"alpha", "1.0.0"}}, Fixed: []string{"V1"}, Intro: []string{"N1"}},
	}
	if variant == 0 {
		c.Table = append(c.Table, attempt{IDs: []string{"V2"}, Err: 1})
	} else {
		c.Table = append(c.Table, attempt{IDs: []string{"V2"}, Updates: []updSpec{{"beta", "1.0.0"}}, Fixed: []string{"V2"}})
	}
	c.Table = append(c.Table,
		attempt{IDs: []string{"V1", "N1"}, Updates: []updSpec{{"alpha", "1.0.1"}}, Fixed: []string{"V1"}, Intro: []string{"N1", "N2"}},
		attempt{IDs: []string{"V1", "N1", "N2"}, Updates: []updSpec{{"alpha", "1.1.0"}}, Fixed: []string{"V1"}, Intro: sibs})
	tos := []string{"2.0.0", "10.0.0", "2.0.0"}
	names := []string{"alpha", "alpha", "gamma"}
	for i, n := range sibs {
		c.Table = append(c.Table, attempt{IDs: []string{"V1", "N1", "N2", n}, Updates: []updSpec{{names[i], tos[i]}}, Fixed: []string{"V1"}})
	}
	return c
}

// wideCase: a task tree with more than 4 attempts per initial vulnerability (ungrouped): V1's attempt
// introduces three vulnerabilities, each follow-up introduces two more.  2 + 3 + 6 = 11 attempts for 2 initial
// vulnerabilities (variant 1: 3 initial vulnerabilities, 15 attempts).
func wideCase(variant int) *pcfg {
	c := &pcfg{Stream: "wide", Group: false, Base: []string{"V1", "V2"}}
	c.Table = []attempt{
		{IDs: []string{"V1"}, Updates: []updSpec{{"alpha", "1.0.0"}}, Fixed: []string{"V1"}, Intro: []string{"N1", "N2", "N3"}},
		{IDs: []string{"V2"}, Updates: []updSpec{{"beta", "1.0.0"}}, Fixed: []string{"V2"}},
	}
	if variant == 1 {
		c.Base = append(c.Base, "V3")
		c.Table = append(c.Table, attempt{IDs: []string{"V3"}, Updates: []updSpec{{"gamma", "1.0.0"}}, Fixed: []string{"V3"},
			Intro: []string{"N1", "N2", "N3"}})
	}
	vers := []string{"1.0.1", "1.1.0", "2.0.0", "10.0.0"}
	grand := map[string][]string{"N1": {"N4", "N5"}, "N2": {"N6", "N7"}, "N3": {"N8", "N9"}}
	roots := []string{"V1"}
	if variant == 1 {
		roots = append(roots, "V3")
	}
	pk := map[string]string{"V1": "alpha", "V3": "gamma"}
	for _, root := range roots {
		for i, n := range []string{"N1", "N2", "N3"} {
			c.Table = append(c.Table, attempt{IDs: []string{root, n}, Updates: []updSpec{{pk[root], vers[i]}, {"beta", vers[i]}},
				Fixed: []string{root}, Intro: grand[n]})
			for j, g := range grand[n] {
				third := "gamma"
				if pk[root] == "gamma" {
					third = "alpha"
				}
				c.Table = append(c.Table, attempt{IDs: []string{root, n, g},
					Updates: []updSpec{{pk[root], vers[(i+j+1)%4]}, {"beta", vers[(i+2*j+2)%4]}, {third, vers[i]}},
					Fixed:   []string{root}})
			}
		}
	}
	return c
}

// sampleCompute runs n seeded random completion orders of a configuration whose order space is too large
// to enumerate.
func sampleCompute(c *pcfg, quiet time.Duration, n int, rnd *rand.Rand) *pcase {
	pc := &pcase{Cfg: *c, Truncated: true}
	seen := map[string]bool{}
	for i := 0; i < 3*n && len(pc.Traces) < n; i++ {
		tr, fin, ok := runComputeSchedule(c, quiet, func(depth int, en []string) int { return rnd.Intn(len(en)) })
		if ok && (tr.Stuck || tr.Unordered) {
			tr2, fin2, confirmed := confirmComputeTimeout(c, quiet, tr.Order)
			if confirmed || fin2 != nil {
				tr, fin = tr2, fin2
			} else {
				continue
			}
		}
		if !ok || tr.Unordered {
			continue
		}
		k := fmt.Sprint(tr.Order)
		if seen[k] {
			continue
		}
		seen[k] = true
		for len(tr.Spawned) < len(tr.Order) {
			tr.Spawned = append(tr.Spawned, nil)
		}
		idx := -1
		for j, f := range pc.Finals {
			if samePatches(f, fin) {
				idx = j
			}
		}
		if idx < 0 {
			pc.Finals = append(pc.Finals, fin)
			idx = len(pc.Finals) - 1
		}
		tr.Final = idx
		pc.Traces = append(pc.Traces, tr)
	}
	return pc
}

func genComputeCases(seed int64, tier string, quiet time.Duration) ([]*pcase, map[string]int) {
	rnd := rand.New(rand.NewSource(seed))
	stats := map[string]int{}
	var cases []*pcase
	nPer := 7
	limit := 130
	if tier == "thorough" {
		nPer = 40
		limit = 800
	}
	for _, stream := range []string{"parse", "range", "mixed"} {
		for i := 0; i < nPer; i++ {
			nbase := 2 + rnd.Intn(3)
			maxTasks := nbase + rnd.Intn(3)
			if maxTasks > 6 {
				maxTasks = 6
			}
			group := rnd.Intn(2) == 0
			if stream == "range" {
				group = rnd.Intn(4) == 0 // relax does not group
			}
			c := genTable(rnd, stream, nbase, maxTasks, group)
			pc := exploreCompute(c, quiet, limit)
			cases = append(cases, pc)
			stats["schedules_"+stream] += len(pc.Traces)
			stats[fmt.Sprintf("tasks_%d", len(c.Table))]++
			if pc.Truncated {
				stats["truncated_cases"]++
			}
		}
	}
	for v := 0; v < 2; v++ {
		pc := exploreCompute(tieCase(v), quiet, limit)
		cases = append(cases, pc)
		stats["schedules_tie"] += len(pc.Traces)
	}
	nSample := 50
	if tier == "thorough" {
		nSample = 400
	}
	for v := 0; v < 2; v++ {
		pc := sampleCompute(wideCase(v), quiet, nSample, rnd)
		cases = append(cases, pc)
		stats["schedules_wide_sampled"] += len(pc.Traces)
		stats[fmt.Sprintf("tasks_%d", len(pc.Cfg.Table))]++
	}
	for v := 0; v < 3; v++ {
		pc := exploreCompute(deepCase(v), quiet, limit)
		cases = append(cases, pc)
		stats["schedules_deep"] += len(pc.Traces)
		stats[fmt.Sprintf("tasks_%d", len(pc.Cfg.Table))]++
	}
	stats["load_induced_timeouts"] = loadInducedTimeouts
	return cases, stats
}

// ---------------------------------------------------------------- Coq printing
func coqIDs(ids []string) string {
	var xs []string
	for _, s := range ids {
		xs = append(xs, cf.N(vid(s)))
	}
	if len(xs) == 0 {
		return "(@nil N)"
	}
	return cf.List(xs)
}

func coqUpd(name, from, to string) string {
	ok, r := verRank(to)
	rk := "None"
	if ok {
		rk = "(Some " + cf.Z(r) + ")"
	}
	return fmt.Sprintf("mkupd %s %s %s %s", cf.Str(name), cf.Str(from), cf.Str(to), rk)
}

func coqObsPatch(p obsPatch) string {
	var us []string
	for _, u := range p.Updates {
		us = append(us, coqUpd(u.Name, u.From, u.To))
	}
	ul := "(@nil pupdate)"
	if len(us) > 0 {
		ul = cf.List(us)
	}
	return fmt.Sprintf("mkpatch %s %s %s", ul, coqIDs(p.Fixed), coqIDs(p.Intro))
}

// intended patch of a table entry, as ConstructPatches is expected to build it
func coqAttempt(c *pcfg, a *attempt) string {
	if a.Err != 0 {
		return fmt.Sprintf("(%s, TErr)", coqIDs(a.IDs))
	}
	ups := append([]updSpec(nil), a.Updates...)
	sort.Slice(ups, func(i, j int) bool { return ups[i].Name < ups[j].Name })
	var us []string
	for _, u := range ups {
		if u.To == baseVersion {
			continue
		}
		us = append(us, coqUpd(u.Name, baseVersion, u.To))
	}
	ul := "(@nil pupdate)"
	if len(us) > 0 {
		ul = cf.List(us)
	}
	fixed := append([]string(nil), a.Fixed...)
	sort.Strings(fixed)
	intro := append([]string(nil), a.Intro...)
	sort.Strings(intro)
	return fmt.Sprintf("(%s, TOk (mkpatch %s %s %s))", coqIDs(a.IDs), ul, coqIDs(fixed), coqIDs(intro))
}

func coqTaskList(ts [][]string) string {
	var xs []string
	for _, t := range ts {
		xs = append(xs, coqIDs(t))
	}
	if len(xs) == 0 {
		return "(@nil task)"
	}
	return cf.List(xs)
}

func computeCoqCase(pc *pcase) string {
	var tbl, trs, fins []string
	for i := range pc.Cfg.Table {
		tbl = append(tbl, coqAttempt(&pc.Cfg, &pc.Cfg.Table[i]))
	}
	for _, t := range pc.Traces {
		fi := t.Final
		if t.Stuck {
			fi = 9999
		}
		trs = append(trs, fmt.Sprintf("mkpt %s %s %d", coqTaskList(t.Order), coqTaskList(t.After), fi))
	}
	for _, f := range pc.Finals {
		var ps []string
		for _, p := range f {
			ps = append(ps, coqObsPatch(p))
		}
		if len(ps) == 0 {
			fins = append(fins, "(@nil patch)")
		} else {
			fins = append(fins, cf.List(ps))
		}
	}
	trl := "(@nil ptrace)"
	if len(trs) > 0 {
		trl = "[" + strings.Join(trs, ";\n      ") + "]"
	}
	return fmt.Sprintf("mkpc %s %s %s\n     %s\n     %s", cf.Bool(pc.Cfg.Group), coqIDs(pc.Cfg.Base), cf.List(tbl), trl, cf.List(fins))
}

// replayCompute re-runs the recorded completion orders of a case.
func replayCompute(pc *pcase, quiet time.Duration) *pcase {
	out := &pcase{Cfg: pc.Cfg}
	timeoutScale = confirmScale // a replay is a single schedule: be patient from the start
	defer func() { timeoutScale = 1 }()
	for _, t := range pc.Traces {
		want := t.Order
		tr, fin, ok := runComputeSchedule(&pc.Cfg, quiet, func(depth int, en []string) int {
			if depth >= len(want) {
				return -1
			}
			for i, k := range en {
				if k == key(want[depth]) {
					return i
				}
			}
			return -1
		})
		if !ok {
			tr.Stuck = true
		}
		for len(tr.Spawned) < len(tr.Order) {
			tr.Spawned = append(tr.Spawned, nil)
		}
		idx := -1
		for i, f := range out.Finals {
			if samePatches(f, fin) {
				idx = i
			}
		}
		if idx < 0 {
			out.Finals = append(out.Finals, fin)
			idx = len(out.Finals) - 1
		}
		tr.Final = idx
		out.Traces = append(out.Traces, tr)
	}
	return out
}

// ---------------------------------------------------------------- Patch.Compare on a list of patches
type cmpInput struct {
	Patches []obsPatch `json:"patches"`
}

func compareMatrix(in cmpInput) [][]int {
	sys := resolve.NPM.Semver()
	var ps []result.Patch
	for _, o := range in.Patches {
		var p result.Patch
		for _, u := range o.Updates {
			p.PackageUpdates = append(p.PackageUpdates, result.PackageUpdate{Name: u.Name, VersionFrom: u.From, VersionTo: u.To})
		}
		for _, v := range o.Fixed {
			p.Fixed = append(p.Fixed, result.Vuln{ID: v})
		}
		for _, v := range o.Intro {
			p.Introduced = append(p.Introduced, result.Vuln{ID: v})
		}
		ps = append(ps, p)
	}
	m := make([][]int, len(ps))
	for i := range ps {
		for j := range ps {
			m[i] = append(m[i], ps[i].Compare(ps[j], sys))
		}
	}
	return m
}

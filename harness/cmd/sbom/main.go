// Command sbom is the C15 harness: generated inventories -> real converter.ToSPDX23 / ToCDX ->
// real spdx.Write23 / cdx.Write into files with the proper extensions -> real filesystem.Run with the
// library's own SBOM extractors -> multiset of package URLs. The third-party codecs are validated per
// case by decoding every written file and comparing the reference / purl fields with the encoded ones.
package main

import (
	"context"
	"crypto/sha256"
	"encoding/base64"
	"encoding/json"
	"flag"
	"fmt"
	"math/rand"
	"os"
	"path/filepath"
	"strings"
	"time"
	"unicode/utf8"

	"github.com/CycloneDX/cyclonedx-go"
	scalibr "github.com/google/osv-scalibr"
	bcdx "github.com/google/osv-scalibr/binary/cdx"
	bspdx "github.com/google/osv-scalibr/binary/spdx"
	"github.com/google/osv-scalibr/converter"
	"github.com/google/osv-scalibr/extractor"
	"github.com/google/osv-scalibr/extractor/filesystem"
	cdxe "github.com/google/osv-scalibr/extractor/filesystem/sbom/cdx"
	spdxe "github.com/google/osv-scalibr/extractor/filesystem/sbom/spdx"
	scalibrfs "github.com/google/osv-scalibr/fs"
	"github.com/google/osv-scalibr/inventory"
	"github.com/google/osv-scalibr/log"
	"github.com/google/osv-scalibr/plugin"
	"github.com/google/osv-scalibr/purl"
	"github.com/google/osv-scalibr/stats"
	"github.com/package-url/packageurl-go"
	spdxjson "github.com/spdx/tools-golang/json"
	"github.com/spdx/tools-golang/spdx"
	"github.com/spdx/tools-golang/tagvalue"
	spdxyaml "github.com/spdx/tools-golang/yaml"

	cf "verifharness/internal/coqfmt"
)

type quietLogger struct{}

func (quietLogger) Errorf(string, ...any) {}
func (quietLogger) Warnf(string, ...any)  {}
func (quietLogger) Infof(string, ...any)  {}
func (quietLogger) Debugf(string, ...any) {}
func (quietLogger) Error(...any)          {}
func (quietLogger) Warn(...any)           {}
func (quietLogger) Info(...any)           {}
func (quietLogger) Debug(...any)          {}

// S is a Go string that survives JSON even when it is not valid UTF-8.
type S string

func (s S) MarshalJSON() ([]byte, error) {
	if utf8.ValidString(string(s)) && !strings.HasPrefix(string(s), "\x00b64:") {
		return json.Marshal(string(s))
	}
	return json.Marshal("\x00b64:" + base64.StdEncoding.EncodeToString([]byte(s)))
}
func (s *S) UnmarshalJSON(b []byte) error {
	var x string
	if err := json.Unmarshal(b, &x); err != nil {
		return err
	}
	if strings.HasPrefix(x, "\x00b64:") {
		d, err := base64.StdEncoding.DecodeString(x[5:])
		if err != nil {
			return err
		}
		x = string(d)
	}
	*s = S(x)
	return nil
}

type purlJ struct {
	Type       S      `json:"type"`
	Namespace  S      `json:"namespace,omitempty"`
	Name       S      `json:"name"`
	Version    S      `json:"version,omitempty"`
	Qualifiers [][2]S `json:"qualifiers,omitempty"`
	Subpath    S      `json:"subpath,omitempty"`
}

type pkgJ struct {
	Name      S      `json:"name"`
	Version   S      `json:"version"`
	Locations []S    `json:"locations"`
	Extractor S      `json:"extractor"`
	Kind      string `json:"kind"` // fake | spdx | cdx (metadata type; the last two can carry CPEs)
	Purl      *purlJ `json:"purl"`
	PurlStr   S      `json:"purl_string,omitempty"`
	CPEs      []S    `json:"cpes,omitempty"`
}

type obsJ struct {
	Format  string   `json:"format"`
	File    string   `json:"file"`
	Err     string   `json:"error,omitempty"` // write or scan failure
	Purls   []*purlJ `json:"purls"`           // ToPURL of every package the SBOM extractor returned (nil purls dropped)
	NoPurl  int      `json:"packages_without_purl"`
	CodecOK bool     `json:"codec_ok"`
	CodecNote string `json:"codec_note,omitempty"`
}

type caseJ struct {
	Files  map[string]string `json:"files,omitempty"` // format -> file name the document is written to
	Before []pkgJ            `json:"exported_before_to_the_same_paths,omitempty"` // a larger inventory written first
	Stream string  `json:"stream"`
	Pkgs   []pkgJ  `json:"packages"`
	Spdx   []obsJ  `json:"spdx"`
	Cdx    []obsJ  `json:"cdx"`
}

// ---------------------------------------------------------------- packages

type fakeMeta struct{ purl *purl.PackageURL }
type fakeExtractor struct{ name string }

func (f fakeExtractor) Name() string                       { return f.name }
func (f fakeExtractor) Version() int                       { return 0 }
func (f fakeExtractor) Requirements() *plugin.Capabilities { return &plugin.Capabilities{} }
func (f fakeExtractor) ToPURL(p *extractor.Package) *purl.PackageURL {
	return p.Metadata.(*fakeMeta).purl
}
func (f fakeExtractor) Ecosystem(p *extractor.Package) string { return "" }

func fromPurlJ(j *purlJ) *purl.PackageURL {
	if j == nil {
		return nil
	}
	p := &purl.PackageURL{Type: string(j.Type), Namespace: string(j.Namespace), Name: string(j.Name), Version: string(j.Version), Subpath: string(j.Subpath)}
	for _, q := range j.Qualifiers {
		p.Qualifiers = append(p.Qualifiers, packageurl.Qualifier{Key: string(q[0]), Value: string(q[1])})
	}
	return p
}
func toPurlJ(p *purl.PackageURL) *purlJ {
	if p == nil {
		return nil
	}
	j := &purlJ{Type: S(p.Type), Namespace: S(p.Namespace), Name: S(p.Name), Version: S(p.Version), Subpath: S(p.Subpath)}
	for _, q := range p.Qualifiers {
		j.Qualifiers = append(j.Qualifiers, [2]S{S(q.Key), S(q.Value)})
	}
	return j
}

func build(j *pkgJ) *extractor.Package {
	p := &extractor.Package{Name: string(j.Name), Version: string(j.Version)}
	for _, l := range j.Locations {
		p.Locations = append(p.Locations, string(l))
	}
	var cpes []string
	for _, c := range j.CPEs {
		cpes = append(cpes, string(c))
	}
	switch j.Kind {
	case "spdx":
		p.Metadata, p.Extractor = &spdxe.Metadata{PURL: fromPurlJ(j.Purl), CPEs: cpes}, spdxe.New()
	case "cdx":
		p.Metadata, p.Extractor = &cdxe.Metadata{PURL: fromPurlJ(j.Purl), CPEs: cpes}, cdxe.New()
	default:
		p.Metadata, p.Extractor = &fakeMeta{purl: fromPurlJ(j.Purl)}, fakeExtractor{name: string(j.Extractor)}
	}
	return p
}

// ---------------------------------------------------------------- generator

// text that needs escaping in at least one of JSON, YAML, XML, tag-value, or percent-encoding in a purl
var escText = []string{"simple", "Mixed_Case.Name", "with space", " lead", "trail ", "quo\"te", "apo'strophe", "<tag>", "a&b", "&amp;", "back\\slash",
	"hash#tag", "colon: value", "- dash", "{brace}", "[bracket]", "a,b", "pct%20", "100%", "plus+", "at@", "q?x=1", "semi;colon", "pipe|", "star*", "tilde~",
	"é", "日本語", "emoji😀", "tab\tsep", "true", "null", "123", "1e3", "~", "!tag", "%YAML", "---", "]]>", "<!--", "<text>", "</text>", "key: - [x]", "a/b", "@scope", "ünïcode/ns"}

// harder: line breaks and control characters (tag-value and XML have no way to carry some of them)
var hostileText = []string{"line\nbreak", "cr\rlf", "nul\x00byte", "bell\x07", "\x1b[31m", "\xff\xfe", "trailing\n", " sep", "<text>multi\nline</text>"}

var goodKeys = []string{"arch", "distro", "epoch", "origin", "source", "sourceversion", "sourcerpm", "buildnumber", "classifier", "type", "channel", "repository_url", "k.e-y_1"}
var badKeys = []string{"", "1bad", "ba d", "sla/sh", "é"}

func pick(r *rand.Rand, l []string) string { return l[r.Intn(len(l))] }

func genPurl(r *rand.Rand, types []string, malformed, hostile bool) *purlJ {
	text := escText
	if hostile && r.Intn(3) == 0 {
		text = hostileText
	}
	p := &purlJ{Type: S(pick(r, types)), Name: S(pick(r, text)), Version: S(pick(r, append(text, "1.0.0", "2:1.2-3+b1", "1.0.0-rc.1+build.5", "v1")))}
	if r.Intn(10) == 0 {
		p.Type = S(strings.ToUpper(string(p.Type)))
	}
	if r.Intn(12) == 0 {
		p.Version = ""
	}
	switch r.Intn(4) {
	case 0:
		p.Namespace = S(pick(r, []string{"org", "Org/Sub", "a/b/c", "@scope", "github.com/user", "ünïcode/ns", "with space/x", "ubuntu"}))
	case 1:
		p.Namespace = S(pick(r, text))
	}
	if r.Intn(3) == 0 {
		used := map[string]bool{}
		for i := 1 + r.Intn(3); i > 0; i-- {
			k := pick(r, goodKeys)
			if used[strings.ToLower(k)] {
				continue
			}
			used[strings.ToLower(k)] = true
			if r.Intn(8) == 0 {
				k = strings.ToUpper(k[:1]) + k[1:]
			}
			p.Qualifiers = append(p.Qualifiers, [2]S{S(k), S(pick(r, append(text, "amd64", "debian-12", "", "https://x.azureml.example/a")))})
		}
	}
	if r.Intn(5) == 0 {
		p.Subpath = S(pick(r, []string{"src/main", "a/b", "/lead/", "with space/x", "é/日本", "a//b", pick(r, text)}))
	}
	// type specific requirements of packageurl-go, satisfied in the well-formed stream
	lt := strings.ToLower(string(p.Type))
	if !malformed {
		switch lt {
		case "conan":
			hasCh := false
			for _, q := range p.Qualifiers {
				if strings.ToLower(string(q[0])) == "channel" && q[1] != "" {
					hasCh = true
				}
			}
			if p.Namespace != "" && !hasCh {
				p.Namespace = ""
			}
			if p.Namespace == "" && hasCh {
				p.Namespace = "user"
			}
		case "swift":
			if p.Namespace == "" {
				p.Namespace = "github.com/apple"
			}
			if p.Version == "" {
				p.Version = "1.0"
			}
		case "cran":
			if p.Version == "" {
				p.Version = "1.0"
			}
		}
	} else {
		switch r.Intn(6) {
		case 0:
			p.Type = S(pick(r, []string{"notatype", "gradle", "x", "1abc", "n/pm", "", "type with space"}))
		case 1:
			p.Qualifiers = append(p.Qualifiers, [2]S{S(pick(r, badKeys)), "v"})
		case 2:
			p.Qualifiers = append(p.Qualifiers, [2]S{"arch", "a"}, [2]S{"Arch", "b"})
		case 3:
			p.Name = ""
		case 4:
			p.Subpath = S(pick(r, []string{"a/../b", "./a", ".."}))
		case 5:
			p.Type, p.Namespace, p.Qualifiers = "conan", "user", nil
		}
	}
	return p
}

// names that collide with what the exporter itself puts into a document: the synthetic root package ("main",
// SPDXRef-Package-main-<uuid>), the default document name, NOASSERTION, and names that sanitise to the same SPDX id
var collidingNames = []string{"main", "main-utils", "main_lib", "main/x", "Main", "main-", "NOASSERTION", "SCALIBR-generated SPDX", "Document",
	"DOCUMENT", "SPDXRef-Document", "Package-main-x", "a b", "a-b", "a_b", "a.b", "SCALIBR", "0"}

func genCase(r *rand.Rand, types []string, stream string) *caseJ {
	c := &caseJ{Stream: stream, Files: map[string]string{}}
	for _, f := range append(append([][2]string{}, spdxFormats...), cdxFormats...) {
		c.Files[f[0]] = fileNameFor(r, f[0], f[1])
	}
	n := []int{0, 1, 1, 2, 3, 4, 6, 9, 12}[r.Intn(9)]
	malformed := stream == "malformed"
	hostile := stream == "hostile-text"
	text := escText
	for i := 0; i < n; i++ {
		j := pkgJ{Kind: "fake", Extractor: S(pick(r, []string{"os/dpkg", "python/wheelegg", "fake ext <&>"}))}
		tx := text
		if hostile && r.Intn(3) == 0 {
			tx = hostileText
		}
		j.Name, j.Version = S(pick(r, tx)), S(pick(r, append(tx, "1.0", "")))
		for k := []int{1, 1, 1, 2, 3, 0}[r.Intn(6)]; k > 0; k-- {
			j.Locations = append(j.Locations, S("dir/"+pick(r, tx)))
		}
		switch r.Intn(10) {
		case 0:
			// no purl at all
		case 1, 2:
			j.Kind = []string{"spdx", "cdx"}[r.Intn(2)]
			j.Extractor = S(map[string]string{"spdx": spdxe.Name, "cdx": cdxe.Name}[j.Kind])
			if r.Intn(3) > 0 {
				j.Purl = genPurl(r, types, malformed && r.Intn(2) == 0, hostile)
			}
			for k := r.Intn(3); k > 0; k-- {
				j.CPEs = append(j.CPEs, S("cpe:2.3:a:"+pick(r, []string{"vendor", "v&x", "é"})+":prod:1.0:*:*:*:*:*:*:*"))
			}
		default:
			j.Purl = genPurl(r, types, malformed && r.Intn(2) == 0, hostile)
		}
		if r.Intn(5) == 0 {
			// collide with the exporter's own identifiers
			nm := S(pick(r, collidingNames))
			j.Name = nm
			if j.Purl != nil && !malformed {
				j.Purl.Name = nm
			}
		}
		c.Pkgs = append(c.Pkgs, j)
	}
	if stream == "overwrite" {
		// the earlier export: this inventory plus several more packages (a strictly longer document in every format)
		c.Before = append([]pkgJ{}, c.Pkgs...)
		for k := 3 + r.Intn(6); k > 0; k-- {
			j := pkgJ{Kind: "fake", Extractor: "os/dpkg", Name: S("earlier-package-with-a-long-name-" + pick(r, text)), Version: "9.9.9", Locations: []S{"var/lib/dpkg/status", "usr/share/doc/earlier"}}
			j.Purl = genPurl(r, types, false, false)
			c.Before = append(c.Before, j)
		}
	}
	if stream == "duplicates" && len(c.Pkgs) > 0 {
		for k := 1 + r.Intn(3); k > 0; k-- {
			c.Pkgs = append(c.Pkgs, c.Pkgs[r.Intn(len(c.Pkgs))])
		}
	}
	return c
}

// ---------------------------------------------------------------- run

var spdxFormats = [][2]string{{"spdx23-json", ".spdx.json"}, {"spdx23-yaml", ".spdx.yml"}, {"spdx23-tag-value", ".spdx"}}
var cdxFormats = [][2]string{{"cdx-json", ".cdx.json"}, {"cdx-xml", ".cdx.xml"}}

// The file name is the caller's choice: everything the extractors' FileRequired documents is used (any base name
// with the format's compound extension, case-insensitively; bom.json / bom.xml for CycloneDX), in sub-directories too.
var fileStems = []string{"out", "scan-2026.09.30", "host01.example.com", "app-v1.2", ".hidden", "UPPER.Case", "with space", "a.b.c.d", "sbom", "x.json", "é"}

func fileNameFor(r *rand.Rand, format, ext string) string {
	name := pick(r, fileStems) + ext
	switch r.Intn(8) {
	case 0:
		name = strings.ToUpper(name)
	case 1:
		if format == "cdx-json" {
			name = pick(r, []string{"bom.json", "BOM.json"})
		} else if format == "cdx-xml" {
			name = pick(r, []string{"bom.xml", "Bom.XML"})
		}
	}
	if r.Intn(3) == 0 {
		name = filepath.Join(pick(r, []string{"sub", "a.b/c", "reports/2026.10"}), name)
	}
	return name
}

func safe(f func()) (msg string) {
	defer func() {
		if r := recover(); r != nil {
			msg = "panic: " + fmt.Sprint(r)
		}
	}()
	f()
	return ""
}

func scan(dir string, ex filesystem.Extractor) ([]*extractor.Package, string) {
	ctx, cancel := context.WithTimeout(context.Background(), 60*time.Second)
	defer cancel()
	var inv inventory.Inventory
	var st []*plugin.Status
	var err error
	if m := safe(func() {
		inv, st, err = filesystem.Run(ctx, &filesystem.Config{Extractors: []filesystem.Extractor{ex},
			ScanRoots: []*scalibrfs.ScanRoot{{FS: scalibrfs.DirFS(dir), Path: dir}}, Stats: stats.NoopCollector{}})
	}); m != "" {
		return nil, m
	}
	if err != nil {
		return nil, "scan error: " + err.Error()
	}
	for _, s := range st {
		if s.Status == nil || s.Status.Status != plugin.ScanStatusSucceeded {
			return nil, "extractor status: " + s.Status.String()
		}
	}
	return inv.Packages, ""
}

func collect(o *obsJ, pkgs []*extractor.Package) {
	o.Purls = []*purlJ{}
	for _, p := range pkgs {
		var pu *purl.PackageURL
		if m := safe(func() { pu = converter.ToPURL(p) }); m != "" {
			o.Err = "ToPURL " + m
			return
		}
		if pu == nil {
			o.NoPurl++
		} else {
			o.Purls = append(o.Purls, toPurlJ(pu))
		}
	}
}

func runCase(c *caseJ, tmp string) {
	var pkgs []*extractor.Package
	for i := range c.Pkgs {
		p := build(&c.Pkgs[i])
		pkgs = append(pkgs, p)
		if pu := converter.ToPURL(p); pu != nil {
			c.Pkgs[i].PurlStr = S(pu.String())
		}
	}
	sr := &scalibr.ScanResult{Version: "verif", StartTime: time.Unix(1700000000, 0), EndTime: time.Unix(1700000001, 0),
		Status: &plugin.ScanStatus{Status: plugin.ScanStatusSucceeded}, Inventory: inventory.Inventory{Packages: pkgs}}
	c.Spdx, c.Cdx = nil, nil
	// export history: an earlier, larger inventory was written to the very same paths
	var before *scalibr.ScanResult
	if len(c.Before) > 0 {
		var bp []*extractor.Package
		for i := range c.Before {
			bp = append(bp, build(&c.Before[i]))
		}
		before = &scalibr.ScanResult{Version: "verif", StartTime: time.Unix(1700000000, 0), EndTime: time.Unix(1700000001, 0),
			Status: &plugin.ScanStatus{Status: plugin.ScanStatusSucceeded}, Inventory: inventory.Inventory{Packages: bp}}
	}
	fileOf := func(format, ext string) string {
		if n, ok := c.Files[format]; ok && n != "" {
			return n
		}
		return "out" + ext
	}
	for _, f := range spdxFormats {
		f = [2]string{f[0], fileOf(f[0], f[1])}
		o := obsJ{Format: f[0], File: f[1]}
		dir := filepath.Join(tmp, f[0])
		os.RemoveAll(dir)
		os.MkdirAll(filepath.Dir(filepath.Join(dir, f[1])), 0o755)
		var doc *spdx.Document
		if before != nil {
			safe(func() { bspdx.Write23(converter.ToSPDX23(before, converter.SPDXConfig{}), filepath.Join(dir, f[1]), f[0]) })
		}
		if m := safe(func() { doc = converter.ToSPDX23(sr, converter.SPDXConfig{}) }); m != "" {
			o.Err = "ToSPDX23 " + m
		} else if err := bspdx.Write23(doc, filepath.Join(dir, f[1]), f[0]); err != nil {
			o.Err = "Write23: " + err.Error()
		} else {
			// codec validation: decode with the matching reader, compare the reference fields
			o.CodecOK, o.CodecNote = spdxCodecOK(doc, filepath.Join(dir, f[1]), f[0])
			got, e := scan(dir, spdxe.New())
			if e != "" {
				o.Err = e
			} else {
				collect(&o, got)
			}
		}
		c.Spdx = append(c.Spdx, o)
	}
	for _, f := range cdxFormats {
		f = [2]string{f[0], fileOf(f[0], f[1])}
		o := obsJ{Format: f[0], File: f[1]}
		dir := filepath.Join(tmp, f[0])
		os.RemoveAll(dir)
		os.MkdirAll(filepath.Dir(filepath.Join(dir, f[1])), 0o755)
		var bom *cyclonedx.BOM
		if before != nil {
			safe(func() {
				bcdx.Write(converter.ToCDX(before, converter.CDXConfig{ComponentName: "verif", ComponentVersion: "0"}), filepath.Join(dir, f[1]), f[0])
			})
		}
		if m := safe(func() { bom = converter.ToCDX(sr, converter.CDXConfig{ComponentName: "verif", ComponentVersion: "0"}) }); m != "" {
			o.Err = "ToCDX " + m
		} else if err := bcdx.Write(bom, filepath.Join(dir, f[1]), f[0]); err != nil {
			o.Err = "cdx.Write: " + err.Error()
		} else {
			o.CodecOK, o.CodecNote = cdxCodecOK(bom, filepath.Join(dir, f[1]), f[0])
			got, e := scan(dir, cdxe.New())
			if e != "" {
				o.Err = e
			} else {
				collect(&o, got)
			}
		}
		c.Cdx = append(c.Cdx, o)
	}
}

func spdxCodecOK(doc *spdx.Document, path, format string) (bool, string) {
	f, err := os.Open(path)
	if err != nil {
		return false, err.Error()
	}
	defer f.Close()
	var back *spdx.Document
	switch format {
	case "spdx23-json":
		back, err = spdxjson.Read(f)
	case "spdx23-yaml":
		back, err = spdxyaml.Read(f)
	default:
		back, err = tagvalue.Read(f)
	}
	if err != nil {
		return false, "decode: " + err.Error()
	}
	if len(back.Packages) != len(doc.Packages) {
		return false, fmt.Sprintf("decoded %d packages, encoded %d", len(back.Packages), len(doc.Packages))
	}
	for i, p := range doc.Packages {
		b := back.Packages[i]
		if len(b.PackageExternalReferences) != len(p.PackageExternalReferences) {
			return false, fmt.Sprintf("package %d: %d references decoded, %d encoded", i, len(b.PackageExternalReferences), len(p.PackageExternalReferences))
		}
		for k, r := range p.PackageExternalReferences {
			if b.PackageExternalReferences[k].RefType != r.RefType || b.PackageExternalReferences[k].Locator != r.Locator {
				return false, fmt.Sprintf("package %d reference %d: %q %q decoded from %q %q", i, k, b.PackageExternalReferences[k].RefType, b.PackageExternalReferences[k].Locator, r.RefType, r.Locator)
			}
		}
	}
	return true, ""
}

func cdxCodecOK(bom *cyclonedx.BOM, path, format string) (bool, string) {
	f, err := os.Open(path)
	if err != nil {
		return false, err.Error()
	}
	defer f.Close()
	ff := cyclonedx.BOMFileFormatJSON
	if format == "cdx-xml" {
		ff = cyclonedx.BOMFileFormatXML
	}
	var back cyclonedx.BOM
	if err := cyclonedx.NewBOMDecoder(f, ff).Decode(&back); err != nil {
		return false, "decode: " + err.Error()
	}
	var a, b []cyclonedx.Component
	if bom.Components != nil {
		a = *bom.Components
	}
	if back.Components != nil {
		b = *back.Components
	}
	if len(a) != len(b) {
		return false, fmt.Sprintf("decoded %d components, encoded %d", len(b), len(a))
	}
	for i := range a {
		if a[i].PackageURL != b[i].PackageURL || a[i].CPE != b[i].CPE {
			return false, fmt.Sprintf("component %d: purl %q cpe %q decoded from %q %q", i, b[i].PackageURL, b[i].CPE, a[i].PackageURL, a[i].CPE)
		}
	}
	return true, ""
}

// ---------------------------------------------------------------- Coq printing

func cs(s S) string { return cf.Str(string(s)) }
func csl(l []S) string {
	if len(l) == 0 {
		return "(@nil bytes)"
	}
	items := make([]string, len(l))
	for i, x := range l {
		items[i] = cs(x)
	}
	return cf.List(items)
}
func cquals(q [][2]S) string {
	if len(q) == 0 {
		return "(@nil (bytes * bytes))"
	}
	items := make([]string, len(q))
	for i, x := range q {
		items[i] = fmt.Sprintf("(%s, %s)", cs(x[0]), cs(x[1]))
	}
	return cf.List(items)
}
func cpurl(p *purlJ) string {
	return fmt.Sprintf("{| p_type := %s; p_ns := %s; p_name := %s; p_version := %s; p_quals := %s; p_subpath := %s |}",
		cs(p.Type), cs(p.Namespace), cs(p.Name), cs(p.Version), cquals(p.Qualifiers), cs(p.Subpath))
}
func cobs(o *obsJ) string {
	if o.Err != "" {
		return "None"
	}
	if len(o.Purls) == 0 {
		return "(Some (@nil purl))"
	}
	items := make([]string, len(o.Purls))
	for i, p := range o.Purls {
		items[i] = cpurl(p)
	}
	return "(Some [" + strings.Join(items, ";\n        ") + "])"
}

func coqCase(c *caseJ) string {
	var pk []string
	for i := range c.Pkgs {
		j := &c.Pkgs[i]
		pu := "None"
		if j.Purl != nil {
			pu = "(Some " + cpurl(j.Purl) + ")"
		}
		pk = append(pk, fmt.Sprintf("({| k_name := %s; k_version := %s; k_source := None; k_locations := %s; k_has_extractor := true; k_extractor := %s; k_purl := %s; k_ecosystem := (@nil N); k_annotations := (@nil Z); k_layer := None; k_cpes := %s |}, %s)",
			cs(j.Name), cs(j.Version), csl(j.Locations), cs(j.Extractor), pu, csl(j.CPEs), cs(j.PurlStr)))
	}
	pkgs := "(@nil (pkg * bytes))"
	if len(pk) > 0 {
		pkgs = "[" + strings.Join(pk, ";\n      ") + "]"
	}
	codec := true
	var so, co []string
	tv := "None"
	for i := range c.Spdx {
		if c.Spdx[i].Format == "spdx23-tag-value" {
			// the tag-value codec is partial (see SbomRoundtrip.v); its validation is not part of q_codec_ok
			tv = cobs(&c.Spdx[i])
			continue
		}
		so = append(so, cobs(&c.Spdx[i]))
		codec = codec && (c.Spdx[i].CodecOK || c.Spdx[i].Err != "")
	}
	for i := range c.Cdx {
		co = append(co, cobs(&c.Cdx[i]))
		codec = codec && (c.Cdx[i].CodecOK || c.Cdx[i].Err != "")
	}
	return fmt.Sprintf("{| q_pkgs := %s;\n    q_spdx := %s;\n    q_spdx_tv := %s;\n    q_cdx := %s;\n    q_codec_ok := %s |}", pkgs, cf.List(so), tv, cf.List(co), cf.Bool(codec))
}

func main() {
	log.SetLogger(quietLogger{})
	out := flag.String("out", "", "output .v file")
	side := flag.String("jsonl", "", "side file (one JSON case per line)")
	summary := flag.String("summary", "", "summary JSON")
	seed := flag.Int64("seed", 1, "PRNG seed")
	n := flag.Int("n", 300, "number of generated inventories")
	typesJSON := flag.String("types", "", "purltypes JSON (emitted types)")
	replay := flag.String("replay", "", "replay a JSON case")
	witness := flag.String("witness", "", "known-finding witness JSON: prints whether it still fails")
	flag.Parse()

	tmp, err := os.MkdirTemp("", "c15sbom")
	if err != nil {
		panic(err)
	}
	defer os.RemoveAll(tmp)

	if *witness != "" {
		b, err := os.ReadFile(*witness)
		if err != nil {
			panic(err)
		}
		var w struct {
			Kind string `json:"kind"`
			Case caseJ  `json:"case"`
		}
		if err := json.Unmarshal(b, &w); err != nil {
			panic(err)
		}
		runCase(&w.Case, tmp)
		res := map[string]any{"kind": w.Kind, "still_fails": false}
		var detail []string
		switch w.Kind {
		case "sbom-drops-rejected-purl-type":
			exported := 0
			for _, p := range w.Case.Pkgs {
				if p.Purl != nil {
					exported++
				}
			}
			for _, o := range append(append([]obsJ{}, w.Case.Spdx...), w.Case.Cdx...) {
				if o.Format == "spdx23-tag-value" {
					continue
				}
				detail = append(detail, fmt.Sprintf("%s: exported %d purl(s), scan returned %d (%s)", o.Format, exported, len(o.Purls), o.Err))
				if o.Err == "" && len(o.Purls) < exported {
					res["still_fails"] = true
				}
			}
		case "spdx-tagvalue-unreadable":
			for _, o := range w.Case.Spdx {
				if o.Format == "spdx23-tag-value" {
					detail = append(detail, o.Format+": "+o.Err)
					if o.Err != "" {
						res["still_fails"] = true
					}
				}
			}
		default:
			res["error"] = "unknown witness kind"
		}
		res["detail"] = detail
		o, _ := json.Marshal(res)
		fmt.Println(string(o))
		return
	}
	if *replay != "" {
		b, err := os.ReadFile(*replay)
		if err != nil {
			panic(err)
		}
		var wrap struct {
			Case  *caseJ `json:"case"`
			First *caseJ `json:"first_mismatch"`
		}
		err = json.Unmarshal(b, &wrap)
		if wrap.Case == nil {
			wrap.Case = wrap.First
		}
		if err != nil || wrap.Case == nil {
			fmt.Println("replay file has no case")
			return
		}
		runCase(wrap.Case, tmp)
		o, _ := json.MarshalIndent(wrap.Case, "", " ")
		fmt.Printf("implementation:\n%s\n", o)
		fmt.Printf("coq-case: %s\n", strings.ReplaceAll(coqCase(wrap.Case), "\n", " "))
		return
	}

	var types []string
	if *typesJSON != "" {
		var tj struct {
			Emitted []string `json:"emitted"`
		}
		if b, err := os.ReadFile(*typesJSON); err == nil && json.Unmarshal(b, &tj) == nil {
			types = tj.Emitted
		}
	}
	if len(types) == 0 {
		panic("no emitted purl types (run the purltypes translator first)")
	}
	r := rand.New(rand.NewSource(*seed))
	var cases []*caseJ
	// one inventory per emitted type first (every emitted type is covered in every run), then the random streams
	for _, t := range types {
		c := genCase(r, []string{t}, "per-type")
		if len(c.Pkgs) == 0 {
			c.Pkgs = []pkgJ{{Name: "n", Version: "1", Kind: "fake", Extractor: "os/x", Locations: []S{"l"}, Purl: genPurl(r, []string{t}, false, false)}}
		}
		cases = append(cases, c)
	}
	for i := 0; i < *n; i++ {
		stream := []string{"well-formed", "well-formed", "overwrite", "well-formed", "duplicates", "hostile-text", "malformed", "well-formed-no-snap"}[i%8]
		ts := types
		if stream == "well-formed-no-snap" || stream == "duplicates" {
			ts = nil
			for _, t := range types {
				if t != "snap" {
					ts = append(ts, t)
				}
			}
		}
		cases = append(cases, genCase(r, ts, stream))
	}
	sf, err := os.Create(*side)
	if err != nil {
		panic(err)
	}
	enc := json.NewEncoder(sf)
	var items []string
	streams := map[string]int{}
	sizes := map[string]int{}
	typeHist := map[string]int{}
	failures := map[string]int{}
	codecBad := 0
	seen := map[string]bool{}
	nontrivial := 0
	scans := 0
	for _, c := range cases {
		runCase(c, tmp)
		items = append(items, coqCase(c))
		enc.Encode(c)
		streams[c.Stream]++
		sizes[fmt.Sprint(len(c.Pkgs))]++
		exportable := 0
		for i := range c.Pkgs {
			if p := c.Pkgs[i].Purl; p != nil {
				typeHist[strings.ToLower(string(p.Type))]++
				if p.Name != "" && p.Version != "" {
					exportable++
				}
			}
		}
		for _, o := range append(append([]obsJ{}, c.Spdx...), c.Cdx...) {
			scans++
			if o.Err != "" {
				failures[o.Format]++
			} else if !o.CodecOK {
				codecBad++
			}
		}
		b, _ := json.Marshal(c.Pkgs)
		hsh := fmt.Sprintf("%x", sha256.Sum256(b))
		if exportable > 0 && !seen[hsh] {
			seen[hsh] = true
			nontrivial++
		}
	}
	sf.Close()
	var sb strings.Builder
	sb.WriteString("From Coq Require Import List ZArith NArith Bool.\nFrom Scalibr Require Import Convert.Bytes Convert.Purl Convert.Pkg Convert.Proto Convert.Sbom Convert.SbomRoundtrip Convert.Cases15.\nImport ListNotations.\n")
	sb.WriteString(cf.Chunked("cases", "scase", items, 10))
	sb.WriteString("Definition corr_bad := Eval vm_compute in bad_indices case_model_ok cases.\nPrint corr_bad.\n")
	sb.WriteString("Definition spec_bad := Eval vm_compute in bad_indices case_spec_ok cases.\nPrint spec_bad.\n")
	if err := os.WriteFile(*out, []byte(sb.String()), 0o644); err != nil {
		panic(err)
	}
	if *summary != "" {
		b, _ := json.MarshalIndent(map[string]any{"cases": len(cases), "scans": scans, "distinct_nontrivial": nontrivial, "streams": streams,
			"inventory_sizes": sizes, "purl_types": typeHist, "write_or_scan_failures": failures, "codec_mismatches": codecBad,
			"emitted_types": types}, "", " ")
		os.WriteFile(*summary, b, 0o644)
	}
}

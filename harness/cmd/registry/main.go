// Command registry is the C19 translator and harness in one binary (linking every plugin is the
// expensive part, so it is done once).
//
//	-emit-coq FILE   instantiate every registered filesystem extractor, standalone extractor and
//	                 detector and every entry of the three name tables and dump them as plain Coq data
//	                 (Generated_Registry.v).
//	-observe FILE    call the real ValidateRequirements / FilterByCapabilities / FromCapabilities /
//	                 ExtractorsFromNames / ExtractorFromName / DetectorsFromNames /
//	                 EnableRequiredExtractors / ValidatePluginRequirements over the complete finite
//	                 product and write a Coq cases file (+ -jsonl side file, same order).
//	-replay FILE     re-run the case stored in a replay json.
package main

import (
	"context"
	"encoding/json"
	"flag"
	"fmt"
	"math/rand"
	"os"
	"reflect"
	"sort"
	"strings"

	scalibr "github.com/google/osv-scalibr"
	"github.com/google/osv-scalibr/detector"
	dl "github.com/google/osv-scalibr/detector/list"
	"github.com/google/osv-scalibr/extractor/filesystem"
	el "github.com/google/osv-scalibr/extractor/filesystem/list"
	"github.com/google/osv-scalibr/extractor/standalone"
	sl "github.com/google/osv-scalibr/extractor/standalone/list"
	scalibrfs "github.com/google/osv-scalibr/fs"
	"github.com/google/osv-scalibr/packageindex"
	"github.com/google/osv-scalibr/plugin"

	cf "verifharness/internal/coqfmt"
)

const (
	kFs  = 0
	kSa  = 1
	kDet = 2
)

var kindCoq = []string{"KFs", "KSa", "KDet"}
var kindName = []string{"fs", "sa", "det"}
var osCoq = []string{"OSAny", "OSLinux", "OSWindows", "OSMac", "OSUnix"}
var netCoq = []string{"NetAny", "NetOffline", "NetOnline"}

// plug is one instantiated plugin together with the way to make a fresh instance of it.
type plug struct {
	Kind     int
	Key      string // key of the InitMap entry it came from
	Name     string
	Version  int
	Req      plugin.Capabilities
	Required []string
	mk       func() plugin.Plugin
}

type entry struct {
	Key     string
	Plugins []plug
}

type reg struct {
	all   [3][]entry // sorted by key; plugins inside sorted by name
	names [3][]entry
	flat  [3][]plug // flat(all)
	ids   map[string]uint64
	strs  []string
}

func describe(kind int, key string, p plugin.Plugin, mk func() plugin.Plugin) plug {
	r := p.Requirements()
	pl := plug{Kind: kind, Key: key, Name: p.Name(), Version: p.Version(), Req: *r, mk: mk}
	if d, ok := p.(detector.Detector); ok {
		pl.Required = append([]string{}, d.RequiredExtractors()...)
	}
	return pl
}

func sortEntries(es []entry) {
	sort.Slice(es, func(i, j int) bool { return es[i].Key < es[j].Key })
	for _, e := range es {
		sort.SliceStable(e.Plugins, func(i, j int) bool { return e.Plugins[i].Name < e.Plugins[j].Name })
	}
}

func fsTable(m el.InitMap) []entry {
	var es []entry
	for k, inits := range m {
		e := entry{Key: k}
		for _, f := range inits {
			f := f
			e.Plugins = append(e.Plugins, describe(kFs, k, f(), func() plugin.Plugin { return f() }))
		}
		es = append(es, e)
	}
	sortEntries(es)
	return es
}
func saTable(m sl.InitMap) []entry {
	var es []entry
	for k, inits := range m {
		e := entry{Key: k}
		for _, f := range inits {
			f := f
			e.Plugins = append(e.Plugins, describe(kSa, k, f(), func() plugin.Plugin { return f() }))
		}
		es = append(es, e)
	}
	sortEntries(es)
	return es
}
func detTable(m dl.InitMap) []entry {
	var es []entry
	for k, inits := range m {
		e := entry{Key: k}
		for _, f := range inits {
			f := f
			e.Plugins = append(e.Plugins, describe(kDet, k, f(), func() plugin.Plugin { return f() }))
		}
		es = append(es, e)
	}
	sortEntries(es)
	return es
}

// probe strings that are (expected to be) no key of any table
var probes = []string{"", "nosuchplugin", "ALL", "os/", "python "}

func load() *reg {
	r := &reg{ids: map[string]uint64{}}
	r.all[kFs] = fsTable(el.All)
	r.all[kSa] = saTable(sl.All)
	r.all[kDet] = detTable(dl.All)
	r.names[kFs] = fsTable(el.VerifNameTable())
	r.names[kSa] = saTable(sl.VerifNameTable())
	r.names[kDet] = detTable(dl.VerifNameTable())
	set := map[string]bool{}
	for _, p := range probes {
		set[p] = true
	}
	for k := 0; k < 3; k++ {
		for _, t := range [][]entry{r.all[k], r.names[k]} {
			for _, e := range t {
				set[e.Key] = true
				for _, p := range e.Plugins {
					set[p.Name] = true
					for _, q := range p.Required {
						set[q] = true
					}
				}
			}
		}
		for _, e := range r.all[k] {
			r.flat[k] = append(r.flat[k], e.Plugins...)
		}
	}
	for s := range set {
		r.strs = append(r.strs, s)
	}
	sort.Strings(r.strs)
	for i, s := range r.strs {
		r.ids[s] = uint64(i)
	}
	return r
}

func (r *reg) id(s string) string {
	i, ok := r.ids[s]
	if !ok {
		panic("string without id: " + s)
	}
	return cf.N(i)
}
func (r *reg) idList(ss []string) string {
	it := make([]string, len(ss))
	for i, s := range ss {
		it[i] = r.id(s)
	}
	return cf.List(it)
}

func capsCoq(c plugin.Capabilities) string {
	return fmt.Sprintf("(mkCaps %s %s %s %s)", osCoq[c.OS], netCoq[c.Network], cf.Bool(c.DirectFS), cf.Bool(c.RunningSystem))
}

func (r *reg) plugCoq(p plug) string {
	return fmt.Sprintf("(mkPlugin %s %s %s %s %s)", kindCoq[p.Kind], r.id(p.Name), cf.Z(int64(p.Version)), capsCoq(p.Req), r.idList(p.Required))
}

func (r *reg) tableCoq(name string, es []entry) string {
	var sb strings.Builder
	fmt.Fprintf(&sb, "Definition %s : table :=\n [", name)
	for i, e := range es {
		if i > 0 {
			sb.WriteString(";\n  ")
		} else {
			sb.WriteString(" ")
		}
		it := make([]string, len(e.Plugins))
		for j, p := range e.Plugins {
			it[j] = r.plugCoq(p)
		}
		fmt.Fprintf(&sb, "(* %q *) mkEntry %s %s", e.Key, r.id(e.Key), cf.List(it))
	}
	sb.WriteString(" ].\n\n")
	return sb.String()
}

func emitCoq(r *reg, path string) {
	var sb strings.Builder
	sb.WriteString("(* GENERATED by harness/cmd/registry -emit-coq from the plugin lists of /repo; do not edit.\n")
	sb.WriteString("   Regenerated by every run of bin/check C19.  Plain data: every InitMap entry of All and of the\n")
	sb.WriteString("   name table of extractor/filesystem/list, extractor/standalone/list and detector/list, each InitFn\n")
	sb.WriteString("   instantiated and described by (kind, Name(), Version(), *Requirements(), RequiredExtractors()).\n")
	sb.WriteString("   Strings are numbered in sorted order:\n")
	for i, s := range r.strs {
		fmt.Fprintf(&sb, "     %3d = %q\n", i, s)
	}
	sb.WriteString("*)\nFrom Coq Require Import List NArith ZArith Bool.\nFrom Scalibr Require Import Registry.Plugin.\nImport ListNotations.\nOpen Scope N_scope.\n\n")
	sb.WriteString("(* id -> bytes of the string *)\nDefinition name_strings : list (N * list N) :=\n [")
	for i, s := range r.strs {
		if i > 0 {
			sb.WriteString(";\n  ")
		} else {
			sb.WriteString(" ")
		}
		fmt.Fprintf(&sb, "(%s, %s)", cf.N(uint64(i)), cf.Str(s))
	}
	sb.WriteString(" ].\n\n")
	sb.WriteString("(* strings that are probed as unknown names by the harness *)\n")
	fmt.Fprintf(&sb, "Definition probe_names : list N := %s.\n\n", r.idList(probes))
	sb.WriteString(r.tableCoq("fs_all", r.all[kFs]))
	sb.WriteString(r.tableCoq("fs_names", r.names[kFs]))
	sb.WriteString(r.tableCoq("sa_all", r.all[kSa]))
	sb.WriteString(r.tableCoq("sa_names", r.names[kSa]))
	sb.WriteString(r.tableCoq("det_all", r.all[kDet]))
	sb.WriteString(r.tableCoq("det_names", r.names[kDet]))
	sb.WriteString("Definition the_registry : registry := mkRegistry fs_all fs_names sa_all sa_names det_all det_names.\n")
	if err := os.WriteFile(path, []byte(sb.String()), 0o644); err != nil {
		panic(err)
	}
}

// ------------------------------------------------------------------------------------------------
// observation

func allCaps() []plugin.Capabilities {
	var cs []plugin.Capabilities
	for o := 0; o <= 4; o++ {
		for n := 0; n <= 2; n++ {
			for _, d := range []bool{false, true} {
				for _, ru := range []bool{false, true} {
					cs = append(cs, plugin.Capabilities{OS: plugin.OS(o), Network: plugin.Network(n), DirectFS: d, RunningSystem: ru})
				}
			}
		}
	}
	return cs
}

// fake plugin with arbitrary requirements
type fakePlugin struct {
	name string
	req  plugin.Capabilities
}

func (f fakePlugin) Name() string                       { return f.name }
func (f fakePlugin) Version() int                       { return 7 }
func (f fakePlugin) Requirements() *plugin.Capabilities { c := f.req; return &c }

// fake detector with arbitrary required extractors
type fakeDet struct {
	fakePlugin
	required []string
}

func (f fakeDet) RequiredExtractors() []string { return f.required }
func (f fakeDet) Scan(context.Context, *scalibrfs.ScanRoot, *packageindex.PackageIndex) ([]*detector.Finding, error) {
	return nil, nil
}

// jcase is the JSONL side record of a case (human readable).
type jcase struct {
	Fn    string   `json:"fn"`
	Kind  string   `json:"kind,omitempty"`
	Req   string   `json:"req,omitempty"`
	Caps  string   `json:"caps,omitempty"`
	Input []string `json:"input,omitempty"`
	Fs    []string `json:"fs,omitempty"`
	Sa    []string `json:"sa,omitempty"`
	Det   []string `json:"det,omitempty"`
	Extra []string `json:"fake_required,omitempty"`
	Caps2 string   `json:"caps2,omitempty"`
	Obs   any      `json:"observed"`
	Coq   string   `json:"coq"`
}

func capsStr(c plugin.Capabilities) string {
	return fmt.Sprintf("%s/%s/dfs=%v/run=%v", osCoq[c.OS], netCoq[c.Network], c.DirectFS, c.RunningSystem)
}

type obsv struct {
	r     *reg
	cases []jcase
}

func (o *obsv) add(c jcase) { o.cases = append(o.cases, c) }

func names[T plugin.Plugin](ps []T) []string {
	out := make([]string, len(ps))
	for i, p := range ps {
		out[i] = p.Name()
	}
	return out
}
func sorted(ss []string) []string {
	out := append([]string{}, ss...)
	sort.Strings(out)
	return out
}

func idxList(ix []int) string {
	it := make([]string, len(ix))
	for i, x := range ix {
		it[i] = cf.N(uint64(x))
	}
	return cf.List(it)
}

func (o *obsv) plugNames(kind int, ix []int) []string {
	out := make([]string, len(ix))
	for i, x := range ix {
		out[i] = o.r.flat[kind][x].Name
	}
	return out
}

func (o *obsv) mkFs(ix []int) []filesystem.Extractor {
	out := []filesystem.Extractor{}
	for _, x := range ix {
		out = append(out, o.r.flat[kFs][x].mk().(filesystem.Extractor))
	}
	return out
}
func (o *obsv) mkSa(ix []int) []standalone.Extractor {
	out := []standalone.Extractor{}
	for _, x := range ix {
		out = append(out, o.r.flat[kSa][x].mk().(standalone.Extractor))
	}
	return out
}
func (o *obsv) mkDet(ix []int) []detector.Detector {
	out := []detector.Detector{}
	for _, x := range ix {
		out = append(out, o.r.flat[kDet][x].mk().(detector.Detector))
	}
	return out
}

// filter through the real FilterByCapabilities of the kind; returns names in output order
func (o *obsv) filter(kind int, ix []int, c plugin.Capabilities) []string {
	switch kind {
	case kFs:
		return names(el.FilterByCapabilities(o.mkFs(ix), &c))
	case kSa:
		return names(sl.FilterByCapabilities(o.mkSa(ix), &c))
	default:
		return names(dl.FilterByCapabilities(o.mkDet(ix), &c))
	}
}
func (o *obsv) fromCaps(kind int, c plugin.Capabilities) []string {
	switch kind {
	case kFs:
		return names(el.FromCapabilities(&c))
	case kSa:
		return names(sl.FromCapabilities(&c))
	default:
		return names(dl.FromCapabilities(&c))
	}
}
func (o *obsv) fromNames(kind int, ns []string) ([]string, bool) {
	switch kind {
	case kFs:
		ps, err := el.ExtractorsFromNames(ns)
		return names(ps), err == nil
	case kSa:
		ps, err := sl.ExtractorsFromNames(ns)
		return names(ps), err == nil
	default:
		ps, err := dl.DetectorsFromNames(ns)
		return names(ps), err == nil
	}
}

func (o *obsv) caseValidateRaw(req, c plugin.Capabilities) {
	err := plugin.ValidateRequirements(fakePlugin{"fake", req}, &c)
	o.add(jcase{Fn: "ValidateRequirements", Req: capsStr(req), Caps: capsStr(c), Obs: err == nil,
		Coq: fmt.Sprintf("CValidateRaw %s %s %s", capsCoq(req), capsCoq(c), cf.Bool(err == nil))})
}

func (o *obsv) caseValidate(kind, x int, c plugin.Capabilities) {
	p := o.r.flat[kind][x]
	err := plugin.ValidateRequirements(p.mk(), &c)
	o.add(jcase{Fn: "ValidateRequirements", Kind: kindName[kind], Input: []string{p.Name}, Req: capsStr(p.Req), Caps: capsStr(c), Obs: err == nil,
		Coq: fmt.Sprintf("CValidate %s %s %s %s", kindCoq[kind], cf.N(uint64(x)), capsCoq(c), cf.Bool(err == nil))})
}

func (o *obsv) caseFilter(kind int, ix []int, c plugin.Capabilities) {
	got := o.filter(kind, ix, c)
	o.add(jcase{Fn: "FilterByCapabilities", Kind: kindName[kind], Input: o.plugNames(kind, ix), Caps: capsStr(c), Obs: got,
		Coq: fmt.Sprintf("CFilter %s %s %s %s", kindCoq[kind], idxList(ix), capsCoq(c), o.r.idList(got))})
}

// samePlugins: the slice still holds the same plugin objects in the same places as its pre-call copy
func samePlugins[T plugin.Plugin](now, before []T) bool {
	if len(now) != len(before) {
		return false
	}
	for i := range now {
		a, b := reflect.ValueOf(any(now[i])), reflect.ValueOf(any(before[i]))
		if now[i].Name() != before[i].Name() || a.Kind() != b.Kind() {
			return false
		}
		if a.Kind() == reflect.Ptr && a.Pointer() != b.Pointer() {
			return false
		}
	}
	return true
}

type filterStep struct {
	got    []string
	intact bool
	after  []string
}

// filterSeq filters ONE list object for each capability tuple in turn; after every call the result is read at once and
// the caller's slice is compared with its pre-call copy.
func filterSeqT[T plugin.Plugin](list []T, cs []plugin.Capabilities, f func([]T, *plugin.Capabilities) []T) []filterStep {
	before := append([]T{}, list...)
	var out []filterStep
	for _, c := range cs {
		cc := c
		got := names(f(list, &cc))
		out = append(out, filterStep{got, samePlugins(list, before), names(list)})
	}
	return out
}

func (o *obsv) filterSeq(kind int, ix []int, cs []plugin.Capabilities) []filterStep {
	switch kind {
	case kFs:
		return filterSeqT(o.mkFs(ix), cs, el.FilterByCapabilities)
	case kSa:
		return filterSeqT(o.mkSa(ix), cs, sl.FilterByCapabilities)
	default:
		return filterSeqT(o.mkDet(ix), cs, dl.FilterByCapabilities)
	}
}

// the same, on the list object a name resolution returned (order as Go returned it; reported as the case input)
func (o *obsv) filterSeqResolved(kind int, key string, cs []plugin.Capabilities) ([]int, []filterStep) {
	idx := func(n string) int {
		for x, p := range o.r.flat[kind] {
			if p.Name == n {
				return x
			}
		}
		panic("resolved plugin not in All: " + n)
	}
	var ix []int
	switch kind {
	case kFs:
		l, _ := el.ExtractorsFromNames([]string{key})
		for _, p := range l {
			ix = append(ix, idx(p.Name()))
		}
		return ix, filterSeqT(l, cs, el.FilterByCapabilities)
	case kSa:
		l, _ := sl.ExtractorsFromNames([]string{key})
		for _, p := range l {
			ix = append(ix, idx(p.Name()))
		}
		return ix, filterSeqT(l, cs, sl.FilterByCapabilities)
	default:
		l, _ := dl.DetectorsFromNames([]string{key})
		for _, p := range l {
			ix = append(ix, idx(p.Name()))
		}
		return ix, filterSeqT(l, cs, dl.FilterByCapabilities)
	}
}

func (o *obsv) addFilter2(kind int, ix []int, c1, c2 plugin.Capabilities, st []filterStep, how string) {
	obs := map[string]any{"list": how, "first": st[0].got, "input_intact_after_first": st[0].intact, "second": st[1].got, "input_intact_after_second": st[1].intact}
	if !st[0].intact {
		obs["input_after_first"] = st[0].after
	}
	if !st[1].intact {
		obs["input_after_second"] = st[1].after
	}
	o.add(jcase{Fn: "FilterByCapabilities x2 (one list object)", Kind: kindName[kind], Input: o.plugNames(kind, ix), Caps: capsStr(c1), Caps2: capsStr(c2), Obs: obs,
		Coq: fmt.Sprintf("CFilter2 %s %s %s %s %s %s %s %s", kindCoq[kind], idxList(ix), capsCoq(c1), capsCoq(c2),
			o.r.idList(st[0].got), cf.Bool(st[0].intact), o.r.idList(st[1].got), cf.Bool(st[1].intact))})
}

func (o *obsv) caseFilter2(kind int, ix []int, c1, c2 plugin.Capabilities) {
	o.addFilter2(kind, ix, c1, c2, o.filterSeq(kind, ix, []plugin.Capabilities{c1, c2}), "instantiated from All")
}

func (o *obsv) caseFilter2Resolved(kind int, key string, c1, c2 plugin.Capabilities) {
	ix, st := o.filterSeqResolved(kind, key, []plugin.Capabilities{c1, c2})
	o.addFilter2(kind, ix, c1, c2, st, "returned by FromNames("+key+")")
}

// name resolution twice with ONE names slice: same answer, slice untouched
func (o *obsv) caseFromNames2(kind int, ns []string) {
	in := append([]string{}, ns...)
	g1, ok1 := o.fromNames(kind, in)
	g1 = sorted(g1)
	intact1 := reflect.DeepEqual(in, ns)
	g2, ok2 := o.fromNames(kind, in)
	g2 = sorted(g2)
	intact := intact1 && reflect.DeepEqual(in, ns)
	o.add(jcase{Fn: "FromNames x2 (one names slice)", Kind: kindName[kind], Input: ns,
		Obs: map[string]any{"first_ok": ok1, "first": g1, "second_ok": ok2, "second": g2, "names_intact": intact},
		Coq: fmt.Sprintf("CFromNames2 %s %s %s %s %s", kindCoq[kind], o.r.idList(ns), cf.Option(ok1, o.r.idList(g1)), cf.Option(ok2, o.r.idList(g2)), cf.Bool(intact))})
}

// EnableRequiredExtractors twice on ONE config built from caller-owned slices: idempotent, the caller's slices untouched
func (o *obsv) caseEnableTwice(fs, sa, det []int, fake [][]string) {
	cfg := o.config(fs, sa, det, fake, &plugin.Capabilities{})
	fsIn, saIn, detIn := cfg.FilesystemExtractors, cfg.StandaloneExtractors, cfg.Detectors
	fsB, saB, detB := append([]filesystem.Extractor{}, fsIn...), append([]standalone.Extractor{}, saIn...), append([]detector.Detector{}, detIn...)
	read := func(err error) (any, string) {
		if err != nil {
			return "error", "None"
		}
		f, s := names(cfg.FilesystemExtractors), names(cfg.StandaloneExtractors)
		return map[string]any{"fs": f, "sa": s}, fmt.Sprintf("(Some (%s, %s))", o.r.idList(f), o.r.idList(s))
	}
	o1, c1 := read(cfg.EnableRequiredExtractors())
	o2, c2 := read(cfg.EnableRequiredExtractors())
	intact := samePlugins(fsIn, fsB) && samePlugins(saIn, saB) && samePlugins(detIn, detB) && samePlugins(cfg.Detectors, detB)
	var ex []string
	for _, f := range fake {
		ex = append(ex, strings.Join(f, "+"))
	}
	o.add(jcase{Fn: "EnableRequiredExtractors x2 (one config)", Fs: o.plugNames(kFs, fs), Sa: o.plugNames(kSa, sa), Det: o.plugNames(kDet, det), Extra: ex,
		Obs: map[string]any{"first": o1, "second": o2, "inputs_intact": intact},
		Coq: fmt.Sprintf("CEnableTwice %s %s %s %s %s %s %s", idxList(fs), idxList(sa), idxList(det), o.fakeCoq(fake), c1, c2, cf.Bool(intact))})
}

func (o *obsv) caseFromCaps(kind int, c plugin.Capabilities) {
	got := sorted(o.fromCaps(kind, c))
	o.add(jcase{Fn: "FromCapabilities", Kind: kindName[kind], Caps: capsStr(c), Obs: got,
		Coq: fmt.Sprintf("CFromCaps %s %s %s", kindCoq[kind], capsCoq(c), o.r.idList(got))})
}

func (o *obsv) caseFromNames(kind int, ns []string) {
	got, ok := o.fromNames(kind, ns)
	got = sorted(got)
	var obs any = got
	if !ok {
		obs = "error"
	}
	o.add(jcase{Fn: "FromNames", Kind: kindName[kind], Input: ns, Obs: obs,
		Coq: fmt.Sprintf("CFromNames %s %s %s", kindCoq[kind], o.r.idList(ns), cf.Option(ok, o.r.idList(got)))})
}

func (o *obsv) caseFromName(kind int, n string) {
	var p plugin.Plugin
	var err error
	if kind == kFs {
		var e filesystem.Extractor
		e, err = el.ExtractorFromName(n)
		p = e
	} else {
		var e standalone.Extractor
		e, err = sl.ExtractorFromName(n)
		p = e
	}
	var obs any = "error"
	coq := "None"
	if err == nil {
		d := describe(kind, "", p, nil)
		obs = map[string]any{"name": d.Name, "version": d.Version, "req": capsStr(d.Req)}
		coq = "(Some " + o.r.plugCoq(d) + ")"
	}
	o.add(jcase{Fn: "ExtractorFromName", Kind: kindName[kind], Input: []string{n}, Obs: obs,
		Coq: fmt.Sprintf("CFromName %s %s %s", kindCoq[kind], o.r.id(n), coq)})
}

// config from indices plus optional fake detectors (each: list of required names)
func (o *obsv) config(fs, sa, det []int, fake [][]string, c *plugin.Capabilities) *scalibr.ScanConfig {
	cfg := &scalibr.ScanConfig{FilesystemExtractors: o.mkFs(fs), StandaloneExtractors: o.mkSa(sa), Detectors: o.mkDet(det), Capabilities: c}
	for i, rq := range fake {
		cfg.Detectors = append(cfg.Detectors, fakeDet{fakePlugin{fmt.Sprintf("fake%d", i), plugin.Capabilities{}}, rq})
	}
	return cfg
}

func (o *obsv) fakeCoq(fake [][]string) string {
	it := make([]string, len(fake))
	for i, f := range fake {
		it[i] = o.r.idList(f)
	}
	return cf.List(it)
}

func (o *obsv) caseEnable(fs, sa, det []int, fake [][]string) {
	cfg := o.config(fs, sa, det, fake, &plugin.Capabilities{})
	err := cfg.EnableRequiredExtractors()
	var obs any = "error"
	coq := "None"
	if err == nil {
		f, s := names(cfg.FilesystemExtractors), names(cfg.StandaloneExtractors)
		obs = map[string]any{"fs": f, "sa": s}
		coq = fmt.Sprintf("(Some (%s, %s))", o.r.idList(f), o.r.idList(s))
	}
	var ex []string
	for _, f := range fake {
		ex = append(ex, strings.Join(f, "+"))
	}
	o.add(jcase{Fn: "EnableRequiredExtractors", Fs: o.plugNames(kFs, fs), Sa: o.plugNames(kSa, sa), Det: o.plugNames(kDet, det), Extra: ex, Obs: obs,
		Coq: fmt.Sprintf("CEnable %s %s %s %s %s", idxList(fs), idxList(sa), idxList(det), o.fakeCoq(fake), coq)})
}

func (o *obsv) caseValidateCfg(fs, sa, det []int, c plugin.Capabilities) {
	cfg := o.config(fs, sa, det, nil, &c)
	err := cfg.ValidatePluginRequirements()
	o.add(jcase{Fn: "ValidatePluginRequirements", Fs: o.plugNames(kFs, fs), Sa: o.plugNames(kSa, sa), Det: o.plugNames(kDet, det), Caps: capsStr(c), Obs: err == nil,
		Coq: fmt.Sprintf("CValidateCfg %s %s %s %s %s", idxList(fs), idxList(sa), idxList(det), capsCoq(c), cf.Bool(err == nil))})
}

// what Scan does first: EnableRequiredExtractors then ValidatePluginRequirements, on the configuration
// FromCapabilities x 3 (det restricted to detSel if non-nil: indices into the filtered detector list by name)
func (o *obsv) caseScanPrep(c plugin.Capabilities, onlyDet string) {
	cc := c
	cfg := &scalibr.ScanConfig{Capabilities: &cc}
	cfg.FilesystemExtractors = el.FromCapabilities(&cc)
	cfg.StandaloneExtractors = sl.FromCapabilities(&cc)
	dets := dl.FromCapabilities(&cc)
	if onlyDet != "" {
		var sel []detector.Detector
		for _, d := range dets {
			if d.Name() == onlyDet {
				sel = append(sel, d)
			}
		}
		dets = sel
	}
	cfg.Detectors = dets
	res := "PrepOk"
	if err := cfg.EnableRequiredExtractors(); err != nil {
		res = "PrepMissingExtractor"
	} else if err := cfg.ValidatePluginRequirements(); err != nil {
		res = "PrepRequirements"
	}
	sel := "None"
	if onlyDet != "" {
		sel = "(Some " + o.r.id(onlyDet) + ")"
	}
	o.add(jcase{Fn: "ScanPrep(FromCapabilities)", Caps: capsStr(c), Det: []string{onlyDet}, Obs: res,
		Coq: fmt.Sprintf("CScanPrep %s %s %s", capsCoq(c), sel, res)})
}

func seq(n int) []int {
	out := make([]int, n)
	for i := range out {
		out[i] = i
	}
	return out
}

func keysOf(es []entry) []string {
	out := make([]string, len(es))
	for i, e := range es {
		out[i] = e.Key
	}
	return out
}

func observe(r *reg, seed int64, thorough bool) *obsv {
	o := &obsv{r: r}
	rng := rand.New(rand.NewSource(seed))
	caps := allCaps()
	// A. the validator on the complete requirement x capability product
	for _, rq := range caps {
		for _, c := range caps {
			o.caseValidateRaw(rq, c)
		}
	}
	// B. every registered plugin x every capability tuple
	for k := 0; k < 3; k++ {
		for x := range r.flat[k] {
			for _, c := range caps {
				o.caseValidate(k, x, c)
			}
		}
	}
	// C. FilterByCapabilities: whole list, reversed list, and seeded random lists with repetitions
	for k := 0; k < 3; k++ {
		n := len(r.flat[k])
		for _, c := range caps {
			o.caseFilter(k, seq(n), c)
			rev := seq(n)
			for i, j := 0, n-1; i < j; i, j = i+1, j-1 {
				rev[i], rev[j] = rev[j], rev[i]
			}
			o.caseFilter(k, rev, c)
			if n > 0 {
				l := rng.Intn(8)
				ix := make([]int, l)
				for i := range ix {
					ix[i] = rng.Intn(n)
				}
				o.caseFilter(k, ix, c)
			}
			// D. FromCapabilities
			o.caseFromCaps(k, c)
		}
	}
	// E. names -> plugins: empty list, every key alone, every plugin name alone, probes, all ordered pairs
	for k := 0; k < 3; k++ {
		keys := keysOf(r.names[k])
		univ := append(append([]string{}, keys...), probes...)
		for _, p := range r.flat[k] {
			if _, ok := indexOf(univ, p.Name); !ok {
				univ = append(univ, p.Name)
			}
		}
		o.caseFromNames(k, []string{})
		for _, n := range univ {
			o.caseFromNames(k, []string{n})
		}
		if k != kFs || thorough {
			for _, a := range univ {
				for _, b := range univ {
					o.caseFromNames(k, []string{a, b})
				}
			}
		} else {
			for i := 0; i < 400; i++ {
				o.caseFromNames(k, []string{univ[rng.Intn(len(univ))], univ[rng.Intn(len(univ))]})
			}
		}
		for i := 0; i < 100; i++ {
			l := 3 + rng.Intn(3)
			ns := make([]string, l)
			for j := range ns {
				ns[j] = keys[rng.Intn(len(keys))]
			}
			o.caseFromNames(k, ns)
		}
		// F. exact-name lookup (extractor kinds only; the detector list has no such function)
		if k != kDet {
			other := keysOf(r.names[1-k])
			for _, n := range append(univ, other...) {
				o.caseFromName(k, n)
			}
		}
	}
	// G. EnableRequiredExtractors
	nd := len(r.flat[kDet])
	if nd <= 12 {
		for m := 0; m < 1<<nd; m++ {
			var det []int
			for i := 0; i < nd; i++ {
				if m>>i&1 == 1 {
					det = append(det, i)
				}
			}
			o.caseEnable(nil, nil, det, nil)
		}
	} else {
		o.caseEnable(nil, nil, seq(nd), nil)
		for i := 0; i < nd; i++ {
			o.caseEnable(nil, nil, []int{i}, nil)
			for j := 0; j < nd; j++ {
				if i != j {
					o.caseEnable(nil, nil, []int{i, j}, nil)
				}
			}
		}
	}
	// reversed order of all detectors, and every single detector with every single extractor pre-enabled
	rev := seq(nd)
	for i, j := 0, nd-1; i < j; i, j = i+1, j-1 {
		rev[i], rev[j] = rev[j], rev[i]
	}
	o.caseEnable(nil, nil, rev, nil)
	for d := 0; d < nd; d++ {
		if len(r.flat[kDet][d].Required) == 0 {
			continue
		}
		for x := range r.flat[kFs] {
			o.caseEnable([]int{x}, nil, []int{d}, nil)
		}
		for x := range r.flat[kSa] {
			o.caseEnable(nil, []int{x}, []int{d}, nil)
		}
		o.caseEnable(seq(len(r.flat[kFs])), seq(len(r.flat[kSa])), []int{d}, nil)
	}
	// fake detectors: require every key / plugin name / probe of both extractor tables, alone and after a real one
	var reqUniv []string
	for _, n := range append(append(keysOf(r.names[kFs]), keysOf(r.names[kSa])...), probes...) {
		if _, ok := indexOf(reqUniv, n); !ok {
			reqUniv = append(reqUniv, n)
		}
	}
	for _, n := range reqUniv {
		o.caseEnable(nil, nil, nil, [][]string{{n}})
		o.caseEnable(nil, nil, nil, [][]string{{n, n}})
	}
	for i := 0; i < 200; i++ {
		a, b, c := reqUniv[rng.Intn(len(reqUniv))], reqUniv[rng.Intn(len(reqUniv))], reqUniv[rng.Intn(len(reqUniv))]
		o.caseEnable(nil, nil, nil, [][]string{{a, b}, {c}})
	}
	// H. ValidatePluginRequirements: everything enabled; the filtered configuration (by real FilterByCapabilities
	// on the index lists); single-kind configurations
	nf, ns := len(r.flat[kFs]), len(r.flat[kSa])
	for _, c := range caps {
		o.caseValidateCfg(seq(nf), seq(ns), seq(nd), c)
		ff, fsn, fd := o.filteredIdx(kFs, c), o.filteredIdx(kSa, c), o.filteredIdx(kDet, c)
		o.caseValidateCfg(ff, fsn, fd, c)
		o.caseValidateCfg(ff, nil, nil, c)
		o.caseValidateCfg(nil, seq(ns), nil, c)
		o.caseValidateCfg(nil, nil, seq(nd), c)
		// a valid configuration plus exactly one extra plugin
		if nf > 0 {
			o.caseValidateCfg(append(append([]int{}, ff...), rng.Intn(nf)), fsn, fd, c)
		}
		if nd > 0 {
			o.caseValidateCfg(ff, fsn, append(append([]int{}, fd...), rng.Intn(nd)), c)
		}
	}
	// I. what Scan does with the configuration made of the three FromCapabilities lists
	for _, c := range caps {
		o.caseScanPrep(c, "")
		for _, d := range r.flat[kDet] {
			o.caseScanPrep(c, d.Name)
		}
	}
	// J. histories on shared inputs: ONE list object filtered for two capability tuples in turn (every ordered pair), the
	// caller's slice compared with its pre-call copy after every call; the same for the list a name resolution returned
	envs := []plugin.Capabilities{}
	for _, c := range caps {
		if c.OS != plugin.OSUnix && c.Network != plugin.NetworkAny {
			envs = append(envs, c)
		}
	}
	for k := 0; k < 3; k++ {
		pairCaps := caps
		if k == kFs && !thorough {
			pairCaps = envs // 32 x 32 documented environments in quick; all 60 x 60 in thorough
		}
		n := len(r.flat[k])
		for _, c1 := range pairCaps {
			for _, c2 := range pairCaps {
				o.caseFilter2(k, seq(n), c1, c2)
			}
		}
		for _, c1 := range envs {
			for _, c2 := range envs {
				if rng.Intn(4) == 0 || thorough {
					o.caseFilter2Resolved(k, "all", c1, c2)
				}
			}
		}
		keys := keysOf(r.names[k])
		for _, key := range keys {
			o.caseFilter2Resolved(k, key, envs[rng.Intn(len(envs))], envs[rng.Intn(len(envs))])
			o.caseFromNames2(k, []string{key})
			o.caseFromNames2(k, []string{key, keys[rng.Intn(len(keys))], key})
		}
		o.caseFromNames2(k, []string{"all", "nosuchplugin", "default"})
	}
	for d := 0; d < nd; d++ {
		o.caseEnableTwice(nil, nil, []int{d}, nil)
		o.caseEnableTwice(seq(len(r.flat[kFs])), seq(len(r.flat[kSa])), []int{d}, nil)
	}
	o.caseEnableTwice(nil, nil, seq(nd), nil)
	o.caseEnableTwice([]int{0}, []int{0}, seq(nd), [][]string{{"python/wheelegg"}, {"nosuchplugin"}})
	for i := 0; i < 60; i++ {
		a, b := reqUniv[rng.Intn(len(reqUniv))], reqUniv[rng.Intn(len(reqUniv))]
		o.caseEnableTwice(nil, nil, []int{rng.Intn(nd)}, [][]string{{a}, {b, a}})
	}
	return o
}

func indexOf(ss []string, s string) (int, bool) {
	for i, x := range ss {
		if x == s {
			return i, true
		}
	}
	return 0, false
}

// indices (into flat) of the plugins the validator accepts, computed through the real validator
func (o *obsv) filteredIdx(kind int, c plugin.Capabilities) []int {
	var out []int
	for x, p := range o.r.flat[kind] {
		if plugin.ValidateRequirements(p.mk(), &c) == nil {
			out = append(out, x)
		}
	}
	return out
}

func writeCases(o *obsv, vpath, jpath string) {
	var sb strings.Builder
	sb.WriteString("(* GENERATED by harness/cmd/registry -observe: what the real functions returned *)\n")
	sb.WriteString("From Coq Require Import List NArith ZArith Bool.\nFrom Scalibr Require Import Registry.Plugin Registry.Generated_Registry Registry.Cases.\nImport ListNotations.\nOpen Scope N_scope.\n")
	items := make([]string, len(o.cases))
	for i, c := range o.cases {
		items[i] = "(" + c.Coq + ")"
	}
	sb.WriteString(cf.Chunked("cases", "rcase", items, 500))
	if err := os.WriteFile(vpath, []byte(sb.String()), 0o644); err != nil {
		panic(err)
	}
	f, err := os.Create(jpath)
	if err != nil {
		panic(err)
	}
	defer f.Close()
	enc := json.NewEncoder(f)
	for _, c := range o.cases {
		if err := enc.Encode(c); err != nil {
			panic(err)
		}
	}
}

func main() {
	emit := flag.String("emit-coq", "", "write Generated_Registry.v here")
	obs := flag.String("observe", "", "write the Coq cases file here")
	jsonl := flag.String("jsonl", "", "JSONL side file")
	seed := flag.Int64("seed", 1, "PRNG seed (only the sampled name lists / filter inputs depend on it)")
	thorough := flag.Bool("thorough", false, "all ordered pairs of filesystem-extractor names too")
	flag.Parse()
	r := load()
	if *emit != "" {
		emitCoq(r, *emit)
	}
	if *obs != "" {
		o := observe(r, *seed, *thorough)
		writeCases(o, *obs, *jsonl)
		fmt.Printf("cases=%d plugins=fs:%d sa:%d det:%d keys=fs:%d sa:%d det:%d strings=%d\n", len(o.cases),
			len(r.flat[kFs]), len(r.flat[kSa]), len(r.flat[kDet]), len(r.names[kFs]), len(r.names[kSa]), len(r.names[kDet]), len(r.strs))
	}
}

package main

import (
	"fmt"
	"slices"
	"sort"
	"strings"

	"deps.dev/util/resolve"
	"deps.dev/util/resolve/dep"
	"deps.dev/util/semver"
	"github.com/google/osv-scalibr/guidedremediation"
	"github.com/google/osv-scalibr/guidedremediation/options"
	"github.com/google/osv-scalibr/guidedremediation/upgrade"

	cf "verifharness/internal/coqfmt"
)

// ---------------------------------------------------------------- relax.patchVulns, traced

type xPatchRec struct {
	Pkg string `json:"pkg"`
	Old string `json:"old"`
	New string `json:"new"`
}

type directRec struct {
	Pkg string `json:"pkg"`
	Req string `json:"req"`
}

type xVulnRec struct {
	ID      string      `json:"id"`
	Directs []directRec `json:"directs"` // root edges of the constraining subgraphs
	Reach   []string    `json:"reach"`   // direct dependencies from which the vulnerable node is reachable
}

type xState struct {
	Replaced []xPatchRec `json:"replaced"`
	Err      bool        `json:"err,omitempty"`
	Vulns    []xVulnRec  `json:"vulns"`
}

// xAnalysisOf projects resolved.Vulns the way relax.reqsToRelax reads them.
func xAnalysisOf(cl resolve.Client, vs []guidedremediation.VerifC11Vulnerability, maxDepth int) []xVulnRec {
	var out []xVulnRec
	for _, v := range vs {
		rec := xVulnRec{ID: v.OSV.ID}
		seenD, seenR := map[directRec]bool{}, map[string]bool{}
		for _, sg := range v.Subgraphs {
			for _, e := range sg.Nodes[0].Children {
				n := sg.Nodes[e.To].Version.Name
				if !seenR[n] {
					seenR[n] = true
					rec.Reach = append(rec.Reach, n)
				}
			}
			constr := sg.ConstrainingSubgraph(ctx, cl, v.OSV)
			for _, e := range constr.Nodes[0].Children {
				g := constr.Nodes[e.To]
				if maxDepth > 0 && g.Distance+1 > maxDepth {
					continue
				}
				d := directRec{Pkg: g.Version.Name, Req: e.Requirement}
				if !seenD[d] {
					seenD[d] = true
					rec.Directs = append(rec.Directs, d)
				}
			}
		}
		sort.Slice(rec.Directs, func(a, b int) bool {
			if rec.Directs[a].Pkg != rec.Directs[b].Pkg {
				return rec.Directs[a].Pkg < rec.Directs[b].Pkg
			}
			return rec.Directs[a].Req < rec.Directs[b].Req
		})
		sort.Strings(rec.Reach)
		out = append(out, rec)
	}
	sort.Slice(out, func(a, b int) bool { return out[a].ID < out[b].ID })
	return out
}

// traceRelaxPatchVulns runs relax.patchVulns for vulnIDs on a traced copy of the manifest.
func traceRelaxPatchVulns(cl resolve.Client, vm localMatcher, m0 guidedremediation.VerifC11Manifest, res0 *guidedremediation.VerifC11Resolved,
	vulnIDs []string, ro *options.RemediationOptions) (iters [][]xPatchRec, outcome string, lastResolved bool, out *guidedremediation.VerifC11Resolved) {
	tm, tr := guidedremediation.VerifC11TraceManifest(m0)
	tr.MaxPatches = patchBudget
	tr.MaxResolves = resolveBudget
	rs := &guidedremediation.VerifC11Resolved{Manifest: tm, ResolvedGraph: res0.ResolvedGraph}
	var err error
	oc, _ := guarded(callLimit, func() {
		out, err = guidedremediation.VerifC11RelaxPatchVulns(ctx, cl, vm, rs, vulnIDs, ro)
	})
	var cur []xPatchRec
	for _, ev := range tr.Events {
		switch ev.Kind {
		case "patch":
			old := ""
			for _, b := range ev.Before {
				ka, _ := b.Type.GetAttr(dep.KnownAs)
				kb, _ := ev.Req.Type.GetAttr(dep.KnownAs)
				if b.PackageKey == ev.Req.PackageKey && ka == kb {
					old = b.Version
				}
			}
			cur = append(cur, xPatchRec{Pkg: ev.Req.Name, Old: old, New: ev.Req.Version})
		case "resolve":
			if len(cur) > 0 {
				iters = append(iters, cur)
			}
			cur = nil
			lastResolved = true
		}
	}
	if len(cur) > 0 {
		iters = append(iters, cur)
		lastResolved = false
	}
	switch {
	case oc == callTimeout || tr.Exceeded:
		outcome = "XOutOfFuel"
	case oc == callPanic:
		outcome = "XPanic"
	case err != nil && strings.Contains(err.Error(), "cannot find a patch for the vulns"):
		outcome = "XImpossible"
	case err != nil:
		outcome = "XErr"
	default:
		outcome = "XOk"
	}
	return iters, outcome, lastResolved, out
}

// hmOf: position, in the ascending list of the package's versions, of the highest version the
// requirement matches (a tag stands for the version it names); -1 when nothing matches.
func hmOf(cl resolve.Client, pkg, req string) (int, int) {
	pk := resolve.PackageKey{System: resolve.NPM, Name: pkg}
	vks, _ := cl.Versions(ctx, pk)
	var vs []string
	for _, vk := range vks {
		vs = append(vs, vk.Version)
	}
	slices.SortFunc(vs, semver.NPM.Compare)
	c, err := semver.NPM.ParseConstraint(req)
	if err != nil {
		ms, merr := cl.MatchingVersions(ctx, resolve.VersionKey{PackageKey: pk, VersionType: resolve.Requirement, Version: req})
		if merr != nil || len(ms) == 0 {
			return -1, len(vs)
		}
		if c, err = semver.NPM.ParseConstraint(ms[0].Version); err != nil {
			return -1, len(vs)
		}
	}
	hi := -1
	for i, v := range vs {
		if pv, perr := semver.NPM.Parse(v); perr == nil && c.MatchVersion(pv) {
			hi = i
		}
	}
	return hi, len(vs)
}

// buildXcase replays the observed replacements to record the oracle answers and prints the xcase.
func buildXcase(o *output, stream string, cl resolve.Client, vm localMatcher, m0 guidedremediation.VerifC11Manifest,
	res0 *guidedremediation.VerifC11Resolved, vulnIDs []string, cfg upgrade.Config, ro *options.RemediationOptions,
	iters [][]xPatchRec, outcome string, lastResolved bool, info map[string]any) {
	var states []xState
	an := xAnalysisOf(cl, res0.Vulns, ro.MaxDepth)
	states = append(states, xState{Vulns: an})
	base := guidedremediation.VerifC11Untrace(m0)
	state := base.Clone()
	var replaced []xPatchRec
	for i, it := range iters {
		for _, p := range it {
			for _, rq := range state.Requirements() {
				if rq.Name == p.Pkg && rq.Version == p.Old {
					nr := rq
					nr.Version = p.New
					_ = state.PatchRequirement(nr)
					break
				}
			}
		}
		replaced = append(replaced, it...)
		if i == len(iters)-1 && !lastResolved {
			break // an interrupted pass is not followed by a resolution
		}
		roc := *ro
		res, err := guidedremediation.VerifC11ResolveManifest(ctx, cl, vm, state.Clone(), &roc)
		st := xState{Replaced: append([]xPatchRec(nil), replaced...)}
		if err != nil {
			st.Err = true
		} else {
			st.Vulns = xAnalysisOf(cl, res.Vulns, ro.MaxDepth)
		}
		states = append(states, st)
	}
	// intern packages and requirement strings in string order (= resolve.VersionKey.Compare)
	pkgSet, reqSet := map[string]bool{}, map[string]bool{}
	type pr struct{ p, r string }
	relaxKeys := map[pr]bool{}
	initReq := map[string]string{}
	for _, rq := range base.Requirements() {
		pkgSet[rq.Name] = true
		reqSet[rq.Version] = true
		initReq[rq.Name] = rq.Version
	}
	for _, st := range states {
		for _, v := range st.Vulns {
			for _, d := range v.Directs {
				pkgSet[d.Pkg], reqSet[d.Req] = true, true
				relaxKeys[pr{d.Pkg, d.Req}] = true
			}
			for _, p := range v.Reach {
				pkgSet[p] = true
			}
		}
		for _, p := range st.Replaced {
			pkgSet[p.Pkg], reqSet[p.Old], reqSet[p.New] = true, true, true
		}
	}
	for k := range cfg {
		if k != "" {
			pkgSet[k] = true
		}
	}
	// Relax answers for every (package, requirement) a pass can meet
	relaxAns := map[pr]relObs{}
	for k := range relaxKeys {
		rq := resolve.RequirementVersion{VersionKey: resolve.VersionKey{PackageKey: resolve.PackageKey{System: resolve.NPM, Name: k.p}, VersionType: resolve.Requirement, Version: k.r}}
		for _, mr := range base.Requirements() { // the dependency type (alias, dev, ...) the manifest has for it
			if mr.Name == k.p {
				rq.Type = mr.Type.Clone()
				break
			}
		}
		var got resolve.RequirementVersion
		var ok bool
		if oc, _ := guarded(callLimit, func() { got, ok = guidedremediation.VerifC11NpmRelax(ctx, cl, rq, cfg) }); oc == callOK && ok {
			relaxAns[k] = relObs{OK: true, Version: got.Version}
			reqSet[got.Version] = true
		}
	}
	names, reqs := newNames(), newVers()
	var ps, rs []string
	for p := range pkgSet {
		ps = append(ps, p)
	}
	for r := range reqSet {
		rs = append(rs, r)
	}
	sort.Strings(ps)
	sort.Strings(rs)
	for _, p := range ps {
		names.id(p)
	}
	for _, r := range rs {
		reqs.id(r)
	}
	var relaxTbl, hmTbl, boundTbl, initTbl []string
	var rk []pr
	for k := range relaxKeys {
		rk = append(rk, k)
	}
	sort.Slice(rk, func(a, b int) bool { return rk[a].p+"\x00"+rk[a].r < rk[b].p+"\x00"+rk[b].r })
	hmSeen := map[pr]bool{}
	addHm := func(p, r string) {
		if hmSeen[pr{p, r}] {
			return
		}
		hmSeen[pr{p, r}] = true
		if h, _ := hmOf(cl, p, r); h >= 0 {
			hmTbl = append(hmTbl, fmt.Sprintf("(%s, %s, %s)", names.n(p), reqs.n(r), cf.Nat(h)))
		}
	}
	for _, k := range rk {
		ans := "None"
		if a, ok := relaxAns[k]; ok {
			ans = "(Some " + reqs.n(a.Version) + ")"
			addHm(k.p, a.Version)
		}
		relaxTbl = append(relaxTbl, fmt.Sprintf("(%s, %s, %s)", names.n(k.p), reqs.n(k.r), ans))
		addHm(k.p, k.r)
	}
	for _, st := range states {
		for _, p := range st.Replaced {
			addHm(p.Pkg, p.Old)
			addHm(p.Pkg, p.New)
		}
	}
	for _, p := range ps {
		if _, n := hmOf(cl, p, "*"); n > 0 {
			boundTbl = append(boundTbl, fmt.Sprintf("(%s, %s)", names.n(p), cf.Nat(n)))
		}
		if r, ok := initReq[p]; ok {
			initTbl = append(initTbl, fmt.Sprintf("(%s, %s)", names.n(p), reqs.n(r)))
		}
	}
	var anTbl []string
	for _, st := range states {
		var key []string
		for _, p := range st.Replaced {
			key = append(key, fmt.Sprintf("(%s, %s)", names.n(p.Pkg), reqs.n(p.New)))
		}
		val := "None"
		if !st.Err {
			var vs []string
			for _, v := range st.Vulns {
				var ds, rch []string
				for _, d := range v.Directs {
					ds = append(ds, fmt.Sprintf("(%s, %s)", names.n(d.Pkg), reqs.n(d.Req)))
				}
				for _, p := range v.Reach {
					rch = append(rch, names.n(p))
				}
				vs = append(vs, fmt.Sprintf("{| xv_id := %s; xv_directs := %s; xv_reach := %s |}", vidN(v.ID), cf.List(ds), cf.List(rch)))
			}
			val = "(Some " + cf.List(vs) + ")"
		}
		anTbl = append(anTbl, fmt.Sprintf("(%s, %s)", cf.List(key), val))
	}
	var idl, itl []string
	for _, id := range vulnIDs {
		idl = append(idl, vidN(id))
	}
	npatch := 0
	for _, it := range iters {
		var pl []string
		for _, p := range it {
			pl = append(pl, fmt.Sprintf("(%s, %s, %s)", names.n(p.Pkg), reqs.n(p.Old), reqs.n(p.New)))
			npatch++
		}
		itl = append(itl, cf.List(pl))
	}
	oc := outcome
	if oc == "XPanic" {
		oc = "XOutOfFuel"
	}
	s := fmt.Sprintf("{| x_cfg := %s; x_vuln_ids := %s; x_relax := %s; x_analyse := %s; x_init := %s; x_hm := %s; x_bound := %s; x_observed := %s %s |}",
		cfgCoq(names, cfg), cf.List(idl), cf.List(relaxTbl), cf.List(anTbl), cf.List(initTbl), cf.List(hmTbl), cf.List(boundTbl), oc, cf.List(itl))
	o.add(stream, s, merge(info, map[string]any{"vuln_ids": vulnIDs, "observed": map[string]any{"outcome": outcome, "iterations": iters},
		"states": states, "nontrivial": len(states[0].Vulns) > 0 && npatch > 0}))
}

// vulnerability ids are interned by a stable hash-free scheme: their position in a global table
var vidTable = map[string]uint64{}

func vidN(id string) string {
	if _, ok := vidTable[id]; !ok {
		vidTable[id] = uint64(len(vidTable) + 1)
	}
	return cf.N(vidTable[id])
}

// runRelaxLoop: what common.ComputePatches does for the relax strategy, one patchVulns call at a time.
func runRelaxLoop(o *output, pre string, cl resolve.Client, vm localMatcher, m0 guidedremediation.VerifC11Manifest,
	res0 *guidedremediation.VerifC11Resolved, cfg upgrade.Config, ro *options.RemediationOptions, info map[string]any) (hung bool) {
	var ids []string
	for _, v := range res0.Vulns {
		ids = append(ids, v.OSV.ID)
	}
	sort.Strings(ids)
	var queue [][]string
	for _, id := range ids {
		queue = append(queue, []string{id})
	}
	nEmulated := len(queue)
	if len(ids) >= 2 && pre == "" {
		queue = append(queue, append([]string{}, ids...))
	}
	budget := len(queue) + 4
	for k := 0; k < len(queue) && k < budget; k++ {
		vulnIDs := queue[k]
		iters, outcome, lastResolved, out := traceRelaxPatchVulns(cl, vm, m0, res0, vulnIDs, ro)
		buildXcase(o, pre+"xcase", cl, vm, m0, res0, vulnIDs, cfg, ro, iters, outcome, lastResolved, info)
		if outcome == "XOutOfFuel" || outcome == "XPanic" {
			hung = true
			continue
		}
		if outcome != "XOk" || out == nil || k >= nEmulated+4 {
			continue
		}
		patch := guidedremediation.VerifC11ConstructPatches(res0, out)
		if len(patch.PackageUpdates) == 0 {
			continue
		}
		for _, iv := range patch.Introduced { // not grouped: one follow-up call per introduced vulnerability
			if !slices.Contains(vulnIDs, iv.ID) {
				queue = append(queue, append(append([]string{}, vulnIDs...), iv.ID))
			}
		}
	}
	return hung
}

package main

import (
	"fmt"
	"math/rand"
	"os"
	"path/filepath"
	"sort"
	"strings"

	"deps.dev/util/resolve"
	"deps.dev/util/resolve/schema"
	"deps.dev/util/semver"
	"github.com/google/osv-scalibr/guidedremediation/upgrade"
	"github.com/ossf/osv-schema/bindings/go/osvschema"
)

// ---------------------------------------------------------------- offline universes
//
// A universe is a set of packages, each with 1..12 concrete versions (pre-releases included), each
// version with dependency edges (range / pinned / tag requirements) on packages of HIGHER index
// only, so the graph is acyclic and diamonds arise freely. It is rendered in the tab-indented text
// grammar of deps.dev/util/resolve/schema; schema.New(text, sys).NewClient() is the offline
// resolve.Client that guidedremediation is run against.

type uDep struct {
	Name string `json:"name"`
	Req  string `json:"req"`
}
type uVer struct {
	V   string `json:"v"`
	Tag string `json:"tag,omitempty"`
	// Unlisted: the registry serves the version when asked for it (Version, Requirements) but does not list
	// it (Versions, MatchingVersions) - a Maven artifact missing from maven-metadata.xml.
	Unlisted bool   `json:"unlisted,omitempty"`
	Deps     []uDep `json:"deps,omitempty"`
}
type uPkg struct {
	Name     string `json:"name"`
	Versions []uVer `json:"versions"`
}
type universe struct {
	Sys  resolve.System `json:"-"`
	Eco  string         `json:"eco"`
	Pkgs []uPkg         `json:"pkgs"`
}

func (u *universe) schemaText() string {
	var sb strings.Builder
	for _, p := range u.Pkgs {
		sb.WriteString(p.Name + "\n")
		for _, v := range p.Versions {
			sb.WriteString("\t" + v.V + "\n")
			if v.Tag != "" {
				sb.WriteString("\t\tATTR: Tags " + v.Tag + "\n")
			}
			for _, d := range v.Deps {
				sb.WriteString("\t\t" + d.Name + "@" + d.Req + "\n")
			}
		}
	}
	return sb.String()
}

// client: schema.New(text, sys).NewClient(), wrapped so that concurrent use is safe (see safeClient).
func (u *universe) client() (resolve.Client, error) {
	sch, err := schema.New(u.schemaText(), u.Sys)
	if err != nil {
		return nil, err
	}
	hidden := map[resolve.VersionKey]bool{}
	for _, p := range u.Pkgs {
		for _, v := range p.Versions {
			if v.Unlisted {
				hidden[resolve.VersionKey{PackageKey: resolve.PackageKey{System: u.Sys, Name: p.Name}, VersionType: resolve.Concrete, Version: v.V}] = true
			}
		}
	}
	return safeClient{lc: sch.NewClient(), hidden: hidden}, nil
}

func (u *universe) pkg(name string) *uPkg {
	for i := range u.Pkgs {
		if u.Pkgs[i].Name == name {
			return &u.Pkgs[i]
		}
	}
	return nil
}

func (u *universe) versionStrings(name string) []string {
	p := u.pkg(name)
	if p == nil {
		return nil
	}
	var out []string
	for _, v := range p.Versions {
		if !v.Unlisted {
			out = append(out, v.V)
		}
	}
	return out
}

// ---------------------------------------------------------------- version pools

var npmPre = []string{"", "", "", "", "", "", "", "-alpha", "-alpha.1", "-beta", "-rc.1", "-0"}
var mavenQual = []string{"", "", "", "", "", "", "", "", "-alpha", "-beta-1", "-rc1", "-SNAPSHOT", "-alpha", "-rc1", "-SNAPSHOT", ".Final", "-ga", "-sp1"}

// genVersions draws n distinct version strings clustered around a few majors/minors so that all
// difference classes (major/minor/patch/prerelease) occur inside one package.
func genVersions(r *rand.Rand, sys resolve.System, n int) []string {
	seen := map[string]bool{}
	var out []string
	baseMaj := r.Intn(3)
	span := 1 + r.Intn(3)
	nmin, npat := 3, 4
	if n > 12 {
		span, nmin, npat = 3, 4, 5
	}
	for tries := 0; len(out) < n && tries < 2000; tries++ {
		maj := baseMaj + r.Intn(span)
		min := r.Intn(nmin)
		pat := r.Intn(npat)
		var s string
		if sys == resolve.NPM {
			s = fmt.Sprintf("%d.%d.%d%s", maj, min, pat, pick(r, npmPre))
			if r.Intn(40) == 0 {
				s += "+b" + fmt.Sprint(r.Intn(3))
			}
		} else {
			switch r.Intn(8) {
			case 0:
				s = fmt.Sprintf("%d.%d%s", maj, min, pick(r, mavenQual))
			case 1:
				s = fmt.Sprintf("%d.%d.%d.%d", maj, min, pat, r.Intn(3))
			default:
				s = fmt.Sprintf("%d.%d.%d%s", maj, min, pat, pick(r, mavenQual))
			}
		}
		if seen[s] {
			continue
		}
		if n > 12 {
			// above 12 elements slices.SortFunc is an unstable pdqsort: the sorted result is only
			// determined when no two versions compare equal (sort_unique_on_distinct)
			dup := false
			for _, o := range out {
				dup = dup || sys.Semver().Compare(o, s) == 0
			}
			if dup {
				continue
			}
		}
		seen[s] = true
		out = append(out, s)
	}
	return out
}

// genCount draws the number of versions of a package: mostly 1..12, sometimes up to 30.
func genCount(r *rand.Rand) int {
	switch k := r.Intn(20); {
	case k < 3:
		return 13 + r.Intn(18)
	case k < 7:
		return 1 + r.Intn(3)
	}
	return 1 + r.Intn(12)
}

// genReq draws a requirement on a package given its versions: pinned, range or tag.
func genReq(r *rand.Rand, sys resolve.System, vers []string, allowTag bool) string {
	v := pick(r, vers)
	if r.Intn(2) == 0 { // prefer a low version, so that there is something above the requirement
		ri := ranksOf(sys.Semver(), vers)
		for i := 0; i < 3; i++ {
			w := pick(r, vers)
			if ri.parses[w] && ri.parses[v] && ri.rank[w] < ri.rank[v] {
				v = w
			}
		}
	}
	base := v
	if i := strings.IndexAny(base, "-+"); i >= 0 && r.Intn(2) == 0 {
		base = base[:i]
	}
	if sys == resolve.NPM {
		if r.Intn(6) == 0 {
			if q := genNpmCompound(r, vers); q != "" {
				return q
			}
		}
		switch r.Intn(10) {
		case 0, 1, 2:
			return v // pinned
		case 3, 4:
			return "^" + base
		case 5, 6:
			return "~" + base
		case 7:
			return ">=" + base
		case 8:
			if allowTag {
				return "latest"
			}
			return "^" + v
		default:
			parts := strings.SplitN(base, ".", 3)
			return parts[0] + ".x"
		}
	}
	switch r.Intn(8) {
	case 0, 1, 2, 3, 4:
		return v // soft (pinned) requirement
	case 5:
		return "[" + v + "]"
	case 6:
		return "[" + base + ",)"
	default:
		parts := strings.SplitN(base, ".", 2)
		var maj int
		fmt.Sscanf(parts[0], "%d", &maj)
		return fmt.Sprintf("[%s,%d.0)", base, maj+1)
	}
}

// genNpmCompound draws a requirement whose matching set need not be contiguous in the version list: a
// disjunction (||) of ranges around two different versions, a hyphen range, a comparator pair, or a
// "below a or from b" set.
func genNpmCompound(r *rand.Rand, vers []string) string {
	ri := ranksOf(semver.NPM, vers)
	var st []string // stable versions, ascending
	for _, v := range vers {
		if ri.parses[v] && !strings.ContainsAny(v, "-+") {
			st = append(st, v)
		}
	}
	sort.SliceStable(st, func(a, b int) bool { return ri.rank[st[a]] < ri.rank[st[b]] })
	if len(st) < 2 {
		return ""
	}
	i := r.Intn(len(st) - 1)
	j := i + 1 + r.Intn(len(st)-i-1)
	a, b := st[i], st[j]
	count("npm_compound_requirement", "yes")
	switch r.Intn(6) {
	case 0:
		return "^" + a + " || ^" + b
	case 1:
		return "~" + a + " || ~" + b
	case 2:
		return a + " || " + b
	case 3:
		return a + " - " + b
	case 4:
		return ">=" + a + " <" + b
	default:
		return "<=" + a + " || >=" + b
	}
}

func pkgName(sys resolve.System, i int) string {
	if sys == resolve.NPM {
		if i == 1 {
			return "@sc/pb" // a scoped name
		}
		if i == 2 {
			return "JSONStream" // capitals (npm names are case-sensitive)
		}
		return fmt.Sprintf("p%c", 'a'+i)
	}
	return fmt.Sprintf("org.x:p%c", 'a'+i)
}

func genUniverse(r *rand.Rand, sys resolve.System) *universe {
	u := &universe{Sys: sys, Eco: map[resolve.System]string{resolve.NPM: "npm", resolve.Maven: "Maven"}[sys]}
	np := 2 + r.Intn(6)
	vers := make([][]string, np)
	for i := 0; i < np; i++ {
		vers[i] = genVersions(r, sys, genCount(r))
	}
	for i := 0; i < np; i++ {
		p := uPkg{Name: pkgName(sys, i)}
		// dependencies usually stable across versions of a package, with an occasional change
		var deps []int
		for j := i + 1; j < np; j++ {
			if r.Intn(3) == 0 {
				deps = append(deps, j)
			}
		}
		tagIdx := -1
		if sys == resolve.NPM && r.Intn(3) == 0 {
			tagIdx = r.Intn(len(vers[i]))
		}
		for k, v := range vers[i] {
			uv := uVer{V: v}
			if k == tagIdx {
				uv.Tag = "latest"
			}
			for _, j := range deps {
				if r.Intn(6) == 0 {
					continue // this version drops the dependency
				}
				uv.Deps = append(uv.Deps, uDep{Name: pkgName(sys, j), Req: genReq(r, sys, vers[j], false)})
			}
			p.Versions = append(p.Versions, uv)
		}
		u.Pkgs = append(u.Pkgs, p)
		count("versions_per_package", fmt.Sprint(len(p.Versions)))
		pre := 0
		for _, v := range p.Versions {
			if strings.ContainsAny(v.V, "-") {
				pre++
			}
			for _, d := range v.Deps {
				count("edge_requirement", reqKind(sys, d.Req))
			}
		}
		if pre > 0 {
			count("packages_with_prerelease_versions", "yes")
		} else {
			count("packages_with_prerelease_versions", "no")
		}
	}
	count("packages_per_universe_"+u.Eco, fmt.Sprint(len(u.Pkgs)))
	return u
}

func reqKind(sys resolve.System, req string) string {
	switch {
	case req == "latest":
		return "tag"
	case sys == resolve.NPM && strings.HasPrefix(req, "^"):
		return "caret"
	case sys == resolve.NPM && strings.HasPrefix(req, "~"):
		return "tilde"
	case sys == resolve.NPM && (strings.HasPrefix(req, ">") || strings.HasSuffix(req, ".x") || req == "*"):
		return "range"
	case sys == resolve.Maven && strings.HasPrefix(req, "[") && !strings.Contains(req, ","):
		return "hard-pin"
	case sys == resolve.Maven && strings.ContainsAny(req, "[("):
		return "range"
	}
	return "pinned"
}

// ---------------------------------------------------------------- manifests

type mDep struct {
	Name string `json:"name"`
	Req  string `json:"req"`
	Dev  bool   `json:"dev,omitempty"`
	Mgmt bool   `json:"mgmt,omitempty"` // Maven: entry in dependencyManagement only
	// npm: the dependency is declared under this alias name ("alias": "npm:name@req")
	Alias string `json:"alias,omitempty"`
	// Maven: a further declaration of the package inside a profile / a pluginManagement plugin
	Profile bool `json:"profile,omitempty"`
	Plugin  bool `json:"plugin,omitempty"`
}

type manifestSpec struct {
	Deps []mDep `json:"deps"`
}

func genManifest(r *rand.Rand, u *universe) manifestSpec {
	var m manifestSpec
	n := 1 + r.Intn(3)
	idx := r.Perm(len(u.Pkgs))
	for _, i := range idx {
		if len(m.Deps) >= n {
			break
		}
		// prefer low indices (they have dependencies)
		if i > len(u.Pkgs)/2 && r.Intn(3) != 0 {
			continue
		}
		p := u.Pkgs[i]
		vs := u.versionStrings(p.Name)
		hasTag := false
		for _, v := range p.Versions {
			hasTag = hasTag || v.Tag != ""
		}
		d := mDep{Name: p.Name, Req: genReq(r, u.Sys, vs, hasTag), Dev: r.Intn(6) == 0}
		count("manifest_requirement", reqKind(u.Sys, d.Req))
		m.Deps = append(m.Deps, d)
	}
	if len(m.Deps) == 0 {
		p := u.Pkgs[0]
		m.Deps = append(m.Deps, mDep{Name: p.Name, Req: genReq(r, u.Sys, u.versionStrings(p.Name), false)})
	}
	if u.Sys == resolve.Maven && r.Intn(4) == 0 {
		// a dependencyManagement entry for some other package
		p := u.Pkgs[len(u.Pkgs)-1]
		present := false
		for _, d := range m.Deps {
			present = present || d.Name == p.Name
		}
		if !present {
			m.Deps = append(m.Deps, mDep{Name: p.Name, Req: pick(r, u.versionStrings(p.Name)), Mgmt: true})
		}
	}
	return m
}

func (m manifestSpec) fileName(sys resolve.System) string {
	if sys == resolve.NPM {
		return "package.json"
	}
	return "pom.xml"
}

func (m manifestSpec) render(sys resolve.System) string {
	if sys == resolve.NPM {
		var deps, dev []string
		for _, d := range m.Deps {
			line := fmt.Sprintf("    %q: %q", d.Name, d.Req)
			if d.Alias != "" {
				line = fmt.Sprintf("    %q: %q", d.Alias, "npm:"+d.Name+"@"+d.Req)
			}
			if d.Dev {
				dev = append(dev, line)
			} else {
				deps = append(deps, line)
			}
		}
		s := "{\n  \"name\": \"verif-root\",\n  \"version\": \"1.0.0\",\n  \"dependencies\": {\n" + strings.Join(deps, ",\n") + "\n  }"
		if len(dev) > 0 {
			s += ",\n  \"devDependencies\": {\n" + strings.Join(dev, ",\n") + "\n  }"
		}
		return s + "\n}\n"
	}
	var sb strings.Builder
	sb.WriteString("<project>\n  <modelVersion>4.0.0</modelVersion>\n  <groupId>org.verif</groupId>\n  <artifactId>root</artifactId>\n  <version>1.0.0</version>\n")
	dep := func(d mDep) string {
		ga := strings.SplitN(d.Name, ":", 2)
		s := "    <dependency>\n      <groupId>" + ga[0] + "</groupId>\n      <artifactId>" + ga[1] + "</artifactId>\n      <version>" + d.Req + "</version>\n"
		if d.Dev {
			s += "      <scope>test</scope>\n"
		}
		return s + "    </dependency>\n"
	}
	var mg, prof, plug []mDep
	sb.WriteString("  <dependencies>\n")
	for _, d := range m.Deps {
		switch {
		case d.Mgmt:
			mg = append(mg, d)
		case d.Profile:
			prof = append(prof, d)
		case d.Plugin:
			plug = append(plug, d)
		default:
			sb.WriteString(dep(d))
		}
	}
	sb.WriteString("  </dependencies>\n")
	if len(mg) > 0 {
		sb.WriteString("  <dependencyManagement>\n  <dependencies>\n")
		for _, d := range mg {
			sb.WriteString(dep(d))
		}
		sb.WriteString("  </dependencies>\n  </dependencyManagement>\n")
	}
	if len(prof) > 0 {
		sb.WriteString("  <profiles>\n  <profile>\n  <id>legacy</id>\n  <dependencies>\n")
		for _, d := range prof {
			sb.WriteString(dep(d))
		}
		sb.WriteString("  </dependencies>\n  </profile>\n  </profiles>\n")
	}
	if len(plug) > 0 {
		sb.WriteString("  <build>\n  <pluginManagement>\n  <plugins>\n  <plugin>\n    <groupId>org.plug</groupId>\n    <artifactId>plug</artifactId>\n    <version>1.0</version>\n  <dependencies>\n")
		for _, d := range plug {
			sb.WriteString(dep(d))
		}
		sb.WriteString("  </dependencies>\n  </plugin>\n  </plugins>\n  </pluginManagement>\n  </build>\n")
	}
	sb.WriteString("</project>\n")
	return sb.String()
}

func (m manifestSpec) write(sys resolve.System, dir string) (string, error) {
	p := filepath.Join(dir, m.fileName(sys))
	return p, os.WriteFile(p, []byte(m.render(sys)), 0o644)
}

// ---------------------------------------------------------------- OSV records

type vulnSpec struct {
	ID     string      `json:"id"`
	Pkg    string      `json:"pkg"`
	Events [][2]string `json:"events"` // (kind, version)
	Listed []string    `json:"listed,omitempty"`
}

func (v vulnSpec) osv(eco string) *osvschema.Vulnerability {
	rg := osvschema.Range{Type: osvschema.RangeEcosystem}
	if eco == "npm" {
		rg.Type = osvschema.RangeSemVer
	}
	for _, e := range v.Events {
		switch e[0] {
		case "introduced":
			rg.Events = append(rg.Events, osvschema.Event{Introduced: e[1]})
		case "fixed":
			rg.Events = append(rg.Events, osvschema.Event{Fixed: e[1]})
		case "last_affected":
			rg.Events = append(rg.Events, osvschema.Event{LastAffected: e[1]})
		}
	}
	a := osvschema.Affected{Package: osvschema.Package{Ecosystem: eco, Name: v.Pkg}, Versions: v.Listed}
	if len(rg.Events) > 0 {
		a.Ranges = []osvschema.Range{rg}
	}
	return &osvschema.Vulnerability{ID: v.ID, Affected: []osvschema.Affected{a}}
}

// genVulns: 1..5 records on packages of the universe; ranges with a fix, with last_affected, and
// without any fix; sorted version list of the package is used so that ranges are well-formed.
func genVulns(r *rand.Rand, u *universe) []vulnSpec {
	var out []vulnSpec
	n := 1 + r.Intn(5)
	for i := 0; i < n; i++ {
		p := pick(r, u.Pkgs)
		vs := u.versionStrings(p.Name)
		ri := ranksOf(u.Sys.Semver(), vs)
		var sorted []string
		for _, v := range vs {
			if ri.parses[v] {
				sorted = append(sorted, v)
			}
		}
		sort.SliceStable(sorted, func(a, b int) bool { return ri.rank[sorted[a]] < ri.rank[sorted[b]] })
		if len(sorted) == 0 {
			continue
		}
		v := vulnSpec{ID: fmt.Sprintf("V-%03d", i), Pkg: p.Name}
		switch r.Intn(6) {
		case 0: // no fix at all
			v.Events = [][2]string{{"introduced", "0"}}
		case 1: // last_affected
			v.Events = [][2]string{{"introduced", "0"}, {"last_affected", pick(r, sorted)}}
		case 2: // listed versions only
			k := 1 + r.Intn(len(sorted))
			v.Listed = append(v.Listed, sorted[:k]...)
		case 3: // introduced later, fixed later
			a := r.Intn(len(sorted))
			b := a + r.Intn(len(sorted)-a)
			v.Events = [][2]string{{"introduced", sorted[a]}}
			if b > a {
				v.Events = append(v.Events, [2]string{"fixed", sorted[b]})
			}
		default: // introduced 0, fixed at some version
			v.Events = [][2]string{{"introduced", "0"}, {"fixed", pick(r, sorted)}}
		}
		out = append(out, v)
	}
	return out
}

// ---------------------------------------------------------------- upgrade configs

func genConfig(r *rand.Rand, u *universe) upgrade.Config {
	cfg := upgrade.NewConfig()
	lv := []upgrade.Level{upgrade.Major, upgrade.Major, upgrade.Minor, upgrade.Minor, upgrade.Patch, upgrade.Patch, upgrade.None}
	if r.Intn(3) != 0 {
		cfg.SetDefault(pick(r, lv))
	}
	for _, p := range u.Pkgs {
		if r.Intn(3) == 0 {
			cfg.Set(p.Name, pick(r, lv))
		}
	}
	for k, l := range cfg {
		if k == "" {
			count("config_default_level", levelCoq(l))
		} else {
			count("config_package_level", levelCoq(l))
		}
	}
	if _, ok := cfg[""]; !ok {
		count("config_default_level", "unset")
	}
	return cfg
}

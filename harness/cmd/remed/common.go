// Command remed drives guided remediation (upgrade levels, Maven update suggestions, npm relax,
// Maven override) on generated offline universes and writes Coq cases + a JSONL side file.
package main

import (
	"context"
	"fmt"
	"math/rand"
	"sort"
	"strings"
	"time"

	"deps.dev/util/resolve"
	"deps.dev/util/semver"
	"github.com/google/osv-scalibr/extractor"
	"github.com/google/osv-scalibr/guidedremediation"
	"github.com/google/osv-scalibr/guidedremediation/upgrade"
	"github.com/ossf/osv-schema/bindings/go/osvschema"

	cf "verifharness/internal/coqfmt"
)

var ctx = context.Background()

// ---------------------------------------------------------------- interning

type interner struct {
	ids  map[string]uint64
	strs []string
}

// newNames: id 0 is the empty string (the key of the default level in upgrade.Config).
func newNames() *interner { return &interner{ids: map[string]uint64{"": 0}, strs: []string{""}} }

// newVers: version / requirement strings, ids from 1.
func newVers() *interner { return &interner{ids: map[string]uint64{}, strs: []string{"\x00unused"}} }

func (in *interner) id(s string) uint64 {
	if id, ok := in.ids[s]; ok {
		return id
	}
	id := uint64(len(in.strs))
	in.ids[s] = id
	in.strs = append(in.strs, s)
	return id
}

func (in *interner) n(s string) string { return cf.N(in.id(s)) }

// ---------------------------------------------------------------- levels and diffs

var levelNames = []string{"Major", "Minor", "Patch", "LNone", "LInvalid"}

func levelCoq(l upgrade.Level) string {
	if l < 0 || l > 3 {
		return "LInvalid"
	}
	return levelNames[l]
}

var diffNames = []string{"Same", "DiffOther", "DiffMajor", "DiffMinor", "DiffPatch", "DiffPrerelease", "DiffBuild"}

func diffCoq(d semver.Diff) string {
	if d < 0 || int(d) >= len(diffNames) {
		return "DiffOther"
	}
	return diffNames[d]
}

func cmpCoq(c int) string {
	switch {
	case c < 0:
		return "Lt"
	case c > 0:
		return "Gt"
	}
	return "Eq"
}

func cfgCoq(names *interner, cfg upgrade.Config) string {
	keys := make([]string, 0, len(cfg))
	for k := range cfg {
		keys = append(keys, k)
	}
	sort.Strings(keys)
	var items []string
	for _, k := range keys {
		items = append(items, fmt.Sprintf("(%s, %s)", names.n(k), levelCoq(cfg[k])))
	}
	return cf.List(items)
}

func cfgJSON(cfg upgrade.Config) map[string]string {
	out := map[string]string{}
	for k, v := range cfg {
		out[k] = levelCoq(v)
	}
	return out
}

// ---------------------------------------------------------------- order of a set of version strings

// rankInfo: rank[s] for strings that parse (equal rank <=> Compare == 0), consistent reports whether
// Compare restricted to these strings really is the total preorder the ranks describe.
type rankInfo struct {
	rank       map[string]int64
	parses     map[string]bool
	consistent bool
}

func ranksOf(sys semver.System, strs []string) rankInfo {
	ri := rankInfo{rank: map[string]int64{}, parses: map[string]bool{}, consistent: true}
	var ok []string
	seen := map[string]bool{}
	for _, s := range strs {
		if seen[s] {
			continue
		}
		seen[s] = true
		if _, err := sys.Parse(s); err == nil {
			ri.parses[s] = true
			ok = append(ok, s)
		}
	}
	sort.SliceStable(ok, func(i, j int) bool { return sys.Compare(ok[i], ok[j]) < 0 })
	var r int64
	for i, s := range ok {
		if i > 0 && sys.Compare(ok[i-1], s) != 0 {
			r++
		}
		ri.rank[s] = r
	}
	for _, a := range ok {
		for _, b := range ok {
			c := sys.Compare(a, b)
			want := 0
			if ri.rank[a] < ri.rank[b] {
				want = -1
			} else if ri.rank[a] > ri.rank[b] {
				want = 1
			}
			if sgn(c) != want {
				ri.consistent = false
			}
		}
	}
	return ri
}

func sgn(c int) int {
	switch {
	case c < 0:
		return -1
	case c > 0:
		return 1
	}
	return 0
}

// validateFirstComponent checks, on one package's parsing versions, the hypothesis of allows_compose:
// Difference names the first differing component of (major, minor, patch, rest). The witness classes
// are built from the reported differences themselves (union-find on "not a major difference" etc.)
// and then every pair is checked against them. Returns pairs checked, pairs failing.
func validateFirstComponent(sys semver.System, vers []string) (int, int) {
	var ok []string
	for _, v := range vers {
		if _, err := sys.Parse(v); err == nil {
			ok = append(ok, v)
		}
	}
	n := len(ok)
	d := make([][]semver.Diff, n)
	for i := range d {
		d[i] = make([]semver.Diff, n)
		for j := range d[i] {
			_, dd, _ := sys.Difference(ok[i], ok[j])
			d[i][j] = dd
		}
	}
	classes := func(same func(semver.Diff) bool) []int {
		p := make([]int, n)
		for i := range p {
			p[i] = i
		}
		var find func(int) int
		find = func(x int) int {
			for p[x] != x {
				p[x] = p[p[x]]
				x = p[x]
			}
			return x
		}
		for i := 0; i < n; i++ {
			for j := 0; j < n; j++ {
				if same(d[i][j]) {
					p[find(i)] = find(j)
				}
			}
		}
		out := make([]int, n)
		for i := range out {
			out[i] = find(i)
		}
		return out
	}
	maj := classes(func(x semver.Diff) bool { return x != semver.DiffMajor })
	min := classes(func(x semver.Diff) bool { return x != semver.DiffMajor && x != semver.DiffMinor })
	pat := classes(func(x semver.Diff) bool {
		return x != semver.DiffMajor && x != semver.DiffMinor && x != semver.DiffPatch
	})
	rest := classes(func(x semver.Diff) bool { return x == semver.Same })
	checked, bad := 0, 0
	for i := 0; i < n; i++ {
		for j := 0; j < n; j++ {
			checked++
			var okp bool
			switch {
			case maj[i] != maj[j]:
				okp = d[i][j] == semver.DiffMajor
			case min[i] != min[j]:
				okp = d[i][j] == semver.DiffMinor
			case pat[i] != pat[j]:
				okp = d[i][j] == semver.DiffPatch
			case rest[i] == rest[j]:
				okp = d[i][j] == semver.Same
			default:
				okp = d[i][j] == semver.DiffOther || d[i][j] == semver.DiffPrerelease || d[i][j] == semver.DiffBuild
			}
			if !okp {
				bad++
			}
		}
	}
	return checked, bad
}

// ---------------------------------------------------------------- vulnerability matcher

// localMatcher implements matcher.VulnerabilityMatcher on a fixed list of OSV records with the
// implementation's own IsAffected.
type localMatcher []*osvschema.Vulnerability

func (m localMatcher) MatchVulnerabilities(_ context.Context, pkgs []*extractor.Package) ([][]*osvschema.Vulnerability, error) {
	res := make([][]*osvschema.Vulnerability, len(pkgs))
	for i, p := range pkgs {
		for _, v := range m {
			if guidedremediation.VerifIsAffected(v, p) {
				res[i] = append(res[i], v)
			}
		}
	}
	return res, nil
}

func isAffected(v *osvschema.Vulnerability, sys resolve.System, name, ver string) bool {
	return guidedremediation.VerifIsAffected(v, guidedremediation.VerifVKToPackage(resolve.VersionKey{
		PackageKey: resolve.PackageKey{System: sys, Name: name}, VersionType: resolve.Concrete, Version: ver}))
}

// ---------------------------------------------------------------- clients

// shuffleClient returns Versions() in a fixed permuted order (a resolve.Client makes no promise
// about the order; the anchored code sorts or scans accordingly).
type shuffleClient struct {
	resolve.Client
	perm map[resolve.PackageKey][]resolve.Version
}

func (c *shuffleClient) Versions(ctx context.Context, pk resolve.PackageKey) ([]resolve.Version, error) {
	if vs, ok := c.perm[pk]; ok {
		return append([]resolve.Version(nil), vs...), nil
	}
	return c.Client.Versions(ctx, pk)
}

// safeClient makes a resolve.LocalClient usable from the goroutines of common.ComputePatches: the
// LocalClient hands out its internal slices, and both deps.dev's MatchRequirement (npm) and the Maven
// resolver sort what they are given in place. Every answer is a fresh copy here.
type safeClient struct {
	lc     *resolve.LocalClient
	hidden map[resolve.VersionKey]bool // served by Version / Requirements, not listed by Versions
}

func (c safeClient) listed(vs []resolve.Version) []resolve.Version {
	out := make([]resolve.Version, 0, len(vs))
	for _, v := range vs {
		if !c.hidden[v.VersionKey] {
			out = append(out, v)
		}
	}
	return out
}

func (c safeClient) Version(ctx context.Context, vk resolve.VersionKey) (resolve.Version, error) {
	return c.lc.Version(ctx, vk)
}

func (c safeClient) Versions(ctx context.Context, pk resolve.PackageKey) ([]resolve.Version, error) {
	vs, err := c.lc.Versions(ctx, pk)
	return c.listed(vs), err
}

func (c safeClient) Requirements(ctx context.Context, vk resolve.VersionKey) ([]resolve.RequirementVersion, error) {
	rs, err := c.lc.Requirements(ctx, vk)
	return append([]resolve.RequirementVersion(nil), rs...), err
}

func (c safeClient) MatchingVersions(ctx context.Context, vk resolve.VersionKey) ([]resolve.Version, error) {
	vs, err := c.lc.Versions(ctx, vk.PackageKey)
	if err != nil {
		return nil, err
	}
	return resolve.MatchRequirement(vk, c.listed(vs)), nil
}

// ---------------------------------------------------------------- watchdog

type callOutcome int

const (
	callOK callOutcome = iota
	callPanic
	callTimeout
)

// confirmedTimeouts counts the calls that did not return even within the extended deadline.
var confirmedTimeouts int

// guarded runs f with recover and a wall-clock limit.
//
// Reaching the limit only makes the call a CANDIDATE for "does not return": on a starved machine a
// call that normally takes milliseconds can miss it. The harness is sequential, so nothing else of
// it is running while it waits; the candidate is confirmed by giving the very same call (it is
// still running, and it cannot be restarted because it writes to the caller's variables) ten
// times the limit. If it returns in that time the timeout was load-induced: it is counted
// ("watchdog"/"load_induced_timeouts" in the distribution) and the call's real outcome is used.
// Only a call that is still not back after 10x the limit is reported as callTimeout. Once two
// calls have been confirmed not to return, the tree under test is known not to terminate on some
// inputs and further candidates are taken at the plain limit (each confirmation costs minutes and
// leaves a spinning goroutine behind).
func guarded(limit time.Duration, f func()) (out callOutcome, panicMsg string) {
	done := make(chan struct{})
	go func() {
		defer func() {
			if r := recover(); r != nil {
				out = callPanic
				panicMsg = fmt.Sprint(r)
			}
			close(done)
		}()
		f()
	}()
	select {
	case <-done:
		return out, panicMsg
	case <-time.After(limit):
	}
	if confirmedTimeouts >= 2 {
		count("watchdog", "timeouts_after_two_confirmed")
		return callTimeout, ""
	}
	select {
	case <-done:
		count("watchdog", "load_induced_timeouts")
		return out, panicMsg
	case <-time.After(9 * limit):
		confirmedTimeouts++
		count("watchdog", "confirmed_timeouts")
		return callTimeout, ""
	}
}

// ---------------------------------------------------------------- input distribution (for the evidence)

var dist = map[string]map[string]int{}

func count(cat, key string) {
	if dist[cat] == nil {
		dist[cat] = map[string]int{}
	}
	dist[cat][key]++
}

// ---------------------------------------------------------------- misc

func pick[T any](r *rand.Rand, xs []T) T { return xs[r.Intn(len(xs))] }

func joinLines(xs []string) string { return strings.Join(xs, "\n") }

func optDiff(d semver.Diff, err error) string {
	if err != nil {
		return "None"
	}
	return "(Some " + diffCoq(d) + ")"
}

package main

import (
	"encoding/json"
	"fmt"
	"os"

	"deps.dev/util/resolve"
	"github.com/google/osv-scalibr/guidedremediation"
	"github.com/google/osv-scalibr/guidedremediation/options"
	"github.com/google/osv-scalibr/guidedremediation/strategy"
	"github.com/google/osv-scalibr/guidedremediation/upgrade"
)

type replayFile struct {
	Stream string          `json:"stream"`
	Case   json.RawMessage `json:"case"`
	First  json.RawMessage `json:"first_mismatch"`
	Wit    json.RawMessage `json:"witness"`
}

type e2eCase struct {
	Universe  *universe         `json:"universe"`
	Manifest  manifestSpec      `json:"manifest"`
	Vulns     []vulnSpec        `json:"vulns"`
	Config    map[string]string `json:"config"`
	IgnoreDev bool              `json:"ignore_dev"`
	Strategy  string            `json:"strategy"`
	Input     json.RawMessage   `json:"input"`
	Source    string            `json:"source"`
}

func cfgFromJSON(m map[string]string) upgrade.Config {
	cfg := upgrade.NewConfig()
	for k, v := range m {
		switch v {
		case "Major":
			cfg.Set(k, upgrade.Major)
		case "Minor":
			cfg.Set(k, upgrade.Minor)
		case "Patch":
			cfg.Set(k, upgrade.Patch)
		case "LNone":
			cfg.Set(k, upgrade.None)
		default:
			cfg.Set(k, upgrade.Level(7))
		}
	}
	return cfg
}

func fixUniverse(u *universe) {
	if u == nil {
		return
	}
	if u.Eco == "npm" {
		u.Sys = resolve.NPM
	} else {
		u.Sys = resolve.Maven
	}
}

// replayInto re-runs one recorded case (side-file format) and adds the resulting cases to o.
func replayInto(o *output, stream string, raw json.RawMessage, knownID string) error {
	var c e2eCase
	if err := json.Unmarshal(raw, &c); err != nil {
		return err
	}
	fixUniverse(c.Universe)
	pre := ""
	if knownID != "" {
		pre = "k_"
	}
	switch {
	case stream == "scase":
		var in sugInput
		if err := json.Unmarshal(c.Input, &in); err != nil {
			return err
		}
		in.KnownID = knownID
		addSug(o, pre+"scase", in)
	case stream == "rcase" && c.Universe == nil:
		var in relInput
		if err := json.Unmarshal(c.Input, &in); err != nil {
			return err
		}
		in.KnownID = knownID
		addRel(o, pre+"rcase", in)
	case stream == "vcase":
		var in gvgInput
		if err := json.Unmarshal(c.Input, &in); err != nil {
			return err
		}
		in.KnownID = knownID
		addGvg(o, in)
	case stream == "qcase" || (stream == "ucase" && c.Strategy == "update"):
		runUpdateCase(o, c.Universe, c.Manifest, cfgFromJSON(c.Config), c.IgnoreDev, knownID)
	case c.Universe != nil && c.Universe.Sys == resolve.NPM:
		runFixNpm(o, c.Universe, c.Manifest, c.Vulns, cfgFromJSON(c.Config), knownID)
	case c.Universe != nil:
		runFixMaven(o, c.Universe, c.Manifest, c.Vulns, cfgFromJSON(c.Config), knownID)
	default:
		return fmt.Errorf("cannot replay stream %q", stream)
	}
	return nil
}

func doReplay(path string) {
	b, err := os.ReadFile(path)
	if err != nil {
		panic(err)
	}
	var rf replayFile
	if err := json.Unmarshal(b, &rf); err != nil {
		panic(err)
	}
	raw := rf.Case
	if raw == nil {
		raw = rf.First
	}
	if raw == nil {
		raw = rf.Wit
	}
	o := newOutput()
	if err := replayInto(o, rf.Stream, raw, ""); err != nil {
		panic(err)
	}
	for _, s := range o.order {
		for i, c := range o.coq[s] {
			sb, _ := json.Marshal(o.side[s][i])
			fmt.Printf("implementation: %s %s\n", s, sb)
			fmt.Printf("coq-case: %s %s\n", s, c)
		}
	}
	// for end-to-end cases also print the manifest the implementation writes
	var c e2eCase
	if json.Unmarshal(raw, &c) == nil && c.Universe != nil {
		fixUniverse(c.Universe)
		cl, _ := c.Universe.client()
		vm, _ := matcherOf(c.Universe, c.Vulns)
		dir, _ := os.MkdirTemp("", "remed")
		defer os.RemoveAll(dir)
		p, _ := c.Manifest.write(c.Universe.Sys, dir)
		before, _ := os.ReadFile(p)
		fmt.Printf("schema:\n%s\nmanifest before:\n%s\n", c.Universe.schemaText(), before)
		ro := options.DefaultRemediationOptions()
		ro.UpgradeConfig = cfgFromJSON(c.Config)
		st := strategy.StrategyOverride
		if c.Universe.Sys == resolve.NPM {
			st = strategy.StrategyRelax
		}
		if c.Strategy == "update" || rf.Stream == "qcase" {
			oc, msg := guarded(callLimit, func() {
				res, err := guidedremediation.Update(options.UpdateOptions{Manifest: p, ResolveClient: cl, IgnoreDev: c.IgnoreDev, UpgradeConfig: ro.UpgradeConfig})
				rb, _ := json.Marshal(res)
				fmt.Printf("Update: err=%v result=%s\n", err, rb)
			})
			fmt.Println("Update outcome:", oc, msg)
		} else {
			oc, msg := guarded(callLimit, func() {
				res, err := guidedremediation.FixVulns(options.FixVulnsOptions{Manifest: p, Strategy: st, MatcherClient: vm, ResolveClient: cl, RemediationOptions: ro})
				rb, _ := json.Marshal(res)
				fmt.Printf("FixVulns: err=%v result=%s\n", err, rb)
			})
			fmt.Println("FixVulns outcome (0 = returned, 1 = panic, 2 = still running after the watchdog limit):", oc, msg)
		}
		after, _ := os.ReadFile(p)
		fmt.Printf("manifest after:\n%s\n", after)
	}
}

type knownEntry struct {
	ID      string          `json:"id"`
	Status  string          `json:"status"`
	Stream  string          `json:"stream"`
	Witness json.RawMessage `json:"witness"`
}

// replayKnown replays the witnesses of KNOWN_FINDINGS.d/C11.json into the streams k_<type>.
func replayKnown(o *output, path string) {
	b, err := os.ReadFile(path)
	if err != nil {
		return
	}
	var es []knownEntry
	if err := json.Unmarshal(b, &es); err != nil {
		panic(err)
	}
	for _, e := range es {
		id := e.ID
		if e.Status == "fixed" {
			// a repaired defect: its witness is part of the regression corpus, which runs first and is
			// judged at full strength like any generated case
			id = ""
		}
		if err := replayInto(o, e.Stream, e.Witness, id); err != nil {
			panic(err)
		}
	}
}

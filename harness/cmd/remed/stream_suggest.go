package main

import (
	"fmt"
	"math/rand"
	"os"
	"sort"
	"strings"
	"time"

	"deps.dev/util/resolve"
	"deps.dev/util/semver"
	"github.com/google/osv-scalibr/guidedremediation"
	"github.com/google/osv-scalibr/guidedremediation/options"
	"github.com/google/osv-scalibr/guidedremediation/result"
	"github.com/google/osv-scalibr/guidedremediation/upgrade"

	cf "verifharness/internal/coqfmt"
)

const callLimit = 20 * time.Second

// sugInput is one direct call of suggestMavenVersion.
type sugInput struct {
	Pkg      string   `json:"pkg"`
	Versions []string `json:"versions"` // the order cl.Versions returns
	NoPkg    bool     `json:"no_pkg,omitempty"`
	Req      string   `json:"req"`
	Level    int      `json:"level"`
	KnownID  string   `json:"known_id,omitempty"`
}

type sugObs struct {
	Outcome string `json:"outcome"` // err | panic | keep | new
	Version string `json:"version,omitempty"`
}

func mavenClient(pkg string, versions []string, noPkg bool) resolve.Client {
	lc := resolve.NewLocalClient()
	pk := resolve.PackageKey{System: resolve.Maven, Name: pkg}
	var perm []resolve.Version
	if !noPkg {
		for _, v := range versions {
			ver := resolve.Version{VersionKey: resolve.VersionKey{PackageKey: pk, VersionType: resolve.Concrete, Version: v}}
			lc.AddVersion(ver, nil)
			perm = append(perm, ver)
		}
		if len(versions) == 0 {
			lc.PackageVersions[pk] = []resolve.Version{}
		}
	}
	sc := &shuffleClient{Client: lc, perm: map[resolve.PackageKey][]resolve.Version{}}
	if !noPkg {
		sc.perm[pk] = perm
	}
	return sc
}

func runSuggest(in sugInput) sugObs {
	cl := mavenClient(in.Pkg, in.Versions, in.NoPkg)
	req := resolve.RequirementVersion{VersionKey: resolve.VersionKey{
		PackageKey: resolve.PackageKey{System: resolve.Maven, Name: in.Pkg}, VersionType: resolve.Requirement, Version: in.Req}}
	var got resolve.RequirementVersion
	var err error
	oc, _ := guarded(callLimit, func() {
		got, err = guidedremediation.VerifC11SuggestMavenVersion(ctx, cl, req, upgrade.Level(in.Level))
	})
	switch {
	case oc == callPanic:
		return sugObs{Outcome: "panic"}
	case oc == callTimeout:
		return sugObs{Outcome: "timeout"}
	case err != nil:
		return sugObs{Outcome: "err"}
	}
	if got.Version == in.Req { // the requirement comes back as it was
		return sugObs{Outcome: "keep"}
	}
	return sugObs{Outcome: "new", Version: got.Version}
}

func sresCoq(vers *interner, o sugObs) string {
	switch o.Outcome {
	case "err":
		return "SErr"
	case "keep":
		return "SKeep"
	case "new":
		return "(SNew " + vers.n(o.Version) + ")"
	}
	return "SPanic" // a timeout is reported as a panic-like failure: never expected
}

// sugCoq computes the oracle answers for one input and prints the scase.
func sugCoq(in sugInput, o sugObs) (string, bool) {
	vers := newVers()
	sys := semver.Maven
	all := append([]string{}, in.Versions...)
	c, cerr := sys.ParseConstraint(in.Req)
	ckind := 0
	curOpt := "None"
	var curCands []string
	if cerr == nil && c.IsSimple() {
		ckind = 1
		if _, err := sys.Parse(in.Req); err == nil {
			curOpt = "(Some " + vers.n(in.Req) + ")"
			all = append(all, in.Req)
			curCands = []string{in.Req}
		}
	} else if cerr == nil {
		ckind = 2
	}
	ri := ranksOf(sys, all)
	var vl, pl, ml, rl, dl []string
	for _, v := range in.Versions {
		vl = append(vl, vers.n(v))
	}
	done := map[string]bool{}
	var best int64 = -1
	for _, v := range all {
		if done[v] {
			continue
		}
		done[v] = true
		if !ri.parses[v] {
			continue
		}
		pl = append(pl, vers.n(v))
		rl = append(rl, fmt.Sprintf("(%s, %s)", vers.n(v), cf.Z(ri.rank[v])))
		if ckind == 2 {
			pv, _ := sys.Parse(v)
			if c.MatchVersion(pv) {
				ml = append(ml, vers.n(v))
				if ri.rank[v] > best {
					best = ri.rank[v]
				}
			}
		}
	}
	if ckind == 2 {
		for _, v := range in.Versions {
			pv, err := sys.Parse(v)
			if err == nil && c.MatchVersion(pv) && ri.rank[v] == best {
				curCands = append(curCands, v)
			}
		}
	}
	seenPair := map[string]bool{}
	for _, cur := range curCands {
		for _, v := range in.Versions {
			if !ri.parses[v] || seenPair[v+"\x00"+cur] {
				continue
			}
			seenPair[v+"\x00"+cur] = true
			pv, _ := sys.Parse(v)
			pc, _ := sys.Parse(cur)
			_, d := pv.Difference(pc)
			dl = append(dl, fmt.Sprintf("(%s, %s, %s)", vers.n(v), vers.n(cur), diffCoq(d)))
		}
	}
	nontriv := false
	for _, v := range in.Versions {
		if ri.parses[v] && v != in.Req {
			nontriv = true
		}
	}
	s := fmt.Sprintf("{| s_level := %s; s_verr := %v; s_ckind := %d; s_cur := %s; s_versions := %s; s_parses := %s; s_matches := %s; s_rank := %s; s_dif := %s; s_consistent := %v; s_observed := %s |}",
		levelCoq(upgrade.Level(in.Level)), in.NoPkg, ckind, curOpt, cf.List(vl), cf.List(pl), cf.List(ml), cf.List(rl), cf.List(dl), ri.consistent, sresCoq(vers, o))
	return s, nontriv
}

func genSugInput(r *rand.Rand) sugInput {
	vs := genVersions(r, resolve.Maven, genCount(r))
	if r.Intn(25) == 0 {
		vs = append(vs, "99999999999999999999") // does not parse (number out of range)
	}
	r.Shuffle(len(vs), func(a, b int) { vs[a], vs[b] = vs[b], vs[a] })
	in := sugInput{Pkg: "org.x:pa", Versions: vs}
	lv := []int{0, 0, 1, 1, 1, 2, 2, 2, 3, 7}
	in.Level = pick(r, lv)
	switch k := r.Intn(100); {
	case k < 62:
		in.Req = pick(r, vs)
	case k < 70: // a version the registry does not list
		in.Req = genVersions(r, resolve.Maven, 1)[0]
	case k < 76: // an alias of a listed version (compares equal, different string)
		v := pick(r, vs)
		if strings.Count(v, ".") == 2 && !strings.ContainsAny(v, "-") {
			in.Req = v + ".0"
		} else {
			in.Req = v
		}
	case k < 88:
		in.Req = genReq(r, resolve.Maven, vs, false)
	case k < 92: // a range nothing matches
		in.Req = "[90.0,91.0)"
	case k < 94:
		in.Req = "[1.0"
	case k < 96:
		in.NoPkg = true
		in.Req = "1.0.0"
	case k < 98:
		in.Versions = nil
		in.Req = "1.0.0"
	default:
		in.Req = "(,2.0]"
	}
	return in
}

func addSug(o *output, stream string, in sugInput) {
	obs := runSuggest(in)
	s, nt := sugCoq(in, obs)
	o.add(stream, s, map[string]any{"input": in, "observed": obs, "nontrivial": nt, "known_id": in.KnownID})
}

func streamSuggest(o *output, r *rand.Rand, n int) {
	// boundary cases on purpose
	fixed := []sugInput{
		{Pkg: "org.x:pa", Versions: []string{"1.0.0"}, Req: "1.0.0", Level: 0},
		{Pkg: "org.x:pa", Versions: []string{"1.0.0", "1.0.1", "1.1.0", "2.0.0"}, Req: "1.0.0", Level: 2},
		{Pkg: "org.x:pa", Versions: []string{"2.0.0", "1.1.0", "1.0.1", "1.0.0"}, Req: "1.0.0", Level: 1},
		{Pkg: "org.x:pa", Versions: []string{"1.0.0", "1.0.1"}, Req: "1.0.0", Level: 3},
		{Pkg: "org.x:pa", Versions: []string{"1.0", "1.0.0"}, Req: "1.0", Level: 0},
	}
	for _, in := range fixed {
		addSug(o, "scase", in)
	}
	for i := 0; i < n; i++ {
		addSug(o, "scase", genSugInput(r))
	}
}

// ---------------------------------------------------------------- end-to-end Update on pom.xml

func nodeVersion(g *resolve.Graph, name string) (string, bool) {
	if g == nil {
		return "", false
	}
	for _, e := range g.Edges {
		if e.From == 0 && g.Nodes[e.To].Version.Name == name {
			return g.Nodes[e.To].Version.Version, true
		}
	}
	for i, n := range g.Nodes {
		if i > 0 && n.Version.Name == name {
			return n.Version.Version, true
		}
	}
	return "", false
}

// resolveWith resolves manifest m0 with the given updates applied through Manifest.PatchRequirement.
func resolveWith(cl resolve.Client, m0 guidedremediation.VerifC11Manifest, ups []result.PackageUpdate) *resolve.Graph {
	m := m0.Clone()
	for _, u := range ups {
		_ = m.PatchRequirement(resolve.RequirementVersion{
			VersionKey: resolve.VersionKey{PackageKey: resolve.PackageKey{System: m.System(), Name: u.Name}, VersionType: resolve.Requirement, Version: u.VersionTo},
			Type:       u.Type.Clone()})
	}
	ro := options.DefaultRemediationOptions()
	res, err := guidedremediation.VerifC11ResolveManifest(ctx, cl, localMatcher(nil), m, &ro)
	if err != nil {
		return nil
	}
	return res.Graph
}

// addUcases judges every PackageUpdate of a run: version of the package without that update (all other
// updates applied) against its version in the manifest as written.
func addUcases(o *output, stream string, strat int, sys resolve.System, cl resolve.Client, m0 guidedremediation.VerifC11Manifest, path string,
	cfg upgrade.Config, patches [][]result.PackageUpdate, listed func(result.PackageUpdate) bool, info map[string]any) {
	var ups []result.PackageUpdate
	patchOf := map[int]int{}
	for pi, p := range patches {
		for _, pu := range p {
			patchOf[len(ups)] = pi
			ups = append(ups, pu)
		}
	}
	m1, err := guidedremediation.VerifC11ReadManifest(path, "")
	var gNew *resolve.Graph
	if err == nil {
		gNew = resolveWith(cl, m1, nil)
	}
	gOrig := resolveWith(cl, m0, nil)
	for i, u := range ups {
		var others []result.PackageUpdate
		others = append(others, ups[:i]...)
		others = append(others, ups[i+1:]...)
		gBase := resolveWith(cl, m0, others)
		base, okb := nodeVersion(gBase, u.Name)
		nw, okn := nodeVersion(gNew, u.Name)
		known := okb && okn
		byReq := false
		if !okb && !okn {
			// a managed (dependencyManagement) entry for a package that is not in the graph: judge the
			// requirement itself when both sides are plain versions
			cf1, e1 := sys.Semver().ParseConstraint(u.VersionFrom)
			cf2, e2 := sys.Semver().ParseConstraint(u.VersionTo)
			if e1 == nil && e2 == nil && cf1.IsSimple() && cf2.IsSimple() {
				base, nw, known, byReq = u.VersionFrom, u.VersionTo, true, true
			}
		}
		cmp, dif := 0, semver.DiffOther
		cons := true
		if known {
			ri := ranksOf(sys.Semver(), []string{base, nw})
			cons = ri.consistent && ri.parses[base] && ri.parses[nw]
			cmp = sys.Semver().Compare(base, nw)
			_, dif, _ = sys.Semver().Difference(base, nw)
		}
		op := 2
		if strings.HasPrefix(u.VersionTo, "~") {
			op = 0
		} else if strings.HasPrefix(u.VersionTo, "^") {
			op = 1
		}
		lv := cfg.Get(u.Name)
		// the requirement stands for what the package resolves to, before and after (a soft Maven
		// requirement can lose against a hard range elsewhere in the graph)
		fromHonoured := true
		if strat != 1 && okb && u.VersionFrom != "" && !byReq {
			if cfrom, err := sys.Semver().ParseConstraint(u.VersionFrom); err == nil {
				if cfrom.IsSimple() {
					fromHonoured = sys.Semver().Compare(u.VersionFrom, base) == 0
				} else {
					fromHonoured = cfrom.Match(base)
				}
			}
		}
		honoured := known && nw == u.VersionTo && fromHonoured
		if strat == 1 {
			// relax reasons from the highest version matching the old requirement; npm resolves to the
			// version tagged "latest" when that one matches, which can be lower
			honoured = true
			if cfrom, err := sys.Semver().ParseConstraint(u.VersionFrom); err == nil && okb {
				hi := ""
				vks, _ := cl.Versions(ctx, resolve.PackageKey{System: sys, Name: u.Name})
				for _, vk := range vks {
					if cfrom.Match(vk.Version) && (hi == "" || sys.Semver().Compare(hi, vk.Version) < 0) {
						hi = vk.Version
					}
				}
				honoured = hi == "" || sys.Semver().Compare(hi, base) == 0
			}
		}
		orig, oko := nodeVersion(gOrig, u.Name)
		indep := byReq || (oko && okb && orig == base) || (!oko && !okb)
		if strat == 2 {
			// override: independent of the OTHER patches of the run (the updates of its own patch belong to it)
			var same []result.PackageUpdate
			for j, w := range ups {
				if j != i && patchOf[j] == patchOf[i] {
					same = append(same, w)
				}
			}
			sb, oks := nodeVersion(resolveWith(cl, m0, same), u.Name)
			indep = byReq || (oks == okb && sb == base)
			if known && base == nw && u.Transitive {
				// a management pin to the version the package resolves to anyway once the sibling overrides of
				// the same patch are applied (the pin was needed before them): no movement of its own, treated
				// like an update that depends on the others
				indep = false
			}
		}
		s := fmt.Sprintf("{| u_strategy := %d; u_level := %s; u_known := %v; u_cmp := %s; u_dif := %s; u_op := %d; u_listed := %v; u_honoured := %v; u_indep := %v; u_consistent := %v |}",
			strat, levelCoq(lv), known, cmpCoq(cmp), diffCoq(dif), op, !(known && cmp == 0 && base != nw), honoured, indep, cons)
		side := map[string]any{"strategy": []string{"update", "relax", "override"}[strat], "update": map[string]any{"name": u.Name, "from": u.VersionFrom, "to": u.VersionTo, "transitive": u.Transitive},
			"level": levelCoq(lv), "resolved_without": base, "resolved_with": nw, "known": known, "listed": !(known && cmp == 0 && base != nw), "consistent": cons, "honoured": honoured, "independent_of_other_updates": indep, "resolved_originally": orig, "judged_on_requirement": byReq, "diff": dif.String(), "nontrivial": true}
		for k, v := range info {
			side[k] = v
		}
		o.add(stream, s, side)
	}
}

func streamUpdate(o *output, r *rand.Rand, n int) {
	for i := 0; i < n; i++ {
		u := genUniverse(r, resolve.Maven)
		m := genManifest(r, u)
		// sometimes require a version the registry does not know, or use properties
		for k := range m.Deps {
			switch r.Intn(12) {
			case 0:
				m.Deps[k].Req = genVersions(r, resolve.Maven, 1)[0]
			case 1:
				m.Deps[k].Req = "${some.version}"
			}
		}
		dupName := ""
		if i%3 == 1 {
			dupName = addDuplicateDeclarations(r, u, &m)
		}
		cfg := genConfig(r, u)
		if i%5 == 2 {
			// a frozen (level none) package whose declared version is a different spelling of a listed one
			for k := range m.Deps {
				if alt := respell(r, u, m.Deps[k].Name, m.Deps[k].Req); alt != "" {
					m.Deps[k].Req = alt
					cfg.Set(m.Deps[k].Name, upgrade.None)
					count("update_frozen_respelled", "yes")
					break
				}
			}
		} else if i%5 == 3 {
			// the same respelling, not frozen
			for k := range m.Deps {
				if alt := respell(r, u, m.Deps[k].Name, m.Deps[k].Req); alt != "" {
					m.Deps[k].Req = alt
					count("update_respelled", "yes")
					break
				}
			}
		}
		if dupName != "" && r.Intn(4) != 0 {
			// the declarations lie a minor or major step apart: a level below major makes their targets differ
			cfg.Set(dupName, pick(r, []upgrade.Level{upgrade.Minor, upgrade.Minor, upgrade.Patch}))
		}
		ignoreDev := r.Intn(3) == 0
		runUpdateCase(o, u, m, cfg, ignoreDev, "")
	}
}

func runUpdateCase(o *output, u *universe, m manifestSpec, cfg upgrade.Config, ignoreDev bool, knownID string) {
	cl, err := u.client()
	if err != nil {
		panic(err)
	}
	dir, _ := os.MkdirTemp("", "remed")
	defer os.RemoveAll(dir)
	path, _ := m.write(u.Sys, dir)
	m0, err := guidedremediation.VerifC11ReadManifest(path, "")
	if err != nil {
		return
	}
	names, vers := newNames(), newVers()
	// the per-requirement answers of suggestMavenVersion, by direct call
	var reqs []string
	allReqs, okAll := guidedremediation.VerifC11UpdateRequirements(m0)
	if !okAll {
		allReqs = m0.Requirements()
	}
	for _, rq := range allReqs {
		dev := false
		for _, d := range m.Deps {
			if d.Name == rq.Name && d.Dev {
				dev = true
			}
		}
		skip := (ignoreDev && dev) || strings.Contains(rq.Name, "${") || strings.Contains(rq.Version, "${")
		var got resolve.RequirementVersion
		var serr error
		oc, _ := guarded(callLimit, func() {
			got, serr = guidedremediation.VerifC11SuggestMavenVersion(ctx, cl, rq, cfg.Get(rq.Name))
		})
		res := "SPanic"
		switch {
		case oc != callOK:
		case serr != nil:
			res = "SErr"
		default:
			if got.Version == rq.Version {
				res = "SKeep"
			} else {
				res = "(SNew " + vers.n(got.Version) + ")"
			}
		}
		reqs = append(reqs, fmt.Sprintf("{| sr_name := %s; sr_req := %s; sr_skip := %v; sr_in_base := true; sr_res := %s |}",
			names.n(rq.Name), vers.n(rq.Version), skip, res))
	}
	var res result.Result
	var uerr error
	oc, pmsg := guarded(callLimit, func() {
		res, uerr = guidedremediation.Update(options.UpdateOptions{Manifest: path, ResolveClient: cl, IgnoreDev: ignoreDev, UpgradeConfig: viaStrings(cfg)})
	})
	obs := "SuggPanic"
	var ups []result.PackageUpdate
	switch {
	case oc != callOK:
	case uerr != nil:
		obs = "SuggErr"
	default:
		var items []string
		if len(res.Patches) > 0 {
			ups = res.Patches[0].PackageUpdates
		}
		for _, p := range ups {
			items = append(items, fmt.Sprintf("(%s, %s, %s)", names.n(p.Name), vers.n(p.VersionFrom), vers.n(p.VersionTo)))
		}
		obs = "(SuggOk " + cf.List(items) + ")"
	}
	info := map[string]any{"universe": u, "manifest": m, "config": cfgJSON(cfg), "ignore_dev": ignoreDev}
	side := map[string]any{"observed": obs, "panic": pmsg, "updates": ups, "nontrivial": len(allReqs) > 0, "known_id": knownID}
	for k, v := range info {
		side[k] = v
	}
	qListed := true
	for _, rq := range allReqs {
		qListed = qListed && reqListed(u, rq.Name, rq.Version)
	}
	// every returned update judged on its own declaration: the version the declared requirement stands
	// for (the version itself, or the highest listed match of a range) against VersionTo
	var judged []string
	for _, p := range ups {
		cur := ""
		if c, err := semver.Maven.ParseConstraint(p.VersionFrom); err == nil {
			if c.IsSimple() {
				cur = p.VersionFrom
			} else {
				for _, v := range u.versionStrings(p.Name) {
					if c.Match(v) && (cur == "" || semver.Maven.Compare(cur, v) < 0) {
						cur = v
					}
				}
			}
		}
		if cur == "" {
			continue
		}
		if _, d, err := semver.Maven.Difference(p.VersionTo, cur); err == nil {
			judged = append(judged, fmt.Sprintf("(%s, %s, %s)", names.n(p.Name), cmpCoq(semver.Maven.Compare(cur, p.VersionTo)), diffCoq(d)))
		}
	}
	dup := false
	seenName := map[string]bool{}
	for _, rq := range allReqs {
		dup = dup || seenName[rq.Name]
		seenName[rq.Name] = true
	}
	side["declared_more_than_once"] = dup
	stream := "qcase"
	if knownID != "" {
		stream = "k_qcase"
	}
	o.add(stream, fmt.Sprintf("{| q_cfg := %s; q_reqs := %s; q_listed := %v; q_judged := %s; q_observed := %s |}", cfgCoq(names, cfg), cf.List(reqs), qListed, cf.List(judged), obs), side)
	// (with several declarations of one package the resolved graph says nothing about the individual
	// declarations: those runs are judged per declaration above only)
	if oc == callOK && uerr == nil && knownID == "" && !dup {
		addUcases(o, "ucase", 0, u.Sys, cl, m0, path, cfg, [][]result.PackageUpdate{ups}, func(p result.PackageUpdate) bool { return reqListed(u, p.Name, p.VersionFrom) }, info)
	}
}

// reqListed: the domain D of the update oracle at manifest level: Compare is a total preorder on the
// package's versions together with the declared one.
func reqListed(u *universe, name, req string) bool {
	all := append([]string{}, u.versionStrings(name)...)
	if c, err := semver.Maven.ParseConstraint(req); err == nil && c.IsSimple() {
		all = append(all, req)
	}
	return ranksOf(semver.Maven, all).consistent
}

// addDuplicateDeclarations declares one package of the manifest a second (and sometimes third) time,
// at a different listed version, in dependencyManagement / a profile / a pluginManagement plugin, and
// puts the lower declaration second so that the first one is the one most likely to get an update.
func addDuplicateDeclarations(r *rand.Rand, u *universe, m *manifestSpec) string {
	var cands []int
	for i, d := range m.Deps {
		if !d.Mgmt && len(u.versionStrings(d.Name)) >= 3 {
			cands = append(cands, i)
		}
	}
	if len(cands) == 0 {
		return ""
	}
	i := pick(r, cands)
	name := m.Deps[i].Name
	vs := u.versionStrings(name)
	ri := ranksOf(semver.Maven, vs)
	sorted := append([]string{}, vs...)
	sort.SliceStable(sorted, func(a, b int) bool { return ri.rank[sorted[a]] < ri.rank[sorted[b]] })
	// first declaration somewhere in the upper half, second in the lower half
	hi := sorted[len(sorted)/2+r.Intn(len(sorted)-len(sorted)/2)]
	lo := sorted[r.Intn(len(sorted)/2+1)]
	if r.Intn(4) == 0 {
		hi, lo = lo, hi
	}
	m.Deps[i].Req = hi
	n := 1 + r.Intn(2)
	for k := 0; k < n; k++ {
		d := mDep{Name: name, Req: lo}
		kind := "plugin"
		switch r.Intn(3) {
		case 0:
			d.Mgmt, kind = true, "management"
		case 1:
			d.Profile, kind = true, "profile"
		default:
			d.Plugin = true
		}
		m.Deps = append(m.Deps, d)
		lo = pick(r, sorted)
		count("duplicate_declaration", kind)
	}
	return name
}

// respell returns a differently written version string that compares equal to a listed version of the
// package (1.0 / 1.0.0 / 1.0.0.Final / 1.0-ga), preferring the declared one; "" if there is none.
func respell(r *rand.Rand, u *universe, name, declared string) string {
	vs := u.versionStrings(name)
	cands := append([]string{declared}, vs...)
	for _, v := range cands {
		listed := false
		for _, w := range vs {
			listed = listed || w == v
		}
		if !listed || strings.ContainsAny(v, "[(,$") {
			continue
		}
		alts := []string{v + ".0", v + "-ga", v + ".Final", strings.TrimSuffix(v, ".0"), strings.TrimSuffix(v, ".Final"), strings.TrimSuffix(v, "-ga")}
		r.Shuffle(len(alts), func(a, b int) { alts[a], alts[b] = alts[b], alts[a] })
		for _, a := range alts {
			dup := false
			for _, w := range vs {
				dup = dup || w == a
			}
			if a != v && a != "" && !dup && semver.Maven.Compare(a, v) == 0 {
				return a
			}
		}
	}
	return ""
}

package main

import (
	"fmt"
	"math/rand"
	"os"
	"slices"
	"sort"

	"deps.dev/util/resolve"
	"deps.dev/util/resolve/dep"
	"deps.dev/util/semver"
	"github.com/google/osv-scalibr/guidedremediation"
	"github.com/google/osv-scalibr/guidedremediation/options"
	"github.com/google/osv-scalibr/guidedremediation/result"
	"github.com/google/osv-scalibr/guidedremediation/strategy"
	"github.com/google/osv-scalibr/guidedremediation/upgrade"

	cf "verifharness/internal/coqfmt"
)

// ---------------------------------------------------------------- getVersionsGreater, direct

type gvgInput struct {
	Versions []string `json:"versions"` // the order cl.Versions returns (any order)
	VK       string   `json:"vk"`
	KnownID  string   `json:"known_id,omitempty"`
}

func rankTable(vers *interner, ri rankInfo, strs []string) string {
	var rl []string
	seen := map[string]bool{}
	for _, v := range strs {
		if seen[v] || !ri.parses[v] {
			continue
		}
		seen[v] = true
		rl = append(rl, fmt.Sprintf("(%s, %s)", vers.n(v), cf.Z(ri.rank[v])))
	}
	return cf.List(rl)
}

func addGvg(o *output, in gvgInput) {
	cl := mavenClient("org.x:pa", in.Versions, false)
	vk := resolve.VersionKey{PackageKey: resolve.PackageKey{System: resolve.Maven, Name: "org.x:pa"}, VersionType: resolve.Concrete, Version: in.VK}
	var got []resolve.Version
	oc, _ := guarded(callLimit, func() { got, _ = guidedremediation.VerifC11GetVersionsGreater(ctx, cl, vk) })
	vers := newVers()
	ri := ranksOf(semver.Maven, append(append([]string{}, in.Versions...), in.VK))
	var vl, ol []string
	for _, v := range in.Versions {
		vl = append(vl, vers.n(v))
	}
	var gs []string
	for _, g := range got {
		ol = append(ol, vers.n(g.Version))
		gs = append(gs, g.Version)
	}
	if oc != callOK {
		ol = []string{vers.n("\x00" + fmt.Sprint(oc))}
	}
	s := fmt.Sprintf("{| v_versions := %s; v_rank := %s; v_vk := %s; v_consistent := %v; v_observed := %s |}",
		cf.List(vl), rankTable(vers, ri, append(append([]string{}, in.Versions...), in.VK)), vers.n(in.VK), ri.consistent, cf.List(ol))
	stream := "vcase"
	if in.KnownID != "" {
		stream = "k_vcase"
	}
	o.add(stream, s, map[string]any{"input": in, "observed": gs, "nontrivial": len(in.Versions) >= 2, "known_id": in.KnownID})
}

func streamGvg(o *output, r *rand.Rand, n int) {
	fixed := []gvgInput{
		{Versions: []string{"1.0.0"}, VK: "1.0.0"},
		{Versions: []string{"1.0.0", "1.0.1", "2.0.0"}, VK: "1.0.0"},
		{Versions: []string{"2.0.0", "1.0.1", "1.0.0"}, VK: "1.0.1"},
		{Versions: []string{"2.0.0", "1.0.1", "1.0.0"}, VK: "2.0.0"},
		{Versions: []string{"1.0", "1.0.0", "1.1"}, VK: "1.0"},
	}
	for _, in := range fixed {
		addGvg(o, in)
	}
	for i := 0; i < n; i++ {
		vs := genVersions(r, resolve.Maven, genCount(r))
		if r.Intn(15) == 0 && len(vs) < 12 {
			// an unparsable entry makes cmpFunc inconsistent (nil against nil is -1): only with insertion
			// sort, i.e. up to 12 elements, is the result then determined
			vs = append(vs, "99999999999999999999")
		}
		switch r.Intn(3) {
		case 0: // already sorted, as a registry client returns them
			sort.SliceStable(vs, func(a, b int) bool { return semver.Maven.Compare(vs[a], vs[b]) < 0 })
		default:
			r.Shuffle(len(vs), func(a, b int) { vs[a], vs[b] = vs[b], vs[a] })
		}
		in := gvgInput{Versions: vs, VK: pick(r, vs)}
		if r.Intn(12) == 0 {
			in.VK = genVersions(r, resolve.Maven, 1)[0] // "if the given version somehow doesn't exist"
		}
		addGvg(o, in)
	}
}

// ---------------------------------------------------------------- patchVulns, traced, and FixVulns

type nodeRec struct {
	Pkg string `json:"pkg"`
	Ver string `json:"ver"`
	Cls bool   `json:"cls,omitempty"`
}
type rvulnRec struct {
	ID    string    `json:"id"`
	Nodes []nodeRec `json:"nodes"`
}

// analysisOf projects resolved.Vulns: per vulnerability, the vulnerable node of every subgraph.
func analysisOf(vs []guidedremediation.VerifC11Vulnerability) []rvulnRec {
	var out []rvulnRec
	for _, v := range vs {
		rv := rvulnRec{ID: v.OSV.ID}
		for _, sg := range v.Subgraphs {
			n := sg.Nodes[sg.Dependency]
			if len(n.Parents) == 0 {
				continue
			}
			cls := false
			for _, e := range n.Parents {
				cls = cls || e.Type.HasAttr(dep.MavenClassifier) || e.Type.HasAttr(dep.MavenArtifactType)
			}
			rv.Nodes = append(rv.Nodes, nodeRec{Pkg: n.Version.Name, Ver: n.Version.Version, Cls: cls})
		}
		sort.Slice(rv.Nodes, func(a, b int) bool {
			if rv.Nodes[a].Pkg != rv.Nodes[b].Pkg {
				return rv.Nodes[a].Pkg < rv.Nodes[b].Pkg
			}
			return rv.Nodes[a].Ver < rv.Nodes[b].Ver
		})
		out = append(out, rv)
	}
	sort.Slice(out, func(a, b int) bool { return out[a].ID < out[b].ID })
	return out
}

type patchRec struct {
	Pkg  string `json:"pkg"`
	From string `json:"from"`
	To   string `json:"to"`
}

type ovState struct {
	Overrides []patchRec `json:"overrides"`
	Err       bool       `json:"err,omitempty"`
	Vulns     []rvulnRec `json:"vulns"`
}

// patchBudget bounds the PatchRequirement calls of one traced patchVulns run: far above the proved
// bound (sum of the version counts, <= 12 per package) for every generated universe.
const patchBudget = 120

// resolveBudget bounds the Root() reads (two per resolution) of one traced patchVulns run.
const resolveBudget = 1000

type hypCount struct{ checked, failed int }

var hypResolver, hypOnePerPkg, hypFirstComp hypCount

// tracePatchVulns runs override.patchVulns for vulnIDs on a traced copy of the manifest and returns the
// observed iterations, the outcome, and the resolved result.
func tracePatchVulns(cl resolve.Client, vm localMatcher, m0 guidedremediation.VerifC11Manifest, res0 *guidedremediation.VerifC11Resolved,
	vulnIDs []string, ro *options.RemediationOptions) (iters [][]resolve.RequirementVersion, outcome string, out *guidedremediation.VerifC11Resolved) {
	tm, tr := guidedremediation.VerifC11TraceManifest(m0)
	tr.MaxPatches = patchBudget
	tr.MaxResolves = resolveBudget
	rs := &guidedremediation.VerifC11Resolved{Manifest: tm, ResolvedGraph: res0.ResolvedGraph}
	var err error
	oc, _ := guarded(callLimit, func() {
		out, err = guidedremediation.VerifC11OverridePatchVulns(ctx, cl, vm, rs, vulnIDs, ro)
	})
	var cur []resolve.RequirementVersion
	for _, ev := range tr.Events {
		switch ev.Kind {
		case "patch":
			cur = append(cur, ev.Req)
		case "resolve": // Root() is read twice per resolution.Resolve
			if len(cur) > 0 {
				sortReqs(cur) // vkVulns is a Go map: the order within one pass is arbitrary
				iters = append(iters, cur)
			}
			cur = nil
		}
	}
	if len(cur) > 0 {
		sortReqs(cur)
		iters = append(iters, cur)
	}
	switch {
	case oc == callTimeout || tr.Exceeded:
		outcome = "OOutOfFuel"
	case oc == callPanic:
		outcome = "OPanic"
	case err != nil:
		outcome = "OErr"
	default:
		outcome = "OOk"
	}
	return iters, outcome, out
}

func versionOfPkg(an []rvulnRec, pkg string) (string, bool) {
	for _, rv := range an {
		for _, n := range rv.Nodes {
			if n.Pkg == pkg {
				return n.Ver, true
			}
		}
	}
	return "", false
}

// buildOcase replays the observed patch sequence to record what the resolver / matcher answer after
// every iteration, and prints the ocase.
func buildOcase(o *output, stream string, u *universe, cl resolve.Client, vm localMatcher, m0 guidedremediation.VerifC11Manifest,
	res0 *guidedremediation.VerifC11Resolved, vulnIDs []string, cfg upgrade.Config, ro *options.RemediationOptions,
	iters [][]resolve.RequirementVersion, outcome string, info map[string]any) {
	names, vers, vids := newNames(), newVers(), newVers()
	sys := semver.Maven
	var states []ovState
	an := analysisOf(res0.Vulns)
	states = append(states, ovState{Vulns: an})
	seenState := map[string]bool{normKey(nil): true}
	state := guidedremediation.VerifC11Untrace(m0).Clone()
	var ovs []patchRec
	var obsIters [][]patchRec
	last := map[string]string{}
	for _, it := range iters {
		var ps []patchRec
		for _, rq := range it {
			from, _ := versionOfPkg(an, rq.Name)
			ps = append(ps, patchRec{Pkg: rq.Name, From: from, To: rq.Version})
			_ = state.PatchRequirement(resolve.RequirementVersion{VersionKey: rq.VersionKey, Type: rq.Type.Clone()})
			last[rq.Name] = rq.Version
		}
		obsIters = append(obsIters, ps)
		ovs = append(ovs, ps...)
		roc := *ro
		res, err := guidedremediation.VerifC11ResolveManifest(ctx, cl, vm, state.Clone(), &roc)
		st := ovState{Overrides: append([]patchRec(nil), ovs...)}
		if err != nil {
			st.Err = true
			an = nil
		} else {
			an = analysisOf(res.Vulns)
			st.Vulns = an
			if !seenState[normKey(st.Overrides)] {
				validateResolver(an, last, info["known_id"] != "")
			}
		}
		nk := normKey(st.Overrides)
		if !seenState[nk] {
			seenState[nk] = true
			states = append(states, st)
		}
	}
	// packages that are ever vulnerable: their version lists, ranks, differences, affected bits
	pkgSet := map[string]bool{}
	nodeVers := map[string][]string{} // resolved versions per package (they need not be listed)
	for _, st := range states {
		for _, rv := range st.Vulns {
			for _, n := range rv.Nodes {
				pkgSet[n.Pkg] = true
				if !slices.Contains(nodeVers[n.Pkg], n.Ver) {
					nodeVers[n.Pkg] = append(nodeVers[n.Pkg], n.Ver)
				}
			}
		}
	}
	var pkgs []string
	for p := range pkgSet {
		pkgs = append(pkgs, p)
	}
	sort.Strings(pkgs)
	var allStrs []string
	var versTbl, difTbl, affTbl []string
	consistent := true
	for _, p := range pkgs {
		vks, _ := cl.Versions(ctx, resolve.PackageKey{System: resolve.Maven, Name: p})
		var vs, vl []string
		for _, vk := range vks {
			vs = append(vs, vk.Version)
			vl = append(vl, vers.n(vk.Version))
		}
		versTbl = append(versTbl, fmt.Sprintf("(%s, %s)", names.n(p), cf.List(vl)))
		from := append([]string{}, vs...)
		for _, nv := range nodeVers[p] {
			if !slices.Contains(from, nv) {
				from = append(from, nv)
			}
		}
		allStrs = append(allStrs, from...)
		ri := ranksOf(sys, from)
		consistent = consistent && ri.consistent
		for _, a := range from {
			for _, b := range vs {
				_, d, _ := sys.Difference(a, b)
				difTbl = append(difTbl, fmt.Sprintf("(%s, %s, %s)", vers.n(a), vers.n(b), diffCoq(d)))
			}
			for _, osv := range vm {
				if isAffected(osv, resolve.Maven, p, a) {
					affTbl = append(affTbl, fmt.Sprintf("(%s, %s, %s)", vids.n(osv.ID), names.n(p), vers.n(a)))
				}
			}
		}
	}
	ri := ranksOf(sys, allStrs)
	consistent = consistent && ri.consistent
	var anTbl []string
	for _, st := range states {
		var key []string
		for _, p := range st.Overrides {
			key = append(key, fmt.Sprintf("(%s, %s)", names.n(p.Pkg), vers.n(p.To)))
		}
		val := "None"
		if !st.Err {
			var rvs []string
			for _, rv := range st.Vulns {
				var ns []string
				for _, n := range rv.Nodes {
					ns = append(ns, fmt.Sprintf("(%s, %s, %v)", names.n(n.Pkg), vers.n(n.Ver), n.Cls))
				}
				rvs = append(rvs, fmt.Sprintf("{| rv_id := %s; rv_nodes := %s |}", vids.n(rv.ID), cf.List(ns)))
			}
			val = "(Some " + cf.List(rvs) + ")"
		}
		anTbl = append(anTbl, fmt.Sprintf("(%s, %s)", cf.List(key), val))
	}
	var idl []string
	for _, id := range vulnIDs {
		idl = append(idl, vids.n(id))
	}
	var itl []string
	npatch := 0
	for _, ps := range obsIters {
		var pl []string
		for _, p := range ps {
			pl = append(pl, fmt.Sprintf("(%s, %s, %s)", names.n(p.Pkg), vers.n(p.From), vers.n(p.To)))
			npatch++
		}
		itl = append(itl, cf.List(pl))
	}
	oc := outcome
	if oc == "OPanic" {
		oc = "OOutOfFuel" // never expected; judged like non-termination
	}
	s := fmt.Sprintf("{| o_cfg := %s; o_vuln_ids := %s; o_versions := %s; o_rank := %s; o_dif := %s; o_affected := %s; o_analyse := %s; o_consistent := %v; o_observed := %s %s |}",
		cfgCoq(names, cfg), cf.List(idl), cf.List(versTbl), rankTable(vers, ri, allStrs), cf.List(difTbl), cf.List(affTbl), cf.List(anTbl), consistent, oc, cf.List(itl))
	o.add(stream, s, merge(info, map[string]any{"vuln_ids": vulnIDs, "observed": map[string]any{"outcome": outcome, "iterations": obsIters},
		"states": states, "nontrivial": len(states[0].Vulns) > 0 && npatch > 0}))
}

// genOverrideChain builds, on top of a random universe, the two-step situation on purpose: the only fix
// of the direct dependency ca pulls in cb at a vulnerable version, and the fixes of cb lie a patch, a
// minor and/or a major step above it; cb gets its own level (or falls under the default).
func genOverrideChain(r *rand.Rand) (*universe, manifestSpec, []vulnSpec, upgrade.Config) {
	u := genUniverse(r, resolve.Maven)
	a0, a1 := "1.0.0", pick(r, []string{"1.0.1", "1.0.1", "1.1.0", "2.0.0"})
	b0 := pick(r, []string{"1.0.0", "1.2.3", "2.1.0"})
	var maj, min, pat int
	fmt.Sscanf(b0, "%d.%d.%d", &maj, &min, &pat)
	steps := map[string]string{
		"patch": fmt.Sprintf("%d.%d.%d", maj, min, pat+1),
		"minor": fmt.Sprintf("%d.%d.0", maj, min+1),
		"major": fmt.Sprintf("%d.0.0", maj+1),
	}
	// which fixes exist: mostly only the bigger ones, so that the level decides
	kinds := pick(r, [][]string{{"major"}, {"major"}, {"minor", "major"}, {"minor"}, {"patch", "minor", "major"}, {"patch"}})
	bvers := []uVer{{V: b0}}
	for _, k := range kinds {
		bvers = append(bvers, uVer{V: steps[k]})
	}
	fix := steps[kinds[0]]
	count("override_chain_fix_step", kinds[0])
	ca := uPkg{Name: "org.x:ca", Versions: []uVer{{V: a0}, {V: a1, Deps: []uDep{{Name: "org.x:cb", Req: b0}}}}}
	if r.Intn(3) == 0 { // the old version already depends on cb, at a version that is not affected
		ca.Versions[0].Deps = []uDep{{Name: "org.x:cb", Req: fix}}
	}
	cb := uPkg{Name: "org.x:cb", Versions: bvers}
	u.Pkgs = append(u.Pkgs, ca, cb)
	m := genManifest(r, u)
	m.Deps = append([]mDep{{Name: "org.x:ca", Req: a0}}, m.Deps...)
	vs := genTargetedVulns(r, u, m)
	vs = append(vs,
		vulnSpec{ID: "C-A", Pkg: "org.x:ca", Events: [][2]string{{"introduced", "0"}, {"fixed", a1}}},
		vulnSpec{ID: "C-B", Pkg: "org.x:cb", Events: [][2]string{{"introduced", "0"}, {"fixed", fix}}})
	cfg := genConfig(r, u)
	cfg.Set("org.x:ca", upgrade.Major)
	lv := pick(r, []upgrade.Level{upgrade.Minor, upgrade.Minor, upgrade.Patch, upgrade.Patch, upgrade.None, upgrade.Major})
	if r.Intn(2) == 0 {
		cfg.Set("org.x:cb", lv)
	} else {
		delete(cfg, "org.x:cb")
		cfg.SetDefault(lv)
	}
	count("override_chain_level_of_introduced_package", levelCoq(cfg.Get("org.x:cb")))
	return u, m, vs, cfg
}

func streamFixMaven(o *output, r *rand.Rand, n int) {
	for i := 0; i < n; i++ {
		if i%3 == 2 {
			u, m, vs, cfg := genOverrideChain(r)
			runFixMaven(o, u, m, vs, cfg, "")
			continue
		}
		u := genUniverse(r, resolve.Maven)
		m := genManifest(r, u)
		if i%6 == 1 {
			// the registry serves the pinned version of a direct dependency without listing it
			for _, d := range m.Deps {
				if p := u.pkg(d.Name); p != nil && !d.Mgmt && len(p.Versions) >= 3 {
					for k := range p.Versions {
						if p.Versions[k].V == d.Req {
							p.Versions[k].Unlisted = true
							count("unlisted_resolved_version", "yes")
						}
					}
					break
				}
			}
		}
		vs := genTargetedVulns(r, u, m)
		cfg := genConfig(r, u)
		runFixMaven(o, u, m, vs, cfg, "")
	}
	o.meta["hypotheses"] = map[string]any{
		"overridden_package_resolves_to_override":      map[string]int{"checked": hypResolver.checked, "failed": hypResolver.failed},
		"one_version_per_package_in_vulnerable_nodes":  map[string]int{"checked": hypOnePerPkg.checked, "failed": hypOnePerPkg.failed},
		"difference_reports_first_differing_component": map[string]int{"checked": hypFirstComp.checked, "failed": hypFirstComp.failed},
	}
}

func runFixMaven(o *output, u *universe, m manifestSpec, vs []vulnSpec, cfg upgrade.Config, knownID string) {
	cl, err := u.client()
	if err != nil {
		panic(err)
	}
	for _, p := range u.Pkgs {
		c, b := validateFirstComponent(u.Sys.Semver(), u.versionStrings(p.Name))
		hypFirstComp.checked += c
		hypFirstComp.failed += b
	}
	vm, _ := matcherOf(u, vs)
	dir, _ := os.MkdirTemp("", "remed")
	defer os.RemoveAll(dir)
	path, _ := m.write(u.Sys, dir)
	m0, err := guidedremediation.VerifC11ReadManifest(path, "")
	if err != nil {
		return
	}
	info := map[string]any{"universe": u, "manifest": m, "vulns": vs, "config": cfgJSON(cfg), "known_id": knownID}
	pre := ""
	if knownID != "" {
		pre = "k_"
	}
	ro := options.DefaultRemediationOptions()
	ro.UpgradeConfig = viaStrings(cfg) // the run gets the configuration as spec strings; cfg is the intended one
	res0, err := guidedremediation.VerifC11ResolveManifest(ctx, cl, vm, m0, &ro)
	if err != nil {
		return
	}
	// (1) what common.ComputePatches does, one patchVulns call at a time: each vulnerability alone,
	// then again together with whatever the patch introduced
	var ids []string
	for _, v := range res0.Vulns {
		ids = append(ids, v.OSV.ID)
	}
	sort.Strings(ids)
	panicked := false
	var starts [][]string
	for _, id := range ids {
		starts = append(starts, []string{id})
	}
	nEmulated := len(starts)
	if len(ids) >= 2 && knownID == "" {
		// the sets a follow-up call of ComputePatches can be made with: everything, and one subset
		starts = append(starts, append([]string{}, ids...))
		if len(ids) >= 3 {
			var sub []string
			for i, id := range ids {
				if (len(u.Pkgs)+i)%2 == 0 {
					sub = append(sub, id)
				}
			}
			if len(sub) >= 2 {
				starts = append(starts, sub)
			}
		}
	}
	for si, start := range starts {
		queue := [][]string{start}
		for k := 0; k < len(queue) && k < 4; k++ {
			vulnIDs := queue[k]
			iters, outcome, out := tracePatchVulns(cl, vm, m0, res0, vulnIDs, &ro)
			buildOcase(o, pre+"ocase", u, cl, vm, m0, res0, vulnIDs, cfg, &ro, iters, outcome, info)
			if (outcome == "OPanic" || outcome == "OOutOfFuel") && si < nEmulated {
				panicked = true
			}
			if outcome != "OOk" || out == nil {
				continue
			}
			patch := guidedremediation.VerifC11ConstructPatches(res0, out)
			if len(patch.PackageUpdates) == 0 {
				continue
			}
			var newly []string
			for _, iv := range patch.Introduced {
				if !slices.Contains(vulnIDs, iv.ID) {
					newly = append(newly, iv.ID)
				}
			}
			if len(newly) > 0 {
				queue = append(queue, append(append([]string{}, vulnIDs...), newly...))
			}
		}
	}
	if panicked {
		return // FixVulns would run the same calls in goroutines that cannot be recovered
	}
	// (2) the whole of FixVulns, judged on the re-resolved graphs
	var res result.Result
	var ferr error
	oc, _ := guarded(4*callLimit, func() {
		res, ferr = guidedremediation.FixVulns(options.FixVulnsOptions{Manifest: path, Strategy: strategy.StrategyOverride,
			MatcherClient: vm, ResolveClient: cl, RemediationOptions: ro})
	})
	if oc == callTimeout {
		o.add(pre+"ucase", "{| u_strategy := 2; u_level := Major; u_known := false; u_cmp := Eq; u_dif := Same; u_op := 2; u_listed := true; u_honoured := true; u_indep := true; u_consistent := true |}",
			merge(info, map[string]any{"strategy": "override", "timeout": true, "nontrivial": true}))
		return
	}
	if oc != callOK || ferr != nil {
		return
	}
	var ups [][]result.PackageUpdate
	for _, p := range res.Patches {
		ups = append(ups, p.PackageUpdates)
	}
	addUcases(o, pre+"ucase", 2, u.Sys, cl, m0, path, cfg, ups, func(p result.PackageUpdate) bool { return distinctInOrder(u, p.Name) }, info)
}

// normKey: the last override per package, sorted (what the manifest state depends on).
func normKey(ovs []patchRec) string {
	last := map[string]string{}
	for _, p := range ovs {
		last[p.Pkg] = p.To
	}
	var ks []string
	for k, v := range last {
		ks = append(ks, k+"="+v)
	}
	sort.Strings(ks)
	return fmt.Sprint(ks)
}

// validateResolver checks the premises of override_terminates on one re-resolution: an overridden
// package resolves to the overriding version; one version per package among the vulnerable nodes.
func validateResolver(an []rvulnRec, last map[string]string, known bool) {
	hr, ho := &hypResolver, &hypOnePerPkg
	if known {
		hr, ho = &hypCount{}, &hypCount{}
	}
	seen := map[string]string{}
	for _, rv := range an {
		for _, n := range rv.Nodes {
			ho.checked++
			if w, ok := seen[n.Pkg]; ok && w != n.Ver {
				ho.failed++
			}
			seen[n.Pkg] = n.Ver
			if to, ok := last[n.Pkg]; ok {
				hr.checked++
				if to != n.Ver {
					hr.failed++
				}
			}
		}
	}
}

func sortReqs(rs []resolve.RequirementVersion) {
	sort.SliceStable(rs, func(a, b int) bool { return rs[a].Name < rs[b].Name })
}

// distinctInOrder: the package's versions all parse and are pairwise different in the ecosystem order
// (the NoDup-by-order premise of override_strictly_up).
func distinctInOrder(u *universe, name string) bool {
	vs := u.versionStrings(name)
	ri := ranksOf(u.Sys.Semver(), vs)
	if !ri.consistent {
		return false
	}
	seen := map[int64]bool{}
	for _, v := range vs {
		if !ri.parses[v] || seen[ri.rank[v]] {
			return false
		}
		seen[ri.rank[v]] = true
	}
	return true
}

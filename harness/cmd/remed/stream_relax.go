package main

import (
	"fmt"
	"math/rand"
	"os"
	"slices"
	"sort"
	"strings"

	"deps.dev/util/resolve"
	"deps.dev/util/resolve/dep"
	"deps.dev/util/resolve/version"
	"deps.dev/util/semver"
	"github.com/google/osv-scalibr/guidedremediation"
	"github.com/google/osv-scalibr/guidedremediation/options"
	"github.com/google/osv-scalibr/guidedremediation/result"
	"github.com/google/osv-scalibr/guidedremediation/strategy"
	"github.com/google/osv-scalibr/guidedremediation/upgrade"
	"github.com/ossf/osv-schema/bindings/go/osvschema"

	cf "verifharness/internal/coqfmt"
)

// relInput is one direct call of NpmRelaxer.Relax.
type relInput struct {
	Pkg      string   `json:"pkg"`
	Versions []string `json:"versions"` // the order cl.Versions returns
	Tagged   string   `json:"tagged,omitempty"`
	NoPkg    bool     `json:"no_pkg,omitempty"`
	Req      string   `json:"req"`
	Level    int      `json:"level"`
	KnownID  string   `json:"known_id,omitempty"`
	// the dependency is declared under an alias ("alias": "npm:pkg@req"); AliasLevel >= 0: the
	// configuration also has a level under the alias name. The level that applies is that of Pkg.
	Alias      string `json:"alias,omitempty"`
	AliasLevel int    `json:"alias_level,omitempty"`
	PkgUnset   bool   `json:"pkg_level_unset,omitempty"` // no entry for Pkg: the default (Level) applies
}

type relObs struct {
	OK      bool   `json:"ok"`
	Version string `json:"version"`
}

func npmClient(in relInput) resolve.Client {
	lc := resolve.NewLocalClient()
	pk := resolve.PackageKey{System: resolve.NPM, Name: in.Pkg}
	sc := &shuffleClient{Client: lc, perm: map[resolve.PackageKey][]resolve.Version{}}
	if in.NoPkg {
		return sc
	}
	var perm []resolve.Version
	for _, v := range in.Versions {
		ver := resolve.Version{VersionKey: resolve.VersionKey{PackageKey: pk, VersionType: resolve.Concrete, Version: v}}
		if v == in.Tagged {
			ver.SetAttr(version.Tags, "latest")
		}
		lc.AddVersion(ver, nil)
		perm = append(perm, ver)
	}
	if len(in.Versions) == 0 {
		lc.PackageVersions[pk] = []resolve.Version{}
	}
	sc.perm[pk] = perm
	return sc
}

func runRelax(in relInput) relObs {
	cl := npmClient(in)
	req := resolve.RequirementVersion{VersionKey: resolve.VersionKey{
		PackageKey: resolve.PackageKey{System: resolve.NPM, Name: in.Pkg}, VersionType: resolve.Requirement, Version: in.Req}}
	cfg := upgrade.Config{in.Pkg: upgrade.Level(in.Level)}
	if in.PkgUnset {
		cfg = upgrade.Config{"": upgrade.Level(in.Level)}
	}
	if in.Alias != "" {
		req.Type.AddAttr(dep.KnownAs, in.Alias)
		if in.AliasLevel >= 0 {
			cfg[in.Alias] = upgrade.Level(in.AliasLevel)
		}
	}
	var got resolve.RequirementVersion
	var ok bool
	oc, _ := guarded(callLimit, func() { got, ok = guidedremediation.VerifC11NpmRelax(ctx, cl, req, cfg) })
	if oc != callOK {
		return relObs{OK: true, Version: "!" + fmt.Sprint(oc)}
	}
	return relObs{OK: ok, Version: got.Version}
}

// relCoq computes the oracle answers NpmRelaxer.Relax asks for (on the same client) and prints the rcase.
func relCoq(cl resolve.Client, pkg, reqStr string, level upgrade.Level, obs relObs) (string, bool) {
	vers := newVers()
	sys := semver.NPM
	pk := resolve.PackageKey{System: resolve.NPM, Name: pkg}
	reqVK := resolve.VersionKey{PackageKey: pk, VersionType: resolve.Requirement, Version: reqStr}
	cok := true
	c, err := sys.ParseConstraint(reqStr)
	if err != nil {
		vks, merr := cl.MatchingVersions(ctx, reqVK)
		if merr != nil || len(vks) == 0 {
			cok = false
		} else if c, err = sys.ParseConstraint(vks[0].Version); err != nil {
			cok = false
		}
	}
	allVKs, verr := cl.Versions(ctx, pk)
	var vs []string
	for _, vk := range allVKs {
		if vk.VersionType == resolve.Concrete {
			vs = append(vs, vk.Version)
		}
	}
	slices.SortFunc(vs, sys.Compare)
	ri := ranksOf(sys, vs)
	var vl, pl, ml, prl, rl, dl []string
	for i, v := range vs {
		vl = append(vl, vers.n(v))
		pv, perr := sys.Parse(v)
		if perr == nil {
			pl = append(pl, vers.n(v))
			rl = append(rl, fmt.Sprintf("(%s, %s)", vers.n(v), cf.Z(ri.rank[v])))
			if cok && c.MatchVersion(pv) {
				ml = append(ml, vers.n(v))
			}
			if pv.IsPrerelease() {
				prl = append(prl, vers.n(v))
			}
		}
		for _, w := range vs[i+1:] {
			_, d, derr := sys.Difference(v, w)
			dl = append(dl, fmt.Sprintf("(%s, %s, %s)", vers.n(v), vers.n(w), optDiff(d, derr)))
		}
	}
	// what the requirement resolves to: the last of cl.MatchingVersions (npm prefers the version tagged
	// "latest"); the code takes it as the base when it sits below the highest match
	baseCoq, resolvedCoq := "None", "None"
	if cok && verr == nil {
		lastIdx := -1
		for i, v := range vs {
			if pv, perr := sys.Parse(v); perr == nil && c.MatchVersion(pv) {
				lastIdx = i
			}
		}
		if ms, merr := cl.MatchingVersions(ctx, reqVK); merr == nil && len(ms) > 0 {
			rv := ms[len(ms)-1].Version
			resolvedCoq = "(Some " + vers.n(rv) + ")"
			if i := slices.Index(vs, rv); i >= 0 && i < lastIdx {
				baseCoq = "(Some " + vers.n(rv) + ")"
			}
		}
	}
	ob := "None"
	if obs.OK {
		switch {
		case strings.HasPrefix(obs.Version, "~"):
			ob = fmt.Sprintf("(Some (Tilde, %s))", vers.n(obs.Version[1:]))
		case strings.HasPrefix(obs.Version, "^"):
			ob = fmt.Sprintf("(Some (Caret, %s))", vers.n(obs.Version[1:]))
		default:
			ob = fmt.Sprintf("(Some (Caret, %s))", vers.n("\x00unexpected:"+obs.Version))
		}
	}
	s := fmt.Sprintf("{| r_level := %s; r_cok := %v; r_verr := %v; r_vers := %s; r_parses := %s; r_matches := %s; r_pre := %s; r_dif := %s; r_rank := %s; r_consistent := %v; r_base := %s; r_resolved := %s; r_observed := %s |}",
		levelCoq(level), cok, verr != nil, cf.List(vl), cf.List(pl), cf.List(ml), cf.List(prl), cf.List(dl), cf.List(rl), ri.consistent, baseCoq, resolvedCoq, ob)
	return s, len(vs) >= 2 && cok
}

// genRelPrereleaseGap: above the requirement first a prerelease one level-step away, then the lowest
// stable version a bigger step away (1.2.3 | 1.2.4-beta.1 | 1.3.0 under level patch; 1.2.3 | 1.3.0-rc.1 |
// 2.0.0 under level minor), optionally more versions further up.
func genRelPrereleaseGap(r *rand.Rand) relInput {
	maj, min, pat := 1+r.Intn(3), r.Intn(3), r.Intn(4) // major >= 1: npm's caret is narrower for 0.x
	base := fmt.Sprintf("%d.%d.%d", maj, min, pat)
	vs := []string{base}
	if pat > 0 && r.Intn(2) == 0 {
		vs = append(vs, fmt.Sprintf("%d.%d.%d", maj, min, pat-1))
	}
	in := relInput{Pkg: "pa"}
	pre := pick(r, []string{"-beta.1", "-rc.1", "-alpha"})
	if r.Intn(3) != 0 {
		in.Level = 2 // patch
		vs = append(vs, fmt.Sprintf("%d.%d.%d%s", maj, min, pat+1, pre), fmt.Sprintf("%d.%d.0", maj, min+1))
		if r.Intn(2) == 0 {
			vs = append(vs, fmt.Sprintf("%d.%d.%d-rc.2", maj, min, pat+1))
		}
		if r.Intn(2) == 0 {
			vs = append(vs, fmt.Sprintf("%d.%d.1", maj, min+1), fmt.Sprintf("%d.0.0", maj+1))
		}
	} else {
		in.Level = 1 // minor
		vs = append(vs, fmt.Sprintf("%d.%d.0%s", maj, min+1, pre), fmt.Sprintf("%d.0.0", maj+1))
		if r.Intn(2) == 0 {
			vs = append(vs, fmt.Sprintf("%d.1.0", maj+1))
		}
	}
	r.Shuffle(len(vs), func(a, b int) { vs[a], vs[b] = vs[b], vs[a] })
	in.Versions = vs
	in.Req = pick(r, []string{base, base, "~" + base, "^" + base})
	if in.Level == 1 && strings.HasPrefix(in.Req, "^") && maj > 0 {
		in.Req = "~" + base
	}
	count("relax_prerelease_gap", levelCoq(upgrade.Level(in.Level)))
	return in
}

// genRelDisjoint: a requirement matching two separated blocks of the version list, with published
// versions in the gap and (mostly) above the upper block.
func genRelDisjoint(r *rand.Rand) relInput {
	m := 1 + r.Intn(2)
	var vs []string
	add := func(maj int, n int) {
		for k := 0; k < n; k++ {
			vs = append(vs, fmt.Sprintf("%d.%d.%d", maj, r.Intn(4), r.Intn(4)))
		}
	}
	lo := fmt.Sprintf("%d.0.0", m)
	hi := fmt.Sprintf("%d.0.0", m+2)
	vs = append(vs, lo, hi)
	add(m, 1+r.Intn(2))
	add(m+1, 1+r.Intn(3)) // the gap
	add(m+2, 1+r.Intn(2))
	if r.Intn(3) != 0 {
		add(m+3, 1+r.Intn(2))
	}
	seen := map[string]bool{}
	var out []string
	for _, v := range vs {
		if !seen[v] {
			seen[v] = true
			out = append(out, v)
		}
	}
	r.Shuffle(len(out), func(a, b int) { out[a], out[b] = out[b], out[a] })
	in := relInput{Pkg: "pa", Versions: out, Level: pick(r, []int{0, 0, 0, 1, 2}), AliasLevel: -1}
	in.Req = pick(r, []string{"^" + lo + " || ^" + hi, "~" + lo + " || ^" + hi, "<" + fmt.Sprintf("%d.0.0", m+1) + " || ^" + hi, lo + " || " + hi})
	count("relax_disjoint_requirement", levelCoq(upgrade.Level(in.Level)))
	return in
}

func genRelInput(r *rand.Rand) relInput {
	in := genRelInput0(r)
	if in.Alias == "" {
		in.AliasLevel = -1
		if r.Intn(5) == 0 {
			// declared under an alias; levels under the real name, the alias name, or both
			in.Alias = pick(r, []string{"shim", "@al/shim"})
			if r.Intn(3) == 0 {
				in.Pkg = "@sc/real-pkg"
			}
			lv := []int{0, 1, 2, 3}
			switch r.Intn(3) {
			case 0: // both, different
				in.AliasLevel = pick(r, lv)
			case 1: // only the alias has an entry: the default applies to the package
				in.AliasLevel = pick(r, lv)
				in.PkgUnset = true
			}
			count("relax_alias", fmt.Sprintf("alias_level=%v pkg_unset=%v", in.AliasLevel >= 0, in.PkgUnset))
		}
	}
	return in
}

func genRelInput0(r *rand.Rand) relInput {
	switch r.Intn(10) {
	case 0:
		return genRelPrereleaseGap(r)
	case 1:
		return genRelDisjoint(r)
	}
	vs := genVersions(r, resolve.NPM, genCount(r))
	if r.Intn(20) == 0 {
		vs = append(vs, pick(r, []string{"not-a-version", "c0d3f4c3", "1.x.y"}))
	}
	r.Shuffle(len(vs), func(a, b int) { vs[a], vs[b] = vs[b], vs[a] })
	in := relInput{Pkg: "pa", Versions: vs}
	if r.Intn(3) == 0 {
		in.Tagged = pick(r, vs)
	}
	in.Level = pick(r, []int{0, 0, 0, 1, 1, 1, 2, 2, 2, 2, 3, 7})
	switch k := r.Intn(100); {
	case k < 80:
		in.Req = genReq(r, resolve.NPM, vs, true)
	case k < 86:
		in.Req = "^9.0.0" // matches nothing
	case k < 90:
		in.Req = "latest"
	case k < 93:
		in.Req = pick(r, []string{"@@@", "some-tag", "github:foo/bar"})
	case k < 95:
		in.NoPkg = true
		in.Req = "^1.0.0"
	case k < 97:
		in.Req = "*"
	default:
		in.Req = "<" + pick(r, vs)
	}
	return in
}

func addRel(o *output, stream string, in relInput) {
	if in.Alias == "" {
		in.AliasLevel = -1
	}
	obs := runRelax(in)
	s, nt := relCoq(npmClient(in), in.Pkg, in.Req, upgrade.Level(in.Level), obs)
	o.add(stream, s, map[string]any{"input": in, "observed": obs, "nontrivial": nt, "known_id": in.KnownID, "source": "direct"})
}

func streamRelax(o *output, r *rand.Rand, n int) {
	// the cases of npm_test.go and boundary cases on purpose
	fixed := []relInput{
		{Pkg: "pa", Versions: []string{"1.2.3", "1.2.4", "1.2.5", "1.3.0", "2.0.0"}, Req: "1.2.3", Level: 1},
		{Pkg: "pa", Versions: []string{"1.2.3", "1.2.4", "1.3.0", "1.3.1", "2.0.0"}, Req: "~1.2.3", Level: 1},
		{Pkg: "pa", Versions: []string{"1.2.3", "1.3.4", "2.3.4", "2.4.5", "3.0.0"}, Req: "^1.2.3", Level: 0},
		{Pkg: "pa", Versions: []string{"1.0.0", "3.0.0", "4.0.0"}, Req: "^1.0.0", Level: 0},
		{Pkg: "pa", Versions: []string{"1.2.3", "2.0.0-alpha.0", "2.0.0-alpha.1", "2.0.0-beta"}, Req: "^1.0.0", Level: 0},
		{Pkg: "pa", Versions: []string{"1.2.3", "1.3.4", "2.3.4"}, Req: "~1.2.3", Level: 2},
		{Pkg: "pa", Versions: []string{"1.2.3"}, Req: "1.2.3", Level: 0},
		{Pkg: "pa", Versions: []string{"1.2.3", "1.2.4"}, Req: "1.2.3", Level: 3},
	}
	for _, in := range fixed {
		addRel(o, "rcase", in)
	}
	for i := 0; i < n; i++ {
		addRel(o, "rcase", genRelInput(r))
	}
}

// ---------------------------------------------------------------- end-to-end relax on package.json

type e2eInput struct {
	Universe *universe         `json:"universe"`
	Manifest manifestSpec      `json:"manifest"`
	Vulns    []vulnSpec        `json:"vulns"`
	Config   map[string]string `json:"config"`
}

// genTargetedVulns resolves the manifest first and aims most records at versions that are really in
// the graph, with and without a fix among the known versions.
func genTargetedVulns(r *rand.Rand, u *universe, m manifestSpec) []vulnSpec {
	cl, err := u.client()
	if err != nil {
		return genVulns(r, u)
	}
	dir, _ := os.MkdirTemp("", "remedg")
	defer os.RemoveAll(dir)
	path, _ := m.write(u.Sys, dir)
	m0, err := guidedremediation.VerifC11ReadManifest(path, "")
	if err != nil {
		return genVulns(r, u)
	}
	g := resolveWith(cl, m0, nil)
	if g == nil || len(g.Nodes) < 2 {
		return genVulns(r, u)
	}
	var out []vulnSpec
	n := 1 + r.Intn(4)
	for i := 0; i < n; i++ {
		node := g.Nodes[1+r.Intn(len(g.Nodes)-1)].Version
		vs := u.versionStrings(node.Name)
		ri := ranksOf(u.Sys.Semver(), vs)
		var higher []string
		for _, v := range vs {
			if ri.parses[v] && ri.parses[node.Version] && ri.rank[v] > ri.rank[node.Version] {
				higher = append(higher, v)
			}
		}
		v := vulnSpec{ID: fmt.Sprintf("T-%03d", i), Pkg: node.Name}
		sort.SliceStable(higher, func(a, b int) bool { return ri.rank[higher[a]] < ri.rank[higher[b]] })
		if len(higher) >= 2 && r.Intn(4) == 0 {
			// a chain: the first fix is itself affected by a second record, fixed further up
			a := r.Intn(len(higher) - 1)
			b := a + 1 + r.Intn(len(higher)-a-1)
			out = append(out, vulnSpec{ID: fmt.Sprintf("T-%03d", i), Pkg: node.Name, Events: [][2]string{{"introduced", "0"}, {"fixed", higher[a]}}})
			out = append(out, vulnSpec{ID: fmt.Sprintf("T-%03dc", i), Pkg: node.Name, Events: [][2]string{{"introduced", higher[a]}, {"fixed", higher[b]}}})
			continue
		}
		switch k := r.Intn(10); {
		case k < 6 && len(higher) > 0:
			v.Events = [][2]string{{"introduced", "0"}, {"fixed", pick(r, higher)}}
		case k < 7:
			v.Events = [][2]string{{"introduced", "0"}}
		case k < 8:
			v.Events = [][2]string{{"introduced", "0"}, {"last_affected", node.Version}}
		case k < 9:
			v.Listed = []string{node.Version}
		default:
			v.Events = [][2]string{{"introduced", node.Version}}
			if len(higher) > 0 {
				v.Events = append(v.Events, [2]string{"fixed", pick(r, higher)})
			}
		}
		out = append(out, v)
	}
	for _, v := range out {
		k := "range-with-fix"
		switch {
		case len(v.Listed) > 0:
			k = "listed-versions"
		case len(v.Events) == 1:
			k = "range-without-fix"
		case v.Events[len(v.Events)-1][0] == "last_affected":
			k = "last_affected"
		}
		count("vulnerability_record", k)
	}
	if r.Intn(3) == 0 {
		extra := genVulns(r, u)
		if len(extra) > 2 {
			extra = extra[:2]
		}
		out = append(out, extra...)
	}
	return out
}

func matcherOf(u *universe, vs []vulnSpec) (localMatcher, map[string]*osvschema.Vulnerability) {
	var vm localMatcher
	byID := map[string]*osvschema.Vulnerability{}
	for _, v := range vs {
		o := v.osv(u.Eco)
		vm = append(vm, o)
		byID[v.ID] = o
	}
	return vm, byID
}

func streamFixNpm(o *output, r *rand.Rand, n int) {
	for i := 0; i < n; i++ {
		u := genUniverse(r, resolve.NPM)
		m := genManifest(r, u)
		var extra []vulnSpec
		cfg := genConfig(r, u)
		for k := range m.Deps {
			if r.Intn(4) == 0 {
				// declared under an alias; the level configured for the REAL package is the one that applies
				m.Deps[k].Alias = fmt.Sprintf("shim-%d", k)
				strict := pick(r, []upgrade.Level{upgrade.Patch, upgrade.Minor, upgrade.None, upgrade.Patch})
				switch r.Intn(3) {
				case 0:
					cfg.Set(m.Deps[k].Name, strict)
					cfg.Set(m.Deps[k].Alias, upgrade.Major)
				case 1:
					cfg.Set(m.Deps[k].Name, strict)
				default:
					cfg.Set(m.Deps[k].Alias, pick(r, []upgrade.Level{upgrade.Major, upgrade.None}))
				}
				count("manifest_alias", "yes")
			}
		}
		if i%4 == 3 {
			// a direct dependency with a prerelease gap above its requirement, vulnerable up to the prerelease
			in := genRelPrereleaseGap(r)
			p := uPkg{Name: "pgap"}
			for _, v := range in.Versions {
				p.Versions = append(p.Versions, uVer{V: v})
			}
			u.Pkgs = append(u.Pkgs, p)
			m.Deps = append(m.Deps, mDep{Name: "pgap", Req: in.Req})
			ri := ranksOf(semver.NPM, in.Versions)
			var fixAt string
			for _, v := range in.Versions { // the lowest prerelease in the universe of this package
				if strings.Contains(v, "-") && (fixAt == "" || ri.rank[v] < ri.rank[fixAt]) {
					fixAt = v
				}
			}
			extra = append(extra, vulnSpec{ID: "G-1", Pkg: "pgap", Events: [][2]string{{"introduced", "0"}, {"fixed", fixAt}}})
			cfg.Set("pgap", upgrade.Level(in.Level))
		}
		vs := append(genTargetedVulns(r, u, m), extra...)
		runFixNpm(o, u, m, vs, cfg, "")
	}
}

func runFixNpm(o *output, u *universe, m manifestSpec, vs []vulnSpec, cfg upgrade.Config, knownID string) {
	pre := ""
	if knownID != "" {
		pre = "k_"
	}
	cl, err := u.client()
	if err != nil {
		panic(err)
	}
	vm, _ := matcherOf(u, vs)
	dir, _ := os.MkdirTemp("", "remed")
	defer os.RemoveAll(dir)
	path, _ := m.write(u.Sys, dir)
	m0, err := guidedremediation.VerifC11ReadManifest(path, "")
	if err != nil {
		return
	}
	info := map[string]any{"universe": u, "manifest": m, "vulns": vs, "config": cfgJSON(cfg), "known_id": knownID}
	ro := options.DefaultRemediationOptions()
	ro.UpgradeConfig = viaStrings(cfg) // the run gets the configuration as spec strings; cfg is the intended one
	// (1) in-situ Relax calls: ComputePatches on a traced manifest; every PatchRequirement is one Relax result
	res0, err := guidedremediation.VerifC11ResolveManifest(ctx, cl, vm, m0, &ro)
	// (0) the outer loop of relax.patchVulns, one traced call at a time
	if err == nil && len(res0.Vulns) > 0 {
		if runRelaxLoop(o, pre, cl, vm, m0, res0, cfg, &ro, info) {
			return // ComputePatches / FixVulns would run the same non-terminating call in goroutines that cannot be stopped
		}
	}
	if err == nil && len(res0.Vulns) > 0 {
		tm, tr := guidedremediation.VerifC11TraceManifest(m0)
		rs := &guidedremediation.VerifC11Resolved{Manifest: tm, ResolvedGraph: res0.ResolvedGraph}
		oc, _ := guarded(4*callLimit, func() { _, _ = guidedremediation.VerifC11RelaxComputePatches(ctx, cl, vm, rs, &ro) })
		if oc == callTimeout {
			o.add("ucase", "{| u_strategy := 1; u_level := Major; u_known := false; u_cmp := Eq; u_dif := Same; u_op := 2; u_listed := true; u_honoured := true; u_indep := true; u_consistent := true |}",
				merge(info, map[string]any{"strategy": "relax", "timeout": true, "nontrivial": true}))
		}
		seen := map[string]bool{}
		type relaxCall struct{ name, old, new string }
		var calls []relaxCall
		for _, ev := range tr.Events {
			if ev.Kind != "patch" {
				continue
			}
			var old string
			for _, b := range ev.Before {
				ka, _ := b.Type.GetAttr(dep.KnownAs)
				kb, _ := ev.Req.Type.GetAttr(dep.KnownAs)
				if b.PackageKey == ev.Req.PackageKey && ka == kb {
					old = b.Version
				}
			}
			key := ev.Req.Name + "\x00" + old + "\x00" + ev.Req.Version
			if seen[key] {
				continue
			}
			seen[key] = true
			calls = append(calls, relaxCall{ev.Req.Name, old, ev.Req.Version})
		}
		// the goroutines of ComputePatches interleave: order the observed calls canonically
		sort.Slice(calls, func(a, b int) bool {
			if calls[a].name != calls[b].name {
				return calls[a].name < calls[b].name
			}
			if calls[a].old != calls[b].old {
				return calls[a].old < calls[b].old
			}
			return calls[a].new < calls[b].new
		})
		for _, c := range calls {
			s, nt := relCoq(cl, c.name, c.old, cfg.Get(c.name), relObs{OK: true, Version: c.new})
			o.add(pre+"rcase", s, merge(info, map[string]any{"source": "in-situ (relax.ComputePatches on a traced manifest)", "pkg": c.name,
				"req": c.old, "observed": relObs{OK: true, Version: c.new}, "nontrivial": nt}))
		}
	}
	// (2) the whole of FixVulns, judged on the re-resolved graphs
	var res result.Result
	var ferr error
	oc, _ := guarded(4*callLimit, func() {
		res, ferr = guidedremediation.FixVulns(options.FixVulnsOptions{Manifest: path, Strategy: strategy.StrategyRelax,
			MatcherClient: vm, ResolveClient: cl, RemediationOptions: ro})
	})
	if oc == callTimeout {
		o.add("ucase", "{| u_strategy := 1; u_level := Major; u_known := false; u_cmp := Eq; u_dif := Same; u_op := 2; u_listed := true; u_honoured := true; u_indep := true; u_consistent := true |}",
			merge(info, map[string]any{"strategy": "relax", "timeout": true, "nontrivial": true}))
		return
	}
	if oc != callOK || ferr != nil {
		return
	}
	var ups [][]result.PackageUpdate
	for _, p := range res.Patches {
		ups = append(ups, p.PackageUpdates)
	}
	addUcases(o, pre+"ucase", 1, u.Sys, cl, m0, path, cfg, ups, func(result.PackageUpdate) bool { return true }, info)
}

func merge(a, b map[string]any) map[string]any {
	out := map[string]any{}
	for k, v := range a {
		out[k] = v
	}
	for k, v := range b {
		out[k] = v
	}
	return out
}

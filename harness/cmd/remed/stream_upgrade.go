package main

import (
	"fmt"
	"math/rand"

	"deps.dev/util/semver"
	"github.com/google/osv-scalibr/guidedremediation/upgrade"
)

// streamAllows: Level.Allows, exhaustively: the four levels plus an invalid one x the seven Diff values.
func streamAllows(o *output) {
	for _, l := range []upgrade.Level{upgrade.Major, upgrade.Minor, upgrade.Patch, upgrade.None, upgrade.Level(7), upgrade.Level(-1)} {
		for d := semver.Same; d <= semver.DiffBuild; d++ {
			got := l.Allows(d)
			o.add("acase", fmt.Sprintf("{| a_level := %s; a_diff := %s; a_observed := %v |}", levelCoq(l), diffCoq(d), got),
				map[string]any{"level": int(l), "diff": d.String(), "observed": got, "nontrivial": true})
		}
	}
}

// streamConfig: Config.Get on random configurations (built through NewConfigFromStrings, Set and
// SetDefault), queried with configured names, unknown names and the empty name.
func streamConfig(o *output, r *rand.Rand, n int) {
	lv := []string{"major", "minor", "patch", "none"}
	pool := []string{"pa", "pb", "org.x:pc", "@scope/pd", "pe", "a:b:c"}
	for i := 0; i < n; i++ {
		names := newNames()
		var strs []string
		for _, p := range pool {
			if r.Intn(3) == 0 {
				strs = append(strs, p+":"+pick(r, lv))
			}
		}
		if r.Intn(2) == 0 {
			strs = append(strs, pick(r, lv)) // default level
		}
		if r.Intn(8) == 0 {
			strs = append(strs, "pa:bogus", "pz:"+pick(r, lv))
		}
		r.Shuffle(len(strs), func(a, b int) { strs[a], strs[b] = strs[b], strs[a] })
		cfg := upgrade.NewConfigFromStrings(strs)
		if r.Intn(6) == 0 {
			cfg.Set(pick(r, pool), upgrade.Level(r.Intn(4)))
		}
		q := pick(r, append([]string{"", "unknown"}, pool...))
		got := cfg.Get(q)
		o.add("gcase", fmt.Sprintf("{| g_cfg := %s; g_name := %s; g_observed := %s |}", cfgCoq(names, cfg), names.n(q), levelCoq(got)),
			map[string]any{"strings": strs, "config": cfgJSON(cfg), "query": q, "observed": levelCoq(got), "nontrivial": true})
	}
}

package main

import (
	"fmt"
	"math/rand"
	"sort"

	"deps.dev/util/semver"
	"github.com/google/osv-scalibr/guidedremediation/upgrade"

	cf "verifharness/internal/coqfmt"
)

// streamAllows: Level.Allows, exhaustively: the four levels plus an invalid one x the seven Diff values.
func streamAllows(o *output) {
	for _, l := range []upgrade.Level{upgrade.Major, upgrade.Minor, upgrade.Patch, upgrade.None, upgrade.Level(7), upgrade.Level(-1)} {
		for d := semver.Same; d <= semver.DiffBuild; d++ {
			got := l.Allows(d)
			o.add("acase", fmt.Sprintf("{| a_level := %s; a_diff := %s; a_observed := %v |}", levelCoq(l), diffCoq(d), got),
				map[string]any{"level": int(l), "diff": d.String(), "observed": got, "nontrivial": true})
		}
	}
}

// streamConfig: Config.Get on random configurations (built through NewConfigFromStrings, Set and
// SetDefault), queried with configured names, unknown names and the empty name.
func streamConfig(o *output, r *rand.Rand, n int) {
	lv := []string{"major", "minor", "patch", "none"}
	pool := []string{"pa", "pb", "org.x:pc", "@scope/pd", "pe", "a:b:c"}
	for i := 0; i < n; i++ {
		names := newNames()
		var strs []string
		for _, p := range pool {
			if r.Intn(3) == 0 {
				strs = append(strs, p+":"+pick(r, lv))
			}
		}
		if r.Intn(2) == 0 {
			strs = append(strs, pick(r, lv)) // default level
		}
		if r.Intn(8) == 0 {
			strs = append(strs, "pa:bogus", "pz:"+pick(r, lv))
		}
		r.Shuffle(len(strs), func(a, b int) { strs[a], strs[b] = strs[b], strs[a] })
		cfg := upgrade.NewConfigFromStrings(strs)
		if r.Intn(6) == 0 {
			cfg.Set(pick(r, pool), upgrade.Level(r.Intn(4)))
		}
		q := pick(r, append([]string{"", "unknown"}, pool...))
		got := cfg.Get(q)
		o.add("gcase", fmt.Sprintf("{| g_cfg := %s; g_name := %s; g_observed := %s |}", cfgCoq(names, cfg), names.n(q), levelCoq(got)),
			map[string]any{"strings": strs, "config": cfgJSON(cfg), "query": q, "observed": levelCoq(got), "nontrivial": true})
	}
}

// streamConfigParse: upgrade.NewConfigFromStrings followed by Get, on spec strings with capitals, scopes,
// Maven group:artifact names (containing ':'), mixed-case / padded / invalid levels, duplicates and
// defaults; queried with the names as written, case-folded variants, unknown names and "".
func streamConfigParse(o *output, r *rand.Rand, n int) {
	names := []string{"JSONStream", "jsonstream", "@Scope/Pkg", "@scope/pkg", "org.x:pa", "Org.X:PA", "lodash", "a:b:c", ""}
	levels := []string{"major", "minor", "patch", "none", "none", "minor", "None", "MAJOR", " minor", "patch ", "bogus", ""}
	// every (name, level word) pair on its own, then random combinations
	var fixed [][]string
	for _, nm := range names {
		for _, lv := range []string{"major", "minor", "patch", "none", "None", " none"} {
			fixed = append(fixed, []string{nm + ":" + lv})
		}
	}
	fixed = append(fixed, []string{"none"}, []string{":none"}, []string{"JSONStream:none", "patch"}, []string{"org.x:pa:minor", "none"},
		[]string{"lodash:none", "lodash:major"}, []string{"lodash:major", "lodash:bogus"}, []string{})
	emit := func(specs []string, q string) {
		got := upgrade.NewConfigFromStrings(specs).Get(q)
		var sl []string
		for _, sp := range specs {
			sl = append(sl, cf.Str(sp))
		}
		o.add("pcase", fmt.Sprintf("{| p_specs := %s; p_query := %s; p_observed := %s |}", cf.List(sl), cf.Str(q), levelCoq(got)),
			map[string]any{"specs": specs, "query": q, "observed": levelCoq(got), "nontrivial": len(specs) > 0})
	}
	for _, specs := range fixed {
		for _, q := range names {
			emit(specs, q)
		}
	}
	for i := 0; i < n; i++ {
		var specs []string
		k := r.Intn(5)
		for j := 0; j < k; j++ {
			nm := pick(r, names)
			lv := pick(r, levels)
			switch r.Intn(6) {
			case 0:
				specs = append(specs, lv) // a default without colon
			default:
				specs = append(specs, nm+":"+lv)
			}
		}
		emit(specs, pick(r, names))
	}
}

// viaStrings rebuilds a configuration the way a caller with command-line flags does: as "pkg:level"
// spec strings through upgrade.NewConfigFromStrings. cfg itself stays the INTENDED configuration that the
// oracle and the models use.
func viaStrings(cfg upgrade.Config) upgrade.Config {
	var specs []string
	for k, l := range cfg {
		w := map[upgrade.Level]string{upgrade.Major: "major", upgrade.Minor: "minor", upgrade.Patch: "patch", upgrade.None: "none"}[l]
		if w == "" {
			return cfg // an invalid level cannot be written as a spec
		}
		if k == "" {
			specs = append(specs, w)
		} else {
			specs = append(specs, k+":"+w)
		}
	}
	sort.Strings(specs)
	return upgrade.NewConfigFromStrings(specs)
}

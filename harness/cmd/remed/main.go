package main

import (
	"encoding/json"
	"flag"
	"fmt"
	"io"
	"log"
	"math/rand"
	"os"
	"strings"

	cf "verifharness/internal/coqfmt"
)

// output collects, per stream (= Coq record type), the printed Coq cases and the JSON side records.
type output struct {
	order []string
	coq   map[string][]string
	side  map[string][]any
	meta  map[string]any
}

func newOutput() *output {
	return &output{coq: map[string][]string{}, side: map[string][]any{}, meta: map[string]any{}}
}

func (o *output) add(stream, coq string, side any) {
	if _, ok := o.coq[stream]; !ok {
		o.order = append(o.order, stream)
	}
	o.coq[stream] = append(o.coq[stream], coq)
	o.side[stream] = append(o.side[stream], side)
}

const chunk = 100

func (o *output) write(vpath, jpath string) error {
	var sb strings.Builder
	sb.WriteString("From Coq Require Import List ZArith NArith Bool.\n")
	sb.WriteString("From Scalibr Require Import RemedC11.Upgrade RemedC11.Suggest RemedC11.Relax RemedC11.Override RemedC11.RelaxLoop RemedC11.Cases.\n")
	sb.WriteString("Import ListNotations.\nOpen Scope N_scope.\n")
	sb.WriteString("(* END-HEADER *)\n")
	for _, s := range o.order {
		sb.WriteString(cf.Chunked(s+"s", strings.TrimPrefix(s, "k_"), o.coq[s], chunk))
	}
	if err := os.WriteFile(vpath, []byte(sb.String()), 0o644); err != nil {
		return err
	}
	f, err := os.Create(jpath)
	if err != nil {
		return err
	}
	defer f.Close()
	enc := json.NewEncoder(f)
	if err := enc.Encode(map[string]any{"stream": "meta", "meta": o.meta}); err != nil {
		return err
	}
	for _, s := range o.order {
		for i, c := range o.side[s] {
			if err := enc.Encode(map[string]any{"stream": s, "idx": i, "case": c}); err != nil {
				return err
			}
		}
	}
	return nil
}

func main() {
	out := flag.String("out", "", "output .v file")
	side := flag.String("jsonl", "", "output side file (one JSON object per line)")
	seed := flag.Int64("seed", 1, "PRNG seed")
	nCfg := flag.Int("configs", 150, "random Config.Get cases")
	nSug := flag.Int("suggest", 600, "direct suggestMavenVersion cases")
	nUpd := flag.Int("update", 60, "end-to-end Update runs (pom.xml)")
	nRel := flag.Int("relax", 600, "direct NpmRelaxer.Relax cases")
	nGvg := flag.Int("gvg", 200, "direct getVersionsGreater cases (shuffled client order)")
	nFixN := flag.Int("fixnpm", 60, "end-to-end FixVulns relax runs (package.json)")
	nFixM := flag.Int("fixmaven", 60, "end-to-end FixVulns override runs (pom.xml), each with traced patchVulns calls")
	known := flag.String("known", "", "KNOWN_FINDINGS.d/C11.json: replay the listed witnesses first")
	replay := flag.String("replay", "", "replay one JSON case (as written to replays/) and print implementation result + coq case")
	flag.Parse()
	log.SetOutput(io.Discard)

	o := newOutput()
	if *replay != "" {
		doReplay(*replay)
		return
	}
	if *known != "" {
		replayKnown(o, *known)
	}
	r := rand.New(rand.NewSource(*seed))
	streamAllows(o)
	streamConfig(o, r, *nCfg)
	streamConfigParse(o, r, *nCfg)
	streamSuggest(o, r, *nSug)
	streamUpdate(o, r, *nUpd)
	streamRelax(o, r, *nRel)
	streamFixNpm(o, r, *nFixN)
	streamGvg(o, r, *nGvg)
	streamFixMaven(o, r, *nFixM)
	o.meta["distribution"] = dist
	if *out == "" || *side == "" {
		fmt.Fprintln(os.Stderr, "need -out and -jsonl")
		os.Exit(2)
	}
	if err := o.write(*out, *side); err != nil {
		panic(err)
	}
	for _, s := range o.order {
		fmt.Printf("stream %s: %d cases\n", s, len(o.coq[s]))
	}
}

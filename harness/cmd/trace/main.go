// Command trace builds real images whose files are package lists, runs the real
// scalibr Scanner.ScanContainer (image.FromV1Image + trace.PopulateLayerDetails) with a
// harness-defined line extractor and records Package.LayerDetails{Index,DiffID,Command}.
// It writes (a) Coq cases files, (b) a JSONL side file (same order).
package main

import (
	"archive/tar"
	"bufio"
	"bytes"
	"context"
	"encoding/json"
	"flag"
	"fmt"
	"io"
	"math/rand"
	"os"
	"sort"
	"strings"

	v1 "github.com/google/go-containerregistry/pkg/v1"
	"github.com/google/go-containerregistry/pkg/v1/empty"
	"github.com/google/go-containerregistry/pkg/v1/mutate"
	"github.com/google/go-containerregistry/pkg/v1/tarball"
	scalibr "github.com/google/osv-scalibr"
	img "github.com/google/osv-scalibr/artifact/image/layerscanning/image"
	"github.com/google/osv-scalibr/extractor"
	"github.com/google/osv-scalibr/extractor/filesystem"
	"github.com/google/osv-scalibr/inventory"
	"github.com/google/osv-scalibr/log"
	"github.com/google/osv-scalibr/plugin"
	"github.com/google/osv-scalibr/purl"

	cf "verifharness/internal/coqfmt"
)

type silent struct{}

func (silent) Errorf(string, ...any) {}
func (silent) Error(...any)          {}
func (silent) Warnf(string, ...any)  {}
func (silent) Warn(...any)           {}
func (silent) Infof(string, ...any)  {}
func (silent) Info(...any)           {}
func (silent) Debugf(string, ...any) {}
func (silent) Debug(...any)          {}

// ---------------------------------------------------------------- the line extractor
type listExtractor struct{}

func (listExtractor) Name() string                       { return "verif/pkglist" }
func (listExtractor) Version() int                       { return 1 }
func (listExtractor) Requirements() *plugin.Capabilities { return &plugin.Capabilities{} }
func (listExtractor) FileRequired(api filesystem.FileAPI) bool {
	return strings.HasSuffix(api.Path(), ".list")
}

// cancelScan is called when the extractor reads a "!cancel" line (set per case).
var cancelScan func()

// line formats: "name version", "name version @other-location" (a package with two locations),
// "!cancel" (cancels the scan context; yields no package)
func (listExtractor) Extract(_ context.Context, in *filesystem.ScanInput) (inventory.Inventory, error) {
	var pkgs []*extractor.Package
	sc := bufio.NewScanner(in.Reader)
	for sc.Scan() {
		f := strings.Fields(sc.Text())
		if len(f) == 1 && f[0] == "!cancel" {
			if cancelScan != nil {
				cancelScan()
			}
			continue
		}
		if len(f) == 3 && strings.HasPrefix(f[2], "@") {
			pkgs = append(pkgs, &extractor.Package{Name: f[0], Version: f[1], Locations: []string{in.Path, f[2][1:]}, Metadata: in.Path})
			continue
		}
		if len(f) != 2 {
			continue
		}
		pkgs = append(pkgs, &extractor.Package{Name: f[0], Version: f[1], Locations: []string{in.Path}, Metadata: in.Path})
	}
	return inventory.Inventory{Packages: pkgs}, sc.Err()
}

// ToPURL normalises the name the way PyPI does (case-insensitive; runs of '-', '_', '.' are one '-'):
// the package URL, not the spelling in the file, is the identity of a package.
func (listExtractor) ToPURL(p *extractor.Package) *purl.PackageURL {
	return &purl.PackageURL{Type: purl.TypeGeneric, Name: normName(p.Name), Version: p.Version}
}

func normName(n string) string {
	var sb strings.Builder
	sep := false
	for _, c := range strings.ToLower(n) {
		if c == '-' || c == '_' || c == '.' {
			sep = true
			continue
		}
		if sep && sb.Len() > 0 {
			sb.WriteByte('-')
		}
		sep = false
		sb.WriteRune(c)
	}
	return sb.String()
}

// spell returns one of three spellings of the same package URL; which one depends on the layer, so a
// layer that rewrites a file respells the packages it keeps.
func spell(name string, variant int) string {
	switch variant % 3 {
	case 1:
		return strings.ToUpper(name[:1]) + strings.NewReplacer("-", "_", ".", "_").Replace(name[1:])
	case 2:
		return strings.NewReplacer("-", ".", "_", ".").Replace(strings.ToUpper(name))
	}
	return name
}
func (listExtractor) Ecosystem(*extractor.Package) string { return "" }

// ---------------------------------------------------------------- cases
// location ids 1..5; the last two are only ever symbolic links to one of the first three
var files = []string{"pkgs/a.list", "pkgs/b.list", "c.list", "alias.list", "pkgs/alias2.list"}

const nRegular = 3

// package (URL) ids 1..4, all version 1.0; all names have the same length in every spelling, so a rewrite with
// the same number of packages has the same byte length (and the tars carry mode 0644, mtime 0 throughout)
var pkgNames = []string{"alpha", "bravo", "gam-x", "del-y"}

// FileOp is what one layer does to one file.
type FileOp struct {
	File   int    `json:"file"`             // index into files
	Op     string `json:"op"`               // write | delete | link
	Pkgs   []int  `json:"pkgs,omitempty"`   // package indices (write); -1 = the "!cancel" line
	Extra  int    `json:"extra,omitempty"`  // write: 1-based index of the second location every package of this file names (0 = none)
	Target int    `json:"target,omitempty"` // link: index into files of the link target
	Abs    bool   `json:"abs,omitempty"`    // link: absolute Linkname
}

// HEntry is one config history entry; Layer >= 0 names the v1 layer it was generated with.
type HEntry struct {
	Empty bool `json:"empty"`
	Cmd   int  `json:"cmd"` // command id; the CreatedBy string is "cmd-<id>"
}

// PObs is one reported package.
type PObs struct {
	File   int  `json:"file"`  // Locations[0] as reported (= the source file since fix 57324273)
	Extra  int  `json:"extra"` // 1-based index of Locations[1], 0 = none
	Src    int  `json:"src"`   // the file the package was extracted from (the extractor records it in Metadata)
	InBase bool `json:"in_base_image"`
	Pkg    int  `json:"pkg"`
	Index  int  `json:"index"`
	Diff   int  `json:"diff"` // 1-based number of the v1 layer whose diff id was reported; 0 = "", 999 = unknown
	Cmd    int  `json:"cmd"`  // command id; 0 = "", 999 = unknown
}

// Case is one generated image.
type Case struct {
	Stream       string     `json:"stream"`
	ReadSymlinks bool       `json:"read_symlinks,omitempty"`
	DirLink      bool       `json:"dir_link,omitempty"` // layer 0 also holds the directory symlink lnk -> pkgs
	Plain        bool       `json:"plain,omitempty"`    // package names are written in their canonical spelling in every layer
	History      []HEntry   `json:"history"`
	Layers       [][]FileOp `json:"layers"` // v1 layers, in order
	Obs          []PObs     `json:"obs,omitempty"`
}

func must(err error) {
	if err != nil {
		panic(err)
	}
}

func mkLayer(k int, ops []FileOp, dirLink, plain bool) v1.Layer {
	sp := func(name string, variant int) string {
		if plain {
			return name
		}
		return spell(name, variant)
	}
	var buf bytes.Buffer
	tw := tar.NewWriter(&buf)
	if dirLink {
		must(tw.WriteHeader(&tar.Header{Name: "lnk", Typeflag: tar.TypeSymlink, Linkname: "pkgs", Mode: 0o777}))
	}
	marker := fmt.Sprintf("layer-%d\n", k)
	must(tw.WriteHeader(&tar.Header{Name: fmt.Sprintf("marker-%d", k), Typeflag: tar.TypeReg, Mode: 0o644, Size: int64(len(marker))}))
	_, err := tw.Write([]byte(marker))
	must(err)
	for _, o := range ops {
		name := files[o.File]
		switch o.Op {
		case "link":
			t := files[o.Target]
			ln := "/" + t
			if !o.Abs {
				ln = t
				if strings.Contains(name, "/") { // the link lives in pkgs/
					ln = "../" + t
				}
			}
			must(tw.WriteHeader(&tar.Header{Name: name, Typeflag: tar.TypeSymlink, Linkname: ln, Mode: 0o777}))
		case "write":
			var sb strings.Builder
			for _, p := range o.Pkgs {
				switch {
				case p < 0:
					sb.WriteString("!cancel\n")
				case o.Extra > 0:
					fmt.Fprintf(&sb, "%s 1.0 @%s\n", sp(pkgNames[p], k+p), files[o.Extra-1])
				default:
					fmt.Fprintf(&sb, "%s 1.0\n", sp(pkgNames[p], k+p))
				}
			}
			body := sb.String()
			if body == "" {
				body = "\n"
			}
			must(tw.WriteHeader(&tar.Header{Name: name, Typeflag: tar.TypeReg, Mode: 0o644, Size: int64(len(body))}))
			_, err := tw.Write([]byte(body))
			must(err)
		case "delete":
			i := strings.LastIndex(name, "/")
			must(tw.WriteHeader(&tar.Header{Name: name[:i+1] + ".wh." + name[i+1:], Typeflag: tar.TypeReg, Mode: 0o644}))
		default:
			panic("op " + o.Op)
		}
	}
	must(tw.Close())
	b := buf.Bytes()
	l, err := tarball.LayerFromOpener(func() (io.ReadCloser, error) { return io.NopCloser(bytes.NewReader(b)), nil })
	must(err)
	return l
}

func runCase(c *Case) {
	var ls []v1.Layer
	diffNo := map[string]int{"": 0}
	for k, ops := range c.Layers {
		l := mkLayer(k, ops, c.DirLink && k == 0, c.Plain)
		ls = append(ls, l)
		d, err := l.DiffID()
		must(err)
		diffNo[d.Hex] = k + 1
	}
	im, err := mutate.AppendLayers(empty.Image, ls...)
	must(err)
	cfgFile, err := im.ConfigFile()
	must(err)
	cfgFile = cfgFile.DeepCopy()
	cfgFile.History = nil
	for _, h := range c.History {
		cfgFile.History = append(cfgFile.History, v1.History{CreatedBy: fmt.Sprintf("cmd-%d", h.Cmd), EmptyLayer: h.Empty})
	}
	im, err = mutate.ConfigFile(im, cfgFile)
	must(err)
	x, err := img.FromV1Image(im, img.DefaultConfig())
	if err != nil {
		panic(fmt.Sprintf("FromV1Image: %v", err))
	}
	defer func() { _ = x.CleanUp() }()
	ctx, cancel := context.WithCancel(context.Background())
	defer cancel()
	cancelScan = cancel
	defer func() { cancelScan = nil }()
	res, err := scalibr.New().ScanContainer(ctx, x, &scalibr.ScanConfig{
		FilesystemExtractors: []filesystem.Extractor{listExtractor{}},
		Capabilities:         &plugin.Capabilities{OS: plugin.OSLinux},
		ReadSymlinks:         c.ReadSymlinks,
	})
	must(err)
	if res.Status.Status != plugin.ScanStatusSucceeded {
		panic("scan failed: " + res.Status.FailureReason)
	}
	c.Obs = c.Obs[:0]
	for _, p := range res.Inventory.Packages {
		o := PObs{File: -1, Src: -1, Pkg: -1, Index: -1, Diff: 999, Cmd: 999}
		if m, ok := p.Metadata.(string); ok {
			for i, f := range files {
				if m == f {
					o.Src = i
				}
			}
		}
		for i, f := range files {
			if len(p.Locations) > 0 && p.Locations[0] == f {
				o.File = i
			}
			if len(p.Locations) > 1 && p.Locations[1] == f {
				o.Extra = i + 1
			}
		}
		if len(p.Locations) > 2 || (len(p.Locations) > 1 && o.Extra == 0) {
			o.File = -1 // unexpected location list
		}
		for i, n := range pkgNames {
			if normName(p.Name) == n {
				o.Pkg = i
			}
		}
		if ld := p.LayerDetails; ld != nil {
			o.Index = ld.Index
			o.InBase = ld.InBaseImage
			if n, ok := diffNo[ld.DiffID]; ok {
				o.Diff = n
			}
			if ld.Command == "" {
				o.Cmd = 0
			} else {
				var id int
				if _, err := fmt.Sscanf(ld.Command, "cmd-%d", &id); err == nil {
					o.Cmd = id
				}
			}
		}
		c.Obs = append(c.Obs, o)
	}
}

// ---------------------------------------------------------------- Coq printing
func coqOp(o FileOp) string {
	switch o.Op {
	case "delete":
		return fmt.Sprintf("(%d, LDelete)", o.File+1)
	case "link":
		return fmt.Sprintf("(%d, LLink %d)", o.File+1, o.Target+1)
	}
	ps := make([]string, len(o.Pkgs))
	for i, p := range o.Pkgs {
		ps[i] = fmt.Sprint(p + 1) // the cancel line (-1) is key 0
	}
	return fmt.Sprintf("(%d, LWrite [%s])", o.File+1, strings.Join(ps, ";"))
}

func coqCase(c *Case) string {
	var hs, ls, os []string
	for _, h := range c.History {
		hs = append(hs, fmt.Sprintf("mkH %s %d", cf.Bool(h.Empty), h.Cmd))
	}
	for k, ops := range c.Layers {
		var xs []string
		for _, o := range ops {
			xs = append(xs, coqOp(o))
		}
		ls = append(ls, fmt.Sprintf("mkVL %d %s", k+1, cf.List(xs)))
	}
	for _, o := range c.Obs {
		idx := o.Index
		if idx < 0 {
			idx = 9999 // no LayerDetails: never equals a layer index
		}
		locs := fmt.Sprintf("[%d]", o.File+1)
		if o.Extra > 0 {
			locs = fmt.Sprintf("[%d;%d]", o.File+1, o.Extra)
		}
		os = append(os, fmt.Sprintf("mkP %s %d %d %d %d %d %s", locs, o.Src+1, o.Pkg+1, idx, o.Diff, o.Cmd, cf.Bool(o.InBase)))
	}
	return fmt.Sprintf("mkT %s %s %s", cf.List(hs), cf.List(ls), cf.List(os))
}

// ---------------------------------------------------------------- generators
func subsetOf(r *rand.Rand, n int) []int {
	var s []int
	for i := 0; i < n; i++ {
		if r.Intn(2) == 0 {
			s = append(s, i)
		}
	}
	r.Shuffle(len(s), func(i, j int) { s[i], s[j] = s[j], s[i] })
	return s
}

func genRandom(r *rand.Rand, n int) []*Case {
	var out []*Case
	for i := 0; i < n; i++ {
		c := &Case{Stream: "random"}
		nl := 1 + r.Intn(6)
		nfiles := 1 + r.Intn(3)
		npk := 1 + r.Intn(4)
		cmd := 1
		for k := 0; k < nl; k++ {
			if r.Intn(5) == 0 { // empty layer: history entry only
				c.History = append(c.History, HEntry{Empty: true, Cmd: cmd})
				cmd++
				continue
			}
			var ops []FileOp
			for f := 0; f < nfiles; f++ {
				switch x := r.Intn(10); {
				case x < 4: // keep
				case x < 8:
					ops = append(ops, FileOp{File: f, Op: "write", Pkgs: subsetOf(r, npk)})
				default:
					ops = append(ops, FileOp{File: f, Op: "delete"})
				}
			}
			c.Layers = append(c.Layers, ops)
			c.History = append(c.History, HEntry{Cmd: cmd})
			cmd++
		}
		if len(c.Layers) == 0 {
			c.Layers = append(c.Layers, []FileOp{{File: 0, Op: "write", Pkgs: []int{0}}})
			c.History = append(c.History, HEntry{Cmd: cmd})
		}
		switch r.Intn(12) {
		case 0: // history misses an entry: layer metadata cannot be matched
			c.Stream = "random-history-mismatch"
			for j, h := range c.History {
				if !h.Empty {
					c.History = append(c.History[:j:j], c.History[j+1:]...)
					break
				}
			}
		case 1: // no history at all
			c.Stream = "random-history-mismatch"
			c.History = nil
		case 2: // one non-empty entry too many
			c.Stream = "random-history-mismatch"
			c.History = append(c.History, HEntry{Cmd: 77})
		}
		out = append(out, c)
	}
	return out
}

// genVariant: histories beyond whole-file operations on one-location packages.
//
//	multi-loc  every package of some files names a second location; layers may touch only that one
//	symlink    locations 4 and 5 are symbolic links to package files, scanned with ReadSymlinks;
//	           layer 0 may also hold a directory symlink lnk -> pkgs (nothing is reported through it)
//	cancel     one view that is not the last holds a "!cancel" line: extracting it cancels the context
func genVariant(r *rand.Rand, n int, kind string) []*Case {
	var out []*Case
	for i := 0; i < n; i++ {
		c := &Case{Stream: kind}
		nl := 2 + r.Intn(5)
		npk := 1 + r.Intn(4)
		if kind == "symlink" {
			c.ReadSymlinks = true
			c.DirLink = r.Intn(2) == 0
		}
		for k := 0; k < nl; k++ {
			if r.Intn(6) == 0 {
				c.History = append(c.History, HEntry{Empty: true, Cmd: k + 1})
				continue
			}
			var ops []FileOp
			for f := 0; f < nRegular; f++ {
				switch x := r.Intn(10); {
				case x < 4:
				case x < 8:
					o := FileOp{File: f, Op: "write", Pkgs: subsetOf(r, npk)}
					if kind == "multi-loc" && r.Intn(2) == 0 {
						o.Extra = 1 + (f+1+r.Intn(2))%nRegular
					}
					ops = append(ops, o)
				default:
					ops = append(ops, FileOp{File: f, Op: "delete"})
				}
			}
			if kind == "symlink" {
				for f := nRegular; f < len(files); f++ {
					switch x := r.Intn(10); {
					case x < 5:
					case x < 8:
						ops = append(ops, FileOp{File: f, Op: "link", Target: r.Intn(nRegular), Abs: r.Intn(2) == 0})
					case x < 9:
						ops = append(ops, FileOp{File: f, Op: "delete"})
					default:
						ops = append(ops, FileOp{File: f, Op: "write", Pkgs: subsetOf(r, npk)})
					}
				}
			}
			c.Layers = append(c.Layers, ops)
			c.History = append(c.History, HEntry{Cmd: k + 1})
		}
		if len(c.Layers) == 0 {
			c.Layers = append(c.Layers, []FileOp{{File: 0, Op: "write", Pkgs: []int{0}}})
			c.History = append(c.History, HEntry{Cmd: 99})
		}
		if kind == "cancel" {
			// put the marker into a write that a later layer overwrites or deletes
			done := false
			for k := 0; k < len(c.Layers)-1 && !done; k++ {
				for oi := range c.Layers[k] {
					o := &c.Layers[k][oi]
					if o.Op != "write" {
						continue
					}
					later := false
					for k2 := k + 1; k2 < len(c.Layers); k2++ {
						for _, o2 := range c.Layers[k2] {
							if o2.File == o.File {
								later = true
							}
						}
					}
					if later && r.Intn(2) == 0 {
						pos := r.Intn(len(o.Pkgs) + 1)
						o.Pkgs = append(o.Pkgs[:pos:pos], append([]int{-1}, o.Pkgs[pos:]...)...)
						done = true
						break
					}
				}
			}
			if !done {
				c.Stream = "cancel-none"
			}
		}
		out = append(out, c)
	}
	return out
}

// genSameLength: one file written by 3..5 layers (untouched and empty layers in between), every version
// holding the same number of packages, so that all versions have the same byte length, mode and mtime
// and differ only in which packages they name; with and without layer-dependent respelling.
func genSameLength(r *rand.Rand, n int) []*Case {
	var out []*Case
	for i := 0; i < n; i++ {
		c := &Case{Stream: "same-length", Plain: r.Intn(2) == 0}
		m := 1 + r.Intn(2)
		writes := 3 + r.Intn(3)
		cmd := 1
		for w := 0; w < writes; w++ {
			perm := r.Perm(len(pkgNames))[:m]
			if w > 0 && r.Intn(3) == 0 { // keep one package of the previous version
				prev := c.Layers[len(c.Layers)-1]
				for j := len(c.Layers) - 1; j >= 0; j-- {
					if len(c.Layers[j]) > 0 {
						prev = c.Layers[j]
						break
					}
				}
				if len(prev) > 0 && len(prev[0].Pkgs) > 0 {
					perm[0] = prev[0].Pkgs[0]
					if m == 2 && perm[1] == perm[0] {
						perm[1] = (perm[0] + 1) % len(pkgNames)
					}
				}
			}
			c.Layers = append(c.Layers, []FileOp{{File: 0, Op: "write", Pkgs: perm}})
			c.History = append(c.History, HEntry{Cmd: cmd})
			cmd++
			switch r.Intn(4) {
			case 0: // an untouched layer
				c.Layers = append(c.Layers, nil)
				c.History = append(c.History, HEntry{Cmd: cmd})
				cmd++
			case 1: // an empty layer
				c.History = append(c.History, HEntry{Empty: true, Cmd: cmd})
				cmd++
			}
		}
		out = append(out, c)
	}
	return out
}

// genExhaustive: every history of 1..maxLayers entries over one file and two packages; per entry:
// empty layer | untouched | delete | write S for the four subsets S of {alpha, beta}.
func genExhaustive(maxLayers int) []*Case {
	var out []*Case
	const nOpts = 7
	for nl := 1; nl <= maxLayers; nl++ {
		total := 1
		for i := 0; i < nl; i++ {
			total *= nOpts
		}
		for code := 0; code < total; code++ {
			c := &Case{Stream: "exhaustive"}
			x := code
			for k := 0; k < nl; k++ {
				o := x % nOpts
				x /= nOpts
				if o == 0 {
					c.History = append(c.History, HEntry{Empty: true, Cmd: k + 1})
					continue
				}
				var ops []FileOp
				switch o {
				case 1:
				case 2:
					ops = []FileOp{{File: 0, Op: "delete"}}
				default:
					var ps []int
					if (o-3)&1 != 0 {
						ps = append(ps, 0)
					}
					if (o-3)&2 != 0 {
						ps = append(ps, 1)
					}
					ops = []FileOp{{File: 0, Op: "write", Pkgs: ps}}
				}
				c.Layers = append(c.Layers, ops)
				c.History = append(c.History, HEntry{Cmd: k + 1})
			}
			if len(c.Layers) == 0 {
				continue // an image needs at least one v1 layer to have any file
			}
			out = append(out, c)
		}
	}
	return out
}

const header = "From Coq Require Import List NArith Bool.\nFrom Scalibr Require Import Trace.Model.\nImport ListNotations.\nOpen Scope N_scope.\n"
const footer = "Definition corr_bad := Eval vm_compute in bad_indices case_model_ok cases 0.\nPrint corr_bad.\n" +
	"Definition spec_bad := Eval vm_compute in bad_indices case_spec_ok cases 0.\nPrint spec_bad.\n" +
	"Definition outside_D := Eval vm_compute in [fold_right (fun c a => (case_outside_D c + a)%nat) 0%nat cases].\nPrint outside_D.\n" +
	"Definition strict_bad := Eval vm_compute in [length (bad_indices case_spec_strict_ok cases 0)].\nPrint strict_bad.\n"

func main() {
	out := flag.String("out", "", "output prefix for .v files")
	side := flag.String("jsonl", "", "output side file")
	seed := flag.Int64("seed", 1, "PRNG seed")
	nrand := flag.Int("random", 400, "number of random cases")
	nvar := flag.Int("variants", 150, "number of cases of each variant stream (multi-loc, symlink, cancel)")
	exh := flag.Int("exh", 3, "exhaustive histories up to this many layers (0 = none)")
	part := flag.Int("part", 0, "this part")
	parts := flag.Int("parts", 1, "number of parts (cases are dealt round-robin)")
	per := flag.Int("per", 200, "cases per generated .v file")
	replay := flag.String("replay", "", "replay a JSON case file")
	flag.Parse()
	log.SetLogger(silent{})
	if os.Getenv("TMPDIR") == "" {
		if st, err := os.Stat("/dev/shm"); err == nil && st.IsDir() {
			os.Setenv("TMPDIR", "/dev/shm")
		}
	}
	if *replay != "" {
		b, err := os.ReadFile(*replay)
		must(err)
		var wrap struct {
			Case Case `json:"case"`
		}
		must(json.Unmarshal(b, &wrap))
		c := wrap.Case
		runCase(&c)
		js, _ := json.Marshal(c)
		fmt.Printf("implementation: %s\n", js)
		fmt.Printf("coq-case: %s\n", coqCase(&c))
		return
	}
	r := rand.New(rand.NewSource(*seed))
	var all []*Case
	all = append(all, genExhaustive(*exh)...)
	all = append(all, genRandom(r, *nrand)...)
	for _, kind := range []string{"multi-loc", "symlink", "cancel"} {
		all = append(all, genVariant(r, *nvar, kind)...)
	}
	all = append(all, genSameLength(r, *nvar)...)
	var cases []*Case
	for i, c := range all {
		if i%*parts == *part {
			cases = append(cases, c)
		}
	}
	sf, err := os.Create(*side)
	must(err)
	defer sf.Close()
	enc := json.NewEncoder(sf)
	var items []string
	streams := map[string]int{}
	npk := 0
	for _, c := range cases {
		runCase(c)
		must(enc.Encode(c))
		items = append(items, coqCase(c))
		streams[c.Stream]++
		npk += len(c.Obs)
	}
	var fnames []string
	for k := 0; k**per < len(items) || k == 0; k++ {
		hi := min((k+1)**per, len(items))
		var sb strings.Builder
		sb.WriteString(header)
		sb.WriteString(cf.Chunked("cases", "tcase", items[k**per:hi], 100))
		sb.WriteString(footer)
		f := fmt.Sprintf("%s_%d.v", *out, k)
		must(os.WriteFile(f, []byte(sb.String()), 0o644))
		fnames = append(fnames, f)
	}
	keys := make([]string, 0, len(streams))
	for k := range streams {
		keys = append(keys, k)
	}
	sort.Strings(keys)
	js, _ := json.Marshal(map[string]any{"cases": len(cases), "packages_traced": npk, "streams": streams, "files": fnames, "per_file": *per})
	fmt.Printf("summary: %s\n", js)
}

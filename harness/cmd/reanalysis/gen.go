package main

// Generator of dependency universes (deps.dev resolve/schema text), manifests, OSV records and
// remediation options for property C12. Everything is drawn from one *rand.Rand.

import (
	"fmt"
	"math/rand"
	"slices"
	"sort"
	"strings"

	"github.com/ossf/osv-schema/bindings/go/osvschema"
)

// Universe is one generated world.
type Universe struct {
	Sys      string              `json:"sys"` // "npm" | "maven"
	Schema   string              `json:"schema"`
	Manifest string              `json:"manifest"` // file content
	File     string              `json:"file"`     // package.json | pom.xml
	Vulns    []GenVuln           `json:"vulns"`
	Pkgs     []string            `json:"pkgs"`
	Versions map[string][]string `json:"versions"`
	Direct   []string            `json:"direct"`    // packages the manifest requires directly
	NameSafe bool                `json:"name_safe"` // no package name needs escaping in a gjson path (informational)
}

// GenVuln is a generated OSV record in a compact form.
type GenVuln struct {
	ID         string   `json:"id"`
	Aliases    []string `json:"aliases,omitempty"`
	Pkg        string   `json:"pkg"`
	Introduced string   `json:"introduced"`
	Fixed      string   `json:"fixed,omitempty"`
	Versions   []string `json:"versions,omitempty"`
	Severity   string   `json:"severity,omitempty"`     // top-level severity
	AffSev     string   `json:"aff_severity,omitempty"` // affected[].severity
}

// Opts is the option part of a case.
type Opts struct {
	Strategy        string   `json:"strategy"`
	Ignore          []string `json:"ignore"`
	Explicit        []string `json:"explicit"`
	DevDeps         bool     `json:"dev_deps"`
	MinSeverity     float64  `json:"min_severity"`
	MaxDepth        int      `json:"max_depth"`
	MaxUpgrades     int      `json:"max_upgrades"`
	NoIntroduce     bool     `json:"no_introduce"`
	MavenManagement bool     `json:"maven_management"`
	// Upgrade is the per-package upgrade.Config ("" = default level): major|minor|patch|none.
	Upgrade map[string]string `json:"upgrade,omitempty"`
}

var npmVersionPool = []string{"1.0.0", "1.0.1", "1.1.0", "1.2.0", "2.0.0", "2.0.1", "2.1.0", "3.0.0"}
var mavenVersionPool = []string{"1.0", "1.0.1", "1.1", "1.2", "2.0", "2.0.1", "2.1", "3.0"}

const (
	sevHigh = "CVSS:3.1/AV:N/AC:L/PR:N/UI:N/S:U/C:H/I:H/A:H" // 9.8
	sevMed  = "CVSS:3.1/AV:N/AC:H/PR:L/UI:R/S:U/C:L/I:L/A:L" // 4.6 (approx.)
	sevLow  = "CVSS:3.1/AV:L/AC:H/PR:H/UI:R/S:U/C:L/I:N/A:N" // 1.8 (approx.)
)

func pick[T any](r *rand.Rand, xs []T) T { return xs[r.Intn(len(xs))] }

func subsetOrdered(r *rand.Rand, xs []string, min int) []string {
	var out []string
	for _, x := range xs {
		if r.Intn(100) < 55 {
			out = append(out, x)
		}
	}
	for len(out) < min {
		x := pick(r, xs)
		found := false
		for _, y := range out {
			if y == x {
				found = true
			}
		}
		if !found {
			out = append(out, x)
		}
	}
	// keep pool order
	idx := map[string]int{}
	for i, x := range xs {
		idx[x] = i
	}
	sort.Slice(out, func(i, j int) bool { return idx[out[i]] < idx[out[j]] })
	return out
}

func npmReq(r *rand.Rand, v string) string {
	switch r.Intn(10) {
	case 0, 1, 2, 3:
		return "^" + v
	case 4, 5:
		return "~" + v
	case 6, 7:
		return v
	case 8:
		return ">=" + v
	default:
		return "*"
	}
}

func mavenReq(r *rand.Rand, v string, all []string) string {
	if r.Intn(10) < 8 {
		return v // soft requirement
	}
	// a range starting at v
	for i, x := range all {
		if x == v && i+1 < len(all) {
			return "[" + v + "," + all[len(all)-1] + "]"
		}
	}
	return "[" + v + ",)"
}

func genUniverse(r *rand.Rand, sys string, odd, deep bool) *Universe {
	u := &Universe{Sys: sys, Versions: map[string][]string{}, NameSafe: true}
	n := 3 + r.Intn(4)
	for i := 0; i < n; i++ {
		var name string
		if sys == "npm" {
			name = fmt.Sprintf("p%c", 'a'+i)
			if r.Intn(8) == 0 {
				name = "@sc/" + name
			}
			if odd && r.Intn(3) == 0 {
				// names that need escaping in a gjson path
				name = "p" + string(rune('a'+i)) + pick(r, []string{".io", ".io", "*x", "?y", ".a.b"})
				u.NameSafe = false
			}
		} else {
			name = fmt.Sprintf("org.g%d:a%c", i%2, 'a'+i)
		}
		u.Pkgs = append(u.Pkgs, name)
		pool := npmVersionPool
		if sys == "maven" {
			pool = mavenVersionPool
		}
		u.Versions[name] = subsetOrdered(r, pool, 2)
	}
	edgeP := 35
	if deep {
		edgeP = 55
	}
	var sb strings.Builder
	for i, p := range u.Pkgs {
		sb.WriteString(p + "\n")
		for _, v := range u.Versions[p] {
			sb.WriteString("\t" + v + "\n")
			// dependencies only on later packages: acyclic
			for j := i + 1; j < n; j++ {
				if r.Intn(100) < edgeP {
					q := u.Pkgs[j]
					base := pick(r, u.Versions[q])
					var req string
					if sys == "npm" {
						req = npmReq(r, base)
					} else {
						req = mavenReq(r, base, u.Versions[q])
					}
					sb.WriteString("\t\t" + q + "@" + req + "\n")
				}
			}
		}
	}
	u.Schema = sb.String()

	// manifest: direct requirements on 1..4 packages, biased to low versions (so that upgrades exist)
	nd := 1 + r.Intn(min(4, n))
	perm := r.Perm(n)[:nd]
	sort.Ints(perm)
	var direct []string
	for _, i := range perm {
		direct = append(direct, u.Pkgs[i])
	}
	u.Direct = direct
	if sys == "npm" {
		u.File = "package.json"
		deps := map[string][][2]string{}
		for _, i := range perm {
			p := u.Pkgs[i]
			vs := u.Versions[p]
			base := vs[r.Intn((len(vs)+1)/2)]
			req := npmReq(r, base)
			if req == "*" || strings.HasPrefix(req, ">=") {
				req = "^" + base
			}
			sec := "dependencies"
			switch r.Intn(10) {
			case 0, 1:
				sec = "devDependencies"
			case 2:
				sec = "optionalDependencies"
			}
			name := p
			if r.Intn(12) == 0 {
				name = "alias-" + strings.Trim(strings.ReplaceAll(strings.ReplaceAll(p, "/", "-"), "@", ""), "-")
				req = "npm:" + p + "@" + req
			}
			deps[sec] = append(deps[sec], [2]string{name, req})
			if sec == "dependencies" && r.Intn(15) == 0 {
				deps["devDependencies"] = append(deps["devDependencies"], [2]string{name, req})
			}
		}
		var ms strings.Builder
		ms.WriteString("{\n  \"name\": \"root\",\n  \"version\": \"1.0.0\"")
		for _, sec := range []string{"dependencies", "devDependencies", "optionalDependencies"} {
			if len(deps[sec]) == 0 {
				continue
			}
			ms.WriteString(",\n  \"" + sec + "\": {\n")
			for k, d := range deps[sec] {
				if k > 0 {
					ms.WriteString(",\n")
				}
				fmt.Fprintf(&ms, "    %q: %q", d[0], d[1])
			}
			ms.WriteString("\n  }")
		}
		ms.WriteString("\n}\n")
		u.Manifest = ms.String()
	} else {
		u.File = "pom.xml"
		var depsX, mgmtX, props strings.Builder
		pn := 0
		for _, i := range perm {
			p := u.Pkgs[i]
			ga := strings.Split(p, ":")
			vs := u.Versions[p]
			base := vs[r.Intn((len(vs)+1)/2)]
			ver := base
			if r.Intn(6) == 0 {
				pn++
				prop := fmt.Sprintf("dep%d.version", pn)
				fmt.Fprintf(&props, "    <%s>%s</%s>\n", prop, base, prop)
				ver = "${" + prop + "}"
			}
			scope := ""
			if r.Intn(6) == 0 {
				scope = "      <scope>test</scope>\n"
			}
			switch r.Intn(10) {
			case 0: // version only in dependencyManagement
				fmt.Fprintf(&depsX, "    <dependency>\n      <groupId>%s</groupId>\n      <artifactId>%s</artifactId>\n%s    </dependency>\n", ga[0], ga[1], scope)
				fmt.Fprintf(&mgmtX, "      <dependency>\n        <groupId>%s</groupId>\n        <artifactId>%s</artifactId>\n        <version>%s</version>\n      </dependency>\n", ga[0], ga[1], ver)
			case 1: // only managed (not a dependency of this pom)
				fmt.Fprintf(&mgmtX, "      <dependency>\n        <groupId>%s</groupId>\n        <artifactId>%s</artifactId>\n        <version>%s</version>\n      </dependency>\n", ga[0], ga[1], ver)
			case 2: // the same version both as a dependency and in dependencyManagement (two requirements, one key)
				fmt.Fprintf(&depsX, "    <dependency>\n      <groupId>%s</groupId>\n      <artifactId>%s</artifactId>\n      <version>%s</version>\n%s    </dependency>\n", ga[0], ga[1], ver, scope)
				fmt.Fprintf(&mgmtX, "      <dependency>\n        <groupId>%s</groupId>\n        <artifactId>%s</artifactId>\n        <version>%s</version>\n      </dependency>\n", ga[0], ga[1], ver)
			default:
				fmt.Fprintf(&depsX, "    <dependency>\n      <groupId>%s</groupId>\n      <artifactId>%s</artifactId>\n      <version>%s</version>\n%s    </dependency>\n", ga[0], ga[1], ver, scope)
			}
		}
		var ms strings.Builder
		ms.WriteString("<project>\n  <modelVersion>4.0.0</modelVersion>\n  <groupId>org.root</groupId>\n  <artifactId>root</artifactId>\n  <version>1.0.0</version>\n")
		if props.Len() > 0 {
			ms.WriteString("  <properties>\n" + props.String() + "  </properties>\n")
		}
		if mgmtX.Len() > 0 {
			ms.WriteString("  <dependencyManagement>\n    <dependencies>\n" + mgmtX.String() + "    </dependencies>\n  </dependencyManagement>\n")
		}
		ms.WriteString("  <dependencies>\n" + depsX.String() + "  </dependencies>\n</project>\n")
		u.Manifest = ms.String()
	}

	// vulnerabilities: 1..5 records; IDs drawn so that their sort order is unrelated to creation order
	nv := 1 + r.Intn(5)
	seen := map[string]bool{}
	for k := 0; k < nv; k++ {
		id := fmt.Sprintf("V-%03d", r.Intn(900)+100)
		if seen[id] {
			continue
		}
		seen[id] = true
		p := pick(r, u.Pkgs)
		bias := 6
		if sys == "maven" {
			bias = 4 // more transitive hits: the override strategy then adds dependencyManagement entries
		}
		if deep {
			bias = 1 // vulnerabilities mostly below the direct dependencies
		}
		if r.Intn(10) < bias {
			p = pick(r, direct) // mostly in what the manifest asks for, so that it is reached
		}
		vs := u.Versions[p]
		gv := GenVuln{ID: id, Pkg: p, Introduced: "0"}
		switch r.Intn(10) {
		case 0, 1, 2, 3, 4: // everything below some version
			gv.Fixed = vs[1+r.Intn(len(vs)-1)]
		case 5, 6: // only from some version on (a candidate for "introduced")
			gv.Introduced = vs[1+r.Intn(len(vs)-1)]
		case 7: // a window
			a := r.Intn(len(vs))
			gv.Introduced = vs[a]
			if a+1 < len(vs) {
				gv.Fixed = vs[a+1+r.Intn(len(vs)-a-1)]
			}
		case 8: // never fixed
		default: // explicit version list
			gv.Introduced = ""
			gv.Versions = subsetOrdered(r, vs, 1)
		}
		if r.Intn(4) == 0 {
			gv.Aliases = []string{fmt.Sprintf("CVE-%d", 2000+r.Intn(30))}
			if r.Intn(5) == 0 && len(u.Vulns) > 0 {
				gv.Aliases = append(gv.Aliases, u.Vulns[0].ID) // alias naming another record
			}
		}
		switch r.Intn(9) {
		case 0:
			gv.Severity = sevHigh
		case 1:
			gv.Severity = sevMed
		case 2:
			gv.Severity = sevLow
		case 3: // only a per-affected severity: matchSeverity falls back to it
			gv.AffSev = pick(r, []string{sevHigh, sevMed, sevLow})
		case 4: // a severity that does not parse
			gv.Severity = "CVSS:3.1/AV:N/nonsense"
			if r.Intn(2) == 0 {
				gv.AffSev = sevHigh // not consulted: there is a top-level entry
			}
		}
		u.Vulns = append(u.Vulns, gv)
	}
	return u
}

func (u *Universe) osv() []*osvschema.Vulnerability {
	eco := "npm"
	rt := osvschema.RangeSemVer
	if u.Sys == "maven" {
		eco = "Maven"
		rt = osvschema.RangeEcosystem
	}
	var out []*osvschema.Vulnerability
	for _, g := range u.Vulns {
		v := &osvschema.Vulnerability{ID: g.ID, Aliases: g.Aliases}
		a := osvschema.Affected{Package: osvschema.Package{Ecosystem: eco, Name: g.Pkg}, Versions: g.Versions}
		if g.Introduced != "" {
			rg := osvschema.Range{Type: rt, Events: []osvschema.Event{{Introduced: g.Introduced}}}
			if g.Fixed != "" {
				rg.Events = append(rg.Events, osvschema.Event{Fixed: g.Fixed})
			}
			a.Ranges = []osvschema.Range{rg}
		}
		if g.AffSev != "" {
			a.Severity = []osvschema.Severity{{Type: osvschema.SeverityCVSSV3, Score: g.AffSev}}
		}
		v.Affected = []osvschema.Affected{a}
		if g.Severity != "" {
			v.Severity = []osvschema.Severity{{Type: osvschema.SeverityCVSSV3, Score: g.Severity}}
		}
		out = append(out, v)
	}
	return out
}

func genOpts(r *rand.Rand, u *Universe, explicitStream, pinnedStream bool) Opts {
	o := Opts{DevDeps: r.Intn(4) != 0, MaxDepth: -1, MaxUpgrades: 1}
	if u.Sys == "npm" {
		o.Strategy = "relax"
	} else {
		o.Strategy = "override"
		o.MavenManagement = r.Intn(3) == 0
	}
	var ids, names []string
	for _, v := range u.Vulns {
		ids = append(ids, v.ID)
		names = append(names, v.ID)
		names = append(names, v.Aliases...)
	}
	if r.Intn(4) == 0 {
		k := 1 + r.Intn(2)
		for i := 0; i < k; i++ {
			o.Ignore = append(o.Ignore, pick(r, names))
		}
	}
	if explicitStream {
		k := 1 + r.Intn(len(ids))
		for _, i := range r.Perm(len(ids))[:k] {
			o.Explicit = append(o.Explicit, ids[i])
		}
		if r.Intn(6) == 0 {
			o.Explicit = append(o.Explicit, "V-NOT-THERE")
		}
	}
	switch r.Intn(8) {
	case 0, 1:
		o.MaxDepth = 1
	case 2:
		o.MaxDepth = 2
	case 3:
		o.MaxDepth = 0
	}
	switch r.Intn(10) {
	case 0:
		o.MinSeverity = 5.0
	case 1:
		o.MinSeverity = 9.0
	case 2:
		o.MinSeverity = 9.8 // exactly the high score
	case 3:
		o.MinSeverity = 9.84 // rounds to 9.8
	}
	o.NoIntroduce = r.Intn(4) == 0
	// per-package upgrade levels, on direct and transitive packages alike; vulnerable packages
	// are pinned (none) on purpose now and then: the strategies consult the level of the
	// requirement they change, which need not be the vulnerable package
	if r.Intn(100) < 40 {
		o.Upgrade = map[string]string{}
		levels := []string{"none", "none", "patch", "minor", "major"}
		for k := 1 + r.Intn(3); k > 0; k-- {
			p := pick(r, u.Pkgs)
			if r.Intn(2) == 0 && len(u.Vulns) > 0 {
				p = pick(r, u.Vulns).Pkg
			}
			o.Upgrade[p] = pick(r, levels)
		}
		if r.Intn(6) == 0 {
			o.Upgrade[""] = pick(r, []string{"minor", "patch", "none"})
		}
	}
	if pinnedStream {
		// every vulnerable package that the manifest does not require directly is pinned, the
		// direct dependencies stay upgradable: a fix can only come from changing a parent
		o.Upgrade = map[string]string{}
		for _, v := range u.Vulns {
			if !slices.Contains(u.Direct, v.Pkg) {
				o.Upgrade[v.Pkg] = "none"
			}
		}
		o.Explicit = nil
		o.MinSeverity = 0
		o.MaxDepth = -1
	}
	switch r.Intn(10) {
	case 0:
		o.MaxUpgrades = 0
	case 1:
		o.MaxUpgrades = 2
	case 2:
		o.MaxUpgrades = -1
	}
	return o
}

// genDevFlip builds, on purpose, the situation in which a vulnerability is filtered out of the
// first analysis (reached through a dev dependency only, DevDeps=false) but passes the filter in
// the patched graph (the upgraded production dependency starts to depend on the same package):
// the report must list it as introduced and the fresh analysis must find it.
func genDevFlip(r *rand.Rand) (*Universe, Opts) {
	a, d, p := "pa", "pd", "pp"
	if r.Intn(2) == 0 {
		a, d, p = "@sc/qa", "qd", "qp"
	}
	vp := pick(r, []string{"1.0.0", "1.2.0", "2.0.0"})
	hi := pick(r, []string{"2.0.0", "2.1.0", "3.0.0"})
	var sb strings.Builder
	fmt.Fprintf(&sb, "%s\n\t1.0.0\n\t%s\n\t\t%s@%s\n", a, hi, p, vp)
	fmt.Fprintf(&sb, "%s\n\t1.0.0\n\t\t%s@%s\n", d, p, vp)
	fmt.Fprintf(&sb, "%s\n\t%s\n", p, vp)
	u := &Universe{Sys: "npm", File: "package.json", NameSafe: true, Schema: sb.String(),
		Pkgs: []string{a, d, p}, Versions: map[string][]string{a: {"1.0.0", hi}, d: {"1.0.0"}, p: {vp}}, Direct: []string{a, d}}
	u.Manifest = fmt.Sprintf("{\n  \"name\": \"root\",\n  \"version\": \"1.0.0\",\n  \"dependencies\": {\n    %q: \"^1.0.0\"\n  },\n  \"devDependencies\": {\n    %q: \"^1.0.0\"\n  }\n}\n", a, d)
	idA := fmt.Sprintf("V-%03d", 100+r.Intn(400))
	idP := fmt.Sprintf("V-%03d", 500+r.Intn(400))
	u.Vulns = []GenVuln{{ID: idA, Pkg: a, Introduced: "0", Fixed: hi}, {ID: idP, Pkg: p, Introduced: "0"}}
	o := Opts{Strategy: "relax", DevDeps: false, MaxDepth: -1, MaxUpgrades: pick(r, []int{1, 1, 0}), NoIntroduce: r.Intn(4) == 0}
	return u, o
}

// genAliasTwin: one real npm package required twice or three times - under its own name and under
// one or two aliases - at different ranges, the vulnerable version reachable through only one of
// them, in dependencies and devDependencies. Relaxing the vulnerable requirement must change that
// requirement (same package AND same alias), in memory and on disk.
func genAliasTwin(r *rand.Rand) (*Universe, Opts) {
	p := pick(r, []string{"pa", "lib", "@sc/pm"})
	other := "pq"
	vers := []string{"1.0.0", "1.1.0", "2.0.0", "2.0.1", "2.1.0", "3.0.0"}
	var sb strings.Builder
	sb.WriteString(p + "\n")
	for _, v := range vers {
		sb.WriteString("\t" + v + "\n")
	}
	sb.WriteString(other + "\n\t1.0.0\n\t2.0.0\n")
	u := &Universe{Sys: "npm", File: "package.json", NameSafe: true, Schema: sb.String(),
		Pkgs: []string{p, other}, Versions: map[string][]string{p: vers, other: {"1.0.0", "2.0.0"}}, Direct: []string{p, other}}
	// two or three requirement slots for the one package: its own name and aliases that sort
	// before and after it; every slot has its own range, so the copies resolve to different versions
	names := []string{p, "a-" + strings.Trim(strings.ReplaceAll(p, "/", "-"), "@") + "-legacy", "zz-alias"}
	n := 2 + r.Intn(2)
	slots := r.Perm(3)[:n]
	ranges := []string{"1.0.0", "^1.0.0", "~1.0.0", "~2.0.0", "^2.0.0", "2.0.0", "^3.0.0", "3.0.0"}
	secs := map[string][]string{}
	// the copies are spread over dependencies, devDependencies and optionalDependencies (since fix
	// a65362a4 the reader keeps one requirement per package + alias whatever the section)
	used := map[string]bool{}
	for _, s := range slots {
		req := pick(r, ranges)
		for used[req] {
			req = pick(r, ranges)
		}
		used[req] = true
		if names[s] != p {
			req = "npm:" + p + "@" + req
		}
		twinSec := pick(r, []string{"dependencies", "dependencies", "devDependencies", "optionalDependencies"})
		secs[twinSec] = append(secs[twinSec], fmt.Sprintf("    %q: %q", names[s], req))
	}
	if r.Intn(2) == 0 {
		otherSec := pick(r, []string{"dependencies", "devDependencies"})
		secs[otherSec] = append(secs[otherSec], fmt.Sprintf("    %q: %q", other, "^1.0.0"))
	}
	var ms strings.Builder
	ms.WriteString("{\n  \"name\": \"root\",\n  \"version\": \"1.0.0\"")
	for _, sec := range []string{"dependencies", "devDependencies", "optionalDependencies"} {
		if len(secs[sec]) > 0 {
			ms.WriteString(",\n  \"" + sec + "\": {\n" + strings.Join(secs[sec], ",\n") + "\n  }")
		}
	}
	ms.WriteString("\n}\n")
	u.Manifest = ms.String()
	// vulnerabilities in disjoint version windows, so that each copy can have its own
	pool := []GenVuln{
		{Pkg: p, Introduced: "0", Fixed: "1.1.0"},
		{Pkg: p, Introduced: "0", Fixed: "2.0.0"},
		{Pkg: p, Introduced: "2.0.0", Fixed: "2.1.0"},
		{Pkg: p, Introduced: "2.0.0", Fixed: "3.0.0"},
		{Pkg: p, Introduced: "1.0.0", Fixed: ""}, // never fixed
		{Pkg: other, Introduced: "0", Fixed: "2.0.0"},
	}
	for _, i := range r.Perm(len(pool))[:1+r.Intn(3)] {
		v := pool[i]
		v.ID = fmt.Sprintf("V-%03d", 100+r.Intn(800))
		if i == 4 {
			v.Introduced, v.Versions = "", []string{"1.0.0"}
		}
		u.Vulns = append(u.Vulns, v)
	}
	o := Opts{Strategy: "relax", DevDeps: r.Intn(4) != 0, MaxDepth: -1, MaxUpgrades: pick(r, []int{1, 1, 0})}
	return u, o
}

// genMavenTestScope: a pom with a compile-scope dependency that has a fixable vulnerability and a
// test-scope dependency whose subtree holds another one; DevDeps on or off. With DevDeps off the
// test-only vulnerability is outside the analysis - in the original graph and in every patched one.
func genMavenTestScope(r *rand.Rand) (*Universe, Opts) {
	a, t, p := "org.g:aa", "org.g:tt", "org.g:pp"
	deep := r.Intn(3) != 0 // the vulnerable package is below the test dependency, or is the test dependency itself
	var sb strings.Builder
	sb.WriteString(a + "\n\t1.0\n\t1.1\n\t2.0\n")
	if deep {
		sb.WriteString(t + "\n\t1.0\n\t\t" + p + "@1.0\n")
		sb.WriteString(p + "\n\t1.0\n\t2.0\n")
	} else {
		sb.WriteString(t + "\n\t1.0\n\t2.0\n")
	}
	u := &Universe{Sys: "maven", File: "pom.xml", NameSafe: true, Schema: sb.String(), Pkgs: []string{a, t, p},
		Versions: map[string][]string{a: {"1.0", "1.1", "2.0"}, t: {"1.0"}, p: {"1.0", "2.0"}}, Direct: []string{a, t}}
	dep := func(name, ver, scope string) string {
		ga := strings.Split(name, ":")
		s := fmt.Sprintf("    <dependency>\n      <groupId>%s</groupId>\n      <artifactId>%s</artifactId>\n      <version>%s</version>\n", ga[0], ga[1], ver)
		if scope != "" {
			s += "      <scope>" + scope + "</scope>\n"
		}
		return s + "    </dependency>\n"
	}
	deps := []string{dep(a, "1.0", ""), dep(t, "1.0", "test")}
	if r.Intn(2) == 0 {
		deps[0], deps[1] = deps[1], deps[0]
	}
	u.Manifest = "<project>\n  <modelVersion>4.0.0</modelVersion>\n  <groupId>org.root</groupId>\n  <artifactId>root</artifactId>\n  <version>1.0.0</version>\n  <dependencies>\n" +
		strings.Join(deps, "") + "  </dependencies>\n</project>\n"
	vt := t
	if deep {
		vt = p
	}
	idA := fmt.Sprintf("V-%03d", 100+r.Intn(400))
	idT := fmt.Sprintf("V-%03d", 500+r.Intn(400))
	u.Vulns = []GenVuln{{ID: idA, Pkg: a, Introduced: "0", Fixed: pick(r, []string{"1.1", "2.0"})}, {ID: idT, Pkg: vt, Introduced: "0"}}
	if r.Intn(3) == 0 {
		u.Vulns[1].Fixed = "2.0"
	}
	o := Opts{Strategy: "override", DevDeps: r.Intn(3) == 0, MaxDepth: -1, MaxUpgrades: pick(r, []int{1, 1, 0}), NoIntroduce: r.Intn(3) == 0,
		MavenManagement: r.Intn(3) == 0}
	return u, o
}

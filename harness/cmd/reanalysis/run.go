package main

// The two-run protocol of property C12 on one generated case.
//   trace : the hook re-runs the halves of doStrategy on a copy of the manifest (first analysis,
//           the strategy's candidate patches, the re-analysis of each candidate in memory)
//   run 1 : the real guidedremediation.FixVulns on the manifest file (writes it)
//   run 2 : a fresh analysis of the written file with the options the user gave (hook), and a
//           literal second FixVulns on a copy of the written file

import (
	"context"
	"fmt"
	"math"
	"os"
	"path/filepath"
	"slices"
	"sort"
	"strings"
	"time"

	"deps.dev/util/resolve"
	"deps.dev/util/resolve/dep"
	"deps.dev/util/resolve/schema"
	"github.com/google/osv-scalibr/extractor"
	gr "github.com/google/osv-scalibr/guidedremediation"
	"github.com/google/osv-scalibr/guidedremediation/options"
	"github.com/google/osv-scalibr/guidedremediation/result"
	"github.com/google/osv-scalibr/guidedremediation/strategy"
	"github.com/google/osv-scalibr/guidedremediation/upgrade"
	"github.com/ossf/osv-schema/bindings/go/osvschema"
)

// freshClient gives every caller its own slices, as the network-backed clients of
// clients/resolution do. deps.dev's resolve.LocalClient hands out its internal slices and the
// deps.dev Maven resolver sorts and reverses what Versions() returns IN PLACE; with the patch
// attempts of common.ComputePatches running concurrently that is a data race on the universe
// itself (seen by this harness under -race; reported to the C16 builder). The property is about
// universes that do not change while they are analysed, so the universe is served read-only.
type freshClient struct{ resolve.Client }

func (c freshClient) Versions(ctx context.Context, pk resolve.PackageKey) ([]resolve.Version, error) {
	vs, err := c.Client.Versions(ctx, pk)
	return slices.Clone(vs), err
}

func (c freshClient) MatchingVersions(ctx context.Context, vk resolve.VersionKey) ([]resolve.Version, error) {
	// LocalClient.MatchingVersions sorts its internal slice for npm (matchNPMRequirement); the
	// universe is generated in sorted order, so that sort never moves anything.
	vs, err := c.Client.MatchingVersions(ctx, vk)
	return slices.Clone(vs), err
}

func (c freshClient) Requirements(ctx context.Context, vk resolve.VersionKey) ([]resolve.RequirementVersion, error) {
	rs, err := c.Client.Requirements(ctx, vk)
	return slices.Clone(rs), err
}

type memMatcher []*osvschema.Vulnerability

func (m memMatcher) MatchVulnerabilities(_ context.Context, pkgs []*extractor.Package) ([][]*osvschema.Vulnerability, error) {
	out := make([][]*osvschema.Vulnerability, len(pkgs))
	for i, p := range pkgs {
		for _, v := range m {
			if gr.VerifIsAffected(v, p) {
				out[i] = append(out[i], v)
			}
		}
	}
	return out, nil
}

// Req is a requirement with its type rendered.
type Req struct {
	Name    string `json:"name"`
	Version string `json:"version"`
	Type    string `json:"type"`   // canonical rendering of dep.Type
	TK      string `json:"tk"`     // key-relevant part
	Origin  string `json:"origin"` // MavenDependencyOrigin ("" when absent)
	typ     dep.Type
}

// FV is a found vulnerability with the filter answers.
type FV struct {
	ID       string      `json:"id"`
	Aliases  []string    `json:"aliases,omitempty"`
	DevOnly  bool        `json:"dev_only"`
	SevOK    bool        `json:"sev_ok"`
	DepthOK  bool        `json:"depth_ok"`
	Matched  bool        `json:"matched"`
	Packages [][2]string `json:"packages"`
	Nodes    []int       `json:"nodes"`      // subgraph end nodes
	RootDist []int       `json:"root_dist"`  // distance of the root in each subgraph
	Top      []*int64    `json:"top_scores"` // round(10*score) per top-level severity, null = unparsable
	Aff      []*int64    `json:"aff_scores"` // ... per fallback (affected[]) severity
}

// Analysis mirrors gr.VerifC12Analysis in plain data.
type Analysis struct {
	Reqs        []Req    `json:"reqs"`
	All         []FV     `json:"all"`
	Kept        []string `json:"kept"`
	IgnoreAfter []string `json:"ignore_after"`
	NumNodes    int      `json:"num_nodes"`
	Edges       [][2]int `json:"edges"`
}

// Upd / Vuln / Patch mirror the result package.
type Upd struct {
	Name       string `json:"name"`
	From       string `json:"from"`
	To         string `json:"to"`
	Transitive bool   `json:"transitive"`
	Type       string `json:"type"`
	TK         string `json:"tk"`
	Origin     string `json:"origin"`
	typ        dep.Type
}
type Vuln struct {
	ID           string      `json:"id"`
	Packages     [][2]string `json:"packages"`
	Unactionable bool        `json:"unactionable,omitempty"`
}
type Patch struct {
	Updates    []Upd  `json:"updates"`
	Fixed      []Vuln `json:"fixed"`
	Introduced []Vuln `json:"introduced"`
}

// Cand is the in-memory re-analysis of one candidate patch.
type Cand struct {
	Analysis      Analysis `json:"analysis"`
	Reconstructed Patch    `json:"reconstructed"` // ConstructPatches(original, re-analysed candidate)
	Err           string   `json:"err,omitempty"`
}

// TwoRun is everything observed for one case.
type TwoRun struct {
	Universe *Universe `json:"universe"`
	Opts     Opts      `json:"opts"`

	TraceErr   string   `json:"trace_err,omitempty"`
	A0         Analysis `json:"a0"`
	AllPatches []Patch  `json:"all_patches"`
	Cands      []Cand   `json:"cands"`

	Run1Err      string  `json:"run1_err,omitempty"`
	ResVulns     []Vuln  `json:"res_vulns"`
	ResPatches   []Patch `json:"res_patches"`
	TraceRetries int     `json:"trace_retries"` // extra trace executions needed to reproduce run 1's candidate list
	Hung         bool    `json:"hung,omitempty"`
	// LoadInducedTimeout: the case missed the watchdog but returned within the confirmation deadline
	LoadInducedTimeout bool `json:"load_induced_timeout,omitempty"`
	TraceAgrees        bool `json:"trace_agrees"` // run 1 == choosePatches/computeVulnsResult on the traced inputs
	BytesChanged       bool `json:"bytes_changed"`

	Run2Err   string   `json:"run2_err,omitempty"`
	A2        Analysis `json:"a2"`
	Rerun     []string `json:"rerun_ids"`     // IDs a fresh analysis of the written file reports
	RerunFix  []string `json:"rerun_fix_ids"` // IDs in Result.Vulnerabilities of a second FixVulns on a copy
	Run2bErr  string   `json:"run2b_err,omitempty"`
	OptsAfter []string `json:"caller_ignore_after"` // the caller's IgnoreVulns slice after run 1 (must be unchanged)
}

func sysOf(s string) resolve.System {
	if s == "maven" {
		return resolve.Maven
	}
	return resolve.NPM
}

func typeParts(sys resolve.System, t dep.Type) (rendered, tk, origin string) {
	rendered = t.String()
	if sys == resolve.NPM {
		ka, _ := t.GetAttr(dep.KnownAs)
		tk = ka
	} else {
		at, _ := t.GetAttr(dep.MavenArtifactType)
		cl, _ := t.GetAttr(dep.MavenClassifier)
		if at != "" || cl != "" {
			tk = at + "|" + cl
		}
	}
	origin, _ = t.GetAttr(dep.MavenDependencyOrigin)
	return
}

func convReqs(sys resolve.System, rs []resolve.RequirementVersion) []Req {
	out := make([]Req, 0, len(rs))
	for _, r := range rs {
		s, tk, o := typeParts(sys, r.Type)
		out = append(out, Req{Name: r.Name, Version: r.Version, Type: s, TK: tk, Origin: o, typ: r.Type})
	}
	return out
}

func convPkgs(ps []result.Package) [][2]string {
	out := make([][2]string, 0, len(ps))
	for _, p := range ps {
		out = append(out, [2]string{p.Name, p.Version})
	}
	return out
}

func convVulns(vs []result.Vuln) []Vuln {
	out := make([]Vuln, 0, len(vs))
	for _, v := range vs {
		out = append(out, Vuln{ID: v.ID, Packages: convPkgs(v.Packages), Unactionable: v.Unactionable})
	}
	return out
}

func convPatch(sys resolve.System, p result.Patch) Patch {
	var out Patch
	for _, u := range p.PackageUpdates {
		s, tk, o := typeParts(sys, u.Type)
		out.Updates = append(out.Updates, Upd{Name: u.Name, From: u.VersionFrom, To: u.VersionTo, Transitive: u.Transitive, Type: s, TK: tk, Origin: o, typ: u.Type})
	}
	out.Fixed = convVulns(p.Fixed)
	out.Introduced = convVulns(p.Introduced)
	return out
}

func convPatches(sys resolve.System, ps []result.Patch) []Patch {
	out := make([]Patch, 0, len(ps))
	for _, p := range ps {
		out = append(out, convPatch(sys, p))
	}
	return out
}

func convAnalysis(sys resolve.System, a *gr.VerifC12Analysis) Analysis {
	var out Analysis
	out.Reqs = convReqs(sys, a.Reqs)
	for _, v := range a.All {
		out.All = append(out.All, FV{ID: v.ID, Aliases: v.Aliases, DevOnly: v.DevOnly, SevOK: v.SevOK, DepthOK: v.DepthOK, Matched: v.Matched, Packages: convPkgs(v.Packages),
			Nodes: v.Nodes, RootDist: v.RootDist, Top: tenths(v.TopScores), Aff: tenths(v.AffScores)})
	}
	out.NumNodes = a.NumNodes
	out.Edges = a.Edges
	out.Kept = slices.Clone(a.Kept)
	out.IgnoreAfter = slices.Clone(a.IgnoreAfter)
	return out
}

// tenths is round(10*score), the quantity matchSeverity compares (math.Round as in match.go).
func tenths(ss []gr.VerifC12Score) []*int64 {
	out := make([]*int64, 0, len(ss))
	for _, s := range ss {
		if !s.Valid {
			out = append(out, nil)
			continue
		}
		t := int64(math.Round(10 * s.Score))
		out = append(out, &t)
	}
	return out
}

func (o Opts) remediation() options.RemediationOptions {
	ro := options.DefaultRemediationOptions()
	ro.IgnoreVulns = slices.Clone(o.Ignore)
	ro.ExplicitVulns = slices.Clone(o.Explicit)
	ro.DevDeps = o.DevDeps
	ro.MinSeverity = o.MinSeverity
	ro.MaxDepth = o.MaxDepth
	ro.UpgradeConfig = upgrade.NewConfig()
	for p, l := range o.Upgrade {
		switch l {
		case "major":
			ro.UpgradeConfig.Set(p, upgrade.Major)
		case "minor":
			ro.UpgradeConfig.Set(p, upgrade.Minor)
		case "patch":
			ro.UpgradeConfig.Set(p, upgrade.Patch)
		case "none":
			ro.UpgradeConfig.Set(p, upgrade.None)
		}
	}
	ro.MavenManagement = o.MavenManagement
	return ro
}

func patchesEqual(a, b []Patch) bool {
	return fmt.Sprintf("%+v", stripTypes(a)) == fmt.Sprintf("%+v", stripTypes(b))
}

func stripTypes(ps []Patch) []Patch {
	out := make([]Patch, len(ps))
	for i, p := range ps {
		q := Patch{Fixed: p.Fixed, Introduced: p.Introduced}
		for _, u := range p.Updates {
			u.typ = dep.Type{}
			q.Updates = append(q.Updates, u)
		}
		out[i] = q
	}
	return out
}

func sortedCopy(xs []string) []string {
	out := slices.Clone(xs)
	sort.Strings(out)
	return out
}

// runTwoRun executes the protocol. dir is a scratch directory owned by the caller.
// hangs counts the cases confirmed (or, after the first confirmation, taken) not to come back;
// their goroutines keep spinning.
var hangs int

var (
	watchdog        = 30 * time.Second
	confirmDeadline = 10 * watchdog
)

// runTwoRun runs the protocol under a watchdog, so that a remediation call that does not return is
// recorded instead of stalling the harness.
//
// Missing the 30 s watchdog only makes a case a CANDIDATE: on a starved machine a case that takes
// milliseconds can miss it. The harness runs its cases one after the other, so nothing else of it
// is running while it waits: the candidate is confirmed by letting this one execution go on, alone,
// until ten times the watchdog (300 s). If it returns in that time the timeout was load-induced
// (LoadInducedTimeout, counted in the evidence) and its results are used like any other case's.
// Only an execution that is still not back after 300 s is reported (Hung). After the first confirmed
// case the tree under test is known not to terminate on some inputs: further candidates are taken at
// the plain watchdog, and after three the remaining cases of the run are skipped.
func runTwoRun(u *Universe, o Opts, dir string, maxCands int) *TwoRun {
	if hangs >= 3 {
		return &TwoRun{Universe: u, Opts: o, TraceErr: "skipped: three earlier cases did not return"}
	}
	ch := make(chan *TwoRun, 1)
	go func() { ch <- runTwoRunInner(u, o, dir, maxCands) }()
	select {
	case tr := <-ch:
		return tr
	case <-time.After(watchdog):
	}
	if hangs == 0 {
		select {
		case tr := <-ch:
			tr.LoadInducedTimeout = true
			return tr
		case <-time.After(confirmDeadline - watchdog):
		}
	}
	hangs++
	return &TwoRun{Universe: u, Opts: o, Hung: true, Run1Err: fmt.Sprintf("the two-run protocol did not return (watchdog %v, confirmation deadline %v for the first such case)", watchdog, confirmDeadline)}
}

func runTwoRunInner(u *Universe, o Opts, dir string, maxCands int) (tr *TwoRun) {
	tr = &TwoRun{Universe: u, Opts: o}
	ctx := context.Background()
	sys := sysOf(u.Sys)
	sch, err := schema.New(u.Schema, sys)
	if err != nil {
		tr.TraceErr = "schema: " + err.Error()
		return tr
	}
	var cl resolve.Client = freshClient{sch.NewClient()}
	vm := memMatcher(u.osv())
	strat := strategy.StrategyRelax
	if o.Strategy == "override" {
		strat = strategy.StrategyOverride
	}

	mk := func(sub string) string {
		d := filepath.Join(dir, sub)
		_ = os.MkdirAll(d, 0o755)
		p := filepath.Join(d, u.File)
		_ = os.WriteFile(p, []byte(u.Manifest), 0o644)
		return p
	}

	// ---- trace on a copy (repeatable)
	var wantV []Vuln
	var wantP []Patch
	doTrace := func() {
		tr.TraceErr, tr.AllPatches, tr.Cands = "", nil, nil
		defer func() {
			if r := recover(); r != nil {
				tr.TraceErr = fmt.Sprintf("panic: %v", r)
			}
		}()
		p := mk("trace")
		ro := o.remediation()
		a0, err := gr.VerifC12Analyze(ctx, cl, vm, p, "", &ro)
		if err != nil {
			tr.TraceErr = "analyze: " + err.Error()
			return
		}
		tr.A0 = convAnalysis(sys, a0)
		all, err := gr.VerifC12AllPatches(ctx, strat, cl, vm, a0, &ro)
		if err != nil {
			tr.TraceErr = "patches: " + err.Error()
			return
		}
		tr.AllPatches = convPatches(sys, all)
		for i, pt := range all {
			if i >= maxCands {
				break
			}
			var c Cand
			na, rec, err := gr.VerifC12Patched(ctx, cl, vm, a0, pt, &ro)
			if err != nil {
				c.Err = err.Error()
			} else {
				c.Analysis = convAnalysis(sys, na)
				c.Reconstructed = convPatch(sys, rec)
			}
			tr.Cands = append(tr.Cands, c)
		}
		// what doStrategy would report from these inputs
		wantV = convVulns(gr.VerifC12ComputeVulnsResult(a0, all))
		wantP = convPatches(sys, gr.VerifC12ChoosePatches(all, o.MaxUpgrades, o.NoIntroduce))
	}
	doTrace()

	// ---- run 1: the real FixVulns
	p1 := mk("run")
	callerIgnore := slices.Clone(o.Ignore)
	ro1 := o.remediation()
	ro1.IgnoreVulns = callerIgnore
	func() {
		defer func() {
			if r := recover(); r != nil {
				tr.Run1Err = fmt.Sprintf("panic: %v", r)
			}
		}()
		res, err := gr.FixVulns(options.FixVulnsOptions{
			Manifest: p1, Strategy: strat, MaxUpgrades: o.MaxUpgrades, NoIntroduce: o.NoIntroduce,
			MatcherClient: vm, ResolveClient: cl, RemediationOptions: ro1,
		})
		if err != nil {
			tr.Run1Err = err.Error()
		}
		tr.ResVulns = convVulns(res.Vulnerabilities)
		tr.ResPatches = convPatches(sys, res.Patches)
	}()
	tr.OptsAfter = callerIgnore
	agrees := func() bool {
		return tr.TraceErr == "" && patchesEqual(wantP, tr.ResPatches) && fmt.Sprintf("%+v", wantV) == fmt.Sprintf("%+v", tr.ResVulns)
	}
	// The candidate list of a strategy is not a function of its inputs: common.ComputePatches
	// removes "duplicates" with result.Patch.Compare, which does not look at aliases, VersionFrom or
	// the fixed IDs, so of two different patches that compare equal the one whose goroutine finished
	// first survives (observed with one npm package required under two aliases; reported). The
	// trace is a second execution; it is repeated until it is the execution run 1 had.
	for tr.TraceRetries = 0; !agrees() && tr.TraceErr == "" && tr.Run1Err == "" && tr.TraceRetries < 8; tr.TraceRetries++ {
		doTrace()
	}
	tr.TraceAgrees = agrees()
	after, _ := os.ReadFile(p1)
	tr.BytesChanged = string(after) != u.Manifest

	// ---- run 2: fresh analysis of the written file, same options
	func() {
		defer func() {
			if r := recover(); r != nil {
				tr.Run2Err = fmt.Sprintf("panic: %v", r)
			}
		}()
		ro := o.remediation()
		a2, err := gr.VerifC12Analyze(ctx, cl, vm, p1, "", &ro)
		if err != nil {
			tr.Run2Err = err.Error()
			return
		}
		tr.A2 = convAnalysis(sys, a2)
		tr.Rerun = sortedCopy(a2.Kept)
	}()
	// ---- run 2b: a literal second FixVulns on a copy of the written file
	func() {
		defer func() {
			if r := recover(); r != nil {
				tr.Run2bErr = fmt.Sprintf("panic: %v", r)
			}
		}()
		d := filepath.Join(dir, "run2b")
		_ = os.MkdirAll(d, 0o755)
		p2 := filepath.Join(d, u.File)
		_ = os.WriteFile(p2, after, 0o644)
		res, err := gr.FixVulns(options.FixVulnsOptions{
			Manifest: p2, Strategy: strat, MaxUpgrades: o.MaxUpgrades, NoIntroduce: o.NoIntroduce,
			MatcherClient: vm, ResolveClient: cl, RemediationOptions: o.remediation(),
		})
		if err != nil {
			tr.Run2bErr = err.Error()
			return
		}
		for _, v := range res.Vulnerabilities {
			tr.RerunFix = append(tr.RerunFix, v.ID)
		}
		sort.Strings(tr.RerunFix)
	}()
	return tr
}

func short(s string) string {
	s = strings.ReplaceAll(s, "\n", " ")
	if len(s) > 160 {
		return s[:160]
	}
	return s
}

// Command reanalysis is the harness of property C12 (a reported fix is a real fix).
//
// It generates, from one PRNG seed,
//   - two-run cases: a dependency universe (deps.dev resolve/schema text -> offline resolve client),
//     a manifest (package.json / pom.xml in a scratch directory), OSV records served by an in-memory
//     matcher, and options; the real guidedremediation.FixVulns is run on the manifest, then the
//     written file is analysed afresh with the same options (see run.go);
//   - synthetic cases for ConstructPatches, choosePatches, computeVulnsResult and MatchVuln;
//
// and writes (a) a Coq file with one chunked list per case kind and (b) a JSONL side file.
package main

import (
	"encoding/json"
	"flag"
	"fmt"
	"math/rand"
	"os"
	"strings"
	"time"

	"verifharness/internal/coqfmt"
)

type anyCase interface{ coq() string }

// TwoRunCase wraps TwoRun for output.
type TwoRunCase struct {
	Kind   string `json:"kind"`
	Stream string `json:"stream"`
	OK     bool   `json:"ok"`
	*TwoRun
}

func (c *TwoRunCase) coq() string {
	tr := c.TwoRun
	o := tr.Opts
	a0 := canonAnalysis(tr.A0, o.Ignore)
	a2 := canonAnalysis(tr.A2, o.Ignore)
	col := newCollector()
	col.s(o.Ignore...)
	col.s(o.Explicit...)
	col.analysis(a0)
	col.analysis(a2)
	col.patches(tr.AllPatches)
	col.patches(tr.ResPatches)
	col.vulns(tr.ResVulns)
	col.s(tr.Rerun...)
	col.s(tr.RerunFix...)
	var cands []Cand
	for _, cd := range tr.Cands {
		cd.Analysis = canonAnalysis(cd.Analysis, nil)
		col.analysis(cd.Analysis)
		col.patch(cd.Reconstructed)
		cands = append(cands, cd)
	}
	t := col.build()
	cs := make([]string, len(cands))
	for i, cd := range cands {
		cs[i] = fmt.Sprintf("(Build_cand %s %s %s)", t.reqList(cd.Analysis.Reqs), t.fvList(cd.Analysis.All), t.patch(cd.Reconstructed))
	}
	return fmt.Sprintf("(Build_tcase %s (%d)%%Z %v %s %v\n      %s %s\n      %s\n      %s\n      %s %s\n      %s %s %s %s)",
		t.opts(o.Ignore, o.Explicit, o.DevDeps), o.MaxUpgrades, o.NoIntroduce, t.mgmt(), c.OK,
		t.reqList(a0.Reqs), t.fvList(a0.All),
		t.patchList(tr.AllPatches),
		coqfmt.List(cs),
		t.rvulnList(tr.ResVulns), t.patchList(tr.ResPatches),
		t.reqList(a2.Reqs), t.fvList(a2.All), t.strList(tr.Rerun), t.strList(tr.RerunFix))
}

func wrapTwoRun(tr *TwoRun, stream string) *TwoRunCase {
	ok := tr.TraceErr == "" && tr.Run1Err == "" && tr.Run2Err == "" && tr.Run2bErr == ""
	for _, cd := range tr.Cands {
		if cd.Err != "" {
			ok = false
		}
	}
	return &TwoRunCase{Kind: "tworun", Stream: stream, OK: ok, TwoRun: tr}
}

type kindOut struct {
	name, ty string
	items    []string
}

func main() {
	seed := flag.Int64("seed", 1, "PRNG seed")
	out := flag.String("out", "", "Coq cases file")
	side := flag.String("jsonl", "", "JSONL side file")
	nTwo := flag.Int("tworun", 200, "two-run cases (mixed options)")
	nExp := flag.Int("explicit", 60, "two-run cases with an explicit vulnerability list")
	nPin := flag.Int("pinned", 40, "two-run cases with every vulnerable transitive package configured upgrade level none")
	nFlip := flag.Int("devflip", 12, "boundary two-run cases built on purpose: n dev-flip (a dev-only vulnerability stops being dev-only after the patch), 5n alias-twin (one npm package under its own name and aliases), 2n maven-test-scope")
	nOdd := flag.Int("odd", 20, "two-run cases with package names that need escaping in a gjson path (dots, wildcards)")
	nCon := flag.Int("construct", 300, "synthetic ConstructPatches cases (structured)")
	nWild := flag.Int("wild", 150, "synthetic ConstructPatches cases (duplicates, removals, odd types)")
	nCho := flag.Int("choose", 300, "synthetic choosePatches cases")
	nVr := flag.Int("vresult", 150, "synthetic computeVulnsResult cases")
	nMat := flag.Int("match", 150, "synthetic MatchVuln cases")
	per := flag.Int("per", 100, "cases per Coq chunk")
	replay := flag.String("replay", "", "JSON file with {universe, opts}: run the two-run protocol on it")
	pickArg := flag.String("pick", "", "kind:index - regenerate the stream but keep only that case (kind = ccases|hcases|vcases|fcases|tcases|gcases) and print it")
	wdms := flag.Int("watchdog-ms", 30000, "per-case watchdog in milliseconds (the confirmation deadline is ten times this)")
	flag.Parse()
	watchdog = time.Duration(*wdms) * time.Millisecond
	confirmDeadline = 10 * watchdog

	dir, err := os.MkdirTemp("", "c12-")
	if err != nil {
		panic(err)
	}
	defer os.RemoveAll(dir)

	var sideW *os.File
	if *side != "" {
		sideW, err = os.Create(*side)
		if err != nil {
			panic(err)
		}
		defer sideW.Close()
	}
	pickKind, pickIdx := "", -1
	if *pickArg != "" {
		if _, err := fmt.Sscanf(strings.Replace(*pickArg, ":", " ", 1), "%s %d", &pickKind, &pickIdx); err != nil {
			panic(err)
		}
	}
	counts := map[string]int{}
	emit := func(k *kindOut, c anyCase) {
		idx := counts[k.name]
		counts[k.name]++
		if pickKind != "" {
			if k.name != pickKind || idx != pickIdx {
				return
			}
			b, _ := json.MarshalIndent(c, "", " ")
			fmt.Println(string(b))
			fmt.Println("coq-case: " + c.coq())
		}
		k.items = append(k.items, c.coq())
		if sideW != nil {
			b, err := json.Marshal(c)
			if err != nil {
				panic(err)
			}
			sideW.Write(append(b, '\n'))
		}
	}
	kc := &kindOut{name: "ccases", ty: "ccase"}
	kh := &kindOut{name: "hcases", ty: "hcase"}
	kv := &kindOut{name: "vcases", ty: "vcase"}
	kf := &kindOut{name: "fcases", ty: "fcase"}
	kt := &kindOut{name: "tcases", ty: "tcase"}
	kg := &kindOut{name: "gcases", ty: "gcase"}

	if *replay != "" {
		b, err := os.ReadFile(*replay)
		if err != nil {
			panic(err)
		}
		var w struct {
			Witness *struct {
				Universe *Universe `json:"universe"`
				Opts     Opts      `json:"opts"`
			} `json:"witness"`
			Case *struct {
				Universe *Universe `json:"universe"`
				Opts     Opts      `json:"opts"`
				Case     *struct {
					Universe *Universe `json:"universe"`
					Opts     Opts      `json:"opts"`
				} `json:"case"`
			} `json:"case"`
			Universe *Universe `json:"universe"`
			Opts     Opts      `json:"opts"`
		}
		if err := json.Unmarshal(b, &w); err != nil {
			panic(err)
		}
		u, o := w.Universe, w.Opts
		if w.Witness != nil && w.Witness.Universe != nil {
			u, o = w.Witness.Universe, w.Witness.Opts
		}
		if w.Case != nil && w.Case.Universe != nil {
			u, o = w.Case.Universe, w.Case.Opts
		}
		if w.Case != nil && w.Case.Case != nil && w.Case.Case.Universe != nil {
			u, o = w.Case.Case.Universe, w.Case.Case.Opts
		}
		if u == nil {
			fmt.Fprintln(os.Stderr, "replay file has no universe")
			os.Exit(2)
		}
		tr := runTwoRun(u, o, dir, 8)
		c := wrapTwoRun(tr, "replay")
		emit(kt, c)
		hb, _ := json.MarshalIndent(map[string]any{
			"opts": o, "run1_err": tr.Run1Err, "reported_vulnerabilities": tr.ResVulns, "reported_patches": tr.ResPatches,
			"requirements_before": tr.A0.Reqs, "requirements_after": tr.A2.Reqs,
			"fresh_analysis_ids": tr.Rerun, "second_fixvulns_ids": tr.RerunFix,
		}, "", " ")
		fmt.Println(string(hb))
		fmt.Println("coq-case: " + c.coq())
	} else {
		r := rand.New(rand.NewSource(*seed))
		two := func(n int, stream string, explicit, odd, pinned bool) {
			for i := 0; i < n; i++ {
				sys := "npm"
				if i%2 == 1 && !odd {
					sys = "maven"
				}
				u := genUniverse(r, sys, odd, pinned)
				o := genOpts(r, u, explicit, pinned)
				tr := runTwoRun(u, o, fmt.Sprintf("%s/%s%d", dir, stream, i), 4)
				os.RemoveAll(fmt.Sprintf("%s/%s%d", dir, stream, i))
				c := wrapTwoRun(tr, stream)
				emit(kt, c)
				if c.OK {
					emit(kf, filterFromAnalysis(o, tr.A0))
					emit(kg, graphFromAnalysis(o, tr.A0))
					if tr.BytesChanged {
						emit(kf, filterFromAnalysis(o, tr.A2))
						emit(kg, graphFromAnalysis(o, tr.A2))
					}
				}
			}
		}
		two(*nTwo, "mixed", false, false, false)
		two(*nExp, "explicit", true, false, false)
		two(*nOdd, "odd-names", false, true, false)
		two(*nPin, "pinned-transitive", false, false, true)
		templ := func(n int, stream string, gen func(*rand.Rand) (*Universe, Opts)) {
			for i := 0; i < n; i++ {
				u, o := gen(r)
				d := fmt.Sprintf("%s/%s%d", dir, stream, i)
				tr := runTwoRun(u, o, d, 4)
				os.RemoveAll(d)
				c := wrapTwoRun(tr, stream)
				emit(kt, c)
				if c.OK {
					emit(kf, filterFromAnalysis(o, tr.A0))
					emit(kg, graphFromAnalysis(o, tr.A0))
				}
			}
		}
		templ(*nFlip, "dev-flip", genDevFlip)
		templ(*nFlip*5, "alias-twin", genAliasTwin)
		templ(*nFlip*2, "maven-test-scope", genMavenTestScope)
		for i := 0; i < *nCon; i++ {
			emit(kc, genConstruct(r, false))
		}
		for i := 0; i < *nWild; i++ {
			emit(kc, genConstruct(r, true))
		}
		for i := 0; i < *nCho; i++ {
			emit(kh, genChoose(r))
		}
		for i := 0; i < *nVr; i++ {
			emit(kv, genVulnsResult(r))
		}
		for i := 0; i < *nMat; i++ {
			emit(kf, genMatch(r))
		}
	}

	if *out != "" {
		var sb strings.Builder
		sb.WriteString(coqHeader)
		for _, k := range []*kindOut{kc, kh, kv, kf, kt, kg} {
			sb.WriteString(coqfmt.Chunked(k.name, k.ty, k.items, *per))
		}
		if err := os.WriteFile(*out, []byte(sb.String()), 0o644); err != nil {
			panic(err)
		}
	}
	fmt.Fprintf(os.Stderr, "cases: construct=%d choose=%d vresult=%d filter=%d tworun=%d graph=%d\n",
		len(kc.items), len(kh.items), len(kv.items), len(kf.items), len(kt.items), len(kg.items))
}

package main

// Printing of cases as Coq terms. Strings of one case become their rank under Go string
// comparison ("" is always rank 0); dep.Types become (rank under dep.Type.Compare, id of the
// key-relevant part, origin class).

import (
	"fmt"
	"sort"
	"strings"

	"deps.dev/util/resolve/dep"
	"verifharness/internal/coqfmt"
)

type tables struct {
	strs  map[string]int
	types []dep.Type
	trank []int
	tks   map[string]int
}

func mgmtType() dep.Type {
	t := dep.NewType()
	t.AddAttr(dep.MavenDependencyOrigin, "management")
	return t
}

type collector struct {
	strs  map[string]bool
	types []dep.Type
	tks   map[string]bool
}

func newCollector() *collector {
	c := &collector{strs: map[string]bool{"": true}, tks: map[string]bool{"": true}}
	c.types = append(c.types, mgmtType())
	return c
}
func (c *collector) s(xs ...string) {
	for _, x := range xs {
		c.strs[x] = true
	}
}
func (c *collector) reqs(rs []Req) {
	for _, r := range rs {
		c.s(r.Name, r.Version)
		c.types = append(c.types, r.typ)
		c.tks[r.TK] = true
	}
}
func (c *collector) vulns(vs []Vuln) {
	for _, v := range vs {
		c.s(v.ID)
		for _, p := range v.Packages {
			c.s(p[0], p[1])
		}
	}
}
func (c *collector) patch(p Patch) {
	for _, u := range p.Updates {
		c.s(u.Name, u.From, u.To)
		c.types = append(c.types, u.typ)
		c.tks[u.TK] = true
	}
	c.vulns(p.Fixed)
	c.vulns(p.Introduced)
}
func (c *collector) patches(ps []Patch) {
	for _, p := range ps {
		c.patch(p)
	}
}
func (c *collector) fvs(vs []FV) {
	for _, v := range vs {
		c.s(v.ID)
		c.s(v.Aliases...)
		for _, p := range v.Packages {
			c.s(p[0], p[1])
		}
	}
}
func (c *collector) analysis(a Analysis) {
	c.reqs(a.Reqs)
	c.fvs(a.All)
	c.s(a.Kept...)
	c.s(a.IgnoreAfter...)
}

func (c *collector) build() *tables {
	t := &tables{strs: map[string]int{}, tks: map[string]int{}}
	var ss []string
	for s := range c.strs {
		ss = append(ss, s)
	}
	sort.Strings(ss)
	for i, s := range ss {
		t.strs[s] = i
	}
	var ks []string
	for k := range c.tks {
		ks = append(ks, k)
	}
	sort.Strings(ks)
	for i, k := range ks {
		t.tks[k] = i
	}
	// distinct types, sorted by dep.Type.Compare
	ts := append([]dep.Type(nil), c.types...)
	sort.SliceStable(ts, func(i, j int) bool { return ts[i].Compare(ts[j]) < 0 })
	for _, x := range ts {
		if n := len(t.types); n > 0 && t.types[n-1].Compare(x) == 0 {
			continue
		}
		t.types = append(t.types, x)
	}
	return t
}

func (t *tables) str(s string) string {
	i, ok := t.strs[s]
	if !ok {
		panic("string not collected: " + s)
	}
	return fmt.Sprintf("%d", i)
}
func (t *tables) strList(xs []string) string {
	items := make([]string, len(xs))
	for i, x := range xs {
		items[i] = t.str(x)
	}
	return coqfmt.List(items)
}
func originClass(o string) int {
	switch o {
	case "":
		return 0
	case "management":
		return 1
	default:
		return 2
	}
}
func (t *tables) typ(x dep.Type, tk, origin string) string {
	rank := -1
	for i, y := range t.types {
		if y.Compare(x) == 0 {
			rank = i
		}
	}
	if rank < 0 {
		panic("type not collected")
	}
	return fmt.Sprintf("(T %d %d %d)", rank, t.tks[tk], originClass(origin))
}
func (t *tables) mgmt() string { return t.typ(mgmtType(), "", "management") }

func (t *tables) req(r Req) string {
	return fmt.Sprintf("(R %s %s %s)", t.str(r.Name), t.str(r.Version), t.typ(r.typ, r.TK, r.Origin))
}
func (t *tables) reqList(rs []Req) string {
	items := make([]string, len(rs))
	for i, r := range rs {
		items[i] = t.req(r)
	}
	return coqfmt.List(items)
}
func (t *tables) pkgs(ps [][2]string) string {
	items := make([]string, len(ps))
	for i, p := range ps {
		items[i] = fmt.Sprintf("(%s,%s)", t.str(p[0]), t.str(p[1]))
	}
	return coqfmt.List(items)
}
func (t *tables) vuln(v Vuln) string {
	return fmt.Sprintf("(V %s %s)", t.str(v.ID), t.pkgs(v.Packages))
}
func (t *tables) vulnList(vs []Vuln) string {
	items := make([]string, len(vs))
	for i, v := range vs {
		items[i] = t.vuln(v)
	}
	return coqfmt.List(items)
}
func (t *tables) rvulnList(vs []Vuln) string {
	items := make([]string, len(vs))
	for i, v := range vs {
		items[i] = fmt.Sprintf("(RV %s %s %s)", t.str(v.ID), t.pkgs(v.Packages), coqfmt.Bool(v.Unactionable))
	}
	return coqfmt.List(items)
}
func (t *tables) patch(p Patch) string {
	items := make([]string, len(p.Updates))
	for i, u := range p.Updates {
		items[i] = fmt.Sprintf("(U %s %s %s %s %s)", t.str(u.Name), t.str(u.From), t.str(u.To), t.typ(u.typ, u.TK, u.Origin), coqfmt.Bool(u.Transitive))
	}
	return fmt.Sprintf("(P %s %s %s)", coqfmt.List(items), t.vulnList(p.Fixed), t.vulnList(p.Introduced))
}
func (t *tables) patchList(ps []Patch) string {
	items := make([]string, len(ps))
	for i, p := range ps {
		items[i] = t.patch(p)
	}
	return coqfmt.List(items)
}
func (t *tables) fv(v FV) string {
	return fmt.Sprintf("(F %s %s %s %s %s %s)", t.str(v.ID), t.strList(v.Aliases), coqfmt.Bool(v.DevOnly), coqfmt.Bool(v.SevOK), coqfmt.Bool(v.DepthOK), t.pkgs(v.Packages))
}
func (t *tables) fvList(vs []FV) string {
	items := make([]string, len(vs))
	for i, v := range vs {
		items[i] = t.fv(v)
	}
	return coqfmt.List(items)
}
func (t *tables) opts(ignore, explicit []string, dev bool) string {
	return fmt.Sprintf("(O %s %s %s)", t.strList(ignore), t.strList(explicit), coqfmt.Bool(dev))
}

const coqHeader = `From Coq Require Import List ZArith NArith Bool.
From Scalibr Require Import Reanalysis.Patch Reanalysis.Cases.
Import ListNotations.
Open Scope N_scope.
Notation T := Build_rtype.
Notation R := Build_req.
Notation V := Build_vuln.
Notation U := Build_update.
Notation P := Build_patch.
Notation F := Build_fvuln.
Notation O := Build_ropts.
Notation RV := Build_rvuln.
Notation M := Build_resolved.
`

// canonical order for the unordered parts of an analysis (Go map iteration order)
func canonAnalysis(a Analysis, ignoreBefore []string) Analysis {
	out := a
	out.All = append([]FV(nil), a.All...)
	sort.SliceStable(out.All, func(i, j int) bool { return out.All[i].ID < out.All[j].ID })
	out.Kept = sortedCopy(a.Kept)
	n := len(ignoreBefore)
	if len(a.IgnoreAfter) >= n {
		out.IgnoreAfter = append(append([]string(nil), a.IgnoreAfter[:n]...), sortedCopy(a.IgnoreAfter[n:])...)
	}
	return out
}

func keptVulns(a Analysis) []Vuln {
	var out []Vuln
	kept := map[string]bool{}
	for _, k := range a.Kept {
		kept[k] = true
	}
	for _, v := range a.All {
		if kept[v.ID] {
			out = append(out, Vuln{ID: v.ID, Packages: v.Packages})
		}
	}
	return out
}

func joinIDs(xs []string) string { return strings.Join(xs, ",") }
